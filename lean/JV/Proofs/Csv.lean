import JV.Model.Csv
namespace JV
namespace Model
namespace Csv

theorem scanQuoted_roundtrip (o : Opts) (hc : o.Compatible) (rest : Bytes) (hrest : rest = [] ∨ ∃ t r, rest = t :: r ∧ isTerm o t = true) :
    ∀ (s acc : Bytes), scanQuoted o acc (escapeField o true s ++ o.quote :: rest) = .ok (acc ++ s, rest)
  | [], acc => by
    obtain ⟨h1, h2, h3, h4, h5, h6⟩ := hc
    simp only [escapeField, List.nil_append, List.append_nil]
    rcases hrest with rfl | ⟨t, r, rfl, ht⟩
    · simp only [scanQuoted]
      by_cases e : o.quote = o.esc
      · simp [e]
      · simp [e]
    · have htq : t ≠ o.quote := by
        simp only [isTerm, Bool.or_eq_true, decide_eq_true_eq] at ht
        rcases ht with (rfl | rfl) | rfl
        · exact h1
        · exact fun e => h4 e.symm
        · exact fun e => h5 e.symm
      simp only [scanQuoted]
      by_cases e : o.quote = o.esc
      · simp [e, e ▸ htq]
      · simp [e]
  | c :: s, acc => by
    have ih := scanQuoted_roundtrip o hc rest hrest s
    obtain ⟨h1, h2, h3, h4, h5, h6⟩ := hc
    simp only [escapeField]
    by_cases hq : c = o.quote
    · subst hq
      simp only [if_true, List.cons_append]
      -- esc, quote, …
      rw [scanQuoted]
      · simp only [if_true]
        rw [ih]; simp
      all_goals simp
    · simp only [hq, if_false, Bool.true_and, decide_eq_true_eq]
      by_cases he : c = o.esc
      · subst he
        simp only [if_true, List.cons_append]
        rw [scanQuoted]
        · simp only [if_true, hq, if_false]
          rw [ih]; simp
        all_goals simp
      · simp only [he, if_false, List.cons_append]
        -- a plain character: the next element exists (at least the closing quote)
        cases hs : escapeField o true s ++ o.quote :: rest with
        | nil => simp at hs
        | cons d tl =>
          rw [scanQuoted]
          · simp only [he, if_false, hq]
            rw [← hs, ih]; simp
          all_goals simp

theorem escapeField_plain (o : Opts) (q : Bool) : ∀ (s : Bytes), (∀ c ∈ s, c ≠ o.quote) → (q = false ∨ ∀ c ∈ s, c ≠ o.esc) → escapeField o q s = s
  | [], _, _ => rfl
  | c :: s, h, h2 => by
    have hq : c ≠ o.quote := h c (by simp)
    have ih := escapeField_plain o q s (fun d hd => h d (List.mem_cons_of_mem _ hd))
      (h2.imp id (fun h' d hd => h' d (List.mem_cons_of_mem _ hd)))
    simp only [escapeField, hq, if_false]
    rcases h2 with rfl | h2
    · simp [ih]
    · have : c ≠ o.esc := h2 c (by simp)
      simp [this, ih]

theorem scanUnquoted_plain (o : Opts) (rest : Bytes) (hrest : rest = [] ∨ ∃ t r, rest = t :: r ∧ isTerm o t = true) :
    ∀ (s acc : Bytes), (∀ c ∈ s, isTerm o c = false ∧ c ≠ o.quote) → scanUnquoted o acc (s ++ rest) = .ok (false, acc ++ s, rest)
  | [], acc, _ => by
    rcases hrest with rfl | ⟨t, r, rfl, ht⟩
    · simp [scanUnquoted]
    · simp [scanUnquoted, ht]
  | c :: s, acc, h => by
    have hc := h c (by simp)
    simp only [List.cons_append, scanUnquoted, hc.1, Bool.false_eq_true, if_false, hc.2]
    rw [scanUnquoted_plain o rest hrest s (acc ++ [c]) (fun d hd => h d (List.mem_cons_of_mem _ hd))]
    simp

theorem not_needsQuote {o : Opts} {s : Bytes} (h : needsQuote o s = false) : ∀ c ∈ s, isTerm o c = false ∧ c ≠ o.quote := by
  intro c hc
  simp only [needsQuote, List.any_eq_false, Bool.or_eq_true, decide_eq_true_eq, not_or] at h
  have := h c hc
  refine ⟨?_, this.1.1.2⟩
  simp [isTerm, this.1.1.1, this.1.2, this.2]

/-- **Field round trip.** Under quote styles minimal, all and nonnumeric, whatever the field contains, the parser reads
    back exactly the field the encoder wrote, and stops in front of the terminator that follows it. -/
theorem field_roundtrip (o : Opts) (hc : o.Compatible) (st : Style) (hst : st ≠ .none) (s rest : Bytes)
    (hrest : rest = [] ∨ ∃ t r, rest = t :: r ∧ isTerm o t = true) :
    scanField o (writeField o st s ++ rest) = .ok (quotes o st s, s, rest) := by
  unfold scanField writeField
  by_cases hq : quotes o st s = true
  · simp only [hq, if_true, List.cons_append, List.append_assoc, scanUnquoted]
    have hnt : isTerm o o.quote = false := by
      obtain ⟨h1, h2, h3, h4, h5, _⟩ := hc
      simp [isTerm, h4, h5]; exact fun e => h1 e.symm
    simp only [hnt, Bool.false_eq_true, if_false, if_true]
    have := scanQuoted_roundtrip o hc rest hrest s []
    simp only [List.nil_append] at this
    rw [List.nil_append, this]
  · have hq' : quotes o st s = false := by simpa using hq
    simp only [hq', Bool.false_eq_true, if_false]
    have hmin : st = .minimal ∧ needsQuote o s = false := by
      cases st <;> simp_all [quotes]
    have hplain := not_needsQuote hmin.2
    rw [escapeField_plain o false s (fun c hc' => (hplain c hc').2) (Or.inl rfl)]
    have := scanUnquoted_plain o rest hrest s [] hplain
    simpa using this

/-- in particular a field with a delimiter, a quote or a line break in it is always written quoted -/
theorem special_field_is_quoted (o : Opts) (st : Style) (hst : st ≠ .none) (s : Bytes) (h : needsQuote o s = true) :
    quotes o st s = true := by
  cases st <;> simp_all [quotes]

/-! ### rows -/

theorem row_roundtrip (o : Opts) (hc : o.Compatible) (st : Style) (hst : st ≠ .none) (tail : Bytes)
    (htail : tail = [] ∨ ∃ t r, tail = t :: r ∧ (t = 10 ∨ t = 13)) :
    ∀ (fields : List Bytes), fields ≠ [] → ∀ fuel, fields.length ≤ fuel →
      scanRow o fuel (writeRow o st fields ++ tail) = .ok (fields, tail)
  | [], h, _, _ => absurd rfl h
  | [f], _, fuel, hf => by
    cases fuel with
    | zero => simp at hf
    | succ fuel =>
      have htail' : tail = [] ∨ ∃ t r, tail = t :: r ∧ isTerm o t = true := by
        rcases htail with h | ⟨t, r, e, ht⟩
        · exact Or.inl h
        · refine Or.inr ⟨t, r, e, ?_⟩
          rcases ht with rfl | rfl <;> simp [isTerm]
      simp only [writeRow, scanRow, field_roundtrip o hc st hst f tail htail']
      rcases htail with rfl | ⟨t, r, rfl, ht⟩
      · rfl
      · have hd : t ≠ o.delim := by
          obtain ⟨_, h2, h3, _⟩ := hc
          rcases ht with rfl | rfl
          · exact fun e => h2 e.symm
          · exact fun e => h3 e.symm
        have : isTerm o t = true := by rcases ht with rfl | rfl <;> simp [isTerm]
        simp [hd, this]
  | f :: g :: fs, _, fuel, hf => by
    cases fuel with
    | zero => simp at hf
    | succ fuel =>
      have hrest : (o.delim :: (writeRow o st (g :: fs) ++ tail)) = [] ∨
          ∃ t r, (o.delim :: (writeRow o st (g :: fs) ++ tail)) = t :: r ∧ isTerm o t = true :=
        Or.inr ⟨_, _, rfl, by simp [isTerm]⟩
      have := field_roundtrip o hc st hst f _ hrest
      simp only [writeRow, scanRow, List.append_assoc, List.cons_append, this, if_true]
      rw [row_roundtrip o hc st hst tail htail (g :: fs) (by simp) fuel (by simp at hf ⊢; omega)]

end Csv
end Model
end JV
