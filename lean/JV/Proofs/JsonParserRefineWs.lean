/-
  JV.Proofs.JsonParserRefineWs — first layer of the refinement proof "the parser model accepts every text the RFC 8259 reference
  accepts": the cells of the state machine that skip white space (with the one-character delay of the `cr` state), the
  cells that start a value, and the literals `true` / `false` / `null`.

  All lemmas are phrased on the REMAINING INPUT: "from state `s` with input `a` the machine ends like from state `s'` with input
  `b`", i.e. `finish (feed cfg s a) = finish (feed cfg s' b)`. This absorbs the two places where the machine lags one character behind
  the grammar (a number ends when the next character arrives or the input ends; a CR is popped by the next character).
-/
import JV.Proofs.JsonParser
namespace JV
namespace Model
namespace JsonParser
open Spec.Rfc8259 (isWs skipWs)

/-! ### states -/

/-- the states that skip white space -/
def wsState : PS → Bool
  | .start | .expectCommaOrEnd | .expectMemberNameOrEnd | .expectMemberName | .expectColon | .expectValue | .expectValueOrEnd => true
  | _ => false

/-- the states in which a value may start -/
def vState : PS → Bool
  | .start | .expectValue | .expectValueOrEnd => true
  | _ => false

theorem vState_ws {p : PS} (h : vState p = true) : wsState p = true := by
  cases p <;> simp_all [vState, wsState]

/-- in every state but `number`, `slashSlash`, `cr` the character is consumed -/
theorem stepChar_consumed (cfg : Cfg) (s : St) (c : Nat) (h1 : s.st ≠ .number) (h2 : s.st ≠ .slashSlash) (h3 : s.st ≠ .cr) :
    (stepChar cfg s c).2 = true := by
  unfold stepChar
  cases hst : s.st <;> simp only [] <;> (repeat' split) <;> simp_all

theorem feedChar_of_consumed (cfg : Cfg) (s : St) (c : Nat) (he : s.err = none) (h : (stepChar cfg s c).2 = true) :
    feedChar cfg s c = (stepChar cfg s c).1 := by
  simp [feedChar, he, h]

theorem feed_cons (cfg : Cfg) (s : St) (c : Nat) (cs : Bytes) : feed cfg s (c :: cs) = feed cfg (feedChar cfg s c) cs := rfl
theorem feed_nil (cfg : Cfg) (s : St) : feed cfg s [] = s := rfl

/-- a state reached by a step that did not consume the character hands the character to the next state -/
theorem feedChar_redispatch (cfg : Cfg) (s s1 : St) (c : Nat) (he : s.err = none) (h : stepChar cfg s c = (s1, false))
    (he1 : s1.err = none) (hc : (stepChar cfg s1 c).2 = true) : feedChar cfg s c = feedChar cfg s1 c := by
  rw [feedChar_of_consumed cfg s1 c he1 hc]
  simp [feedChar, he, h, he1, hc]

/-! ### white space -/

theorem feedChar_ws_plain (cfg : Cfg) (s : St) (c : Nat) (hs : wsState s.st = true) (he : s.err = none)
    (hc : c = 32 ∨ c = 9 ∨ c = 10) : feedChar cfg s c = s := by
  have hctl : isCtl c = false := by rcases hc with rfl | rfl | rfl <;> decide
  have hsp : spaceOrSlash s c = some s := by simp [spaceOrSlash, hc]
  cases hst : s.st <;> simp [wsState, hst] at hs <;> simp [feedChar, he, stepChar, hst, hctl, hsp]

/-- the state after a CR -/
def crOf (s : St) : St := { (push s s.st) with st := .cr }

theorem feedChar_ws_cr (cfg : Cfg) (s : St) (hs : wsState s.st = true) (he : s.err = none) : feedChar cfg s 13 = crOf s := by
  have hctl : isCtl 13 = false := by decide
  have hsp : spaceOrSlash s 13 = some (crOf s) := by simp [spaceOrSlash, crOf]
  cases hst : s.st <;> simp [wsState, hst] at hs <;> simp [feedChar, he, stepChar, hst, hctl, hsp]

theorem popTo_crOf (s : St) : popTo (crOf s) = s := by
  cases s; simp [popTo, crOf, push]

theorem cr_feedChar (cfg : Cfg) (s : St) (c : Nat) (hs : wsState s.st = true) (he : s.err = none) :
    feedChar cfg (crOf s) c = feedChar cfg s c := by
  have hcons : (stepChar cfg s c).2 = true := by
    apply stepChar_consumed <;> (intro h; simp [h, wsState] at hs)
  by_cases h10 : c = 10
  · subst h10
    rw [feedChar_ws_plain cfg s 10 hs he (by simp)]
    have e : (crOf s).st = .cr := rfl
    have h1 : stepChar cfg (crOf s) 10 = (s, true) := by simp [stepChar, e, popTo_crOf]
    have h2 := feedChar_of_consumed cfg (crOf s) 10 (by simp [crOf, push, he]) (by rw [h1])
    rw [h2, h1]
  · have h1 : stepChar cfg (crOf s) c = (s, false) := by
      have e : (crOf s).st = .cr := rfl
      simp [stepChar, e, h10, popTo_crOf]
    exact feedChar_redispatch cfg (crOf s) s c (by simp [crOf, push, he]) h1 he hcons

theorem cr_finish (s : St) (hs : wsState s.st = true) (he : s.err = none) : finish (crOf s) = finish s := by
  have e : (crOf s).st = .cr := rfl
  have ee : (crOf s).err = none := by simp [crOf, push, he]
  have ep : parent (crOf s) = s.st := by simp [parent, crOf, push]
  have h1 : finish1 (crOf s) = if s.st = .start then fail s eUnexpectedEof else s := by
    simp [finish1, e, ep, popTo_crOf]
  have h2 : finish1 s = fail s eUnexpectedEof := by
    cases hst : s.st <;> simp [wsState, hst] at hs <;> simp [finish1, hst]
  by_cases hst : s.st = .start
  · simp [finish, ee, he, h1, h2, hst, fail]
  · have hd : s.st ≠ .done := by intro h; simp [h, wsState] at hs
    simp [finish, ee, he, h1, h2, hst, fail, hd]

theorem cr_feed (cfg : Cfg) (s : St) (xs : Bytes) (hs : wsState s.st = true) (he : s.err = none) :
    finish (feed cfg (crOf s) xs) = finish (feed cfg s xs) := by
  cases xs with
  | nil => exact cr_finish s hs he
  | cons c cs => rw [feed_cons, feed_cons, cr_feedChar cfg s c hs he]

/-- `ws` of the grammar (no comments) -/
def dropWs (s : Bytes) : Bytes := s.dropWhile isWs

theorem skipWs_eq : ∀ (n : Nat) (s : Bytes), s.length < n → skipWs false n s = some (dropWs s)
  | 0, _, h => by omega
  | n + 1, [], _ => by simp [skipWs, dropWs]
  | n + 1, c :: cs, h => by
    by_cases hw : isWs c = true
    · simp only [skipWs, hw, if_true, dropWs, List.dropWhile_cons]
      exact skipWs_eq n cs (by simp at h; omega)
    · simp [skipWs, hw, dropWs]

theorem isWs_iff (c : Nat) : isWs c = true ↔ (c = 32 ∨ c = 9 ∨ c = 10 ∨ c = 13) := by
  simp [isWs, or_assoc]

/-- white space is skipped in the seven space-skipping states, with nothing reported -/
theorem feed_dropWs (cfg : Cfg) (s0 : St) (hs : wsState s0.st = true) (he : s0.err = none) : ∀ (s : Bytes),
    finish (feed cfg s0 s) = finish (feed cfg s0 (dropWs s))
  | [] => rfl
  | c :: cs => by
    by_cases hw : isWs c = true
    · have e : dropWs (c :: cs) = dropWs cs := by simp [dropWs, hw]
      rw [e, ← feed_dropWs cfg s0 hs he cs, feed_cons]
      rcases (isWs_iff c).1 hw with h | h | h | h
      · rw [feedChar_ws_plain cfg s0 c hs he (by simp [h])]
      · rw [feedChar_ws_plain cfg s0 c hs he (by simp [h])]
      · rw [feedChar_ws_plain cfg s0 c hs he (by simp [h])]
      · subst h; rw [feedChar_ws_cr cfg s0 hs he, cr_feed cfg s0 cs hs he]
    · have e : dropWs (c :: cs) = c :: cs := by simp [dropWs, hw]
      rw [e]

theorem dropWs_head : ∀ (s : Bytes) (c : Nat) (r : Bytes), dropWs s = c :: r → isWs c = false
  | [], c, r, h => by simp [dropWs] at h
  | d :: ds, c, r, h => by
    by_cases hw : isWs d = true
    · have e : dropWs (d :: ds) = dropWs ds := by simp [dropWs, hw]
      rw [e] at h; exact dropWs_head ds c r h
    · have e : dropWs (d :: ds) = d :: ds := by simp [dropWs, hw]
      rw [e] at h; cases h; simpa using hw

/-- `s` is empty or starts with a character that is not a digit -/
def NoDigitHead (s : Bytes) : Prop := ∀ d r, s = d :: r → isDigit d = false

theorem noDigitHead_of_dropWs (s : Bytes) (h : NoDigitHead (dropWs s)) : NoDigitHead s := by
  intro d r e
  subst e
  by_cases hw : isWs d = true
  · rcases (isWs_iff d).1 hw with h | h | h | h <;> subst h <;> decide
  · have e : dropWs (d :: r) = d :: r := by simp [dropWs, hw]
    exact h d r e

theorem noDigitHead_nil : NoDigitHead [] := by intro d r e; cases e
theorem noDigitHead_cons (c : Nat) (r : Bytes) (h : isDigit c = false) : NoDigitHead (c :: r) := by
  intro d r' e; cases e; exact h

/-! ### after the root value -/

/-- trailing white space after the root value -/
theorem feed_ws_accept (cfg : Cfg) : ∀ (s : Bytes) (s0 : St), (s0.st = .accept ∨ s0.st = .done) → s0.err = none → dropWs s = [] →
    ∃ s1, feed cfg s0 s = s1 ∧ (s1.st = .accept ∨ s1.st = .done) ∧ s1.err = none ∧ s1.evs = s0.evs
  | [], s0, hs, he, _ => ⟨s0, rfl, hs, he, rfl⟩
  | c :: cs, s0, hs, he, hd => by
    have hw : isWs c = true := by
      by_cases hw : isWs c = true
      · exact hw
      · simp [dropWs, hw] at hd
    have hd' : dropWs cs = [] := by simpa [dropWs, hw] using hd
    have hc := (isWs_iff c).1 hw
    have h1 : feedChar cfg s0 c = { s0 with st := .done } := by
      rcases hs with hs | hs <;> simp [feedChar, he, stepChar, hs, hc]
    obtain ⟨s1, e1, e2, e3, e4⟩ := feed_ws_accept cfg cs { s0 with st := .done } (Or.inr rfl) he hd'
    exact ⟨s1, by rw [feed_cons, h1, e1], e2, e3, e4⟩

theorem finish_accept (s : St) (hs : s.st = .accept ∨ s.st = .done) (he : s.err = none) :
    accepted (finish s) = true ∧ (finish s).evs = s.evs := by
  rcases hs with hs | hs <;> simp [finish, finish1, he, hs, accepted]

/-! ### the nesting context: the stack of enclosing containers and the level -/

inductive Ctx : List PS → Nat → Prop
  | root : Ctx [.root] 0
  | arr {stk n} : Ctx stk n → Ctx (.array :: stk) (n + 1)
  | obj {stk n} : Ctx stk n → Ctx (.object :: stk) (n + 1)

/-- the state after a value at nesting level `n` -/
def afterSt (n : Nat) : PS := if n = 0 then .accept else .expectCommaOrEnd

theorem Ctx.parent_cases {stk n} (h : Ctx stk n) :
    (stk.headD .root = .root ∧ n = 0) ∨ ((stk.headD .root = .array ∨ stk.headD .root = .object) ∧ n ≠ 0) := by
  cases h <;> simp

theorem afterValue_ctx {stk n} (h : Ctx stk n) (s : St) (hs : s.stack = stk) : afterValue s = { s with st := afterSt n } := by
  cases h <;> simp [afterValue, parent, hs, afterSt]

theorem afterLiteral_ctx {stk n} (_h : Ctx stk n) (s : St) (hl : s.level = n) : afterLiteral s = { s with st := afterSt n } := by
  by_cases h0 : n = 0 <;> simp [afterLiteral, hl, afterSt, h0]

/-! ### the start of a value -/

theorem valueStart_plain (cfg : Cfg) (s s' : St) (c : Nat) (h : valueStart cfg s c = some s') :
    isCtl c = false ∧ spaceOrSlash s c = none := by
  unfold valueStart at h
  have : c = 123 ∨ c = 91 ∨ c = 34 ∨ c = 45 ∨ c = 48 ∨ (49 ≤ c ∧ c ≤ 57) ∨ c = 110 ∨ c = 116 ∨ c = 102 := by
    (repeat' split at h) <;> simp_all
  constructor
  · simp only [isCtl, Bool.and_eq_false_iff, decide_eq_false_iff_not, bne_eq_false_iff_eq]; omega
  · unfold spaceOrSlash
    have h1 : ¬ (c = 32 ∨ c = 9 ∨ c = 10) := by omega
    have h2 : c ≠ 13 := by omega
    have h3 : c ≠ 47 := by omega
    simp [h1, h2, h3]

theorem feedChar_value (cfg : Cfg) (s s' : St) (c : Nat) (hs : vState s.st = true) (he : s.err = none)
    (h : valueStart cfg s c = some s') : feedChar cfg s c = s' := by
  obtain ⟨h1, h2⟩ := valueStart_plain cfg s s' c h
  cases hst : s.st <;> simp [vState, hst] at hs <;> simp [feedChar, he, stepChar, hst, h1, h2, h]

/-! ### literals -/

theorem feed_true (cfg : Cfg) (s0 : St) (r : Bytes) (hs : vState s0.st = true) (he : s0.err = none) :
    feed cfg s0 (116 :: 114 :: 117 :: 101 :: r) = feed cfg (afterLiteral (emit { s0 with st := .tru } (.bool true))) r := by
  rw [feed_cons, feedChar_value cfg s0 { s0 with st := .t } 116 hs he (by simp [valueStart])]
  simp [feed_cons, feedChar, he, stepChar, lit]

theorem feed_false (cfg : Cfg) (s0 : St) (r : Bytes) (hs : vState s0.st = true) (he : s0.err = none) :
    feed cfg s0 (102 :: 97 :: 108 :: 115 :: 101 :: r) = feed cfg (afterLiteral (emit { s0 with st := .fals } (.bool false))) r := by
  rw [feed_cons, feedChar_value cfg s0 { s0 with st := .f } 102 hs he (by simp [valueStart])]
  simp [feed_cons, feedChar, he, stepChar, lit]

theorem feed_null (cfg : Cfg) (s0 : St) (r : Bytes) (hs : vState s0.st = true) (he : s0.err = none) :
    feed cfg s0 (110 :: 117 :: 108 :: 108 :: r) = feed cfg (afterLiteral (emit { s0 with st := .nul } .null)) r := by
  rw [feed_cons, feedChar_value cfg s0 { s0 with st := .n } 110 hs he (by simp [valueStart])]
  simp [feed_cons, feedChar, he, stepChar, lit]

end JsonParser
end Model
end JV
