/-
  JV.Proofs.PatchDiffB — stack-free success semantics of `apply_patch` (`runOps`) and what the three
  operations `from_diff` emits (replace / remove / add) do to the whole document, in terms of `put`.
-/
import JV.Proofs.PatchDiffA
import JV.Model.Patch
namespace JV
namespace Model
namespace Patch
open Assoc Pointer

/-- the loop of `apply_patch` when nothing fails (no undo stack needed) -/
def runOps : JVal → List JVal → Option JVal
  | d, [] => some d
  | d, op :: ops =>
    match (applyOp false d op).1 with
    | some _ => none
    | none => runOps (applyOp false d op).2.1 ops

theorem runOps_append : ∀ (ops1 : List JVal) (d : JVal) (ops2 : List JVal),
    runOps d (ops1 ++ ops2) = (runOps d ops1).bind (fun d1 => runOps d1 ops2)
  | [], d, ops2 => rfl
  | op :: ops1, d, ops2 => by
    simp only [List.cons_append, runOps]
    cases h : (applyOp false d op).1 with
    | some e => rfl
    | none => exact runOps_append ops1 _ ops2

theorem runOps_append_some {ops1 ops2 : List JVal} {d d1 d2 : JVal} (h1 : runOps d ops1 = some d1)
    (h2 : runOps d1 ops2 = some d2) : runOps d (ops1 ++ ops2) = some d2 := by
  rw [runOps_append, h1]; exact h2

theorem runOps_applyLoop : ∀ (ops : List JVal) (d d2 : JVal) (stk : List Undo), runOps d ops = some d2 →
    applyLoop false d ops stk = (none, d2)
  | [], d, d2, stk, h => by
    simp only [runOps, Option.some.injEq] at h
    simp [applyLoop, h]
  | op :: ops, d, d2, stk, h => by
    simp only [runOps] at h
    simp only [applyLoop]
    cases he : (applyOp false d op).1 with
    | some e => rw [he] at h; simp at h
    | none =>
      rw [he] at h
      exact runOps_applyLoop ops _ d2 _ h

theorem runOps_single {d d2 op : JVal} (h1 : (applyOp false d op).1 = none) (h2 : (applyOp false d op).2.1 = d2) :
    runOps d [op] = some d2 := by
  simp [runOps, h1, h2]

/-! ### the operation objects -/

theorem opObj_some (op path : Bytes) (v : JVal) :
    opObj false op path (some v) = .obj [(sOp, .str op), (sPath, .str path), (sValue, v)] := by
  simp [opObj, insertOrAssign, find, insertSorted, keyLt, sOp, sPath, sValue]

theorem opObj_none (op path : Bytes) :
    opObj false op path none = .obj [(sOp, .str op), (sPath, .str path)] := by
  simp [opObj, insertOrAssign, find, insertSorted, keyLt, sOp, sPath]

theorem find3_op (a b c : JVal) : find sOp [(sOp, a), (sPath, b), (sValue, c)] = some a := by simp [find]
theorem find3_path (a b c : JVal) : find sPath [(sOp, a), (sPath, b), (sValue, c)] = some b := by
  simp [find, sOp, sPath]
theorem find3_value (a b c : JVal) : find sValue [(sOp, a), (sPath, b), (sValue, c)] = some c := by
  simp [find, sOp, sPath, sValue]
theorem find2_op (a b : JVal) : find sOp [(sOp, a), (sPath, b)] = some a := by simp [find]
theorem find2_path (a b : JVal) : find sPath [(sOp, a), (sPath, b)] = some b := by
  simp [find, sOp, sPath]

/-- (R) `replace` at a resolvable location -/
theorem applyOp_replace (d s t : JVal) (loc : List Bytes) (h : get d loc = .ok s) :
    (applyOp false d (opObj false sReplace (Pointer.toString loc) (some t))).1 = none ∧
    (applyOp false d (opObj false sReplace (Pointer.toString loc) (some t))).2.1 = put d loc t := by
  have e1 : sReplace ≠ sTest := by decide
  have e2 : sReplace ≠ sAdd := by decide
  have e3 : sReplace ≠ sRemove := by decide
  rw [opObj_some]
  simp only [applyOp, find3_op, find3_path, Option.bind, strOf, parse_toString_aux, e1, e2, e3, if_false, if_true,
    opReplace, h, find3_value, apply_replace_put t d s loc h]
  exact ⟨trivial, trivial⟩

/-- (D) `remove` of the child `k` of the container at `loc` -/
theorem applyOp_remove (d c v : JVal) (loc : List Bytes) (k : Bytes) (h : get d loc = .ok c)
    (hk : get c [k] = .ok v) (hok : (finalStep false false .remove c k).1 = none) :
    (applyOp false d (opObj false sRemove (Pointer.toString (loc ++ [k])) none)).1 = none ∧
    (applyOp false d (opObj false sRemove (Pointer.toString (loc ++ [k])) none)).2.1 =
        put d loc (finalStep false false .remove c k).2 := by
  have e1 : sRemove ≠ sTest := by decide
  have e2 : sRemove ≠ sAdd := by decide
  have hg : get d (loc ++ [k]) = .ok v := by rw [get_append loc d c [k] h]; exact hk
  rw [opObj_none]
  simp only [applyOp, find2_op, find2_path, Option.bind, strOf, parse_toString_aux, e1, e2, if_false, if_true,
    opRemove, hg, apply_append_last .remove d c loc k h, hok]
  exact ⟨trivial, trivial⟩

theorem definitePath_snoc (d c : JVal) (loc : List Bytes) (k : Bytes) (h : get d loc = .ok c)
    (hk : k ≠ [45] ∨ c.isArray = false) : definitePath d (loc ++ [k]) = loc ++ [k] := by
  simp only [definitePath, List.getLast?_append, List.getLast?_singleton, Option.some_or]
  by_cases e : k = [45]
  · have hc : c.isArray = false := by
      rcases hk with hk | hk
      · exact absurd e hk
      · exact hk
    subst e
    simp only [ne_eq, not_true_eq_false, if_false, List.dropLast_concat, h]
    cases c <;> simp_all [JVal.isArray]
  · simp [e]

/-- (A) `add` of a new child `k` into the container at `loc` (when `add_if_absent` succeeds) -/
theorem applyOp_add (d c v : JVal) (loc : List Bytes) (k : Bytes) (h : get d loc = .ok c)
    (hk : k ≠ [45] ∨ c.isArray = false)
    (hok : (finalStep false false (.addIfAbsent v) c k).1 = none) :
    (applyOp false d (opObj false sAdd (Pointer.toString (loc ++ [k])) (some v))).1 = none ∧
    (applyOp false d (opObj false sAdd (Pointer.toString (loc ++ [k])) (some v))).2.1 =
      put d loc (finalStep false false (.addIfAbsent v) c k).2 := by
  have e1 : sAdd ≠ sTest := by decide
  have hne : loc ++ [k] ≠ [] := by simp
  rw [opObj_some]
  simp only [applyOp, find3_op, find3_path, Option.bind, strOf, parse_toString_aux, e1, if_false, if_true,
    opAdd, find3_value, definitePath_snoc d c loc k h hk, addLike, hne,
    apply_append_last (.addIfAbsent v) d c loc k h, hok]
  exact ⟨trivial, trivial⟩

end Patch
end Model
end JV
