/-
  JV.Proofs.JsonParserOptsSound — towards SOUNDNESS with `allow_comments` on: the comment-aware replacement for `Acc.ws`. In every
  space-skipping state an ACCEPTING run has skipped exactly what the reference's `ws`-with-comments skips (`acc_skip`: the converse of
  `feed_skipWs`): an unterminated `/* …`, a `// …` that runs to the end of the input and a `/` followed by anything but `/` or `*`
  all end in an error code, so the reference's `skipWs true` is defined on the remaining input, the machine is in the same state at
  what it returns, and that begins with a character that is neither white space nor `/`. Hence soundness with comments on for the
  documents whose root is a literal or a number (`run_sound_scalar_comments`).
-/
import JV.Proofs.JsonParserOptsComments
import JV.Proofs.JsonParserSound
namespace JV
namespace Model
namespace JsonParser
open Spec.Rfc8259 (JT Flags parseValue parseText skipWs skipLine skipBlock isWs startsWith)

theorem skipLine_length : ∀ s : Bytes, (skipLine s).length ≤ s.length
  | [] => by simp [skipLine]
  | c :: cs => by
    unfold skipLine
    split
    · exact Nat.le_refl _
    · have := skipLine_length cs
      simp only [List.length_cons]; omega

theorem skipBlock_length : ∀ (n : Nat) (s r : Bytes), s.length ≤ n → skipBlock s = some r → r.length < s.length
  | _, [], _, _, h => by simp [skipBlock] at h
  | _, [_], _, _, h => by simp [skipBlock] at h
  | 0, _ :: _ :: _, _, hl, _ => by simp at hl
  | n + 1, a :: c :: cs, r, hl, h => by
    rw [skipBlock_cons2] at h
    by_cases hh : a = 42 ∧ c = 47
    · simp only [hh, and_self, if_true, Option.some.injEq] at h
      subst h; simp only [List.length_cons]; omega
    · rw [if_neg hh] at h
      have := skipBlock_length n (c :: cs) r (by simp only [List.length_cons] at hl ⊢; omega) h
      simp only [List.length_cons] at this ⊢; omega

theorem skipBlock_cons_ne_none (c : Nat) (cs : Bytes) (hc : c ≠ 42) (h : skipBlock (c :: cs) = none) : skipBlock cs = none := by
  cases cs with
  | nil => simp [skipBlock]
  | cons d ds =>
    rw [skipBlock_cons2, if_neg (fun e => hc e.1)] at h
    exact h

/-! ### the comments that do not end -/

theorem feed_line_eof (cfg : Cfg) (s : St) (he : s.err = none) : ∀ rest : Bytes, skipLine rest = [] → feed cfg (lineOf s) rest = lineOf s
  | [], _ => rfl
  | c :: cs, h => by
    by_cases hc : c = 10 ∨ c = 13
    · rcases hc with hc | hc <;> simp [skipLine, hc] at h
    · have e : skipLine (c :: cs) = skipLine cs := by
        have h1 : c ≠ 10 := fun e => hc (Or.inl e)
        have h2 : c ≠ 13 := fun e => hc (Or.inr e)
        simp [skipLine, h1, h2]
      rw [e] at h
      rw [feed_cons, feedChar_line_other cfg s he c hc]
      exact feed_line_eof cfg s he cs h

theorem line_eof_dead (cfg : Cfg) (s : St) : ¬ Acc cfg (lineOf s) [] :=
  Acc.not_eof (by simp [finish1, lineOf, push, fail])

theorem block_eof_dead (cfg : Cfg) (s : St) : ¬ Acc cfg (blockOf s) [] :=
  Acc.not_eof (by simp [finish1, blockOf, push, fail])

theorem star_eof_dead (cfg : Cfg) (s : St) : ¬ Acc cfg (starOf s) [] :=
  Acc.not_eof (by simp [finish1, starOf, push, fail])

theorem block_cr_eof_dead (cfg : Cfg) (s : St) : ¬ Acc cfg (crOf (blockOf s)) [] := by
  intro h
  have he : s.err = none := by
    have := h.err_none
    simpa [crOf, blockOf, push] using this
  unfold Acc at h
  simp [feed_nil, finish, finish1, crOf, blockOf, push, popTo, parent, fail, accepted, he] at h

theorem block_eof_aux (cfg : Cfg) (s : St) (he : s.err = none) : ∀ (n : Nat) (rest : Bytes), rest.length ≤ n →
    (skipBlock rest = none → ¬ Acc cfg (blockOf s) rest) ∧
    (skipBlock (42 :: rest) = none → ¬ Acc cfg (starOf s) rest) ∧
    (skipBlock rest = none → ¬ Acc cfg (crOf (blockOf s)) rest)
  | _, [], _ => ⟨fun _ => block_eof_dead cfg s, fun _ => star_eof_dead cfg s, fun _ => block_cr_eof_dead cfg s⟩
  | 0, _ :: _, h => by simp at h
  | n + 1, c :: cs, hl => by
    have hl' : cs.length ≤ n := by simpa using hl
    obtain ⟨ihA, ihS, ihC⟩ := block_eof_aux cfg s he n cs hl'
    have hA : skipBlock (c :: cs) = none → ¬ Acc cfg (blockOf s) (c :: cs) := by
      intro h hacc
      have h1 := hacc.step
      rw [feedChar_block cfg s he c] at h1
      by_cases h42 : c = 42
      · subst h42
        simp only [show ¬ (42 : Nat) = 13 by decide, if_false, if_true] at h1
        exact ihS h h1
      · have h' := skipBlock_cons_ne_none c cs h42 h
        by_cases h13 : c = 13
        · simp only [h13, if_true] at h1; exact ihC h' h1
        · simp only [h13, h42, if_false] at h1; exact ihA h' h1
    refine ⟨hA, ?_, ?_⟩
    · intro h hacc
      rw [skipBlock_cons2] at h
      have h1 := hacc.step
      rw [feedChar_star cfg s he c] at h1
      by_cases h47 : c = 47
      · simp [h47] at h
      · simp only [h47, and_false, if_false] at h h1
        by_cases h42 : c = 42
        · subst h42
          simp only [if_true] at h1
          exact ihS h h1
        · simp only [h42, if_false] at h1
          exact ihA (skipBlock_cons_ne_none c cs h42 h) h1
    · intro h hacc
      by_cases h10 : c = 10
      · subst h10
        have h1 := hacc.step
        rw [feedChar_block_cr cfg s he 10] at h1
        simp only [if_true] at h1
        exact ihA (skipBlock_cons_ne_none 10 cs (by decide) h) h1
      · have h1 : Acc cfg (blockOf s) (c :: cs) := by
          have h2 := hacc.step
          rw [feedChar_block_cr cfg s he c, if_neg h10] at h2
          exact h2
        exact hA h h1

theorem block_eof (cfg : Cfg) (s : St) (he : s.err = none) (rest : Bytes) (h : skipBlock rest = none) : ¬ Acc cfg (blockOf s) rest :=
  (block_eof_aux cfg s he rest.length rest (Nat.le_refl _)).1 h

/-! ### `ws` with comments, from an accepting run -/

/-- the comment-aware `Acc.ws` -/
theorem acc_skip (cfg : Cfg) (hc : cfg.comments = true) (s : St) (hs : wsState s.st = true) :
    ∀ (n : Nat) (a : Bytes), a.length < n → Acc cfg s a →
      ∃ w, skipWs true n a = some w ∧ Acc cfg s w ∧ w.length ≤ a.length ∧ (∀ c r, w = c :: r → isWs c = false ∧ c ≠ 47)
  | 0, _, h, _ => by omega
  | n + 1, [], _, hA => ⟨[], skipWs_nil true _, hA, Nat.le_refl _, fun c r e => by cases e⟩
  | n + 1, c :: cs, hl, hA => by
    have he := hA.err_none
    have hl' : cs.length < n := by simpa using hl
    by_cases hws : isWs c = true
    · have e : skipWs true (n + 1) (c :: cs) = skipWs true n cs := by simp [skipWs, hws]
      have hA' : Acc cfg s cs := by
        have h1 := hA.step
        rcases (isWs_iff c).1 hws with h' | h' | h' | h'
        · rwa [feedChar_ws_plain cfg s c hs he (by simp [h'])] at h1
        · rwa [feedChar_ws_plain cfg s c hs he (by simp [h'])] at h1
        · rwa [feedChar_ws_plain cfg s c hs he (by simp [h'])] at h1
        · subst h'
          rw [feedChar_ws_cr cfg s hs he] at h1
          unfold Acc at h1 ⊢
          rwa [cr_feed cfg s cs hs he] at h1
      obtain ⟨w, e1, e2, e3, e4⟩ := acc_skip cfg hc s hs n cs hl' hA'
      exact ⟨w, by rw [e, e1], e2, by simp only [List.length_cons]; omega, e4⟩
    · have hws' : isWs c = false := by simpa using hws
      by_cases h47 : c = 47
      · subst h47
        have h0 := hA.step
        rw [feedChar_ws_slash cfg s hs he] at h0
        cases cs with
        | nil => exact absurd h0 (Acc.not_eof (by simp [finish1, slashOf, push, fail]))
        | cons d ds =>
          have h1 := h0.step
          by_cases hd47 : d = 47
          · subst hd47
            rw [feedChar_slash_slash cfg hc s he] at h1
            have e : skipWs true (n + 1) (47 :: 47 :: ds) = skipWs true n (skipLine ds) := by
              simp [skipWs, hws]
            have hsl := skipLine_length ds
            simp only [List.length_cons] at hl'
            by_cases hne : skipLine ds = []
            · exfalso
              unfold Acc at h1
              rw [feed_line_eof cfg s he ds hne] at h1
              exact line_eof_dead cfg s h1
            · have h2 : Acc cfg s (skipLine ds) := by
                unfold Acc at h1 ⊢
                rwa [feed_line cfg s hs he ds hne] at h1
              obtain ⟨w, e1, e2, e3, e4⟩ := acc_skip cfg hc s hs n (skipLine ds) (by omega) h2
              exact ⟨w, by rw [e, e1], e2, by simp only [List.length_cons]; omega, e4⟩
          · by_cases hd42 : d = 42
            · subst hd42
              rw [feedChar_slash_star cfg hc s he] at h1
              cases hb : skipBlock ds with
              | none => exact absurd h1 (block_eof cfg s he ds hb)
              | some r =>
                have e : skipWs true (n + 1) (47 :: 42 :: ds) = skipWs true n r := by
                  simp [skipWs, hws, hb]
                have h2 : Acc cfg s r := by
                  unfold Acc at h1 ⊢
                  rwa [feed_block cfg s he ds r hb] at h1
                have hr := skipBlock_length _ ds r (Nat.le_refl _) hb
                simp only [List.length_cons] at hl'
                obtain ⟨w, e1, e2, e3, e4⟩ := acc_skip cfg hc s hs n r (by omega) h2
                exact ⟨w, by rw [e, e1], e2, by simp only [List.length_cons]; omega, e4⟩
            · exfalso
              refine Acc.not_dead ?_ h0
              simp [feedChar, stepChar, slashOf, push, he, hd47, hd42, fail]
      · exact ⟨c :: cs, by simp [skipWs, hws, h47], hA, Nat.le_refl _, fun c' r' e => by cases e; exact ⟨hws', h47⟩⟩

/-- `value_head` without the hypothesis on comments, for a head that is not `/` -/
theorem value_head_c (cfg : Cfg) (s0 : St)
    (hv : vState s0.st = true) (c : Nat) (cs : Bytes) (hw : isWs c = false) (h47 : c ≠ 47)
    (hne : ¬ (c = 93 ∧ parent s0 = .array)) (h : Acc cfg s0 (c :: cs)) :
    c = 123 ∨ c = 91 ∨ c = 34 ∨ c = 116 ∨ c = 102 ∨ c = 110 ∨ ∃ ns0, numStart c = some ns0 := by
  have he := h.err_none
  cases hvs : valueStart cfg s0 c with
  | some s' => exact valueStart_some cfg s0 s' c hvs
  | none =>
    exfalso
    have hsp := spaceOrSlash_none s0 c hw h47
    refine Acc.not_dead ?_ h
    have hcons : (stepChar cfg s0 c).2 = true := by
      apply stepChar_consumed <;> (intro hh; simp [hh, vState] at hv)
    rw [feedChar_of_consumed cfg s0 c he hcons]
    cases hst : s0.st <;> simp [vState, hst] at hv
    · simp only [stepChar, hst, hsp, hvs, fail]
      (repeat' split) <;> (first | contradiction | simp)
    · by_cases h93 : c = 93
      · subst h93
        have hp : ¬ parent s0 = .array := fun e => hne ⟨rfl, e⟩
        simp only [stepChar, hst, hsp, hvs, endArray]
        (repeat' split) <;> (first | contradiction | simp [fail])
      · simp only [stepChar, hst, hsp, hvs, fail, h93]
        (repeat' split) <;> (first | contradiction | simp)
    · by_cases h93 : c = 93
      · subst h93
        have hp : ¬ parent s0 = .array := fun e => hne ⟨rfl, e⟩
        simp [stepChar, hst, hsp, hvs, fail, hp, isCtl]
      · simp only [stepChar, hst, hsp, hvs, fail, h93]
        (repeat' split) <;> (first | contradiction | simp)

/-! ### documents whose root is a literal or a number, comments on -/

theorem parseTextPlainTail_of (cfg : Cfg) (hcm : cfg.comments = true) (bs w s2 : Bytes) (v : JT)
    (hw : skipWs true (bs.length + 1) bs = some w)
    (hv : parseValue (optFlags cfg) (w.length + 1) 0 w = some (v, s2)) (hr : dropWs s2 = []) :
    parseTextPlainTail (optFlags cfg) bs = some v := by
  unfold parseTextPlainTail
  simp only [hcm, hw, hv, hr, if_true]

/-- SOUNDNESS with `allow_comments` on for documents whose root is not a string, an array or an object: whatever the model accepts,
    the reference WITH the comment production reads as a value, with only plain white space after it -/
theorem run_sound_scalar_comments (cfg : Cfg) (hcm : cfg.comments = true) (bs : Bytes)
    (hroot : ∀ w c r, skipWs true (bs.length + 1) bs = some w → w = c :: r → c ≠ 34 ∧ c ≠ 91 ∧ c ≠ 123)
    (h : accepted (run cfg bs) = true) : ∃ v, parseTextPlainTail (optFlags cfg) bs = some v := by
  have hacc : Acc cfg init bs := h
  obtain ⟨w, hw, hA, _, hhd⟩ := acc_skip cfg hcm init rfl (bs.length + 1) bs (Nat.lt_succ_self _) hacc
  cases w with
  | nil => exact absurd hA (value_not_eof cfg init rfl)
  | cons c cs =>
    obtain ⟨hws, h47⟩ := hhd c cs rfl
    obtain ⟨h34, h91, h123⟩ := hroot _ c cs hw rfl
    have hA' : accepted (finish (feed cfg init (c :: cs))) = true := hA
    rcases value_head_c cfg init rfl c cs hws h47 (by simp [parent, init]) hA with e | e | e | rfl | rfl | rfl | ⟨ns0, hns⟩
    · exact absurd e h123
    · exact absurd e h91
    · exact absurd e h34
    · obtain ⟨r, rfl, hr⟩ := true_sound cfg cs hA'
      exact ⟨.bool true, parseTextPlainTail_of cfg hcm bs _ r _ hw (by simp [parseValue, startsWith]) hr⟩
    · obtain ⟨r, rfl, hr⟩ := false_sound cfg cs hA'
      exact ⟨.bool false, parseTextPlainTail_of cfg hcm bs _ r _ hw (by simp [parseValue, startsWith]) hr⟩
    · obtain ⟨r, rfl, hr⟩ := null_sound cfg cs hA'
      exact ⟨.null, parseTextPlainTail_of cfg hcm bs _ r _ hw (by simp [parseValue, startsWith]) hr⟩
    · obtain ⟨lit, r, hp, hr⟩ := number_sound cfg c cs ns0 hns hA'
      refine ⟨.num lit, parseTextPlainTail_of cfg hcm bs _ r _ hw ?_ hr⟩
      have e1 : c ≠ 116 ∧ c ≠ 102 ∧ c ≠ 110 := by
        unfold numStart at hns
        (repeat' split at hns) <;> cases hns <;> omega
      simp [parseValue, h123, h91, h34, e1.1, e1.2.1, e1.2.2, hp]

/-! ### what `ws` with comments returns is a suffix (for carrying `NoU` along) -/

theorem skipLine_suffix : ∀ s : Bytes, ∃ p, s = p ++ skipLine s
  | [] => ⟨[], rfl⟩
  | c :: cs => by
    unfold skipLine
    split
    · exact ⟨[], rfl⟩
    · obtain ⟨p, hp⟩ := skipLine_suffix cs
      exact ⟨c :: p, by rw [List.cons_append, ← hp]⟩

theorem skipBlock_suffix : ∀ (n : Nat) (s r : Bytes), s.length ≤ n → skipBlock s = some r → ∃ p, s = p ++ r
  | _, [], _, _, h => by simp [skipBlock] at h
  | _, [_], _, _, h => by simp [skipBlock] at h
  | 0, _ :: _ :: _, _, hl, _ => by simp at hl
  | n + 1, a :: c :: cs, r, hl, h => by
    rw [skipBlock_cons2] at h
    by_cases hh : a = 42 ∧ c = 47
    · simp only [hh, and_self, if_true, Option.some.injEq] at h
      subst h; exact ⟨[a, c], rfl⟩
    · rw [if_neg hh] at h
      obtain ⟨p, hp⟩ := skipBlock_suffix n (c :: cs) r (by simp only [List.length_cons] at hl ⊢; omega) h
      exact ⟨a :: p, by rw [List.cons_append, ← hp]⟩

theorem skipWs_suffix : ∀ (n : Nat) (a w : Bytes), skipWs true n a = some w → ∃ p, a = p ++ w
  | 0, a, w, h => by simp [skipWs] at h; exact ⟨[], by rw [h]; rfl⟩
  | n + 1, [], w, h => by simp [skipWs] at h; exact ⟨[], by rw [h]; rfl⟩
  | n + 1, c :: cs, w, h => by
    by_cases hws : isWs c = true
    · simp only [skipWs, hws, if_true] at h
      obtain ⟨p, hp⟩ := skipWs_suffix n cs w h
      exact ⟨c :: p, by rw [List.cons_append, ← hp]⟩
    · by_cases h47 : c = 47
      · subst h47
        cases cs with
        | nil => simp [skipWs, hws] at h; exact ⟨[], by rw [← h]; rfl⟩
        | cons d ds =>
          by_cases hd47 : d = 47
          · subst hd47
            simp only [skipWs, hws, Bool.true_and, decide_true, if_true, if_false, Bool.false_eq_true] at h
            obtain ⟨p, hp⟩ := skipWs_suffix n (skipLine ds) w h
            obtain ⟨q, hq⟩ := skipLine_suffix ds
            exact ⟨47 :: 47 :: (q ++ p), by rw [hp] at hq; simp only [List.cons_append, List.append_assoc]; rw [← hq]⟩
          · by_cases hd42 : d = 42
            · subst hd42
              simp only [skipWs, hws, Bool.true_and, decide_true, if_true, if_false, Bool.false_eq_true] at h
              cases hb : skipBlock ds with
              | none => simp [hb] at h
              | some r =>
                simp only [hb] at h
                obtain ⟨p, hp⟩ := skipWs_suffix n r w h
                obtain ⟨q, hq⟩ := skipBlock_suffix _ ds r (Nat.le_refl _) hb
                exact ⟨47 :: 42 :: (q ++ p), by rw [hp] at hq; simp only [List.cons_append, List.append_assoc]; rw [← hq]⟩
            · have : skipWs true (n + 1) (47 :: d :: ds) = some (47 :: d :: ds) := by
                simp only [skipWs, hws, Bool.true_and, decide_true, if_true, if_false, Bool.false_eq_true]
                split
                · rename_i heq; cases heq; exact absurd rfl hd47
                · rename_i heq; cases heq; exact absurd rfl hd42
                · rfl
              rw [this] at h
              simp only [Option.some.injEq] at h
              exact ⟨[], by rw [← h]; rfl⟩
      · simp [skipWs, hws, h47] at h
        exact ⟨[], by rw [← h]; rfl⟩

theorem NoU_suffix (p s : Bytes) (h : NoU (p ++ s)) : NoU s := by
  intro pre post e
  exact h (p ++ pre) post (by rw [e, List.append_assoc])

end JsonParser
end Model
end JV
