/-
  JV.Proofs.StreamSource — stream_source refines the flat byte sequence, for every chunk size.
-/
import JV.Model.StreamSource
namespace JV
namespace Model
namespace StreamSource

def Inv (s : St) : Prop := (s.eofbit = true → s.rest = []) ∧ 0 < s.k

theorem inv_init (content : Bytes) (k : Nat) (hk : 0 < k) : Inv (init content k) := by
  simp [Inv, init, hk]

theorem take_take_le {α : Type} (l : List α) {m k : Nat} (h : m ≤ k) : (l.take k).take m = l.take m := by
  rw [List.take_take]; congr 1; omega

theorem drop_take_append_drop {α : Type} (l : List α) {m k : Nat} (h : m ≤ k) :
    (l.take k).drop m ++ l.drop k = l.drop m := by
  have h1 : l.drop m = (l.drop m).take (k - m) ++ (l.drop m).drop (k - m) := (List.take_append_drop _ _).symm
  rw [h1, List.drop_drop]
  congr 1
  · rw [List.drop_take]
  · congr 1; omega

theorem take_append_add {α : Type} (a b : List α) (m : Nat) : (a ++ b).take (a.length + m) = a ++ b.take m := by
  rw [List.take_append]
  have h1 : a.take (a.length + m) = a := List.take_of_length_le (by omega)
  have h2 : a.length + m - a.length = m := by omega
  rw [h1, h2]

theorem drop_append_add {α : Type} (a b : List α) (m : Nat) : (a ++ b).drop (a.length + m) = b.drop m := by
  rw [List.drop_append]
  have h1 : a.drop (a.length + m) = [] := List.drop_of_length_le (by omega)
  have h2 : a.length + m - a.length = m := by omega
  rw [h1, h2]; rfl

/-- refilling an empty chunk changes nothing observable -/
theorem fill_pending (s : St) (hb : s.buf = []) (hi : Inv s) : pending (fill s) = pending s ∧ Inv (fill s) := by
  by_cases he : s.eofbit = true
  · have hr := hi.1 he
    have hf : fill s = { s with buf := [] } := by simp [fill, he]
    rw [hf]
    exact ⟨by simp [pending, hb], ⟨fun _ => hr, hi.2⟩⟩
  · have he' : s.eofbit = false := by simpa using he
    have hf : fill s = { s with rest := s.rest.drop s.k, buf := s.rest.take s.k,
                                eofbit := decide ((s.rest.take s.k).length < s.k) } := by
      simp [fill, he']
    rw [hf]
    refine ⟨by simp [pending, hb], ⟨?_, hi.2⟩⟩
    intro h
    have h' : (s.rest.take s.k).length < s.k := by simpa using h
    rw [List.length_take] at h'
    show s.rest.drop s.k = []
    exact List.drop_of_length_le (by omega)

/-- a request that the remaining input can satisfy returns exactly the next `n` bytes -/
theorem read_exact (s : St) (n : Nat) (hi : Inv s) (hn : n ≤ (pending s).length) :
    (read s n).1 = n ∧ (read s n).2.1 = (pending s).take n ∧
      pending (read s n).2.2 = (pending s).drop n ∧ Inv (read s n).2.2 := by
  have hlen : (pending s).length = s.buf.length + s.rest.length := by simp [pending]
  by_cases h1 : n ≤ s.buf.length
  · have hmin : min s.buf.length n = n := by omega
    unfold read
    simp only [hmin, Nat.sub_self, if_true]
    refine ⟨trivial, ?_, ?_, hi⟩
    · simp [pending, List.take_append_of_le_length h1]
    · simp [pending, List.drop_append_of_le_length h1]
  · obtain ⟨m, rfl⟩ : ∃ m, n = s.buf.length + m := ⟨n - s.buf.length, by omega⟩
    have hmpos : 0 < m := by omega
    have hmle : m ≤ s.rest.length := by omega
    have hmin : min s.buf.length (s.buf.length + m) = s.buf.length := by omega
    have hsub : s.buf.length + m - s.buf.length = m := by omega
    have hm0 : ¬ (m = 0) := by omega
    have hne : ¬ s.eofbit = true := by
      intro he; have := hi.1 he; rw [this] at hmle; simp at hmle; omega
    have hne' : s.eofbit = false := by simpa using hne
    unfold read
    simp only [hmin, hsub, hm0, if_false, List.take_length, List.drop_length]
    by_cases h2 : m < s.k
    · simp only [h2, if_true]
      have hfill : fill { s with buf := [], pos := s.pos + s.buf.length } =
          { s with rest := s.rest.drop s.k, buf := s.rest.take s.k, eofbit := decide ((s.rest.take s.k).length < s.k),
                   pos := s.pos + s.buf.length } := by
        simp [fill, hne']
      rw [hfill]
      have hgot : (s.rest.take s.k).length = min s.k s.rest.length := List.length_take
      have hpos : (s.rest.take s.k).length > 0 := by rw [hgot]; omega
      have hmin2 : min (s.rest.take s.k).length m = m := by rw [hgot]; omega
      simp only [hpos, if_true, hmin2]
      refine ⟨trivial, ?_, ?_, ?_⟩
      · show s.buf ++ (s.rest.take s.k).take m = (s.buf ++ s.rest).take (s.buf.length + m)
        rw [take_append_add, take_take_le _ (Nat.le_of_lt h2)]
      · show (s.rest.take s.k).drop m ++ s.rest.drop s.k = (s.buf ++ s.rest).drop (s.buf.length + m)
        rw [drop_append_add, drop_take_append_drop _ (Nat.le_of_lt h2)]
      · refine ⟨?_, hi.2⟩
        intro h
        have h' : (s.rest.take s.k).length < s.k := by simpa using h
        rw [hgot] at h'
        show s.rest.drop s.k = []
        exact List.drop_of_length_le (by omega)
    · simp only [h2, if_false, hne', Bool.false_eq_true]
      have hgl : (s.rest.take m).length = m := by rw [List.length_take]; omega
      refine ⟨by rw [hgl], ?_, ?_, ?_⟩
      · show s.buf ++ s.rest.take m = (s.buf ++ s.rest).take (s.buf.length + m)
        rw [take_append_add]
      · show [] ++ s.rest.drop m = (s.buf ++ s.rest).drop (s.buf.length + m)
        rw [drop_append_add]; rfl
      · refine ⟨?_, hi.2⟩
        intro h
        have h' : (s.rest.take m).length < m := by simpa using h
        omega

/-- a request for more than what is left comes back short (every decoder turns that into unexpected_eof) -/
theorem read_short (s : St) (n : Nat) (hi : Inv s) (hn : (pending s).length < n) : (read s n).1 < n := by
  have hlen : (pending s).length = s.buf.length + s.rest.length := by simp [pending]
  have hmin : min s.buf.length n = s.buf.length := by omega
  have hm : n - s.buf.length ≠ 0 := by omega
  unfold read
  simp only [hmin, hm, if_false, List.take_length, List.drop_length]
  by_cases h2 : n - s.buf.length < s.k
  · simp only [h2, if_true]
    split
    · simp only []
      by_cases he : s.eofbit = true
      · simp [fill, he] at *
      · have he' : s.eofbit = false := by simpa using he
        simp only [fill, he', Bool.false_eq_true, if_false, List.length_take]
        omega
    · simp only []; omega
  · simp only [h2, if_false]
    split
    · simp only []; omega
    · simp only [List.length_take]; omega

/-- `peek` shows the next byte and consumes nothing -/
theorem peek_spec (s : St) (hi : Inv s) :
    (peek s).1 = (pending s).head? ∧ pending (peek s).2 = pending s ∧ Inv (peek s).2 := by
  unfold peek
  by_cases hb : s.buf.length = 0
  · have hb' : s.buf = [] := List.length_eq_zero_iff.1 hb
    obtain ⟨hp, hinv⟩ := fill_pending s hb' hi
    simp only [hb, if_true]
    refine ⟨?_, hp, hinv⟩
    rw [← hp]
    simp only [pending]
    cases h : (fill s).buf with
    | nil =>
      -- an empty refill means the stream is exhausted
      by_cases he : s.eofbit = true
      · simp [fill, he, hi.1 he]
      · have he' : s.eofbit = false := by simpa using he
        simp only [fill, he', Bool.false_eq_true, if_false] at h ⊢
        have hk := hi.2
        cases hr : s.rest with
        | nil => simp
        | cons c cs =>
          rw [hr] at h
          have : s.k = 0 := by
            cases hkk : s.k with
            | zero => rfl
            | succ m => rw [hkk] at h; simp at h
          omega
    | cons c cs => simp
  · simp only [hb, if_false]
    refine ⟨?_, trivial, hi⟩
    simp only [pending]
    cases h : s.buf with
    | nil => rw [h] at hb; simp at hb
    | cons c cs => simp

/-- `read_chunk` hands out a prefix of the remaining input and keeps the rest -/
theorem readChunk_spec (s : St) (hi : Inv s) :
    (readChunk s).1 ++ pending (readChunk s).2 = pending s ∧ Inv (readChunk s).2 ∧
      ((readChunk s).1 = [] → pending s = []) := by
  unfold readChunk
  by_cases hb : s.buf.length = 0
  · have hb' : s.buf = [] := List.length_eq_zero_iff.1 hb
    obtain ⟨hp, hinv⟩ := fill_pending s hb' hi
    simp only [hb, if_true]
    refine ⟨by simpa [pending] using hp, ⟨hinv.1, hinv.2⟩, ?_⟩
    intro he
    rw [← hp]
    simp only [pending, he, List.nil_append]
    by_cases hee : s.eofbit = true
    · simp [fill, hee, hi.1 hee]
    · have he' : s.eofbit = false := by simpa using hee
      simp only [fill, he', Bool.false_eq_true, if_false] at he ⊢
      have hk := hi.2
      cases hr : s.rest with
      | nil => simp
      | cons c cs =>
        rw [hr] at he
        cases hkk : s.k with
        | zero => omega
        | succ m => rw [hkk] at he; simp at he
  · simp only [hb, if_false]
    refine ⟨by simp [pending], ⟨hi.1, hi.2⟩, ?_⟩
    intro he
    rw [he] at hb; simp at hb

/-- `eof()` is sound: it never claims the end while input remains -/
theorem eof_sound (s : St) (hi : Inv s) (h : eof s = true) : pending s = [] := by
  simp only [eof, Bool.and_eq_true, decide_eq_true_eq] at h
  have hb : s.buf = [] := List.length_eq_zero_iff.1 h.1
  simp [pending, hb, hi.1 h.2]

end StreamSource
end Model
end JV
