/-
  JV.Proofs.PatchSpecB — the modifying pointer operations of the model (sorted flavour) compute what the
  RFC 6901/6902 reference (`Spec.Rfc6901.update`) computes, whenever they succeed.
-/
import JV.Proofs.PatchSpecA
import JV.Proofs.PatchUndoB
namespace JV
namespace Model
namespace Pointer
open Assoc Spec.Rfc6901

/-! ### `Target[Name] = Value` on a sorted member list is `insert_or_assign` -/

theorem assign_eq_insertOrAssign {k : Bytes} {v : JVal} : ∀ {ms : List (Bytes × JVal)}, Sorted ms →
    assign k v ms = insertOrAssign false k v ms
  | [], _ => by simp [assign, insertOrAssign, find, insertSorted]
  | (k', v') :: ms, hs => by
    by_cases e : k' = k
    · subst e; simp [assign, insertOrAssign, find, replaceVal]
    · by_cases hlt : keyLt k' k = true
      · have ih := assign_eq_insertOrAssign (k := k) (v := v) hs.tail
        simp only [assign, e, if_false, hlt, if_true, ih]
        unfold insertOrAssign
        simp only [find, e, if_false]
        cases hf : find k ms with
        | some x => simp [replaceVal, e]
        | none => simp [insertSorted, hlt]
      · have hgt : keyLt k k' = true := by
          rcases keyLt_trichotomy k k' with h | h | h
          · exact h
          · exact absurd h.symm e
          · exact absurd h hlt
        have hn : find k ms = none := find_none_of_allGt (Or.inl hgt) hs.allGt
        simp [assign, e, hlt, insertOrAssign, find, hn, insertSorted]

theorem assign_eq_replaceVal {k : Bytes} {v x : JVal} {ms : List (Bytes × JVal)} (hs : Sorted ms)
    (hf : find k ms = some x) : assign k v ms = replaceVal k v ms := by
  rw [assign_eq_insertOrAssign hs]; unfold insertOrAssign; rw [hf]

theorem assign_eq_insertSorted {k : Bytes} {v : JVal} {ms : List (Bytes × JVal)} (hs : Sorted ms)
    (hf : find k ms = none) : assign k v ms = insertSorted k v ms := by
  rw [assign_eq_insertOrAssign hs]; unfold insertOrAssign; rw [hf]; rfl

/-- the RFC-side reading of the last-token action -/
def specOp : Final → Spec.Rfc6901.Op
  | .add v => .add v
  | .addIfAbsent v => .addIfAbsent v
  | .replace v => .replace v
  | .remove => .remove

theorem isDash_false_of_ne {tok : Bytes} (h : tok ≠ [45]) : isDash tok = false := by simp [isDash, h]

theorem finalStep_refines (f : Final) (c : JVal) (tok : Bytes) (hw : c.WF)
    (hok : (finalStep false false f c tok).1 = none) :
    atParent (specOp f) c tok = some (finalStep false false f c tok).2 := by
  cases c with
  | arr xs =>
    by_cases hd : tok = [45]
    · subst hd
      cases f <;> simp_all [finalStep, specOp, atParent, isDash]
    · have hd' := isDash_false_of_ne hd
      cases hi : decToIndex tok with
      | none => cases f <;> simp [finalStep, hd', hi] at hok
      | some i =>
        have hai := decToIndex_sound hi
        cases f with
        | add v =>
          simp only [finalStep, hd', hi, Bool.false_eq_true, if_false] at hok ⊢
          simp only [specOp, atParent, hd, if_false, hai]
          by_cases h1 : i > xs.length
          · simp [h1] at hok
          · by_cases h2 : i = xs.length
            · subst h2; simp
            · have h3 : i ≤ xs.length := by omega
              simp [h1, h2, h3, insertAt]
        | addIfAbsent v =>
          simp only [finalStep, hd', hi, Bool.false_eq_true, if_false] at hok ⊢
          simp only [specOp, atParent, hd, if_false, hai]
          by_cases h1 : i > xs.length
          · simp [h1] at hok
          · by_cases h2 : i = xs.length
            · subst h2; simp
            · have h3 : i ≤ xs.length := by omega
              simp [h1, h2, h3, insertAt]
        | replace v =>
          simp only [finalStep, hd', hi, Bool.false_eq_true, if_false] at hok ⊢
          simp only [specOp, atParent, hai]
          by_cases h1 : i ≥ xs.length
          · simp [h1] at hok
          · have h3 : i < xs.length := by omega
            simp [h1, h3]
        | remove =>
          simp only [finalStep, hd', hi, Bool.false_eq_true, if_false] at hok ⊢
          simp only [specOp, atParent, hai]
          by_cases h1 : i ≥ xs.length
          · simp [h1] at hok
          · have h3 : i < xs.length := by omega
            simp [h1, h3]
  | obj ms =>
    have hs : Sorted ms := (by simpa [JVal.WF] using hw : Sorted ms ∧ WFMembers ms).1
    cases f with
    | add v => simp [finalStep, specOp, atParent, assign_eq_insertOrAssign hs]
    | addIfAbsent v =>
      cases hf : find tok ms with
      | some x => simp [finalStep, hf] at hok
      | none => simp [finalStep, specOp, atParent, hf, tryEmplace, assign_eq_insertSorted hs hf]
    | replace v =>
      cases hf : find tok ms with
      | none => simp [finalStep, hf] at hok
      | some x => simp [finalStep, specOp, atParent, hf, assign_eq_insertOrAssign hs]
    | remove =>
      cases hf : find tok ms with
      | none => simp [finalStep, hf] at hok
      | some x => simp [finalStep, specOp, atParent, hf]
  | null => simp [finalStep] at hok
  | bool _ => simp [finalStep] at hok
  | int _ => simp [finalStep] at hok
  | str _ => simp [finalStep] at hok

/-- a modification refines `op` of the reference as soon as its `finalStep` on the parent container does -/
theorem modifyAt_refines_lift (f : Final) (op : Spec.Rfc6901.Op) :
    ∀ (rest : List Bytes) (cur : JVal) (tok : Bytes), cur.WF →
      (∀ c last, parentOf cur tok rest = some (c, last) → c.WF → (finalStep false false f c last).1 = none →
          atParent op c last = some (finalStep false false f c last).2) →
      (modifyAt false false f cur tok rest).1 = none →
      updateAt op cur tok rest = some (modifyAt false false f cur tok rest).2
  | [], cur, tok, hw, hb, hok => by
    simp only [modifyAt] at hok ⊢
    simp only [updateAt]
    exact hb cur tok (by simp [parentOf]) hw hok
  | t2 :: rest, cur, tok, hw, hb, hok => by
    cases cur with
    | arr xs =>
      simp only [modifyAt] at hok ⊢
      by_cases hd : isDash tok = true
      · simp [hd] at hok
      · have hd' : isDash tok = false := by simpa using hd
        simp only [hd', Bool.false_eq_true, if_false] at hok ⊢
        cases hi : decToIndex tok with
        | none => rw [hi] at hok; simp at hok
        | some i =>
          rw [hi] at hok
          simp only [] at hok ⊢
          cases hx : xs[i]? with
          | none => rw [hx] at hok; simp at hok
          | some x =>
            rw [hx] at hok
            simp only [] at hok ⊢
            have hwl : WFList xs := by simpa [JVal.WF] using hw
            have ih := modifyAt_refines_lift f op rest x t2 (wf_of_getElem hwl hx)
              (fun c last hp => hb c last (by simp [parentOf, hd', hi, hx, hp])) hok
            simp only [updateAt, decToIndex_sound hi, hx, ih, Option.map_some]
    | obj ms =>
      simp only [modifyAt] at hok ⊢
      cases hfi : find tok ms with
      | none => rw [hfi] at hok; simp at hok
      | some x =>
        rw [hfi] at hok
        simp only [] at hok ⊢
        have hwo : Sorted ms ∧ WFMembers ms := by simpa [JVal.WF] using hw
        have ih := modifyAt_refines_lift f op rest x t2 (wf_of_find hwo.2 hfi)
          (fun c last hp => hb c last (by simp [parentOf, hfi, hp])) hok
        simp only [updateAt, hfi, ih, Option.map_some, assign_eq_replaceVal hwo.1 hfi]
    | null => simp [modifyAt] at hok
    | bool _ => simp [modifyAt] at hok
    | int _ => simp [modifyAt] at hok
    | str _ => simp [modifyAt] at hok

/-- a successful `add / add_if_absent / replace / remove` of jsonpointer.hpp computes exactly the RFC result -/
theorem apply_refines (f : Final) (d : JVal) (ts : List Bytes) (hw : d.WF)
    (hok : (apply false false f d ts).1 = none) :
    update (specOp f) d ts = some (apply false false f d ts).2 := by
  cases ts with
  | nil => cases f <;> simp_all [apply, update, specOp]
  | cons tok rest =>
    simp only [apply] at hok ⊢
    simp only [update]
    exact modifyAt_refines_lift f (specOp f) rest d tok hw
      (fun c last _ hwc hk => finalStep_refines f c last hwc hk) hok

/-- the error flag of a modification whose path resolves is the error flag of its `finalStep` -/
theorem modifyAt_err_parent (o : Bool) (f : Final) :
    ∀ (rest : List Bytes) (cur : JVal) (tok : Bytes) (c : JVal) (last : Bytes),
      parentOf cur tok rest = some (c, last) →
      (modifyAt o false f cur tok rest).1 = (finalStep o false f c last).1
  | [], cur, tok, c, last, hp => by
    simp only [parentOf, Option.some.injEq, Prod.mk.injEq] at hp
    obtain ⟨rfl, rfl⟩ := hp
    simp [modifyAt]
  | t2 :: rest, cur, tok, c, last, hp => by
    cases cur with
    | arr xs =>
      simp only [parentOf] at hp
      by_cases hd : isDash tok = true
      · simp [hd] at hp
      · have hd' : isDash tok = false := by simpa using hd
        simp only [hd', Bool.false_eq_true, if_false] at hp
        cases hi : decToIndex tok with
        | none => rw [hi] at hp; simp at hp
        | some i =>
          rw [hi] at hp
          simp only [] at hp
          cases hx : xs[i]? with
          | none => rw [hx] at hp; simp at hp
          | some x =>
            rw [hx] at hp
            simp only [] at hp
            simp only [modifyAt, hd', Bool.false_eq_true, if_false, hi, hx]
            exact modifyAt_err_parent o f rest x t2 c last hp
    | obj ms =>
      simp only [parentOf] at hp
      cases hfi : find tok ms with
      | none => rw [hfi] at hp; simp at hp
      | some x =>
        rw [hfi] at hp
        simp only [] at hp
        simp only [modifyAt, hfi]
        exact modifyAt_err_parent o f rest x t2 c last hp
    | null => simp [parentOf] at hp
    | bool _ => simp [parentOf] at hp
    | int _ => simp [parentOf] at hp
    | str _ => simp [parentOf] at hp

/-- the insert-else-replace fallback: where `add_if_absent` fails and `replace` succeeds, the last token
    names an existing object member, and RFC 6902 `add` replaces it -/
theorem finalStep_fallback (v c : JVal) (tok : Bytes) (hw : c.WF)
    (hfail : (finalStep false false (.addIfAbsent v) c tok).1 ≠ none)
    (hok : (finalStep false false (.replace v) c tok).1 = none) :
    atParent (.add v) c tok = some (finalStep false false (.replace v) c tok).2 := by
  cases c with
  | arr xs =>
    exfalso
    by_cases hd : tok = [45]
    · subst hd; simp [finalStep, isDash] at hok
    · have hd' := isDash_false_of_ne hd
      cases hi : decToIndex tok with
      | none => simp [finalStep, hd', hi] at hok
      | some i =>
        simp only [finalStep, hd', hi, Bool.false_eq_true, if_false] at hok hfail
        by_cases h1 : i ≥ xs.length
        · simp [h1] at hok
        · have h2 : ¬ i > xs.length := by omega
          have h3 : ¬ i = xs.length := by omega
          simp [h2, h3] at hfail
  | obj ms =>
    have hs : Sorted ms := (by simpa [JVal.WF] using hw : Sorted ms ∧ WFMembers ms).1
    cases hf : find tok ms with
    | none => simp [finalStep, hf] at hok
    | some x => simp [finalStep, atParent, hf, assign_eq_insertOrAssign hs]
  | null => simp [finalStep] at hok
  | bool _ => simp [finalStep] at hok
  | int _ => simp [finalStep] at hok
  | str _ => simp [finalStep] at hok

theorem apply_fallback (v d : JVal) (ts : List Bytes) (hw : d.WF) (hne : ts ≠ [])
    (hfail : (apply false false (.addIfAbsent v) d ts).1 ≠ none)
    (hok : (apply false false (.replace v) d ts).1 = none) :
    update (.add v) d ts = some (apply false false (.replace v) d ts).2 := by
  cases ts with
  | nil => exact absurd rfl hne
  | cons tok rest =>
    simp only [apply] at hok hfail ⊢
    simp only [update]
    refine modifyAt_refines_lift (.replace v) (.add v) rest d tok hw ?_ hok
    intro c last hp hwc hk
    have := modifyAt_err_parent false (.addIfAbsent v) rest d tok c last hp
    exact finalStep_fallback v c last hwc (by rw [← this]; exact hfail) hk

/-! ### reference-side congruences -/

/-- `add_if_absent` succeeding is `add` with the same result -/
theorem atParent_addIfAbsent_add (v c : JVal) (tok : Bytes) (r : JVal)
    (h : atParent (.addIfAbsent v) c tok = some r) : atParent (.add v) c tok = some r := by
  cases c with
  | arr xs => simpa [atParent] using h
  | obj ms =>
    simp only [atParent] at h ⊢
    split at h
    · simp at h
    · exact h
  | null => simp [atParent] at h
  | bool _ => simp [atParent] at h
  | int _ => simp [atParent] at h
  | str _ => simp [atParent] at h

/-- changing the operation and the last token of a location, given that at the addressed parent
    container the first succeeding implies the second succeeding with the same result -/
theorem updateAt_last (op1 op2 : Spec.Rfc6901.Op) (l1 l2 : Bytes) :
    ∀ (pre : List Bytes) (cur : JVal) (tok : Bytes) (r : JVal),
      (∀ c, eval cur (tok :: pre) = some c → ∀ r, atParent op1 c l1 = some r → atParent op2 c l2 = some r) →
      updateAt op1 cur tok (pre ++ [l1]) = some r → updateAt op2 cur tok (pre ++ [l2]) = some r
  | [], cur, tok, r, hb, h => by
    simp only [List.nil_append] at h ⊢
    cases cur with
    | arr xs =>
      simp only [updateAt] at h ⊢
      cases hi : arrayIndex tok with
      | none => rw [hi] at h; simp at h
      | some i =>
        rw [hi] at h
        simp only [] at h ⊢
        cases hx : xs[i]? with
        | none => rw [hx] at h; simp at h
        | some x =>
          rw [hx] at h
          simp only [Option.map_eq_some_iff] at h ⊢
          obtain ⟨a, ha, rfl⟩ := h
          exact ⟨a, hb x (by simp [eval, hi, hx]) a ha, rfl⟩
    | obj ms =>
      simp only [updateAt] at h ⊢
      cases hf : find tok ms with
      | none => rw [hf] at h; simp at h
      | some x =>
        rw [hf] at h
        simp only [Option.map_eq_some_iff] at h ⊢
        obtain ⟨a, ha, rfl⟩ := h
        exact ⟨a, hb x (by simp [eval, hf]) a ha, rfl⟩
    | null => simp [updateAt] at h
    | bool _ => simp [updateAt] at h
    | int _ => simp [updateAt] at h
    | str _ => simp [updateAt] at h
  | t2 :: pre, cur, tok, r, hb, h => by
    simp only [List.cons_append] at h ⊢
    cases cur with
    | arr xs =>
      simp only [updateAt] at h ⊢
      cases hi : arrayIndex tok with
      | none => rw [hi] at h; simp at h
      | some i =>
        rw [hi] at h
        simp only [] at h ⊢
        cases hx : xs[i]? with
        | none => rw [hx] at h; simp at h
        | some x =>
          rw [hx] at h
          simp only [Option.map_eq_some_iff] at h ⊢
          obtain ⟨a, ha, rfl⟩ := h
          refine ⟨a, updateAt_last op1 op2 l1 l2 pre x t2 a (fun c hc => hb c ?_) ha, rfl⟩
          simp only [eval, hi, hx]; exact hc
    | obj ms =>
      simp only [updateAt] at h ⊢
      cases hf : find tok ms with
      | none => rw [hf] at h; simp at h
      | some x =>
        rw [hf] at h
        simp only [Option.map_eq_some_iff] at h ⊢
        obtain ⟨a, ha, rfl⟩ := h
        refine ⟨a, updateAt_last op1 op2 l1 l2 pre x t2 a (fun c hc => hb c ?_) ha, rfl⟩
        simp only [eval, hf]; exact hc
    | null => simp [updateAt] at h
    | bool _ => simp [updateAt] at h
    | int _ => simp [updateAt] at h
    | str _ => simp [updateAt] at h

theorem update_last (op1 op2 : Spec.Rfc6901.Op) (l1 l2 : Bytes) (pre : List Bytes) (d r : JVal)
    (hb : ∀ c, eval d pre = some c → ∀ r, atParent op1 c l1 = some r → atParent op2 c l2 = some r)
    (h : update op1 d (pre ++ [l1]) = some r) : update op2 d (pre ++ [l2]) = some r := by
  cases pre with
  | nil =>
    simp only [List.nil_append, update, updateAt] at h ⊢
    exact hb d (by simp [eval]) r h
  | cons tok pre =>
    simp only [List.cons_append, update] at h ⊢
    exact updateAt_last op1 op2 l1 l2 pre d tok r hb h

theorem dropLast_append_of_getLast? {α : Type} {l : List α} {a : α} (h : l.getLast? = some a) : l.dropLast ++ [a] = l := by
  have hne : l ≠ [] := by intro e; subst e; simp at h
  have h2 := List.dropLast_concat_getLast hne
  rw [List.getLast?_eq_some_getLast hne] at h
  cases h; exact h2

theorem update_addIfAbsent_add (v d : JVal) (ts : List Bytes) (r : JVal)
    (h : update (.addIfAbsent v) d ts = some r) : update (.add v) d ts = some r := by
  cases hl : ts.getLast? with
  | none =>
    have : ts = [] := by simpa using hl
    subst this; simpa [update] using h
  | some last =>
    have hts : ts.dropLast ++ [last] = ts := dropLast_append_of_getLast? hl
    rw [← hts] at h ⊢
    exact update_last _ _ last last _ d r (fun c _ r hr => atParent_addIfAbsent_add v c last r hr) h

end Pointer
end Model
end JV
