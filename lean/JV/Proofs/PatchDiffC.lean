/-
  JV.Proofs.PatchDiffC — the non-recursive parts of `from_diff`: single operations on a container at
  `loc`, the trailing removals / appends of the array case, the additions of the object case.
-/
import JV.Proofs.PatchDiffB
namespace JV
namespace Model
namespace Patch
open Assoc Pointer

theorem runOps_cons_some {op : JVal} {ops : List JVal} {d d1 d2 : JVal} (h1 : runOps d [op] = some d1)
    (h2 : runOps d1 ops = some d2) : runOps d (op :: ops) = some d2 :=
  runOps_append_some (ops1 := [op]) h1 h2

theorem op_replace (d s t : JVal) (loc : List Bytes) (h : get d loc = .ok s) :
    runOps d [opObj false sReplace (Pointer.toString loc) (some t)] = some (put d loc t) :=
  runOps_single (applyOp_replace d s t loc h).1 (applyOp_replace d s t loc h).2

theorem op_remove_obj (d : JVal) (loc : List Bytes) (ms : List (Bytes × JVal)) (k : Bytes) (v : JVal)
    (h : get d loc = .ok (.obj ms)) (hf : find k ms = some v) :
    runOps d [opObj false sRemove (Pointer.toString loc ++ 47 :: escapeToken k) none] =
      some (put d loc (.obj (erase k ms))) := by
  rw [toString_snoc]
  have hk : get (.obj ms) [k] = .ok v := by rw [get_obj_step _ hf]; cases v <;> rfl
  have hfs : finalStep false false .remove (.obj ms) k = (none, .obj (erase k ms)) := by simp [finalStep, hf]
  have := applyOp_remove d (.obj ms) v loc k h hk (by rw [hfs])
  rw [hfs] at this
  exact runOps_single this.1 this.2

theorem op_remove_arr (d : JVal) (loc : List Bytes) (xs : List JVal) (i : Nat)
    (h : get d loc = .ok (.arr xs)) (hi : i < xs.length) (h64 : i < 2 ^ 64) :
    runOps d [opObj false sRemove (Pointer.toString loc ++ 47 :: natDigits i) none] =
      some (put d loc (.arr (xs.eraseIdx i))) := by
  rw [toString_snoc_idx loc i h64]
  have hd := JV.SMap.isDash_natDigits i h64
  have hdi := JV.SMap.decToIndex_natDigits i h64
  have hx : xs[i]? = some xs[i] := List.getElem?_eq_getElem hi
  have hk : get (.arr xs) [natDigits i] = .ok xs[i] := by
    rw [get_arr_step _ hd hdi hx]; cases xs[i] <;> rfl
  have h1 : ¬ i ≥ xs.length := by omega
  have hfs : finalStep false false .remove (.arr xs) (natDigits i) = (none, .arr (xs.eraseIdx i)) := by
    simp [finalStep, hd, hdi, h1]
  have := applyOp_remove d (.arr xs) xs[i] loc (natDigits i) h hk (by rw [hfs])
  rw [hfs] at this
  exact runOps_single this.1 this.2

theorem op_add_obj (d : JVal) (loc : List Bytes) (ms : List (Bytes × JVal)) (k : Bytes) (v : JVal)
    (h : get d loc = .ok (.obj ms)) (hf : find k ms = none) :
    runOps d [opObj false sAdd (Pointer.toString loc ++ 47 :: escapeToken k) (some v)] =
      some (put d loc (.obj (insertSorted k v ms))) := by
  rw [toString_snoc]
  have hfs : finalStep false false (.addIfAbsent v) (.obj ms) k = (none, .obj (insertSorted k v ms)) := by
    simp [finalStep, hf, tryEmplace]
  have := applyOp_add d (.obj ms) v loc k h (Or.inr rfl) (by rw [hfs])
  rw [hfs] at this
  exact runOps_single this.1 this.2

theorem op_add_arr (d : JVal) (loc : List Bytes) (xs : List JVal) (v : JVal)
    (h : get d loc = .ok (.arr xs)) (h64 : xs.length < 2 ^ 64) :
    runOps d [opObj false sAdd (Pointer.toString loc ++ 47 :: natDigits xs.length) (some v)] =
      some (put d loc (.arr (xs ++ [v]))) := by
  rw [toString_snoc_idx loc _ h64]
  have hd := JV.SMap.isDash_natDigits _ h64
  have hdi := JV.SMap.decToIndex_natDigits _ h64
  have hfs : finalStep false false (.addIfAbsent v) (.arr xs) (natDigits xs.length) = (none, .arr (xs ++ [v])) := by
    simp [finalStep, hd, hdi]
  have := applyOp_add d (.arr xs) v loc _ h (Or.inl (natDigits_ne_dash _)) (by rw [hfs])
  rw [hfs] at this
  exact runOps_single this.1 this.2

/-! ### arrays: trailing removals and appends -/

theorem removeOps_run (lo : Nat) : ∀ (n : Nat) (d : JVal) (loc : List Bytes) (xs : List JVal),
    get d loc = .ok (.arr xs) → n = xs.length - lo → xs.length ≤ 2 ^ 64 →
    runOps d (removeOps false (Pointer.toString loc) lo n) = some (put d loc (.arr (xs.take lo)))
  | 0, d, loc, xs, h, hn, _ => by
    have : xs.length ≤ lo := by omega
    rw [List.take_of_length_le this, put_same loc d _ h]
    rfl
  | n + 1, d, loc, xs, h, hn, h64 => by
    have hlen : xs.length = lo + n + 1 := by omega
    simp only [removeOps]
    have h1 := op_remove_arr d loc xs (lo + n) h (by omega) (by omega)
    have he : xs.eraseIdx (lo + n) = xs.take (lo + n) := by
      rw [List.eraseIdx_eq_take_drop_succ, List.drop_of_length_le (by omega), List.append_nil]
    rw [he] at h1
    have hg1 := get_put loc d _ (.arr (xs.take (lo + n))) h
    have h2 := removeOps_run lo n _ loc (xs.take (lo + n)) hg1
      (by rw [List.length_take]; omega) (by rw [List.length_take]; omega)
    rw [put_put loc d _ _ _ h, List.take_take, Nat.min_eq_left (by omega)] at h2
    exact runOps_cons_some h1 h2

theorem addOps_run : ∀ (as : List JVal) (i : Nat) (d : JVal) (loc : List Bytes) (xs : List JVal),
    get d loc = .ok (.arr xs) → (as ≠ [] → xs.length = i ∧ i + as.length ≤ 2 ^ 64) →
    runOps d (addOps false (Pointer.toString loc) i as) = some (put d loc (.arr (xs ++ as)))
  | [], i, d, loc, xs, h, _ => by
    rw [List.append_nil, put_same loc d _ h]
    rfl
  | a :: as, i, d, loc, xs, h, hc => by
    obtain ⟨hi, h64⟩ := hc (by simp)
    subst hi
    simp only [List.length_cons] at h64
    simp only [addOps]
    have h1 := op_add_arr d loc xs a h (by omega)
    have hg1 := get_put loc d _ (.arr (xs ++ [a])) h
    have h2 := addOps_run as (xs.length + 1) _ loc (xs ++ [a]) hg1
      (fun _ => ⟨by simp, by omega⟩)
    rw [put_put loc d _ _ _ h, List.append_assoc, List.singleton_append] at h2
    exact runOps_cons_some h1 h2

/-- what the element-wise phase of the array diff leaves: the common prefix rewritten -/
def overlay : List JVal → List JVal → List JVal
  | _ :: ss, t :: tt => t :: overlay ss tt
  | ss, _ => ss

theorem overlay_length : ∀ (ss tt : List JVal), (overlay ss tt).length = ss.length
  | [], _ => by simp [overlay]
  | _ :: _, [] => by simp [overlay]
  | _ :: ss, _ :: tt => by simp [overlay, overlay_length ss tt]

theorem overlay_final : ∀ (ss tt : List JVal), (overlay ss tt).take tt.length ++ tt.drop ss.length = tt
  | [], tt => by simp [overlay]
  | _ :: _, [] => by simp [overlay]
  | _ :: ss, t :: tt => by simp [overlay, overlay_final ss tt]

/-! ### objects: the members only the target has -/

theorem find_none_tail_of_sorted {k : Bytes} {v : JVal} {ms : List (Bytes × JVal)} (h : Sorted ((k, v) :: ms)) :
    find k ms = none := find_none_of_allGt (Or.inr rfl) h.allGt

theorem diffAdded_run (sm : List (Bytes × JVal)) : ∀ (rem : List (Bytes × JVal)) (d : JVal) (loc : List Bytes)
    (M : List (Bytes × JVal)), get d loc = .ok (.obj M) → Sorted M → Sorted rem →
    (∀ k, find k sm = none → (find k rem).isSome = true → find k M = none) →
    ∃ M', runOps d (diffAdded false (Pointer.toString loc) sm rem) = some (put d loc (.obj M')) ∧ Sorted M' ∧
      ∀ k, find k M' = if ((find k sm).isNone && (find k rem).isSome) = true then find k rem else find k M
  | [], d, loc, M, h, hM, _, _ => by
    refine ⟨M, ?_, hM, ?_⟩
    · rw [put_same loc d _ h]; rfl
    · intro k; simp [find]
  | (k, tv) :: rem, d, loc, M, h, hM, hr, hinv => by
    have hkr : find k rem = none := find_none_tail_of_sorted hr
    simp only [diffAdded]
    cases hs : find k sm with
    | some sv =>
      have hinv2 : ∀ k', find k' sm = none → (find k' rem).isSome = true → find k' M = none := by
        intro k' h1 h2
        apply hinv k' h1
        simp only [find]
        by_cases e : k = k'
        · simp [e]
        · simp [e, h2]
      obtain ⟨M', hrun, hsM, hfM⟩ := diffAdded_run sm rem d loc M h hM hr.tail hinv2
      refine ⟨M', by simpa using hrun, hsM, ?_⟩
      intro k'
      rw [hfM k']
      by_cases e : k = k'
      · subst e; simp [hs]
      · simp [find, e]
    | none =>
      have hkM : find k M = none := hinv k hs (by simp [find])
      have h1 := op_add_obj d loc M k tv h hkM
      have hg1 := get_put loc d _ (.obj (insertSorted k tv M)) h
      have hinv2 : ∀ k', find k' sm = none → (find k' rem).isSome = true → find k' (insertSorted k tv M) = none := by
        intro k' h1 h2
        have hne : k' ≠ k := by
          intro e; subst e; rw [hkr] at h2; simp at h2
        rw [find_insertSorted_ne hne]
        apply hinv k' h1
        simp [find, Ne.symm hne, h2]
      obtain ⟨M', hrun, hsM, hfM⟩ := diffAdded_run sm rem _ loc _ hg1 (sorted_insertSorted hM hkM) hr.tail hinv2
      rw [put_put loc d _ _ _ h] at hrun
      refine ⟨M', runOps_cons_some h1 hrun, hsM, ?_⟩
      intro k'
      rw [hfM k']
      by_cases e : k' = k
      · subst e; simp [hs, hkr, find, find_insertSorted_self]
      · simp [find, Ne.symm e, find_insertSorted_ne e]

end Patch
end Model
end JV
