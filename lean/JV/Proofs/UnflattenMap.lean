/-
  JV.Proofs.UnflattenMap — `std::map::emplace` on a strictly increasing list, for any strict total
  order: the result is determined by its set of members (used for the pointer map of `unflatten`,
  the index map of `try_unflatten_array` and, through `tryEmplace_eq_mapEmplace`, sorted objects).
-/
import JV.Model.Unflatten
import JV.Proofs.Assoc
namespace JV
namespace SMap
open Model.Pointer

structure StrictTotal {K : Type} (lt : K → K → Bool) : Prop where
  irrefl : ∀ a, lt a a = false
  trans : ∀ {a b c}, lt a b = true → lt b c = true → lt a c = true
  tri : ∀ a b, lt a b = true ∨ a = b ∨ lt b a = true

variable {K V : Type} {lt : K → K → Bool}

theorem StrictTotal.ne (st : StrictTotal lt) {a b : K} (h : lt a b = true) : a ≠ b := by
  intro e; subst e; rw [st.irrefl] at h; cases h

theorem StrictTotal.asymm (st : StrictTotal lt) {a b : K} (h : lt a b = true) : lt b a = false := by
  cases hb : lt b a with
  | false => rfl
  | true => have := st.trans h hb; rw [st.irrefl] at this; cases this

/-- strictly increasing keys -/
def SSorted (lt : K → K → Bool) : List (K × V) → Prop
  | [] => True
  | (k, _) :: ms => (∀ e ∈ ms, lt k e.1 = true) ∧ SSorted lt ms

theorem mem_mapEmplace (st : StrictTotal lt) (k : K) (v : V) : ∀ (ms : List (K × V)), SSorted lt ms →
    ∀ x, x ∈ mapEmplace lt k v ms ↔ x ∈ ms ∨ (x = (k, v) ∧ ∀ e ∈ ms, e.1 ≠ k)
  | [], _, x => by simp [mapEmplace]
  | (k', v') :: ms, hs, x => by
    by_cases h1 : lt k' k = true
    · have e1 : mapEmplace lt k v ((k', v') :: ms) = (k', v') :: mapEmplace lt k v ms := by
        simp only [mapEmplace, h1, if_true]
      rw [e1]
      have ih := mem_mapEmplace st k v ms hs.2 x
      have hne : k' ≠ k := st.ne h1
      constructor
      · intro h
        rcases List.mem_cons.1 h with h | h
        · exact Or.inl (by rw [h]; exact List.mem_cons_self)
        · rcases ih.1 h with h | ⟨h, h'⟩
          · exact Or.inl (List.mem_cons_of_mem _ h)
          · refine Or.inr ⟨h, ?_⟩
            intro e he
            rcases List.mem_cons.1 he with he | he
            · rw [he]; exact hne
            · exact h' e he
      · intro h
        rcases h with h | ⟨h, h'⟩
        · rcases List.mem_cons.1 h with h | h
          · rw [h]; exact List.mem_cons_self
          · exact List.mem_cons_of_mem _ (ih.2 (Or.inl h))
        · exact List.mem_cons_of_mem _ (ih.2 (Or.inr ⟨h, fun e he => h' e (List.mem_cons_of_mem _ he)⟩))
    · by_cases h2 : lt k k' = true
      · have e1 : mapEmplace lt k v ((k', v') :: ms) = (k, v) :: (k', v') :: ms := by
          simp only [mapEmplace, h1, h2, if_true]; rfl
        rw [e1]
        have hne : k' ≠ k := fun e => st.ne h2 e.symm
        constructor
        · intro h
          rcases List.mem_cons.1 h with h | h
          · refine Or.inr ⟨h, ?_⟩
            intro e he
            rcases List.mem_cons.1 he with he | he
            · rw [he]; exact hne
            · exact fun e' => st.ne (st.trans h2 (hs.1 e he)) e'.symm
          · exact Or.inl h
        · intro h
          rcases h with h | ⟨h, _⟩
          · exact List.mem_cons_of_mem _ h
          · rw [h]; exact List.mem_cons_self
      · have e1 : mapEmplace lt k v ((k', v') :: ms) = (k', v') :: ms := by
          simp only [mapEmplace, h1, h2]; rfl
        rw [e1]
        have hk : k = k' := by
          rcases st.tri k k' with h | h | h
          · exact absurd h h2
          · exact h
          · exact absurd h h1
        constructor
        · intro h; exact Or.inl h
        · intro h
          rcases h with h | ⟨_, h'⟩
          · exact h
          · exact absurd hk.symm (h' (k', v') List.mem_cons_self)

theorem sorted_mapEmplace (st : StrictTotal lt) (k : K) (v : V) : ∀ (ms : List (K × V)), SSorted lt ms →
    SSorted lt (mapEmplace lt k v ms)
  | [], _ => by simp [mapEmplace, SSorted]
  | (k', v') :: ms, hs => by
    simp only [mapEmplace]
    by_cases h1 : lt k' k = true
    · simp only [h1, if_true]
      refine ⟨?_, sorted_mapEmplace st k v ms hs.2⟩
      intro e he
      rcases (mem_mapEmplace st k v ms hs.2 e).1 he with h | ⟨h, _⟩
      · exact hs.1 e h
      · subst h; exact h1
    · simp only [h1]
      by_cases h2 : lt k k' = true
      · simp only [h2, if_true]
        refine ⟨?_, hs⟩
        intro e he
        rcases List.mem_cons.1 he with h | h
        · subst h; exact h2
        · exact st.trans h2 (hs.1 e h)
      · simp only [h2]; exact hs

/-- a strictly increasing list is determined by its members -/
theorem ext (st : StrictTotal lt) : ∀ {a b : List (K × V)}, SSorted lt a → SSorted lt b → (∀ x, x ∈ a ↔ x ∈ b) → a = b
  | [], [], _, _, _ => rfl
  | [], y :: _, _, _, h => by have := (h y).2 List.mem_cons_self; cases this
  | x :: _, [], _, _, h => by have := (h x).1 List.mem_cons_self; cases this
  | (k, v) :: as, (k', v') :: bs, ha, hb, h => by
    have hxy : (k, v) = (k', v') := by
      rcases List.mem_cons.1 ((h (k, v)).1 List.mem_cons_self) with e | hin
      · exact e
      · rcases List.mem_cons.1 ((h (k', v')).2 List.mem_cons_self) with e | hin'
        · exact e.symm
        · have h1 := hb.1 _ hin
          have h2 := ha.1 _ hin'
          have := st.trans h1 h2
          rw [st.irrefl] at this; cases this
    cases hxy
    have : as = bs := by
      apply ext st ha.2 hb.2
      intro x
      constructor
      · intro hx
        rcases List.mem_cons.1 ((h x).1 (List.mem_cons_of_mem _ hx)) with e | hin
        · subst e; have := ha.1 _ hx; rw [st.irrefl] at this; cases this
        · exact hin
      · intro hx
        rcases List.mem_cons.1 ((h x).2 (List.mem_cons_of_mem _ hx)) with e | hin
        · subst e; have := hb.1 _ hx; rw [st.irrefl] at this; cases this
        · exact hin
    rw [this]

/-- same key, same value -/
def Functional (es : List (K × V)) : Prop := ∀ k v v', (k, v) ∈ es → (k, v') ∈ es → v = v'

theorem emplaceAll_spec (st : StrictTotal lt) : ∀ (es acc : List (K × V)), SSorted lt acc → Functional (acc ++ es) →
    SSorted lt (emplaceAll lt acc es) ∧ ∀ x, x ∈ emplaceAll lt acc es ↔ x ∈ acc ∨ x ∈ es
  | [], acc, hs, _ => by simp [emplaceAll, hs]
  | (k, v) :: es, acc, hs, hf => by
    have hs1 := sorted_mapEmplace st k v acc hs
    have hm := mem_mapEmplace st k v acc hs
    have hf1 : Functional (mapEmplace lt k v acc ++ es) := by
      intro a b b' h1 h2
      apply hf a b b'
      · rcases List.mem_append.1 h1 with h | h
        · rcases (hm _).1 h with h | ⟨h, _⟩
          · exact List.mem_append_left _ h
          · rw [h]; exact List.mem_append_right _ List.mem_cons_self
        · exact List.mem_append_right _ (List.mem_cons_of_mem _ h)
      · rcases List.mem_append.1 h2 with h | h
        · rcases (hm _).1 h with h | ⟨h, _⟩
          · exact List.mem_append_left _ h
          · rw [h]; exact List.mem_append_right _ List.mem_cons_self
        · exact List.mem_append_right _ (List.mem_cons_of_mem _ h)
    have ih := emplaceAll_spec st es (mapEmplace lt k v acc) hs1 hf1
    refine ⟨ih.1, ?_⟩
    intro x
    show x ∈ emplaceAll lt (mapEmplace lt k v acc) es ↔ _
    rw [ih.2 x, hm x]
    constructor
    · rintro ((h | ⟨h, _⟩) | h)
      · exact Or.inl h
      · exact Or.inr (by rw [h]; exact List.mem_cons_self)
      · exact Or.inr (List.mem_cons_of_mem _ h)
    · rintro (h | h)
      · exact Or.inl (Or.inl h)
      · rcases List.mem_cons.1 h with h | h
        · -- x = (k, v): either new, or already there with (by functionality) the same value
          by_cases hex : ∃ e ∈ acc, e.1 = k
          · obtain ⟨e, he, hek⟩ := hex
            have : e.2 = v := by
              apply hf k e.2 v
              · have : e = (k, e.2) := by rw [← hek]
                rw [← this]; exact List.mem_append_left _ he
              · exact List.mem_append_right _ List.mem_cons_self
            have hxe : x = e := by rw [h, ← hek, ← this]
            exact Or.inl (Or.inl (hxe ▸ he))
          · exact Or.inl (Or.inr ⟨h, fun e he hk => hex ⟨e, he, hk⟩⟩)
        · exact Or.inr h

end SMap
end JV
