/-
  JV.Proofs.MergePatch — helper lemmas for JV.Props.C16.
-/
import JV.Proofs.JValLemmas
import JV.Model.MergePatch
import JV.Spec.Rfc7386
namespace JV
open Assoc Model Spec.Rfc7386

theorem tryEmplace_absent {k : Bytes} {v : JVal} {ms : List (Bytes × JVal)} (h : find k ms = none) :
    tryEmplace false k v ms = insertSorted k v ms := by
  simp [tryEmplace, h]

theorem insertSorted_of_allGt {k : Bytes} {v : JVal} : ∀ {ms : List (Bytes × JVal)}, AllGt k ms →
    insertSorted k v ms = (k, v) :: ms
  | [], _ => rfl
  | (k', v') :: ms, h => by
    have : keyLt k' k = false := keyLt_asymm h.1
    simp [insertSorted, this]

theorem insertSorted_erase_eq_assign {k : Bytes} {v : JVal} : ∀ {ms : List (Bytes × JVal)} {x : JVal},
    Sorted ms → find k ms = some x → insertSorted k v (erase k ms) = assign k v ms
  | [], _, _, h => by simp [find] at h
  | (k', v') :: ms, x, hs, h => by
    simp only [find] at h
    by_cases e : k' = k
    · subst e
      simp only [erase, assign, if_true]
      exact insertSorted_of_allGt hs.allGt
    · simp only [e, if_false] at h
      have hlt : keyLt k' k = true := allGt_of_find hs.allGt h
      simp only [erase, assign, e, if_false, insertSorted, hlt, if_true]
      rw [insertSorted_erase_eq_assign hs.tail h]

theorem insertSorted_eq_assign {k : Bytes} {v : JVal} : ∀ {ms : List (Bytes × JVal)},
    find k ms = none → insertSorted k v ms = assign k v ms
  | [], _ => rfl
  | (k', v') :: ms, h => by
    simp only [find] at h
    by_cases e : k' = k
    · simp [e] at h
    · simp only [e, if_false] at h
      simp only [insertSorted, assign, e, if_false]
      by_cases hl : keyLt k' k = true
      · simp only [hl, if_true]; rw [insertSorted_eq_assign h]
      · simp [hl]

/-- `erase` + `try_emplace` (what the code does) is `Target[Name] = Value` (what the RFC says) -/
theorem emplace_erase_eq_assign {k : Bytes} {v x : JVal} {ms : List (Bytes × JVal)}
    (hs : Sorted ms) (h : find k ms = some x) : tryEmplace false k v (erase k ms) = assign k v ms := by
  rw [tryEmplace_absent (find_erase_self hs), insertSorted_erase_eq_assign hs h]

theorem emplace_eq_assign {k : Bytes} {v : JVal} {ms : List (Bytes × JVal)}
    (h : find k ms = none) : tryEmplace false k v ms = assign k v ms := by
  rw [tryEmplace_absent h, insertSorted_eq_assign h]

/-! ### map laws of `assign` (the Spec's `Target[Name] = Value`) -/

theorem assign_eq_insert (k : Bytes) (v : JVal) {ms : List (Bytes × JVal)} (hs : Sorted ms) :
    assign k v ms = insertSorted k v (erase k ms) := by
  cases h : find k ms with
  | none => rw [erase_of_find_none h, insertSorted_eq_assign h]
  | some x => rw [insertSorted_erase_eq_assign hs h]

theorem sorted_assign {k : Bytes} {v : JVal} {ms : List (Bytes × JVal)} (hs : Sorted ms) : Sorted (assign k v ms) := by
  rw [assign_eq_insert k v hs]
  exact sorted_insertSorted (sorted_erase hs) (find_erase_self hs)

theorem find_assign_self {k : Bytes} {v : JVal} {ms : List (Bytes × JVal)} (hs : Sorted ms) :
    find k (assign k v ms) = some v := by
  rw [assign_eq_insert k v hs]; exact find_insertSorted_self

theorem find_assign_ne {k k' : Bytes} {v : JVal} {ms : List (Bytes × JVal)} (hs : Sorted ms) (hne : k' ≠ k) :
    find k' (assign k v ms) = find k' ms := by
  rw [assign_eq_insert k v hs, find_insertSorted_ne hne, find_erase_ne hne]

theorem wfMembers_assign {k : Bytes} {v : JVal} {ms : List (Bytes × JVal)} (hs : Sorted ms) (hv : v.WF)
    (hw : WFMembers ms) : WFMembers (assign k v ms) := by
  rw [assign_eq_insert k v hs]
  exact wfMembers_insertSorted hv (wfMembers_erase hw)

/-! ### the code computes the RFC function and keeps the representation invariant -/

theorem applyMP_empty_eq (p : JVal) : applyMP false (.obj []) p = applyMP false .null p := by
  cases p <;> simp [applyMP]

mutual
  theorem applyMP_spec : ∀ (p t : JVal), t.WF → p.WF →
      applyMP false t p = mergePatch t p ∧ (applyMP false t p).WF
    | .obj pm, t, ht, hp => by
      have hp' : Sorted pm ∧ WFMembers pm := by simpa [JVal.WF] using hp
      have key : ∀ tm, Sorted tm → WFMembers tm →
          applyMP false t (.obj pm) = .obj (applyMembers false tm pm) →
          mergePatch t (.obj pm) = .obj (mergeMembers tm pm) →
          applyMP false t (.obj pm) = mergePatch t (.obj pm) ∧ (applyMP false t (.obj pm)).WF := by
        intro tm hs hw e1 e2
        have := applyMembers_spec pm tm hs hw hp'.2
        rw [e1, e2, this.1]
        refine ⟨rfl, ?_⟩
        rw [← this.1]
        simpa [JVal.WF] using this.2
      cases t with
      | obj tm =>
        have ht' : Sorted tm ∧ WFMembers tm := by simpa [JVal.WF] using ht
        exact key tm ht'.1 ht'.2 (by simp [applyMP]) (by simp [mergePatch])
      | null => exact key [] trivial trivial (by simp [applyMP]) (by simp [mergePatch])
      | bool _ => exact key [] trivial trivial (by simp [applyMP]) (by simp [mergePatch])
      | int _ => exact key [] trivial trivial (by simp [applyMP]) (by simp [mergePatch])
      | str _ => exact key [] trivial trivial (by simp [applyMP]) (by simp [mergePatch])
      | arr _ => exact key [] trivial trivial (by simp [applyMP]) (by simp [mergePatch])
    | .null, t, _, _ => by simp [applyMP, mergePatch, JVal.WF]
    | .bool _, t, _, _ => by simp [applyMP, mergePatch, JVal.WF]
    | .int _, t, _, _ => by simp [applyMP, mergePatch, JVal.WF]
    | .str _, t, _, _ => by simp [applyMP, mergePatch, JVal.WF]
    | .arr xs, t, _, hp => by
      refine ⟨by simp [applyMP, mergePatch], ?_⟩
      simpa [applyMP] using hp
  theorem applyMembers_spec : ∀ (pm tm : List (Bytes × JVal)), Sorted tm → WFMembers tm → WFMembers pm →
      applyMembers false tm pm = mergeMembers tm pm ∧
        Sorted (applyMembers false tm pm) ∧ WFMembers (applyMembers false tm pm)
    | [], tm, hs, hw, _ => by simp [applyMembers, mergeMembers, hs, hw]
    | (k, pv) :: pm, tm, hs, hw, hp => by
      cases hf : find k tm with
      | some item =>
        by_cases hn : pv.isNull = true
        · have ih := applyMembers_spec pm (erase k tm) (sorted_erase hs) (wfMembers_erase hw) hp.2
          simp only [applyMembers, mergeMembers, hf, hn, if_true]
          exact ih
        · have hitem : item.WF := wf_of_find hw hf
          have h1 := applyMP_spec pv item hitem hp.1
          have hset := emplace_erase_eq_assign (v := applyMP false item pv) hs hf
          have ih := applyMembers_spec pm (assign k (applyMP false item pv) tm) (sorted_assign hs)
            (wfMembers_assign hs h1.2 hw) hp.2
          simp only [applyMembers, mergeMembers, hf, hn, hset, Option.getD_some]
          rw [← h1.1]
          exact ih
      | none =>
        by_cases hn : pv.isNull = true
        · have ih := applyMembers_spec pm tm hs hw hp.2
          simp only [applyMembers, mergeMembers, hf, hn, if_true, erase_of_find_none hf]
          exact ih
        · have h1 := applyMP_spec pv .null trivial hp.1
          have hset := emplace_eq_assign (v := applyMP false (.obj []) pv) hf
          rw [applyMP_empty_eq] at hset
          have ih := applyMembers_spec pm (assign k (applyMP false .null pv) tm) (sorted_assign hs)
            (wfMembers_assign hs h1.2 hw) hp.2
          simp only [applyMembers, mergeMembers, hf, hn, applyMP_empty_eq, hset, Option.getD_none]
          rw [← h1.1]
          exact ih
end

end JV
