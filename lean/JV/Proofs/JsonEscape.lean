/-
  JV.Proofs.JsonEscape — what `escape_string` writes, a strict RFC 8259 string reader reads back.
-/
import JV.Model.JsonEscape
import JV.Spec.Rfc8259
namespace JV
namespace Model
namespace JsonEscape
open Spec.Rfc8259

theorem hexVal_hexChar (n : Nat) (h : n < 16) : hexVal (hexChar n) = some n := by
  unfold hexChar hexVal
  by_cases h10 : n < 10
  · have h1 : 48 ≤ 48 + n ∧ 48 + n ≤ 57 := by omega
    simp [h10, h1]
  · have h1 : ¬ (48 ≤ 55 + n ∧ 55 + n ≤ 57) := by omega
    have h2 : ¬ (97 ≤ 55 + n ∧ 55 + n ≤ 102) := by omega
    have h3 : 65 ≤ 55 + n ∧ 55 + n ≤ 70 := by omega
    simp only [h10, if_false, h1, h2, h3, if_true]
    have : 55 + n - 55 = n := by omega
    rw [this]; simp

theorem hex4_u4 (cp : Nat) (h : cp < 65536) (rest : Bytes) :
    hex4 ([hexChar (cp / 4096 % 16), hexChar (cp / 256 % 16), hexChar (cp / 16 % 16), hexChar (cp % 16)] ++ rest) = some (cp, rest) := by
  simp only [List.cons_append, List.nil_append, hex4,
    hexVal_hexChar _ (Nat.mod_lt _ (by omega : 0 < 16))]
  congr 2
  omega

/-- reading a non-special character -/
theorem parseChars_plain (fuel : Nat) (c : Nat) (cs : Bytes) (h34 : c ≠ 34) (h32 : ¬ c < 32) (h92 : c ≠ 92) :
    parseChars (fuel + 1) (c :: cs) = (parseChars fuel cs).map fun p => (c :: p.1, p.2) := by
  simp [parseChars, h34, h32, h92]

theorem parseChars_simple (fuel : Nat) (e b : Nat) (cs : Bytes)
    (he : (e = 34 ∧ b = 34) ∨ (e = 92 ∧ b = 92) ∨ (e = 47 ∧ b = 47) ∨ (e = 98 ∧ b = 8) ∨ (e = 102 ∧ b = 12) ∨
          (e = 110 ∧ b = 10) ∨ (e = 114 ∧ b = 13) ∨ (e = 116 ∧ b = 9)) :
    parseChars (fuel + 1) (92 :: e :: cs) = (parseChars fuel cs).map fun p => (b :: p.1, p.2) := by
  rcases he with ⟨rfl, rfl⟩ | ⟨rfl, rfl⟩ | ⟨rfl, rfl⟩ | ⟨rfl, rfl⟩ | ⟨rfl, rfl⟩ | ⟨rfl, rfl⟩ | ⟨rfl, rfl⟩ | ⟨rfl, rfl⟩ <;>
    simp [parseChars]

theorem parseChars_u_ascii (fuel : Nat) (c : Nat) (hc : c < 128) (cs : Bytes) :
    parseChars (fuel + 1) (u4 c ++ cs) = (parseChars fuel cs).map fun p => (c :: p.1, p.2) := by
  have h := hex4_u4 c (by omega) cs
  simp only [u4, List.cons_append, List.nil_append] at h ⊢
  simp only [parseChars, show (92:Nat) ≠ 34 by decide, show ¬ (92:Nat) < 32 by decide, if_false, if_true,
    show (117:Nat) ≠ 34 by decide, show (117:Nat) ≠ 92 by decide, show (117:Nat) ≠ 47 by decide, show (117:Nat) ≠ 98 by decide,
    show (117:Nat) ≠ 102 by decide, show (117:Nat) ≠ 110 by decide, show (117:Nat) ≠ 114 by decide, show (117:Nat) ≠ 116 by decide, h]
  have h1 : ¬ (0xD800 ≤ c ∧ c ≤ 0xDBFF) := by omega
  have h2 : ¬ (0xDC00 ≤ c ∧ c ≤ 0xDFFF) := by omega
  have h3 : utf8Encode c = [c] := by simp [utf8Encode, hc]
  simp [h1, h2, h3]

/-- with escape_all_non_ascii off, for every byte string `s` (any bytes ≥ 0x80 pass through untouched):
    the escaped text followed by a quote reads back as `s` -/
theorem escape_reads_back (sol : Bool) : ∀ (s : Bytes) (fuel : Nat), s.length ≤ fuel →
    ∃ e, escape false sol fuel s = some e ∧
      ∀ (rest : Bytes) (fuel' : Nat), e.length + 1 ≤ fuel' → parseChars fuel' (e ++ 34 :: rest) = some (s, rest)
  | [], fuel, _ => by
    refine ⟨[], by cases fuel <;> simp [escape], ?_⟩
    intro rest fuel' hf
    obtain ⟨f, rfl⟩ : ∃ f, fuel' = f + 1 := ⟨fuel' - 1, by simp at hf; omega⟩
    simp [parseChars]
  | c :: cs, 0, h => by simp at h
  | c :: cs, fuel + 1, h => by
    obtain ⟨e', he', hr'⟩ := escape_reads_back sol cs fuel (by simpa using h)
    -- helper: finishing each arm
    have fin2 : ∀ (x b : Nat), ((x = 34 ∧ b = 34) ∨ (x = 92 ∧ b = 92) ∨ (x = 47 ∧ b = 47) ∨ (x = 98 ∧ b = 8) ∨ (x = 102 ∧ b = 12) ∨
          (x = 110 ∧ b = 10) ∨ (x = 114 ∧ b = 13) ∨ (x = 116 ∧ b = 9)) →
        ∀ (rest : Bytes) (fuel' : Nat), (92 :: x :: e').length + 1 ≤ fuel' →
          parseChars fuel' ((92 :: x :: e') ++ 34 :: rest) = some (b :: cs, rest) := by
      intro x b hx rest fuel' hf
      obtain ⟨f, rfl⟩ : ∃ f, fuel' = f + 1 := ⟨fuel' - 1, by simp at hf; omega⟩
      simp only [List.cons_append]
      rw [parseChars_simple f x b _ hx, hr' rest f (by simp at hf; omega)]
      rfl
    unfold escape
    simp only [he', Option.map_some]
    by_cases h92 : c = 92
    · subst h92; exact ⟨_, by simp, fin2 92 92 (by simp)⟩
    by_cases h34 : c = 34
    · subst h34; exact ⟨_, by simp, fin2 34 34 (by simp)⟩
    by_cases h8 : c = 8
    · subst h8; exact ⟨_, by simp, fin2 98 8 (by simp)⟩
    by_cases h12 : c = 12
    · subst h12; exact ⟨_, by simp, fin2 102 12 (by simp)⟩
    by_cases h10 : c = 10
    · subst h10; exact ⟨_, by simp, fin2 110 10 (by simp)⟩
    by_cases h13 : c = 13
    · subst h13; exact ⟨_, by simp, fin2 114 13 (by simp)⟩
    by_cases h9 : c = 9
    · subst h9; exact ⟨_, by simp, fin2 116 9 (by simp)⟩
    simp only [h92, h34, h8, h12, h10, h13, h9, if_false]
    by_cases hs : (sol && decide (c = 47)) = true
    · have hc : c = 47 := by simpa using (Bool.and_eq_true_iff.1 hs).2
      subst hc
      have hsol : sol = true := by simpa using (Bool.and_eq_true_iff.1 hs).1
      subst hsol
      exact ⟨_, by simp, fin2 47 47 (by simp)⟩
    · simp only [hs, Bool.false_eq_true, if_false, Bool.or_false]
      by_cases hctl : isControl c = true
      · -- control character: \u00XX
        have hlt : c < 128 := by
          simp only [isControl, Bool.or_eq_true, decide_eq_true_eq] at hctl; omega
        have htc : toCodepoint (c :: cs) = some (c, 1) := by simp [toCodepoint, show c < 0x80 from hlt]
        have hnot : ¬ (c > 0xFFFF) := by omega
        simp only [hctl, if_true, htc, Bool.or_true, hnot, List.drop_one, List.tail_cons, he', Option.map_some]
        refine ⟨_, rfl, ?_⟩
        intro rest fuel' hf
        obtain ⟨f, rfl⟩ : ∃ f, fuel' = f + 1 := ⟨fuel' - 1, by simp at hf; omega⟩
        rw [List.append_assoc, parseChars_u_ascii f c hlt, hr' rest f (by simp [u4] at hf; omega)]
        rfl
      · have hctl' : isControl c = false := by simpa using hctl
        simp only [hctl', Bool.false_eq_true, if_false]
        refine ⟨_, rfl, ?_⟩
        intro rest fuel' hf
        obtain ⟨f, rfl⟩ : ∃ f, fuel' = f + 1 := ⟨fuel' - 1, by simp at hf; omega⟩
        have h32 : ¬ c < 32 := by
          simp only [isControl, Bool.or_eq_false_iff, decide_eq_false_iff_not] at hctl'; omega
        simp only [List.cons_append]
        rw [parseChars_plain f c _ h34 h32 h92, hr' rest f (by simp at hf; omega)]
        rfl

end JsonEscape
end Model
end JV
