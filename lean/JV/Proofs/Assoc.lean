/-
  JV.Proofs.Assoc — "an object is a finite map": laws of the association-list primitives under
  the sorted-unique representation invariant of `sorted_json_object`.
-/
import JV.Basic.JVal
namespace JV
namespace Assoc

theorem keyLt_irrefl : ∀ a : Bytes, keyLt a a = false
  | [] => rfl
  | x :: xs => by simp [keyLt, keyLt_irrefl xs]

theorem keyLt_trans : ∀ {a b c : Bytes}, keyLt a b = true → keyLt b c = true → keyLt a c = true
  | [], [], _, h, _ => by simp [keyLt] at h
  | [], _ :: _, [], _, h => by simp [keyLt] at h
  | [], _ :: _, _ :: _, _, _ => by simp [keyLt]
  | _ :: _, [], _, h, _ => by simp [keyLt] at h
  | _ :: _, _ :: _, [], _, h => by simp [keyLt] at h
  | x :: xs, y :: ys, z :: zs, h1, h2 => by
    simp only [keyLt] at h1 h2 ⊢
    by_cases hxy : x < y
    · by_cases hyz : y < z
      · have : x < z := Nat.lt_trans hxy hyz
        simp [this]
      · simp only [hyz, if_false] at h2
        by_cases hzy : z < y
        · simp [hzy] at h2
        · have : y = z := by omega
          subst this; simp [hxy]
    · simp only [hxy, if_false] at h1
      by_cases hyx : y < x
      · simp [hyx] at h1
      · simp only [hyx, if_false] at h1
        have hxy' : x = y := by omega
        subst hxy'
        by_cases hyz : x < z
        · simp [hyz]
        · simp only [hyz, if_false] at h2 ⊢
          by_cases hzy : z < x
          · simp [hzy] at h2
          · simp only [hzy, if_false] at h2 ⊢
            exact keyLt_trans h1 h2

theorem keyLt_trichotomy : ∀ a b : Bytes, keyLt a b = true ∨ a = b ∨ keyLt b a = true
  | [], [] => by simp
  | [], _ :: _ => by simp [keyLt]
  | _ :: _, [] => by simp [keyLt]
  | x :: xs, y :: ys => by
    simp only [keyLt]
    by_cases hxy : x < y
    · simp [hxy]
    · by_cases hyx : y < x
      · simp [hyx, hxy]
      · have : x = y := by omega
        subst this
        simp only [Nat.lt_irrefl, if_false]
        rcases keyLt_trichotomy xs ys with h | h | h
        · exact Or.inl h
        · exact Or.inr (Or.inl (by rw [h]))
        · exact Or.inr (Or.inr h)

theorem keyLt_ne {a b : Bytes} (h : keyLt a b = true) : a ≠ b := by
  intro e; subst e; simp [keyLt_irrefl] at h

theorem keyLt_asymm {a b : Bytes} (h : keyLt a b = true) : keyLt b a = false := by
  cases hb : keyLt b a with
  | false => rfl
  | true => have := keyLt_trans h hb; simp [keyLt_irrefl] at this

variable {α : Type}

/-- every key of `ms` is greater than `k` -/
def AllGt (k : Bytes) : List (Bytes × α) → Prop
  | [] => True
  | (k', _) :: ms => keyLt k k' = true ∧ AllGt k ms

theorem Sorted.tail {m : Bytes × α} {ms : List (Bytes × α)} (h : Sorted (m :: ms)) : Sorted ms := by
  cases ms with
  | nil => trivial
  | cons m' ms => cases m; cases m'; exact h.2

theorem AllGt.trans {k k' : Bytes} (hk : keyLt k k' = true) : ∀ {ms : List (Bytes × α)}, AllGt k' ms → AllGt k ms
  | [], _ => trivial
  | (_, _) :: _, h => ⟨keyLt_trans hk h.1, AllGt.trans hk h.2⟩

theorem Sorted.allGt : ∀ {k : Bytes} {v : α} {ms : List (Bytes × α)}, Sorted ((k, v) :: ms) → AllGt k ms
  | _, _, [], _ => trivial
  | _, _, (_, v') :: ms, h => ⟨h.1, AllGt.trans h.1 (Sorted.allGt (v := v') h.2)⟩

theorem sorted_cons {k : Bytes} {v : α} {ms : List (Bytes × α)} (hg : AllGt k ms) (hs : Sorted ms) :
    Sorted ((k, v) :: ms) := by
  cases ms with
  | nil => trivial
  | cons m' ms => cases m'; exact ⟨hg.1, hs⟩

theorem find_none_of_allGt {k k' : Bytes} (hk : keyLt k k' = true ∨ k = k') :
    ∀ {ms : List (Bytes × α)}, AllGt k' ms → find k ms = none
  | [], _ => rfl
  | (k'', v) :: ms, h => by
    have hlt : keyLt k k'' = true := by
      rcases hk with hk | hk
      · exact keyLt_trans hk h.1
      · rw [hk]; exact h.1
    have hne : k'' ≠ k := fun e => keyLt_ne hlt e.symm
    simp only [find, hne, if_false]
    exact find_none_of_allGt hk h.2

theorem allGt_of_find {k' : Bytes} : ∀ {ms : List (Bytes × α)} {k : Bytes} {v : α},
    AllGt k' ms → find k ms = some v → keyLt k' k = true
  | [], _, _, _, h => by simp [find] at h
  | (k'', _) :: ms, k, v, hg, h => by
    simp only [find] at h
    by_cases e : k'' = k
    · rw [← e]; exact hg.1
    · simp only [e, if_false] at h
      exact allGt_of_find hg.2 h

/-! ### erase -/

theorem erase_of_find_none : ∀ {k : Bytes} {ms : List (Bytes × α)}, find k ms = none → erase k ms = ms
  | _, [], _ => rfl
  | k, (k', v) :: ms, h => by
    simp only [find] at h
    by_cases e : k' = k
    · simp [e] at h
    · simp only [e, if_false] at h
      simp only [erase, e, if_false, erase_of_find_none h]

theorem allGt_erase {k k' : Bytes} : ∀ {ms : List (Bytes × α)}, AllGt k' ms → AllGt k' (erase k ms)
  | [], _ => trivial
  | (k'', v) :: ms, h => by
    simp only [erase]
    by_cases e : k'' = k
    · simp only [e, if_true]; exact h.2
    · simp only [e, if_false]; exact ⟨h.1, allGt_erase h.2⟩

theorem sorted_erase {k : Bytes} : ∀ {ms : List (Bytes × α)}, Sorted ms → Sorted (erase k ms)
  | [], _ => trivial
  | (k', v) :: ms, h => by
    simp only [erase]
    by_cases e : k' = k
    · simp only [e, if_true]; exact h.tail
    · simp only [e, if_false]
      exact sorted_cons (allGt_erase h.allGt) (sorted_erase h.tail)

theorem find_erase_self {k : Bytes} : ∀ {ms : List (Bytes × α)}, Sorted ms → find k (erase k ms) = none
  | [], _ => rfl
  | (k', v) :: ms, h => by
    simp only [erase]
    by_cases e : k' = k
    · simp only [e, if_true]
      exact find_none_of_allGt (Or.inr rfl) (e ▸ h.allGt)
    · simp only [e, if_false, find]
      exact find_erase_self h.tail

theorem find_erase_ne {k k' : Bytes} (hne : k' ≠ k) : ∀ {ms : List (Bytes × α)}, find k' (erase k ms) = find k' ms
  | [] => rfl
  | (k'', v) :: ms => by
    simp only [erase]
    by_cases e : k'' = k
    · have : k'' ≠ k' := fun e' => hne (e'.symm.trans e)
      simp only [e, if_true, find]
      rw [← e, if_neg this]
    · simp only [e, if_false, find]
      by_cases e' : k'' = k'
      · simp [e']
      · simp only [e', if_false]; exact find_erase_ne hne

/-! ### insertSorted (the absent-key branch of `try_emplace`) -/

theorem allGt_insertSorted {k k' : Bytes} {v : α} (hk : keyLt k' k = true) :
    ∀ {ms : List (Bytes × α)}, AllGt k' ms → AllGt k' (insertSorted k v ms)
  | [], _ => ⟨hk, trivial⟩
  | (k'', v') :: ms, h => by
    simp only [insertSorted]
    by_cases e : keyLt k'' k = true
    · simp only [e, if_true]; exact ⟨h.1, allGt_insertSorted hk h.2⟩
    · simp only [e]; exact ⟨hk, h⟩

theorem sorted_insertSorted {k : Bytes} {v : α} :
    ∀ {ms : List (Bytes × α)}, Sorted ms → find k ms = none → Sorted (insertSorted k v ms)
  | [], _, _ => trivial
  | (k', v') :: ms, h, hf => by
    simp only [find] at hf
    by_cases e : k' = k
    · simp [e] at hf
    · simp only [e, if_false] at hf
      simp only [insertSorted]
      by_cases hl : keyLt k' k = true
      · simp only [hl, if_true]
        exact sorted_cons (allGt_insertSorted hl h.allGt) (sorted_insertSorted h.tail hf)
      · simp only [hl]
        have hlt : keyLt k k' = true := by
          rcases keyLt_trichotomy k k' with h1 | h1 | h1
          · exact h1
          · exact absurd h1.symm e
          · exact absurd h1 hl
        exact ⟨hlt, h⟩

theorem find_insertSorted_self {k : Bytes} {v : α} :
    ∀ {ms : List (Bytes × α)}, find k (insertSorted k v ms) = some v
  | [] => by simp [insertSorted, find]
  | (k', v') :: ms => by
    simp only [insertSorted]
    by_cases hl : keyLt k' k = true
    · have : k' ≠ k := keyLt_ne hl
      simp only [hl, if_true, find, this, if_false]
      exact find_insertSorted_self
    · simp [hl, find]

theorem find_insertSorted_ne {k k' : Bytes} {v : α} (hne : k' ≠ k) :
    ∀ {ms : List (Bytes × α)}, find k' (insertSorted k v ms) = find k' ms
  | [] => by simp [insertSorted, find, Ne.symm hne]
  | (k'', v') :: ms => by
    simp only [insertSorted]
    by_cases hl : keyLt k'' k = true
    · simp only [hl, if_true, find]
      by_cases e : k'' = k'
      · simp [e]
      · simp only [e, if_false]; exact find_insertSorted_ne hne
    · have hl' : keyLt k'' k = false := by simpa using hl
      simp [hl', find, Ne.symm hne]

/-! ### extensionality: a sorted association list is determined by its lookups -/

theorem sorted_ext : ∀ {a b : List (Bytes × α)}, Sorted a → Sorted b → (∀ k, find k a = find k b) → a = b
  | [], [], _, _, _ => rfl
  | [], (k, v) :: _, _, _, h => by have := h k; simp [find] at this
  | (k, v) :: _, [], _, _, h => by have := h k; simp [find] at this
  | (k, v) :: as, (k', v') :: bs, ha, hb, h => by
    have hkk : k = k' := by
      rcases keyLt_trichotomy k k' with h1 | h1 | h1
      · -- k < k': k is absent from b
        have hn : find k ((k', v') :: bs) = none := by
          have hne : k' ≠ k := fun e => keyLt_ne h1 e.symm
          simp only [find, hne, if_false]
          exact find_none_of_allGt (Or.inl h1) hb.allGt
        have := h k; rw [hn] at this; simp [find] at this
      · exact h1
      · have hn : find k' ((k, v) :: as) = none := by
          have hne : k ≠ k' := fun e => keyLt_ne h1 e.symm
          simp only [find, hne, if_false]
          exact find_none_of_allGt (Or.inl h1) ha.allGt
        have := h k'; rw [hn] at this; simp [find] at this
    subst hkk
    have hv : v = v' := by have := h k; simpa [find] using this
    subst hv
    have : as = bs := by
      apply sorted_ext ha.tail hb.tail
      intro k2
      by_cases e : k = k2
      · subst e
        rw [find_none_of_allGt (Or.inr rfl) ha.allGt, find_none_of_allGt (Or.inr rfl) hb.allGt]
      · have := h k2; simpa [find, e] using this
    rw [this]

end Assoc
end JV
