/-
  JV.Proofs.MsgpackParser — the msgpack_parser model (JV.Model.MsgpackParser) against the MessagePack reference decoder
  (JV.Spec.Msgpack): the length / number / string readers agree with `takeN` / `beVal` / `toSigned`, and by induction on the fuel the
  three mutually recursive readers agree (`Agrees`) with the reference's `item` / `items` / `members`.
-/
import JV.Model.MsgpackParser
import JV.Spec.BinFormats
import JV.Proofs.JsonParser
import JV.Proofs.CborParser
namespace JV.Model.MsgpackParser
open JV Spec.Cbor Spec
set_option linter.unusedSimpArgs false
set_option linter.unusedVariables false

theorem readBE_none {w : Nat} {s : Bytes} (h : takeN w s = none) : readBE w s = .fail (.err .unexpectedEof) := by
  unfold takeN at h; unfold readBE
  split at h <;> simp_all

theorem readBE_some {w : Nat} {s d r : Bytes} (h : takeN w s = some (d, r)) : readBE w s = .ok (beVal d) r := by
  unfold takeN at h; unfold readBE
  split at h
  · simp at h
  · simp only [Option.some.injEq, Prod.mk.injEq] at h
    obtain ⟨h1, h2⟩ := h
    subst h1; subst h2
    simp [*, Model.CborParser.bigToNative_eq_beVal]

theorem readBE_one (x : Nat) (s : Bytes) : readBE 1 (x :: s) = .ok x s := by
  simp [readBE, Model.CborParser.bigToNative]

theorem readSpan_none {n : Nat} {s : Bytes} (h : takeN n s = none) : readSpan n s = .fail (.err .unexpectedEof) := by
  unfold takeN at h; unfold readSpan
  split at h <;> simp_all

theorem readSpan_some {n : Nat} {s d r : Bytes} (h : takeN n s = some (d, r)) : readSpan n s = .ok d r := by
  unfold takeN at h; unfold readSpan
  split at h
  · simp at h
  · simp only [Option.some.injEq, Prod.mk.injEq] at h
    obtain ⟨h1, h2⟩ := h
    subst h1; subst h2
    simp [*]

theorem takeN_length {n : Nat} {s d r : Bytes} (h : takeN n s = some (d, r)) : s.length = n + r.length ∧ d.length = n := by
  unfold takeN at h
  split at h
  · simp at h
  · simp only [Option.some.injEq, Prod.mk.injEq] at h
    obtain ⟨h1, h2⟩ := h
    subst h1; subst h2
    simp; omega

theorem takeN_none_length {n : Nat} {s : Bytes} (h : takeN n s = none) : s.length < n := by
  unfold takeN at h
  split at h
  · assumption
  · simp at h

theorem badUtf8_eq (b : Bytes) : badUtf8 b = !Spec.Rfc8259.validUtf8 b := by
  have h := Model.JsonParser.validate_iff b
  unfold badUtf8
  cases hv : Model.JsonParser.validate b <;> cases hu : Spec.Rfc8259.validUtf8 b <;> simp_all

/-- `big_to_native<int8_t/int16_t/int32_t/int64_t>` is the two's complement reading the specification prescribes -/
theorem asSigned_eq (w : Nat) (hw : 0 < w) (v : Nat) : asSigned w v = toSigned (8 * w) v := by
  unfold asSigned toSigned
  by_cases h : v < 2 ^ (8 * w - 1)
  · have : ¬ v ≥ 2 ^ (8 * w - 1) := by omega
    simp [h, this]
  · have : v ≥ 2 ^ (8 * w - 1) := by omega
    simp [h, this]

theorem beVal_lt (d : Bytes) (hb : ∀ x ∈ d, x < 256) : beVal d < 256 ^ d.length := by
  induction d with
  | nil => simp [beVal]
  | cons x xs ih =>
    have h1 : x < 256 := hb x (by simp)
    have h2 := ih (fun y hy => hb y (by simp [hy]))
    simp only [beVal, List.length_cons, Nat.pow_succ]
    have : x * 256 ^ xs.length ≤ 255 * 256 ^ xs.length := Nat.mul_le_mul_right _ (by omega)
    omega

theorem getSize_w1 {ty : Nat} (h : ty = 0xd9 ∨ ty = 0xc4 ∨ ty = 0xc7) (s : Bytes) : getSize ty s = readBE 1 s := by
  simp [getSize, h]

theorem getSize_w2 {ty : Nat} (h : ty = 0xda ∨ ty = 0xc5 ∨ ty = 0xc8 ∨ ty = 0xdc ∨ ty = 0xde) (s : Bytes) : getSize ty s = readBE 2 s := by
  rcases h with h | h | h | h | h <;> subst h <;> simp [getSize]

theorem getSize_w4 {ty : Nat} (h : ty = 0xdb ∨ ty = 0xc6 ∨ ty = 0xc9 ∨ ty = 0xdd ∨ ty = 0xdf) (s : Bytes) : getSize ty s = readBE 4 s := by
  rcases h with h | h | h | h | h <;> subst h <;> simp [getSize]

theorem getSize_fix {ty : Nat} (h : 0x80 ≤ ty ∧ ty ≤ 0x9f) (s : Bytes) : getSize ty s = .ok (ty % 16) s := by
  unfold getSize
  rw [if_neg (by omega), if_neg (by omega), if_neg (by omega), if_neg (by omega), if_neg (by omega), if_neg (by omega),
    if_neg (by omega), if_neg (by omega), if_pos (by omega)]

theorem getSize_fixext {ty : Nat} (h : 0xd4 ≤ ty ∧ ty ≤ 0xd8) (s : Bytes) :
    getSize ty s = .ok (if ty = 0xd4 then 1 else if ty = 0xd5 then 2 else if ty = 0xd6 then 4 else if ty = 0xd7 then 8 else 16) s := by
  rcases (by omega : ty = 0xd4 ∨ ty = 0xd5 ∨ ty = 0xd6 ∨ ty = 0xd7 ∨ ty = 0xd8) with e | e | e | e | e <;> subst e <;> simp [getSize]

/-- failures that carry no claim about the status of the input: outside the fragment, or an implementation limit -/
def Fail.lenient : Fail → Bool
  | .skip => true
  | .err .maxNestingDepthExceeded => true
  | _ => false

/-- the model's outcome against the reference decoder's outcome, values compared through `conv` -/
def Agrees {α β : Type} (conv : α → Option β) (m : Res α) (r : Spec.Cbor.Res β) : Prop :=
  match m, r with
  | .ok v rest, .ok w rest2 => conv v = some w ∧ rest = rest2
  | .ok v _, .unjudged => conv v = none
  | .ok _ _, .illformed => False
  | .fail f, .ok _ _ => f.lenient = true
  | .fail _, _ => True

theorem agrees_lenient {α β : Type} (conv : α → Option β) (f : Fail) (h : f.lenient = true) (r : Spec.Cbor.Res β) :
    Agrees conv (.fail f) r := by
  cases r <;> simp [Agrees, h]

/-- an accepted ext item has its type byte and whole payload present, and is outside the judged value mapping -/
theorem readExt_ok {len : Nat} {s : Bytes} {v : Item} {rest : Bytes} (h : readExt len s = .ok v rest) :
    ¬ s.length < len + 1 ∧ toBV textKey false v = none := by
  unfold readExt at h
  cases h1 : takeN 1 s with
  | none => simp [readBE_none h1] at h
  | some p =>
    obtain ⟨d, s1⟩ := p
    have l1 := (takeN_length h1).1
    simp only [readBE_some h1] at h
    split at h
    · rename_i hc
      cases h2 : takeN 4 s1 with
      | none => simp [readBE_none h2] at h
      | some q =>
        obtain ⟨d2, r⟩ := q
        have l2 := (takeN_length h2).1
        simp only [readBE_some h2, Res.ok.injEq] at h
        obtain ⟨hv, -⟩ := h
        subst hv
        exact ⟨by omega, by simp [toBV]⟩
    · split at h
      · rename_i hc
        cases h2 : takeN 8 s1 with
        | none => simp [readBE_none h2] at h
        | some q =>
          obtain ⟨d2, r⟩ := q
          have l2 := (takeN_length h2).1
          simp only [readBE_some h2, Res.ok.injEq] at h
          obtain ⟨hv, -⟩ := h
          subst hv
          exact ⟨by omega, by simp [toBV]⟩
      · split at h
        · rename_i hc
          cases h2 : takeN 4 s1 with
          | none => simp [readBE_none h2] at h
          | some q =>
            obtain ⟨d2, s2⟩ := q
            have l2 := (takeN_length h2).1
            simp only [readBE_some h2] at h
            cases h3 : takeN 8 s2 with
            | none => simp [readBE_none h3] at h
            | some q3 =>
              obtain ⟨d3, r⟩ := q3
              have l3 := (takeN_length h3).1
              simp only [readBE_some h3, Res.ok.injEq] at h
              obtain ⟨hv, -⟩ := h
              subst hv
              exact ⟨by omega, by simp [toBV]⟩
        · cases h2 : takeN len s1 with
          | none => simp [readSpan_none h2] at h
          | some q =>
            obtain ⟨d2, r⟩ := q
            have l2 := (takeN_length h2).1
            simp only [readSpan_some h2, Res.ok.injEq] at h
            obtain ⟨hv, -⟩ := h
            subst hv
            exact ⟨by omega, by simp [toBV]⟩

theorem readExt_agrees (len : Nat) (s : Bytes) :
    Agrees (toBV textKey false) (readExt len s) (if s.length < len + 1 then Spec.Cbor.Res.illformed else Spec.Cbor.Res.unjudged) := by
  cases h : readExt len s with
  | fail f => split <;> simp [Agrees]
  | ok v rest =>
    obtain ⟨h1, h2⟩ := readExt_ok h
    simp [h1, Agrees, h2]

theorem readStr_agrees (n : Nat) (s : Bytes) :
    Agrees (toBV textKey false) (readStr n s)
      (match takeN n s with
       | none => Spec.Cbor.Res.illformed
       | some (d, r) => if Rfc8259.validUtf8 d then .ok (.str d "") r else .illformed) := by
  unfold readStr
  cases h : takeN n s with
  | none => simp [readSpan_none h, Agrees]
  | some p =>
    obtain ⟨d, r⟩ := p
    cases hu : Rfc8259.validUtf8 d <;> simp [readSpan_some h, badUtf8_eq, hu, Agrees, toBV]

theorem readBin_agrees (n : Nat) (s : Bytes) :
    Agrees (toBV textKey false) (readBin n s)
      (match takeN n s with
       | none => Spec.Cbor.Res.illformed
       | some (d, r) => .ok (.bytes d "") r) := by
  unfold readBin
  cases h : takeN n s with
  | none => simp [readSpan_none h, Agrees]
  | some p =>
    obtain ⟨d, r⟩ := p
    simp [readSpan_some h, Agrees, toBV]

theorem textKey_none_of_toBV_none (k : Item) (h : toBV textKey false k = none) : textKey k = none := by
  cases k <;> simp_all [toBV, textKey]

theorem toBV_str (k : Item) (kb : Bytes) (tg : String) (h : toBV textKey false k = some (.str kb tg)) : k = .str kb := by
  cases k <;> simp_all [toBV]
  all_goals (rename_i xs; cases hx : toBVList textKey false xs <;> simp_all)

theorem textKey_none_of_not_str (k : Item) (w : BV) (h : toBV textKey false k = some w) (hw : ∀ kb tg, w ≠ .str kb tg) : textKey k = none := by
  cases k <;> simp_all [toBV, textKey]
  rename_i s0
  exact hw s0 "" h.symm

section step
variable (maxD fuel : Nat)
variable (hI : ∀ d s, Agrees (toBV textKey false) (item maxD fuel d s) (Spec.Msgpack.item fuel s))

include hI in
theorem items_step (hL : ∀ d n s, Agrees (toBVList textKey false) (items maxD fuel d n s) (Spec.Msgpack.items fuel n s)) :
    ∀ d n s, Agrees (toBVList textKey false) (items maxD (fuel + 1) d n s) (Spec.Msgpack.items (fuel + 1) n s) := by
  intro d n s
  cases n with
  | zero => simp [items, Spec.Msgpack.items, Agrees, toBVList]
  | succ n =>
    simp only [items, Spec.Msgpack.items]
    have h1 := hI d s
    cases hM : item maxD fuel d s with
    | fail f =>
      cases hS : Spec.Msgpack.item fuel s with
      | illformed => simp [Agrees]
      | unjudged => simp [Agrees]
      | ok x2 s2 =>
        simp only [hM, hS, Agrees] at h1
        exact agrees_lenient _ f h1 _
    | ok x s1 =>
      cases hS : Spec.Msgpack.item fuel s with
      | illformed => simp [hM, hS, Agrees] at h1
      | unjudged =>
        simp only [hM, hS, Agrees] at h1
        cases hM2 : items maxD fuel d n s1 <;> simp [hM2, Agrees, toBVList, h1]
      | ok x2 s2 =>
        simp only [hM, hS, Agrees] at h1
        obtain ⟨hx, hs⟩ := h1
        subst hs
        have h2 := hL d n s1
        cases hM2 : items maxD fuel d n s1 <;> cases hS2 : Spec.Msgpack.items fuel n s1 <;> simp_all [Agrees, toBVList]

include hI in
theorem members_step (hL : ∀ d n s, Agrees (toBVMembers textKey false) (members maxD fuel d n s) (Spec.Msgpack.members fuel n s)) :
    ∀ d n s, Agrees (toBVMembers textKey false) (members maxD (fuel + 1) d n s) (Spec.Msgpack.members (fuel + 1) n s) := by
  intro d n s
  cases n with
  | zero => simp [members, Spec.Msgpack.members, Agrees, toBVMembers]
  | succ n =>
    simp only [members, Spec.Msgpack.members]
    have h1 := hI d s
    cases hM : item maxD fuel d s with
    | fail f =>
      cases hS : Spec.Msgpack.item fuel s with
      | illformed => simp [Agrees]
      | unjudged => simp [Agrees]
      | ok x2 s2 =>
        simp only [hM, hS, Agrees] at h1
        exact agrees_lenient _ f h1 _
    | ok k s1 =>
      cases hS : Spec.Msgpack.item fuel s with
      | illformed => simp [hM, hS, Agrees] at h1
      | unjudged =>
        simp only [hM, hS, Agrees] at h1
        have hk := textKey_none_of_toBV_none k h1
        cases hMv : item maxD fuel d s1 with
        | fail f => simp [hMv, Agrees]
        | ok v s2 => cases hM2 : members maxD fuel d n s2 <;> simp [hMv, hM2, Agrees, toBVMembers, hk]
      | ok k2 s2 =>
        simp only [hM, hS, Agrees] at h1
        obtain ⟨hx, hs⟩ := h1
        subst hs
        by_cases hstr : ∃ kb tg, k2 = .str kb tg
        · obtain ⟨kb, tg, rfl⟩ := hstr
          have hkk := toBV_str k kb tg hx
          subst hkk
          simp only []
          have h2 := hI d s1
          cases hMv : item maxD fuel d s1 with
          | fail f =>
            cases hSv : Spec.Msgpack.item fuel s1 with
            | illformed => simp [Agrees]
            | unjudged => simp [Agrees]
            | ok w s3 =>
              simp only [hMv, hSv, Agrees] at h2
              exact agrees_lenient _ f h2 _
          | ok v s2 =>
            cases hSv : Spec.Msgpack.item fuel s1 with
            | illformed => simp [hMv, hSv, Agrees] at h2
            | unjudged =>
              simp only [hMv, hSv, Agrees] at h2
              cases hM2 : members maxD fuel d n s2 <;> simp [hMv, hM2, Agrees, toBVMembers, h2]
            | ok w s3 =>
              simp only [hMv, hSv, Agrees] at h2
              obtain ⟨hv, hs⟩ := h2
              subst hs
              have h3 := hL d n s2
              cases hM2 : members maxD fuel d n s2 <;> cases hS2 : Spec.Msgpack.members fuel n s2 <;> simp only [hM2, hS2, Agrees] at h3 ⊢ <;> simp_all [toBVMembers, textKey]
        · have hk : textKey k = none := textKey_none_of_not_str k k2 hx (fun kb tg e => hstr ⟨kb, tg, e⟩)
          cases k2 <;> first
            | (exfalso; exact hstr ⟨_, _, rfl⟩)
            | (simp only []
               cases hMv : item maxD fuel d s1 with
               | fail f => simp [hMv, Agrees]
               | ok v s2 => cases hM2 : members maxD fuel d n s2 <;> simp [hMv, hM2, Agrees, toBVMembers, hk])

/-- a fixed-width number against the reference's `lenThen w` -/
theorem number_agrees (w : Nat) (s : Bytes) (mk : Nat → Item) (f : Nat → BV) (h : ∀ v, toBV textKey false (mk v) = some (f v)) :
    Agrees (toBV textKey false) (number w s mk)
      (match takeN w s with
       | none => Spec.Cbor.Res.illformed
       | some (d, r) => .ok (f (beVal d)) r) := by
  unfold number
  cases ht : takeN w s with
  | none => simp [readBE_none ht, Agrees]
  | some p => obtain ⟨d, r⟩ := p; simp [readBE_some ht, Agrees, h]

set_option maxRecDepth 8192 in
theorem item_step
    (hL : ∀ d n s, Agrees (toBVList textKey false) (items maxD fuel d n s) (Spec.Msgpack.items fuel n s))
    (hM : ∀ d n s, Agrees (toBVMembers textKey false) (members maxD fuel d n s) (Spec.Msgpack.members fuel n s)) :
    ∀ d s, Agrees (toBV textKey false) (item maxD (fuel + 1) d s) (Spec.Msgpack.item (fuel + 1) s) := by
  intro d s
  cases s with
  | nil => simp [item, Spec.Msgpack.item, Agrees]
  | cons b s =>
    have arr_case : ∀ n s1, Agrees (toBV textKey false)
        (match items maxD fuel (d + 1) n s1 with | .ok xs r => Res.ok (Item.arr xs) r | .fail f => .fail f)
        (Spec.Msgpack.wrapArr (Spec.Msgpack.items fuel n s1)) := by
      intro n s1
      have hc := hL (d + 1) n s1
      cases hMc : items maxD fuel (d + 1) n s1 <;> cases hSc : Spec.Msgpack.items fuel n s1 <;>
        simp only [hMc, hSc, Agrees] at hc <;> simp [Spec.Msgpack.wrapArr, Agrees, toBV, hc]
    have map_case : ∀ n s1, Agrees (toBV textKey false)
        (match members maxD fuel (d + 1) n s1 with | .ok xs r => Res.ok (Item.map xs) r | .fail f => .fail f)
        (Spec.Msgpack.wrapMap (Spec.Msgpack.members fuel n s1)) := by
      intro n s1
      have hc := hM (d + 1) n s1
      cases hMc : members maxD fuel (d + 1) n s1 <;> cases hSc : Spec.Msgpack.members fuel n s1 <;>
        simp only [hMc, hSc, Agrees] at hc <;> simp [Spec.Msgpack.wrapMap, Agrees, toBV, hc]
    clear hL hM
    rcases (by omega : b ≤ 0x7f ∨ (0x80 ≤ b ∧ b ≤ 0x8f) ∨ (0x90 ≤ b ∧ b ≤ 0x9f) ∨ (0xa0 ≤ b ∧ b ≤ 0xbf) ∨
        b = 0xc0 ∨ b = 0xc1 ∨ b = 0xc2 ∨ b = 0xc3 ∨ b = 0xc4 ∨ b = 0xc5 ∨ b = 0xc6 ∨ b = 0xc7 ∨ b = 0xc8 ∨ b = 0xc9 ∨ b = 0xca ∨ b = 0xcb ∨
        b = 0xcc ∨ b = 0xcd ∨ b = 0xce ∨ b = 0xcf ∨ b = 0xd0 ∨ b = 0xd1 ∨ b = 0xd2 ∨ b = 0xd3 ∨ (0xd4 ≤ b ∧ b ≤ 0xd8) ∨ b = 0xd9 ∨ b = 0xda ∨
        b = 0xdb ∨ b = 0xdc ∨ b = 0xdd ∨ b = 0xde ∨ b = 0xdf ∨ (0xe0 ≤ b ∧ b ≤ 0xff) ∨ 256 ≤ b) with
      h | h | h | h | h | h | h | h | h | h | h | h | h | h | h | h | h | h | h | h | h | h | h | h | h | h | h | h | h | h | h | h | h | h
    · -- positive fixint
      have : ¬ 256 ≤ b := by omega
      simp [item, Spec.Msgpack.item, this, h, Agrees, toBV]
    · -- fixmap
      have e1 : ¬ 256 ≤ b := by omega
      have e2 : ¬ b ≤ 0x7f := by omega
      have e3 : b ≤ 0x8f := h.2
      have e4 : b % 16 = b - 0x80 := by omega
      simp only [item, Spec.Msgpack.item, e1, e2, e3, if_true, if_false, true_or, getSize_fix (by omega : 0x80 ≤ b ∧ b ≤ 0x9f), e4]
      by_cases hdep : d + 1 > maxD
      · simp only [hdep, if_true]; exact agrees_lenient _ (.err .maxNestingDepthExceeded) rfl _
      · simp only [hdep, if_false]; exact map_case _ _
    · -- fixarray
      have e1 : ¬ 256 ≤ b := by omega
      have e2 : ¬ b ≤ 0x7f := by omega
      have e3 : ¬ b = 0xde ∧ ¬ b = 0xdf := by omega
      have e3b : ¬ b ≤ 0x8f := by omega
      have e4 : b ≤ 0x9f := h.2
      have e5 : b % 16 = b - 0x90 := by omega
      simp only [item, Spec.Msgpack.item, e1, e2, e3, e3b, e4, if_true, if_false, true_or, or_self, getSize_fix (by omega : 0x80 ≤ b ∧ b ≤ 0x9f), e5]
      by_cases hdep : d + 1 > maxD
      · simp only [hdep, if_true]; exact agrees_lenient _ (.err .maxNestingDepthExceeded) rfl _
      · simp only [hdep, if_false]; exact arr_case _ _
    · -- fixstr
      have e1 : ¬ 256 ≤ b := by omega
      have e2 : ¬ b ≤ 0x7f := by omega
      have e3 : ¬ b = 0xde ∧ ¬ b = 0xdf ∧ ¬ b = 0xdc ∧ ¬ b = 0xdd := by omega
      have e3b : ¬ b ≤ 0x8f := by omega
      have e4b : ¬ b ≤ 0x9f := by omega
      have e5 : b ≤ 0xbf := h.2
      have e6 : b % 32 = b - 0xa0 := by omega
      simp only [item, Spec.Msgpack.item, e1, e2, e3, e3b, e4b, e5, if_true, if_false, or_self, e6]
      exact readStr_agrees _ _
    · subst h; simp [item, Spec.Msgpack.item, Agrees, toBV]          -- nil
    · subst h; simp [item, Spec.Msgpack.item, Agrees]                -- 0xc1
    · subst h; simp [item, Spec.Msgpack.item, Agrees, toBV]          -- false
    · subst h; simp [item, Spec.Msgpack.item, Agrees, toBV]          -- true
    · -- bin8
      subst h
      simp only [item, Spec.Msgpack.item, sized, getSize_w1 (by simp : (0xc4 : Nat) = 0xd9 ∨ (0xc4 : Nat) = 0xc4 ∨ (0xc4 : Nat) = 0xc7)]
      cases ht : takeN 1 s with
      | none => simp [readBE_none ht, Agrees]
      | some p => obtain ⟨dd, r⟩ := p; simp [readBE_some ht]; exact readBin_agrees _ _
    · subst h
      simp only [item, Spec.Msgpack.item, sized, getSize_w2 (by simp : (0xc5 : Nat) = 0xda ∨ (0xc5 : Nat) = 0xc5 ∨ (0xc5 : Nat) = 0xc8 ∨ (0xc5 : Nat) = 0xdc ∨ (0xc5 : Nat) = 0xde)]
      cases ht : takeN 2 s with
      | none => simp [readBE_none ht, Agrees]
      | some p => obtain ⟨dd, r⟩ := p; simp [readBE_some ht]; exact readBin_agrees _ _
    · subst h
      simp only [item, Spec.Msgpack.item, sized, getSize_w4 (by simp : (0xc6 : Nat) = 0xdb ∨ (0xc6 : Nat) = 0xc6 ∨ (0xc6 : Nat) = 0xc9 ∨ (0xc6 : Nat) = 0xdd ∨ (0xc6 : Nat) = 0xdf)]
      cases ht : takeN 4 s with
      | none => simp [readBE_none ht, Agrees]
      | some p => obtain ⟨dd, r⟩ := p; simp [readBE_some ht]; exact readBin_agrees _ _
    · -- ext8
      subst h
      simp only [item, Spec.Msgpack.item, sized, getSize_w1 (by simp : (0xc7 : Nat) = 0xd9 ∨ (0xc7 : Nat) = 0xc4 ∨ (0xc7 : Nat) = 0xc7)]
      cases ht : takeN 1 s with
      | none => simp [readBE_none ht, ht, Agrees]
      | some p => obtain ⟨dd, r⟩ := p; simp [readBE_some ht, ht]; exact readExt_agrees _ _
    · subst h
      simp only [item, Spec.Msgpack.item, sized, getSize_w2 (by simp : (0xc8 : Nat) = 0xda ∨ (0xc8 : Nat) = 0xc5 ∨ (0xc8 : Nat) = 0xc8 ∨ (0xc8 : Nat) = 0xdc ∨ (0xc8 : Nat) = 0xde)]
      cases ht : takeN 2 s with
      | none => simp [readBE_none ht, ht, Agrees]
      | some p => obtain ⟨dd, r⟩ := p; simp [readBE_some ht, ht]; exact readExt_agrees _ _
    · subst h
      simp only [item, Spec.Msgpack.item, sized, getSize_w4 (by simp : (0xc9 : Nat) = 0xdb ∨ (0xc9 : Nat) = 0xc6 ∨ (0xc9 : Nat) = 0xc9 ∨ (0xc9 : Nat) = 0xdd ∨ (0xc9 : Nat) = 0xdf)]
      cases ht : takeN 4 s with
      | none => simp [readBE_none ht, ht, Agrees]
      | some p => obtain ⟨dd, r⟩ := p; simp [readBE_some ht, ht]; exact readExt_agrees _ _
    · subst h; simp [item, Spec.Msgpack.item]; exact number_agrees 4 s _ (fun v => .dbl (f32ToF64 v) "") (by intro v; simp [toBV])
    · subst h; simp [item, Spec.Msgpack.item]; exact number_agrees 8 s _ (fun v => .dbl v "") (by intro v; simp [toBV])
    · subst h; simp [item, Spec.Msgpack.item]; exact number_agrees 1 s _ (fun v => .int v "") (by intro v; simp [toBV])
    · subst h; simp [item, Spec.Msgpack.item]; exact number_agrees 2 s _ (fun v => .int v "") (by intro v; simp [toBV])
    · subst h; simp [item, Spec.Msgpack.item]; exact number_agrees 4 s _ (fun v => .int v "") (by intro v; simp [toBV])
    · subst h; simp [item, Spec.Msgpack.item]; exact number_agrees 8 s _ (fun v => .int v "") (by intro v; simp [toBV])
    · subst h; simp [item, Spec.Msgpack.item]; exact number_agrees 1 s _ (fun v => .int (toSigned 8 v) "") (by intro v; simp [toBV, asSigned_eq 1 (by omega)])
    · subst h; simp [item, Spec.Msgpack.item]; exact number_agrees 2 s _ (fun v => .int (toSigned 16 v) "") (by intro v; simp [toBV, asSigned_eq 2 (by omega)])
    · subst h; simp [item, Spec.Msgpack.item]; exact number_agrees 4 s _ (fun v => .int (toSigned 32 v) "") (by intro v; simp [toBV, asSigned_eq 4 (by omega)])
    · subst h; simp [item, Spec.Msgpack.item]; exact number_agrees 8 s _ (fun v => .int (toSigned 64 v) "") (by intro v; simp [toBV, asSigned_eq 8 (by omega)])
    · -- fixext
      have e : ¬ 256 ≤ b ∧ ¬ b ≤ 0x7f ∧ ¬ (b ≤ 0x8f ∨ b = 0xde ∨ b = 0xdf) ∧ ¬ b ≤ 0x8f ∧ ¬ (b ≤ 0x9f ∨ b = 0xdc ∨ b = 0xdd) ∧ ¬ b ≤ 0x9f ∧ ¬ b ≤ 0xbf ∧ ¬ 0xe0 ≤ b ∧
          ¬ b = 0xc0 ∧ ¬ b = 0xc1 ∧ ¬ b = 0xc2 ∧ ¬ b = 0xc3 ∧ ¬ b = 0xc4 ∧ ¬ b = 0xc5 ∧ ¬ b = 0xc6 ∧ ¬ b = 0xc7 ∧ ¬ b = 0xc8 ∧ ¬ b = 0xc9 ∧ ¬ b = 0xca ∧ ¬ b = 0xcb ∧
          ¬ b = 0xcc ∧ ¬ b = 0xcd ∧ ¬ b = 0xce ∧ ¬ b = 0xcf ∧ ¬ b = 0xd0 ∧ ¬ b = 0xd1 ∧ ¬ b = 0xd2 ∧ ¬ b = 0xd3 ∧ ¬ (b = 0xd9 ∨ b = 0xda ∨ b = 0xdb) ∧
          ¬ (b = 0xc4 ∨ b = 0xc5 ∨ b = 0xc6) ∧ ¬ (b = 0xc7 ∨ b = 0xc8 ∨ b = 0xc9) := by omega
      have e0 : ¬ b = 0xde ∧ ¬ b = 0xdf ∧ ¬ b = 0xdc ∧ ¬ b = 0xdd ∧ ¬ b = 0xd9 ∧ ¬ b = 0xda ∧ ¬ b = 0xdb := by omega
      simp only [item, Spec.Msgpack.item, e, e0, h, if_true, if_false, and_self, true_or, false_or, or_false, or_self, sized, getSize_fixext h]
      exact readExt_agrees _ _
    · -- str8
      subst h
      simp only [item, Spec.Msgpack.item, sized, getSize_w1 (by simp : (0xd9 : Nat) = 0xd9 ∨ (0xd9 : Nat) = 0xc4 ∨ (0xd9 : Nat) = 0xc7)]
      cases ht : takeN 1 s with
      | none => simp [readBE_none ht, Agrees]
      | some p => obtain ⟨dd, r⟩ := p; simp [readBE_some ht]; exact readStr_agrees _ _
    · subst h
      simp only [item, Spec.Msgpack.item, sized, getSize_w2 (by simp : (0xda : Nat) = 0xda ∨ (0xda : Nat) = 0xc5 ∨ (0xda : Nat) = 0xc8 ∨ (0xda : Nat) = 0xdc ∨ (0xda : Nat) = 0xde)]
      cases ht : takeN 2 s with
      | none => simp [readBE_none ht, Agrees]
      | some p => obtain ⟨dd, r⟩ := p; simp [readBE_some ht]; exact readStr_agrees _ _
    · subst h
      simp only [item, Spec.Msgpack.item, sized, getSize_w4 (by simp : (0xdb : Nat) = 0xdb ∨ (0xdb : Nat) = 0xc6 ∨ (0xdb : Nat) = 0xc9 ∨ (0xdb : Nat) = 0xdd ∨ (0xdb : Nat) = 0xdf)]
      cases ht : takeN 4 s with
      | none => simp [readBE_none ht, Agrees]
      | some p => obtain ⟨dd, r⟩ := p; simp [readBE_some ht]; exact readStr_agrees _ _
    · -- array16
      subst h
      simp only [item, Spec.Msgpack.item, getSize_w2 (by simp : (0xdc : Nat) = 0xda ∨ (0xdc : Nat) = 0xc5 ∨ (0xdc : Nat) = 0xc8 ∨ (0xdc : Nat) = 0xdc ∨ (0xdc : Nat) = 0xde)]
      by_cases hdep : d + 1 > maxD
      · simp [hdep]; exact agrees_lenient _ (.err .maxNestingDepthExceeded) rfl _
      · cases ht : takeN 2 s with
        | none => simp [hdep, readBE_none ht, Agrees]
        | some p => obtain ⟨dd, r⟩ := p; simp [hdep, readBE_some ht]; exact arr_case _ _
    · subst h
      simp only [item, Spec.Msgpack.item, getSize_w4 (by simp : (0xdd : Nat) = 0xdb ∨ (0xdd : Nat) = 0xc6 ∨ (0xdd : Nat) = 0xc9 ∨ (0xdd : Nat) = 0xdd ∨ (0xdd : Nat) = 0xdf)]
      by_cases hdep : d + 1 > maxD
      · simp [hdep]; exact agrees_lenient _ (.err .maxNestingDepthExceeded) rfl _
      · cases ht : takeN 4 s with
        | none => simp [hdep, readBE_none ht, Agrees]
        | some p => obtain ⟨dd, r⟩ := p; simp [hdep, readBE_some ht]; exact arr_case _ _
    · -- map16
      subst h
      simp only [item, Spec.Msgpack.item, getSize_w2 (by simp : (0xde : Nat) = 0xda ∨ (0xde : Nat) = 0xc5 ∨ (0xde : Nat) = 0xc8 ∨ (0xde : Nat) = 0xdc ∨ (0xde : Nat) = 0xde)]
      by_cases hdep : d + 1 > maxD
      · simp [hdep]; exact agrees_lenient _ (.err .maxNestingDepthExceeded) rfl _
      · cases ht : takeN 2 s with
        | none => simp [hdep, readBE_none ht, Agrees]
        | some p => obtain ⟨dd, r⟩ := p; simp [hdep, readBE_some ht]; exact map_case _ _
    · subst h
      simp only [item, Spec.Msgpack.item, getSize_w4 (by simp : (0xdf : Nat) = 0xdb ∨ (0xdf : Nat) = 0xc6 ∨ (0xdf : Nat) = 0xc9 ∨ (0xdf : Nat) = 0xdd ∨ (0xdf : Nat) = 0xdf)]
      by_cases hdep : d + 1 > maxD
      · simp [hdep]; exact agrees_lenient _ (.err .maxNestingDepthExceeded) rfl _
      · cases ht : takeN 4 s with
        | none => simp [hdep, readBE_none ht, Agrees]
        | some p => obtain ⟨dd, r⟩ := p; simp [hdep, readBE_some ht]; exact map_case _ _
    · -- negative fixint
      have e : ¬ 256 ≤ b ∧ ¬ b ≤ 0x7f ∧ ¬ (b ≤ 0x8f ∨ b = 0xde ∨ b = 0xdf) ∧ ¬ b ≤ 0x8f ∧ ¬ (b ≤ 0x9f ∨ b = 0xdc ∨ b = 0xdd) ∧ ¬ b ≤ 0x9f ∧ ¬ b ≤ 0xbf ∧ 0xe0 ≤ b ∧
          ¬ b = 0xc0 ∧ ¬ b = 0xc1 ∧ ¬ b = 0xc2 ∧ ¬ b = 0xc3 ∧ ¬ b = 0xc4 ∧ ¬ b = 0xc5 ∧ ¬ b = 0xc6 ∧ ¬ (b = 0xc7 ∨ b = 0xc8 ∨ b = 0xc9) ∧ ¬ b = 0xca ∧ ¬ b = 0xcb ∧
          ¬ b = 0xcc ∧ ¬ b = 0xcd ∧ ¬ b = 0xce ∧ ¬ b = 0xcf ∧ ¬ b = 0xd0 ∧ ¬ b = 0xd1 ∧ ¬ b = 0xd2 ∧ ¬ b = 0xd3 ∧ ¬ (0xd4 ≤ b ∧ b ≤ 0xd8) ∧ ¬ b = 0xd9 ∧ ¬ b = 0xda ∧
          ¬ b = 0xdb ∧ ¬ b = 0xdc ∧ ¬ b = 0xdd ∧ ¬ b = 0xde ∧ ¬ b = 0xdf := by omega
      simp [item, Spec.Msgpack.item, e, Agrees, toBV]
    · -- not a uint8_t
      simp only [item, h, if_true]
      exact agrees_lenient _ .skip rfl _

end step

/-- all three readers agree with the reference at every fuel, nesting depth and input -/
theorem agree_all (maxD : Nat) : ∀ fuel : Nat,
    (∀ d s, Agrees (toBV textKey false) (item maxD fuel d s) (Spec.Msgpack.item fuel s)) ∧
    (∀ d n s, Agrees (toBVList textKey false) (items maxD fuel d n s) (Spec.Msgpack.items fuel n s)) ∧
    (∀ d n s, Agrees (toBVMembers textKey false) (members maxD fuel d n s) (Spec.Msgpack.members fuel n s))
  | 0 => by
    refine ⟨?_, ?_, ?_⟩
    · intro d s; simp [item, Spec.Msgpack.item, Agrees]
    · intro d n s; cases n <;> simp [items, Spec.Msgpack.items, Agrees, toBVList]
    · intro d n s; cases n <;> simp [members, Spec.Msgpack.members, Agrees, toBVMembers]
  | fuel + 1 => by
    obtain ⟨hI, hL, hM⟩ := agree_all maxD fuel
    exact ⟨item_step maxD fuel hL hM, items_step maxD fuel hI hL, members_step maxD fuel hI hM⟩

theorem decode_agrees (maxD : Nat) (bs : Bytes) : Agrees (toBV textKey false) (decode maxD bs) (Spec.Msgpack.decode bs) :=
  (agree_all maxD (2 * bs.length + 2)).1 0 bs

end JV.Model.MsgpackParser
