/-
  JV.Proofs.JsonPathOpts — the result options are functions of the plain selection: `sort` returns a sorted permutation,
  `nodups` the first occurrence of every path.
-/
import JV.Model.JsonPath
import JV.Proofs.Assoc
namespace JV
namespace Model
namespace JsonPath
open Assoc

/-! ### the path order is a strict total order -/

theorem stepLt_irrefl : ∀ a : Step, stepLt a a = false
  | .name k => by simp [stepLt, keyLt_irrefl]
  | .idx i => by simp [stepLt]

theorem stepLt_trans : ∀ {a b c : Step}, stepLt a b = true → stepLt b c = true → stepLt a c = true
  | .name _, .name _, .name _, h1, h2 => by simp only [stepLt] at *; exact keyLt_trans h1 h2
  | .name _, .name _, .idx _, _, _ => by simp [stepLt]
  | .name _, .idx _, .name _, _, h2 => by simp [stepLt] at h2
  | .name _, .idx _, .idx _, _, _ => by simp [stepLt]
  | .idx _, .name _, _, h1, _ => by simp [stepLt] at h1
  | .idx _, .idx _, .name _, _, h2 => by simp [stepLt] at h2
  | .idx a, .idx b, .idx c, h1, h2 => by simp only [stepLt, decide_eq_true_eq] at *; omega

theorem stepLt_trichotomy : ∀ a b : Step, stepLt a b = true ∨ a = b ∨ stepLt b a = true
  | .name a, .name b => by
    rcases keyLt_trichotomy a b with h | h | h
    · exact Or.inl (by simpa [stepLt] using h)
    · exact Or.inr (Or.inl (by rw [h]))
    · exact Or.inr (Or.inr (by simpa [stepLt] using h))
  | .name _, .idx _ => Or.inl (by simp [stepLt])
  | .idx _, .name _ => Or.inr (Or.inr (by simp [stepLt]))
  | .idx a, .idx b => by
    simp only [stepLt, decide_eq_true_eq, Step.idx.injEq]; omega

theorem stepLt_asymm {a b : Step} (h : stepLt a b = true) : stepLt b a = false := by
  cases hb : stepLt b a with
  | false => rfl
  | true => have := stepLt_trans h hb; rw [stepLt_irrefl] at this; exact absurd this (by simp)

theorem pathLt_irrefl : ∀ p : Path, pathLt p p = false
  | [] => rfl
  | a :: p => by simp [pathLt, stepLt_irrefl, pathLt_irrefl p]

theorem pathLt_trans : ∀ {a b c : Path}, pathLt a b = true → pathLt b c = true → pathLt a c = true
  | [], [], _, h, _ => by simp [pathLt] at h
  | [], _ :: _, [], _, h => by simp [pathLt] at h
  | [], _ :: _, _ :: _, _, _ => by simp [pathLt]
  | _ :: _, [], _, h, _ => by simp [pathLt] at h
  | _ :: _, _ :: _, [], _, h => by simp [pathLt] at h
  | x :: a, y :: b, z :: c, h1, h2 => by
    simp only [pathLt] at h1 h2 ⊢
    by_cases hxy : stepLt x y = true
    · by_cases hyz : stepLt y z = true
      · simp [stepLt_trans hxy hyz]
      · simp only [hyz] at h2
        by_cases hzy : stepLt z y = true
        · simp [hzy] at h2
        · -- y = z
          have : y = z := by
            rcases stepLt_trichotomy y z with h | h | h
            · exact absurd h hyz
            · exact h
            · exact absurd h hzy
          subst this; simp [hxy]
    · simp only [hxy] at h1
      by_cases hyx : stepLt y x = true
      · simp [hyx] at h1
      · have exy : x = y := by
          rcases stepLt_trichotomy x y with h | h | h
          · exact absurd h hxy
          · exact h
          · exact absurd h hyx
        subst exy
        simp only [stepLt_irrefl, Bool.false_eq_true, if_false] at h1
        by_cases hxz : stepLt x z = true
        · simp [hxz]
        · simp only [hxz] at h2 ⊢
          by_cases hzx : stepLt z x = true
          · simp [hzx] at h2
          · simp only [hzx, Bool.false_eq_true, if_false] at h2 ⊢
            exact pathLt_trans h1 h2

theorem pathLt_trichotomy : ∀ a b : Path, pathLt a b = true ∨ a = b ∨ pathLt b a = true
  | [], [] => Or.inr (Or.inl rfl)
  | [], _ :: _ => Or.inl rfl
  | _ :: _, [] => Or.inr (Or.inr rfl)
  | x :: a, y :: b => by
    rcases stepLt_trichotomy x y with h | h | h
    · exact Or.inl (by simp [pathLt, h])
    · subst h
      rcases pathLt_trichotomy a b with h | h | h
      · exact Or.inl (by simp [pathLt, stepLt_irrefl, h])
      · exact Or.inr (Or.inl (by rw [h]))
      · exact Or.inr (Or.inr (by simp [pathLt, stepLt_irrefl, h]))
    · exact Or.inr (Or.inr (by simp [pathLt, h]))

theorem pathLt_asymm {a b : Path} (h : pathLt a b = true) : pathLt b a = false := by
  cases hb : pathLt b a with
  | false => rfl
  | true => have := pathLt_trans h hb; rw [pathLt_irrefl] at this; exact absurd this (by simp)

theorem pathLe_total (a b : Path) : (pathLe a b || pathLe b a) = true := by
  simp only [pathLe, Bool.or_eq_true, Bool.not_eq_true']
  cases h : pathLt b a with
  | false => exact Or.inl rfl
  | true => exact Or.inr (pathLt_asymm h)

theorem pathLe_trans {a b c : Path} (h1 : pathLe a b = true) (h2 : pathLe b c = true) : pathLe a c = true := by
  simp only [pathLe, Bool.not_eq_true'] at *
  cases h : pathLt c a with
  | false => rfl
  | true =>
    -- c < a; b is comparable with both
    rcases pathLt_trichotomy b a with hba | hba | hba
    · rw [hba] at h1; exact absurd h1 (by simp)
    · subst hba; rw [h] at h2; exact absurd h2 (by simp)
    · have := pathLt_trans h hba; rw [this] at h2; exact absurd h2 (by simp)

theorem pathLe_antisymm {a b : Path} (h1 : pathLe a b = true) (h2 : pathLe b a = true) : a = b := by
  simp only [pathLe, Bool.not_eq_true'] at *
  rcases pathLt_trichotomy a b with h | h | h
  · rw [h] at h2; exact absurd h2 (by simp)
  · exact h
  · rw [h] at h1; exact absurd h1 (by simp)

/-! ### sort -/

theorem sortNodes_perm (l : List Node) : (sortNodes l).Perm l := List.mergeSort_perm _ _

theorem sortNodes_sorted (l : List Node) : (sortNodes l).Pairwise (fun a b => pathLe a.1 b.1 = true) :=
  List.pairwise_mergeSort (le := fun (a b : Node) => pathLe a.1 b.1) (fun _ _ _ h1 h2 => pathLe_trans h1 h2)
    (fun a b => pathLe_total a.1 b.1) l

/-! ### nodups -/

theorem nodups_sublist : ∀ (l : List Node) (seen : List Path), (nodups l seen).Sublist l
  | [], _ => List.Sublist.slnil
  | nd :: l, seen => by
    simp only [nodups]
    split
    · exact (nodups_sublist l seen).cons _
    · exact (nodups_sublist l _).cons₂ _

theorem nodups_not_seen : ∀ (l : List Node) (seen : List Path), ∀ nd ∈ nodups l seen, nd.1 ∉ seen
  | [], _, _, h => by simp [nodups] at h
  | x :: l, seen, nd, h => by
    simp only [nodups] at h
    split at h
    · exact nodups_not_seen l seen nd h
    · rename_i hx
      simp only [List.mem_cons] at h
      rcases h with rfl | h
      · exact hx
      · have := nodups_not_seen l (x.1 :: seen) nd h
        exact fun hm => this (List.mem_cons_of_mem _ hm)

/-- no path is returned twice -/
theorem nodups_paths_nodup : ∀ (l : List Node) (seen : List Path), ((nodups l seen).map (·.1)).Nodup
  | [], _ => by simp [nodups]
  | x :: l, seen => by
    simp only [nodups]
    split
    · exact nodups_paths_nodup l seen
    · rw [List.map_cons, List.nodup_cons]
      refine ⟨?_, nodups_paths_nodup l _⟩
      intro hm
      obtain ⟨nd, hnd, he⟩ := List.mem_map.mp hm
      exact nodups_not_seen l (x.1 :: seen) nd hnd (by simp [he])

/-- every selected path is still there -/
theorem nodups_keeps_paths : ∀ (l : List Node) (seen : List Path) (p : Path),
    p ∈ l.map (·.1) → p ∉ seen → p ∈ (nodups l seen).map (·.1)
  | [], _, _, h, _ => by simp at h
  | x :: l, seen, p, h, hs => by
    simp only [List.map_cons, List.mem_cons] at h
    simp only [nodups]
    split
    · rename_i hx
      rcases h with rfl | h
      · exact absurd hx hs
      · exact nodups_keeps_paths l seen p h hs
    · rw [List.map_cons, List.mem_cons]
      by_cases e : p = x.1
      · exact Or.inl e
      · rcases h with h | h
        · exact absurd h e
        · exact Or.inr (nodups_keeps_paths l _ p h (by simp [e, hs]))

/-- the node kept for a path is its first occurrence in the plain result -/
theorem nodups_first : ∀ (l : List Node) (seen : List Path) (nd : Node), nd ∈ nodups l seen →
    ∃ l1 l2, l = l1 ++ nd :: l2 ∧ nd.1 ∉ l1.map (·.1)
  | [], _, _, h => by simp [nodups] at h
  | x :: l, seen, nd, h => by
    simp only [nodups] at h
    split at h
    · rename_i hx
      obtain ⟨l1, l2, e, hn⟩ := nodups_first l seen nd h
      refine ⟨x :: l1, l2, by rw [e]; rfl, ?_⟩
      rw [List.map_cons, List.mem_cons, not_or]
      refine ⟨?_, hn⟩
      intro e'
      exact nodups_not_seen l seen nd h (e' ▸ hx)
    · simp only [List.mem_cons] at h
      rcases h with rfl | h
      · exact ⟨[], l, rfl, by simp⟩
      · obtain ⟨l1, l2, e, hn⟩ := nodups_first l _ nd h
        refine ⟨x :: l1, l2, by rw [e]; rfl, ?_⟩
        rw [List.map_cons, List.mem_cons, not_or]
        refine ⟨?_, hn⟩
        intro e'
        exact nodups_not_seen l _ nd h (by simp [e'])

/-! ### std::unique after sorting -/

theorem uniqAdj_sublist : ∀ (l : List Node), (uniqAdj l).Sublist l
  | [] => List.Sublist.slnil
  | [a] => by simp [uniqAdj]
  | a :: b :: rest => by
    simp only [uniqAdj]
    split
    · exact (uniqAdj_sublist (b :: rest)).cons _
    · exact (uniqAdj_sublist (b :: rest)).cons₂ _

theorem uniqAdj_head : ∀ (a : Node) (l : List Node), ∃ h t, uniqAdj (a :: l) = h :: t ∧ h.1 = a.1
  | a, [] => ⟨a, [], by simp [uniqAdj], rfl⟩
  | a, b :: rest => by
    simp only [uniqAdj]
    split
    · rename_i e
      obtain ⟨h, t, e1, e2⟩ := uniqAdj_head b rest
      exact ⟨h, t, e1, e2.trans e.symm⟩
    · exact ⟨a, _, rfl, rfl⟩

/-- on a sorted list, removing adjacent duplicates removes all duplicates -/
theorem uniqAdj_nodup : ∀ (l : List Node), l.Pairwise (fun a b => pathLe a.1 b.1 = true) → ((uniqAdj l).map (·.1)).Nodup
  | [], _ => by simp [uniqAdj]
  | [a], _ => by simp [uniqAdj]
  | a :: b :: rest, hs => by
    have hs' : (b :: rest).Pairwise (fun a b => pathLe a.1 b.1 = true) := (List.pairwise_cons.mp hs).2
    simp only [uniqAdj]
    split
    · exact uniqAdj_nodup (b :: rest) hs'
    · rename_i hne
      rw [List.map_cons, List.nodup_cons]
      refine ⟨?_, uniqAdj_nodup (b :: rest) hs'⟩
      intro hm
      obtain ⟨nd, hnd, he⟩ := List.mem_map.mp hm
      have hmem : nd ∈ b :: rest := (uniqAdj_sublist (b :: rest)).subset hnd
      -- a ≤ b ≤ nd and nd.1 = a.1, so a.1 = b.1
      have hab : pathLe a.1 b.1 = true := (List.pairwise_cons.mp hs).1 b (by simp)
      have hbn : pathLe b.1 nd.1 = true := by
        rcases List.mem_cons.mp hmem with rfl | h
        · simp [pathLe, pathLt_irrefl]
        · exact (List.pairwise_cons.mp hs').1 nd h
      rw [he] at hbn
      exact hne (pathLe_antisymm hab hbn)

theorem uniqAdj_keeps_paths : ∀ (l : List Node) (p : Path), p ∈ l.map (·.1) → p ∈ (uniqAdj l).map (·.1)
  | [], _, h => by simp at h
  | [a], _, h => by simpa [uniqAdj] using h
  | a :: b :: rest, p, h => by
    simp only [uniqAdj]
    rw [List.map_cons, List.mem_cons] at h
    split
    · rename_i e
      rcases h with rfl | h
      · exact uniqAdj_keeps_paths (b :: rest) _ (by simp [e])
      · exact uniqAdj_keeps_paths (b :: rest) p h
    · rw [List.map_cons, List.mem_cons]
      rcases h with h | h
      · exact Or.inl h
      · exact Or.inr (uniqAdj_keeps_paths (b :: rest) p h)

end JsonPath
end Model
end JV
