/-
  JV.Proofs.PatchUndoF — the unique-keys invariant along `apply_patch` on insertion-ordered objects,
  `norm` lands in the sorted representation invariant, and atomicity of the loop up to member order.
-/
import JV.Proofs.PatchUndoE
namespace JV
namespace Model
namespace Pointer
open Assoc JsonPath

/-! ### unique keys are preserved -/

theorem ukList_set {x : JVal} : ∀ {xs : List JVal} {i : Nat}, UKList xs → UK x → UKList (xs.set i x)
  | [], _, _, _ => by simp [UKList]
  | y :: ys, 0, h, hx => by simp only [List.set_cons_zero, UKList]; exact ⟨hx, h.2⟩
  | y :: ys, i + 1, h, hx => by simp only [List.set_cons_succ, UKList]; exact ⟨h.1, ukList_set h.2 hx⟩

theorem ukList_append : ∀ {xs ys : List JVal}, UKList xs → UKList ys → UKList (xs ++ ys)
  | [], _, _, h => h
  | _ :: _, _, h1, h2 => ⟨h1.1, ukList_append h1.2 h2⟩

theorem ukList_take : ∀ {xs : List JVal} (i : Nat), UKList xs → UKList (xs.take i)
  | [], _, _ => by simp [UKList]
  | x :: xs, 0, _ => by simp [UKList]
  | x :: xs, i + 1, h => by simp only [List.take_succ_cons, UKList]; exact ⟨h.1, ukList_take i h.2⟩

theorem ukList_drop : ∀ {xs : List JVal} (i : Nat), UKList xs → UKList (xs.drop i)
  | [], _, _ => by simp [UKList]
  | x :: xs, 0, h => by simpa using h
  | x :: xs, i + 1, h => by simp only [List.drop_succ_cons]; exact ukList_drop i h.2

theorem ukList_insertAt {v : JVal} {xs : List JVal} (i : Nat) (h : UKList xs) (hv : UK v) : UKList (insertAt i v xs) :=
  ukList_append (ukList_take i h) ⟨hv, ukList_drop i h⟩

theorem ukList_eraseIdx : ∀ {xs : List JVal} (i : Nat), UKList xs → UKList (xs.eraseIdx i)
  | [], _, _ => by simp [UKList]
  | x :: xs, 0, h => by simpa using h.2
  | x :: xs, i + 1, h => by simp only [List.eraseIdx_cons_succ, UKList]; exact ⟨h.1, ukList_eraseIdx i h.2⟩

theorem ukMembers_replaceVal {k : Bytes} {v : JVal} (hv : UK v) : ∀ {ms : List (Bytes × JVal)}, UKMembers ms →
    UKMembers (replaceVal k v ms)
  | [], _ => trivial
  | (k', v') :: ms, h => by
    by_cases e : k' = k
    · simp only [replaceVal, e, if_true, UKMembers]; exact ⟨hv, h.2⟩
    · simp only [replaceVal, e, if_false, UKMembers]; exact ⟨h.1, ukMembers_replaceVal hv h.2⟩

theorem ukMembers_erase {k : Bytes} : ∀ {ms : List (Bytes × JVal)}, UKMembers ms → UKMembers (erase k ms)
  | [], _ => trivial
  | (k', v) :: ms, h => by
    simp only [erase]
    by_cases e : k' = k
    · simp only [e, if_true]; exact h.2
    · simp only [e, if_false]; exact ⟨h.1, ukMembers_erase h.2⟩

theorem ukMembers_append_one {k : Bytes} {v : JVal} (hv : UK v) : ∀ {ms : List (Bytes × JVal)}, UKMembers ms →
    UKMembers (ms ++ [(k, v)])
  | [], _ => ⟨hv, trivial⟩
  | (_, _) :: _, h => ⟨h.1, ukMembers_append_one hv h.2⟩

def Final.ValUK : Final → Prop
  | .add v | .addIfAbsent v | .replace v => UK v
  | .remove => True

theorem finalStep_uk (f : Final) (hf : f.ValUK) (c : JVal) (last : Bytes) (hu : UK c) :
    UK (finalStep true false f c last).2 := by
  cases c with
  | arr xs =>
    have hul : UKList xs := by simpa [UK] using hu
    have happ : ∀ v : JVal, UK v → UKList (xs ++ [v]) := fun v hv => ukList_append hul ⟨hv, trivial⟩
    cases f <;> simp only [finalStep, Final.ValUK] at hf ⊢ <;> (repeat' split) <;>
      first
      | exact hu
      | (simp only [UK]; exact happ _ hf)
      | (simp only [UK]; exact ukList_insertAt _ hul hf)
      | (simp only [UK]; exact ukList_set hul hf)
      | (simp only [UK]; exact ukList_eraseIdx _ hul)
  | obj ms =>
    have huo : (keys ms).Nodup ∧ UKMembers ms := by simpa [UK] using hu
    have hte : ∀ v : JVal, UK v → (keys (tryEmplace true last v ms)).Nodup ∧ UKMembers (tryEmplace true last v ms) := by
      intro v hv
      unfold tryEmplace
      cases hk : find last ms with
      | some y => exact huo
      | none => exact ⟨nodup_append_one huo.1 hk, ukMembers_append_one hv huo.2⟩
    have hia : ∀ v : JVal, UK v → (keys (insertOrAssign true last v ms)).Nodup ∧ UKMembers (insertOrAssign true last v ms) := by
      intro v hv
      unfold insertOrAssign
      cases hk : find last ms with
      | some y => exact ⟨nodup_replaceVal huo.1, ukMembers_replaceVal hv huo.2⟩
      | none => exact ⟨nodup_append_one huo.1 hk, ukMembers_append_one hv huo.2⟩
    cases f <;> simp only [finalStep, Final.ValUK] at hf ⊢ <;> (repeat' split) <;>
      first
      | exact hu
      | (simp only [UK]; exact hte _ hf)
      | (simp only [UK]; exact hia _ hf)
      | (simp only [UK]; exact ⟨nodup_erase huo.1, ukMembers_erase huo.2⟩)
  | null => simpa [finalStep] using hu
  | bool _ => simpa [finalStep] using hu
  | int _ => simpa [finalStep] using hu
  | str _ => simpa [finalStep] using hu

theorem modifyAt_uk (f : Final) (hf : f.ValUK) :
    ∀ (rest : List Bytes) (cur : JVal) (tok : Bytes), UK cur → UK (modifyAt true false f cur tok rest).2
  | [], cur, tok, hu => by
    simp only [modifyAt]
    exact finalStep_uk f hf cur tok hu
  | t2 :: rest, cur, tok, hu => by
    cases cur with
    | arr xs =>
      simp only [modifyAt]
      by_cases hd : isDash tok = true
      · simpa [hd] using hu
      · have hd' : isDash tok = false := by simpa using hd
        simp only [hd', Bool.false_eq_true, if_false]
        cases hi : decToIndex tok with
        | none => simpa using hu
        | some i =>
          simp only []
          cases hx : xs[i]? with
          | none => simpa using hu
          | some x =>
            simp only []
            have hul : UKList xs := by simpa [UK] using hu
            have ih := modifyAt_uk f hf rest x t2 (uk_of_getElem hul hx)
            simp only [UK]
            exact ukList_set hul ih
    | obj ms =>
      simp only [modifyAt]
      cases hfi : find tok ms with
      | none => simpa using hu
      | some x =>
        simp only []
        have huo : (keys ms).Nodup ∧ UKMembers ms := by simpa [UK] using hu
        have ih := modifyAt_uk f hf rest x t2 (uk_of_find huo.2 hfi)
        simp only [UK]
        exact ⟨nodup_replaceVal huo.1, ukMembers_replaceVal ih huo.2⟩
    | null => simpa [modifyAt] using hu
    | bool _ => simpa [modifyAt] using hu
    | int _ => simpa [modifyAt] using hu
    | str _ => simpa [modifyAt] using hu

theorem apply_uk (f : Final) (hf : f.ValUK) (t : JVal) (p : List Bytes) (hu : UK t) :
    UK (apply true false f t p).2 := by
  cases p with
  | nil => cases f <;> simp_all [apply, Final.ValUK]
  | cons tok rest => exact modifyAt_uk f hf rest t tok hu

theorem get_uk : ∀ (p : List Bytes) (t v : JVal), UK t → get t p = .ok v → UK v
  | [], t, v, hu, h => by simp [get] at h; rw [← h]; exact hu
  | tok :: rest, t, v, hu, h => by
    cases t with
    | arr xs =>
      have hul : UKList xs := by simpa [UK] using hu
      simp only [get] at h
      by_cases hd : isDash tok = true
      · simp [hd] at h
      · have hd' : isDash tok = false := by simpa using hd
        simp only [hd', Bool.false_eq_true, if_false] at h
        cases hi : decToIndex tok with
        | none => rw [hi] at h; simp at h
        | some i =>
          rw [hi] at h
          simp only [] at h
          cases hx : xs[i]? with
          | none => rw [hx] at h; simp at h
          | some x =>
            rw [hx] at h
            exact get_uk rest x v (uk_of_getElem hul hx) h
    | obj ms =>
      have huo : (keys ms).Nodup ∧ UKMembers ms := by simpa [UK] using hu
      simp only [get] at h
      cases hfi : find tok ms with
      | none => rw [hfi] at h; simp at h
      | some x =>
        rw [hfi] at h
        exact get_uk rest x v (uk_of_find huo.2 hfi) h
    | null => simp [get] at h
    | bool _ => simp [get] at h
    | int _ => simp [get] at h
    | str _ => simp [get] at h

/-! ### `norm` lands in the sorted representation invariant -/

theorem wfMembers_sortMembers : ∀ {ms : List (Bytes × JVal)}, WFMembers ms → WFMembers (sortMembers ms)
  | [], _ => trivial
  | (_, _) :: _, h => wfMembers_insertSorted h.1 (wfMembers_sortMembers h.2)

mutual
  theorem norm_wf : ∀ t : JVal, UK t → (norm t).WF
    | .arr xs, hu => by
      simp only [norm, JVal.WF]
      exact normList_wf xs (by simpa [UK] using hu)
    | .obj ms, hu => by
      have huo : (keys ms).Nodup ∧ UKMembers ms := by simpa [UK] using hu
      simp only [norm, JVal.WF]
      exact ⟨sorted_N huo.1, wfMembers_sortMembers (normMembers_wf ms huo.2)⟩
    | .null, _ => by simp [norm, JVal.WF]
    | .bool _, _ => by simp [norm, JVal.WF]
    | .int _, _ => by simp [norm, JVal.WF]
    | .str _, _ => by simp [norm, JVal.WF]
  theorem normList_wf : ∀ xs : List JVal, UKList xs → WFList (normList xs)
    | [], _ => trivial
    | x :: xs, h => ⟨norm_wf x h.1, normList_wf xs h.2⟩
  theorem normMembers_wf : ∀ ms : List (Bytes × JVal), UKMembers ms → WFMembers (normMembers ms)
    | [], _ => trivial
    | (_, x) :: ms, h => ⟨norm_wf x h.1, normMembers_wf ms h.2⟩
end

end Pointer

namespace Patch
open Assoc Pointer JsonPath

/-- equal as JSON values up to the member order of objects; carries unique keys from right to left -/
def REq (a b : JVal) : Prop := (UK b → UK a) ∧ norm a = norm b

theorem REq.refl (a : JVal) : REq a a := ⟨id, rfl⟩
theorem REq.trans {a b c : JVal} (h1 : REq a b) (h2 : REq b c) : REq a c :=
  ⟨fun h => h1.1 (h2.1 h), h1.2.trans h2.2⟩

/-- insertion-ordered objects: "remove ↦ add of the removed value" restores the document up to member order -/
theorem remInv_ordered (t : JVal) (hu : UK t) : RemInv true REq t := by
  intro loc val hg hok
  have hu1 : UK (Pointer.apply true false .remove t loc).2 := apply_uk .remove trivial t loc hu
  have hval : UK val := get_uk loc t val hu hg
  have s1 := apply_sim .remove t loc hu
  have hg' : get (norm t) loc = .ok (norm val) := by rw [get_sim loc t hu, hg]; rfl
  have hok' : (Pointer.apply false false .remove (norm t) loc).1 = none := by
    rw [← hok]; exact s1.1.symm
  have hinv := apply_remove_undo_sorted (norm t) loc (norm val) (norm_wf t hu) hg' hok'
  have s2 := apply_sim (.add val) (Pointer.apply true false .remove t loc).2 loc hu1
  simp only [normF] at s1 s2
  rw [s1.2, hinv] at s2
  refine ⟨(Pointer.apply true false (.add val) (Pointer.apply true false .remove t loc).2 loc).2, ⟨?_, s2.2⟩, ?_⟩
  · intro _
    exact apply_uk (.add val) hval _ loc hu1
  · exact Prod.ext s2.1 rfl

/-- the values held by undo entries have unique keys -/
def LogUK (log : List Undo) : Prop :=
  ∀ u ∈ log, match u with
    | .add _ v => UK v
    | .replace _ v => UK v
    | .remove _ => True

theorem logUK_nil : LogUK [] := by intro u h; simp at h
theorem logUK_append {a b : List Undo} (ha : LogUK a) (hb : LogUK b) : LogUK (a ++ b) := by
  intro u h
  rcases List.mem_append.1 h with h | h
  · exact ha u h
  · exact hb u h
theorem logUK_one_remove (p : List Bytes) : LogUK [.remove p] := by
  intro u h; simp at h; subst h; trivial
theorem logUK_one_add (p : List Bytes) {v : JVal} (hv : UK v) : LogUK [.add p v] := by
  intro u h; simp at h; subst h; exact hv
theorem logUK_one_replace (p : List Bytes) {v : JVal} (hv : UK v) : LogUK [.replace p v] := by
  intro u h; simp at h; subst h; exact hv

/-- unwinding respects equality up to member order -/
theorem unwind_congr : ∀ (s : List Undo) (a b : JVal), UK a → UK b → norm a = norm b → LogUK s →
    UK (unwind true a s) ∧ UK (unwind true b s) ∧ norm (unwind true a s) = norm (unwind true b s)
  | [], a, b, ha, hb, hab, _ => ⟨ha, hb, hab⟩
  | u :: us, a, b, ha, hb, hab, hs => by
    have hus : LogUK us := fun u' h => hs u' (List.mem_cons_of_mem _ h)
    have key : ∀ (f : Final) (p : List Bytes), f.ValUK →
        (match (Pointer.apply true false f a p).1 with
          | some _ => (Pointer.apply true false f a p).2
          | none => unwind true (Pointer.apply true false f a p).2 us) = unwind true a (u :: us) →
        (match (Pointer.apply true false f b p).1 with
          | some _ => (Pointer.apply true false f b p).2
          | none => unwind true (Pointer.apply true false f b p).2 us) = unwind true b (u :: us) →
        UK (unwind true a (u :: us)) ∧ UK (unwind true b (u :: us)) ∧
          norm (unwind true a (u :: us)) = norm (unwind true b (u :: us)) := by
      intro f p hf e1 e2
      have sa := apply_sim f a p ha
      have sb := apply_sim f b p hb
      have ua := apply_uk f hf a p ha
      have ub := apply_uk f hf b p hb
      have hflag : (Pointer.apply true false f a p).1 = (Pointer.apply true false f b p).1 := by
        rw [sa.1, sb.1, hab]
      have hdoc : norm (Pointer.apply true false f a p).2 = norm (Pointer.apply true false f b p).2 := by
        rw [sa.2, sb.2, hab]
      rw [← e1, ← e2]
      cases hfa : (Pointer.apply true false f a p).1 with
      | some e =>
        rw [hfa] at hflag
        simp only [← hflag]
        exact ⟨ua, ub, hdoc⟩
      | none =>
        rw [hfa] at hflag
        simp only [← hflag]
        exact unwind_congr us _ _ ua ub hdoc hus
    cases u with
    | add p v => exact key (.add v) p (hs (.add p v) (List.mem_cons_self)) rfl rfl
    | remove p => exact key .remove p trivial rfl rfl
    | replace p v => exact key (.replace v) p (hs (.replace p v) (List.mem_cons_self)) rfl rfl

/-! ### unique keys along the loop -/

theorem addLike_uk (t : JVal) (np : List Bytes) (v : JVal) (hu : UK t) (hv : UK v) :
    UK (addLike true t np v).2.1 ∧ LogUK (addLike true t np v).2.2 := by
  unfold addLike
  by_cases hn : np = []
  · subst hn
    simp only [if_true, Pointer.get, Pointer.apply]
    exact ⟨hv, logUK_one_replace [] hu⟩
  · simp only [hn, if_false]
    have h1 : UK (Pointer.apply true false (Final.addIfAbsent v) t np).2 :=
      apply_uk (.addIfAbsent v) (show Final.ValUK (.addIfAbsent v) from hv) t np hu
    have h2 : UK (Pointer.apply true false (Final.replace v) (Pointer.apply true false (Final.addIfAbsent v) t np).2 np).2 :=
      apply_uk (.replace v) (show Final.ValUK (.replace v) from hv) _ np h1
    split
    · exact ⟨h1, logUK_one_remove np⟩
    · split
      · exact ⟨h1, logUK_nil⟩
      · next orig hg =>
        split
        · exact ⟨h2, logUK_nil⟩
        · exact ⟨h2, logUK_one_replace np (get_uk np _ orig h1 hg)⟩

/-- the values an operation object carries have unique keys -/
def OpValUK (operation : JVal) : Prop :=
  ∀ om v, operation = .obj om → find sValue om = some v → UK v

theorem opValUK_of_uk {operation : JVal} (h : UK operation) : OpValUK operation := by
  intro om v he hf
  subst he
  have : (keys om).Nodup ∧ UKMembers om := by simpa [UK] using h
  exact uk_of_find this.2 hf

theorem addLike_result_uk (t : JVal) (np : List Bytes) (v : JVal) (e : PatchErr) (hu : UK t) (hv : UK v) :
    let r := addLike true t np v
    UK (if r.1 then ((none : Option PatchErr), r.2.1, r.2.2) else (some e, r.2.1, [])).2.1 ∧
    LogUK (if r.1 then ((none : Option PatchErr), r.2.1, r.2.2) else (some e, r.2.1, [])).2.2 := by
  intro r
  have h := addLike_uk t np v hu hv
  by_cases hr : r.1 = true
  · simp only [hr, if_true]; exact h
  · have hr' : r.1 = false := by simpa using hr
    simp only [hr', Bool.false_eq_true, if_false]; exact ⟨h.1, logUK_nil⟩

theorem applyOp_uk (t operation : JVal) (hu : UK t) (hv : OpValUK operation) :
    UK (applyOp true t operation).2.1 ∧ LogUK (applyOp true t operation).2.2 := by
  have base : UK t ∧ LogUK [] := ⟨hu, logUK_nil⟩
  unfold applyOp
  split
  · next om =>
    have hval : ∀ v, find sValue om = some v → UK v := fun v hf => hv om v rfl hf
    split
    · exact base
    · split
      · exact base
      · split
        · exact base
        · next location _ =>
          split
          · have : (opTest t location om).2 = (t, []) := by
              unfold opTest
              repeat' split
              all_goals rfl
            rw [this]; exact base
          · split
            · unfold opAdd
              split
              · exact base
              · next v hf => exact addLike_result_uk t _ v .addFailed hu (hval v hf)
            · split
              · unfold opRemove
                split
                · exact base
                · next val hg =>
                  have := apply_uk .remove trivial t location hu
                  dsimp only
                  split
                  · exact ⟨this, logUK_nil⟩
                  · exact ⟨this, logUK_one_add location (get_uk location t val hu hg)⟩
              · split
                · unfold opReplace
                  split
                  · exact base
                  · next val hg =>
                    split
                    · exact base
                    · next v hf =>
                      have := apply_uk (.replace v) (show Final.ValUK (.replace v) from hval v hf) t location hu
                      dsimp only
                      split
                      · exact ⟨this, logUK_nil⟩
                      · exact ⟨this, logUK_one_replace location (get_uk location t val hu hg)⟩
                · split
                  · unfold opMove
                    split
                    · exact base
                    · split
                      · exact base
                      · next fromPtr _ =>
                        split
                        · exact base
                        · next val hg =>
                          have hval' := get_uk fromPtr t val hu hg
                          have h1 := apply_uk .remove trivial t fromPtr hu
                          have h2 := addLike_uk _ (definitePath (Pointer.apply true false Final.remove t fromPtr).2 location)
                            val h1 hval'
                          dsimp only
                          split
                          · exact ⟨h1, logUK_nil⟩
                          · split
                            · exact ⟨h2.1, logUK_append h2.2 (logUK_one_add fromPtr hval')⟩
                            · exact ⟨h2.1, logUK_one_add fromPtr hval'⟩
                  · split
                    · unfold opCopy
                      split
                      · exact base
                      · split
                        · exact base
                        · next from_ _ val hg =>
                          have hvw : UK val := by
                            unfold getStr at hg
                            split at hg
                            · simp at hg
                            · next ts _ => exact get_uk ts t val hu hg
                          exact addLike_result_uk t _ val .copyFailed hu hvw
                    · exact base
  · exact base

/-- insertion-ordered objects: the loop restores the document up to member order -/
theorem applyLoop_atomic_ordered (d : JVal) (ops : List JVal) (t : JVal) (stack : List Undo)
    (hops : ∀ op ∈ ops, OpValUK op) (hu : UK t) (hs : LogUK stack) (hr : REq (unwind true t stack) d)
    (h : (applyLoop true t ops stack).1 ≠ none) : REq (applyLoop true t ops stack).2 d := by
  refine applyLoop_atomic true REq UK LogUK (fun _ _ _ h1 h2 => h1.trans h2) ?_ d ops t stack ?_ hu hs hr h
  · intro a b s hab ha hb hs
    have := unwind_congr s a b ha hb hab.2 hs
    exact ⟨fun _ => this.1, this.2.2⟩
  · intro op hm t stack hu hs
    obtain ⟨t'', hrel, hund⟩ := applyOp_undoes REq REq.refl true t op (Or.inr (remInv_ordered t hu))
    have huk := applyOp_uk t op hu (hops op hm)
    exact ⟨t'', hrel, hrel.1 hu, hund, huk.1, logUK_append huk.2 hs⟩

end Patch
end Model
end JV
