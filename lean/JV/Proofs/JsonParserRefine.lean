/-
  JV.Proofs.JsonParserRefine — the parser model accepts every text the RFC 8259 reference accepts (no comments, no trailing
  commas, the same nesting limit) and reports the events of the value the reference assigns: forward simulation by induction
  on the reference parser's recursion (`parseValue` / `parseElems` / `parseMembers`).
-/
import JV.Proofs.JsonParserRefineNum
import JV.Proofs.JsonParserRefineStr
namespace JV
namespace Model
namespace JsonParser
open Spec.Rfc8259 (JT Flags parseValue parseElems parseMembers parseText parseString parseNumber skipWs startsWith isWs)

/-! ### the events of a value -/

/-- forget whether a string value was written without escapes (the reference's `JT.str` does not record it) -/
def Ev.eraseNoesc : Ev → Ev
  | .str s _ => .str s true
  | e => e

mutual
  /-- the visitor calls a value of the reference stands for, in document order; numbers as `numEv` of their literal ('.', 'e' or
      'E' in the literal: `frac`, else `int`), strings with the `noesc` flag erased -/
  def eventsOf : JT → List Ev
    | .null => [.null]
    | .bool b => [.bool b]
    | .num lit => [numEv lit]
    | .str s => [.str s true]
    | .arr xs => .beginArray :: (eventsOfElems xs ++ [.endArray])
    | .obj ms => .beginObject :: (eventsOfMembers ms ++ [.endObject])
  def eventsOfElems : List JT → List Ev
    | [] => []
    | x :: xs => eventsOf x ++ eventsOfElems xs
  def eventsOfMembers : List (Bytes × JT) → List Ev
    | [] => []
    | (k, x) :: ms => .key k :: (eventsOf x ++ eventsOfMembers ms)
end

def er (l : List Ev) : List Ev := l.map Ev.eraseNoesc

theorem er_cons (e : Ev) (l : List Ev) : er (e :: l) = e.eraseNoesc :: er l := rfl

/-! ### "from `s0` on input `a` the machine ends like from `s1` on input `b`, having reported `evs` in between" -/

def Reach (cfg : Cfg) (s0 : St) (a : Bytes) (s1 : St) (b : Bytes) (evs : List Ev) : Prop :=
  finish (feed cfg s0 a) = finish (feed cfg s1 b) ∧ s1.err = none ∧ er s1.evs = evs.reverse ++ er s0.evs

/-- control state, stack and level -/
def Shape (s : St) (p : PS) (stk : List PS) (n : Nat) : Prop := s.st = p ∧ s.stack = stk ∧ s.level = n

theorem Reach.trans {cfg : Cfg} {s0 s1 s2 : St} {a b c : Bytes} {e1 e2 : List Ev}
    (h1 : Reach cfg s0 a s1 b e1) (h2 : Reach cfg s1 b s2 c e2) : Reach cfg s0 a s2 c (e1 ++ e2) :=
  ⟨h1.1.trans h2.1, h2.2.1, by rw [h2.2.2, h1.2.2]; simp⟩

theorem Reach.of_feed {cfg : Cfg} {s0 s1 : St} {a b : Bytes} {evs : List Ev} (h : feed cfg s0 a = feed cfg s1 b)
    (he : s1.err = none) (hev : er s1.evs = evs.reverse ++ er s0.evs) : Reach cfg s0 a s1 b evs :=
  ⟨by rw [h], he, hev⟩

theorem Reach.char {cfg : Cfg} {s0 s1 : St} {c : Nat} {b : Bytes} {evs : List Ev} (h : feedChar cfg s0 c = s1)
    (he : s1.err = none) (hev : er s1.evs = evs.reverse ++ er s0.evs) : Reach cfg s0 (c :: b) s1 b evs :=
  Reach.of_feed (by rw [feed_cons, h]) he hev

theorem Reach.ws (cfg : Cfg) (s0 : St) (a : Bytes) (hs : wsState s0.st = true) (he : s0.err = none) :
    Reach cfg s0 a s0 (dropWs a) [] :=
  ⟨feed_dropWs cfg s0 hs he a, he, by simp⟩

theorem Reach.cast {cfg : Cfg} {s0 s1 : St} {a b : Bytes} {e e' : List Ev} (h : Reach cfg s0 a s1 b e) (he : e = e') :
    Reach cfg s0 a s1 b e' := he ▸ h

/-! ### the structural characters -/

theorem feedChar_beginArray (cfg : Cfg) (s : St) (hv : vState s.st = true) (he : s.err = none) (hd : ¬ s.level + 1 > cfg.maxDepth) :
    feedChar cfg s 91 =
      { s with level := s.level + 1, stack := .array :: s.stack, st := .expectValueOrEnd, evs := .beginArray :: s.evs } := by
  rw [feedChar_value cfg s (beginArray cfg s) 91 hv he (by simp [valueStart])]
  simp [beginArray, hd, emit]

theorem feedChar_beginObject (cfg : Cfg) (s : St) (hv : vState s.st = true) (he : s.err = none) (hd : ¬ s.level + 1 > cfg.maxDepth) :
    feedChar cfg s 123 =
      { s with level := s.level + 1, stack := .object :: s.stack, st := .expectMemberNameOrEnd, evs := .beginObject :: s.evs } := by
  rw [feedChar_value cfg s (beginObject cfg s) 123 hv he (by simp [valueStart])]
  simp [beginObject, hd, emit]

theorem endArray_ctx (s : St) (stk : List PS) (n : Nat) (hstk : s.stack = .array :: stk) (hl : s.level = n + 1) :
    endArray s = { s with st := afterSt n, stack := stk, level := n, evs := .endArray :: s.evs } := by
  by_cases h0 : n = 0 <;> simp [endArray, hl, parent, hstk, emit, afterSt, h0]

theorem endObject_ctx (s : St) (stk : List PS) (n : Nat) (hstk : s.stack = .object :: stk) (hl : s.level = n + 1) :
    endObject s = { s with st := afterSt n, stack := stk, level := n, evs := .endObject :: s.evs } := by
  by_cases h0 : n = 0 <;> simp [endObject, hl, parent, hstk, emit, afterSt, h0]

theorem feedChar_endArray (cfg : Cfg) (s : St) (stk : List PS) (n : Nat)
    (hs : s.st = .expectCommaOrEnd ∨ s.st = .expectValueOrEnd) (he : s.err = none)
    (hstk : s.stack = .array :: stk) (hl : s.level = n + 1) :
    feedChar cfg s 93 = { s with st := afterSt n, stack := stk, level := n, evs := .endArray :: s.evs } := by
  rw [← endArray_ctx s stk n hstk hl]
  rcases hs with hs | hs <;> simp [feedChar, he, stepChar, hs, isCtl, spaceOrSlash, valueStart]

theorem feedChar_endObject (cfg : Cfg) (s : St) (stk : List PS) (n : Nat)
    (hs : s.st = .expectCommaOrEnd ∨ s.st = .expectMemberNameOrEnd) (he : s.err = none)
    (hstk : s.stack = .object :: stk) (hl : s.level = n + 1) :
    feedChar cfg s 125 = { s with st := afterSt n, stack := stk, level := n, evs := .endObject :: s.evs } := by
  rw [← endObject_ctx s stk n hstk hl]
  rcases hs with hs | hs <;> simp [feedChar, he, stepChar, hs, isCtl, spaceOrSlash]

theorem feedChar_comma_array (cfg : Cfg) (s : St) (stk : List PS) (hs : s.st = .expectCommaOrEnd) (he : s.err = none)
    (hstk : s.stack = .array :: stk) : feedChar cfg s 44 = { s with st := .expectValue } := by
  simp [feedChar, he, stepChar, hs, isCtl, spaceOrSlash, beginMemberOrElement, parent, hstk]

theorem feedChar_comma_object (cfg : Cfg) (s : St) (stk : List PS) (hs : s.st = .expectCommaOrEnd) (he : s.err = none)
    (hstk : s.stack = .object :: stk) : feedChar cfg s 44 = { s with st := .expectMemberName } := by
  simp [feedChar, he, stepChar, hs, isCtl, spaceOrSlash, beginMemberOrElement, parent, hstk]

theorem feedChar_colon (cfg : Cfg) (s : St) (hs : s.st = .expectColon) (he : s.err = none) :
    feedChar cfg s 58 = { s with st := .expectValue } := by
  simp [feedChar, he, stepChar, hs, isCtl, spaceOrSlash]

theorem startsWith_eq (p s r : Bytes) (h : startsWith p s = some r) : s = p ++ r := by
  unfold startsWith at h
  by_cases hp : p.isPrefixOf s = true
  · simp only [hp, if_true, Option.some.injEq] at h
    have := List.isPrefixOf_iff_prefix.1 hp
    obtain ⟨t, rfl⟩ := this
    simp at h; rw [h]
  · simp [hp] at h

theorem afterSt_succ (n : Nat) : afterSt (n + 1) = .expectCommaOrEnd := by simp [afterSt]

/-! ### the simulation -/

/-- the reference's flags for a parser configuration without comments and trailing commas -/
abbrev strictFlags (cfg : Cfg) : Flags := { comments := false, trailingComma := false, maxDepth := cfg.maxDepth }

/-- the machine skips, in every space-skipping state and with nothing reported, what the reference's `ws` skips (with comments
    when `cm`), provided something follows -/
def SkipOK (cfg : Cfg) (cm : Bool) : Prop :=
  ∀ (s0 : St) (a w : Bytes), wsState s0.st = true → s0.err = none → skipWs cm (a.length + 1) a = some w → w ≠ [] →
    Reach cfg s0 a s0 w []

theorem skipOK_false (cfg : Cfg) : SkipOK cfg false := by
  intro s0 a w hs he h _
  rw [skipWs_eq _ _ (Nat.lt_succ_self _)] at h
  simp only [Option.some.injEq] at h
  have := Reach.ws cfg s0 a hs he
  rwa [h] at this

/-- the reference's flags allow no more than the parser's options: the same nesting limit, trailing commas only if the parser
    has them, and `ws` (with or without comments) is skipped by the machine -/
structure Rel (cfg : Cfg) (fl : Flags) : Prop where
  depth : fl.maxDepth = cfg.maxDepth
  tc : fl.trailingComma = true → cfg.trailingComma = true
  skip : SkipOK cfg fl.comments

theorem rel_strict (cfg : Cfg) : Rel cfg (strictFlags cfg) := ⟨rfl, (by intro h; cases h), skipOK_false cfg⟩

/-- the reference's flags with comments off and the parser's own trailing-comma option -/
abbrev tcFlags (cfg : Cfg) : Flags := { comments := false, trailingComma := cfg.trailingComma, maxDepth := cfg.maxDepth }

theorem rel_tc (cfg : Cfg) : Rel cfg (tcFlags cfg) := ⟨rfl, fun h => h, skipOK_false cfg⟩

theorem noDigitHead_of_skipWs (cm : Bool) (n : Nat) (s t : Bytes) (h : skipWs cm n s = some t) (ht : NoDigitHead t) :
    NoDigitHead s := by
  intro d r e
  subst e
  by_cases hw : isWs d = true
  · rcases (isWs_iff d).1 hw with h | h | h | h <;> subst h <;> decide
  · by_cases h47 : d = 47
    · subst h47; decide
    · have : skipWs cm n (d :: r) = some (d :: r) := by
        cases n with
        | zero => simp [skipWs]
        | succ n => simp [skipWs, hw, h47]
      rw [this] at h
      simp only [Option.some.injEq] at h
      exact ht d r h.symm

theorem parseValue_nil (fl : Flags) (f d : Nat) : parseValue fl f d [] = none := by
  cases f <;> simp [parseValue]

theorem parseElems_nil (fl : Flags) (f d : Nat) : parseElems fl f d [] = none := by
  cases f <;> simp [parseElems, parseValue_nil]

theorem parseMembers_nil (fl : Flags) (f d : Nat) : parseMembers fl f d [] = none := by
  cases f <;> simp [parseMembers, parseString]

/-- what the induction proves at each fuel: values, array bodies, object bodies -/
def SimAt (cfg : Cfg) (fl : Flags) (fuel : Nat) : Prop :=
  (∀ (n : Nat) (s : Bytes) (v : JT) (r : Bytes), parseValue fl fuel n s = some (v, r) → NoDigitHead r →
    ∀ (stk : List PS) (s0 : St), Ctx stk n → s0.stack = stk → s0.level = n → s0.err = none → vState s0.st = true →
      ∃ s1, Reach cfg s0 s s1 r (eventsOf v) ∧ Shape s1 (afterSt n) stk n) ∧
  (∀ (n : Nat) (s : Bytes) (xs : List JT) (r : Bytes), parseElems fl fuel (n + 1) s = some (xs, r) →
    ∀ (stk : List PS) (s0 : St), Ctx stk n → s0.stack = .array :: stk → s0.level = n + 1 → s0.err = none → vState s0.st = true →
      ∃ s1, Reach cfg s0 s s1 r (eventsOfElems xs ++ [.endArray]) ∧ Shape s1 (afterSt n) stk n) ∧
  (∀ (n : Nat) (s : Bytes) (ms : List (Bytes × JT)) (r : Bytes), parseMembers fl fuel (n + 1) s = some (ms, r) →
    ∀ (stk : List PS) (s0 : St), Ctx stk n → s0.stack = .object :: stk → s0.level = n + 1 → s0.err = none →
      (s0.st = .expectMemberNameOrEnd ∨ s0.st = .expectMemberName) →
      ∃ s1, Reach cfg s0 s s1 r (eventsOfMembers ms ++ [.endObject]) ∧ Shape s1 (afterSt n) stk n)

/-! ### single steps as `Reach` -/

theorem reach_beginArray (cfg : Cfg) (s0 : St) (b : Bytes) (hv : vState s0.st = true) (he : s0.err = none)
    (hd : ¬ s0.level + 1 > cfg.maxDepth) :
    ∃ s1, Reach cfg s0 (91 :: b) s1 b [.beginArray] ∧ Shape s1 .expectValueOrEnd (.array :: s0.stack) (s0.level + 1) :=
  ⟨_, Reach.char (feedChar_beginArray cfg s0 hv he hd) he (by simp [er_cons, Ev.eraseNoesc]), rfl, rfl, rfl⟩

theorem reach_beginObject (cfg : Cfg) (s0 : St) (b : Bytes) (hv : vState s0.st = true) (he : s0.err = none)
    (hd : ¬ s0.level + 1 > cfg.maxDepth) :
    ∃ s1, Reach cfg s0 (123 :: b) s1 b [.beginObject] ∧ Shape s1 .expectMemberNameOrEnd (.object :: s0.stack) (s0.level + 1) :=
  ⟨_, Reach.char (feedChar_beginObject cfg s0 hv he hd) he (by simp [er_cons, Ev.eraseNoesc]), rfl, rfl, rfl⟩

theorem reach_endArray (cfg : Cfg) (s : St) (b : Bytes) (stk : List PS) (n : Nat)
    (hs : s.st = .expectCommaOrEnd ∨ s.st = .expectValueOrEnd) (he : s.err = none)
    (hstk : s.stack = .array :: stk) (hl : s.level = n + 1) :
    ∃ s1, Reach cfg s (93 :: b) s1 b [.endArray] ∧ Shape s1 (afterSt n) stk n :=
  ⟨_, Reach.char (feedChar_endArray cfg s stk n hs he hstk hl) he (by simp [er_cons, Ev.eraseNoesc]), rfl, rfl, rfl⟩

theorem reach_endObject (cfg : Cfg) (s : St) (b : Bytes) (stk : List PS) (n : Nat)
    (hs : s.st = .expectCommaOrEnd ∨ s.st = .expectMemberNameOrEnd) (he : s.err = none)
    (hstk : s.stack = .object :: stk) (hl : s.level = n + 1) :
    ∃ s1, Reach cfg s (125 :: b) s1 b [.endObject] ∧ Shape s1 (afterSt n) stk n :=
  ⟨_, Reach.char (feedChar_endObject cfg s stk n hs he hstk hl) he (by simp [er_cons, Ev.eraseNoesc]), rfl, rfl, rfl⟩

/-- `]` directly after a comma, with `allow_trailing_comma` -/
theorem feedChar_endArray_trailing (cfg : Cfg) (htc : cfg.trailingComma = true) (s : St) (stk : List PS) (n : Nat)
    (hs : s.st = .expectValue) (he : s.err = none) (hstk : s.stack = .array :: stk) (hl : s.level = n + 1) :
    feedChar cfg s 93 = { s with st := afterSt n, stack := stk, level := n, evs := .endArray :: s.evs } := by
  rw [← endArray_ctx s stk n hstk hl]
  simp [feedChar, he, stepChar, hs, isCtl, spaceOrSlash, valueStart, parent, hstk, htc]

/-- `}` directly after a comma, with `allow_trailing_comma` -/
theorem feedChar_endObject_trailing (cfg : Cfg) (htc : cfg.trailingComma = true) (s : St) (stk : List PS) (n : Nat)
    (hs : s.st = .expectMemberName) (he : s.err = none) (hstk : s.stack = .object :: stk) (hl : s.level = n + 1) :
    feedChar cfg s 125 = { s with st := afterSt n, stack := stk, level := n, evs := .endObject :: s.evs } := by
  rw [← endObject_ctx s stk n hstk hl]
  simp [feedChar, he, stepChar, hs, isCtl, spaceOrSlash, htc]

theorem reach_endArray_trailing (cfg : Cfg) (htc : cfg.trailingComma = true) (s : St) (b : Bytes) (stk : List PS) (n : Nat)
    (hs : s.st = .expectValue) (he : s.err = none) (hstk : s.stack = .array :: stk) (hl : s.level = n + 1) :
    ∃ s1, Reach cfg s (93 :: b) s1 b [.endArray] ∧ Shape s1 (afterSt n) stk n :=
  ⟨_, Reach.char (feedChar_endArray_trailing cfg htc s stk n hs he hstk hl) he (by simp [er_cons, Ev.eraseNoesc]), rfl, rfl, rfl⟩

theorem reach_endObject_trailing (cfg : Cfg) (htc : cfg.trailingComma = true) (s : St) (b : Bytes) (stk : List PS) (n : Nat)
    (hs : s.st = .expectMemberName) (he : s.err = none) (hstk : s.stack = .object :: stk) (hl : s.level = n + 1) :
    ∃ s1, Reach cfg s (125 :: b) s1 b [.endObject] ∧ Shape s1 (afterSt n) stk n :=
  ⟨_, Reach.char (feedChar_endObject_trailing cfg htc s stk n hs he hstk hl) he (by simp [er_cons, Ev.eraseNoesc]), rfl, rfl, rfl⟩

theorem reach_comma_array (cfg : Cfg) (s : St) (b : Bytes) (stk : List PS) (hs : s.st = .expectCommaOrEnd) (he : s.err = none)
    (hstk : s.stack = .array :: stk) :
    ∃ s1, Reach cfg s (44 :: b) s1 b [] ∧ Shape s1 .expectValue s.stack s.level :=
  ⟨_, Reach.char (feedChar_comma_array cfg s stk hs he hstk) he (by simp), rfl, rfl, rfl⟩

theorem reach_comma_object (cfg : Cfg) (s : St) (b : Bytes) (stk : List PS) (hs : s.st = .expectCommaOrEnd) (he : s.err = none)
    (hstk : s.stack = .object :: stk) :
    ∃ s1, Reach cfg s (44 :: b) s1 b [] ∧ Shape s1 .expectMemberName s.stack s.level :=
  ⟨_, Reach.char (feedChar_comma_object cfg s stk hs he hstk) he (by simp), rfl, rfl, rfl⟩

theorem reach_colon (cfg : Cfg) (s : St) (b : Bytes) (hs : s.st = .expectColon) (he : s.err = none) :
    ∃ s1, Reach cfg s (58 :: b) s1 b [] ∧ Shape s1 .expectValue s.stack s.level :=
  ⟨_, Reach.char (feedChar_colon cfg s hs he) he (by simp), rfl, rfl, rfl⟩

theorem reach_true (cfg : Cfg) {stk n} (hctx : Ctx stk n) (s0 : St) (r : Bytes) (hv : vState s0.st = true) (he : s0.err = none)
    (hstk : s0.stack = stk) (hl : s0.level = n) :
    ∃ s1, Reach cfg s0 (116 :: 114 :: 117 :: 101 :: r) s1 r [.bool true] ∧ Shape s1 (afterSt n) stk n := by
  refine ⟨_, Reach.of_feed (feed_true cfg s0 r hv he) ?_ ?_, ?_⟩ <;>
    rw [afterLiteral_ctx hctx _ (by simpa [emit] using hl)]
  · simpa [emit] using he
  · simp [emit, er_cons, Ev.eraseNoesc]
  · exact ⟨rfl, hstk, hl⟩

theorem reach_false (cfg : Cfg) {stk n} (hctx : Ctx stk n) (s0 : St) (r : Bytes) (hv : vState s0.st = true) (he : s0.err = none)
    (hstk : s0.stack = stk) (hl : s0.level = n) :
    ∃ s1, Reach cfg s0 (102 :: 97 :: 108 :: 115 :: 101 :: r) s1 r [.bool false] ∧ Shape s1 (afterSt n) stk n := by
  refine ⟨_, Reach.of_feed (feed_false cfg s0 r hv he) ?_ ?_, ?_⟩ <;>
    rw [afterLiteral_ctx hctx _ (by simpa [emit] using hl)]
  · simpa [emit] using he
  · simp [emit, er_cons, Ev.eraseNoesc]
  · exact ⟨rfl, hstk, hl⟩

theorem reach_null (cfg : Cfg) {stk n} (hctx : Ctx stk n) (s0 : St) (r : Bytes) (hv : vState s0.st = true) (he : s0.err = none)
    (hstk : s0.stack = stk) (hl : s0.level = n) :
    ∃ s1, Reach cfg s0 (110 :: 117 :: 108 :: 108 :: r) s1 r [.null] ∧ Shape s1 (afterSt n) stk n := by
  refine ⟨_, Reach.of_feed (feed_null cfg s0 r hv he) ?_ ?_, ?_⟩ <;>
    rw [afterLiteral_ctx hctx _ (by simpa [emit] using hl)]
  · simpa [emit] using he
  · simp [emit, er_cons, Ev.eraseNoesc]
  · exact ⟨rfl, hstk, hl⟩

theorem reach_number (cfg : Cfg) {stk n} (hctx : Ctx stk n) (s0 : St) (c : Nat) (cs lit r : Bytes)
    (hp : parseNumber (c :: cs) = some (lit, r)) (hnd : NoDigitHead r)
    (hv : vState s0.st = true) (he : s0.err = none) (hstk : s0.stack = stk) (hl : s0.level = n) :
    ∃ s1, Reach cfg s0 (c :: cs) s1 r [numEv lit] ∧ Shape s1 (afterSt n) stk n := by
  obtain ⟨s1, e1, e2, e3, e4, e5, e6⟩ := feed_number_value cfg hctx s0 c cs lit r hp hnd hv he hstk
  refine ⟨s1, ⟨e1, e5, ?_⟩, e2, e3.trans hstk, e4.trans hl⟩
  rw [e6]; unfold numEv; split <;> simp [er_cons, Ev.eraseNoesc]

theorem reach_string (cfg : Cfg) {stk n} (hctx : Ctx stk n) (s0 : St) (s b r : Bytes)
    (hp : parseString s = some (b, r)) (hv : vState s0.st = true) (he : s0.err = none) (hstk : s0.stack = stk) (hl : s0.level = n) :
    ∃ s1, Reach cfg s0 s s1 r [.str b true] ∧ Shape s1 (afterSt n) stk n := by
  obtain ⟨s1, e1, e2, e3, e4, e5, ne, e6⟩ := feed_string_value cfg hctx s0 s b r hp hv he hstk
  exact ⟨s1, Reach.of_feed e1 e5 (by rw [e6]; simp [er_cons, Ev.eraseNoesc]), e2, e3.trans hstk, e4.trans hl⟩

theorem reach_key (cfg : Cfg) (s0 : St) (s b r : Bytes) (hp : parseString s = some (b, r))
    (hs : s0.st = .expectMemberNameOrEnd ∨ s0.st = .expectMemberName) (he : s0.err = none) :
    ∃ s1, Reach cfg s0 s s1 r [.key b] ∧ Shape s1 .expectColon s0.stack s0.level := by
  obtain ⟨s1, e1, e2, e3, e4, e5, e6⟩ := feed_string_key cfg s0 s b r hp hs he
  exact ⟨s1, Reach.of_feed e1 e5 (by rw [e6]; simp [er_cons, Ev.eraseNoesc]), e2, e3, e4⟩

theorem simAt_zero (cfg : Cfg) (fl : Flags) : SimAt cfg fl 0 := by
  refine ⟨?_, ?_, ?_⟩
  · intro n s v r h; simp [parseValue] at h
  · intro n s xs r h; simp [parseElems] at h
  · intro n s ms r h; simp [parseMembers] at h

theorem dropWs_noDigit_of_head (s : Bytes) (c : Nat) (rest : Bytes) (h : dropWs s = c :: rest) (hc : isDigit c = false) :
    NoDigitHead s :=
  noDigitHead_of_dropWs s (by rw [h]; exact noDigitHead_cons c rest hc)

theorem sim_value (cfg : Cfg) (fl : Flags) (R : Rel cfg fl) (fuel : Nat) (ih : SimAt cfg fl fuel) :
    ∀ (n : Nat) (s : Bytes) (v : JT) (r : Bytes), parseValue fl (fuel + 1) n s = some (v, r) → NoDigitHead r →
    ∀ (stk : List PS) (s0 : St), Ctx stk n → s0.stack = stk → s0.level = n → s0.err = none → vState s0.st = true →
      ∃ s1, Reach cfg s0 s s1 r (eventsOf v) ∧ Shape s1 (afterSt n) stk n := by
  obtain ⟨_, ihE, ihM⟩ := ih
  intro n s v r h hnd stk s0 hctx hstk hlvl he hvs
  cases s with
  | nil => simp [parseValue] at h
  | cons c cs =>
    simp only [parseValue] at h
    by_cases h123 : c = 123
    · subst h123
      simp only [if_true] at h
      by_cases hd : n + 1 > fl.maxDepth
      · simp [hd] at h
      · simp only [hd, if_false] at h
        obtain ⟨sB, RB, hB1, hB2, hB3⟩ := reach_beginObject cfg s0 cs hvs he (by rw [hlvl, ← R.depth]; exact hd)
        rw [hstk] at hB2; rw [hlvl] at hB3
        cases hw : skipWs fl.comments (cs.length + 1) cs with
        | none => simp [hw] at h
        | some w =>
          rw [hw] at h
          split at h
          · rename_i heq; simp at heq
          · rename_i rest heq
            simp only [Option.some.injEq] at heq
            simp only [Option.some.injEq, Prod.mk.injEq] at h
            obtain ⟨rfl, rfl⟩ := h
            have RW := R.skip sB cs w (by rw [hB1]; rfl) RB.2.1 hw (by rw [heq]; simp)
            rw [heq] at RW
            obtain ⟨sE, RE, hE⟩ := reach_endObject cfg sB rest stk n (Or.inr hB1) RB.2.1 hB2 hB3
            exact ⟨sE, (RB.trans (RW.trans RE)).cast (by simp [eventsOf, eventsOfMembers]), hE⟩
          · rename_i s1 _ heq
            simp only [Option.some.injEq] at heq
            cases hm : parseMembers fl fuel (n + 1) s1 with
            | none => simp [hm] at h
            | some p =>
              obtain ⟨ms, r'⟩ := p
              simp only [hm, Option.map_some, Option.some.injEq, Prod.mk.injEq] at h
              obtain ⟨rfl, rfl⟩ := h
              have RW := R.skip sB cs w (by rw [hB1]; rfl) RB.2.1 hw
                (by rw [heq]; intro e; rw [e, parseMembers_nil] at hm; cases hm)
              rw [heq] at RW
              obtain ⟨sM, RM, hM⟩ := ihM n s1 ms r' hm stk sB hctx hB2 hB3 RB.2.1 (Or.inl hB1)
              exact ⟨sM, (RB.trans (RW.trans RM)).cast (by simp [eventsOf]), hM⟩
    · simp only [h123, if_false] at h
      by_cases h91 : c = 91
      · subst h91
        simp only [if_true] at h
        by_cases hd : n + 1 > fl.maxDepth
        · simp [hd] at h
        · simp only [hd, if_false] at h
          obtain ⟨sB, RB, hB1, hB2, hB3⟩ := reach_beginArray cfg s0 cs hvs he (by rw [hlvl, ← R.depth]; exact hd)
          rw [hstk] at hB2; rw [hlvl] at hB3
          cases hw : skipWs fl.comments (cs.length + 1) cs with
          | none => simp [hw] at h
          | some w =>
            rw [hw] at h
            split at h
            · rename_i heq; simp at heq
            · rename_i rest heq
              simp only [Option.some.injEq] at heq
              simp only [Option.some.injEq, Prod.mk.injEq] at h
              obtain ⟨rfl, rfl⟩ := h
              have RW := R.skip sB cs w (by rw [hB1]; rfl) RB.2.1 hw (by rw [heq]; simp)
              rw [heq] at RW
              obtain ⟨sE, RE, hE⟩ := reach_endArray cfg sB rest stk n (Or.inr hB1) RB.2.1 hB2 hB3
              exact ⟨sE, (RB.trans (RW.trans RE)).cast (by simp [eventsOf, eventsOfElems]), hE⟩
            · rename_i s1 _ heq
              simp only [Option.some.injEq] at heq
              cases hm : parseElems fl fuel (n + 1) s1 with
              | none => simp [hm] at h
              | some p =>
                obtain ⟨xs, r'⟩ := p
                simp only [hm, Option.map_some, Option.some.injEq, Prod.mk.injEq] at h
                obtain ⟨rfl, rfl⟩ := h
                have RW := R.skip sB cs w (by rw [hB1]; rfl) RB.2.1 hw
                  (by rw [heq]; intro e; rw [e, parseElems_nil] at hm; cases hm)
                rw [heq] at RW
                obtain ⟨sM, RM, hM⟩ := ihE n s1 xs r' hm stk sB hctx hB2 hB3 RB.2.1 (by rw [hB1]; rfl)
                exact ⟨sM, (RB.trans (RW.trans RM)).cast (by simp [eventsOf]), hM⟩
      · simp only [h91, if_false] at h
        by_cases h34 : c = 34
        · subst h34
          simp only [if_true] at h
          cases hp : parseString (34 :: cs) with
          | none => simp [hp] at h
          | some p =>
            obtain ⟨b, r'⟩ := p
            simp only [hp, Option.map_some, Option.some.injEq, Prod.mk.injEq] at h
            obtain ⟨rfl, rfl⟩ := h
            obtain ⟨s1, R1, h1⟩ := reach_string cfg hctx s0 _ b r' hp hvs he hstk hlvl
            exact ⟨s1, R1.cast (by simp [eventsOf]), h1⟩
        · simp only [h34, if_false] at h
          by_cases h116 : c = 116
          · subst h116
            simp only [if_true] at h
            cases hp : startsWith [114, 117, 101] cs with
            | none => simp [hp] at h
            | some r' =>
              simp only [hp, Option.map_some, Option.some.injEq, Prod.mk.injEq] at h
              obtain ⟨rfl, rfl⟩ := h
              have := startsWith_eq _ _ _ hp
              subst this
              obtain ⟨s1, R1, h1⟩ := reach_true cfg hctx s0 r' hvs he hstk hlvl
              exact ⟨s1, R1.cast (by simp [eventsOf]), h1⟩
          · simp only [h116, if_false] at h
            by_cases h102 : c = 102
            · subst h102
              simp only [if_true] at h
              cases hp : startsWith [97, 108, 115, 101] cs with
              | none => simp [hp] at h
              | some r' =>
                simp only [hp, Option.map_some, Option.some.injEq, Prod.mk.injEq] at h
                obtain ⟨rfl, rfl⟩ := h
                have := startsWith_eq _ _ _ hp
                subst this
                obtain ⟨s1, R1, h1⟩ := reach_false cfg hctx s0 r' hvs he hstk hlvl
                exact ⟨s1, R1.cast (by simp [eventsOf]), h1⟩
            · simp only [h102, if_false] at h
              by_cases h110 : c = 110
              · subst h110
                simp only [if_true] at h
                cases hp : startsWith [117, 108, 108] cs with
                | none => simp [hp] at h
                | some r' =>
                  simp only [hp, Option.map_some, Option.some.injEq, Prod.mk.injEq] at h
                  obtain ⟨rfl, rfl⟩ := h
                  have := startsWith_eq _ _ _ hp
                  subst this
                  obtain ⟨s1, R1, h1⟩ := reach_null cfg hctx s0 r' hvs he hstk hlvl
                  exact ⟨s1, R1.cast (by simp [eventsOf]), h1⟩
              · simp only [h110, if_false] at h
                cases hp : parseNumber (c :: cs) with
                | none => simp [hp] at h
                | some p =>
                  obtain ⟨lit, r'⟩ := p
                  simp only [hp, Option.map_some, Option.some.injEq, Prod.mk.injEq] at h
                  obtain ⟨rfl, rfl⟩ := h
                  obtain ⟨s1, R1, h1⟩ := reach_number cfg hctx s0 c cs lit r' hp hnd hvs he hstk hlvl
                  exact ⟨s1, R1.cast (by simp [eventsOf]), h1⟩

theorem sim_elems (cfg : Cfg) (fl : Flags) (R : Rel cfg fl) (fuel : Nat) (ih : SimAt cfg fl fuel) :
    ∀ (n : Nat) (s : Bytes) (xs : List JT) (r : Bytes), parseElems fl (fuel + 1) (n + 1) s = some (xs, r) →
    ∀ (stk : List PS) (s0 : St), Ctx stk n → s0.stack = .array :: stk → s0.level = n + 1 → s0.err = none → vState s0.st = true →
      ∃ s1, Reach cfg s0 s s1 r (eventsOfElems xs ++ [.endArray]) ∧ Shape s1 (afterSt n) stk n := by
  obtain ⟨ihV, ihE, _⟩ := ih
  intro n s xs r h stk s0 hctx hstk hlvl he hvs
  simp only [parseElems] at h
  cases hv : parseValue fl fuel (n + 1) s with
  | none => simp [hv] at h
  | some p =>
    obtain ⟨v, s1⟩ := p
    simp only [hv] at h
    cases hw1 : skipWs fl.comments (s1.length + 1) s1 with
    | none => simp [hw1] at h
    | some w1 =>
    rw [hw1] at h
    split at h
    · -- the last element
      rename_i rest heq
      simp only [Option.some.injEq] at heq
      simp only [Option.some.injEq, Prod.mk.injEq] at h
      obtain ⟨rfl, rfl⟩ := h
      rw [heq] at hw1
      obtain ⟨sV, RV, hV1, hV2, hV3⟩ := ihV (n + 1) s v s1 hv
        (noDigitHead_of_skipWs _ _ _ _ hw1 (noDigitHead_cons 93 rest (by decide)))
        (.array :: stk) s0 (Ctx.arr hctx) hstk hlvl he hvs
      rw [afterSt_succ] at hV1
      have RW := R.skip sV s1 _ (by rw [hV1]; rfl) RV.2.1 hw1 (by simp)
      obtain ⟨sE, RE, hE⟩ := reach_endArray cfg sV rest stk n (Or.inl hV1) RV.2.1 hV2 hV3
      exact ⟨sE, (RV.trans (RW.trans RE)).cast (by simp [eventsOfElems]), hE⟩
    · -- a comma
      rename_i s2 heq
      simp only [Option.some.injEq] at heq
      rw [heq] at hw1
      obtain ⟨sV, RV, hV1, hV2, hV3⟩ := ihV (n + 1) s v s1 hv
        (noDigitHead_of_skipWs _ _ _ _ hw1 (noDigitHead_cons 44 s2 (by decide)))
        (.array :: stk) s0 (Ctx.arr hctx) hstk hlvl he hvs
      rw [afterSt_succ] at hV1
      have RW := R.skip sV s1 _ (by rw [hV1]; rfl) RV.2.1 hw1 (by simp)
      obtain ⟨sC, RC, hC1, hC2, hC3⟩ := reach_comma_array cfg sV s2 stk hV1 RV.2.1 hV2
      rw [hV2] at hC2; rw [hV3] at hC3
      cases hw2 : skipWs fl.comments (s2.length + 1) s2 with
      | none => simp [hw2] at h
      | some w2 =>
      rw [hw2] at h
      split at h
      · rename_i heq2; simp at heq2
      · -- a trailing comma
        rename_i rest heq2
        simp only [Option.some.injEq] at heq2
        rw [heq2] at hw2
        by_cases htc : fl.trailingComma = true
        · simp only [htc, if_true, Option.some.injEq, Prod.mk.injEq] at h
          obtain ⟨rfl, rfl⟩ := h
          have RW2 := R.skip sC s2 _ (by rw [hC1]; rfl) RC.2.1 hw2 (by simp)
          obtain ⟨sE, RE, hE⟩ := reach_endArray_trailing cfg (R.tc htc) sC rest stk n hC1 RC.2.1 hC2 hC3
          exact ⟨sE, (RV.trans (RW.trans (RC.trans (RW2.trans RE)))).cast (by simp [eventsOfElems]), hE⟩
        · simp [htc] at h
      · rename_i s3 _ heq2
        simp only [Option.some.injEq] at heq2
        cases hm : parseElems fl fuel (n + 1) s3 with
        | none => simp [hm] at h
        | some p =>
          obtain ⟨xs', r'⟩ := p
          simp only [hm, Option.map_some, Option.some.injEq, Prod.mk.injEq] at h
          obtain ⟨rfl, rfl⟩ := h
          rw [heq2] at hw2
          have RW2 := R.skip sC s2 _ (by rw [hC1]; rfl) RC.2.1 hw2
            (by intro e; rw [e, parseElems_nil] at hm; cases hm)
          obtain ⟨sM, RM, hM⟩ := ihE n s3 xs' r' hm stk sC hctx hC2 hC3 RC.2.1 (by rw [hC1]; rfl)
          exact ⟨sM, (RV.trans (RW.trans (RC.trans (RW2.trans RM)))).cast (by simp [eventsOfElems]), hM⟩
    · simp at h

theorem sim_members (cfg : Cfg) (fl : Flags) (R : Rel cfg fl) (fuel : Nat) (ih : SimAt cfg fl fuel) :
    ∀ (n : Nat) (s : Bytes) (ms : List (Bytes × JT)) (r : Bytes), parseMembers fl (fuel + 1) (n + 1) s = some (ms, r) →
    ∀ (stk : List PS) (s0 : St), Ctx stk n → s0.stack = .object :: stk → s0.level = n + 1 → s0.err = none →
      (s0.st = .expectMemberNameOrEnd ∨ s0.st = .expectMemberName) →
      ∃ s1, Reach cfg s0 s s1 r (eventsOfMembers ms ++ [.endObject]) ∧ Shape s1 (afterSt n) stk n := by
  obtain ⟨ihV, _, ihM⟩ := ih
  intro n s ms r h stk s0 hctx hstk hlvl he hs0
  simp only [parseMembers] at h
  cases hk : parseString s with
  | none => simp [hk] at h
  | some p =>
    obtain ⟨k, s1⟩ := p
    simp only [hk] at h
    obtain ⟨sK, RK, hK1, hK2, hK3⟩ := reach_key cfg s0 s k s1 hk hs0 he
    rw [hstk] at hK2; rw [hlvl] at hK3
    cases hw1 : skipWs fl.comments (s1.length + 1) s1 with
    | none => simp [hw1] at h
    | some w1 =>
    rw [hw1] at h
    split at h
    · rename_i s2 heq
      simp only [Option.some.injEq] at heq
      rw [heq] at hw1
      have RW1 := R.skip sK s1 _ (by rw [hK1]; rfl) RK.2.1 hw1 (by simp)
      obtain ⟨sC, RC, hC1, hC2, hC3⟩ := reach_colon cfg sK s2 hK1 RK.2.1
      rw [hK2] at hC2; rw [hK3] at hC3
      cases hw2 : skipWs fl.comments (s2.length + 1) s2 with
      | none => simp [hw2] at h
      | some s3 =>
      simp only [hw2] at h
      cases hv : parseValue fl fuel (n + 1) s3 with
      | none => simp [hv] at h
      | some p =>
        obtain ⟨v, s4⟩ := p
        simp only [hv] at h
        have RW2 := R.skip sC s2 _ (by rw [hC1]; rfl) RC.2.1 hw2
          (by intro e; rw [e, parseValue_nil] at hv; cases hv)
        cases hw4 : skipWs fl.comments (s4.length + 1) s4 with
        | none => simp [hw4] at h
        | some w4 =>
        rw [hw4] at h
        split at h
        · -- the last member
          rename_i rest heq4
          simp only [Option.some.injEq] at heq4
          simp only [Option.some.injEq, Prod.mk.injEq] at h
          obtain ⟨rfl, rfl⟩ := h
          rw [heq4] at hw4
          obtain ⟨sV, RV, hV1, hV2, hV3⟩ := ihV (n + 1) s3 v s4 hv
            (noDigitHead_of_skipWs _ _ _ _ hw4 (noDigitHead_cons 125 rest (by decide)))
            (.object :: stk) sC (Ctx.obj hctx) hC2 hC3 RC.2.1 (by rw [hC1]; rfl)
          rw [afterSt_succ] at hV1
          have RW3 := R.skip sV s4 _ (by rw [hV1]; rfl) RV.2.1 hw4 (by simp)
          obtain ⟨sE, RE, hE⟩ := reach_endObject cfg sV rest stk n (Or.inl hV1) RV.2.1 hV2 hV3
          exact ⟨sE, (RK.trans (RW1.trans (RC.trans (RW2.trans (RV.trans (RW3.trans RE)))))).cast
            (by simp [eventsOfMembers]), hE⟩
        · -- a comma
          rename_i s5 heq4
          simp only [Option.some.injEq] at heq4
          rw [heq4] at hw4
          obtain ⟨sV, RV, hV1, hV2, hV3⟩ := ihV (n + 1) s3 v s4 hv
            (noDigitHead_of_skipWs _ _ _ _ hw4 (noDigitHead_cons 44 s5 (by decide)))
            (.object :: stk) sC (Ctx.obj hctx) hC2 hC3 RC.2.1 (by rw [hC1]; rfl)
          rw [afterSt_succ] at hV1
          have RW3 := R.skip sV s4 _ (by rw [hV1]; rfl) RV.2.1 hw4 (by simp)
          obtain ⟨sD, RD, hD1, hD2, hD3⟩ := reach_comma_object cfg sV s5 stk hV1 RV.2.1 hV2
          rw [hV2] at hD2; rw [hV3] at hD3
          cases hw5 : skipWs fl.comments (s5.length + 1) s5 with
          | none => simp [hw5] at h
          | some w5 =>
          rw [hw5] at h
          split at h
          · rename_i heq5; simp at heq5
          · -- a trailing comma
            rename_i rest heq5
            simp only [Option.some.injEq] at heq5
            rw [heq5] at hw5
            by_cases htc : fl.trailingComma = true
            · simp only [htc, if_true, Option.some.injEq, Prod.mk.injEq] at h
              obtain ⟨rfl, rfl⟩ := h
              have RW4 := R.skip sD s5 _ (by rw [hD1]; rfl) RD.2.1 hw5 (by simp)
              obtain ⟨sE, RE, hE⟩ := reach_endObject_trailing cfg (R.tc htc) sD rest stk n hD1 RD.2.1 hD2 hD3
              exact ⟨sE, (RK.trans (RW1.trans (RC.trans (RW2.trans (RV.trans (RW3.trans (RD.trans (RW4.trans RE)))))))).cast
                (by simp [eventsOfMembers]), hE⟩
            · simp [htc] at h
          · rename_i s6 _ heq5
            simp only [Option.some.injEq] at heq5
            cases hm : parseMembers fl fuel (n + 1) s6 with
            | none => simp [hm] at h
            | some p =>
              obtain ⟨ms', r'⟩ := p
              simp only [hm, Option.map_some, Option.some.injEq, Prod.mk.injEq] at h
              obtain ⟨rfl, rfl⟩ := h
              rw [heq5] at hw5
              have RW4 := R.skip sD s5 _ (by rw [hD1]; rfl) RD.2.1 hw5
                (by intro e; rw [e, parseMembers_nil] at hm; cases hm)
              obtain ⟨sM, RM, hM⟩ := ihM n s6 ms' r' hm stk sD hctx hD2 hD3 RD.2.1 (Or.inr hD1)
              exact ⟨sM, (RK.trans (RW1.trans (RC.trans (RW2.trans (RV.trans (RW3.trans (RD.trans (RW4.trans RM)))))))).cast
                (by simp [eventsOfMembers]), hM⟩
        · simp at h
    · simp at h

theorem simAt (cfg : Cfg) (fl : Flags) (R : Rel cfg fl) : ∀ fuel, SimAt cfg fl fuel
  | 0 => simAt_zero cfg fl
  | fuel + 1 => ⟨sim_value cfg fl R fuel (simAt cfg fl R fuel), sim_elems cfg fl R fuel (simAt cfg fl R fuel),
      sim_members cfg fl R fuel (simAt cfg fl R fuel)⟩

/-- the whole document, for reference flags the parser's options cover: the leading `ws`, the value, and then plain white space
    only (after the root value the parser's `check_done` knows no comments) -/
theorem run_complete_rel (cfg : Cfg) (fl : Flags) (R : Rel cfg fl) (bs s1 s2 : Bytes) (v : JT)
    (h1 : skipWs fl.comments (bs.length + 1) bs = some s1) (h2 : parseValue fl (s1.length + 1) 0 s1 = some (v, s2))
    (h3 : dropWs s2 = []) :
    accepted (run cfg bs) = true ∧ er (run cfg bs).evs.reverse = eventsOf v := by
  have RW := R.skip init bs s1 rfl rfl h1 (by intro e; rw [e, parseValue_nil] at h2; cases h2)
  obtain ⟨sV, RV, hV1, _, _⟩ := (simAt cfg fl R _).1 0 s1 v s2 h2
    (noDigitHead_of_dropWs s2 (by rw [h3]; exact noDigitHead_nil)) [.root] init Ctx.root rfl rfl rfl rfl
  have R' := RW.trans RV
  obtain ⟨sF, f1, f2, f3, f4⟩ := feed_ws_accept cfg s2 sV (Or.inl hV1) RV.2.1 h3
  obtain ⟨a1, a2⟩ := finish_accept sF f2 f3
  have hrun : run cfg bs = finish sF := by
    unfold run; rw [R'.1, f1]
  rw [hrun]
  refine ⟨a1, ?_⟩
  rw [a2, f4]
  have := R'.2.2
  simp only [init, er, List.map_nil, List.append_nil, List.nil_append] at this
  simp only [er, List.map_reverse, this, List.reverse_reverse]

/-- the whole document, reference without comments -/
theorem run_complete_nc (cfg : Cfg) (fl : Flags) (R : Rel cfg fl) (hc : fl.comments = false) (bs : Bytes) (v : JT)
    (h : parseText fl bs = some v) :
    accepted (run cfg bs) = true ∧ er (run cfg bs).evs.reverse = eventsOf v := by
  unfold parseText at h
  rw [hc, skipWs_eq _ _ (Nat.lt_succ_self _)] at h
  simp only at h
  cases hv : parseValue fl ((dropWs bs).length + 1) 0 (dropWs bs) with
  | none => simp [hv] at h
  | some p =>
    obtain ⟨v', s2⟩ := p
    simp only [hv] at h
    rw [skipWs_eq _ _ (Nat.lt_succ_self _)] at h
    split at h
    · rename_i heq
      simp only [Option.some.injEq] at heq h
      subst h
      exact run_complete_rel cfg fl R bs (dropWs bs) s2 v' (by rw [hc]; exact skipWs_eq _ _ (Nat.lt_succ_self _)) hv heq
    · simp at h

/-- the whole document -/
theorem run_complete (cfg : Cfg) (bs : Bytes) (v : JT) (h : parseText (strictFlags cfg) bs = some v) :
    accepted (run cfg bs) = true ∧ er (run cfg bs).evs.reverse = eventsOf v :=
  run_complete_nc cfg (strictFlags cfg) (rel_strict cfg) rfl bs v h

/-- the whole document, with the parser's own trailing-comma option -/
theorem run_complete_tc (cfg : Cfg) (bs : Bytes) (v : JT) (h : parseText (tcFlags cfg) bs = some v) :
    accepted (run cfg bs) = true ∧ er (run cfg bs).evs.reverse = eventsOf v :=
  run_complete_nc cfg (tcFlags cfg) (rel_tc cfg) rfl bs v h

end JsonParser
end Model
end JV
