/-
  JV.Proofs.BigIntMul — DDproduct, multiplication by a word, the schoolbook product.
-/
import JV.Proofs.BigInt
namespace JV
namespace Model
namespace BigInt

theorem split_mul (a1 a0 b1 b0 h : Nat) :
    (a1 * h + a0) * (b1 * h + b0) = a1 * b1 * (h * h) + (a0 * b1 + a1 * b0) * h + a0 * b0 := by
  grind

/-- one `lo += mid << 32; hi += (lo < old) + (mid >> 32)` step of DDproduct -/
def lstep (lo mid : Nat) : Nat := (lo + mid * H % B) % B
def cstep (lo mid : Nat) : Nat := if lstep lo mid < lo then 1 else 0

theorem step_spec (lo mid : Nat) (hlo : lo < B) :
    lstep lo mid + B * (cstep lo mid + mid / H) = lo + mid * H ∧ lstep lo mid < B := by
  unfold cstep
  by_cases h : lstep lo mid < lo
  · simp only [h, if_true]; unfold lstep H B at *; omega
  · simp only [h, if_false]; unfold lstep H B at *; omega

theorem ddproduct_eq (a b : Nat) : ddproduct a b =
    (((((a / H) * (b / H)) % B + (cstep (((a % H) * (b % H)) % B) (((a % H) * (b / H)) % B) + (((a % H) * (b / H)) % B) / H)) % B
        + (cstep (lstep (((a % H) * (b % H)) % B) (((a % H) * (b / H)) % B)) (((a / H) * (b % H)) % B) + (((a / H) * (b % H)) % B) / H)) % B,
      lstep (lstep (((a % H) * (b % H)) % B) (((a % H) * (b / H)) % B)) (((a / H) * (b % H)) % B)) := rfl

theorem ddproduct_spec (a b : Nat) (ha : a < B) (hb : b < B) :
    (ddproduct a b).2 + B * (ddproduct a b).1 = a * b ∧ (ddproduct a b).2 < B ∧ (ddproduct a b).1 + 2 ≤ B := by
  have hab : a * b = (a / H) * (b / H) * (H * H) + ((a % H) * (b / H) + (a / H) * (b % H)) * H + (a % H) * (b % H) := by
    have := split_mul (a / H) (a % H) (b / H) (b % H) H
    rw [Nat.div_add_mod', Nat.div_add_mod'] at this
    exact this
  have h00 : (a % H) * (b % H) ≤ (H - 1) * (H - 1) :=
    Nat.mul_le_mul (by unfold H; omega) (by unfold H; omega)
  have h01 : (a % H) * (b / H) ≤ (H - 1) * (H - 1) :=
    Nat.mul_le_mul (by unfold H; omega) (by unfold H B at *; omega)
  have h10 : (a / H) * (b % H) ≤ (H - 1) * (H - 1) :=
    Nat.mul_le_mul (by unfold H B at *; omega) (by unfold H; omega)
  have h11 : (a / H) * (b / H) ≤ (H - 1) * (H - 1) :=
    Nat.mul_le_mul (by unfold H B at *; omega) (by unfold H B at *; omega)
  rw [ddproduct_eq]
  generalize (a % H) * (b % H) = p00 at *
  generalize (a % H) * (b / H) = p01 at *
  generalize (a / H) * (b % H) = p10 at *
  generalize (a / H) * (b / H) = p11 at *
  generalize a * b = ab at *
  have e00 : p00 % B = p00 := Nat.mod_eq_of_lt (by unfold H B at *; omega)
  have e01 : p01 % B = p01 := Nat.mod_eq_of_lt (by unfold H B at *; omega)
  have e10 : p10 % B = p10 := Nat.mod_eq_of_lt (by unfold H B at *; omega)
  have e11 : p11 % B = p11 := Nat.mod_eq_of_lt (by unfold H B at *; omega)
  rw [e00, e01, e10, e11]
  obtain ⟨s1, l1⟩ := step_spec p00 p01 (by unfold H B at *; omega)
  obtain ⟨s2, l2⟩ := step_spec (lstep p00 p01) p10 l1
  generalize cstep p00 p01 = c1 at *
  generalize cstep (lstep p00 p01) p10 = c2 at *
  generalize lstep (lstep p00 p01) p10 = lo2 at *
  generalize lstep p00 p01 = lo1 at *
  simp only [H, B] at *
  subst hab
  refine ⟨?_, ?_, ?_⟩ <;> omega


/-! ### `operator*=(word)` -/

theorem mulWordLoop_spec (y : Nat) (hy : y < B) : ∀ (xs : List Nat) (c : Nat), Words xs → c < B →
    val (mulWordLoop y xs c) = val xs * y + c ∧ Words (mulWordLoop y xs c) ∧ (mulWordLoop y xs c).length = xs.length + 1
  | [], c, _, hc => by
    refine ⟨by simp [mulWordLoop, val], ?_, rfl⟩
    intro z hz; simp [mulWordLoop] at hz; omega
  | dig :: xs, c, hw, hc => by
    obtain ⟨hp, hlo, hhi⟩ := ddproduct_spec dig y hw.head hy
    simp only [mulWordLoop]
    generalize ddproduct dig y = p at *
    have key : ∃ e, e ≤ 1 ∧ (p.2 + c) % B + B * e = p.2 + c ∧ e = (if (p.2 + c) % B < p.2 then 1 else 0) := by
      by_cases h : (p.2 + c) % B < p.2
      · refine ⟨1, by omega, ?_, by simp [h]⟩
        unfold B at *; omega
      · refine ⟨0, by omega, ?_, by simp [h]⟩
        unfold B at *; omega
    obtain ⟨e, he1, he2, he3⟩ := key
    rw [← he3]
    have hcarry : (p.1 + e) % B = p.1 + e := Nat.mod_eq_of_lt (by omega)
    rw [hcarry]
    obtain ⟨ih1, ih2, ih3⟩ := mulWordLoop_spec y hy xs (p.1 + e) hw.tail (by omega)
    refine ⟨?_, ?_, by simp [ih3]⟩
    · simp only [val, ih1, Nat.add_mul, Nat.mul_add, Nat.mul_assoc]
      rw [← hp]
      generalize val xs * y = V at *
      omega
    · intro z hz
      rcases List.mem_cons.1 hz with h | h
      · rw [h]; exact Nat.mod_lt _ B_pos
      · exact ih2 z h

theorem mulWord_val (x : List Nat) (y : Nat) (hx : Words x) (hy : y < B) : val (mulWord x y) = val x * y := by
  unfold mulWord
  rw [stripHigh_val, (mulWordLoop_spec y hy x 0 hx B_pos).1, Nat.add_zero]

/-! ### the schoolbook product -/

/-- Horner-form sum  f 0 + B f 1 + … + B^(n-1) f (n-1) -/
def sumH : (Nat → Nat) → Nat → Nat
  | _, 0 => 0
  | f, n + 1 => f 0 + B * sumH (fun i => f (i + 1)) n

theorem sumH_zero (n : Nat) : sumH (fun _ => 0) n = 0 := by
  induction n with
  | zero => rfl
  | succ n ih => simp [sumH, ih]

theorem sumH_congr {f g : Nat → Nat} (h : ∀ i, f i = g i) (n : Nat) : sumH f n = sumH g n := by
  have : f = g := funext h
  rw [this]

theorem sumH_add (f g : Nat → Nat) (n : Nat) : sumH (fun i => f i + g i) n = sumH f n + sumH g n := by
  induction n generalizing f g with
  | zero => rfl
  | succ n ih =>
    simp only [sumH]
    rw [ih (fun i => f (i + 1)) (fun i => g (i + 1)), Nat.mul_add]
    omega

theorem sumH_mul (c : Nat) (f : Nat → Nat) (n : Nat) : sumH (fun i => c * f i) n = c * sumH f n := by
  induction n generalizing f with
  | zero => simp [sumH]
  | succ n ih =>
    simp only [sumH]
    rw [ih (fun i => f (i + 1)), Nat.mul_add, Nat.mul_left_comm]

theorem sumH_shift (g : Nat → Nat) : ∀ (j n : Nat), j ≤ n →
    sumH (fun i => if j ≤ i then g (i - j) else 0) n = B ^ j * sumH g (n - j)
  | 0, n, _ => by simp
  | j + 1, 0, h => by omega
  | j + 1, n + 1, h => by
    simp only [sumH]
    have e : (fun i => if j + 1 ≤ i + 1 then g (i + 1 - (j + 1)) else 0) = (fun i => if j ≤ i then g (i - j) else 0) := by
      funext i
      simp [Nat.add_sub_add_right]
    rw [e, sumH_shift g j n (by omega)]
    simp [Nat.pow_succ, Nat.mul_assoc, Nat.mul_comm]

theorem sumH_getD : ∀ (y : List Nat) (n : Nat), y.length ≤ n → sumH (fun i => y.getD i 0) n = val y
  | [], n, _ => by simpa [val] using sumH_zero n
  | a :: ys, 0, h => by simp at h
  | a :: ys, n + 1, h => by
    simp only [sumH, val, List.getD_cons_zero, List.getD_cons_succ]
    rw [sumH_getD ys n (by simpa using h)]

/-- the products that fall into column `i`, for the words `xs` of `x` starting at index `jA` -/
def colSum (y : List Nat) : List Nat → Nat → Nat → Nat
  | [], _, _ => 0
  | xa :: xs, jA, i => (if jA ≤ i then xa * y.getD (i - jA) 0 else 0) + colSum y xs (jA + 1) i

theorem sumH_colSum (y : List Nat) : ∀ (xs : List Nat) (jA n : Nat), jA + xs.length + y.length ≤ n →
    sumH (colSum y xs jA) n = B ^ jA * (val xs * val y)
  | [], jA, n, _ => by
    have : colSum y [] jA = fun _ => 0 := by funext i; rfl
    rw [this, sumH_zero]; simp [val]
  | xa :: xs, jA, n, h => by
    have e : colSum y (xa :: xs) jA = fun i => (if jA ≤ i then xa * y.getD (i - jA) 0 else 0) + colSum y xs (jA + 1) i := by
      funext i; rfl
    simp only [List.length_cons] at h
    rw [e, sumH_add, sumH_colSum y xs (jA + 1) n (by omega)]
    rw [sumH_shift (fun k => xa * y.getD k 0) jA n (by omega), sumH_mul, sumH_getD y (n - jA) (by omega)]
    simp only [val, Nat.pow_succ, Nat.add_mul, Nat.mul_add, Nat.mul_assoc]


theorem words_getD {y : List Nat} (hy : Words y) (k : Nat) : y.getD k 0 < B := by
  by_cases h : k < y.length
  · simp only [List.getD_eq_getElem?_getD, List.getElem?_eq_getElem h, Option.getD_some]; exact hy _ (List.getElem_mem h)
  · simp only [List.getD_eq_getElem?_getD, List.getElem?_eq_none (Nat.le_of_not_lt h), Option.getD_none]; exact B_pos

/-- one accumulation `sumLo += lo; if (sumLo < old) sumHi++; sumHi += hi; carry += (sumHi < old)`:
    `hi ≤ B - 2` is what makes the single overflow test on `sumHi` sufficient -/
theorem acc_step (lo hi c plo phi : Nat) (hlo : lo < B) (hhi : hi < B) (hplo : plo < B) (hphi : phi + 2 ≤ B) (hc : c + 1 < B) :
    ∃ lo' hi' c', lo' = (lo + plo) % B ∧
      hi' = ((if (lo + plo) % B < lo then (hi + 1) % B else hi) + phi) % B ∧
      c' = (c + (if ((if (lo + plo) % B < lo then (hi + 1) % B else hi) + phi) % B < hi then 1 else 0)) % B ∧
      lo' + B * hi' + B * B * c' = lo + B * hi + B * B * c + plo + B * phi ∧ lo' < B ∧ hi' < B ∧ c' ≤ c + 1 := by
  refine ⟨_, _, _, rfl, rfl, rfl, ?_⟩
  by_cases h1 : (lo + plo) % B < lo
  · simp only [h1, if_true]
    by_cases h2 : ((hi + 1) % B + phi) % B < hi
    · simp only [h2, if_true]; unfold B at *; omega
    · simp only [h2, if_false]; unfold B at *; omega
  · simp only [h1, if_false]
    by_cases h2 : (hi + phi) % B < hi
    · simp only [h2, if_true]; unfold B at *; omega
    · simp only [h2, if_false]; unfold B at *; omega

theorem colLoop_spec (y : List Nat) (hy : Words y) (i : Nat) : ∀ (xs : List Nat) (jA lo hi c : Nat),
    Words xs → lo < B → hi < B → c + xs.length < B →
    (colLoop y i xs jA (lo, hi, c)).1 + B * (colLoop y i xs jA (lo, hi, c)).2.1 + B * B * (colLoop y i xs jA (lo, hi, c)).2.2
        = lo + B * hi + B * B * c + colSum y xs jA i ∧
      (colLoop y i xs jA (lo, hi, c)).1 < B ∧ (colLoop y i xs jA (lo, hi, c)).2.1 < B ∧
      (colLoop y i xs jA (lo, hi, c)).2.2 ≤ c + xs.length
  | [], jA, lo, hi, c, _, hlo, hhi, _ => by simp [colLoop, colSum, hlo, hhi]
  | xa :: xs, jA, lo, hi, c, hw, hlo, hhi, hc => by
    simp only [List.length_cons] at hc
    by_cases hcond : i ≥ jA ∧ i - jA < y.length
    · obtain ⟨hp, hplo, hphi⟩ := ddproduct_spec xa (y.getD (i - jA) 0) hw.head (words_getD hy _)
      obtain ⟨lo', hi', c', e1, e2, e3, hsum, hlo', hhi', hc'⟩ :=
        acc_step lo hi c (ddproduct xa (y.getD (i - jA) 0)).2 (ddproduct xa (y.getD (i - jA) 0)).1 hlo hhi hplo hphi (by omega)
      have hstep : colLoop y i (xa :: xs) jA (lo, hi, c) = colLoop y i xs (jA + 1) (lo', hi', c') := by
        simp only [colLoop, hcond, and_self, if_true, e1, e2, e3]
      rw [hstep]
      obtain ⟨ih1, ih2, ih3, ih4⟩ := colLoop_spec y hy i xs (jA + 1) lo' hi' c' hw.tail hlo' hhi' (by omega)
      refine ⟨?_, ih2, ih3, by simp only [List.length_cons]; omega⟩
      rw [ih1, hsum]
      simp only [colSum, hcond.1, if_true, ← hp]
      generalize ddproduct xa (y.getD (i - jA) 0) = p at *
      omega
    · have hstep : colLoop y i (xa :: xs) jA (lo, hi, c) = colLoop y i xs (jA + 1) (lo, hi, c) := by
        simp only [colLoop, hcond, if_false]
      rw [hstep]
      obtain ⟨ih1, ih2, ih3, ih4⟩ := colLoop_spec y hy i xs (jA + 1) lo hi c hw.tail hlo hhi (by omega)
      refine ⟨?_, ih2, ih3, by simp only [List.length_cons]; omega⟩
      rw [ih1]
      have hz : (if jA ≤ i then xa * y.getD (i - jA) 0 else 0) = 0 := by
        by_cases hj : jA ≤ i
        · have : y.length ≤ i - jA := by
            have := hcond; simp only [ge_iff_le, hj, true_and] at this; omega
          simp [hj, List.getElem?_eq_none this]
        · simp [hj]
      simp only [colSum, hz]
      omega

theorem rowLoop_spec (x y : List Nat) (hx : Words x) (hy : Words y) (hlen : x.length < B) : ∀ (n i sumHi carry : Nat),
    sumHi < B → carry ≤ x.length →
    ∃ F, val (rowLoop x y n i sumHi carry) + B ^ n * F = sumHi + B * carry + sumH (fun k => colSum y x 0 (i + k)) n ∧
      Words (rowLoop x y n i sumHi carry) ∧ (rowLoop x y n i sumHi carry).length = n
  | 0, i, sumHi, carry, _, _ => ⟨sumHi + B * carry, by simp [rowLoop, val, sumH], by intro z hz; simp [rowLoop] at hz, rfl⟩
  | n + 1, i, sumHi, carry, h1, h2 => by
    obtain ⟨c1, c2, c3, c4⟩ := colLoop_spec y hy i x 0 sumHi carry 0 hx h1 (by omega) (by omega)
    simp only [rowLoop]
    generalize colLoop y i x 0 (sumHi, carry, 0) = acc at *
    obtain ⟨F, f1, f2, f3⟩ := rowLoop_spec x y hx hy hlen n (i + 1) acc.2.1 acc.2.2 c3 (by omega)
    refine ⟨F, ?_, ?_, by simp [f3]⟩
    · simp only [val, sumH, Nat.pow_succ, Nat.add_zero]
      have e : (fun k => colSum y x 0 (i + (k + 1))) = (fun k => colSum y x 0 (i + 1 + k)) := by
        funext k; congr 1; omega
      rw [e]
      generalize sumH (fun k => colSum y x 0 (i + 1 + k)) n = S at *
      generalize val (rowLoop x y n (i + 1) acc.2.1 acc.2.2) = V at *
      have e2 : B ^ n * B * F = B * (B ^ n * F) := by
        rw [Nat.mul_comm (B ^ n) B, Nat.mul_assoc]
      rw [e2]
      generalize B ^ n * F = Z at *
      have e3 : B * (V + Z) = B * V + B * Z := Nat.mul_add _ _ _
      have e4 : B * (acc.2.1 + B * acc.2.2 + S) = B * acc.2.1 + B * B * acc.2.2 + B * S := by
        rw [Nat.mul_add, Nat.mul_add, Nat.mul_assoc]
      rw [f1] at e3
      omega
    · intro z hz
      rcases List.mem_cons.1 hz with h | h
      · rw [h]; exact c2
      · exact f2 z h

theorem schoolbook_val (x y : List Nat) (hx : Words x) (hy : Words y) (hlen : x.length < B) :
    val (schoolbook x y) = val x * val y := by
  obtain ⟨F, f1, f2, f3⟩ := rowLoop_spec x y hx hy hlen (x.length + y.length) 0 0 0 B_pos (by omega)
  have e : (fun k => colSum y x 0 (0 + k)) = colSum y x 0 := by funext k; simp
  rw [e, sumH_colSum y x 0 _ (by omega)] at f1
  simp only [Nat.pow_zero, Nat.one_mul, Nat.mul_zero, Nat.add_zero, Nat.zero_add] at f1
  have hlt : val x * val y < B ^ (x.length + y.length) := by
    rw [Nat.pow_add]
    exact Nat.mul_lt_mul'' (val_lt hx) (val_lt hy)
  have hF : F = 0 := by
    rcases Nat.eq_zero_or_pos F with h | h
    · exact h
    · have : B ^ (x.length + y.length) ≤ B ^ (x.length + y.length) * F := Nat.le_mul_of_pos_right _ h
      omega
  subst hF
  unfold schoolbook
  omega


theorem val_one (x : Nat) : val [x] = x := by simp [val]
theorem val_two (x y : Nat) : val [x, y] = x + B * y := by simp [val]

theorem mul11_val (a b : Nat) (ha : a < B) (hb : b < B) :
    val (if a * b % B / a ≠ b then [(ddproduct a b).2, (ddproduct a b).1] else [a * b % B]) = a * b := by
  obtain ⟨hp, _, _⟩ := ddproduct_spec a b ha hb
  by_cases hq : a * b % B / a ≠ b
  · rw [if_pos hq, val_two]
    exact hp
  · rw [if_neg hq, val_one]
    have hq' : a * b % B / a = b := Classical.not_not.1 hq
    have h1 : a * b % B ≤ a * b := Nat.mod_le _ _
    have h2 : a * b % B / a * a ≤ a * b % B := Nat.div_mul_le_self _ _
    rw [hq', Nat.mul_comm b a] at h2
    omega
theorem mulMag_val (x y : List Nat) (hx : Words x) (hy : Words y) (hlen : x.length < B) :
    val (mulMag x y) = val x * val y := by
  unfold mulMag
  split
  · simp [val]
  · simp [val]
  · rename_i a b
    have := mul11_val a b hx.head hy.head
    rw [val_one, val_one]
    exact this
  · rename_i a _ _
    rw [stripHigh_val, mulWord_val y a hy hx.head]
    rw [val_one, Nat.mul_comm]
  · rename_i b _ _
    rw [stripHigh_val, mulWord_val x b hx hy.head]
    rw [val_one]
  · rw [stripHigh_val, schoolbook_val x y hx hy hlen]

theorem mulWord_words (x : List Nat) (y : Nat) (hx : Words x) (hy : y < B) : Words (mulWord x y) :=
  stripHigh_words (mulWordLoop_spec y hy x 0 hx B_pos).2.1

/-- the integer a sign-magnitude pair stands for -/
def toInt (b : Big) : Int := if b.neg then -((val b.mag : Nat) : Int) else ((val b.mag : Nat) : Int)

theorem toInt_zero_mag (n : Bool) : toInt { neg := n, mag := [] } = 0 := by
  cases n <;> simp [toInt, val]

theorem mul_toInt (a b : Big) (ha : Words a.mag) (hb : Words b.mag) (hlen : a.mag.length < B) :
    toInt (mul a b) = toInt a * toInt b := by
  unfold mul
  by_cases hz : a.mag = [] ∨ b.mag = []
  · simp only [hz, if_true]
    rw [toInt_zero_mag]
    rcases hz with h | h
    · simp [toInt, h, val]
    · simp [toInt, h, val]
  · simp only [hz, if_false]
    unfold toInt
    simp only [mulMag_val a.mag b.mag ha hb hlen]
    cases a.neg <;> cases b.neg <;> simp [Int.natCast_mul, Int.mul_neg, Int.neg_mul]


end BigInt
end Model
end JV
