/-
  JV.Proofs.UbjsonParser — the ubjson_parser model (JV.Model.UbjsonParser) against the UBJSON reference decoder (JV.Spec.Ubjson):
  the number / length / string readers agree with `takeN` / `beVal` / `toSigned` / `Spec.Ubjson.intOf` / `Spec.Ubjson.length`.
-/
import JV.Model.UbjsonParser
import JV.Spec.BinFormats
import JV.Proofs.JsonParser
import JV.Proofs.CborParser
namespace JV.Model.UbjsonParser
open JV Spec.Cbor Spec
set_option linter.unusedSimpArgs false
set_option linter.unusedVariables false

theorem readBE_none {w : Nat} {s : Bytes} (h : takeN w s = none) : readBE w s = .fail (.err .unexpectedEof) := by
  unfold takeN at h; unfold readBE
  split at h <;> simp_all

theorem readBE_some {w : Nat} {s d r : Bytes} (h : takeN w s = some (d, r)) : readBE w s = .ok (beVal d) r := by
  unfold takeN at h; unfold readBE
  split at h
  · simp at h
  · simp only [Option.some.injEq, Prod.mk.injEq] at h
    obtain ⟨h1, h2⟩ := h
    subst h1; subst h2
    simp [*, Model.CborParser.bigToNative_eq_beVal]

theorem readBE_short {w : Nat} {s : Bytes} (h : s.length < w) : readBE w s = .fail (.err .unexpectedEof) := by
  simp [readBE, h]

theorem readSpan_none {n : Nat} {s : Bytes} (h : takeN n s = none) : readSpan n s = .fail (.err .unexpectedEof) := by
  unfold takeN at h; unfold readSpan
  split at h <;> simp_all

theorem readSpan_some {n : Nat} {s d r : Bytes} (h : takeN n s = some (d, r)) : readSpan n s = .ok d r := by
  unfold takeN at h; unfold readSpan
  split at h
  · simp at h
  · simp only [Option.some.injEq, Prod.mk.injEq] at h
    obtain ⟨h1, h2⟩ := h
    subst h1; subst h2
    simp [*]

theorem badUtf8_eq (b : Bytes) : badUtf8 b = !Spec.Rfc8259.validUtf8 b := by
  have h := Model.JsonParser.validate_iff b
  unfold badUtf8
  cases hv : Model.JsonParser.validate b <;> cases hu : Spec.Rfc8259.validUtf8 b <;> simp_all

/-- `big_to_native<int8_t/int16_t/int32_t/int64_t>` is the two's complement reading the specification prescribes -/
theorem asSigned_eq (w : Nat) (hw : 0 < w) (v : Nat) : asSigned w v = toSigned (8 * w) v := by
  unfold asSigned toSigned
  by_cases h : v < 2 ^ (8 * w - 1)
  · have : ¬ v ≥ 2 ^ (8 * w - 1) := by omega
    simp [h, this]
  · have : v ≥ 2 ^ (8 * w - 1) := by omega
    simp [h, this]

/-- the model's `get_length` outcome as a function of the reference's `length`: a length the reference reads is read identically -/
theorem getLength_of_spec {s r : Bytes} {n : Nat} (h : Spec.Ubjson.length s = some (n, r)) : getLength s = .ok n r := by
  cases s with
  | nil => simp [Spec.Ubjson.length] at h
  | cons t s =>
    simp only [Spec.Ubjson.length] at h
    cases hi : Spec.Ubjson.intOf t s with
    | none => simp [hi] at h
    | some p =>
      obtain ⟨i, r1⟩ := p
      simp only [hi] at h
      by_cases hneg : i < 0
      · simp [hneg] at h
      · simp only [hneg, if_false, Option.some.injEq, Prod.mk.injEq] at h
        obtain ⟨h1, h2⟩ := h
        subst h1; subst h2
        unfold Spec.Ubjson.intOf at hi
        unfold getLength
        by_cases e1 : t = 105
        · subst e1
          simp only [if_true, Option.map_eq_some_iff] at hi
          obtain ⟨⟨d, r0⟩, ht, he⟩ := hi
          simp only [Prod.mk.injEq] at he
          obtain ⟨he1, he2⟩ := he
          subst he1; subst he2
          have := asSigned_eq 1 (by omega) (beVal d)
          simp [signedLength, readBE_some ht, this, hneg]
        · by_cases e2 : t = 85
          · subst e2
            simp only [if_true, Option.map_eq_some_iff, (by decide : ¬ (85 : Nat) = 105), if_false] at hi
            obtain ⟨⟨d, r0⟩, ht, he⟩ := hi
            simp only [Prod.mk.injEq] at he
            obtain ⟨he1, he2⟩ := he
            subst he1; subst he2
            simp [readBE_some ht]
          · by_cases e3 : t = 73
            · subst e3
              simp only [if_true, Option.map_eq_some_iff, (by decide : ¬ (73 : Nat) = 105), (by decide : ¬ (73 : Nat) = 85), if_false] at hi
              obtain ⟨⟨d, r0⟩, ht, he⟩ := hi
              simp only [Prod.mk.injEq] at he
              obtain ⟨he1, he2⟩ := he
              subst he1; subst he2
              have := asSigned_eq 2 (by omega) (beVal d)
              simp [signedLength, readBE_some ht, this, hneg]
            · by_cases e4 : t = 108
              · subst e4
                simp only [if_true, Option.map_eq_some_iff, (by decide : ¬ (108 : Nat) = 105), (by decide : ¬ (108 : Nat) = 85),
                  (by decide : ¬ (108 : Nat) = 73), if_false] at hi
                obtain ⟨⟨d, r0⟩, ht, he⟩ := hi
                simp only [Prod.mk.injEq] at he
                obtain ⟨he1, he2⟩ := he
                subst he1; subst he2
                have := asSigned_eq 4 (by omega) (beVal d)
                simp [signedLength, readBE_some ht, this, hneg]
              · by_cases e5 : t = 76
                · subst e5
                  simp only [if_true, Option.map_eq_some_iff, (by decide : ¬ (76 : Nat) = 105), (by decide : ¬ (76 : Nat) = 85),
                    (by decide : ¬ (76 : Nat) = 73), (by decide : ¬ (76 : Nat) = 108), if_false] at hi
                  obtain ⟨⟨d, r0⟩, ht, he⟩ := hi
                  simp only [Prod.mk.injEq] at he
                  obtain ⟨he1, he2⟩ := he
                  subst he1; subst he2
                  have := asSigned_eq 8 (by omega) (beVal d)
                  simp [signedLength, readBE_some ht, this, hneg]
                · simp [e1, e2, e3, e4, e5] at hi

end JV.Model.UbjsonParser
