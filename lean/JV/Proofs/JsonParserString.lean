/-
  JV.Proofs.JsonParserString — the string sub-automaton of the parser model (`stepString`, json_parser.hpp:1951-2326): `\uXXXX`
  escapes and surrogate pairs are decoded to the UTF-8 of the scalar value the RFC 8259 reference assigns them.
-/
import JV.Proofs.JsonParser
namespace JV
namespace Model
namespace JsonParser

theorem hexVal_eq (c : Nat) : hexVal c = Spec.Rfc8259.hexVal c := rfl

theorem feedChar_string (cfg : Cfg) (s : St) (c : Nat) (hst : s.st = .string) (he : s.err = none) :
    feedChar cfg s c = stepString s c := by
  simp [feedChar, he, stepChar, hst]

theorem convert_eq_utf8Encode (u : Nat) (h : u < 0xD800 ∨ (0xE000 ≤ u ∧ u ≤ 0x10FFFF)) : convert u = Spec.Rfc8259.utf8Encode u := by
  unfold convert Spec.Rfc8259.utf8Encode
  have : ¬ (0xD800 ≤ u ∧ u ≤ 0xDFFF) := by omega
  simp only [this, if_false]
  repeat' split
  all_goals (first | rfl | omega)

/-- four hex digits after `\u`: the escape state machine accumulates exactly the code unit the reference reads -/
theorem feed_u4 (cfg : Cfg) (s : St) (a b c d u : Nat) (hst : s.st = .string) (hss : s.ss = .u1) (he : s.err = none)
    (hx : Spec.Rfc8259.hex4 [a, b, c, d] = some (u, [])) :
    feed cfg s [a, b, c, d] =
      (if 0xD800 ≤ u ∧ u ≤ 0xDBFF then { s with cp := u, ss := .pair1 }
       else { s with cp := u, buf := s.buf ++ convert u, ss := .text }) := by
  simp only [Spec.Rfc8259.hex4] at hx
  cases ha : Spec.Rfc8259.hexVal a <;> cases hb : Spec.Rfc8259.hexVal b <;> cases hc : Spec.Rfc8259.hexVal c <;>
    cases hd : Spec.Rfc8259.hexVal d <;> simp [ha, hb, hc, hd] at hx
  subst hx
  simp only [feed, List.foldl_cons, List.foldl_nil]
  rw [feedChar_string cfg s a hst he]
  simp only [stepString, hss, hexStep, hexVal_eq, ha]
  rw [feedChar_string cfg _ b (by simp [hst]) (by simp [he])]
  simp only [stepString, hexStep, hexVal_eq, hb]
  rw [feedChar_string cfg _ c (by simp [hst]) (by simp [he])]
  simp only [stepString, hexStep, hexVal_eq, hc]
  rw [feedChar_string cfg _ d (by simp [hst]) (by simp [he])]
  simp only [stepString, hexStep, hexVal_eq, hd]
  simp


/-- the low half of a pair: `\uXXXX` after a high surrogate -/
theorem feed_pair_low (cfg : Cfg) (s : St) (a b c d lo : Nat) (hst : s.st = .string) (hss : s.ss = .pair1) (he : s.err = none)
    (hx : Spec.Rfc8259.hex4 [a, b, c, d] = some (lo, [])) :
    feed cfg s [92, 117, a, b, c, d] =
      { s with cp2 := lo, buf := s.buf ++ convert (0x10000 + (s.cp % 1024) * 1024 + lo % 1024), ss := .text } := by
  simp only [Spec.Rfc8259.hex4] at hx
  cases ha : Spec.Rfc8259.hexVal a <;> cases hb : Spec.Rfc8259.hexVal b <;> cases hc : Spec.Rfc8259.hexVal c <;>
    cases hd : Spec.Rfc8259.hexVal d <;> simp [ha, hb, hc, hd] at hx
  subst hx
  simp only [feed, List.foldl_cons, List.foldl_nil]
  rw [feedChar_string cfg s 92 hst he]
  simp only [stepString, hss, if_true]
  rw [feedChar_string cfg _ 117 (by simp [hst]) (by simp [he])]
  simp only [stepString, if_true]
  rw [feedChar_string cfg _ a (by simp [hst]) (by simp [he])]
  simp only [stepString, hexStep2, hexVal_eq, ha]
  rw [feedChar_string cfg _ b (by simp [hst]) (by simp [he])]
  simp only [stepString, hexStep2, hexVal_eq, hb]
  rw [feedChar_string cfg _ c (by simp [hst]) (by simp [he])]
  simp only [stepString, hexStep2, hexVal_eq, hc]
  rw [feedChar_string cfg _ d (by simp [hst]) (by simp [he])]
  simp only [stepString, hexStep2, hexVal_eq, hd]
  simp

theorem feed_escape_u (cfg : Cfg) (s : St) (hst : s.st = .string) (hss : s.ss = .escape) (he : s.err = none) :
    feed cfg s [117] = { s with cp := 0, ss := .u1 } := by
  simp only [feed, List.foldl_cons, List.foldl_nil]
  rw [feedChar_string cfg s 117 hst he]
  simp [stepString, hss]


/-- `\uXXXX` denoting a scalar value (not a surrogate) is decoded to that scalar's UTF-8 -/
theorem escape_u_scalar (cfg : Cfg) (s : St) (a b c d u : Nat) (hst : s.st = .string) (hss : s.ss = .escape) (he : s.err = none)
    (hx : Spec.Rfc8259.hex4 [a, b, c, d] = some (u, [])) (hu : u < 0xD800 ∨ 0xE000 ≤ u) :
    feed cfg s [117, a, b, c, d] = { s with cp := u, buf := s.buf ++ Spec.Rfc8259.utf8Encode u, ss := .text } := by
  have hlt : u < 0x10000 := by
    simp only [Spec.Rfc8259.hex4] at hx
    cases ha : Spec.Rfc8259.hexVal a <;> cases hb : Spec.Rfc8259.hexVal b <;> cases hc : Spec.Rfc8259.hexVal c <;>
      cases hd : Spec.Rfc8259.hexVal d <;> simp [ha, hb, hc, hd] at hx
    rename_i w x y z
    have hw : w < 16 := by unfold Spec.Rfc8259.hexVal at ha; (repeat' split at ha) <;> simp_all <;> omega
    have hx' : x < 16 := by unfold Spec.Rfc8259.hexVal at hb; (repeat' split at hb) <;> simp_all <;> omega
    have hy : y < 16 := by unfold Spec.Rfc8259.hexVal at hc; (repeat' split at hc) <;> simp_all <;> omega
    have hz : z < 16 := by unfold Spec.Rfc8259.hexVal at hd; (repeat' split at hd) <;> simp_all <;> omega
    omega
  have h1 : feed cfg s (117 :: [a, b, c, d]) = feed cfg (feed cfg s [117]) [a, b, c, d] := by
    simp [feed]
  show feed cfg s (117 :: [a, b, c, d]) = _
  rw [h1, feed_escape_u cfg s hst hss he, feed_u4 cfg _ a b c d u (by simp [hst]) rfl (by simp [he]) hx]
  have hns : ¬ (0xD800 ≤ u ∧ u ≤ 0xDBFF) := by omega
  simp only [hns, if_false]
  rw [convert_eq_utf8Encode u (by omega)]

/-- a high surrogate escape followed by a low surrogate escape is decoded to the UTF-8 of the one scalar value the pair denotes -/
theorem escape_u_pair (cfg : Cfg) (s : St) (a b c d e f g h hi lo : Nat) (hst : s.st = .string) (hss : s.ss = .escape) (he : s.err = none)
    (hx : Spec.Rfc8259.hex4 [a, b, c, d] = some (hi, [])) (hy : Spec.Rfc8259.hex4 [e, f, g, h] = some (lo, []))
    (hhi : 0xD800 ≤ hi ∧ hi ≤ 0xDBFF) (hlo : 0xDC00 ≤ lo ∧ lo ≤ 0xDFFF) :
    feed cfg s [117, a, b, c, d, 92, 117, e, f, g, h] =
      { s with cp := hi, cp2 := lo, buf := s.buf ++ Spec.Rfc8259.utf8Encode (0x10000 + (hi - 0xD800) * 1024 + (lo - 0xDC00)), ss := .text } := by
  have h1 : feed cfg s ([117] ++ ([a, b, c, d] ++ [92, 117, e, f, g, h])) =
      feed cfg (feed cfg (feed cfg s [117]) [a, b, c, d]) [92, 117, e, f, g, h] := by
    rw [feed_append, feed_append]
  show feed cfg s ([117] ++ ([a, b, c, d] ++ [92, 117, e, f, g, h])) = _
  rw [h1, feed_escape_u cfg s hst hss he, feed_u4 cfg _ a b c d hi (by simp [hst]) rfl (by simp [he]) hx]
  simp only [hhi, and_self, if_true]
  rw [feed_pair_low cfg _ e f g h lo (by simp [hst]) rfl (by simp [he]) hy]
  have e1 : hi % 1024 = hi - 0xD800 := by omega
  have e2 : lo % 1024 = lo - 0xDC00 := by omega
  simp only [e1, e2]
  rw [convert_eq_utf8Encode _ (by omega)]


end JsonParser
end Model
end JV
