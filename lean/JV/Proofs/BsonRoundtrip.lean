/-
  JV.Proofs.BsonRoundtrip — what the BSON encoder model writes, the reference BSON decoder (JV.Spec.Bson, the one the real decoder
  is judged by in C07) reads back: little-endian fields, C-string names, the back-patched document length, array items under the
  names "0", "1", …, the int32 / int64 choice, the binary subtype.
-/
import JV.Model.Bson
import JV.Spec.BinFormats
namespace JV.Model.Bson
open Spec Spec.Bson
open Spec.Cbor (BV Res)
open Cbor (CV)

theorem length_leBytes : ∀ (w n : Nat), (leBytes w n).length = w
  | 0, _ => rfl
  | w + 1, n => by simp [leBytes, length_leBytes w]

theorem leVal_leBytes4 (n : Nat) (h : n < 2 ^ 32) : leVal (leBytes 4 n) = n := by
  simp [leBytes, leVal]; omega

theorem leVal_leBytes8 (n : Nat) (h : n < 2 ^ 64) : leVal (leBytes 8 n) = n := by
  simp [leBytes, leVal]; omega

theorem takeN_append (d r : Bytes) : takeN d.length (d ++ r) = some (d, r) := by
  simp [takeN]

theorem takeN_le (w n : Nat) (rest : Bytes) : takeN w (leBytes w n ++ rest) = some (leBytes w n, rest) := by
  have := takeN_append (leBytes w n) rest
  rwa [length_leBytes] at this

theorem toSigned32 (i : Int) (h1 : -2147483648 ≤ i) (h2 : i ≤ 2147483647) : toSigned 32 (i % 4294967296).toNat = i := by
  simp [toSigned]; split <;> omega

theorem toSigned64 (i : Int) (h1 : -9223372036854775808 ≤ i) (h2 : i < 9223372036854775808) :
    toSigned 64 (i % 18446744073709551616).toNat = i := by
  simp [toSigned]; split <;> omega

theorem cstring_name : ∀ (name r : Bytes), 0 ∉ name → cstring (name ++ 0 :: r) = some (name, r)
  | [], r, _ => by simp [cstring]
  | c :: cs, r, h => by
    have hc : c ≠ 0 := by intro e; apply h; simp [e]
    have hcs : 0 ∉ cs := by intro e; apply h; simp [e]
    have ih := cstring_name cs r hcs
    cases c with
    | zero => exact absurd rfl hc
    | succ c => simp [cstring, ih]

theorem validUtf8_ascii : ∀ (s : Bytes), (∀ c ∈ s, c < 128) → Rfc8259.validUtf8 s = true
  | [], _ => by simp [Rfc8259.validUtf8]
  | c :: cs, h => by
    have hc : c < 128 := h c (by simp)
    have ih := validUtf8_ascii cs (fun d hd => h d (by simp [hd]))
    rw [Rfc8259.validUtf8.eq_def]
    simp [hc, ih]

theorem decDigits_range : ∀ (f n : Nat), ∀ c ∈ decDigits f n, 48 ≤ c ∧ c ≤ 57
  | 0, n => by simp [decDigits]; omega
  | f + 1, n => by
    intro c hc
    unfold decDigits at hc
    split at hc
    · simp at hc; omega
    · simp at hc
      rcases hc with hc | hc
      · exact decDigits_range f _ c hc
      · omega

theorem el_dbl (fuel : Nat) (name tl : Bytes) (ms : List (Bytes × BV)) (b : Nat) (hb : b < 2 ^ 64)
    (h0 : 0 ∉ name) (hu : Rfc8259.validUtf8 name = true) (hr : elements fuel tl = .ok ms []) :
    elements (fuel + 1) (0x01 :: (name ++ 0 :: (leBytes 8 b ++ tl))) = .ok ((name, .dbl b "") :: ms) [] := by
  simp [elements, cstring_name name _ h0, hu, takeN_le, leVal_leBytes8 b hb, hr]

theorem el_null (fuel : Nat) (name tl : Bytes) (ms : List (Bytes × BV))
    (h0 : 0 ∉ name) (hu : Rfc8259.validUtf8 name = true) (hr : elements fuel tl = .ok ms []) :
    elements (fuel + 1) (0x0A :: (name ++ 0 :: tl)) = .ok ((name, .null) :: ms) [] := by
  simp [elements, cstring_name name _ h0, hu, hr]

theorem el_bool (fuel : Nat) (name tl : Bytes) (ms : List (Bytes × BV)) (b : Bool)
    (h0 : 0 ∉ name) (hu : Rfc8259.validUtf8 name = true) (hr : elements fuel tl = .ok ms []) :
    elements (fuel + 1) (0x08 :: (name ++ 0 :: ((if b then 1 else 0) :: tl))) = .ok ((name, .bool b) :: ms) [] := by
  cases b <;> simp [elements, cstring_name name _ h0, hu, hr]

theorem el_int32 (fuel : Nat) (name tl : Bytes) (ms : List (Bytes × BV)) (i : Int)
    (h1 : -2147483648 ≤ i) (h2 : i ≤ 2147483647)
    (h0 : 0 ∉ name) (hu : Rfc8259.validUtf8 name = true) (hr : elements fuel tl = .ok ms []) :
    elements (fuel + 1) (0x10 :: (name ++ 0 :: (int32Bytes i ++ tl))) = .ok ((name, .int i "") :: ms) [] := by
  have hb : (i % 4294967296).toNat < 2 ^ 32 := by omega
  simp [elements, int32Bytes, cstring_name name _ h0, hu, takeN_le, leVal_leBytes4 _ hb, toSigned32 i h1 h2, hr]

theorem el_int64 (fuel : Nat) (name tl : Bytes) (ms : List (Bytes × BV)) (i : Int)
    (h1 : -9223372036854775808 ≤ i) (h2 : i < 9223372036854775808)
    (h0 : 0 ∉ name) (hu : Rfc8259.validUtf8 name = true) (hr : elements fuel tl = .ok ms []) :
    elements (fuel + 1) (0x12 :: (name ++ 0 :: (int64Bytes i ++ tl))) = .ok ((name, .int i "") :: ms) [] := by
  have hb : (i % 18446744073709551616).toNat < 2 ^ 64 := by omega
  simp [elements, int64Bytes, cstring_name name _ h0, hu, takeN_le, leVal_leBytes8 _ hb, toSigned64 i h1 h2, hr]

theorem el_str (fuel : Nat) (name tl : Bytes) (ms : List (Bytes × BV)) (s : Bytes)
    (hl : s.length + 1 < 2 ^ 32) (hv : Rfc8259.validUtf8 s = true)
    (h0 : 0 ∉ name) (hu : Rfc8259.validUtf8 name = true) (hr : elements fuel tl = .ok ms []) :
    elements (fuel + 1) (0x02 :: (name ++ 0 :: (leBytes 4 (s.length + 1) ++ s ++ [0] ++ tl))) = .ok ((name, .str s "") :: ms) [] := by
  have ht : takeN (s.length + 1) (s ++ 0 :: tl) = some (s ++ [0], tl) := by
    have := takeN_append (s ++ [0]) tl
    simpa using this
  simp [elements, cstring_name name _ h0, hu, takeN_le, leVal_leBytes4 _ hl, ht, hv, hr]

theorem el_bytes (fuel : Nat) (name tl : Bytes) (ms : List (Bytes × BV)) (b : Bytes)
    (hl : b.length < 2 ^ 31)
    (h0 : 0 ∉ name) (hu : Rfc8259.validUtf8 name = true) (hr : elements fuel tl = .ok ms []) :
    elements (fuel + 1) (0x05 :: (name ++ 0 :: (leBytes 4 b.length ++ 0x80 :: b ++ tl))) = .ok ((name, .bytes b "ext") :: ms) [] := by
  have hl' : b.length < 2 ^ 32 := by omega
  have hn : ¬ (2147483648 ≤ b.length) := by omega
  simp [elements, cstring_name name _ h0, hu, takeN_le, leVal_leBytes4 _ hl', takeN_append, hn, hr]

theorem el_doc (fuel : Nat) (name tl d : Bytes) (ms dm : List (Bytes × BV))
    (hd : document fuel (d ++ tl) = .ok dm tl)
    (h0 : 0 ∉ name) (hu : Rfc8259.validUtf8 name = true) (hr : elements fuel tl = .ok ms []) :
    elements (fuel + 1) (0x03 :: (name ++ 0 :: (d ++ tl))) = .ok ((name, .map dm) :: ms) [] := by
  simp [elements, cstring_name name _ h0, hu, hd, hr]

theorem el_arr (fuel : Nat) (name tl d : Bytes) (ms dm : List (Bytes × BV))
    (hd : document fuel (d ++ tl) = .ok dm tl)
    (h0 : 0 ∉ name) (hu : Rfc8259.validUtf8 name = true) (hr : elements fuel tl = .ok ms []) :
    elements (fuel + 1) (0x04 :: (name ++ 0 :: (d ++ tl))) = .ok ((name, .arr (dm.map (·.2))) :: ms) [] := by
  simp [elements, cstring_name name _ h0, hu, hd, hr]

theorem document_doc (fuel : Nat) (body rest : Bytes) (ms : List (Bytes × BV)) (hlen : body.length + 5 < 2 ^ 32)
    (he : elements fuel (body ++ [0]) = .ok ms []) :
    document (fuel + 1) (doc body ++ rest) = .ok ms rest := by
  have h1 : doc body ++ rest = leBytes 4 (body.length + 5) ++ ((body ++ [0]) ++ rest) := by simp [doc]
  have h2 : (body.length + 5 - 4) = (body ++ [0]).length := by simp
  rw [h1]
  simp only [document, takeN_le, leVal_leBytes4 _ hlen]
  have h3 : ¬ (body.length + 5 < 5 ∨ (leBytes 4 (body.length + 5) ++ ((body ++ [0]) ++ rest)).length < body.length + 5) := by
    simp [length_leBytes]; omega
  rw [if_neg h3, h2, List.take_left, List.drop_left, he]

/-! ### the documented mapping -/
mutual
  /-- what a BSON reader delivers for an element value: everything itself, except that a byte string carries the "ext" mark
      (it was written with the user-defined binary subtype 0x80) -/
  def toBVb : CV → BV
    | .null => .null
    | .bool b => .bool b
    | .int i => .int i ""
    | .dbl b => .dbl b ""
    | .str s => .str s ""
    | .bytes b => .bytes b "ext"
    | .arr xs => .arr (toBVbList xs)
    | .map ms => .map (toBVbMembers ms)
  def toBVbList : List CV → List BV
    | [] => []
    | x :: xs => toBVb x :: toBVbList xs
  def toBVbMembers : List (Bytes × CV) → List (Bytes × BV)
    | [] => []
    | (k, x) :: ms => (k, toBVb x) :: toBVbMembers ms
end

/-- the elements of an array as the document they are written as: names "i", "i+1", … -/
def indexed : Nat → List CV → List (Bytes × BV)
  | _, [] => []
  | i, x :: xs => (indexName i, toBVb x) :: indexed (i + 1) xs

theorem indexed_values : ∀ (i : Nat) (xs : List CV), (indexed i xs).map (·.2) = toBVbList xs
  | _, [] => rfl
  | i, x :: xs => by simp [indexed, toBVbList, indexed_values (i + 1) xs]

/-- the root: a document as itself; an array as the document keyed by its indices -/
def toBVRoot : CV → BV
  | .arr xs => .map (indexed 0 xs)
  | v => toBVb v

/-! ### the domain -/
/-- an element name the format can carry: no 0x00 inside (it is a C string), UTF-8 -/
def NameOK (k : Bytes) : Prop := 0 ∉ k ∧ Rfc8259.validUtf8 k = true

mutual
  def OKv : CV → Prop
    | .int i => -(2 ^ 63 : Int) ≤ i ∧ i < 2 ^ 63
    | .dbl b => b < 2 ^ 64
    | .str s => Rfc8259.validUtf8 s = true
    | .arr xs => OKvList xs
    | .map ms => OKvMembers ms
    | _ => True
  def OKvList : List CV → Prop
    | [] => True
    | x :: xs => OKv x ∧ OKvList xs
  def OKvMembers : List (Bytes × CV) → Prop
    | [] => True
    | (k, x) :: ms => NameOK k ∧ OKv x ∧ OKvMembers ms
end

/-- BSON's domain on the core: the root is a container; element names without 0x00 and in UTF-8; integers in [-2^63, 2^63);
    doubles as 64-bit patterns; UTF-8 text; the whole document shorter than 2^31 bytes (its length is an int32 - and so, a fortiori,
    is every nested document, string and byte string); nesting within the encoder's default max_nesting_depth -/
def OKb (v : CV) : Prop := (encode v).isSome = true ∧ OKv v ∧ (value v).length < 2 ^ 31 ∧ depth v ≤ 1024

theorem indexName_ok (i : Nat) : NameOK (indexName i) := by
  have h := decDigits_range i i
  refine ⟨fun h0 => ?_, validUtf8_ascii _ (fun c hc => by have := h c hc; omega)⟩
  have := h 0 h0
  omega

/-! ### fuel -/
mutual
  /-- the fuel `document` needs for a container value (0: not a container) -/
  def needV : CV → Nat
    | .arr xs => 1 + needL xs
    | .map ms => 1 + needM ms
    | _ => 0
  /-- the fuel `elements` needs -/
  def needL : List CV → Nat
    | [] => 1
    | x :: xs => 1 + max (needV x) (needL xs)
  def needM : List (Bytes × CV) → Nat
    | [] => 1
    | (_, x) :: ms => 1 + max (needV x) (needM ms)
end

theorem length_doc (body : Bytes) : (doc body).length = body.length + 5 := by
  simp [doc, length_leBytes]; omega

/-! ### the theorem -/
mutual
  theorem value_el : ∀ (x : CV) (name tl : Bytes) (ms : List (Bytes × BV)) (fuel : Nat),
      OKv x → NameOK name → (value x).length < 2 ^ 31 → needV x ≤ fuel → elements fuel tl = .ok ms [] →
      elements (fuel + 1) (typeCode x :: (name ++ 0 :: (value x ++ tl))) = .ok ((name, toBVb x) :: ms) []
    | .null, name, tl, ms, fuel, _, hn, _, _, hr => by
      simpa [typeCode, value, toBVb] using el_null fuel name tl ms hn.1 hn.2 hr
    | .bool b, name, tl, ms, fuel, _, hn, _, _, hr => by
      simpa [typeCode, value, toBVb] using el_bool fuel name tl ms b hn.1 hn.2 hr
    | .int i, name, tl, ms, fuel, h, hn, _, _, hr => by
      have h' : -(2 ^ 63 : Int) ≤ i ∧ i < 2 ^ 63 := by simpa [OKv] using h
      by_cases hf : fitsInt32 i = true
      · have hf' : -2147483648 ≤ i ∧ i ≤ 2147483647 := by simpa [fitsInt32] using hf
        simpa [typeCode, value, toBVb, hf] using el_int32 fuel name tl ms i hf'.1 hf'.2 hn.1 hn.2 hr
      · have hf' : fitsInt32 i = false := by simpa using hf
        simpa [typeCode, value, toBVb, hf'] using el_int64 fuel name tl ms i (by omega) (by omega) hn.1 hn.2 hr
    | .dbl b, name, tl, ms, fuel, h, hn, _, _, hr => by
      have h' : b < 2 ^ 64 := by simpa [OKv] using h
      simpa [typeCode, value, toBVb] using el_dbl fuel name tl ms b h' hn.1 hn.2 hr
    | .str s, name, tl, ms, fuel, h, hn, hl, _, hr => by
      have h' : Rfc8259.validUtf8 s = true := by simpa [OKv] using h
      have hl' : s.length + 1 < 2 ^ 32 := by simp [value, length_leBytes] at hl; omega
      simpa [typeCode, value, toBVb] using el_str fuel name tl ms s hl' h' hn.1 hn.2 hr
    | .bytes b, name, tl, ms, fuel, _, hn, hl, _, hr => by
      have hl' : b.length < 2 ^ 31 := by simp [value, length_leBytes] at hl; omega
      simpa [typeCode, value, toBVb] using el_bytes fuel name tl ms b hl' hn.1 hn.2 hr
    | .arr xs, name, tl, ms, fuel, h, hn, hl, hf, hr => by
      obtain ⟨f, rfl⟩ : ∃ f, fuel = f + 1 := ⟨fuel - 1, by simp [needV] at hf; omega⟩
      have hl' : (arrBody 0 xs).length + 5 < 2 ^ 31 := by simpa [value, length_doc] using hl
      have ih := arr_els xs 0 f (by simpa [OKv] using h) (by omega) (by simp [needV] at hf; omega)
      have hd := document_doc f (arrBody 0 xs) tl _ (by omega) ih
      have := el_arr (f + 1) name tl (doc (arrBody 0 xs)) ms _ hd hn.1 hn.2 hr
      simpa [typeCode, value, toBVb, indexed_values] using this
    | .map ks, name, tl, ms, fuel, h, hn, hl, hf, hr => by
      obtain ⟨f, rfl⟩ : ∃ f, fuel = f + 1 := ⟨fuel - 1, by simp [needV] at hf; omega⟩
      have hl' : (mapBody ks).length + 5 < 2 ^ 31 := by simpa [value, length_doc] using hl
      have ih := map_els ks f (by simpa [OKv] using h) (by omega) (by simp [needV] at hf; omega)
      have hd := document_doc f (mapBody ks) tl _ (by omega) ih
      have := el_doc (f + 1) name tl (doc (mapBody ks)) ms _ hd hn.1 hn.2 hr
      simpa [typeCode, value, toBVb] using this
  theorem arr_els : ∀ (xs : List CV) (i fuel : Nat), OKvList xs → (arrBody i xs).length < 2 ^ 31 → needL xs ≤ fuel →
      elements fuel (arrBody i xs ++ [0]) = .ok (indexed i xs) []
    | [], i, fuel, _, _, hf => by
      obtain ⟨f, rfl⟩ : ∃ f, fuel = f + 1 := ⟨fuel - 1, by simp [needL] at hf; omega⟩
      simp [arrBody, elements, indexed]
    | x :: xs, i, fuel, h, hl, hf => by
      obtain ⟨f, rfl⟩ : ∃ f, fuel = f + 1 := ⟨fuel - 1, by simp [needL] at hf; omega⟩
      have hl' : (value x).length + (arrBody (i + 1) xs).length < 2 ^ 31 := by
        simp [arrBody] at hl; omega
      have ih := arr_els xs (i + 1) f h.2 (by omega) (by simp [needL] at hf; omega)
      have := value_el x (indexName i) (arrBody (i + 1) xs ++ [0]) _ f h.1 (indexName_ok i) (by omega)
        (by simp [needL] at hf; omega) ih
      simpa [arrBody, indexed] using this
  theorem map_els : ∀ (ks : List (Bytes × CV)) (fuel : Nat), OKvMembers ks → (mapBody ks).length < 2 ^ 31 → needM ks ≤ fuel →
      elements fuel (mapBody ks ++ [0]) = .ok (toBVbMembers ks) []
    | [], fuel, _, _, hf => by
      obtain ⟨f, rfl⟩ : ∃ f, fuel = f + 1 := ⟨fuel - 1, by simp [needM] at hf; omega⟩
      simp [mapBody, elements, toBVbMembers]
    | (k, x) :: ks, fuel, h, hl, hf => by
      obtain ⟨f, rfl⟩ : ∃ f, fuel = f + 1 := ⟨fuel - 1, by simp [needM] at hf; omega⟩
      have hl' : (value x).length + (mapBody ks).length < 2 ^ 31 := by
        simp [mapBody] at hl; omega
      have ih := map_els ks f h.2.2 (by omega) (by simp [needM] at hf; omega)
      have := value_el x k (mapBody ks ++ [0]) _ f h.2.1 h.1 (by omega)
        (by simp [needM] at hf; omega) ih
      simpa [mapBody, toBVbMembers] using this
end

/-- encode, then the reference decoder with any fuel ≥ `needV v`: the documented image and the untouched rest -/
theorem enc_dec (v : CV) (hv : OKb v) (rest : Bytes) (fuel : Nat) (hf : needV v ≤ fuel) :
    ∃ bytes, encode v = some bytes ∧ decodeWith fuel (bytes ++ rest) = .ok (toBVRoot v) rest := by
  obtain ⟨hr, hk, hl, _⟩ := hv
  cases v with
  | arr xs =>
    obtain ⟨f, rfl⟩ : ∃ f, fuel = f + 1 := ⟨fuel - 1, by simp [needV] at hf; omega⟩
    have hl' : (arrBody 0 xs).length + 5 < 2 ^ 31 := by simpa [value, length_doc] using hl
    have ih := arr_els xs 0 f (by simpa [OKv] using hk) (by omega) (by simp [needV] at hf; omega)
    exact ⟨_, rfl, by simp [decodeWith, document_doc f _ rest _ (by omega) ih, toBVRoot]⟩
  | map ks =>
    obtain ⟨f, rfl⟩ : ∃ f, fuel = f + 1 := ⟨fuel - 1, by simp [needV] at hf; omega⟩
    have hl' : (mapBody ks).length + 5 < 2 ^ 31 := by simpa [value, length_doc] using hl
    have ih := map_els ks f (by simpa [OKv] using hk) (by omega) (by simp [needV] at hf; omega)
    exact ⟨_, rfl, by simp [decodeWith, document_doc f _ rest _ (by omega) ih, toBVRoot, toBVb]⟩
  | _ => simp [encode] at hr

/-! ### the entry point's own fuel (2·length + 2) is enough -/
mutual
  theorem needV_le : ∀ (x : CV), needV x ≤ (value x).length + 1
    | .null => by simp [needV]
    | .bool _ => by simp [needV]
    | .int _ => by simp [needV]
    | .dbl _ => by simp [needV]
    | .str _ => by simp [needV]
    | .bytes _ => by simp [needV]
    | .arr xs => by
      have := needL_le xs 0
      simp [needV, value, length_doc]; omega
    | .map ks => by
      have := needM_le ks
      simp [needV, value, length_doc]; omega
  theorem needL_le : ∀ (xs : List CV) (i : Nat), needL xs ≤ (arrBody i xs).length + 1
    | [], _ => by simp [needL]
    | x :: xs, i => by
      have h1 := needV_le x
      have h2 := needL_le xs (i + 1)
      simp [needL, arrBody]; omega
  theorem needM_le : ∀ (ks : List (Bytes × CV)), needM ks ≤ (mapBody ks).length + 1
    | [] => by simp [needM]
    | (k, x) :: ks => by
      have h1 := needV_le x
      have h2 := needM_le ks
      simp [needM, mapBody]; omega
end

theorem encode_eq_value (v : CV) (b : Bytes) (h : encode v = some b) : b = value v := by
  cases v <;> simp [encode, value] at h ⊢ <;> exact h.symm

/-- … so `Spec.Bson.decode` itself (the function the real decoder is judged by) reads the encoder's bytes back -/
theorem decode_encode (v : CV) (hv : OKb v) (rest : Bytes) :
    ∃ bytes, encode v = some bytes ∧ decode (bytes ++ rest) = .ok (toBVRoot v) rest := by
  obtain ⟨b, hb⟩ : ∃ b, encode v = some b := Option.isSome_iff_exists.mp hv.1
  have e := encode_eq_value v b hb
  have hf : needV v ≤ 2 * (b ++ rest).length + 2 := by
    have := needV_le v
    rw [e]; simp; omega
  obtain ⟨b', hb', hd⟩ := enc_dec v hv rest _ hf
  rw [hb] at hb'; cases hb'
  exact ⟨b, hb, hd⟩

/-! ### `OKb` lies inside what the real encoder accepts -/
mutual
  theorem scalarsOK_of_OKv : ∀ (x : CV), OKv x → scalarsOK x = true
    | .null, _ => rfl
    | .bool _, _ => rfl
    | .int i, h => by
      have h' : -(2 ^ 63 : Int) ≤ i ∧ i < 2 ^ 63 := by simpa [OKv] using h
      simp [scalarsOK]; omega
    | .dbl _, _ => rfl
    | .str s, h => by simpa [OKv, scalarsOK] using h
    | .bytes _, _ => rfl
    | .arr xs, h => by simpa [scalarsOK] using scalarsOKList_of xs (by simpa [OKv] using h)
    | .map ks, h => by simpa [scalarsOK] using scalarsOKMembers_of ks (by simpa [OKv] using h)
  theorem scalarsOKList_of : ∀ (xs : List CV), OKvList xs → scalarsOKList xs = true
    | [], _ => rfl
    | x :: xs, h => by simp [scalarsOKList, scalarsOK_of_OKv x h.1, scalarsOKList_of xs h.2]
  theorem scalarsOKMembers_of : ∀ (ks : List (Bytes × CV)), OKvMembers ks → scalarsOKMembers ks = true
    | [], _ => rfl
    | (k, x) :: ks, h => by
      have hn : nameOK k = true := by
        have := h.1
        simp only [NameOK] at this
        simp [nameOK, this.1, this.2]
      simp [scalarsOKMembers, hn, scalarsOK_of_OKv x h.2.1, scalarsOKMembers_of ks h.2.2]
end

theorem representable_of_OKb (v : CV) (hv : OKb v) : representable v = true := by
  simp [representable, hv.1, scalarsOK_of_OKv v hv.2.1, hv.2.2.2]

end JV.Model.Bson
