/-
  JV.Proofs.PatchUndoA — pointer-level inversion lemmas for the undo log of `apply_patch` (C15).

  `parentOf` is the container the last token of a location acts on (the navigation part of the
  mutable `resolve`).  Every modification is `finalStep` on that container, so an undo entry
  inverts the modification as soon as it inverts the `finalStep` (`modifyAt_undo_lift`).

  Three inversions are needed by the unwinder:
    * replace  ↦ replace with the original value      (exact, both flavours, no invariant)
    * add_if_absent ↦ remove                          (exact, both flavours, no invariant;
                                                       the location must be "definite": no `-` on an array)
    * remove   ↦ add of the removed value             (exact for sorted objects under `Sorted`;
                                                       for insertion-ordered objects the member
                                                       comes back at the END — see PatchUndoC)
-/
import JV.Proofs.PointerOps
import JV.Proofs.JValLemmas
import JV.Proofs.Dom
namespace JV
namespace Model
namespace Pointer
open Assoc

/-! ### list / association-list facts -/

theorem natDigits_ne_dash (n : Nat) : natDigits n ≠ [45] := by
  intro h
  unfold natDigits at h
  have hall : ∀ c ∈ Nat.toDigits 10 n, c.isDigit := fun c hc => Nat.isDigit_of_mem_toDigits (by decide) (by decide) hc
  cases hd : Nat.toDigits 10 n with
  | nil => rw [hd] at h; simp at h
  | cons c cs =>
    rw [hd] at h hall
    simp at h
    have h3 := hall c (by simp)
    simp [Char.isDigit] at h3
    have h1 : c.val.toNat = 45 := h.1
    have h2 : (48 : UInt32).toNat ≤ c.val.toNat := UInt32.le_iff_toNat_le.1 h3.1
    simp at h2
    omega

theorem replaceVal_replaceVal (k : Bytes) (a b : JVal) : ∀ ms : List (Bytes × JVal),
    replaceVal k a (replaceVal k b ms) = replaceVal k a ms
  | [] => rfl
  | (k', v') :: ms => by
    by_cases e : k' = k
    · simp [replaceVal, e]
    · simp [replaceVal, e, replaceVal_replaceVal k a b ms]

theorem eraseIdx_insertAt (v : JVal) : ∀ (xs : List JVal) (i : Nat), i ≤ xs.length → (insertAt i v xs).eraseIdx i = xs
  | xs, 0, _ => by simp [insertAt]
  | [], i + 1, h => by simp at h
  | x :: xs, i + 1, h => by
    have := eraseIdx_insertAt v xs i (by simpa using h)
    simp only [insertAt] at this ⊢
    simp [this]

theorem eraseIdx_append_last (v : JVal) (xs : List JVal) : (xs ++ [v]).eraseIdx xs.length = xs := by
  induction xs with
  | nil => rfl
  | cons x xs ih => simp [ih]

theorem insertAt_eraseIdx {v : JVal} : ∀ {xs : List JVal} {i : Nat}, xs[i]? = some v → insertAt i v (xs.eraseIdx i) = xs
  | [], _, h => by simp at h
  | x :: xs, 0, h => by simp at h; simp [insertAt, h]
  | x :: xs, i + 1, h => by
    have := insertAt_eraseIdx (xs := xs) (i := i) (by simpa using h)
    simp only [insertAt] at this ⊢
    simp [this]

theorem insertAt_length (v : JVal) (xs : List JVal) : insertAt xs.length v xs = xs ++ [v] := by
  simp [insertAt]

theorem erase_append_absent {k : Bytes} {v : JVal} : ∀ {ms : List (Bytes × JVal)}, find k ms = none →
    erase k (ms ++ [(k, v)]) = ms
  | [], _ => by simp [erase]
  | (k', v') :: ms, h => by
    simp only [find] at h
    by_cases e : k' = k
    · simp [e] at h
    · simp only [e, if_false] at h
      simp [erase, e, erase_append_absent h]

theorem erase_insertSorted_absent {k : Bytes} {v : JVal} : ∀ {ms : List (Bytes × JVal)}, find k ms = none →
    erase k (insertSorted k v ms) = ms
  | [], _ => by simp [insertSorted, erase]
  | (k', v') :: ms, h => by
    simp only [find] at h
    by_cases e : k' = k
    · simp [e] at h
    · simp only [e, if_false] at h
      simp only [insertSorted]
      by_cases hl : keyLt k' k = true
      · simp [hl, erase, e, erase_insertSorted_absent h]
      · simp [hl, erase]

theorem erase_tryEmplace_absent (o : Bool) {k : Bytes} {v : JVal} {ms : List (Bytes × JVal)} (h : find k ms = none) :
    erase k (tryEmplace o k v ms) = ms := by
  unfold tryEmplace
  rw [h]
  cases o
  · simpa using erase_insertSorted_absent h
  · simpa using erase_append_absent h

/-- re-inserting a removed member of a sorted object puts it back where it was -/
theorem insertSorted_erase {k : Bytes} {v : JVal} {ms : List (Bytes × JVal)} (hs : Sorted ms) (h : find k ms = some v) :
    insertSorted k v (erase k ms) = ms := by
  apply sorted_ext (sorted_insertSorted (sorted_erase hs) (find_erase_self hs)) hs
  intro k'
  by_cases e : k' = k
  · subst e; rw [find_insertSorted_self, h]
  · rw [find_insertSorted_ne e, find_erase_ne e]

theorem wfList_set {x : JVal} : ∀ {xs : List JVal} {i : Nat}, WFList xs → x.WF → WFList (xs.set i x)
  | [], _, _, _ => by simp [WFList]
  | y :: ys, 0, h, hx => by simp only [List.set_cons_zero, WFList]; exact ⟨hx, h.2⟩
  | y :: ys, i + 1, h, hx => by simp only [List.set_cons_succ, WFList]; exact ⟨h.1, wfList_set h.2 hx⟩

theorem wf_of_getElem {x : JVal} : ∀ {xs : List JVal} {i : Nat}, WFList xs → xs[i]? = some x → x.WF
  | [], _, _, h => by simp at h
  | y :: ys, 0, hs, h => by simp at h; subst h; exact hs.1
  | y :: ys, i + 1, hs, h => by simp at h; exact wf_of_getElem hs.2 h

theorem wfList_append : ∀ {xs ys : List JVal}, WFList xs → WFList ys → WFList (xs ++ ys)
  | [], _, _, h => h
  | _ :: _, _, h1, h2 => ⟨h1.1, wfList_append h1.2 h2⟩

theorem wfList_take : ∀ {xs : List JVal} (i : Nat), WFList xs → WFList (xs.take i)
  | [], _, _ => by simp [WFList]
  | x :: xs, 0, _ => by simp [WFList]
  | x :: xs, i + 1, h => by simp only [List.take_succ_cons, WFList]; exact ⟨h.1, wfList_take i h.2⟩

theorem wfList_drop : ∀ {xs : List JVal} (i : Nat), WFList xs → WFList (xs.drop i)
  | [], _, _ => by simp [WFList]
  | x :: xs, 0, h => by simpa using h
  | x :: xs, i + 1, h => by simp only [List.drop_succ_cons]; exact wfList_drop i h.2

theorem wfList_insertAt {v : JVal} {xs : List JVal} (i : Nat) (h : WFList xs) (hv : v.WF) : WFList (insertAt i v xs) :=
  wfList_append (wfList_take i h) ⟨hv, wfList_drop i h⟩

theorem wfList_eraseIdx : ∀ {xs : List JVal} (i : Nat), WFList xs → WFList (xs.eraseIdx i)
  | [], _, _ => by simp [WFList]
  | x :: xs, 0, h => by simpa using h.2
  | x :: xs, i + 1, h => by simp only [List.eraseIdx_cons_succ, WFList]; exact ⟨h.1, wfList_eraseIdx i h.2⟩

theorem wfMembers_replaceVal {k : Bytes} {v : JVal} (hv : v.WF) : ∀ {ms : List (Bytes × JVal)}, WFMembers ms →
    WFMembers (replaceVal k v ms)
  | [], _ => trivial
  | (k', v') :: ms, h => by
    by_cases e : k' = k
    · simp only [replaceVal, e, if_true, WFMembers]; exact ⟨hv, h.2⟩
    · simp only [replaceVal, e, if_false, WFMembers]; exact ⟨h.1, wfMembers_replaceVal hv h.2⟩

/-! ### the container the last token acts on -/

def parentOf : JVal → Bytes → List Bytes → Option (JVal × Bytes)
  | cur, tok, [] => some (cur, tok)
  | .arr xs, tok, t2 :: rest =>
    if isDash tok then none
    else match decToIndex tok with
      | none => none
      | some i =>
        match xs[i]? with
        | none => none
        | some x => parentOf x t2 rest
  | .obj ms, tok, t2 :: rest =>
    match find tok ms with
    | some x => parentOf x t2 rest
    | none => none
  | _, _, _ :: _ => none

/-- an undo step inverts a modification as soon as it inverts the `finalStep` on the parent container -/
theorem modifyAt_undo_lift (o : Bool) (f g : Final) :
    ∀ (rest : List Bytes) (cur : JVal) (tok : Bytes),
      (∀ c last, parentOf cur tok rest = some (c, last) → (finalStep o false f c last).1 = none →
          finalStep o false g (finalStep o false f c last).2 last = (none, c)) →
      (modifyAt o false f cur tok rest).1 = none →
      modifyAt o false g (modifyAt o false f cur tok rest).2 tok rest = (none, cur)
  | [], cur, tok, hb, hok => by
    simp only [modifyAt] at hok ⊢
    exact hb cur tok (by simp [parentOf]) hok
  | t2 :: rest, cur, tok, hb, hok => by
    cases cur with
    | arr xs =>
      simp only [modifyAt] at hok ⊢
      by_cases hd : isDash tok = true
      · simp [hd] at hok
      · have hd' : isDash tok = false := by simpa using hd
        simp only [hd', Bool.false_eq_true, if_false] at hok ⊢
        cases hi : decToIndex tok with
        | none => rw [hi] at hok; simp at hok
        | some i =>
          rw [hi] at hok
          simp only [] at hok ⊢
          cases hx : xs[i]? with
          | none => rw [hx] at hok; simp at hok
          | some x =>
            rw [hx] at hok
            simp only [] at hok ⊢
            have hlt : i < xs.length := (List.getElem?_eq_some_iff.1 hx).1
            have ih := modifyAt_undo_lift o f g rest x t2
              (fun c last hp => hb c last (by simp [parentOf, hd', hi, hx, hp])) hok
            simp only [modifyAt, hd', Bool.false_eq_true, if_false, hi]
            have hget : (xs.set i (modifyAt o false f x t2 rest).2)[i]? = some (modifyAt o false f x t2 rest).2 := by
              simp [hlt]
            simp only [hget, ih, List.set_set, set_same hx]
    | obj ms =>
      simp only [modifyAt] at hok ⊢
      cases hfi : find tok ms with
      | none => rw [hfi] at hok; simp at hok
      | some x =>
        rw [hfi] at hok
        simp only [] at hok ⊢
        have ih := modifyAt_undo_lift o f g rest x t2
          (fun c last hp => hb c last (by simp [parentOf, hfi, hp])) hok
        simp only [modifyAt, find_replaceVal_self hfi, ih, replaceVal_replaceVal, replaceVal_same hfi]
    | null => simp [modifyAt] at hok
    | bool _ => simp [modifyAt] at hok
    | int _ => simp [modifyAt] at hok
    | str _ => simp [modifyAt] at hok

/-- the deep sorted-object invariant survives a modification as soon as it survives the `finalStep` -/
theorem modifyAt_wf_lift (f : Final) :
    ∀ (rest : List Bytes) (cur : JVal) (tok : Bytes), cur.WF →
      (∀ c last, parentOf cur tok rest = some (c, last) → c.WF → (finalStep false false f c last).2.WF) →
      (modifyAt false false f cur tok rest).2.WF
  | [], cur, tok, hw, hb => by
    simp only [modifyAt]
    exact hb cur tok (by simp [parentOf]) hw
  | t2 :: rest, cur, tok, hw, hb => by
    cases cur with
    | arr xs =>
      simp only [modifyAt]
      by_cases hd : isDash tok = true
      · simpa [hd] using hw
      · have hd' : isDash tok = false := by simpa using hd
        simp only [hd', Bool.false_eq_true, if_false]
        cases hi : decToIndex tok with
        | none => simpa using hw
        | some i =>
          simp only []
          cases hx : xs[i]? with
          | none => simpa using hw
          | some x =>
            simp only []
            have hwl : WFList xs := by simpa [JVal.WF] using hw
            have ih := modifyAt_wf_lift f rest x t2 (wf_of_getElem hwl hx)
              (fun c last hp => hb c last (by simp [parentOf, hd', hi, hx, hp]))
            simp only [JVal.WF]
            exact wfList_set hwl ih
    | obj ms =>
      simp only [modifyAt]
      cases hfi : find tok ms with
      | none => simpa using hw
      | some x =>
        simp only []
        have hwo : Sorted ms ∧ WFMembers ms := by simpa [JVal.WF] using hw
        have ih := modifyAt_wf_lift f rest x t2 (wf_of_find hwo.2 hfi)
          (fun c last hp => hb c last (by simp [parentOf, hfi, hp]))
        simp only [JVal.WF]
        exact ⟨sorted_replaceVal hwo.1, wfMembers_replaceVal ih hwo.2⟩
    | null => simpa [modifyAt] using hw
    | bool _ => simpa [modifyAt] using hw
    | int _ => simpa [modifyAt] using hw
    | str _ => simpa [modifyAt] using hw

theorem get_parentOf : ∀ (rest : List Bytes) (cur : JVal) (tok : Bytes) (v : JVal),
    get cur (tok :: rest) = .ok v → ∃ c last, parentOf cur tok rest = some (c, last) ∧ get c [last] = .ok v
  | [], cur, tok, v, h => ⟨cur, tok, by simp [parentOf], h⟩
  | t2 :: rest, cur, tok, v, h => by
    cases cur with
    | arr xs =>
      simp only [get] at h
      by_cases hd : isDash tok = true
      · simp [hd] at h
      · have hd' : isDash tok = false := by simpa using hd
        simp only [hd', Bool.false_eq_true, if_false] at h
        cases hi : decToIndex tok with
        | none => rw [hi] at h; simp at h
        | some i =>
          rw [hi] at h
          simp only [] at h
          cases hx : xs[i]? with
          | none => rw [hx] at h; simp at h
          | some x =>
            rw [hx] at h
            simp only [] at h
            obtain ⟨c, last, hp, hg⟩ := get_parentOf rest x t2 v h
            exact ⟨c, last, by simp [parentOf, hd', hi, hx, hp], hg⟩
    | obj ms =>
      simp only [get] at h
      cases hfi : find tok ms with
      | none => rw [hfi] at h; simp at h
      | some x =>
        rw [hfi] at h
        simp only [] at h
        obtain ⟨c, last, hp, hg⟩ := get_parentOf rest x t2 v h
        exact ⟨c, last, by simp [parentOf, hfi, hp], hg⟩
    | null => simp [get] at h
    | bool _ => simp [get] at h
    | int _ => simp [get] at h
    | str _ => simp [get] at h

/-- `parentOf` is `get` at the location without its last token -/
theorem parentOf_get : ∀ (rest : List Bytes) (cur : JVal) (tok : Bytes) (c : JVal) (last : Bytes),
    parentOf cur tok rest = some (c, last) →
      get cur ((tok :: rest).dropLast) = .ok c ∧ (tok :: rest).getLast? = some last
  | [], cur, tok, c, last, h => by
    simp only [parentOf, Option.some.injEq, Prod.mk.injEq] at h
    simp [get, h.1, h.2]
  | t2 :: rest, cur, tok, c, last, h => by
    cases cur with
    | arr xs =>
      simp only [parentOf] at h
      by_cases hd : isDash tok = true
      · simp [hd] at h
      · have hd' : isDash tok = false := by simpa using hd
        simp only [hd', Bool.false_eq_true, if_false] at h
        cases hi : decToIndex tok with
        | none => rw [hi] at h; simp at h
        | some i =>
          rw [hi] at h
          simp only [] at h
          cases hx : xs[i]? with
          | none => rw [hx] at h; simp at h
          | some x =>
            rw [hx] at h
            simp only [] at h
            obtain ⟨h1, h2⟩ := parentOf_get rest x t2 c last h
            refine ⟨?_, by simpa [List.getLast?_cons_cons] using h2⟩
            simp only [List.dropLast_cons_cons, get, hd', Bool.false_eq_true, if_false, hi, hx]
            exact h1
    | obj ms =>
      simp only [parentOf] at h
      cases hfi : find tok ms with
      | none => rw [hfi] at h; simp at h
      | some x =>
        rw [hfi] at h
        simp only [] at h
        obtain ⟨h1, h2⟩ := parentOf_get rest x t2 c last h
        refine ⟨?_, by simpa [List.getLast?_cons_cons] using h2⟩
        simp only [List.dropLast_cons_cons, get, hfi]
        exact h1
    | null => simp [parentOf] at h
    | bool _ => simp [parentOf] at h
    | int _ => simp [parentOf] at h
    | str _ => simp [parentOf] at h

theorem parentOf_wf : ∀ (rest : List Bytes) (cur : JVal) (tok : Bytes) (c : JVal) (last : Bytes),
    parentOf cur tok rest = some (c, last) → cur.WF → c.WF
  | [], cur, tok, c, last, h, hw => by
    simp only [parentOf, Option.some.injEq, Prod.mk.injEq] at h
    rw [← h.1]; exact hw
  | t2 :: rest, cur, tok, c, last, h, hw => by
    cases cur with
    | arr xs =>
      simp only [parentOf] at h
      by_cases hd : isDash tok = true
      · simp [hd] at h
      · have hd' : isDash tok = false := by simpa using hd
        simp only [hd', Bool.false_eq_true, if_false] at h
        cases hi : decToIndex tok with
        | none => rw [hi] at h; simp at h
        | some i =>
          rw [hi] at h
          simp only [] at h
          cases hx : xs[i]? with
          | none => rw [hx] at h; simp at h
          | some x =>
            rw [hx] at h
            simp only [] at h
            have hwl : WFList xs := by simpa [JVal.WF] using hw
            exact parentOf_wf rest x t2 c last h (wf_of_getElem hwl hx)
    | obj ms =>
      simp only [parentOf] at h
      cases hfi : find tok ms with
      | none => rw [hfi] at h; simp at h
      | some x =>
        rw [hfi] at h
        simp only [] at h
        have hwo : Sorted ms ∧ WFMembers ms := by simpa [JVal.WF] using hw
        exact parentOf_wf rest x t2 c last h (wf_of_find hwo.2 hfi)
    | null => simp [parentOf] at h
    | bool _ => simp [parentOf] at h
    | int _ => simp [parentOf] at h
    | str _ => simp [parentOf] at h

theorem get_wf : ∀ (ts : List Bytes) (d v : JVal), d.WF → get d ts = .ok v → v.WF
  | [], d, v, hw, h => by simp [get] at h; rw [← h]; exact hw
  | tok :: rest, d, v, hw, h => by
    obtain ⟨c, last, hp, hg⟩ := get_parentOf rest d tok v h
    have hc := parentOf_wf rest d tok c last hp hw
    cases c with
    | arr xs =>
      simp only [get] at hg
      by_cases hd : isDash last = true
      · simp [hd] at hg
      · have hd' : isDash last = false := by simpa using hd
        simp only [hd', Bool.false_eq_true, if_false] at hg
        cases hi : decToIndex last with
        | none => rw [hi] at hg; simp at hg
        | some i =>
          rw [hi] at hg
          simp only [] at hg
          cases hx : xs[i]? with
          | none => rw [hx] at hg; simp at hg
          | some x =>
            rw [hx] at hg
            simp only [Except.ok.injEq] at hg
            rw [← hg]
            exact wf_of_getElem (by simpa [JVal.WF] using hc) hx
    | obj ms =>
      simp only [get] at hg
      cases hfi : find last ms with
      | none => rw [hfi] at hg; simp at hg
      | some x =>
        rw [hfi] at hg
        simp only [Except.ok.injEq] at hg
        rw [← hg]
        have hwo : Sorted ms ∧ WFMembers ms := by simpa [JVal.WF] using hc
        exact wf_of_find hwo.2 hfi
    | null => simp [get] at hg
    | bool _ => simp [get] at hg
    | int _ => simp [get] at hg
    | str _ => simp [get] at hg

end Pointer
end Model
end JV
