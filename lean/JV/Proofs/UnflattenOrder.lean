/-
  JV.Proofs.UnflattenOrder — the three orders `unflatten` sorts by are strict total orders
  (`std::string` <, `vector<string>` <, `size_t` <); `try_emplace` on a sorted object is
  `mapEmplace`; the decimal index text flatten writes is read back by `dec_to_integer`.
-/
import JV.Proofs.UnflattenMap
import JV.Proofs.Number
namespace JV
namespace SMap
open Model Model.Pointer Assoc

theorem keyLt_st : StrictTotal keyLt := ⟨keyLt_irrefl, keyLt_trans, keyLt_trichotomy⟩

theorem natLt_st : StrictTotal natLt :=
  ⟨fun a => by simp [natLt], fun h1 h2 => by simp [natLt] at *; omega, fun a b => by simp [natLt]; omega⟩

theorem toksLt_irrefl : ∀ a : List Bytes, toksLt a a = false
  | [] => rfl
  | x :: xs => by simp [toksLt, keyLt_irrefl, toksLt_irrefl xs]

theorem toksLt_trans : ∀ {a b c : List Bytes}, toksLt a b = true → toksLt b c = true → toksLt a c = true
  | [], [], _, h, _ => by simp [toksLt] at h
  | [], _ :: _, [], _, h => by simp [toksLt] at h
  | [], _ :: _, _ :: _, _, _ => rfl
  | _ :: _, [], _, h, _ => by simp [toksLt] at h
  | _ :: _, _ :: _, [], _, h => by simp [toksLt] at h
  | x :: xs, y :: ys, z :: zs, h1, h2 => by
    simp only [toksLt] at h1 h2 ⊢
    by_cases a1 : keyLt x y = true
    · by_cases b1 : keyLt y z = true
      · simp [keyLt_trans a1 b1]
      · simp only [b1] at h2
        by_cases b2 : keyLt z y = true
        · simp [b2] at h2
        · have : y = z := by
            rcases keyLt_trichotomy y z with h | h | h
            · exact absurd h b1
            · exact h
            · exact absurd h b2
          subst this; simp [a1]
    · simp only [a1] at h1
      by_cases a2 : keyLt y x = true
      · simp [a2] at h1
      · have exy : x = y := by
          rcases keyLt_trichotomy x y with h | h | h
          · exact absurd h a1
          · exact h
          · exact absurd h a2
        subst exy
        simp only [a2] at h1
        by_cases b1 : keyLt x z = true
        · simp [b1]
        · simp only [b1] at h2 ⊢
          by_cases b2 : keyLt z x = true
          · simp [b2] at h2
          · simp only [b2] at h2 ⊢
            simp only [Bool.false_eq_true, if_false] at h1 h2 ⊢
            exact toksLt_trans h1 h2

theorem toksLt_tri : ∀ a b : List Bytes, toksLt a b = true ∨ a = b ∨ toksLt b a = true
  | [], [] => Or.inr (Or.inl rfl)
  | [], _ :: _ => Or.inl rfl
  | _ :: _, [] => Or.inr (Or.inr rfl)
  | x :: xs, y :: ys => by
    simp only [toksLt]
    rcases keyLt_trichotomy x y with h | h | h
    · simp [h]
    · subst h
      simp only [keyLt_irrefl, Bool.false_eq_true, if_false]
      rcases toksLt_tri xs ys with h | h | h
      · exact Or.inl h
      · exact Or.inr (Or.inl (by rw [h]))
      · exact Or.inr (Or.inr h)
    · simp [h, keyLt_asymm h]

theorem toksLt_st : StrictTotal toksLt := ⟨toksLt_irrefl, toksLt_trans, toksLt_tri⟩

/-! ### sorted objects -/

theorem ssorted_of_sorted {α : Type} : ∀ {ms : List (Bytes × α)}, Assoc.Sorted ms → SSorted keyLt ms
  | [], _ => trivial
  | (k, v) :: ms, h => by
    refine ⟨?_, ssorted_of_sorted h.tail⟩
    have hg := h.allGt
    clear h
    induction ms with
    | nil => intro e he; cases he
    | cons m ms ih =>
      intro e he
      rcases List.mem_cons.1 he with he | he
      · rw [he]; exact hg.1
      · exact ih hg.2 e he

theorem sorted_of_ssorted {α : Type} : ∀ {ms : List (Bytes × α)}, SSorted keyLt ms → Assoc.Sorted ms
  | [], _ => trivial
  | [_], _ => trivial
  | (_, _) :: (_, _) :: _, h => ⟨h.1 _ List.mem_cons_self, sorted_of_ssorted h.2⟩

theorem find_none_of_forall_ne {α : Type} {k : Bytes} : ∀ {ms : List (Bytes × α)}, (∀ e ∈ ms, e.1 ≠ k) → find k ms = none
  | [], _ => rfl
  | (k', v') :: ms, h => by
    have : k' ≠ k := h (k', v') List.mem_cons_self
    simp only [find, this, if_false]
    exact find_none_of_forall_ne (fun e he => h e (List.mem_cons_of_mem _ he))

theorem tryEmplace_eq_mapEmplace (k : Bytes) (v : JVal) : ∀ (ms : List (Bytes × JVal)), SSorted keyLt ms →
    tryEmplace false k v ms = mapEmplace keyLt k v ms
  | [], _ => by simp [tryEmplace, find, insertSorted, mapEmplace]
  | (k', v') :: ms, hs => by
    have ih := tryEmplace_eq_mapEmplace k v ms hs.2
    unfold tryEmplace at ih ⊢
    simp only [mapEmplace]
    by_cases h1 : keyLt k' k = true
    · have hne : k' ≠ k := keyLt_ne h1
      simp only [find, hne, if_false, h1, if_true, insertSorted]
      cases hf : find k ms with
      | some _ => simp only [hf] at ih ⊢; rw [← ih]
      | none => simp only [hf, Bool.false_eq_true, if_false] at ih ⊢; rw [ih]
    · simp only [h1]
      by_cases h2 : keyLt k k' = true
      · have hne : k' ≠ k := fun e => keyLt_ne h2 e.symm
        have hn : find k ms = none :=
          find_none_of_forall_ne (fun e he e' => keyLt_ne (keyLt_trans h2 (hs.1 e he)) e'.symm)
        simp [find, hne, hn, h2, insertSorted, h1]
      · have hk : k' = k := by
          rcases keyLt_trichotomy k k' with h | h | h
          · exact absurd h h2
          · exact h.symm
          · exact absurd h h1
        simp [find, hk, keyLt_irrefl]

/-! ### index text -/

theorem digitChar_toNat : ∀ d, d < 10 → (Nat.digitChar d).toNat = 48 + d := by decide

theorem toDigitsCore_eq : ∀ (fuel n : Nat) (ds : List Char), n < fuel →
    (Nat.toDigitsCore 10 fuel n ds).map (·.toNat) = (revDigits fuel n).reverse ++ ds.map (·.toNat)
  | 0, n, ds, h => by omega
  | fuel + 1, n, ds, h => by
    simp only [Nat.toDigitsCore, revDigits]
    have hd := digitChar_toNat (n % 10) (Nat.mod_lt _ (by decide))
    by_cases h0 : n / 10 = 0
    · simp [h0, hd]
    · simp only [h0, if_false]
      have hlt : n / 10 < fuel := by omega
      rw [toDigitsCore_eq fuel (n / 10) _ hlt]
      simp [hd]

theorem revDigits_fuel_pow : ∀ (f1 f2 n : Nat), 0 < f1 → 0 < f2 → n < 10 ^ f1 → n < 10 ^ f2 → revDigits f1 n = revDigits f2 n
  | 0, _, n, h, _, _, _ => by omega
  | _ + 1, 0, n, _, h, _, _ => by omega
  | f1 + 1, f2 + 1, n, _, _, h1, h2 => by
    simp only [revDigits]
    by_cases h0 : n / 10 = 0
    · simp [h0]
    · simp only [h0, if_false]
      have a1 : n / 10 < 10 ^ f1 := Nat.div_lt_of_lt_mul (by rw [Nat.pow_succ, Nat.mul_comm] at h1; exact h1)
      have a2 : n / 10 < 10 ^ f2 := Nat.div_lt_of_lt_mul (by rw [Nat.pow_succ, Nat.mul_comm] at h2; exact h2)
      have p1 : 0 < f1 := by
        cases f1 with
        | zero => simp at a1; omega
        | succ _ => omega
      have p2 : 0 < f2 := by
        cases f2 with
        | zero => simp at a2; omega
        | succ _ => omega
      rw [revDigits_fuel_pow f1 f2 (n / 10) p1 p2 a1 a2]

/-- `natDigits` (the index text of the flatten model) is `from_integer` -/
theorem natDigits_eq_fromUnsigned (n : Nat) (hn : n < 2 ^ 64) : natDigits n = fromUnsigned n := by
  unfold natDigits Nat.toDigits fromUnsigned
  rw [toDigitsCore_eq (n + 1) n [] (by omega)]
  simp only [List.map_nil, List.append_nil]
  have h0 : n < 10 ^ n := Nat.lt_pow_self (by decide)
  have h1 : n < 10 ^ (n + 1) := Nat.lt_of_lt_of_le h0 (Nat.pow_le_pow_right (by decide) (by omega))
  have h2 : n < 10 ^ 255 := Nat.lt_trans hn (by decide)
  rw [revDigits_fuel_pow (n + 1) 255 n (by omega) (by decide) h1 h2]

theorem decToU64_natDigits (n : Nat) (hn : n < 2 ^ 64) : decToU64 (natDigits n) = .ok n := by
  rw [natDigits_eq_fromUnsigned n hn]; exact fromUnsigned_roundtrip n hn

theorem natDigits_inj {i j : Nat} (hi : i < 2 ^ 64) (hj : j < 2 ^ 64) (h : natDigits i = natDigits j) : i = j := by
  have a := decToU64_natDigits i hi
  rw [h, decToU64_natDigits j hj] at a
  cases a; rfl

theorem decToIndex_natDigits (n : Nat) (hn : n < 2 ^ 64) : decToIndex (natDigits n) = some n := by
  have hd := fromUnsigned_digits n hn
  unfold decToIndex
  rw [decToU64_natDigits n hn, natDigits_eq_fromUnsigned n hn]
  have : ¬ ((fromUnsigned n).length > 1 ∧ (fromUnsigned n).head? = some 48) := by
    rintro ⟨hl, hh⟩
    have h0 := hd.2.2.2 hh
    subst h0
    revert hl; decide
  simp [this]

end SMap
end JV
