/-
  JV.Proofs.CompareNum — `static_cast<double>(integer)` on the bits: the result is finite and non-negative for n < 2^64, exact and
  strictly increasing up to 2^53.
-/
import JV.Model.Compare
namespace JV
namespace Model
namespace Compare

theorem pow_exp_le {a b n : Nat} (h1 : 2 ^ a ≤ n) (h2 : n < 2 ^ b) : a < b := by
  apply Classical.byContradiction
  intro h
  have : 2 ^ b ≤ 2 ^ a := Nat.pow_le_pow_right (by omega) (by omega)
  omega

theorem ilog2From_spec : ∀ m n : Nat, 1 ≤ n → n < 2 ^ (m + 1) →
    2 ^ (ilog2From m n) ≤ n ∧ n < 2 ^ (ilog2From m n + 1) ∧ ilog2From m n ≤ m
  | 0, n, h1, h2 => by simp [ilog2From] at *; omega
  | m + 1, n, h1, h2 => by
    unfold ilog2From
    by_cases h : 2 ^ (m + 1) ≤ n
    · simp [h]; exact h2
    · simp only [h, if_false]
      have := ilog2From_spec m n h1 (by omega)
      omega

theorem ilog2_spec (n : Nat) (h1 : 1 ≤ n) (h2 : n < 2 ^ 64) : 2 ^ (ilog2 n) ≤ n ∧ n < 2 ^ (ilog2 n + 1) ∧ ilog2 n ≤ 63 :=
  ilog2From_spec 63 n h1 h2

/-- the exact range: n < 2^53 lands in the mantissa as it is -/
theorem natToDouble_small (n : Nat) (h1 : 1 ≤ n) (h2 : n < 2 ^ 53) :
    ilog2 n ≤ 52 ∧ natToDouble n = (1023 + ilog2 n) * 2 ^ 52 + (n - 2 ^ ilog2 n) * 2 ^ (52 - ilog2 n) := by
  have s := ilog2_spec n h1 (by omega)
  have hk : ilog2 n < 53 := pow_exp_le s.1 h2
  refine ⟨by omega, ?_⟩
  unfold natToDouble
  have : ¬ n = 0 := by omega
  have hk2 : ilog2 n ≤ 52 := by omega
  simp [this, hk2]

theorem frac_lt (k n : Nat) (hk : k ≤ 52) (h1 : 2 ^ k ≤ n) (h2 : n < 2 ^ (k + 1)) : (n - 2 ^ k) * 2 ^ (52 - k) < 2 ^ 52 := by
  have e : 2 ^ k * 2 ^ (52 - k) = 2 ^ 52 := by rw [← Nat.pow_add]; congr 1; omega
  have p : 0 < 2 ^ (52 - k) := Nat.pow_pos (by omega)
  have : n - 2 ^ k < 2 ^ k := by rw [Nat.pow_succ] at h2; omega
  calc (n - 2 ^ k) * 2 ^ (52 - k) < 2 ^ k * 2 ^ (52 - k) := Nat.mul_lt_mul_of_pos_right this p
    _ = 2 ^ 52 := e

theorem natToDouble_le (n : Nat) (h : n < 2 ^ 64) : natToDouble n ≤ 1087 * 2 ^ 52 := by
  by_cases h0 : n = 0
  · subst h0; simp [natToDouble]
  have h1 : 1 ≤ n := by omega
  have s := ilog2_spec n h1 h
  by_cases hs : n < 2 ^ 53
  · have t := natToDouble_small n h1 hs
    have f := frac_lt (ilog2 n) n t.1 s.1 s.2.1
    rw [t.2]
    generalize (n - 2 ^ ilog2 n) * 2 ^ (52 - ilog2 n) = fr at *
    omega
  · have hk : 52 < ilog2 n := by
      have : 2 ^ 53 ≤ n := by omega
      have := pow_exp_le this s.2.1
      omega
    unfold natToDouble
    have hk2 : ¬ ilog2 n ≤ 52 := by omega
    simp only [h0, hk2, if_false]
    have q : n / 2 ^ (ilog2 n - 52) < 2 ^ 53 := by
      rw [Nat.div_lt_iff_lt_mul (Nat.pow_pos (by omega))]
      rw [← Nat.pow_add]
      have : 53 + (ilog2 n - 52) = ilog2 n + 1 := by omega
      rw [this]; exact s.2.1
    generalize n / 2 ^ (ilog2 n - 52) = qq at *
    split <;> omega

theorem natToDouble_zero : natToDouble 0 = 0 := by simp [natToDouble]

theorem natToDouble_pos (n : Nat) (h1 : 1 ≤ n) (h : n < 2 ^ 64) : 0 < natToDouble n := by
  have s := ilog2_spec n h1 h
  unfold natToDouble
  have : ¬ n = 0 := by omega
  simp only [this, if_false]
  split <;> omega

theorem natToDouble_two53 : natToDouble (2 ^ 53) = 1076 * 2 ^ 52 := by decide

/-- strictly increasing on [0, 2^53] -/
theorem natToDouble_strict (m n : Nat) (h : m < n) (hn : n ≤ 2 ^ 53) : natToDouble m < natToDouble n := by
  by_cases h0 : m = 0
  · subst h0; rw [natToDouble_zero]; exact natToDouble_pos n (by omega) (by omega)
  have m1 : 1 ≤ m := by omega
  have tm := natToDouble_small m m1 (by omega)
  have sm := ilog2_spec m m1 (by omega)
  have fm := frac_lt (ilog2 m) m tm.1 sm.1 sm.2.1
  by_cases hn2 : n = 2 ^ 53
  · subst hn2
    rw [natToDouble_two53, tm.2]
    generalize (m - 2 ^ ilog2 m) * 2 ^ (52 - ilog2 m) = fr at *
    omega
  have tn := natToDouble_small n (by omega) (by omega)
  have sn := ilog2_spec n (by omega) (by omega)
  rw [tm.2, tn.2]
  have kle : ilog2 m < ilog2 n + 1 := pow_exp_le sm.1 (by omega)
  by_cases ke : ilog2 m = ilog2 n
  · rw [ke] at sm ⊢
    have p : 0 < 2 ^ (52 - ilog2 n) := Nat.pow_pos (by omega)
    have : m - 2 ^ ilog2 n < n - 2 ^ ilog2 n := by omega
    have := Nat.mul_lt_mul_of_pos_right this p
    omega
  · generalize (m - 2 ^ ilog2 m) * 2 ^ (52 - ilog2 m) = fr at *
    generalize (n - 2 ^ ilog2 n) * 2 ^ (52 - ilog2 n) = fr2 at *
    omega

end Compare
end Model
end JV
