import JV.Model.EncoderLen
namespace JV
namespace Model
namespace EncoderLen

theorem run_append : ∀ (a b : List Ev) (st : List Frame), run st (a ++ b) = (match run st a with | .error e => .error e | .ok st' => run st' b)
  | [], b, st => by simp [run]
  | e :: a, b, st => by
    simp only [List.cons_append, run]
    cases h : step st e with
    | error x => simp
    | ok st' => simp [run_append a b st']

/-- pushing `k` more items into the top frame -/
def bump (k : Nat) : List Frame → List Frame
  | [] => []
  | f :: fs => { f with index := f.index + k } :: fs

theorem endValue_bump (k : Nat) (st : List Frame) : endValue (bump k st) = bump (k + 1) st := by
  cases st with
  | nil => rfl
  | cons f fs => simp [bump, endValue, Nat.add_assoc]

theorem bump_zero (st : List Frame) : bump 0 st = st := by
  cases st <;> simp [bump]

mutual
  /-- a tree whose announced lengths are all exact is accepted and counts as one item of its parent -/
  theorem run_exact : ∀ (t : Tree) (st : List Frame), Exact t → run st (events t) = .ok (endValue st)
    | .scalar, st, _ => by simp [events, run, step]
    | .arr d xs, st, h => by
      have hl := run_exact_list xs ({ isObj := false, declared := d, index := 0 } :: st) 0 h.2
      rw [bump_zero] at hl
      simp only [events, run, step]
      rw [run_append, hl]
      simp only [bump, Nat.zero_add, run, step, closeTop]
      cases d with
      | none => simp
      | some n =>
        have : n = xs.length := h.1 n rfl
        subst this
        simp [Frame.count]
    | .obj d ms, st, h => by
      have hl := run_exact_members ms ({ isObj := true, declared := d, index := 0 } :: st) 0 h.2
      rw [bump_zero] at hl
      simp only [events, run, step]
      rw [run_append, hl]
      simp only [bump, Nat.zero_add, run, step, closeTop]
      cases d with
      | none => simp
      | some n =>
        have : n = ms.length := h.1 n rfl
        subst this
        simp [Frame.count]
  theorem run_exact_list : ∀ (xs : List Tree) (st : List Frame) (k : Nat), ExactList xs →
      run (bump k st) (eventsList xs) = .ok (bump (k + xs.length) st)
    | [], st, k, _ => by simp [eventsList, run]
    | x :: xs, st, k, h => by
      simp only [eventsList]
      rw [run_append, run_exact x (bump k st) h.1]
      simp only [endValue_bump]
      rw [run_exact_list xs st (k + 1) h.2]
      simp [Nat.add_assoc, Nat.add_comm 1]
  theorem run_exact_members : ∀ (ms : List Tree) (st : List Frame) (k : Nat), ExactList ms →
      run (bump k st) (eventsMembers ms) = .ok (bump (k + 2 * ms.length) st)
    | [], st, k, _ => by simp [eventsMembers, run]
    | x :: ms, st, k, h => by
      simp only [eventsMembers, run, step]
      rw [endValue_bump, run_append, run_exact x (bump (k + 1) st) h.1]
      simp only [endValue_bump]
      rw [run_exact_members ms st (k + 1 + 1) h.2]
      simp only [List.length_cons]
      congr 2
      omega
end

end EncoderLen
end Model
end JV

namespace JV
namespace Model
namespace EncoderLen

/-- an array announced with a wrong length (its items being fine) is refused, with the right error -/
theorem run_wrong_array (n : Nat) (xs : List Tree) (st : List Frame) (hne : n ≠ xs.length) (hx : ExactList xs) :
    run st (events (.arr (some n) xs)) = .error (if xs.length < n then .tooFew else .tooMany) := by
  have hl := run_exact_list xs ({ isObj := false, declared := some n, index := 0 } :: st) 0 hx
  rw [bump_zero] at hl
  simp only [events, run, step]
  rw [run_append, hl]
  simp only [bump, Nat.zero_add, run, step, closeTop, Frame.count]
  by_cases h : xs.length < n
  · simp [h]
  · have h2 : xs.length > n := by omega
    simp [h, h2]

/-- the same for objects (the count is in members, each member being a key and a value) -/
theorem run_wrong_object (n : Nat) (ms : List Tree) (st : List Frame) (hne : n ≠ ms.length) (hx : ExactList ms) :
    run st (events (.obj (some n) ms)) = .error (if ms.length < n then .tooFew else .tooMany) := by
  have hl := run_exact_members ms ({ isObj := true, declared := some n, index := 0 } :: st) 0 hx
  rw [bump_zero] at hl
  simp only [events, run, step]
  rw [run_append, hl]
  have hc : (0 + 2 * ms.length) / 2 = ms.length := by omega
  simp only [bump, run, step, closeTop, Frame.count, if_true, hc]
  by_cases h : ms.length < n
  · simp [h]
  · have h2 : ms.length > n := by omega
    simp [h, h2]

end EncoderLen
end Model
end JV
