/-
  JV.Proofs.CborParserClaims — what the cbor_parser model (JV.Model.CborParser) delivers is paid for by input bytes.
  * `weight_all`: the weight of a delivered value (one per node plus the bytes of every string) is at most the number of bytes
    consumed; a definite array / map that was delivered has exactly the claimed number of elements / members;
  * hence a definite array (map) header claiming n elements (members) over fewer than n (2·n) remaining bytes is never accepted, and
    a definite string header claiming n bytes over fewer than n remaining bytes is `unexpected_eof`.
-/
import JV.Proofs.CborParserFuel
import JV.Proofs.CborParser
import JV.Proofs.CborRoundtrip
namespace JV.Model.CborParser
open JV
set_option linter.unusedSimpArgs false
set_option linter.unusedVariables false

mutual
  /-- one per node, plus the payload bytes of strings -/
  def Item.weight : Item → Nat
    | .null => 1 | .undef => 1 | .bool _ => 1 | .uint _ => 1 | .nint _ => 1 | .half _ => 1 | .dbl _ => 1
    | .str s => 1 + s.length
    | .bytes b => 1 + b.length
    | .arr xs => 1 + weightList xs
    | .map ms => 1 + weightMembers ms
  def weightList : List Item → Nat
    | [] => 0
    | x :: xs => x.weight + weightList xs
  def weightMembers : List (Item × Item) → Nat
    | [] => 0
    | (k, v) :: ms => k.weight + v.weight + weightMembers ms
end

theorem Item.weight_pos (v : Item) : 1 ≤ v.weight := by
  cases v <;> simp [Item.weight] <;> omega

theorem length_le_weightList : ∀ xs : List Item, xs.length ≤ weightList xs
  | [] => by simp [weightList]
  | x :: xs => by have := length_le_weightList xs; have := x.weight_pos; simp [weightList]; omega

theorem length_le_weightMembers : ∀ ms : List (Item × Item), 2 * ms.length ≤ weightMembers ms
  | [] => by simp [weightMembers]
  | (k, v) :: ms => by
    have := length_le_weightMembers ms; have := k.weight_pos; have := v.weight_pos; simp [weightMembers]; omega

theorem readChunks_weight (major : Nat) : ∀ (fuel : Nat) (s : Bytes) (b r : Bytes),
    readChunks major fuel s = .ok b r → b.length + r.length < s.length := by
  intro fuel
  induction fuel with
  | zero => intro s b r h; simp [readChunks] at h
  | succ fuel ih =>
    intro s b r h
    cases s with
    | nil => simp [readChunks] at h
    | cons ib s =>
      simp only [readChunks, readSize] at h
      (repeat' split at h) <;> first
        | (injection h with h1 h2; subst h2; subst h1; simp; done)
        | (injection h with h1 h2; subst h2; subst h1
           have h1 := readUint64_len ‹readUint64 _ = Res.ok _ _›
           have h2 := ih _ _ _ ‹readChunks _ _ _ = Res.ok _ _›
           simp only [List.length_cons, List.length_drop, List.length_append, List.length_take] at *; omega)
        | cases h

theorem readString_weight {major fuel ib : Nat} {s b r : Bytes} (h : readString major fuel ib s = .ok b r) :
    b.length + r.length ≤ s.length := by
  simp only [readString, readSize] at h
  (repeat' split at h) <;> first
    | exact Nat.le_of_lt (readChunks_weight _ _ _ _ _ h)
    | (injection h with h1 h2; subst h2; subst h1
       have h1 := readUint64_len ‹readUint64 _ = Res.ok _ _›
       simp only [List.length_cons, List.length_drop, List.length_take] at *; omega)
    | cases h

section weight
variable (maxD fuel : Nat)

theorem item_weight_step
    (hL : ∀ d n s v r, items maxD fuel d n s = .ok v r → weightList v + r.length ≤ s.length ∧ v.length = n)
    (hLI : ∀ d s v r, itemsIndef maxD fuel d s = .ok v r → weightList v + r.length < s.length)
    (hM : ∀ d n s v r, members maxD fuel d n s = .ok v r → weightMembers v + r.length ≤ s.length ∧ v.length = n)
    (hMI : ∀ d s v r, membersIndef maxD fuel d s = .ok v r → weightMembers v + r.length < s.length) :
    ∀ d s v r, item maxD (fuel + 1) d s = .ok v r → v.weight + r.length ≤ s.length := by
  intro d s v r h
  cases s with
  | nil => simp [item] at h
  | cons ib s =>
    rcases (by omega : ib / 32 = 0 ∨ ib / 32 = 1 ∨ ib / 32 = 2 ∨ ib / 32 = 3 ∨ ib / 32 = 4 ∨ ib / 32 = 5 ∨ ib / 32 = 6 ∨ ib / 32 = 7 ∨ 8 ≤ ib / 32)
      with hm | hm | hm | hm | hm | hm | hm | hm | hm
    all_goals first
      | (have e : ¬ ib / 32 = 0 ∧ ¬ ib / 32 = 1 ∧ ¬ ib / 32 = 2 ∧ ¬ ib / 32 = 3 ∧ ¬ ib / 32 = 4 ∧ ¬ ib / 32 = 5 ∧ ¬ ib / 32 = 6 ∧ ¬ ib / 32 = 7 := by omega
         simp [item, e] at h; done)
      | simp only [item, readSize, hm, if_true, if_false, Nat.reduceEqDiff] at h
    all_goals (repeat' split at h) <;> first
      | (injection h with h1 h2; subst h2; subst h1
         try (have := hL _ _ _ _ _ ‹items _ _ _ _ _ = Res.ok _ _›)
         try (have := hLI _ _ _ _ ‹itemsIndef _ _ _ _ = Res.ok _ _›)
         try (have := hM _ _ _ _ _ ‹members _ _ _ _ _ = Res.ok _ _›)
         try (have := hMI _ _ _ _ ‹membersIndef _ _ _ _ = Res.ok _ _›)
         try (have := readUint64_len ‹readUint64 _ = Res.ok _ _›)
         try (have := readInt64_len ‹readInt64 _ = Res.ok _ _›)
         try (have := readDouble_len ‹readDouble _ = Res.ok _ _›)
         try (have := readString_weight ‹readString _ _ _ _ = Res.ok _ _›)
         simp only [Item.weight, List.length_cons] at *
         omega)
      | cases h

variable (hI : ∀ d s v r, item maxD fuel d s = .ok v r → v.weight + r.length ≤ s.length)

include hI in
theorem items_weight_step (hL : ∀ d n s v r, items maxD fuel d n s = .ok v r → weightList v + r.length ≤ s.length ∧ v.length = n) :
    ∀ d n s v r, items maxD (fuel + 1) d n s = .ok v r → weightList v + r.length ≤ s.length ∧ v.length = n := by
  intro d n s v r h
  cases n with
  | zero => simp only [items] at h; injection h with h1 h2; subst h2; subst h1; simp [weightList]
  | succ n =>
    simp only [items] at h
    cases h1 : item maxD fuel d s with
    | fail f => simp [h1] at h
    | ok x s1 =>
      cases h2 : items maxD fuel d n s1 with
      | fail f => simp [h1, h2] at h
      | ok xs rest =>
        simp only [h1, h2] at h
        injection h with h3 h4; subst h4; subst h3
        have := hI _ _ _ _ h1
        have := hL _ _ _ _ _ h2
        simp only [weightList, List.length_cons]; omega

include hI in
theorem itemsIndef_weight_step (hL : ∀ d s v r, itemsIndef maxD fuel d s = .ok v r → weightList v + r.length < s.length) :
    ∀ d s v r, itemsIndef maxD (fuel + 1) d s = .ok v r → weightList v + r.length < s.length := by
  intro d s v r h
  cases s with
  | nil => simp [itemsIndef] at h
  | cons ib s =>
    simp only [itemsIndef] at h
    by_cases hff : ib = 255
    · simp only [hff, if_true] at h; injection h with h1 h2; subst h2; subst h1; simp [weightList]
    · simp only [hff, if_false] at h
      cases h1 : item maxD fuel d (ib :: s) with
      | fail f => simp [h1] at h
      | ok x s1 =>
        cases h2 : itemsIndef maxD fuel d s1 with
        | fail f => simp [h1, h2] at h
        | ok xs rest =>
          simp only [h1, h2] at h
          injection h with h3 h4; subst h4; subst h3
          have := hI _ _ _ _ h1
          have := hL _ _ _ _ h2
          simp only [weightList]; omega

include hI in
theorem members_weight_step (hL : ∀ d n s v r, members maxD fuel d n s = .ok v r → weightMembers v + r.length ≤ s.length ∧ v.length = n) :
    ∀ d n s v r, members maxD (fuel + 1) d n s = .ok v r → weightMembers v + r.length ≤ s.length ∧ v.length = n := by
  intro d n s v r h
  cases n with
  | zero => simp only [members] at h; injection h with h1 h2; subst h2; subst h1; simp [weightMembers]
  | succ n =>
    simp only [members] at h
    cases h1 : item maxD fuel d s with
    | fail f => simp [h1] at h
    | ok k s1 =>
      cases h2 : item maxD fuel d s1 with
      | fail f => simp [h1, h2] at h
      | ok x s2 =>
        cases h3 : members maxD fuel d n s2 with
        | fail f => simp [h1, h2, h3] at h
        | ok xs rest =>
          simp only [h1, h2, h3] at h
          injection h with h4 h5; subst h5; subst h4
          have := hI _ _ _ _ h1
          have := hI _ _ _ _ h2
          have := hL _ _ _ _ _ h3
          simp only [weightMembers, List.length_cons]; omega

include hI in
theorem membersIndef_weight_step (hL : ∀ d s v r, membersIndef maxD fuel d s = .ok v r → weightMembers v + r.length < s.length) :
    ∀ d s v r, membersIndef maxD (fuel + 1) d s = .ok v r → weightMembers v + r.length < s.length := by
  intro d s v r h
  cases s with
  | nil => simp [membersIndef] at h
  | cons ib s =>
    simp only [membersIndef] at h
    by_cases hff : ib = 255
    · simp only [hff, if_true] at h; injection h with h1 h2; subst h2; subst h1; simp [weightMembers]
    · simp only [hff, if_false] at h
      cases h1 : item maxD fuel d (ib :: s) with
      | fail f => simp [h1] at h
      | ok k s1 =>
        cases h2 : item maxD fuel d s1 with
        | fail f => simp [h1, h2] at h
        | ok x s2 =>
          cases h3 : membersIndef maxD fuel d s2 with
          | fail f => simp [h1, h2, h3] at h
          | ok xs rest =>
            simp only [h1, h2, h3] at h
            injection h with h4 h5; subst h5; subst h4
            have := hI _ _ _ _ h1
            have := hI _ _ _ _ h2
            have := hL _ _ _ _ h3
            simp only [weightMembers]; omega

end weight

/-- the weight of what is delivered is at most the number of bytes consumed; definite containers have the claimed count -/
theorem weight_all (maxD : Nat) : ∀ fuel : Nat,
    (∀ d s v r, item maxD fuel d s = .ok v r → v.weight + r.length ≤ s.length) ∧
    (∀ d n s v r, items maxD fuel d n s = .ok v r → weightList v + r.length ≤ s.length ∧ v.length = n) ∧
    (∀ d s v r, itemsIndef maxD fuel d s = .ok v r → weightList v + r.length < s.length) ∧
    (∀ d n s v r, members maxD fuel d n s = .ok v r → weightMembers v + r.length ≤ s.length ∧ v.length = n) ∧
    (∀ d s v r, membersIndef maxD fuel d s = .ok v r → weightMembers v + r.length < s.length)
  | 0 => by
    refine ⟨?_, ?_, ?_, ?_, ?_⟩
    · intro d s v r h; simp [item] at h
    · intro d n s v r h; cases n with
      | zero => simp only [items] at h; injection h with h1 h2; subst h2; subst h1; simp [weightList]
      | succ n => simp [items] at h
    · intro d s v r h; simp [itemsIndef] at h
    · intro d n s v r h; cases n with
      | zero => simp only [members] at h; injection h with h1 h2; subst h2; subst h1; simp [weightMembers]
      | succ n => simp [members] at h
    · intro d s v r h; simp [membersIndef] at h
  | fuel + 1 => by
    obtain ⟨hI, hL, hLI, hM, hMI⟩ := weight_all maxD fuel
    exact ⟨item_weight_step maxD fuel hL hLI hM hMI, items_weight_step maxD fuel hI hL, itemsIndef_weight_step maxD fuel hI hLI,
      members_weight_step maxD fuel hI hM, membersIndef_weight_step maxD fuel hI hMI⟩

theorem decode_weight_le {maxD : Nat} {s : Bytes} {v : Item} {r : Bytes} (h : decode maxD s = .ok v r) :
    v.weight + r.length ≤ s.length := (weight_all maxD _).1 0 s v r h

/-! ### claimed lengths and counts -/

/-- the head the encoder writes (shortest form of `major`, `n`) is read back as `n` by `read_uint64` / `read_size` -/
theorem readUint64_writeHead (major n : Nat) (hm : major < 8) (hn : n < 2 ^ 64) (rest : Bytes) :
    ∃ ib tail, Model.Cbor.writeHead major n ++ rest = ib :: tail ∧ ib / 32 = major ∧ ib % 32 < 28 ∧
      readUint64 (ib :: tail) = .ok n rest := by
  obtain ⟨ib, tail, he, hmaj, hai, hr⟩ := Model.Cbor.head_read major n hm hn rest
  refine ⟨ib, tail, he, hmaj, hai, ?_⟩
  have : ¬ 28 ≤ ib % 32 := by omega
  rw [readUint64_eq]; simp [hr, this]

/-- a definite byte / text string header claiming n bytes over fewer than n remaining bytes: unexpected_eof, at every level -/
theorem string_claim_eof (maxD major n : Nat) (hm : major = 2 ∨ major = 3) (hn : n < 2 ^ 64) (short : Bytes) (h : short.length < n)
    (fuel d : Nat) : item maxD (fuel + 1) d (Model.Cbor.writeHead major n ++ short) = .fail (.err .unexpectedEof) := by
  obtain ⟨ib, tail, he, hmaj, hai, hr⟩ := readUint64_writeHead major n (by omega) hn short
  have h31 : ¬ ib % 32 = 31 := by omega
  rw [he]
  rcases hm with hm | hm <;> subst hm <;> simp [item, hmaj, readString, readSize, hr, h, h31]

/-- a definite array header claiming n elements over fewer than n remaining bytes is never accepted -/
theorem array_claim_refused (maxD n : Nat) (hn : n < 2 ^ 64) (short : Bytes) (h : short.length < n) (fuel d : Nat) (v : Item) (r : Bytes) :
    item maxD fuel d (Model.Cbor.writeHead 4 n ++ short) ≠ .ok v r := by
  obtain ⟨ib, tail, he, hmaj, hai, hr⟩ := readUint64_writeHead 4 n (by omega) hn short
  have h31 : ¬ ib % 32 = 31 := by omega
  rw [he]
  intro hok
  cases fuel with
  | zero => simp [item] at hok
  | succ fuel =>
    by_cases hdep : d + 1 > maxD
    · simp [item, hmaj, hdep] at hok
    · cases hi : items maxD fuel (d + 1) n short with
      | fail f => simp [item, hmaj, hdep, h31, readSize, hr, hi] at hok
      | ok xs r2 =>
        have := (weight_all maxD fuel).2.1 _ _ _ _ _ hi
        have := length_le_weightList xs
        omega

/-- a definite map header claiming n members over fewer than 2·n remaining bytes is never accepted -/
theorem map_claim_refused (maxD n : Nat) (hn : n < 2 ^ 64) (short : Bytes) (h : short.length < 2 * n) (fuel d : Nat) (v : Item) (r : Bytes) :
    item maxD fuel d (Model.Cbor.writeHead 5 n ++ short) ≠ .ok v r := by
  obtain ⟨ib, tail, he, hmaj, hai, hr⟩ := readUint64_writeHead 5 n (by omega) hn short
  have h31 : ¬ ib % 32 = 31 := by omega
  rw [he]
  intro hok
  cases fuel with
  | zero => simp [item] at hok
  | succ fuel =>
    by_cases hdep : d + 1 > maxD
    · simp [item, hmaj, hdep] at hok
    · cases hi : members maxD fuel (d + 1) n short with
      | fail f => simp [item, hmaj, hdep, h31, readSize, hr, hi] at hok
      | ok xs r2 =>
        have := (weight_all maxD fuel).2.2.2.1 _ _ _ _ _ hi
        have := length_le_weightMembers xs
        omega

end JV.Model.CborParser
