/-
  JV.Proofs.JsonEncodeLoose — "loose renderings": the compact text of a value with arbitrary RFC 8259 white space at the
  places the grammar allows it (after "[" "{" "," ":" and before "]" "}" "," ":"). Two facts:
    1. the reference parser reads every loose rendering of a well-formed value back as that value (`val_loose`);
    2. what the indenting encoder model writes is a loose rendering (`encVal_loose`), for all layout options whose
       new_line_chars and indent_char are white space.
  Together: parse(dump_pretty(v)) = v for the model (`pretty_parses_back`).
-/
import JV.Proofs.JsonEncodeStrip
namespace JV
namespace Model
namespace JsonEncode
open Spec.Rfc8259

/-- separator in front of an element / member: white space, and a comma when it is not the first -/
def sepL (first : Bool) (w1 w2 : Bytes) : Bytes := if first then w1 ++ w2 else w1 ++ 44 :: w2

mutual
  def Loose (sol : Bool) : JT → Bytes → Prop
    | .null, s => s = nullLit
    | .bool true, s => s = trueLit
    | .bool false, s => s = falseLit
    | .num lit, s => s = lit
    | .str t, s => s = strLit sol t
    | .arr xs, s => ∃ body w, s = 91 :: (body ++ (w ++ [93])) ∧ AllWs w ∧ LooseElems sol xs true body
    | .obj ms, s => ∃ body w, s = 123 :: (body ++ (w ++ [125])) ∧ AllWs w ∧ LooseMembers sol ms true body
  def LooseElems (sol : Bool) : List JT → Bool → Bytes → Prop
    | [], _, s => s = []
    | x :: xs, first, s => ∃ w1 w2 core rest, s = sepL first w1 w2 ++ (core ++ rest) ∧ AllWs w1 ∧ AllWs w2 ∧
        Loose sol x core ∧ LooseElems sol xs false rest
  def LooseMembers (sol : Bool) : List (Bytes × JT) → Bool → Bytes → Prop
    | [], _, s => s = []
    | (k, x) :: ms, first, s => ∃ w1 w2 w3 w4 core rest,
        s = sepL first w1 w2 ++ (strLit sol k ++ (w3 ++ 58 :: (w4 ++ (core ++ rest)))) ∧
        AllWs w1 ∧ AllWs w2 ∧ AllWs w3 ∧ AllWs w4 ∧ Loose sol x core ∧ LooseMembers sol ms false rest
end

/-! ### white space in front of the parser -/

theorem skipWs_ws (cm : Bool) : ∀ (w : Bytes) (fuel c : Nat) (cs : Bytes), AllWs w → isWs c = false → c ≠ 47 → w.length < fuel →
    skipWs cm fuel (w ++ c :: cs) = some (c :: cs)
  | [], fuel, c, cs, _, h1, h2, hf => by
    obtain ⟨f, rfl⟩ : ∃ f, fuel = f + 1 := ⟨fuel - 1, by simp at hf; omega⟩
    exact skipWs_stay cm f c cs h1 h2
  | x :: w, fuel, c, cs, hw, h1, h2, hf => by
    obtain ⟨f, rfl⟩ : ∃ f, fuel = f + 1 := ⟨fuel - 1, by simp at hf; omega⟩
    have hx : isWs x = true := hw x (by simp)
    simp only [List.cons_append, skipWs, hx, if_true]
    exact skipWs_ws cm w f c cs (fun y hy => hw y (by simp [hy])) h1 h2 (by simp at hf; omega)

/-- the form in which the parser calls it: fuel = length + 1 -/
theorem skipWs_ws' (cm : Bool) (w : Bytes) (c : Nat) (cs : Bytes) (hw : AllWs w) (h1 : isWs c = false) (h2 : c ≠ 47) :
    skipWs cm ((w ++ c :: cs).length + 1) (w ++ c :: cs) = some (c :: cs) :=
  skipWs_ws cm w _ c cs hw h1 h2 (by simp; omega)

theorem loose_head (sol : Bool) (v : JT) (s : Bytes) (hl : Loose sol v s) (h : WF v) : ∃ c cs, s = c :: cs ∧ Start c := by
  cases v with
  | null => exact ⟨_, _, hl, by decide⟩
  | bool b => cases b <;> exact ⟨_, _, hl, by decide⟩
  | num lit =>
    have := compactS_head sol (.num lit) h
    simp only [Loose] at hl
    subst hl
    simpa [compactS] using this
  | str t => exact ⟨_, _, hl, by decide⟩
  | arr xs => obtain ⟨body, w, rfl, _⟩ := hl; exact ⟨91, _, rfl, by decide⟩
  | obj ms => obtain ⟨body, w, rfl, _⟩ := hl; exact ⟨123, _, rfl, by decide⟩

/-- what may follow a value: white space, then nothing or "," "]" "}" -/
def DelimW (rest : Bytes) : Prop := ∃ w tl, rest = w ++ tl ∧ AllWs w ∧ Delim tl

theorem DelimW.stop {rest : Bytes} (h : DelimW rest) : Stop rest := by
  obtain ⟨w, tl, rfl, hw, hd⟩ := h
  cases w with
  | nil => simpa using hd.stop
  | cons x w =>
    apply stop_cons
    have hx : isWs x = true := hw x (by simp)
    simp only [isWs, Bool.or_eq_true, decide_eq_true_eq] at hx
    simp only [isDigit, Bool.and_eq_false_iff, decide_eq_false_iff_not]
    omega

theorem parseValue_num_stop (fl : Flags) (fuel d : Nat) (lit rest : Bytes) (h : parseNumber lit = some (lit, [])) (hr : Stop rest) :
    parseValue fl (fuel + 1) d (lit ++ rest) = some (.num lit, rest) := by
  have ha := parseNumber_append rest hr lit lit [] h
  obtain ⟨c, cs, rfl, hc⟩ := parseNumber_head lit _ _ h
  simp only [List.cons_append] at ha ⊢
  have hne : c ≠ 123 ∧ c ≠ 91 ∧ c ≠ 34 ∧ c ≠ 116 ∧ c ≠ 102 ∧ c ≠ 110 := by
    rcases hc with rfl | hc
    · decide
    · simp only [isDigit, Bool.and_eq_true, decide_eq_true_eq] at hc; omega
  simp [parseValue, hne, ha]

/-! ### one step of the reference parser on text with white space -/

theorem pv_arr_empty (fl : Flags) (fuel d : Nat) (w rest : Bytes) (hw : AllWs w) (hd : d + 1 ≤ fl.maxDepth) :
    parseValue fl (fuel + 1) d (91 :: (w ++ 93 :: rest)) = some (.arr [], rest) := by
  have h : ¬ d + 1 > fl.maxDepth := by omega
  simp only [parseValue, h, if_false, skipWs_ws' _ w 93 rest hw (by decide) (by decide)]
  simp

theorem pv_obj_empty (fl : Flags) (fuel d : Nat) (w rest : Bytes) (hw : AllWs w) (hd : d + 1 ≤ fl.maxDepth) :
    parseValue fl (fuel + 1) d (123 :: (w ++ 125 :: rest)) = some (.obj [], rest) := by
  have h : ¬ d + 1 > fl.maxDepth := by omega
  simp only [parseValue, h, if_false, skipWs_ws' _ w 125 rest hw (by decide) (by decide)]
  simp

theorem pv_arr_cons (fl : Flags) (fuel d c : Nat) (w tl : Bytes) (hw : AllWs w) (hd : d + 1 ≤ fl.maxDepth) (hc : Start c) :
    parseValue fl (fuel + 1) d (91 :: (w ++ c :: tl)) = (parseElems fl fuel (d + 1) (c :: tl)).map fun p => (.arr p.1, p.2) := by
  have h : ¬ d + 1 > fl.maxDepth := by omega
  simp only [parseValue, h, if_false, skipWs_ws' _ w c tl hw hc.1 hc.2.1]
  simp only [show (91 : Nat) ≠ 123 by decide, if_false, if_true]
  split
  · rename_i heq; cases heq
  · rename_i heq; cases heq; exact absurd rfl hc.2.2.1
  · rename_i heq; cases heq; rfl

theorem pv_obj_cons (fl : Flags) (fuel d c : Nat) (w tl : Bytes) (hw : AllWs w) (hd : d + 1 ≤ fl.maxDepth) (hc : Start c) :
    parseValue fl (fuel + 1) d (123 :: (w ++ c :: tl)) = (parseMembers fl fuel (d + 1) (c :: tl)).map fun p => (.obj p.1, p.2) := by
  have h : ¬ d + 1 > fl.maxDepth := by omega
  simp only [parseValue, h, if_false, if_true, skipWs_ws' _ w c tl hw hc.1 hc.2.1]
  split
  · rename_i heq; cases heq
  · rename_i heq; cases heq; exact absurd rfl hc.2.2.2
  · rename_i heq; cases heq; rfl

theorem pe_last (fl : Flags) (fuel d : Nat) (s w rest : Bytes) (v : JT) (hw : AllWs w)
    (h : parseValue fl fuel d s = some (v, w ++ 93 :: rest)) : parseElems fl (fuel + 1) d s = some ([v], rest) := by
  simp only [parseElems, h, skipWs_ws' _ w 93 rest hw (by decide) (by decide)]

theorem pe_more (fl : Flags) (fuel d c : Nat) (s w w2 tl : Bytes) (v : JT) (hw : AllWs w) (hw2 : AllWs w2) (hc : Start c)
    (h : parseValue fl fuel d s = some (v, w ++ 44 :: (w2 ++ c :: tl))) :
    parseElems fl (fuel + 1) d s = (parseElems fl fuel d (c :: tl)).map fun p => (v :: p.1, p.2) := by
  simp only [parseElems, h, skipWs_ws' _ w 44 _ hw (by decide) (by decide), skipWs_ws' _ w2 c tl hw2 hc.1 hc.2.1]
  split
  · rename_i heq; cases heq
  · rename_i heq; cases heq; exact absurd rfl hc.2.2.1
  · rename_i heq; cases heq; rfl

theorem pm_last (fl : Flags) (fuel d c : Nat) (s w3 w4 w tl rest k : Bytes) (v : JT)
    (hw3 : AllWs w3) (hw4 : AllWs w4) (hw : AllWs w) (hc : Start c)
    (hk : parseString s = some (k, w3 ++ 58 :: (w4 ++ c :: tl)))
    (h : parseValue fl fuel d (c :: tl) = some (v, w ++ 125 :: rest)) : parseMembers fl (fuel + 1) d s = some ([(k, v)], rest) := by
  simp only [parseMembers, hk, skipWs_ws' _ w3 58 _ hw3 (by decide) (by decide), skipWs_ws' _ w4 c tl hw4 hc.1 hc.2.1, h,
    skipWs_ws' _ w 125 rest hw (by decide) (by decide)]

theorem pm_more (fl : Flags) (fuel d c c2 : Nat) (s w3 w4 w w2 tl tl2 k : Bytes) (v : JT)
    (hw3 : AllWs w3) (hw4 : AllWs w4) (hw : AllWs w) (hw2 : AllWs w2) (hc : Start c) (hc2 : Start c2)
    (hk : parseString s = some (k, w3 ++ 58 :: (w4 ++ c :: tl)))
    (h : parseValue fl fuel d (c :: tl) = some (v, w ++ 44 :: (w2 ++ c2 :: tl2))) :
    parseMembers fl (fuel + 1) d s = (parseMembers fl fuel d (c2 :: tl2)).map fun p => ((k, v) :: p.1, p.2) := by
  simp only [parseMembers, hk, skipWs_ws' _ w3 58 _ hw3 (by decide) (by decide), skipWs_ws' _ w4 c tl hw4 hc.1 hc.2.1, h,
    skipWs_ws' _ w 44 _ hw (by decide) (by decide), skipWs_ws' _ w2 c2 tl2 hw2 hc2.1 hc2.2.1]
  split
  · rename_i heq; cases heq
  · rename_i heq; cases heq; exact absurd rfl hc2.2.2.2
  · rename_i heq; cases heq; rfl

theorem delimW_close (w : Bytes) (c : Nat) (rest : Bytes) (hw : AllWs w) (hc : c = 44 ∨ c = 93 ∨ c = 125) : DelimW (w ++ c :: rest) :=
  ⟨w, c :: rest, rfl, hw, Or.inr ⟨c, rest, rfl, hc⟩⟩

/-! ### the reference parser reads every loose rendering back -/
mutual
  theorem val_loose (fl : Flags) (sol : Bool) : ∀ (v : JT) (s rest : Bytes) (fuel d : Nat),
      Loose sol v s → WF v → need v ≤ fuel → d + depth v ≤ fl.maxDepth → DelimW rest →
      parseValue fl fuel d (s ++ rest) = some (v, rest)
    | .null, s, rest, fuel, d, hl, _, hf, _, _ => by
      obtain ⟨f, rfl⟩ : ∃ f, fuel = f + 1 := ⟨fuel - 1, by simp [need] at hf; omega⟩
      simp only [Loose] at hl; subst hl
      exact (parseValue_scalar_lit fl f d rest).1
    | .bool true, s, rest, fuel, d, hl, _, hf, _, _ => by
      obtain ⟨f, rfl⟩ : ∃ f, fuel = f + 1 := ⟨fuel - 1, by simp [need] at hf; omega⟩
      simp only [Loose] at hl; subst hl
      exact (parseValue_scalar_lit fl f d rest).2.1
    | .bool false, s, rest, fuel, d, hl, _, hf, _, _ => by
      obtain ⟨f, rfl⟩ : ∃ f, fuel = f + 1 := ⟨fuel - 1, by simp [need] at hf; omega⟩
      simp only [Loose] at hl; subst hl
      exact (parseValue_scalar_lit fl f d rest).2.2
    | .num lit, s, rest, fuel, d, hl, hw, hf, _, hr => by
      obtain ⟨f, rfl⟩ : ∃ f, fuel = f + 1 := ⟨fuel - 1, by simp [need] at hf; omega⟩
      simp only [Loose] at hl; subst hl
      have h' : parseNumber s = some (s, []) := by simpa [WF, wf] using hw
      exact parseValue_num_stop fl f d s rest h' hr.stop
    | .str t, s, rest, fuel, d, hl, hw, hf, _, _ => by
      obtain ⟨f, rfl⟩ : ∃ f, fuel = f + 1 := ⟨fuel - 1, by simp [need] at hf; omega⟩
      simp only [Loose] at hl; subst hl
      have h' : validUtf8 t = true := by simpa [WF, wf] using hw
      exact parseValue_str fl f d sol t rest h'
    | .arr [], s, rest, fuel, d, hl, _, hf, hd, _ => by
      obtain ⟨f, rfl⟩ : ∃ f, fuel = f + 1 := ⟨fuel - 1, by simp [need] at hf; omega⟩
      have hd' : d + 1 ≤ fl.maxDepth := by simp [depth] at hd; omega
      obtain ⟨body, w, rfl, hw, hb⟩ := hl
      simp only [LooseElems] at hb; subst hb
      simpa using pv_arr_empty fl f d w rest hw hd'
    | .arr (x :: xs), s, rest, fuel, d, hl, hw, hf, hd, _ => by
      obtain ⟨f, rfl⟩ : ∃ f, fuel = f + 1 := ⟨fuel - 1, by simp [need] at hf; omega⟩
      have hd' : d + 1 ≤ fl.maxDepth := by simp [depth] at hd; omega
      have hw' : wfList (x :: xs) = true := by simpa [WF, wf] using hw
      have hwx : WF x := by simp [wfList] at hw'; exact hw'.1
      obtain ⟨body, w, rfl, hww, hb⟩ := hl
      obtain ⟨w1, w2, core, tail, rfl, hw1, hw2, hcore, htail⟩ := hb
      obtain ⟨c, cs, rfl, hc⟩ := loose_head sol x core hcore hwx
      have ih := elems_loose fl sol (x :: xs) (c :: cs) tail w rest f (d + 1) (by simp) ⟨hcore, htail⟩ hww hw'
        (by simp [need] at hf; omega) (by simp only [depth] at hd; omega)
      simp only [List.cons_append] at ih
      have e : (91 :: (sepL true w1 w2 ++ (c :: cs ++ tail) ++ (w ++ [93])) ++ rest) =
          91 :: ((w1 ++ w2) ++ c :: (cs ++ (tail ++ (w ++ 93 :: rest)))) := by simp [sepL]
      rw [e, pv_arr_cons fl f d c (w1 ++ w2) _ (allWs_append hw1 hw2) hd' hc, ih]
      rfl
    | .obj [], s, rest, fuel, d, hl, _, hf, hd, _ => by
      obtain ⟨f, rfl⟩ : ∃ f, fuel = f + 1 := ⟨fuel - 1, by simp [need] at hf; omega⟩
      have hd' : d + 1 ≤ fl.maxDepth := by simp [depth] at hd; omega
      obtain ⟨body, w, rfl, hw, hb⟩ := hl
      simp only [LooseMembers] at hb; subst hb
      simpa using pv_obj_empty fl f d w rest hw hd'
    | .obj ((k, x) :: ms), s, rest, fuel, d, hl, hw, hf, hd, _ => by
      obtain ⟨f, rfl⟩ : ∃ f, fuel = f + 1 := ⟨fuel - 1, by simp [need] at hf; omega⟩
      have hd' : d + 1 ≤ fl.maxDepth := by simp [depth] at hd; omega
      have hw' : wfMembers ((k, x) :: ms) = true := by simpa [WF, wf] using hw
      obtain ⟨body, w, rfl, hww, hb⟩ := hl
      obtain ⟨w1, w2, w3, w4, core, tail, rfl, hw1, hw2, hw3, hw4, hcore, htail⟩ := hb
      have ih := members_loose fl sol ((k, x) :: ms) w3 w4 core tail w rest f (d + 1) (by simp) ⟨hw3, hw4, hcore, htail⟩ hww hw'
        (by simp [need] at hf; omega) (by simp only [depth] at hd; omega)
      obtain ⟨tl, htl⟩ := strLit_head sol k
      dsimp only at ih
      rw [htl] at ih
      simp only [List.cons_append] at ih
      have e : (123 :: (sepL true w1 w2 ++ (strLit sol k ++ (w3 ++ 58 :: (w4 ++ (core ++ tail)))) ++ (w ++ [125])) ++ rest) =
          123 :: ((w1 ++ w2) ++ 34 :: (tl ++ (w3 ++ 58 :: (w4 ++ (core ++ (tail ++ (w ++ 125 :: rest))))))) := by
        simp [sepL, htl]
      rw [e, pv_obj_cons fl f d 34 (w1 ++ w2) _ (allWs_append hw1 hw2) hd' start_quote, ih]
      rfl
  theorem elems_loose (fl : Flags) (sol : Bool) : ∀ (xs : List JT) (core tail w rest : Bytes) (fuel d : Nat), xs ≠ [] →
      (match xs with | [] => True | x :: xs' => Loose sol x core ∧ LooseElems sol xs' false tail) → AllWs w →
      wfList xs = true → needList xs ≤ fuel → d + depthList xs ≤ fl.maxDepth →
      parseElems fl fuel d (core ++ (tail ++ (w ++ 93 :: rest))) = some (xs, rest)
    | [], _, _, _, _, _, _, h, _, _, _, _, _ => absurd rfl h
    | [x], core, tail, w, rest, fuel, d, _, hl, hww, hw, hf, hd => by
      obtain ⟨f, rfl⟩ : ∃ f, fuel = f + 1 := ⟨fuel - 1, by simp [needList] at hf; omega⟩
      have hwx : WF x := by simp [wfList] at hw; exact hw
      obtain ⟨hcore, htail⟩ := hl
      simp only [LooseElems] at htail; subst htail
      have i1 := val_loose fl sol x core (w ++ 93 :: rest) f d hcore hwx (by simp [needList] at hf; omega)
        (by simp [depthList] at hd; omega) (delimW_close w 93 rest hww (by simp))
      simp only [List.nil_append]
      exact pe_last fl f d _ w rest x hww i1
    | x :: y :: ys, core, tail, w, rest, fuel, d, _, hl, hww, hw, hf, hd => by
      obtain ⟨f, rfl⟩ : ∃ f, fuel = f + 1 := ⟨fuel - 1, by simp [needList] at hf; omega⟩
      have hw2 : WF x ∧ wfList (y :: ys) = true := by
        have := hw; simp only [wfList, Bool.and_eq_true] at this ⊢; exact ⟨this.1, this.2⟩
      have hwy : WF y := by have := hw2.2; simp only [wfList, Bool.and_eq_true] at this; exact this.1
      obtain ⟨hcore, htail⟩ := hl
      obtain ⟨w1, w2, core', tail', rfl, hw1, hw2', hcore', htail'⟩ := htail
      obtain ⟨c, cs, rfl, hc⟩ := loose_head sol y core' hcore' hwy
      have hf1 : need x ≤ f ∧ needList (y :: ys) ≤ f := by simp only [needList] at hf ⊢; omega
      have hd1 : d + depth x ≤ fl.maxDepth ∧ d + depthList (y :: ys) ≤ fl.maxDepth := by
        simp only [depthList] at hd ⊢; omega
      have e : sepL false w1 w2 ++ (c :: cs ++ tail') ++ (w ++ 93 :: rest) =
          w1 ++ 44 :: (w2 ++ c :: (cs ++ (tail' ++ (w ++ 93 :: rest)))) := by simp [sepL]
      have i1 := val_loose fl sol x core _ f d hcore hw2.1 hf1.1 hd1.1
        (delimW_close w1 44 (w2 ++ c :: (cs ++ (tail' ++ (w ++ 93 :: rest)))) hw1 (by simp))
      have i2 := elems_loose fl sol (y :: ys) (c :: cs) tail' w rest f d (by simp) ⟨hcore', htail'⟩ hww hw2.2 hf1.2 hd1.2
      simp only [List.cons_append] at i2
      rw [e, pe_more fl f d c _ w1 w2 _ x hw1 hw2' hc i1, i2]
      rfl
  theorem members_loose (fl : Flags) (sol : Bool) : ∀ (ms : List (Bytes × JT)) (w3 w4 core tail w rest : Bytes) (fuel d : Nat), ms ≠ [] →
      (match ms with | [] => True | (_, x) :: ms' => AllWs w3 ∧ AllWs w4 ∧ Loose sol x core ∧ LooseMembers sol ms' false tail) → AllWs w →
      wfMembers ms = true → needMembers ms ≤ fuel → d + depthMembers ms ≤ fl.maxDepth →
      parseMembers fl fuel d ((match ms with | [] => [] | (k, _) :: _ => strLit sol k) ++ (w3 ++ 58 :: (w4 ++ (core ++ (tail ++ (w ++ 125 :: rest)))))) = some (ms, rest)
    | [], _, _, _, _, _, _, _, _, h, _, _, _, _, _ => absurd rfl h
    | [(k, x)], w3, w4, core, tail, w, rest, fuel, d, _, hl, hww, hw, hf, hd => by
      obtain ⟨f, rfl⟩ : ∃ f, fuel = f + 1 := ⟨fuel - 1, by simp [needMembers] at hf; omega⟩
      have hw1 : validUtf8 k = true ∧ WF x := by
        have := hw; simp only [wfMembers, Bool.and_eq_true, Bool.and_true] at this; exact this
      obtain ⟨hw3, hw4, hcore, htail⟩ := hl
      simp only [LooseMembers] at htail; subst htail
      obtain ⟨c, cs, rfl, hc⟩ := loose_head sol x core hcore hw1.2
      have i1 := val_loose fl sol x (c :: cs) (w ++ 125 :: rest) f d hcore hw1.2 (by simp [needMembers] at hf; omega)
        (by simp [depthMembers] at hd; omega) (delimW_close w 125 rest hww (by simp))
      have hk := parseString_strLit sol k (w3 ++ 58 :: (w4 ++ (c :: cs ++ ([] ++ (w ++ 125 :: rest))))) hw1.1
      simp only [List.nil_append, List.cons_append] at i1 hk ⊢
      exact pm_last fl f d c _ w3 w4 w _ rest k x hw3 hw4 hww hc hk i1
    | (k, x) :: (k2, y) :: ms, w3, w4, core, tail, w, rest, fuel, d, _, hl, hww, hw, hf, hd => by
      obtain ⟨f, rfl⟩ : ∃ f, fuel = f + 1 := ⟨fuel - 1, by simp [needMembers] at hf; omega⟩
      have hw2 : (validUtf8 k = true ∧ WF x) ∧ wfMembers ((k2, y) :: ms) = true := by
        have := hw; simp only [wfMembers, Bool.and_eq_true] at this ⊢; exact this
      obtain ⟨hw3, hw4, hcore, htail⟩ := hl
      obtain ⟨w1, w2, w3', w4', core', tail', rfl, hw1, hw2', hw3', hw4', hcore', htail'⟩ := htail
      obtain ⟨c, cs, rfl, hc⟩ := loose_head sol x core hcore hw2.1.2
      obtain ⟨tl2, htl2⟩ := strLit_head sol k2
      have hf1 : need x ≤ f ∧ needMembers ((k2, y) :: ms) ≤ f := by simp only [needMembers] at hf ⊢; omega
      have hd1 : d + depth x ≤ fl.maxDepth ∧ d + depthMembers ((k2, y) :: ms) ≤ fl.maxDepth := by
        simp only [depthMembers] at hd ⊢; omega
      have e : sepL false w1 w2 ++ (strLit sol k2 ++ (w3' ++ 58 :: (w4' ++ (core' ++ tail')))) ++ (w ++ 125 :: rest) =
          w1 ++ 44 :: (w2 ++ 34 :: (tl2 ++ (w3' ++ 58 :: (w4' ++ (core' ++ (tail' ++ (w ++ 125 :: rest))))))) := by
        simp [sepL, htl2]
      have i1 := val_loose fl sol x (c :: cs) _ f d hcore hw2.1.2 hf1.1 hd1.1
        (delimW_close w1 44 (w2 ++ 34 :: (tl2 ++ (w3' ++ 58 :: (w4' ++ (core' ++ (tail' ++ (w ++ 125 :: rest))))))) hw1 (by simp))
      have i2 := members_loose fl sol ((k2, y) :: ms) w3' w4' core' tail' w rest f d (by simp) ⟨hw3', hw4', hcore', htail'⟩ hww hw2.2 hf1.2 hd1.2
      have hk := parseString_strLit sol k (w3 ++ 58 :: (w4 ++ (c :: cs ++
        (w1 ++ 44 :: (w2 ++ 34 :: (tl2 ++ (w3' ++ 58 :: (w4' ++ (core' ++ (tail' ++ (w ++ 125 :: rest))))))))))) hw2.1.1
      simp only [htl2, List.cons_append] at i1 i2 hk
      simp only [e, List.cons_append]
      rw [pm_more fl f d c 34 _ w3 w4 w1 w2 _ _ k x hw3 hw4 hw1 hw2' hc start_quote hk i1, i2]
      rfl
end

/-! ### what the indenting encoder writes is a loose rendering -/

theorem allWs_nil : AllWs [] := by intro c hc; cases hc

theorem spaced_split (k c : Nat) : ∃ a b, spaced k c = a ++ c :: b ∧ AllWs a ∧ AllWs b := by
  have h32 : AllWs [32] := by decide
  unfold spaced
  split
  · exact ⟨[], [32], rfl, allWs_nil, h32⟩
  · split
    · exact ⟨[32], [], rfl, h32, allWs_nil⟩
    · split
      · exact ⟨[32], [32], rfl, h32, h32⟩
      · exact ⟨[], [], rfl, allWs_nil, allWs_nil⟩

theorem open_close_split (o : PrettyOpts) :
    (∃ p, openBrace o = 123 :: p ∧ AllWs p) ∧ (∃ q, closeBrace o = q ++ [125] ∧ AllWs q) ∧
    (∃ p, openBracket o = 91 :: p ∧ AllWs p) ∧ (∃ q, closeBracket o = q ++ [93] ∧ AllWs q) := by
  have h32 : AllWs [32] := by decide
  refine ⟨?_, ?_, ?_, ?_⟩
  · unfold openBrace; split
    · exact ⟨[32], rfl, h32⟩
    · exact ⟨[], rfl, allWs_nil⟩
  · unfold closeBrace; split
    · exact ⟨[32], rfl, h32⟩
    · exact ⟨[], rfl, allWs_nil⟩
  · unfold openBracket; split
    · exact ⟨[32], rfl, h32⟩
    · exact ⟨[], rfl, allWs_nil⟩
  · unfold closeBracket; split
    · exact ⟨[32], rfl, h32⟩
    · exact ⟨[], rfl, allWs_nil⟩

theorem beginObject_split (o : PrettyOpts) (ho : WsLayout o) (par : Option Par) (ind col : Nat) :
    ∃ w, (beginObject o par ind col).1 = elemComma o par ++ w ∧ AllWs w := by
  cases par with
  | none => exact ⟨[], rfl, allWs_nil⟩
  | some p =>
    simp only [beginObject]
    split
    · exact ⟨_, rfl, allWs_ite _ _ (allWs_nl o ho ind)⟩
    · exact ⟨_, rfl, allWs_nl o ho ind⟩

theorem beginArray_split (o : PrettyOpts) (ho : WsLayout o) (par : Option Par) (ind col : Nat) :
    ∃ w, (beginArray o par ind col).1 = elemComma o par ++ w ∧ AllWs w := by
  cases par with
  | none => exact ⟨[], rfl, allWs_nil⟩
  | some p =>
    simp only [beginArray]
    by_cases h1 : p.isObj = true
    · simp only [h1, if_true]; exact ⟨[], by simp, allWs_nil⟩
    · simp only [h1, Bool.false_eq_true, if_false]
      split
      · exact ⟨_, rfl, allWs_ite _ _ (allWs_nl o ho ind)⟩
      · exact ⟨_, rfl, allWs_nl o ho ind⟩

theorem scalar_split (o : PrettyOpts) (ho : WsLayout o) (par : Option Par) (ind col : Nat) (t : Bytes) :
    ∃ w, (scalar o par ind col t).out = elemComma o par ++ (w ++ t) ∧ AllWs w := by
  cases par with
  | none => exact ⟨[], rfl, allWs_nil⟩
  | some p =>
    simp only [scalar]
    exact ⟨_, by rw [List.append_assoc], allWs_append (allWs_ite _ _ (allWs_nl o ho ind)) (allWs_ite _ _ (allWs_nl o ho ind))⟩

theorem looseElems_prepend (sol : Bool) (x : JT) (xs : List JT) (p s : Bytes) (hp : AllWs p)
    (h : LooseElems sol (x :: xs) true s) : LooseElems sol (x :: xs) true (p ++ s) := by
  obtain ⟨w1, w2, core, rest, rfl, h1, h2, hc, hr⟩ := h
  exact ⟨p ++ w1, w2, core, rest, by simp [sepL], allWs_append hp h1, h2, hc, hr⟩

theorem looseMembers_prepend (sol : Bool) (m : Bytes × JT) (ms : List (Bytes × JT)) (p s : Bytes) (hp : AllWs p)
    (h : LooseMembers sol (m :: ms) true s) : LooseMembers sol (m :: ms) true (p ++ s) := by
  obtain ⟨k, x⟩ := m
  obtain ⟨w1, w2, w3, w4, core, rest, rfl, h1, h2, h3, h4, hc, hr⟩ := h
  exact ⟨p ++ w1, w2, w3, w4, core, rest, by simp [sepL], allWs_append hp h1, h2, h3, h4, hc, hr⟩

theorem loose_arr_wrap (sol : Bool) (xs : List JT) (p q body : Bytes) (hp : AllWs p) (hq : AllWs q)
    (h : LooseElems sol xs true body) : Loose sol (.arr xs) (91 :: (p ++ (body ++ (q ++ [93])))) := by
  cases xs with
  | nil =>
    simp only [LooseElems] at h; subst h
    exact ⟨[], p ++ q, by simp, allWs_append hp hq, by simp [LooseElems]⟩
  | cons x xs => exact ⟨p ++ body, q, by simp, hq, looseElems_prepend sol x xs p body hp h⟩

theorem loose_obj_wrap (sol : Bool) (ms : List (Bytes × JT)) (p q body : Bytes) (hp : AllWs p) (hq : AllWs q)
    (h : LooseMembers sol ms true body) : Loose sol (.obj ms) (123 :: (p ++ (body ++ (q ++ [125])))) := by
  cases ms with
  | nil =>
    simp only [LooseMembers] at h; subst h
    exact ⟨[], p ++ q, by simp, allWs_append hp hq, by simp [LooseMembers]⟩
  | cons m ms => exact ⟨p ++ body, q, by simp, hq, looseMembers_prepend sol m ms p body hp h⟩

/-- the white space `visit_key` writes before a member name, and the column after it -/
def memWs (o : PrettyOpts) (split ind col : Nat) (first : Bool) (dp : Nat) : Bytes :=
  let cm := if first then [] else commaStr o
  let c0 := col + cm.length
  let b1 := split == 0
  let b2 := !b1 && !first && decide (o.limit ≤ c0)
  if b1 then nl o ind else if b2 then nlPos o dp else []

def memCol (o : PrettyOpts) (split ind col : Nat) (first : Bool) (dp : Nat) : Nat :=
  let cm := if first then [] else commaStr o
  let c0 := col + cm.length
  let b1 := split == 0
  let b2 := !b1 && !first && decide (o.limit ≤ c0)
  if b1 then ind else if b2 then dp else c0

theorem allWs_memWs (o : PrettyOpts) (ho : WsLayout o) (split ind col : Nat) (first : Bool) (dp : Nat) :
    AllWs (memWs o split ind col first dp) := by
  simp only [memWs]
  generalize (split == 0) = b1
  generalize (!b1 && !first && decide (o.limit ≤ col + (if first = true then [] else commaStr o).length)) = b2
  cases b1
  · simpa using allWs_ite b2 _ (allWs_nlPos o ho dp)
  · simpa using allWs_nl o ho ind

theorem encMembers_cons (o : PrettyOpts) (split ind col : Nat) (first nla : Bool) (dp : Nat) (k : Bytes) (x : JT) (ms : List (Bytes × JT)) :
    (encMembers o split ind col first nla dp ((k, x) :: ms)).out =
      (if first then [] else commaStr o) ++ (memWs o split ind col first dp ++ ((strLit o.solidus k ++ colonStr o) ++
        ((encVal o (some ⟨true, split, first, false⟩) ind (memCol o split ind col first dp + (strLit o.solidus k ++ colonStr o).length) x).out ++
          (encMembers o split ind
            (encVal o (some ⟨true, split, first, false⟩) ind (memCol o split ind col first dp + (strLit o.solidus k ++ colonStr o).length) x).col
            false
            (nla || (split == 0) || (encVal o (some ⟨true, split, first, false⟩) ind (memCol o split ind col first dp + (strLit o.solidus k ++ colonStr o).length) x).nla)
            (if first then memCol o split ind col first dp else dp) ms).out))) := by
  simp only [encMembers, memWs, memCol]

mutual
  theorem encVal_loose (o : PrettyOpts) (ho : WsLayout o) : ∀ (v : JT) (par : Option Par) (ind col : Nat),
      ∃ w core, (encVal o par ind col v).out = elemComma o par ++ (w ++ core) ∧ AllWs w ∧ Loose o.solidus v core
    | .null, par, ind, col => by
      obtain ⟨w, e, hw⟩ := scalar_split o ho par ind col nullLit
      exact ⟨w, nullLit, by simpa [encVal] using e, hw, by simp [Loose]⟩
    | .bool true, par, ind, col => by
      obtain ⟨w, e, hw⟩ := scalar_split o ho par ind col trueLit
      exact ⟨w, trueLit, by simpa [encVal] using e, hw, by simp [Loose]⟩
    | .bool false, par, ind, col => by
      obtain ⟨w, e, hw⟩ := scalar_split o ho par ind col falseLit
      exact ⟨w, falseLit, by simpa [encVal] using e, hw, by simp [Loose]⟩
    | .num lit, par, ind, col => by
      obtain ⟨w, e, hw⟩ := scalar_split o ho par ind col lit
      exact ⟨w, lit, by simpa [encVal] using e, hw, by simp [Loose]⟩
    | .str t, par, ind, col => by
      obtain ⟨w, e, hw⟩ := scalar_split o ho par ind col (strLit o.solidus t)
      exact ⟨w, _, by simpa [encVal] using e, hw, by simp [Loose]⟩
    | .arr xs, par, ind, col => by
      obtain ⟨wB, eB, hB⟩ := beginArray_split o ho par ind col
      obtain ⟨_, _, ⟨p, ep, hp⟩, ⟨q, eq, hq⟩⟩ := open_close_split o
      have hbody := encElems_loose o ho xs (beginArray o par ind col).2.2.2.1 (beginArray o par ind col).2.2.2.2
        (ind + o.indentSize) ((beginArray o par ind col).2.1 + (openBracket o).length) true false
      have key : ∀ body : Out, LooseElems o.solidus xs true body.out →
          Loose o.solidus (.arr xs) (91 :: (p ++ (body.out ++ (((if body.nla = true then nl o ind else []) ++ q) ++ [93])))) :=
        fun body hb => loose_arr_wrap _ xs p _ _ hp (allWs_append (allWs_ite _ _ (allWs_nl o ho ind)) hq) hb
      refine ⟨wB, _, ?_, hB, key _ hbody⟩
      simp only [encVal, eB, ep, eq, List.append_assoc, List.cons_append]
    | .obj ms, par, ind, col => by
      obtain ⟨wB, eB, hB⟩ := beginObject_split o ho par ind col
      obtain ⟨⟨p, ep, hp⟩, ⟨q, eq, hq⟩, _, _⟩ := open_close_split o
      have hbody := encMembers_loose o ho ms (beginObject o par ind col).2.2.2
        (ind + o.indentSize) ((beginObject o par ind col).2.1 + (openBrace o).length) true false
        ((beginObject o par ind col).2.1 + (openBrace o).length)
      have key : ∀ body : Out, LooseMembers o.solidus ms true body.out →
          Loose o.solidus (.obj ms) (123 :: (p ++ (body.out ++ (((if body.nla = true then nl o ind else []) ++ q) ++ [125])))) :=
        fun body hb => loose_obj_wrap _ ms p _ _ hp (allWs_append (allWs_ite _ _ (allWs_nl o ho ind)) hq) hb
      refine ⟨wB, _, ?_, hB, key _ hbody⟩
      simp only [encVal, eB, ep, eq, List.append_assoc, List.cons_append]
  theorem encElems_loose (o : PrettyOpts) (ho : WsLayout o) : ∀ (xs : List JT) (split : Nat) (ib : Bool) (ind col : Nat) (first nla : Bool),
      LooseElems o.solidus xs first (encElems o split ib ind col first nla xs).out
    | [], _, _, _, _, _, _ => by simp [encElems, LooseElems]
    | x :: xs, split, ib, ind, col, first, nla => by
      obtain ⟨w, core, e, hw, hcore⟩ := encVal_loose o ho x (some ⟨false, split, first, ib⟩) ind col
      have hrest := encElems_loose o ho xs split ib ind (encVal o (some ⟨false, split, first, ib⟩) ind col x).col false
        (nla || (encVal o (some ⟨false, split, first, ib⟩) ind col x).nla)
      simp only [encElems, e]
      cases first with
      | true => exact ⟨w, [], core, _, by simp [sepL, elemComma], hw, allWs_nil, hcore, hrest⟩
      | false =>
        obtain ⟨a, b, eab, ha, hb⟩ := spaced_split o.comma 44
        exact ⟨a, b ++ w, core, _, by simp [sepL, elemComma, commaStr, eab], ha, allWs_append hb hw, hcore, hrest⟩
  theorem encMembers_loose (o : PrettyOpts) (ho : WsLayout o) : ∀ (ms : List (Bytes × JT)) (split : Nat) (ind col : Nat) (first nla : Bool) (dp : Nat),
      LooseMembers o.solidus ms first (encMembers o split ind col first nla dp ms).out
    | [], _, _, _, _, _, _ => by simp [encMembers, LooseMembers]
    | (k, x) :: ms, split, ind, col, first, nla, dp => by
      obtain ⟨a3, b3, e3, ha3, hb3⟩ := spaced_split o.colon 58
      have hmw := allWs_memWs o ho split ind col first dp
      rw [encMembers_cons]
      generalize memWs o split ind col first dp = W at hmw ⊢
      generalize memCol o split ind col first dp = c1
      obtain ⟨w, core, e, hw, hcore⟩ := encVal_loose o ho x (some ⟨true, split, first, false⟩) ind
        (c1 + (strLit o.solidus k ++ colonStr o).length)
      have hrest := encMembers_loose o ho ms split ind
        (encVal o (some ⟨true, split, first, false⟩) ind (c1 + (strLit o.solidus k ++ colonStr o).length) x).col false
        (nla || (split == 0) || (encVal o (some ⟨true, split, first, false⟩) ind (c1 + (strLit o.solidus k ++ colonStr o).length) x).nla)
        (if first = true then c1 else dp)
      rw [e]
      cases first with
      | true =>
        exact ⟨W, [], a3, b3 ++ w, core, _, by simp [sepL, elemComma, colonStr, e3], hmw, allWs_nil, ha3, allWs_append hb3 hw, hcore, hrest⟩
      | false =>
        obtain ⟨a, b, eab, ha, hb⟩ := spaced_split o.comma 44
        exact ⟨a, b ++ W, a3, b3 ++ w, core, _, by simp [sepL, elemComma, colonStr, commaStr, e3, eab], ha,
          allWs_append hb hmw, ha3, allWs_append hb3 hw, hcore, hrest⟩
end

theorem strip_length : ∀ (s : Bytes) (m : Mode), (strip m s).length ≤ s.length
  | [], m => by cases m <;> simp [strip]
  | c :: cs, m => by
    have h1 := strip_length cs .out
    have h2 := strip_length cs .str
    have h3 := strip_length cs .esc
    cases m <;> simp only [strip] <;> repeat' split
    all_goals simp only [List.length_cons]; omega

/-- parse(dump_pretty(v)) = v for the model: the reference parser reads the indented text back as the value -/
theorem pretty_parses_back (fl : Flags) (o : PrettyOpts) (ho : WsLayout o) (v : JT) (hw : WF v) (hd : depth v ≤ fl.maxDepth) :
    parseText fl (pretty o v) = some v := by
  obtain ⟨w, core, e, hww, hcore⟩ := encVal_loose o ho v none 0 0
  obtain ⟨c, cs, rfl, hc⟩ := loose_head o.solidus v core hcore hw
  have hp : pretty o v = w ++ c :: cs := by simpa [pretty, elemComma] using e
  have hlen : need v ≤ (c :: cs).length := by
    have h1 := need_le_length o.solidus v hw
    have h2 := strip_pretty o ho v (wf_plainNums v hw)
    have h3 := strip_length (c :: cs) .out
    rw [stripWsOutsideStrings, hp, strip_ws _ _ hww] at h2
    rw [← h2] at h1
    omega
  have hv := val_loose fl o.solidus v (c :: cs) [] ((c :: cs).length + 1) 0 hcore hw (by omega) (by omega)
    ⟨[], [], rfl, allWs_nil, Or.inl rfl⟩
  simp only [List.append_nil] at hv
  unfold parseText
  rw [hp, skipWs_ws' _ w c cs hww hc.1 hc.2.1]
  simp only [hv, skipWs_nil]

end JsonEncode
end Model
end JV
