/-
  JV.Proofs.PatchUndoB — the three inversions of the undo log at the level of `finalStep` and of
  `Pointer.apply`, and preservation of the sorted-object invariant by `Pointer.apply`.
-/
import JV.Proofs.PatchUndoA
namespace JV
namespace Model
namespace Pointer
open Assoc

/-! ### `finalStep` -/

theorem get_one_arr {xs : List JVal} {last : Bytes} {v : JVal} (h : get (.arr xs) [last] = .ok v) :
    isDash last = false ∧ ∃ i, decToIndex last = some i ∧ xs[i]? = some v := by
  simp only [get] at h
  by_cases hd : isDash last = true
  · simp [hd] at h
  · have hd' : isDash last = false := by simpa using hd
    simp only [hd', Bool.false_eq_true, if_false] at h
    cases hi : decToIndex last with
    | none => rw [hi] at h; simp at h
    | some i =>
      rw [hi] at h
      simp only [] at h
      cases hx : xs[i]? with
      | none => rw [hx] at h; simp at h
      | some x =>
        rw [hx] at h
        simp only [Except.ok.injEq] at h
        exact ⟨hd', i, rfl, by rw [← h]; exact hx⟩

theorem get_one_obj {ms : List (Bytes × JVal)} {last : Bytes} {v : JVal} (h : get (.obj ms) [last] = .ok v) :
    find last ms = some v := by
  simp only [get] at h
  cases hfi : find last ms with
  | none => rw [hfi] at h; simp at h
  | some x =>
    rw [hfi] at h
    simp only [Except.ok.injEq] at h
    rw [h]

/-- replace ↦ replace with the original value: exact, both flavours, no invariant -/
theorem finalStep_replace_undo (o : Bool) (v orig c : JVal) (last : Bytes) (hg : get c [last] = .ok orig) :
    finalStep o false (.replace orig) (finalStep o false (.replace v) c last).2 last = (none, c) := by
  cases c with
  | arr xs =>
    obtain ⟨hd, i, hi, hx⟩ := get_one_arr hg
    have hlt : i < xs.length := (List.getElem?_eq_some_iff.1 hx).1
    have h1 : ¬ i ≥ xs.length := by omega
    simp [finalStep, hd, hi, h1, set_same hx]
  | obj ms =>
    have hfi := get_one_obj hg
    simp [finalStep, hfi, insertOrAssign, find_replaceVal_self hfi, replaceVal_replaceVal, replaceVal_same hfi]
  | null => simp [get] at hg
  | bool _ => simp [get] at hg
  | int _ => simp [get] at hg
  | str _ => simp [get] at hg

/-- add_if_absent ↦ remove: exact, both flavours, no invariant; `-` on an array is excluded
    (there `remove` reports index_exceeds — this is why the code logs the *definite* path) -/
theorem finalStep_add_undo (o : Bool) (v c : JVal) (last : Bytes) (hnd : c.isArray = true → isDash last = false)
    (hok : (finalStep o false (.addIfAbsent v) c last).1 = none) :
    finalStep o false .remove (finalStep o false (.addIfAbsent v) c last).2 last = (none, c) := by
  cases c with
  | arr xs =>
    have hd : isDash last = false := hnd rfl
    simp only [finalStep, hd, Bool.false_eq_true, if_false] at hok ⊢
    cases hi : decToIndex last with
    | none => rw [hi] at hok; simp at hok
    | some i =>
      rw [hi] at hok
      simp only [] at hok ⊢
      by_cases h1 : i > xs.length
      · simp [h1] at hok
      · by_cases h2 : i = xs.length
        · subst h2
          simp [eraseIdx_append_last]
        · have h3 : i ≤ xs.length := by omega
          have h4 : ¬ (xs.length + 1 ≤ i) := by omega
          have hlen : (insertAt i v xs).length = xs.length + 1 := by
            simp [insertAt]; omega
          simp [h1, h2, hlen, h4, eraseIdx_insertAt v xs i h3]
  | obj ms =>
    simp only [finalStep] at hok ⊢
    cases hfi : find last ms with
    | some x => rw [hfi] at hok; simp at hok
    | none =>
      simp [find_tryEmplace_self o hfi, erase_tryEmplace_absent o hfi]
  | null => simp [finalStep] at hok
  | bool _ => simp [finalStep] at hok
  | int _ => simp [finalStep] at hok
  | str _ => simp [finalStep] at hok

/-- remove ↦ add of the removed value, sorted objects: exact when the object is sorted -/
theorem finalStep_remove_undo (val c : JVal) (last : Bytes) (hw : c.WF) (hg : get c [last] = .ok val) :
    finalStep false false (.add val) (finalStep false false .remove c last).2 last = (none, c) := by
  cases c with
  | arr xs =>
    obtain ⟨hd, i, hi, hx⟩ := get_one_arr hg
    have hlt : i < xs.length := (List.getElem?_eq_some_iff.1 hx).1
    have h1 : ¬ i ≥ xs.length := by omega
    have hlen : (xs.eraseIdx i).length = xs.length - 1 := by simp [List.length_eraseIdx, hlt]
    have h2 : ¬ i > (xs.eraseIdx i).length := by omega
    simp only [finalStep, hd, Bool.false_eq_true, if_false, hi, h1, h2]
    by_cases h3 : i = (xs.eraseIdx i).length
    · have key : ∀ ys : List JVal, i = ys.length → ys ++ [val] = insertAt i val ys := by
        intro ys h; subst h; exact (insertAt_length val ys).symm
      rw [if_pos h3, key _ h3, insertAt_eraseIdx hx]
    · simp only [h3, if_false, insertAt_eraseIdx hx]
  | obj ms =>
    have hfi := get_one_obj hg
    have hs : Sorted ms := by
      have : Sorted ms ∧ WFMembers ms := by simpa [JVal.WF] using hw
      exact this.1
    simp [finalStep, hfi, insertOrAssign, find_erase_self hs, insertSorted_erase hs hfi]
  | null => simp [get] at hg
  | bool _ => simp [get] at hg
  | int _ => simp [get] at hg
  | str _ => simp [get] at hg

def Final.ValWF : Final → Prop
  | .add v | .addIfAbsent v | .replace v => v.WF
  | .remove => True

theorem finalStep_wf (f : Final) (hf : f.ValWF) (c : JVal) (last : Bytes) (hw : c.WF) :
    (finalStep false false f c last).2.WF := by
  cases c with
  | arr xs =>
    have hwl : WFList xs := by simpa [JVal.WF] using hw
    have happ : ∀ v : JVal, v.WF → WFList (xs ++ [v]) := fun v hv => wfList_append hwl ⟨hv, trivial⟩
    cases f <;> simp only [finalStep, Final.ValWF] at hf ⊢ <;> (repeat' split) <;>
      first
      | exact hw
      | (simp only [JVal.WF]; exact happ _ hf)
      | (simp only [JVal.WF]; exact wfList_insertAt _ hwl hf)
      | (simp only [JVal.WF]; exact wfList_set hwl hf)
      | (simp only [JVal.WF]; exact wfList_eraseIdx _ hwl)
  | obj ms =>
    have hwo : Sorted ms ∧ WFMembers ms := by simpa [JVal.WF] using hw
    have hte : ∀ v : JVal, v.WF → Sorted (tryEmplace false last v ms) ∧ WFMembers (tryEmplace false last v ms) := by
      intro v hv
      refine ⟨(tryEmplace_map last v ms hwo.1).1, ?_⟩
      unfold tryEmplace
      cases hk : find last ms with
      | some y => exact hwo.2
      | none => exact wfMembers_insertSorted hv hwo.2
    have hia : ∀ v : JVal, v.WF → Sorted (insertOrAssign false last v ms) ∧ WFMembers (insertOrAssign false last v ms) := by
      intro v hv
      refine ⟨(insertOrAssign_map last v ms hwo.1).1, ?_⟩
      unfold insertOrAssign
      cases hk : find last ms with
      | some y => exact wfMembers_replaceVal hv hwo.2
      | none => exact wfMembers_insertSorted hv hwo.2
    cases f <;> simp only [finalStep, Final.ValWF] at hf ⊢ <;> (repeat' split) <;>
      first
      | exact hw
      | (simp only [JVal.WF]; exact hte _ hf)
      | (simp only [JVal.WF]; exact hia _ hf)
      | (simp only [JVal.WF]; exact ⟨sorted_erase hwo.1, wfMembers_erase hwo.2⟩)
  | null => simpa [finalStep] using hw
  | bool _ => simpa [finalStep] using hw
  | int _ => simpa [finalStep] using hw
  | str _ => simpa [finalStep] using hw

/-! ### `Pointer.apply` -/

theorem apply_replace_undo (o : Bool) (t : JVal) (p : List Bytes) (v orig : JVal) (hg : get t p = .ok orig)
    (hok : (apply o false (.replace v) t p).1 = none) :
    apply o false (.replace orig) (apply o false (.replace v) t p).2 p = (none, t) := by
  cases p with
  | nil =>
    simp only [get, Except.ok.injEq] at hg
    simp [apply, hg]
  | cons tok rest =>
    simp only [apply] at hok ⊢
    apply modifyAt_undo_lift o _ _ rest t tok _ hok
    intro c last hp _
    obtain ⟨c', last', hp', hg'⟩ := get_parentOf rest t tok orig hg
    rw [hp] at hp'
    simp only [Option.some.injEq, Prod.mk.injEq] at hp'
    rw [← hp'.1, ← hp'.2] at hg'
    exact finalStep_replace_undo o v orig c last hg'

/-- the location is not "`-` on an array" -/
def Definite (t : JVal) (p : List Bytes) : Prop :=
  ∀ c, get t p.dropLast = .ok c → c.isArray = true → p.getLast? ≠ some [45]

theorem apply_add_undo (o : Bool) (t : JVal) (p : List Bytes) (v : JVal) (hne : p ≠ []) (hdef : Definite t p)
    (hok : (apply o false (.addIfAbsent v) t p).1 = none) :
    apply o false .remove (apply o false (.addIfAbsent v) t p).2 p = (none, t) := by
  cases p with
  | nil => exact absurd rfl hne
  | cons tok rest =>
    simp only [apply] at hok ⊢
    apply modifyAt_undo_lift o _ _ rest t tok _ hok
    intro c last hp hfs
    obtain ⟨h1, h2⟩ := parentOf_get rest t tok c last hp
    refine finalStep_add_undo o v c last ?_ hfs
    intro hc
    have := hdef c h1 hc
    rw [h2] at this
    cases hd : isDash last with
    | false => rfl
    | true =>
      have : last = [45] := by simpa [isDash] using hd
      subst this; simp at *

theorem apply_remove_undo_sorted (t : JVal) (p : List Bytes) (val : JVal) (hw : t.WF) (hg : get t p = .ok val)
    (hok : (apply false false .remove t p).1 = none) :
    apply false false (.add val) (apply false false .remove t p).2 p = (none, t) := by
  cases p with
  | nil => simp [apply] at hok
  | cons tok rest =>
    simp only [apply] at hok ⊢
    apply modifyAt_undo_lift false _ _ rest t tok _ hok
    intro c last hp _
    obtain ⟨c', last', hp', hg'⟩ := get_parentOf rest t tok val hg
    rw [hp] at hp'
    simp only [Option.some.injEq, Prod.mk.injEq] at hp'
    rw [← hp'.1, ← hp'.2] at hg'
    exact finalStep_remove_undo val c last (parentOf_wf rest t tok c last hp hw) hg'

theorem apply_wf (f : Final) (hf : f.ValWF) (t : JVal) (p : List Bytes) (hw : t.WF) :
    (apply false false f t p).2.WF := by
  cases p with
  | nil => cases f <;> simp_all [apply, Final.ValWF]
  | cons tok rest =>
    simp only [apply]
    exact modifyAt_wf_lift f rest t tok hw (fun c last _ hc => finalStep_wf f hf c last hc)

end Pointer
end Model
end JV
