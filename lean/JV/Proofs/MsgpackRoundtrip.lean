/-
  JV.Proofs.MsgpackRoundtrip — what the MessagePack encoder model writes, the reference MessagePack decoder
  (JV.Spec.Msgpack, the one the real decoder is judged by in C07) reads back.
-/
import JV.Model.Msgpack
import JV.Proofs.CborRoundtrip
import JV.Spec.BinFormats
namespace JV
namespace Model
namespace Msgpack
open Spec Spec.Msgpack
open Spec.Cbor (BV Res beVal f32ToF64)
open Cbor (CV beBytes narrowF32 toBV toBVList toBVMembers need needList needMembers DoubleOK)

/-! ### bytes -/
theorem length_beBytes : ∀ (w n : Nat), (beBytes w n).length = w
  | 0, _ => rfl
  | w + 1, n => by simp [beBytes, length_beBytes w n]

theorem takeN_append (d r : Bytes) : takeN d.length (d ++ r) = some (d, r) := by
  simp [takeN]

theorem takeN_be (w n : Nat) (rest : Bytes) : takeN w (beBytes w n ++ rest) = some (beBytes w n, rest) := by
  have := takeN_append (beBytes w n) rest
  rwa [length_beBytes] at this

theorem takeN_one (b : Nat) (rest : Bytes) : takeN 1 (b :: rest) = some ([b], rest) := by
  simp [takeN]

theorem beVal_one (b : Nat) : beVal [b] = b := by simp [beVal]

theorem beVal_beBytes2 (n : Nat) (h : n < 2 ^ 16) : beVal (beBytes 2 n) = n := by
  simp [beBytes, beVal]; omega

theorem beVal_beBytes4 (n : Nat) (h : n < 2 ^ 32) : beVal (beBytes 4 n) = n := by
  simp [beBytes, beVal]; omega

theorem beVal_beBytes8 (n : Nat) (h : n < 2 ^ 64) : beVal (beBytes 8 n) = n := by
  simp [beBytes, beVal]; omega

/-! ### two's complement -/
theorem toSigned8 (i : Int) (h1 : -128 ≤ i) (h2 : i < 0) : toSigned 8 (256 + i).toNat = i := by
  simp [toSigned]; split <;> omega

theorem toSigned16 (i : Int) (h1 : -32768 ≤ i) (h2 : i < 0) : toSigned 16 (65536 + i).toNat = i := by
  simp [toSigned]; split <;> omega

theorem toSigned32 (i : Int) (h1 : -2147483648 ≤ i) (h2 : i < 0) : toSigned 32 (4294967296 + i).toNat = i := by
  simp [toSigned]; split <;> omega

theorem toSigned64 (i : Int) (h1 : -9223372036854775808 ≤ i) (h2 : i < 0) : toSigned 64 (18446744073709551616 + i).toNat = i := by
  simp [toSigned]; split <;> omega

/-! ### the decoder's local helpers, named, and what the decoder does after each head byte (for ANY tail) -/
def lenThen (w : Nat) (s : Bytes) (k : Nat → Bytes → Res BV) : Res BV :=
  match takeN w s with
  | none => .illformed
  | some (d, r) => k (beVal d) r

def strOf (n : Nat) (s : Bytes) : Res BV :=
  match takeN n s with
  | none => .illformed
  | some (d, r) => if Rfc8259.validUtf8 d then .ok (.str d "") r else .illformed

def binOf (n : Nat) (s : Bytes) : Res BV :=
  match takeN n s with
  | none => .illformed
  | some (d, r) => .ok (.bytes d "") r

theorem lenThen_one (b : Nat) (rest : Bytes) (k : Nat → Bytes → Res BV) : lenThen 1 (b :: rest) k = k b rest := by
  simp [lenThen, takeN_one, beVal_one]

theorem lenThen_be (w n : Nat) (rest : Bytes) (k : Nat → Bytes → Res BV) (h : beVal (beBytes w n) = n) :
    lenThen w (beBytes w n ++ rest) k = k n rest := by
  simp [lenThen, takeN_be, h]

theorem strOf_ok (d rest : Bytes) (hv : Rfc8259.validUtf8 d = true) : strOf d.length (d ++ rest) = .ok (.str d "") rest := by
  simp [strOf, takeN_append, hv]

theorem binOf_ok (d rest : Bytes) : binOf d.length (d ++ rest) = .ok (.bytes d "") rest := by
  simp [binOf, takeN_append]

theorem item_posfix (fuel b : Nat) (s : Bytes) (h : b ≤ 0x7f) : item (fuel + 1) (b :: s) = .ok (.int b "") s := by
  simp [item, h]

theorem item_fixmap (fuel b : Nat) (s : Bytes) (h1 : 0x80 ≤ b) (h2 : b ≤ 0x8f) :
    item (fuel + 1) (b :: s) = wrapMap (members fuel (b - 0x80) s) := by
  simp [item, show ¬ b ≤ 0x7f by omega, h2]

theorem item_fixarr (fuel b : Nat) (s : Bytes) (h1 : 0x90 ≤ b) (h2 : b ≤ 0x9f) :
    item (fuel + 1) (b :: s) = wrapArr (items fuel (b - 0x90) s) := by
  simp [item, show ¬ b ≤ 0x7f by omega, show ¬ b ≤ 0x8f by omega, h2]

theorem item_fixstr (fuel b : Nat) (s : Bytes) (h1 : 0xa0 ≤ b) (h2 : b ≤ 0xbf) :
    item (fuel + 1) (b :: s) = strOf (b - 0xa0) s := by
  simp only [item, strOf, show ¬ b ≤ 0x7f by omega, show ¬ b ≤ 0x8f by omega, show ¬ b ≤ 0x9f by omega, h2, if_true, if_false]
  cases takeN (b - 0xa0) s with
  | none => rfl
  | some p => cases p; rfl

theorem item_negfix (fuel b : Nat) (s : Bytes) (h : 0xe0 ≤ b) : item (fuel + 1) (b :: s) = .ok (.int ((b : Int) - 256) "") s := by
  simp [item, show ¬ b ≤ 0x7f by omega, show ¬ b ≤ 0x8f by omega, show ¬ b ≤ 0x9f by omega, show ¬ b ≤ 0xbf by omega,
    show ¬ b = 0xc0 by omega, show ¬ b = 0xc1 by omega, show ¬ b = 0xc2 by omega, show ¬ b = 0xc3 by omega,
    show ¬ b = 0xc4 by omega, show ¬ b = 0xc5 by omega, show ¬ b = 0xc6 by omega, show ¬ b = 0xc7 by omega,
    show ¬ b = 0xc8 by omega, show ¬ b = 0xc9 by omega, show ¬ b = 0xca by omega, show ¬ b = 0xcb by omega,
    show ¬ b = 0xcc by omega, show ¬ b = 0xcd by omega, show ¬ b = 0xce by omega, show ¬ b = 0xcf by omega,
    show ¬ b = 0xd0 by omega, show ¬ b = 0xd1 by omega, show ¬ b = 0xd2 by omega, show ¬ b = 0xd3 by omega,
    show ¬ (0xd4 ≤ b ∧ b ≤ 0xd8) by omega, show ¬ b = 0xd9 by omega, show ¬ b = 0xda by omega, show ¬ b = 0xdb by omega,
    show ¬ b = 0xdc by omega, show ¬ b = 0xdd by omega, show ¬ b = 0xde by omega, show ¬ b = 0xdf by omega]

theorem item_c0 (fuel : Nat) (s : Bytes) : item (fuel + 1) (0xc0 :: s) = .ok .null s := by simp [item]
theorem item_c2 (fuel : Nat) (s : Bytes) : item (fuel + 1) (0xc2 :: s) = .ok (.bool false) s := by simp [item]
theorem item_c3 (fuel : Nat) (s : Bytes) : item (fuel + 1) (0xc3 :: s) = .ok (.bool true) s := by simp [item]
theorem item_c4 (fuel : Nat) (s : Bytes) : item (fuel + 1) (0xc4 :: s) = lenThen 1 s binOf := by simp [item, lenThen, binOf] <;> rfl
theorem item_c5 (fuel : Nat) (s : Bytes) : item (fuel + 1) (0xc5 :: s) = lenThen 2 s binOf := by simp [item, lenThen, binOf] <;> rfl
theorem item_c6 (fuel : Nat) (s : Bytes) : item (fuel + 1) (0xc6 :: s) = lenThen 4 s binOf := by simp [item, lenThen, binOf] <;> rfl
theorem item_ca (fuel : Nat) (s : Bytes) :
    item (fuel + 1) (0xca :: s) = lenThen 4 s fun v r => .ok (.dbl (f32ToF64 v) "") r := by simp [item, lenThen] <;> rfl
theorem item_cb (fuel : Nat) (s : Bytes) :
    item (fuel + 1) (0xcb :: s) = lenThen 8 s fun v r => .ok (.dbl v "") r := by simp [item, lenThen] <;> rfl
theorem item_cc (fuel : Nat) (s : Bytes) :
    item (fuel + 1) (0xcc :: s) = lenThen 1 s fun v r => .ok (.int v "") r := by simp [item, lenThen] <;> rfl
theorem item_cd (fuel : Nat) (s : Bytes) :
    item (fuel + 1) (0xcd :: s) = lenThen 2 s fun v r => .ok (.int v "") r := by simp [item, lenThen] <;> rfl
theorem item_ce (fuel : Nat) (s : Bytes) :
    item (fuel + 1) (0xce :: s) = lenThen 4 s fun v r => .ok (.int v "") r := by simp [item, lenThen] <;> rfl
theorem item_cf (fuel : Nat) (s : Bytes) :
    item (fuel + 1) (0xcf :: s) = lenThen 8 s fun v r => .ok (.int v "") r := by simp [item, lenThen] <;> rfl
theorem item_d0 (fuel : Nat) (s : Bytes) :
    item (fuel + 1) (0xd0 :: s) = lenThen 1 s fun v r => .ok (.int (toSigned 8 v) "") r := by simp [item, lenThen] <;> rfl
theorem item_d1 (fuel : Nat) (s : Bytes) :
    item (fuel + 1) (0xd1 :: s) = lenThen 2 s fun v r => .ok (.int (toSigned 16 v) "") r := by simp [item, lenThen] <;> rfl
theorem item_d2 (fuel : Nat) (s : Bytes) :
    item (fuel + 1) (0xd2 :: s) = lenThen 4 s fun v r => .ok (.int (toSigned 32 v) "") r := by simp [item, lenThen] <;> rfl
theorem item_d3 (fuel : Nat) (s : Bytes) :
    item (fuel + 1) (0xd3 :: s) = lenThen 8 s fun v r => .ok (.int (toSigned 64 v) "") r := by simp [item, lenThen] <;> rfl
theorem item_d9 (fuel : Nat) (s : Bytes) : item (fuel + 1) (0xd9 :: s) = lenThen 1 s strOf := by simp [item, lenThen, strOf] <;> rfl
theorem item_da (fuel : Nat) (s : Bytes) : item (fuel + 1) (0xda :: s) = lenThen 2 s strOf := by simp [item, lenThen, strOf] <;> rfl
theorem item_db (fuel : Nat) (s : Bytes) : item (fuel + 1) (0xdb :: s) = lenThen 4 s strOf := by simp [item, lenThen, strOf] <;> rfl
theorem item_dc (fuel : Nat) (s : Bytes) :
    item (fuel + 1) (0xdc :: s) = lenThen 2 s fun n r => wrapArr (items fuel n r) := by simp [item, lenThen] <;> rfl
theorem item_dd (fuel : Nat) (s : Bytes) :
    item (fuel + 1) (0xdd :: s) = lenThen 4 s fun n r => wrapArr (items fuel n r) := by simp [item, lenThen] <;> rfl
theorem item_de (fuel : Nat) (s : Bytes) :
    item (fuel + 1) (0xde :: s) = lenThen 2 s fun n r => wrapMap (members fuel n r) := by simp [item, lenThen] <;> rfl
theorem item_df (fuel : Nat) (s : Bytes) :
    item (fuel + 1) (0xdf :: s) = lenThen 4 s fun n r => wrapMap (members fuel n r) := by simp [item, lenThen] <;> rfl

/-! ### integers: every value in [-2^63, 2^64) -/
theorem item_int (fuel : Nat) (i : Int) (rest : Bytes) (hlo : -(2 ^ 63 : Int) ≤ i) (hhi : i < 2 ^ 64) :
    item (fuel + 1) (writeInt i ++ rest) = .ok (.int i "") rest := by
  unfold writeInt
  by_cases hv : i ≥ 0
  · have e : ((i.toNat : Nat) : Int) = i := Int.toNat_of_nonneg hv
    simp only [hv, if_true]
    by_cases h1 : i.toNat ≤ 0x7f
    · simp only [h1, if_true, List.cons_append, List.nil_append]
      rw [item_posfix fuel _ _ h1, e]
    · by_cases h2 : i.toNat ≤ 0xff
      · simp only [h1, h2, if_true, if_false, List.cons_append, List.nil_append]
        rw [item_cc, lenThen_one, e]
      · by_cases h3 : i.toNat ≤ 0xffff
        · simp only [h1, h2, h3, if_true, if_false, List.cons_append]
          rw [item_cd, lenThen_be _ _ _ _ (beVal_beBytes2 i.toNat (by omega)), e]
        · by_cases h4 : i.toNat ≤ 0xffffffff
          · simp only [h1, h2, h3, h4, if_true, if_false, List.cons_append]
            rw [item_ce, lenThen_be _ _ _ _ (beVal_beBytes4 i.toNat (by omega)), e]
          · simp only [h1, h2, h3, h4, if_false, List.cons_append]
            rw [item_cf, lenThen_be _ _ _ _ (beVal_beBytes8 i.toNat (by omega)), e]
  · simp only [hv, if_false]
    by_cases h1 : i ≥ -32
    · simp only [h1, if_true, List.cons_append, List.nil_append]
      rw [item_negfix fuel _ _ (by omega)]
      have : (((256 + i).toNat : Nat) : Int) - 256 = i := by omega
      rw [this]
    · by_cases h2 : i ≥ -128
      · simp only [h1, h2, if_true, if_false, List.cons_append, List.nil_append]
        rw [item_d0, lenThen_one, toSigned8 i (by omega) (by omega)]
      · by_cases h3 : i ≥ -32768
        · simp only [h1, h2, h3, if_true, if_false, List.cons_append]
          have hb : (65536 + i).toNat < 2 ^ 16 := by omega
          rw [item_d1, lenThen_be _ _ _ _ (beVal_beBytes2 _ hb), toSigned16 i (by omega) (by omega)]
        · by_cases h4 : i ≥ -2147483648
          · simp only [h1, h2, h3, h4, if_true, if_false, List.cons_append]
            have hb : (4294967296 + i).toNat < 2 ^ 32 := by omega
            rw [item_d2, lenThen_be _ _ _ _ (beVal_beBytes4 _ hb), toSigned32 i (by omega) (by omega)]
          · simp only [h1, h2, h3, h4, if_false, List.cons_append]
            have hb : (18446744073709551616 + i).toNat < 2 ^ 64 := by omega
            rw [item_d3, lenThen_be _ _ _ _ (beVal_beBytes8 _ hb), toSigned64 i (by omega) (by omega)]

/-! ### doubles -/
theorem item_double (fuel : Nat) (b : Nat) (rest : Bytes) (h : DoubleOK b) :
    item (fuel + 1) (encodeDouble b ++ rest) = .ok (.dbl b "") rest := by
  unfold encodeDouble
  cases hn : narrowF32 b with
  | none =>
    simp only [List.cons_append]
    rw [item_cb, lenThen_be _ _ _ _ (beVal_beBytes8 b h.1)]
  | some f =>
    obtain ⟨hf, hw⟩ := h.2 f hn
    simp only [List.cons_append]
    rw [item_ca, lenThen_be _ _ _ _ (beVal_beBytes4 f hf), hw]

/-! ### text and byte strings -/
theorem item_text (fuel : Nat) (s rest : Bytes) (hl : s.length < 2 ^ 32) (hv : Rfc8259.validUtf8 s = true) :
    item (fuel + 1) (strHead s.length ++ s ++ rest) = .ok (.str s "") rest := by
  unfold strHead
  by_cases h1 : s.length ≤ 31
  · simp only [h1, if_true, List.cons_append, List.nil_append]
    rw [item_fixstr fuel _ _ (by omega) (by omega)]
    have : 0xa0 + s.length - 0xa0 = s.length := by omega
    rw [this, strOf_ok s rest hv]
  · by_cases h2 : s.length ≤ 0xff
    · simp only [h1, h2, if_true, if_false, List.cons_append, List.nil_append]
      rw [item_d9, lenThen_one, strOf_ok s rest hv]
    · by_cases h3 : s.length ≤ 0xffff
      · simp only [h1, h2, h3, if_true, if_false, List.cons_append, List.append_assoc]
        rw [item_da, lenThen_be _ _ _ _ (beVal_beBytes2 s.length (by omega)), strOf_ok s rest hv]
      · have h4 : s.length ≤ 0xffffffff := by omega
        simp only [h1, h2, h3, h4, if_true, if_false, List.cons_append, List.append_assoc]
        rw [item_db, lenThen_be _ _ _ _ (beVal_beBytes4 s.length (by omega)), strOf_ok s rest hv]

theorem item_bytes (fuel : Nat) (b rest : Bytes) (hl : b.length < 2 ^ 32) :
    item (fuel + 1) (binHead b.length ++ b ++ rest) = .ok (.bytes b "") rest := by
  unfold binHead
  by_cases h2 : b.length ≤ 0xff
  · simp only [h2, if_true, List.cons_append, List.nil_append]
    rw [item_c4, lenThen_one, binOf_ok]
  · by_cases h3 : b.length ≤ 0xffff
    · simp only [h2, h3, if_true, if_false, List.cons_append, List.append_assoc]
      rw [item_c5, lenThen_be _ _ _ _ (beVal_beBytes2 b.length (by omega)), binOf_ok]
    · have h4 : b.length ≤ 0xffffffff := by omega
      simp only [h2, h3, h4, if_true, if_false, List.cons_append, List.append_assoc]
      rw [item_c6, lenThen_be _ _ _ _ (beVal_beBytes4 b.length (by omega)), binOf_ok]

/-! ### container heads -/
theorem item_arrHead (fuel n : Nat) (body : Bytes) (hn : n < 2 ^ 32) :
    item (fuel + 1) (arrHead n ++ body) = wrapArr (items fuel n body) := by
  unfold arrHead
  by_cases h1 : n ≤ 15
  · simp only [h1, if_true, List.cons_append, List.nil_append]
    rw [item_fixarr fuel _ _ (by omega) (by omega)]
    have : 0x90 + n - 0x90 = n := by omega
    rw [this]
  · by_cases h3 : n ≤ 0xffff
    · simp only [h1, h3, if_true, if_false, List.cons_append]
      rw [item_dc, lenThen_be _ _ _ _ (beVal_beBytes2 n (by omega))]
    · have h4 : n ≤ 0xffffffff := by omega
      simp only [h1, h3, h4, if_true, if_false, List.cons_append]
      rw [item_dd, lenThen_be _ _ _ _ (beVal_beBytes4 n (by omega))]

theorem item_mapHead (fuel n : Nat) (body : Bytes) (hn : n < 2 ^ 32) :
    item (fuel + 1) (mapHead n ++ body) = wrapMap (members fuel n body) := by
  unfold mapHead
  by_cases h1 : n ≤ 15
  · simp only [h1, if_true, List.cons_append, List.nil_append]
    rw [item_fixmap fuel _ _ (by omega) (by omega)]
    have : 0x80 + n - 0x80 = n := by omega
    rw [this]
  · by_cases h3 : n ≤ 0xffff
    · simp only [h1, h3, if_true, if_false, List.cons_append]
      rw [item_de, lenThen_be _ _ _ _ (beVal_beBytes2 n (by omega))]
    · have h4 : n ≤ 0xffffffff := by omega
      simp only [h1, h3, h4, if_true, if_false, List.cons_append]
      rw [item_df, lenThen_be _ _ _ _ (beVal_beBytes4 n (by omega))]

/-! ### the domain: what MessagePack can express of the core -/
mutual
  /-- integers in [-2^63, 2^64), doubles on which the float32 shortcut is lossless (see `float32_shortcut_lossless`),
      valid UTF-8 text, and every length below 2^32 (the widest length field of the format is 32 bits) -/
  def OKm : CV → Prop
    | .int i => -(2 ^ 63 : Int) ≤ i ∧ i < 2 ^ 64
    | .dbl b => DoubleOK b
    | .str s => s.length < 2 ^ 32 ∧ Spec.Rfc8259.validUtf8 s = true
    | .bytes b => b.length < 2 ^ 32
    | .arr xs => xs.length < 2 ^ 32 ∧ OKmList xs
    | .map ms => ms.length < 2 ^ 32 ∧ OKmMembers ms
    | _ => True
  def OKmList : List CV → Prop
    | [] => True
    | x :: xs => OKm x ∧ OKmList xs
  def OKmMembers : List (Bytes × CV) → Prop
    | [] => True
    | (k, x) :: ms => (k.length < 2 ^ 32 ∧ Spec.Rfc8259.validUtf8 k = true) ∧ OKm x ∧ OKmMembers ms
end

/-! ### the theorem -/
mutual
  theorem enc_dec : ∀ (v : CV) (rest : Bytes) (fuel : Nat), OKm v → need v ≤ fuel →
      item fuel (encode v ++ rest) = .ok (toBV v) rest
    | .null, rest, fuel, _, hf => by
      obtain ⟨f, rfl⟩ : ∃ f, fuel = f + 1 := ⟨fuel - 1, by simp [need] at hf; omega⟩
      simp [encode, item_c0, toBV]
    | .bool b, rest, fuel, _, hf => by
      obtain ⟨f, rfl⟩ : ∃ f, fuel = f + 1 := ⟨fuel - 1, by simp [need] at hf; omega⟩
      cases b <;> simp [encode, item_c2, item_c3, toBV]
    | .int i, rest, fuel, h, hf => by
      obtain ⟨f, rfl⟩ : ∃ f, fuel = f + 1 := ⟨fuel - 1, by simp [need] at hf; omega⟩
      have h' : -(2 ^ 63 : Int) ≤ i ∧ i < 2 ^ 64 := by simpa [OKm] using h
      simpa [encode, toBV] using item_int f i rest h'.1 h'.2
    | .dbl b, rest, fuel, h, hf => by
      obtain ⟨f, rfl⟩ : ∃ f, fuel = f + 1 := ⟨fuel - 1, by simp [need] at hf; omega⟩
      have h' : DoubleOK b := by simpa [OKm] using h
      simpa [encode, toBV] using item_double f b rest h'
    | .str s, rest, fuel, h, hf => by
      obtain ⟨f, rfl⟩ : ∃ f, fuel = f + 1 := ⟨fuel - 1, by simp [need] at hf; omega⟩
      have h' : s.length < 2 ^ 32 ∧ Spec.Rfc8259.validUtf8 s = true := by simpa [OKm] using h
      simpa [encode, toBV] using item_text f s rest h'.1 h'.2
    | .bytes b, rest, fuel, h, hf => by
      obtain ⟨f, rfl⟩ : ∃ f, fuel = f + 1 := ⟨fuel - 1, by simp [need] at hf; omega⟩
      have h' : b.length < 2 ^ 32 := by simpa [OKm] using h
      simpa [encode, toBV] using item_bytes f b rest h'
    | .arr xs, rest, fuel, h, hf => by
      obtain ⟨f, rfl⟩ : ∃ f, fuel = f + 1 := ⟨fuel - 1, by simp [need] at hf; omega⟩
      have h' : xs.length < 2 ^ 32 ∧ OKmList xs := by simpa [OKm] using h
      have hf' : needList xs ≤ f := by simp [need] at hf; omega
      have ih := encList_dec xs rest f h'.2 hf'
      simp only [encode, List.append_assoc]
      rw [item_arrHead f xs.length _ h'.1, ih]
      simp [wrapArr, toBV]
    | .map ms, rest, fuel, h, hf => by
      obtain ⟨f, rfl⟩ : ∃ f, fuel = f + 1 := ⟨fuel - 1, by simp [need] at hf; omega⟩
      have h' : ms.length < 2 ^ 32 ∧ OKmMembers ms := by simpa [OKm] using h
      have hf' : needMembers ms ≤ f := by simp [need] at hf; omega
      have ih := encMembers_dec ms rest f h'.2 hf'
      simp only [encode, List.append_assoc]
      rw [item_mapHead f ms.length _ h'.1, ih]
      simp [wrapMap, toBV]
  theorem encList_dec : ∀ (xs : List CV) (rest : Bytes) (fuel : Nat), OKmList xs → needList xs ≤ fuel →
      items fuel xs.length (encodeList xs ++ rest) = .ok (toBVList xs) rest
    | [], rest, fuel, _, _ => by cases fuel <;> simp [items, encodeList, toBVList]
    | x :: xs, rest, fuel, h, hf => by
      obtain ⟨f, rfl⟩ : ∃ f, fuel = f + 1 := ⟨fuel - 1, by simp [needList] at hf; omega⟩
      have hx : need x ≤ f := by simp [needList] at hf; omega
      have hxs : needList xs ≤ f := by simp [needList] at hf; omega
      have i1 := enc_dec x (encodeList xs ++ rest) f h.1 hx
      have i2 := encList_dec xs rest f h.2 hxs
      simp only [encodeList, List.length_cons, items, List.append_assoc, i1, i2, toBVList]
  theorem encMembers_dec : ∀ (ms : List (Bytes × CV)) (rest : Bytes) (fuel : Nat), OKmMembers ms → needMembers ms ≤ fuel →
      members fuel ms.length (encodeMembers ms ++ rest) = .ok (toBVMembers ms) rest
    | [], rest, fuel, _, _ => by cases fuel <;> simp [members, encodeMembers, toBVMembers]
    | (k, x) :: ms, rest, fuel, h, hf => by
      obtain ⟨f, rfl⟩ : ∃ f, fuel = f + 1 := ⟨fuel - 1, by simp [needMembers] at hf; omega⟩
      have hf1 : 1 ≤ f := by simp [needMembers] at hf; omega
      obtain ⟨g, rfl⟩ : ∃ g, f = g + 1 := ⟨f - 1, by omega⟩
      have hx : need x ≤ g + 1 := by simp [needMembers] at hf; omega
      have hms : needMembers ms ≤ g + 1 := by simp [needMembers] at hf; omega
      have ik := item_text g k (encode x ++ encodeMembers ms ++ rest) h.1.1 h.1.2
      have i1 := enc_dec x (encodeMembers ms ++ rest) (g + 1) h.2.1 hx
      have i2 := encMembers_dec ms rest (g + 1) h.2.2 hms
      simp only [encodeMembers, List.length_cons, members, List.append_assoc] at ik ⊢
      simp only [ik, i1, i2, toBVMembers]
end

end Msgpack
end Model
end JV
