/-
  JV.Proofs.UnflattenSorted — `SL d` is strictly increasing in `vector<string>` order and has the
  members of `leaves d`; hence the pointer map `unflatten` builds from `flatten d` IS `SL d`.
-/
import JV.Proofs.UnflattenBlocks
namespace JV
namespace SMap
open Model Model.Pointer Assoc

theorem mem_SLElems {b : Block} : ∀ {xs : List JVal} {i : Nat},
    b ∈ SLElems i xs ↔ ∃ j x, xs[j]? = some x ∧ b = (natDigits (i + j), SL x)
  | [], i => by simp [SLElems]
  | y :: ys, i => by
    simp only [SLElems, List.mem_cons]
    rw [mem_SLElems (xs := ys) (i := i + 1)]
    constructor
    · rintro (h | ⟨j, x, hx, h⟩)
      · exact ⟨0, y, by simp, by simpa using h⟩
      · exact ⟨j + 1, x, by simpa using hx, by rw [h]; congr 2; omega⟩
    · rintro ⟨j, x, hx, h⟩
      cases j with
      | zero => simp at hx; subst hx; exact Or.inl (by simpa using h)
      | succ j => exact Or.inr ⟨j, x, by simpa using hx, by rw [h]; congr 2; omega⟩

theorem mem_leavesElems {e : Entry} : ∀ {xs : List JVal} {i : Nat},
    e ∈ leavesElems i xs ↔ ∃ j x, xs[j]? = some x ∧ ∃ e' ∈ leaves x, e = pre (natDigits (i + j)) e'
  | [], i => by simp [leavesElems]
  | y :: ys, i => by
    simp only [leavesElems, List.mem_append, List.mem_map]
    rw [mem_leavesElems (xs := ys) (i := i + 1)]
    constructor
    · rintro (⟨e', he', rfl⟩ | ⟨j, x, hx, e', he', h⟩)
      · exact ⟨0, y, by simp, e', he', rfl⟩
      · exact ⟨j + 1, x, by simpa using hx, e', he', by rw [h]; congr 2; omega⟩
    · rintro ⟨j, x, hx, e', he', h⟩
      cases j with
      | zero => simp at hx; subst hx; exact Or.inl ⟨e', he', h.symm⟩
      | succ j => exact Or.inr ⟨j, x, by simpa using hx, e', he', by rw [h]; congr 2; omega⟩

theorem mem_SLMembers {b : Block} : ∀ {ms : List (Bytes × JVal)}, b ∈ SLMembers ms ↔ ∃ kv ∈ ms, b = (kv.1, SL kv.2)
  | [] => by simp [SLMembers]
  | (k, x) :: ms => by
    simp only [SLMembers, List.mem_cons]
    rw [mem_SLMembers (ms := ms)]
    constructor
    · rintro (h | ⟨kv, hkv, h⟩)
      · exact ⟨(k, x), Or.inl rfl, h⟩
      · exact ⟨kv, Or.inr hkv, h⟩
    · rintro ⟨kv, hkv | hkv, h⟩
      · subst hkv; exact Or.inl h
      · exact Or.inr ⟨kv, hkv, h⟩

theorem mem_leavesMembers {e : Entry} : ∀ {ms : List (Bytes × JVal)},
    e ∈ leavesMembers ms ↔ ∃ kv ∈ ms, ∃ e' ∈ leaves kv.2, e = pre kv.1 e'
  | [] => by simp [leavesMembers]
  | (k, x) :: ms => by
    simp only [leavesMembers, List.mem_append, List.mem_map, List.mem_cons]
    rw [mem_leavesMembers (ms := ms)]
    constructor
    · rintro (⟨e', he', rfl⟩ | ⟨kv, hkv, h⟩)
      · exact ⟨(k, x), Or.inl rfl, e', he', rfl⟩
      · exact ⟨kv, Or.inr hkv, h⟩
    · rintro ⟨kv, hkv | hkv, e', he', h⟩
      · subst hkv; exact Or.inl ⟨e', he', h.symm⟩
      · exact Or.inr ⟨kv, hkv, e', he', h⟩

theorem ssorted_SLMembers : ∀ {ms : List (Bytes × JVal)}, SSorted keyLt ms → SSorted keyLt (SLMembers ms)
  | [], _ => trivial
  | (k, x) :: ms, h => by
    refine ⟨?_, ssorted_SLMembers h.2⟩
    intro b hb
    obtain ⟨kv, hkv, rfl⟩ := mem_SLMembers.1 hb
    exact h.1 kv hkv

/-- the sorted blocks of a non-empty array -/
theorem arrBlocks_spec (xs : List JVal) (hl : xs.length < 2 ^ 64) :
    SSorted keyLt (emplaceAll keyLt [] (SLElems 0 xs)) ∧
    ∀ b, b ∈ emplaceAll keyLt [] (SLElems 0 xs) ↔ b ∈ SLElems 0 xs := by
  have hf : Functional ([] ++ SLElems 0 xs) := by
    intro k v v' h1 h2
    simp only [List.nil_append] at h1 h2
    obtain ⟨j, x, hx, e⟩ := mem_SLElems.1 h1
    obtain ⟨j', x', hx', e'⟩ := mem_SLElems.1 h2
    have hj : j < xs.length := (List.getElem?_eq_some_iff.1 hx).1
    have hj' : j' < xs.length := (List.getElem?_eq_some_iff.1 hx').1
    have hk : natDigits (0 + j) = natDigits (0 + j') := by rw [← (Prod.mk.inj e).1, ← (Prod.mk.inj e').1]
    rw [(Prod.mk.inj e).2, (Prod.mk.inj e').2]
    have : 0 + j = 0 + j' := natDigits_inj (by omega) (by omega) hk
    have : j = j' := by omega
    subst this
    rw [hx] at hx'; cases hx'; rfl
  have := emplaceAll_spec keyLt_st (SLElems 0 xs) [] trivial hf
  exact ⟨this.1, fun b => by rw [this.2 b]; simp⟩

/-- what is needed of a document: sorted objects (the `jsoncons::json` invariant), arrays shorter than 2^64 -/
def Good (d : JVal) : Prop := SL d ≠ [] ∧ SSorted toksLt (SL d) ∧ ∀ e, e ∈ SL d ↔ e ∈ leaves d

theorem good_leaf (v : JVal) (h1 : SL v = [([], v)]) (h2 : leaves v = [([], v)]) : Good v := by
  unfold Good; rw [h1, h2]
  exact ⟨by simp, by simp [SSorted], fun _ => Iff.rfl⟩

theorem joinBlocks_ne {bs : List Block} {b : Block} (hb : b ∈ bs) (hne : b.2 ≠ []) : joinBlocks bs ≠ [] := by
  cases hb2 : b.2 with
  | nil => exact absurd hb2 hne
  | cons e _ =>
    intro h
    have : pre b.1 e ∈ joinBlocks bs := mem_joinBlocks.2 ⟨b, hb, e, by rw [hb2]; exact List.mem_cons_self, rfl⟩
    rw [h] at this; cases this

mutual
  theorem good : ∀ (d : JVal), JVal.WF d → SmallArrays d → Good d
    | .arr [], _, _ => good_leaf _ (by simp [SL]) (by simp [leaves])
    | .arr (x :: xs), hw, hs => by
      have hc := goodList (x :: xs) (by simpa [JVal.WF] using hw) hs.2
      have hB := arrBlocks_spec (x :: xs) hs.1
      refine ⟨?_, ?_, ?_⟩
      · simp only [SL]
        refine joinBlocks_ne (b := (natDigits 0, SL x)) ((hB.2 _).2 (by simp [SLElems])) (hc x List.mem_cons_self).1
      · simp only [SL]
        apply ssorted_joinBlocks hB.1
        intro b hb
        obtain ⟨j, y, hy, rfl⟩ := mem_SLElems.1 ((hB.2 b).1 hb)
        exact (hc y (List.mem_of_getElem? hy)).2.1
      · intro e
        simp only [SL, leaves]
        rw [mem_joinBlocks, mem_leavesElems]
        constructor
        · rintro ⟨b, hb, e', he', rfl⟩
          obtain ⟨j, y, hy, rfl⟩ := mem_SLElems.1 ((hB.2 b).1 hb)
          exact ⟨j, y, hy, e', ((hc y (List.mem_of_getElem? hy)).2.2 e').1 he', rfl⟩
        · rintro ⟨j, y, hy, e', he', rfl⟩
          exact ⟨(natDigits (0 + j), SL y), (hB.2 _).2 (mem_SLElems.2 ⟨j, y, hy, rfl⟩), e',
            ((hc y (List.mem_of_getElem? hy)).2.2 e').2 he', rfl⟩
    | .obj [], _, _ => good_leaf _ (by simp [SL]) (by simp [leaves])
    | .obj (m :: ms), hw, hs => by
      have hw' : Assoc.Sorted (m :: ms) ∧ WFMembers (m :: ms) := by simpa [JVal.WF] using hw
      have hc := goodMembers (m :: ms) hw'.2 (by simpa [SmallArrays] using hs)
      have hsrt := ssorted_SLMembers (ssorted_of_sorted hw'.1)
      refine ⟨?_, ?_, ?_⟩
      · simp only [SL]
        refine joinBlocks_ne (b := (m.1, SL m.2)) (mem_SLMembers.2 ⟨m, List.mem_cons_self, rfl⟩) (hc m List.mem_cons_self).1
      · simp only [SL]
        apply ssorted_joinBlocks hsrt
        intro b hb
        obtain ⟨kv, hkv, rfl⟩ := mem_SLMembers.1 hb
        exact (hc kv hkv).2.1
      · intro e
        simp only [SL, leaves]
        rw [mem_joinBlocks, mem_leavesMembers]
        constructor
        · rintro ⟨b, hb, e', he', rfl⟩
          obtain ⟨kv, hkv, rfl⟩ := mem_SLMembers.1 hb
          exact ⟨kv, hkv, e', ((hc kv hkv).2.2 e').1 he', rfl⟩
        · rintro ⟨kv, hkv, e', he', rfl⟩
          exact ⟨(kv.1, SL kv.2), mem_SLMembers.2 ⟨kv, hkv, rfl⟩, e', ((hc kv hkv).2.2 e').2 he', rfl⟩
    | .null, _, _ => good_leaf _ (by simp [SL]) (by simp [leaves])
    | .bool _, _, _ => good_leaf _ (by simp [SL]) (by simp [leaves])
    | .int _, _, _ => good_leaf _ (by simp [SL]) (by simp [leaves])
    | .str _, _, _ => good_leaf _ (by simp [SL]) (by simp [leaves])
  theorem goodList : ∀ (xs : List JVal), WFList xs → SmallList xs → ∀ x ∈ xs, Good x
    | [], _, _, _, h => by cases h
    | y :: ys, hw, hs, x, h => by
      rcases List.mem_cons.1 h with h | h
      · rw [h]; exact good y hw.1 hs.1
      · exact goodList ys hw.2 hs.2 x h
  theorem goodMembers : ∀ (ms : List (Bytes × JVal)), WFMembers ms → SmallMembers ms → ∀ kv ∈ ms, Good kv.2
    | [], _, _, _, h => by cases h
    | (k, y) :: ms, hw, hs, kv, h => by
      rcases List.mem_cons.1 h with h | h
      · rw [h]; exact good y hw.1 hs.1
      · exact goodMembers ms hw.2 hs.2 kv h
end

end SMap
end JV
