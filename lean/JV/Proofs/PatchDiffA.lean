/-
  JV.Proofs.PatchDiffA — infrastructure for the diff law of `from_diff`:
  `put d loc x` rewrites exactly the sub-document addressed by `loc`; `Pointer.apply` on a path
  `loc ++ [k]` is `finalStep` on the parent, put back at `loc`.
-/
import JV.Proofs.PatchUndoB
import JV.Proofs.PointerText
import JV.Proofs.UnflattenLeaves
namespace JV
namespace Model
namespace Pointer
open Assoc

/-- rewrite the sub-document at `loc` (identity when `loc` does not resolve) -/
def put : JVal → List Bytes → JVal → JVal
  | _, [], x => x
  | .arr xs, tok :: rest, x =>
    match decToIndex tok with
    | none => .arr xs
    | some i =>
      match xs[i]? with
      | none => .arr xs
      | some c => .arr (xs.set i (put c rest x))
  | .obj ms, tok :: rest, x =>
    match find tok ms with
    | none => .obj ms
    | some c => .obj (replaceVal tok (put c rest x) ms)
  | d, _ :: _, _ => d

theorem put_nil (d x : JVal) : put d [] x = x := by cases d <;> rfl

/-- inversion of a successful `get` through one token -/
theorem get_cons_inv {d : JVal} {tok : Bytes} {rest : List Bytes} {s : JVal} (h : get d (tok :: rest) = .ok s) :
    (∃ xs i c, d = .arr xs ∧ isDash tok = false ∧ decToIndex tok = some i ∧ xs[i]? = some c ∧ get c rest = .ok s) ∨
    (∃ ms c, d = .obj ms ∧ find tok ms = some c ∧ get c rest = .ok s) := by
  cases d with
  | arr xs =>
    left
    simp only [get] at h
    by_cases hd : isDash tok = true
    · simp [hd] at h
    · have hd2 : isDash tok = false := by simpa using hd
      simp only [hd2, Bool.false_eq_true, if_false] at h
      cases hi : decToIndex tok with
      | none => rw [hi] at h; simp at h
      | some i =>
        rw [hi] at h
        simp only [] at h
        cases hx : xs[i]? with
        | none => rw [hx] at h; simp at h
        | some c =>
          rw [hx] at h
          exact ⟨xs, i, c, rfl, hd2, rfl, hx, h⟩
  | obj ms =>
    right
    simp only [get] at h
    cases hf : find tok ms with
    | none => rw [hf] at h; simp at h
    | some c => rw [hf] at h; exact ⟨ms, c, rfl, hf, h⟩
  | null => simp [get] at h
  | bool _ => simp [get] at h
  | int _ => simp [get] at h
  | str _ => simp [get] at h

theorem get_arr_step {xs : List JVal} {tok : Bytes} {i : Nat} {c : JVal} (rest : List Bytes)
    (hd : isDash tok = false) (hi : decToIndex tok = some i) (hx : xs[i]? = some c) :
    get (.arr xs) (tok :: rest) = get c rest := by
  simp [get, hd, hi, hx]

theorem get_obj_step {ms : List (Bytes × JVal)} {tok : Bytes} {c : JVal} (rest : List Bytes)
    (hf : find tok ms = some c) : get (.obj ms) (tok :: rest) = get c rest := by
  simp [get, hf]

theorem put_arr_step {xs : List JVal} {tok : Bytes} {i : Nat} {c : JVal} (rest : List Bytes) (x : JVal)
    (hi : decToIndex tok = some i) (hx : xs[i]? = some c) :
    put (.arr xs) (tok :: rest) x = .arr (xs.set i (put c rest x)) := by
  simp [put, hi, hx]

theorem put_obj_step {ms : List (Bytes × JVal)} {tok : Bytes} {c : JVal} (rest : List Bytes) (x : JVal)
    (hf : find tok ms = some c) : put (.obj ms) (tok :: rest) x = .obj (replaceVal tok (put c rest x) ms) := by
  simp [put, hf]

theorem getElem_set_self {x : JVal} {xs : List JVal} {i : Nat} {c : JVal} (hx : xs[i]? = some c) :
    (xs.set i x)[i]? = some x := by
  have hlt : i < xs.length := (List.getElem?_eq_some_iff.1 hx).1
  simp [hlt]

theorem get_put : ∀ (loc : List Bytes) (d s x : JVal), get d loc = .ok s → get (put d loc x) loc = .ok x
  | [], d, s, x, _ => by rw [put_nil]; cases x <;> rfl
  | tok :: rest, d, s, x, h => by
    rcases get_cons_inv h with ⟨xs, i, c, rfl, hd, hi, hx, hg⟩ | ⟨ms, c, rfl, hf, hg⟩
    · rw [put_arr_step rest x hi hx, get_arr_step rest hd hi (getElem_set_self hx)]
      exact get_put rest c s x hg
    · rw [put_obj_step rest x hf, get_obj_step rest (find_replaceVal_self hf)]
      exact get_put rest c s x hg

theorem put_put : ∀ (loc : List Bytes) (d s x y : JVal), get d loc = .ok s → put (put d loc x) loc y = put d loc y
  | [], d, s, x, y, _ => by simp [put_nil]
  | tok :: rest, d, s, x, y, h => by
    rcases get_cons_inv h with ⟨xs, i, c, rfl, hd, hi, hx, hg⟩ | ⟨ms, c, rfl, hf, hg⟩
    · rw [put_arr_step rest x hi hx, put_arr_step rest y hi (getElem_set_self hx), put_arr_step rest y hi hx,
        put_put rest c s x y hg]
      simp
    · rw [put_obj_step rest x hf, put_obj_step rest y (find_replaceVal_self hf), put_obj_step rest y hf,
        put_put rest c s x y hg, replaceVal_replaceVal]

theorem put_same : ∀ (loc : List Bytes) (d s : JVal), get d loc = .ok s → put d loc s = d
  | [], d, s, h => by
    rw [put_nil]
    have : get d [] = .ok d := by cases d <;> rfl
    rw [this] at h
    exact (Except.ok.inj h).symm
  | tok :: rest, d, s, h => by
    rcases get_cons_inv h with ⟨xs, i, c, rfl, hd, hi, hx, hg⟩ | ⟨ms, c, rfl, hf, hg⟩
    · rw [put_arr_step rest s hi hx, put_same rest c s hg, set_same hx]
    · rw [put_obj_step rest s hf, put_same rest c s hg, replaceVal_same hf]

theorem get_append : ∀ (loc : List Bytes) (d c : JVal) (rest : List Bytes), get d loc = .ok c →
    get d (loc ++ rest) = get c rest
  | [], d, c, rest, h => by
    have : get d [] = .ok d := by cases d <;> rfl
    rw [this] at h
    rw [← Except.ok.inj h]; rfl
  | tok :: loc, d, c, rest, h => by
    rcases get_cons_inv h with ⟨xs, i, c2, rfl, hd, hi, hx, hg⟩ | ⟨ms, c2, rfl, hf, hg⟩
    · rw [List.cons_append, get_arr_step _ hd hi hx]; exact get_append loc c2 c rest hg
    · rw [List.cons_append, get_obj_step _ hf]; exact get_append loc c2 c rest hg

theorem put_append : ∀ (loc : List Bytes) (d c : JVal) (rest : List Bytes) (y : JVal), get d loc = .ok c →
    put d (loc ++ rest) y = put d loc (put c rest y)
  | [], d, c, rest, y, h => by
    have : get d [] = .ok d := by cases d <;> rfl
    rw [this] at h
    rw [← Except.ok.inj h, put_nil]; rfl
  | tok :: loc, d, c, rest, y, h => by
    rcases get_cons_inv h with ⟨xs, i, c2, rfl, hd, hi, hx, hg⟩ | ⟨ms, c2, rfl, hf, hg⟩
    · rw [List.cons_append, put_arr_step _ y hi hx, put_arr_step _ _ hi hx, put_append loc c2 c rest y hg]
    · rw [List.cons_append, put_obj_step _ y hf, put_obj_step _ _ hf, put_append loc c2 c rest y hg]

/-! ### `Pointer.apply` at `loc ++ [k]` -/

theorem modifyAt_put (f : Final) (k : Bytes) : ∀ (loc : List Bytes) (d c : JVal), get d loc = .ok c →
    ∀ (t2 : Bytes) (r2 : List Bytes), loc ++ [k] = t2 :: r2 →
      modifyAt false false f d t2 r2 =
        ((finalStep false false f c k).1, put d loc (finalStep false false f c k).2)
  | [], d, c, h, t2, r2, e => by
    have : get d [] = .ok d := by cases d <;> rfl
    rw [this] at h
    have hc := Except.ok.inj h
    subst hc
    simp only [List.nil_append, List.cons.injEq] at e
    obtain ⟨e1, e2⟩ := e
    subst e1; subst e2
    rw [put_nil]
    cases d <;> rfl
  | tok :: loc, d, c, h, t2, r2, e => by
    simp only [List.cons_append, List.cons.injEq] at e
    obtain ⟨e1, e2⟩ := e
    subst e1; subst e2
    obtain ⟨t3, r3, e3⟩ : ∃ t3 r3, loc ++ [k] = t3 :: r3 := by
      cases loc with
      | nil => exact ⟨k, [], rfl⟩
      | cons a l => exact ⟨a, l ++ [k], rfl⟩
    rw [e3]
    rcases get_cons_inv h with ⟨xs, i, c2, rfl, hd, hi, hx, hg⟩ | ⟨ms, c2, rfl, hf, hg⟩
    · rw [put_arr_step _ _ hi hx]
      simp only [modifyAt, hd, hi, hx, Bool.false_eq_true, if_false]
      rw [modifyAt_put f k loc c2 c hg t3 r3 e3]
    · rw [put_obj_step _ _ hf]
      simp only [modifyAt, hf]
      rw [modifyAt_put f k loc c2 c hg t3 r3 e3]

theorem apply_append_last (f : Final) (d c : JVal) (loc : List Bytes) (k : Bytes) (h : get d loc = .ok c) :
    apply false false f d (loc ++ [k]) =
      ((finalStep false false f c k).1, put d loc (finalStep false false f c k).2) := by
  obtain ⟨t3, r3, e3⟩ : ∃ t3 r3, loc ++ [k] = t3 :: r3 := by
    cases loc with
    | nil => exact ⟨k, [], rfl⟩
    | cons a l => exact ⟨a, l ++ [k], rfl⟩
  rw [e3]
  simp only [apply]
  exact modifyAt_put f k loc d c h t3 r3 e3

theorem modifyAt_replace (x : JVal) : ∀ (rest : List Bytes) (d : JVal) (tok : Bytes) (s : JVal),
    get d (tok :: rest) = .ok s →
      modifyAt false false (.replace x) d tok rest = (none, put d (tok :: rest) x)
  | [], d, tok, s, h => by
    rcases get_cons_inv h with ⟨xs, i, c2, rfl, hd, hi, hx, hg⟩ | ⟨ms, c2, rfl, hf, hg⟩
    · have hlt : i < xs.length := (List.getElem?_eq_some_iff.1 hx).1
      have h1 : ¬ i ≥ xs.length := by omega
      rw [put_arr_step _ _ hi hx, put_nil]
      simp [modifyAt, finalStep, hd, hi, h1]
    · rw [put_obj_step _ _ hf, put_nil]
      simp [modifyAt, finalStep, hf, insertOrAssign]
  | t2 :: rest, d, tok, s, h => by
    rcases get_cons_inv h with ⟨xs, i, c2, rfl, hd, hi, hx, hg⟩ | ⟨ms, c2, rfl, hf, hg⟩
    · rw [put_arr_step _ _ hi hx]
      simp only [modifyAt, hd, hi, hx, Bool.false_eq_true, if_false]
      rw [modifyAt_replace x rest c2 t2 s hg]
    · rw [put_obj_step _ _ hf]
      simp only [modifyAt, hf]
      rw [modifyAt_replace x rest c2 t2 s hg]

theorem apply_replace_put (x d s : JVal) (loc : List Bytes) (h : get d loc = .ok s) :
    apply false false (.replace x) d loc = (none, put d loc x) := by
  cases loc with
  | nil => simp [apply, put_nil]
  | cons tok rest => simp only [apply]; exact modifyAt_replace x rest d tok s h

/-! ### text of the paths `from_diff` builds -/

theorem toString_snoc (loc : List Bytes) (k : Bytes) :
    toString loc ++ 47 :: escapeToken k = toString (loc ++ [k]) := by
  rw [toString_append]; simp [toString]

theorem toString_snoc_idx (loc : List Bytes) (i : Nat) (hi : i < 2 ^ 64) :
    toString loc ++ 47 :: natDigits i = toString (loc ++ [natDigits i]) := by
  rw [← toString_snoc, JV.SMap.escapeToken_natDigits i hi]

end Pointer
end Model
end JV
