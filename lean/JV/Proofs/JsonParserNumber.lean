/-
  JV.Proofs.JsonParserNumber — the number sub-automaton of the parser model (`stepNumber`, json_parser.hpp:1727-1949) seen as a
  DFA (`numNext`/`numRun`), and the proof that it accepts exactly the literals of the RFC 8259 number production
  (`Spec.Rfc8259.parseNumber` consuming the whole text).
-/
import JV.Proofs.JsonParser
import JV.Proofs.JsonNumberText
namespace JV
namespace Model
namespace JsonParser

/-- the number sub-automaton as a DFA: `some` = the character belongs to the literal -/
def numNext (ns : NS) (c : Nat) : Option NS :=
  match ns with
  | .minus => if 49 ≤ c ∧ c ≤ 57 then some .integer else if c = 48 then some .zero else none
  | .zero => if c = 46 then some .fraction1 else if isExp c then some .exp1 else none
  | .integer => if isDigit c then some .integer else if c = 46 then some .fraction1 else if isExp c then some .exp1 else none
  | .fraction1 => if isDigit c then some .fraction2 else none
  | .fraction2 => if isDigit c then some .fraction2 else if isExp c then some .exp1 else none
  | .exp1 => if c = 45 ∨ c = 43 then some .exp2 else if isDigit c then some .exp3 else none
  | .exp2 => if isDigit c then some .exp3 else none
  | .exp3 => if isDigit c then some .exp3 else none

def numRun : NS → Bytes → Option NS
  | ns, [] => some ns
  | ns, c :: cs => match numNext ns c with
    | some ns' => numRun ns' cs
    | none => none

def numFinal : NS → Bool
  | .zero | .integer | .fraction2 | .exp3 => true
  | _ => false

def numStart (c : Nat) : Option NS :=
  if c = 45 then some .minus else if c = 48 then some .zero else if 49 ≤ c ∧ c ≤ 57 then some .integer else none

/-- the literals the sub-automaton accepts -/
def numAccepts : Bytes → Bool
  | [] => false
  | c :: cs => match numStart c with
    | none => false
    | some ns => match numRun ns cs with
      | some f => numFinal f
      | none => false

/-- whenever the DFA moves, `parse_number` consumes the character, appends it and moves the same way -/
theorem stepNumber_of_numNext (s : St) (c : Nat) (ns' : NS) (h : numNext s.ns c = some ns') :
    stepNumber s c = ({ s with buf := s.buf ++ [c], ns := ns' }, true) := by
  unfold numNext at h
  unfold stepNumber
  cases hns : s.ns <;> simp only [hns] at h ⊢ <;> (repeat' split at h) <;> simp_all


abbrev takeDigits := Spec.Rfc8259.takeDigits
abbrev parseNumber := Spec.Rfc8259.parseNumber

theorem isDigit_eq (c : Nat) : JsonParser.isDigit c = Spec.Rfc8259.isDigit c := rfl

theorem run_exp3 (bs : Bytes) : numRun .exp3 bs = if (takeDigits bs).2 = [] then some .exp3 else none := by
  induction bs with
  | nil => simp [numRun, takeDigits, Spec.Rfc8259.takeDigits]
  | cons c cs ih =>
    simp only [numRun, numNext, takeDigits, Spec.Rfc8259.takeDigits, isDigit_eq]
    by_cases h : Spec.Rfc8259.isDigit c = true <;> simp [h, ih]

theorem run_exp2 (bs : Bytes) :
    numRun .exp2 bs = match bs with
      | [] => some .exp2
      | c :: r => if Spec.Rfc8259.isDigit c then numRun .exp3 r else none := by
  cases bs with
  | nil => rfl
  | cons c cs => simp only [numRun, numNext, isDigit_eq]; by_cases h : Spec.Rfc8259.isDigit c = true <;> simp [h]

theorem run_frac2 (bs : Bytes) :
    numRun .fraction2 bs = match (takeDigits bs).2 with
      | [] => some .fraction2
      | c :: r => if isExp c then numRun .exp1 r else none := by
  induction bs with
  | nil => simp [numRun, takeDigits, Spec.Rfc8259.takeDigits]
  | cons c cs ih =>
    simp only [numRun, numNext, takeDigits, Spec.Rfc8259.takeDigits, isDigit_eq]
    by_cases h : Spec.Rfc8259.isDigit c = true
    · simp [h, ih]
    · simp only [h]; by_cases he : isExp c = true <;> simp [he]

theorem run_int (bs : Bytes) :
    numRun .integer bs = match (takeDigits bs).2 with
      | [] => some .integer
      | c :: r => if c = 46 then numRun .fraction1 r else if isExp c then numRun .exp1 r else none := by
  induction bs with
  | nil => simp [numRun, takeDigits, Spec.Rfc8259.takeDigits]
  | cons c cs ih =>
    simp only [numRun, numNext, takeDigits, Spec.Rfc8259.takeDigits, isDigit_eq]
    by_cases h : Spec.Rfc8259.isDigit c = true
    · simp [h, ih]
    · simp only [h]
      by_cases h46 : c = 46
      · simp [h46]
      · by_cases he : isExp c = true <;> simp [he, h46]


theorem run_exp1 (bs : Bytes) :
    numRun .exp1 bs = match bs with
      | [] => some .exp1
      | c :: r => if c = 45 ∨ c = 43 then numRun .exp2 r else if Spec.Rfc8259.isDigit c then numRun .exp3 r else none := by
  cases bs with
  | nil => rfl
  | cons c cs =>
    simp only [numRun, numNext, isDigit_eq]
    by_cases h1 : c = 45 ∨ c = 43
    · simp [h1]
    · by_cases h : Spec.Rfc8259.isDigit c = true <;> simp [h, h1]

theorem run_frac1 (bs : Bytes) :
    numRun .fraction1 bs = match bs with
      | [] => some .fraction1
      | c :: r => if Spec.Rfc8259.isDigit c then numRun .fraction2 r else none := by
  cases bs with
  | nil => rfl
  | cons c cs => simp only [numRun, numNext, isDigit_eq]; by_cases h : Spec.Rfc8259.isDigit c = true <;> simp [h]

theorem run_zero (bs : Bytes) :
    numRun .zero bs = match bs with
      | [] => some .zero
      | c :: r => if c = 46 then numRun .fraction1 r else if isExp c then numRun .exp1 r else none := by
  cases bs with
  | nil => rfl
  | cons c cs =>
    simp only [numRun, numNext]
    by_cases h46 : c = 46
    · simp [h46]
    · by_cases he : isExp c = true <;> simp [he, h46]


theorem run_minus (bs : Bytes) :
    (match numRun .minus bs with
      | some f => numFinal f
      | none => false) = (match bs with
      | [] => false
      | c :: cs => match (if c = 48 then some NS.zero else if 49 ≤ c ∧ c ≤ 57 then some NS.integer else none) with
        | none => false
        | some ns => match numRun ns cs with
          | some f => numFinal f
          | none => false) := by
  cases bs with
  | nil => simp [numRun, numFinal]
  | cons c cs =>
    simp only [numRun, numNext]
    by_cases h19 : 49 ≤ c ∧ c ≤ 57
    · have : c ≠ 48 := by omega
      simp [h19, this]
    · by_cases h48 : c = 48 <;> simp [h19, h48]

theorem takeDigits_fst_nil (bs : Bytes) : (takeDigits bs).1 = [] ↔ (match bs with | [] => True | c :: _ => Spec.Rfc8259.isDigit c = false) := by
  cases bs with
  | nil => simp [takeDigits, Spec.Rfc8259.takeDigits]
  | cons c cs => simp only [takeDigits, Spec.Rfc8259.takeDigits]; by_cases h : Spec.Rfc8259.isDigit c = true <;> simp [h]

theorem takeDigits_cons_digit (c : Nat) (cs : Bytes) (h : Spec.Rfc8259.isDigit c = true) :
    takeDigits (c :: cs) = (c :: (takeDigits cs).1, (takeDigits cs).2) := by
  simp [takeDigits, Spec.Rfc8259.takeDigits, h]

theorem takeDigits_cons_nondigit (c : Nat) (cs : Bytes) (h : Spec.Rfc8259.isDigit c = false) :
    takeDigits (c :: cs) = ([], c :: cs) := by
  simp [takeDigits, Spec.Rfc8259.takeDigits, h]

theorem takeDigits_snd_head (bs : Bytes) (c : Nat) (r : Bytes) (h : (takeDigits bs).2 = c :: r) : Spec.Rfc8259.isDigit c = false := by
  induction bs with
  | nil => simp [takeDigits, Spec.Rfc8259.takeDigits] at h
  | cons d ds ih =>
    by_cases hd : Spec.Rfc8259.isDigit d = true
    · rw [takeDigits_cons_digit _ _ hd] at h; exact ih h
    · have hd' : Spec.Rfc8259.isDigit d = false := by simpa using hd
      rw [takeDigits_cons_nondigit _ _ hd'] at h
      simp at h; rw [← h.1]; exact hd'

def dropSign : Bytes → Bytes
  | 43 :: r => r
  | 45 :: r => r
  | r => r

theorem dropSign_other (c : Nat) (cs : Bytes) (h1 : c ≠ 43) (h2 : c ≠ 45) : dropSign (c :: cs) = c :: cs := by
  unfold dropSign; split <;> simp_all

/-- digits-to-the-end: DFA in `exp3`/after one digit -/
theorem digits_all (c : Nat) (cs : Bytes) (hd : Spec.Rfc8259.isDigit c = true) :
    ((numRun .exp3 cs).map numFinal = some true) ↔ ((takeDigits (c :: cs)).1 ≠ [] ∧ (takeDigits (c :: cs)).2 = []) := by
  rw [run_exp3, takeDigits_cons_digit _ _ hd]
  by_cases h : (takeDigits cs).2 = [] <;> simp [h, numFinal]

theorem exp2_stage (cs : Bytes) :
    ((numRun .exp2 cs).map numFinal = some true) ↔ ((takeDigits cs).1 ≠ [] ∧ (takeDigits cs).2 = []) := by
  rw [run_exp2]
  cases cs with
  | nil => simp [numFinal, takeDigits, Spec.Rfc8259.takeDigits]
  | cons d ds =>
    by_cases hd : Spec.Rfc8259.isDigit d = true
    · simp only [hd, if_true]; exact digits_all d ds hd
    · simp [hd, takeDigits_cons_nondigit]

/-- the exponent part: DFA from `exp1` on `r` accepts iff the Spec's exponent production consumes all of `r` -/
theorem exp_stage (r : Bytes) :
    ((numRun .exp1 r).map numFinal = some true) ↔ ((takeDigits (dropSign r)).1 ≠ [] ∧ (takeDigits (dropSign r)).2 = []) := by
  rw [run_exp1]
  cases r with
  | nil => simp [numFinal, takeDigits, Spec.Rfc8259.takeDigits, dropSign]
  | cons c cs =>
    by_cases h45 : c = 45
    · subst h45; simp only [true_or, if_true]; exact exp2_stage cs
    · by_cases h43 : c = 43
      · subst h43; simp only [or_true, if_true]; exact exp2_stage cs
      · have hne : ¬ (c = 45 ∨ c = 43) := by omega
        simp only [hne, if_false, dropSign_other c cs h43 h45]
        by_cases hd : Spec.Rfc8259.isDigit c = true
        · simp only [hd, if_true]; exact digits_all c cs hd
        · simp [hd, takeDigits_cons_nondigit]


/-! the Spec's number production, stage by stage, as functions to the unconsumed rest -/
def specExp (s3 : Bytes) : Option Bytes :=
  match s3 with
  | e :: r => if isExp e then (if (takeDigits (dropSign r)).1 = [] then none else some (takeDigits (dropSign r)).2) else some s3
  | [] => some []

def specFrac (s2 : Bytes) : Option Bytes :=
  match s2 with
  | 46 :: r => if (takeDigits r).1 = [] then none else some (takeDigits r).2
  | _ => some s2

def specInt (s1 : Bytes) : Option Bytes :=
  match s1 with
  | [] => none
  | c :: cs => if c = 48 then some cs else if 49 ≤ c ∧ c ≤ 57 then some (takeDigits cs).2 else none

def dropMinus : Bytes → Bytes
  | 45 :: r => r
  | r => r

def specRest (s : Bytes) : Option Bytes := (specInt (dropMinus s)).bind fun s2 => (specFrac s2).bind specExp

theorem exp_final (s3 : Bytes) (hnd : ∀ c r, s3 = c :: r → Spec.Rfc8259.isDigit c = false) :
    ((match s3 with
      | [] => some NS.fraction2
      | c :: r => if isExp c then numRun .exp1 r else none).map numFinal = some true) ↔ specExp s3 = some [] := by
  cases s3 with
  | nil => simp [specExp, numFinal]
  | cons c r =>
    simp only [specExp]
    by_cases he : isExp c = true
    · simp only [he, if_true]
      rw [exp_stage]
      by_cases h1 : (takeDigits (dropSign r)).1 = [] <;> simp [h1]
    · simp [he]

theorem frac1_stage (r : Bytes) :
    ((numRun .fraction1 r).map numFinal = some true) ↔
      ((if (takeDigits r).1 = [] then none else some (takeDigits r).2).bind specExp = some []) := by
  rw [run_frac1]
  cases r with
  | nil => simp [numFinal, takeDigits, Spec.Rfc8259.takeDigits]
  | cons d ds =>
    by_cases hd : Spec.Rfc8259.isDigit d = true
    · simp only [hd, if_true, takeDigits_cons_digit _ _ hd, run_frac2]
      simp only [List.cons_ne_nil, if_false, Option.bind_some]
      apply exp_final
      intro c r hcr
      exact takeDigits_snd_head ds c r hcr
    · simp [hd, takeDigits_cons_nondigit]


theorem int_stage (st : NS) (hst : numFinal st = true) (s2 : Bytes) :
    ((match s2 with
      | [] => some st
      | c :: r => if c = 46 then numRun .fraction1 r else if isExp c then numRun .exp1 r else none).map numFinal = some true) ↔
      (specFrac s2).bind specExp = some [] := by
  cases s2 with
  | nil => simp [specFrac, specExp, hst]
  | cons c r =>
    by_cases h46 : c = 46
    · subst h46
      simp only [if_true, specFrac]
      exact frac1_stage r
    · have hf : specFrac (c :: r) = some (c :: r) := by unfold specFrac; split <;> simp_all
      simp only [h46, if_false, hf, Option.bind_some, specExp]
      by_cases he : isExp c = true
      · simp only [he, if_true]
        rw [exp_stage]
        by_cases h1 : (takeDigits (dropSign r)).1 = [] <;> simp [h1]
      · simp [he]

theorem numAccepts_iff_specRest (bs : Bytes) : numAccepts bs = true ↔ specRest bs = some [] := by
  have key : ∀ (s1 : Bytes), (match s1 with
      | [] => false
      | c :: cs => match (if c = 48 then some NS.zero else if 49 ≤ c ∧ c ≤ 57 then some NS.integer else none) with
        | none => false
        | some ns => match numRun ns cs with
          | some f => numFinal f
          | none => false) = true ↔ (specInt s1).bind (fun s2 => (specFrac s2).bind specExp) = some [] := by
    intro s1
    cases s1 with
    | nil => simp [specInt]
    | cons c cs =>
      by_cases h48 : c = 48
      · subst h48
        simp only [if_true, specInt, Option.bind_some]
        rw [← int_stage .zero rfl cs, run_zero]
        cases cs with
        | nil => simp [numFinal]
        | cons d ds => simp only []; split <;> simp_all
      · by_cases h19 : 49 ≤ c ∧ c ≤ 57
        · simp only [h48, if_false, h19, and_self, if_true, specInt, Option.bind_some]
          rw [← int_stage .integer rfl (takeDigits cs).2, run_int]
          generalize (takeDigits cs).2 = s2
          cases s2 with
          | nil => simp [numFinal]
          | cons d ds => simp only []; split <;> simp_all
        · simp [h48, h19, specInt]
  cases bs with
  | nil => simp [numAccepts, specRest, dropMinus, specInt]
  | cons c cs =>
    by_cases h45 : c = 45
    · subst h45
      have := key cs
      simp only [numAccepts, numStart, if_true, specRest, dropMinus]
      rw [← this, run_minus]
    · have hd : dropMinus (c :: cs) = c :: cs := by unfold dropMinus; split <;> simp_all
      have := key (c :: cs)
      simp only [numAccepts, numStart, h45, if_false, specRest, hd]
      rw [← this]


theorem takeDigits_append (bs : Bytes) : (takeDigits bs).1 ++ (takeDigits bs).2 = bs := by
  induction bs with
  | nil => simp [takeDigits, Spec.Rfc8259.takeDigits]
  | cons d ds ih =>
    by_cases hd : Spec.Rfc8259.isDigit d = true
    · rw [takeDigits_cons_digit _ _ hd]; simp [ih]
    · have hd' : Spec.Rfc8259.isDigit d = false := by simpa using hd
      rw [takeDigits_cons_nondigit _ _ hd']; simp


open Spec.Rfc8259 in
theorem eSign_snd (r : Bytes) : (eSign r).2 = dropSign r := by
  unfold eSign dropSign; split <;> simp_all

open Spec.Rfc8259 in
theorem pSign_snd (s : Bytes) : (pSign s).2 = dropMinus s := by
  unfold pSign dropMinus; split <;> simp_all

open Spec.Rfc8259 in
theorem pInt_rest (s1 : Bytes) : (pInt s1).map (·.2) = specInt s1 := by
  unfold pInt specInt
  cases s1 with
  | nil => rfl
  | cons c cs =>
    by_cases h48 : c = 48
    · simp [h48]
    · by_cases h19 : 49 ≤ c ∧ c ≤ 57 <;> simp [h48, h19, takeDigits]

open Spec.Rfc8259 in
theorem pFrac_rest (s2 : Bytes) : (pFrac s2).map (·.2) = specFrac s2 := by
  unfold pFrac specFrac
  split
  · simp only [takeDigits]; split <;> simp_all
  · simp

open Spec.Rfc8259 in
theorem pExp_rest (s3 : Bytes) : (pExp s3).map (·.2) = specExp s3 := by
  cases s3 with
  | nil => simp [pExp, specExp]
  | cons e r =>
    rw [pExp_cons]
    simp only [specExp, isExp, eSign_snd, takeDigits]
    by_cases he : (decide (e = 101) || decide (e = 69)) = true
    · simp only [he, if_true]; split <;> simp_all
    · simp [he]

open Spec.Rfc8259 in
/-- the reference's number production, seen as "what is left after the longest number prefix" -/
theorem parseNumber_rest (s : Bytes) : (Spec.Rfc8259.parseNumber s).map (·.2) = specRest s := by
  rw [parseNumber_staged]
  unfold staged specRest
  rw [← pSign_snd, ← pInt_rest]
  cases h1 : pInt (pSign s).2 with
  | none => simp
  | some p1 =>
    obtain ⟨ip, s2⟩ := p1
    simp only [Option.map_some, Option.bind_some]
    rw [← pFrac_rest]
    cases h2 : pFrac s2 with
    | none => simp
    | some p2 =>
      obtain ⟨fp, s3⟩ := p2
      simp only [Option.map_some, Option.bind_some]
      rw [← pExp_rest]
      cases h3 : pExp s3 with
      | none => simp
      | some p3 => obtain ⟨ep, s4⟩ := p3; simp


/-- the accepted literals are exactly those the reference reads as one complete number -/
theorem numAccepts_iff (bs : Bytes) : numAccepts bs = true ↔ ∃ lit, Spec.Rfc8259.parseNumber bs = some (lit, []) := by
  rw [numAccepts_iff_specRest, ← parseNumber_rest]
  cases h : Spec.Rfc8259.parseNumber bs with
  | none => simp
  | some p => obtain ⟨l, t⟩ := p; simp

theorem feedChar_number (cfg : Cfg) (s : St) (c : Nat) (ns' : NS) (hst : s.st = .number) (he : s.err = none)
    (h : numNext s.ns c = some ns') : feedChar cfg s c = { s with buf := s.buf ++ [c], ns := ns' } := by
  simp [feedChar, he, stepChar, hst, stepNumber_of_numNext s c ns' h]

theorem feed_number (cfg : Cfg) (bs : Bytes) : ∀ (s : St) (ns' : NS), s.st = .number → s.err = none →
    numRun s.ns bs = some ns' → feed cfg s bs = { s with buf := s.buf ++ bs, ns := ns' } := by
  induction bs with
  | nil => intro s ns' _ _ h; simp [numRun] at h; subst h; simp [feed]
  | cons c cs ih =>
    intro s ns' hst he h
    simp only [numRun] at h
    cases hn : numNext s.ns c with
    | none => simp [hn] at h
    | some n1 =>
      simp only [hn] at h
      simp only [feed, List.foldl_cons, feedChar_number cfg s c n1 hst he hn]
      have := ih { s with buf := s.buf ++ [c], ns := n1 } ns' hst he h
      simp only [feed] at this
      rw [this]; simp

/-- a complete number literal, alone, is accepted and reported as one number event carrying the literal -/
theorem number_text_accepted (cfg : Cfg) (lit : Bytes) (h : numAccepts lit = true) :
    accepted (run cfg lit) = true ∧ ((run cfg lit).evs = [Ev.int lit] ∨ (run cfg lit).evs = [Ev.frac lit]) := by
  cases lit with
  | nil => simp [numAccepts] at h
  | cons c cs =>
    simp only [numAccepts] at h
    cases hs : numStart c with
    | none => simp [hs] at h
    | some ns0 =>
      simp only [hs] at h
      cases hr : numRun ns0 cs with
      | none => simp [hr] at h
      | some f =>
        simp only [hr] at h
        -- the first character
        have hfirst : feedChar cfg init c = { init with st := .number, ns := ns0, buf := [c] } := by
          unfold numStart at hs
          by_cases h45 : c = 45
          · subst h45; simp at hs; subst hs
            simp [feedChar, init, stepChar, isCtl, spaceOrSlash, valueStart]
          · by_cases h48 : c = 48
            · subst h48; simp at hs; subst hs
              simp [feedChar, init, stepChar, isCtl, spaceOrSlash, valueStart]
            · simp only [h45, h48, if_false] at hs
              by_cases h19 : 49 ≤ c ∧ c ≤ 57
              · simp only [h19, and_self, if_true, Option.some.injEq] at hs; subst hs
                have hctl : isCtl c = false := by simp [isCtl]; omega
                have hsp : spaceOrSlash init c = none := by
                  unfold spaceOrSlash
                  have : ¬ (c = 32 ∨ c = 9 ∨ c = 10) := by omega
                  have : c ≠ 13 := by omega
                  have : c ≠ 47 := by omega
                  simp [*]
                have hv : valueStart cfg init c = some { init with st := .number, ns := .integer, buf := [c] } := by
                  unfold valueStart
                  have : c ≠ 123 := by omega
                  have : c ≠ 91 := by omega
                  have : c ≠ 34 := by omega
                  simp [*]
                have hst : init.st = .start := rfl
                have herr : init.err = none := rfl
                simp [feedChar, stepChar, hst, hctl, hsp, hv, herr]
              · simp [h19] at hs
        have hrest := feed_number cfg cs { init with st := .number, ns := ns0, buf := [c] } f rfl rfl hr
        have hfeed : feed cfg init (c :: cs) = { init with st := .number, ns := f, buf := c :: cs } := by
          simp only [feed, List.foldl_cons, hfirst]
          simp only [feed] at hrest
          rw [hrest]; simp
        unfold run
        rw [hfeed]
        cases f <;> simp [numFinal] at h <;>
          simp [finish, finish1, endInteger, endFraction, afterValue, parent, emit, init, accepted]


end JsonParser
end Model
end JV
