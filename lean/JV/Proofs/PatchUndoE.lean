/-
  JV.Proofs.PatchUndoE — insertion-ordered objects (`ojson`) up to member order.

  `norm` sorts the members of every object of a value.  Two values are "equal as JSON values"
  (`a ≃ b`, member order of objects ignored) iff `norm a = norm b`.  Under the unique-keys invariant
  of `basic_json` (`JsonPath.UK`), the insertion-ordered flavour of `Pointer.apply` on `d` is simulated
  by the sorted flavour on `norm d` (`apply_sim`): same error, and the results agree up to `norm`.
-/
import JV.Proofs.PatchUndoD
import JV.Proofs.JsonPath
namespace JV
namespace Model
namespace Pointer
open Assoc JsonPath

/-! ### association lists with unique keys -/

theorem find_none_iff {k : Bytes} : ∀ {ms : List (Bytes × JVal)}, find k ms = none ↔ k ∉ keys ms
  | [] => by simp [find, keys]
  | (k', v) :: ms => by
    have ih := find_none_iff (k := k) (ms := ms)
    by_cases e : k' = k
    · simp [find, keys, e]
    · simp only [find, e, if_false, keys, List.map_cons, List.mem_cons, not_or]
      exact ⟨fun h => ⟨fun h' => e h'.symm, ih.1 h⟩, fun h => ih.2 h.2⟩

theorem nodup_cons_iff {k : Bytes} {v : JVal} {ms : List (Bytes × JVal)} :
    (keys ((k, v) :: ms)).Nodup ↔ find k ms = none ∧ (keys ms).Nodup := by
  rw [find_none_iff]
  simp [keys, List.nodup_cons]

def sortMembers : List (Bytes × JVal) → List (Bytes × JVal)
  | [] => []
  | (k, v) :: ms => insertSorted k v (sortMembers ms)

theorem find_sortMembers (k : Bytes) : ∀ ms : List (Bytes × JVal), (keys ms).Nodup → find k (sortMembers ms) = find k ms
  | [], _ => rfl
  | (k', v) :: ms, hn => by
    have hn' := nodup_cons_iff.1 hn
    simp only [sortMembers, find]
    by_cases e : k' = k
    · subst e; simp [find_insertSorted_self]
    · rw [find_insertSorted_ne (fun h => e h.symm), find_sortMembers k ms hn'.2]; simp [e]

theorem sorted_sortMembers : ∀ ms : List (Bytes × JVal), (keys ms).Nodup → Sorted (sortMembers ms)
  | [], _ => trivial
  | (k', v) :: ms, hn => by
    have hn' := nodup_cons_iff.1 hn
    exact sorted_insertSorted (sorted_sortMembers ms hn'.2) (by rw [find_sortMembers k' ms hn'.2]; exact hn'.1)

theorem find_erase_self_nodup {k : Bytes} : ∀ {ms : List (Bytes × JVal)}, (keys ms).Nodup → find k (erase k ms) = none
  | [], _ => rfl
  | (k', v) :: ms, hn => by
    have hn' := nodup_cons_iff.1 hn
    simp only [erase]
    by_cases e : k' = k
    · simp only [e, if_true]; rw [← e]; exact hn'.1
    · simp only [e, if_false, find]; exact find_erase_self_nodup hn'.2

theorem find_erase_none {k k' : Bytes} {ms : List (Bytes × JVal)} (h : find k' ms = none) : find k' (erase k ms) = none := by
  by_cases e : k' = k
  · subst e; rw [erase_of_find_none h]; exact h
  · rw [find_erase_ne e]; exact h

theorem nodup_erase {k : Bytes} : ∀ {ms : List (Bytes × JVal)}, (keys ms).Nodup → (keys (erase k ms)).Nodup
  | [], _ => by simp [erase, keys]
  | (k', v) :: ms, hn => by
    have hn' := nodup_cons_iff.1 hn
    simp only [erase]
    by_cases e : k' = k
    · simp only [e, if_true]; exact hn'.2
    · simp only [e, if_false]
      exact nodup_cons_iff.2 ⟨find_erase_none hn'.1, nodup_erase hn'.2⟩

theorem find_append_one {k k' : Bytes} {v : JVal} : ∀ {ms : List (Bytes × JVal)},
    find k' (ms ++ [(k, v)]) = match find k' ms with
      | some x => some x
      | none => if k = k' then some v else none
  | [] => by simp [find]
  | (k'', v') :: ms => by
    by_cases e : k'' = k'
    · simp [find, e]
    · simp only [List.cons_append, find, e, if_false]; exact find_append_one

theorem nodup_append_one {k : Bytes} {v : JVal} : ∀ {ms : List (Bytes × JVal)}, (keys ms).Nodup → find k ms = none →
    (keys (ms ++ [(k, v)])).Nodup
  | [], _, _ => by simp [keys]
  | (k', v') :: ms, hn, hf => by
    have hn' := nodup_cons_iff.1 hn
    simp only [find] at hf
    by_cases e : k' = k
    · simp [e] at hf
    · simp only [e, if_false] at hf
      simp only [List.cons_append]
      refine nodup_cons_iff.2 ⟨?_, nodup_append_one hn'.2 hf⟩
      rw [find_append_one, hn'.1]
      simp
      exact fun h => e h.symm

/-! ### `norm` -/

mutual
  def norm : JVal → JVal
    | .arr xs => .arr (normList xs)
    | .obj ms => .obj (sortMembers (normMembers ms))
    | .null => .null
    | .bool b => .bool b
    | .int i => .int i
    | .str s => .str s
  def normList : List JVal → List JVal
    | [] => []
    | x :: xs => norm x :: normList xs
  def normMembers : List (Bytes × JVal) → List (Bytes × JVal)
    | [] => []
    | (k, x) :: ms => (k, norm x) :: normMembers ms
end

theorem normList_eq_map : ∀ xs : List JVal, normList xs = xs.map norm
  | [] => rfl
  | x :: xs => by simp [normList, normList_eq_map xs]

theorem keys_normMembers : ∀ ms : List (Bytes × JVal), keys (normMembers ms) = keys ms
  | [] => rfl
  | (k, x) :: ms => by
    have := keys_normMembers ms
    simp only [keys] at this ⊢
    simp [normMembers, this]

theorem find_normMembers (k : Bytes) : ∀ ms : List (Bytes × JVal), find k (normMembers ms) = (find k ms).map norm
  | [] => rfl
  | (k', x) :: ms => by
    by_cases e : k' = k
    · simp [normMembers, find, e]
    · simp [normMembers, find, e, find_normMembers k ms]

/-- the sorted, normalised member list -/
def N (ms : List (Bytes × JVal)) : List (Bytes × JVal) := sortMembers (normMembers ms)

theorem norm_obj (ms : List (Bytes × JVal)) : norm (.obj ms) = .obj (N ms) := by simp [norm, N]
theorem norm_arr (xs : List JVal) : norm (.arr xs) = .arr (xs.map norm) := by simp [norm, normList_eq_map]

theorem find_N (k : Bytes) {ms : List (Bytes × JVal)} (hn : (keys ms).Nodup) : find k (N ms) = (find k ms).map norm := by
  unfold N
  rw [find_sortMembers k _ (by rw [keys_normMembers]; exact hn), find_normMembers]

theorem sorted_N {ms : List (Bytes × JVal)} (hn : (keys ms).Nodup) : Sorted (N ms) :=
  sorted_sortMembers _ (by rw [keys_normMembers]; exact hn)

theorem N_ext {ms b : List (Bytes × JVal)} (hn : (keys ms).Nodup) (hb : Sorted b)
    (h : ∀ k, find k b = (find k ms).map norm) : N ms = b :=
  sorted_ext (sorted_N hn) hb (fun k => by rw [find_N k hn, h k])

theorem nodup_replaceVal {k : Bytes} {x : JVal} {ms : List (Bytes × JVal)} (hn : (keys ms).Nodup) :
    (keys (replaceVal k x ms)).Nodup := by rw [keys_replaceVal]; exact hn

theorem N_replaceVal {k : Bytes} {x y : JVal} {ms : List (Bytes × JVal)} (hn : (keys ms).Nodup) (hf : find k ms = some y) :
    N (replaceVal k x ms) = replaceVal k (norm x) (N ms) := by
  apply N_ext (nodup_replaceVal hn) (sorted_replaceVal (sorted_N hn))
  intro k'
  have hfN : find k (N ms) = some (norm y) := by rw [find_N k hn, hf]; rfl
  by_cases e : k' = k
  · subst e
    rw [find_replaceVal_self hfN, find_replaceVal_self hf]; rfl
  · rw [find_replaceVal_ne e, find_replaceVal_ne e, find_N k' hn]

theorem N_erase {k : Bytes} {ms : List (Bytes × JVal)} (hn : (keys ms).Nodup) :
    N (erase k ms) = erase k (N ms) := by
  apply N_ext (nodup_erase hn) (sorted_erase (sorted_N hn))
  intro k'
  by_cases e : k' = k
  · subst e
    rw [find_erase_self (sorted_N hn), find_erase_self_nodup hn]; rfl
  · rw [find_erase_ne e, find_erase_ne e, find_N k' hn]

theorem N_append {k : Bytes} {v : JVal} {ms : List (Bytes × JVal)} (hn : (keys ms).Nodup) (hf : find k ms = none) :
    N (ms ++ [(k, v)]) = insertSorted k (norm v) (N ms) := by
  have hfN : find k (N ms) = none := by rw [find_N k hn, hf]; rfl
  apply N_ext (nodup_append_one hn hf) (sorted_insertSorted (sorted_N hn) hfN)
  intro k'
  rw [find_append_one]
  by_cases e : k' = k
  · subst e
    rw [find_insertSorted_self, hf]; simp
  · rw [find_insertSorted_ne e, find_N k' hn]
    cases find k' ms with
    | some x => rfl
    | none =>
      simp
      exact fun h => e h.symm

theorem N_tryEmplace {k : Bytes} {v : JVal} {ms : List (Bytes × JVal)} (hn : (keys ms).Nodup) :
    N (tryEmplace true k v ms) = tryEmplace false k (norm v) (N ms) := by
  unfold tryEmplace
  rw [find_N k hn]
  cases hf : find k ms with
  | some x => rfl
  | none => simpa using N_append hn hf

theorem N_insertOrAssign {k : Bytes} {v : JVal} {ms : List (Bytes × JVal)} (hn : (keys ms).Nodup) :
    N (insertOrAssign true k v ms) = insertOrAssign false k (norm v) (N ms) := by
  unfold insertOrAssign
  rw [find_N k hn]
  cases hf : find k ms with
  | some x => simpa using N_replaceVal hn hf
  | none => simpa using N_append hn hf

theorem uk_of_find {k : Bytes} {x : JVal} {ms : List (Bytes × JVal)} (hu : UKMembers ms) (hf : find k ms = some x) : UK x :=
  uk_of_mem hu (mem_of_find hf)

theorem map_eraseIdx (f : JVal → JVal) : ∀ (xs : List JVal) (i : Nat), (xs.eraseIdx i).map f = (xs.map f).eraseIdx i
  | [], _ => by simp
  | x :: xs, 0 => by simp
  | x :: xs, i + 1 => by simp [map_eraseIdx f xs i]

/-! ### simulation of the ordered flavour by the sorted flavour on normalised documents -/

def normF : Final → Final
  | .add v => .add (norm v)
  | .addIfAbsent v => .addIfAbsent (norm v)
  | .replace v => .replace (norm v)
  | .remove => .remove

theorem finalStep_sim (f : Final) (c : JVal) (last : Bytes) (hu : UK c) :
    (finalStep true false f c last).1 = (finalStep false false (normF f) (norm c) last).1 ∧
    norm (finalStep true false f c last).2 = (finalStep false false (normF f) (norm c) last).2 := by
  cases c with
  | arr xs =>
    rw [norm_arr]
    cases f <;> simp only [finalStep, normF, List.length_map] <;> (repeat' split) <;>
      simp [norm_arr, insertAt, List.map_take, List.map_drop, List.map_set, map_eraseIdx]
  | obj ms =>
    have hn : (keys ms).Nodup := by
      have : (keys ms).Nodup ∧ UKMembers ms := by simpa [UK] using hu
      exact this.1
    rw [norm_obj]
    cases f <;> simp only [finalStep, normF, find_N last hn] <;> cases hf : find last ms <;>
      simp [norm_obj, N_tryEmplace hn, N_insertOrAssign hn, N_erase hn]
  | null => simp [finalStep, norm]
  | bool _ => simp [finalStep, norm]
  | int _ => simp [finalStep, norm]
  | str _ => simp [finalStep, norm]

theorem modifyAt_sim (f : Final) : ∀ (rest : List Bytes) (cur : JVal) (tok : Bytes), UK cur →
    (modifyAt true false f cur tok rest).1 = (modifyAt false false (normF f) (norm cur) tok rest).1 ∧
    norm (modifyAt true false f cur tok rest).2 = (modifyAt false false (normF f) (norm cur) tok rest).2
  | [], cur, tok, hu => by
    simp only [modifyAt]; exact finalStep_sim f cur tok hu
  | t2 :: rest, cur, tok, hu => by
    cases cur with
    | arr xs =>
      have hul : UKList xs := by simpa [UK] using hu
      rw [norm_arr]
      simp only [modifyAt]
      by_cases hd : isDash tok = true
      · simp [hd, norm_arr]
      · have hd' : isDash tok = false := by simpa using hd
        simp only [hd', Bool.false_eq_true, if_false]
        cases hi : decToIndex tok with
        | none => simp [norm_arr]
        | some i =>
          simp only [List.getElem?_map]
          cases hx : xs[i]? with
          | none => simp [norm_arr]
          | some x =>
            have ih := modifyAt_sim f rest x t2 (uk_of_getElem hul hx)
            simp only [Option.map_some]
            exact ⟨ih.1, by rw [norm_arr, List.map_set, ih.2]⟩
    | obj ms =>
      have huo : (keys ms).Nodup ∧ UKMembers ms := by simpa [UK] using hu
      rw [norm_obj]
      simp only [modifyAt, find_N tok huo.1]
      cases hf : find tok ms with
      | none => simp [norm_obj]
      | some x =>
        have ih := modifyAt_sim f rest x t2 (uk_of_find huo.2 hf)
        simp only [Option.map_some]
        exact ⟨ih.1, by rw [norm_obj, N_replaceVal huo.1 hf, ih.2]⟩
    | null => simp [modifyAt, norm]
    | bool _ => simp [modifyAt, norm]
    | int _ => simp [modifyAt, norm]
    | str _ => simp [modifyAt, norm]

theorem apply_sim (f : Final) (t : JVal) (p : List Bytes) (hu : UK t) :
    (apply true false f t p).1 = (apply false false (normF f) (norm t) p).1 ∧
    norm (apply true false f t p).2 = (apply false false (normF f) (norm t) p).2 := by
  cases p with
  | nil => cases f <;> simp [apply, normF]
  | cons tok rest => exact modifyAt_sim f rest t tok hu

theorem get_sim : ∀ (p : List Bytes) (t : JVal), UK t → get (norm t) p = (get t p).map norm
  | [], t, _ => by simp [get, Except.map]
  | tok :: rest, t, hu => by
    cases t with
    | arr xs =>
      have hul : UKList xs := by simpa [UK] using hu
      rw [norm_arr]
      simp only [get]
      by_cases hd : isDash tok = true
      · simp [hd, Except.map]
      · have hd' : isDash tok = false := by simpa using hd
        simp only [hd', Bool.false_eq_true, if_false]
        cases hi : decToIndex tok with
        | none => simp [Except.map]
        | some i =>
          simp only [List.getElem?_map]
          cases hx : xs[i]? with
          | none => simp [Except.map]
          | some x => simpa using get_sim rest x (uk_of_getElem hul hx)
    | obj ms =>
      have huo : (keys ms).Nodup ∧ UKMembers ms := by simpa [UK] using hu
      rw [norm_obj]
      simp only [get, find_N tok huo.1]
      cases hf : find tok ms with
      | none => simp [Except.map]
      | some x => simpa using get_sim rest x (uk_of_find huo.2 hf)
    | null => simp [get, norm, Except.map]
    | bool _ => simp [get, norm, Except.map]
    | int _ => simp [get, norm, Except.map]
    | str _ => simp [get, norm, Except.map]

end Pointer
end Model
end JV
