/-
  JV.Proofs.PatchSpecC — every successful operation of `apply_patch` (sorted flavour) is the RFC 6902
  operation: `applyOp_refines`, and the loop: `applyLoop_refines`.
-/
import JV.Proofs.PatchSpecB
import JV.Proofs.PatchUndoD
import JV.Spec.Rfc6902
namespace JV
namespace Model
namespace Patch
open Assoc Pointer Spec.Rfc6901

/-! ### `definite_path` and the insert-else-replace sequence against RFC 6902 `add` -/

theorem atParent_digits_dash (v : JVal) (xs : List JVal) (r : JVal)
    (h : atParent (.add v) (.arr xs) (natDigits xs.length) = some r) : atParent (.add v) (.arr xs) [45] = some r := by
  have hnd := natDigits_ne_dash xs.length
  simp only [atParent, hnd, if_false, arrayIndex_natDigits, Nat.le_refl, if_true] at h
  simp only [atParent, if_true]
  rw [← h]; simp

/-- resolving a trailing `-` to the array's size does not change what RFC 6902 `add` computes -/
theorem definitePath_refines (v d : JVal) (loc : List Bytes) (r : JVal)
    (h : update (.add v) d (definitePath d loc) = some r) : update (.add v) d loc = some r := by
  unfold definitePath at h
  cases hl : loc.getLast? with
  | none => rw [hl] at h; exact h
  | some last =>
    rw [hl] at h
    simp only [] at h
    by_cases hd : last = [45]
    · subst hd
      simp only [ne_eq, not_true_eq_false, if_false] at h
      cases hg : get d loc.dropLast with
      | error e => rw [hg] at h; exact h
      | ok c =>
        rw [hg] at h
        cases c with
        | arr xs =>
          simp only [] at h
          have hloc : loc.dropLast ++ [[45]] = loc := dropLast_append_of_getLast? hl
          rw [← hloc]
          refine update_last (.add v) (.add v) (natDigits xs.length) [45] loc.dropLast d r ?_ h
          intro c hc r hr
          rw [get_sound _ _ _ hg] at hc
          cases hc
          exact atParent_digits_dash v xs r hr
        | null => exact h
        | bool _ => exact h
        | int _ => exact h
        | str _ => exact h
        | obj _ => exact h
    · simp only [ne_eq, hd, not_false_eq_true, if_true] at h
      exact h

/-- the insert-else-replace sequence, when it succeeds, is RFC 6902 `add` at that location -/
theorem addLike_refines (t : JVal) (np : List Bytes) (v : JVal) (hw : t.WF)
    (h : (addLike false t np v).1 = true) :
    update (.add v) t np = some (addLike false t np v).2.1 := by
  unfold addLike at h ⊢
  by_cases hn : np = []
  · subst hn
    simp [Pointer.get, Pointer.apply, update]
  · simp only [hn, if_false] at h ⊢
    cases hi : (Pointer.apply false false (Final.addIfAbsent v) t np).1 with
    | none =>
      simp only [hi]
      exact update_addIfAbsent_add v t np _ (apply_refines (.addIfAbsent v) t np hw hi)
    | some e =>
      have hdoc := apply_err_doc false (Final.addIfAbsent v) t np (by simp [hi])
      simp only [hi] at h ⊢
      rw [hdoc] at h ⊢
      cases hg : Pointer.get t np with
      | error e => simp [hg] at h
      | ok orig =>
        simp only [hg] at h ⊢
        cases hr : (Pointer.apply false false (Final.replace v) t np).1 with
        | some e => simp [hr] at h
        | none =>
          simp only [hr]
          exact apply_fallback v t np hw hn (by simp [hi]) hr

theorem addLike_definite_refines (t : JVal) (loc : List Bytes) (v : JVal) (hw : t.WF)
    (h : (addLike false t (definitePath t loc) v).1 = true) :
    update (.add v) t loc = some (addLike false t (definitePath t loc) v).2.1 :=
  definitePath_refines v t loc _ (addLike_refines t (definitePath t loc) v hw h)

/-! ### decoding -/

theorem strOf_eq : strOf = Spec.Rfc6902.str? := by
  funext v; cases v <;> rfl

theorem key_op : Spec.Rfc6902.key "op" = sOp := rfl
theorem key_path : Spec.Rfc6902.key "path" = sPath := rfl
theorem key_from : Spec.Rfc6902.key "from" = sFrom := rfl
theorem key_value : Spec.Rfc6902.key "value" = sValue := rfl
theorem key_add : Spec.Rfc6902.key "add" = sAdd := rfl
theorem key_remove : Spec.Rfc6902.key "remove" = sRemove := rfl
theorem key_replace : Spec.Rfc6902.key "replace" = sReplace := rfl
theorem key_move : Spec.Rfc6902.key "move" = sMove := rfl
theorem key_copy : Spec.Rfc6902.key "copy" = sCopy := rfl
theorem key_test : Spec.Rfc6902.key "test" = sTest := rfl

theorem decode_obj (om : List (Bytes × JVal)) (op path : Bytes) (loc : List Bytes)
    (h1 : (find sOp om).bind strOf = some op) (h2 : (find sPath om).bind strOf = some path)
    (h3 : tokens path = some loc) :
    Spec.Rfc6902.decode (.obj om) =
      if op = sAdd then (find sValue om).map (Spec.Rfc6902.Op.add loc)
      else if op = sRemove then some (Spec.Rfc6902.Op.remove loc)
      else if op = sReplace then (find sValue om).map (Spec.Rfc6902.Op.replace loc)
      else if op = sMove then (((find sFrom om).bind strOf).bind tokens).map (Spec.Rfc6902.Op.move · loc)
      else if op = sCopy then (((find sFrom om).bind strOf).bind tokens).map (Spec.Rfc6902.Op.copy · loc)
      else if op = sTest then (find sValue om).map (Spec.Rfc6902.Op.test loc)
      else none := by
  rw [strOf_eq] at h1 h2 ⊢
  simp only [Spec.Rfc6902.decode, key_op, key_path, key_from, key_value, key_add, key_remove, key_replace,
    key_move, key_copy, key_test, h1, h2, h3, Option.bind_eq_bind, Option.bind_some]
  rfl

/-! ### the six operations -/

/-- what the RFC 6902 reference computes for one operation object -/
def specStep (t operation : JVal) : Option JVal :=
  (Spec.Rfc6902.decode operation).bind (Spec.Rfc6902.applyOp t)

theorem opTest_refines (t : JVal) (loc : List Bytes) (om : List (Bytes × JVal))
    (h : (opTest t loc om).1 = none) :
    ∃ v, find sValue om = some v ∧ Spec.Rfc6902.applyOp t (.test loc v) = some (opTest t loc om).2.1 := by
  unfold opTest at h ⊢
  cases hg : Pointer.get t loc with
  | error e => simp [hg] at h
  | ok val =>
    simp only [hg] at h ⊢
    cases hv : find sValue om with
    | none => simp [hv] at h
    | some v =>
      simp only [hv] at h ⊢
      by_cases hne : (val != v) = true
      · simp [hne] at h
      · have heq : (val == v) = true := by simpa [bne] using hne
        refine ⟨v, rfl, ?_⟩
        simp [hne, Spec.Rfc6902.applyOp, get_sound _ _ _ hg, heq]

theorem opAdd_refines (t : JVal) (loc : List Bytes) (om : List (Bytes × JVal)) (hw : t.WF)
    (h : (opAdd false t loc om).1 = none) :
    ∃ v, find sValue om = some v ∧ Spec.Rfc6902.applyOp t (.add loc v) = some (opAdd false t loc om).2.1 := by
  unfold opAdd at h ⊢
  cases hv : find sValue om with
  | none => simp [hv] at h
  | some v =>
    simp only [hv] at h ⊢
    cases ha : (addLike false t (definitePath t loc) v).1 with
    | false => simp [ha] at h
    | true =>
      refine ⟨v, rfl, ?_⟩
      simp only [ha, if_true, Spec.Rfc6902.applyOp]
      exact addLike_definite_refines t loc v hw ha

theorem opRemove_refines (t : JVal) (loc : List Bytes) (hw : t.WF)
    (h : (opRemove false t loc).1 = none) :
    Spec.Rfc6902.applyOp t (.remove loc) = some (opRemove false t loc).2.1 := by
  unfold opRemove at h ⊢
  cases hg : Pointer.get t loc with
  | error e => simp [hg] at h
  | ok val =>
    simp only [hg] at h ⊢
    cases hr : (Pointer.apply false false .remove t loc).1 with
    | some e => simp [hr] at h
    | none =>
      simp only [hr, Spec.Rfc6902.applyOp]
      exact apply_refines .remove t loc hw hr

theorem opReplace_refines (t : JVal) (loc : List Bytes) (om : List (Bytes × JVal)) (hw : t.WF)
    (h : (opReplace false t loc om).1 = none) :
    ∃ v, find sValue om = some v ∧ Spec.Rfc6902.applyOp t (.replace loc v) = some (opReplace false t loc om).2.1 := by
  unfold opReplace at h ⊢
  cases hg : Pointer.get t loc with
  | error e => simp [hg] at h
  | ok val =>
    simp only [hg] at h ⊢
    cases hv : find sValue om with
    | none => simp [hv] at h
    | some v =>
      simp only [hv] at h ⊢
      cases hr : (Pointer.apply false false (.replace v) t loc).1 with
      | some e => simp [hr] at h
      | none =>
        refine ⟨v, rfl, ?_⟩
        simp only [hr, Spec.Rfc6902.applyOp]
        exact apply_refines (.replace v) t loc hw hr

theorem opMove_refines (t : JVal) (loc : List Bytes) (om : List (Bytes × JVal)) (hw : t.WF)
    (h : (opMove false t loc om).1 = none) :
    ∃ fp, ((find sFrom om).bind strOf).bind tokens = some fp ∧
      Spec.Rfc6902.applyOp t (.move fp loc) = some (opMove false t loc om).2.1 := by
  unfold opMove at h ⊢
  cases hf : (find sFrom om).bind strOf with
  | none => simp [hf] at h
  | some from_ =>
    simp only [hf] at h ⊢
    cases hp : parse from_ with
    | error e => simp [hp] at h
    | ok fp =>
      simp only [hp] at h ⊢
      cases hg : Pointer.get t fp with
      | error e => simp [hg] at h
      | ok val =>
        simp only [hg] at h ⊢
        cases hr : (Pointer.apply false false .remove t fp).1 with
        | some e => simp [hr] at h
        | none =>
          simp only [hr] at h ⊢
          have hw2 : (Pointer.apply false false .remove t fp).2.WF := apply_wf .remove trivial t fp hw
          cases ha : (addLike false (Pointer.apply false false .remove t fp).2
              (definitePath (Pointer.apply false false .remove t fp).2 loc) val).1 with
          | false => simp [ha] at h
          | true =>
            refine ⟨fp, by simp [parse_sound hp], ?_⟩
            have hrm : update .remove t fp = some (Pointer.apply false false .remove t fp).2 :=
              apply_refines .remove t fp hw hr
            simp only [if_true, Spec.Rfc6902.applyOp, get_sound _ _ _ hg, hrm, Option.bind_eq_bind, Option.bind_some]
            exact addLike_definite_refines _ loc val hw2 ha

theorem opCopy_refines (t : JVal) (loc : List Bytes) (om : List (Bytes × JVal)) (hw : t.WF)
    (h : (opCopy false t loc om).1 = none) :
    ∃ fp, ((find sFrom om).bind strOf).bind tokens = some fp ∧
      Spec.Rfc6902.applyOp t (.copy fp loc) = some (opCopy false t loc om).2.1 := by
  unfold opCopy at h ⊢
  cases hf : (find sFrom om).bind strOf with
  | none => simp [hf] at h
  | some from_ =>
    simp only [hf] at h ⊢
    unfold getStr at h ⊢
    cases hp : parse from_ with
    | error e => simp [hp] at h
    | ok fp =>
      simp only [hp] at h ⊢
      cases hg : Pointer.get t fp with
      | error e => simp [hg] at h
      | ok val =>
        simp only [hg] at h ⊢
        cases ha : (addLike false t (definitePath t loc) val).1 with
        | false => simp [ha] at h
        | true =>
          refine ⟨fp, by simp [parse_sound hp], ?_⟩
          simp only [ha, if_true, Spec.Rfc6902.applyOp, get_sound _ _ _ hg, Option.bind_eq_bind, Option.bind_some]
          exact addLike_definite_refines _ loc val hw ha

/-- PER-OPERATION REFINEMENT: an operation the model performs successfully is a well-formed RFC 6902
    operation object, and the document afterwards is the one RFC 6902 prescribes -/
theorem applyOp_refines (t operation : JVal) (hw : t.WF) (h : (applyOp false t operation).1 = none) :
    specStep t operation = some (applyOp false t operation).2.1 := by
  unfold applyOp at h ⊢
  unfold specStep
  cases operation with
  | obj om =>
    simp only [] at h ⊢
    cases h1 : (find sOp om).bind strOf with
    | none => simp [h1] at h
    | some op =>
      simp only [h1] at h ⊢
      cases h2 : (find sPath om).bind strOf with
      | none => simp [h2] at h
      | some path =>
        simp only [h2] at h ⊢
        cases h3 : parse path with
        | error e => simp [h3] at h
        | ok loc =>
          simp only [h3] at h ⊢
          rw [decode_obj om op path loc h1 h2 (parse_sound h3)]
          by_cases c1 : op = sTest
          · subst c1
            simp only [if_true] at h ⊢
            obtain ⟨v, hv, hr⟩ := opTest_refines t loc om h
            simp [hv, hr, show sTest ≠ sAdd by decide, show sTest ≠ sRemove by decide, show sTest ≠ sReplace by decide,
              show sTest ≠ sMove by decide, show sTest ≠ sCopy by decide]
          · simp only [c1, if_false] at h ⊢
            by_cases c2 : op = sAdd
            · subst c2
              simp only [if_true] at h ⊢
              obtain ⟨v, hv, hr⟩ := opAdd_refines t loc om hw h
              simp [hv, hr]
            · simp only [c2, if_false] at h ⊢
              by_cases c3 : op = sRemove
              · subst c3
                simp only [if_true] at h ⊢
                simp [opRemove_refines t loc hw h]
              · simp only [c3, if_false] at h ⊢
                by_cases c4 : op = sReplace
                · subst c4
                  simp only [if_true] at h ⊢
                  obtain ⟨v, hv, hr⟩ := opReplace_refines t loc om hw h
                  simp [hv, hr]
                · simp only [c4, if_false] at h ⊢
                  by_cases c5 : op = sMove
                  · subst c5
                    simp only [if_true] at h ⊢
                    obtain ⟨fp, hv, hr⟩ := opMove_refines t loc om hw h
                    simp [hv, hr]
                  · simp only [c5, if_false] at h ⊢
                    by_cases c6 : op = sCopy
                    · subst c6
                      simp only [if_true] at h ⊢
                      obtain ⟨fp, hv, hr⟩ := opCopy_refines t loc om hw h
                      simp [hv, hr]
                    · simp [c6] at h
  | null => simp at h
  | bool _ => simp at h
  | int _ => simp at h
  | str _ => simp at h
  | arr _ => simp at h

theorem applyOps_cons (t o : JVal) (os : List JVal) :
    Spec.Rfc6902.applyOps t (o :: os) = (specStep t o).bind (fun d1 => Spec.Rfc6902.applyOps d1 os) := by
  simp only [Spec.Rfc6902.applyOps, specStep, Option.bind_eq_bind]
  cases Spec.Rfc6902.decode o <;> simp

/-- the loop: a run of `apply_patch` that commits has computed `Rfc6902.applyOps` -/
theorem applyLoop_refines : ∀ (ops : List JVal) (t : JVal) (stack : List Undo), t.WF → (∀ op ∈ ops, OpValWF op) →
    (applyLoop false t ops stack).1 = none →
    Spec.Rfc6902.applyOps t ops = some (applyLoop false t ops stack).2
  | [], t, stack, _, _, _ => by simp [applyLoop, Spec.Rfc6902.applyOps]
  | o :: os, t, stack, hw, hv, h => by
    simp only [applyLoop] at h ⊢
    cases he : (applyOp false t o).1 with
    | some e => simp [he] at h
    | none =>
      simp only [he] at h ⊢
      have hstep := applyOp_refines t o hw he
      have hw2 := applyOp_wf t o hw (hv o (by simp))
      rw [applyOps_cons, hstep]
      exact applyLoop_refines os _ _ hw2 (fun op hm => hv op (by simp [hm])) h

end Patch
end Model
end JV
