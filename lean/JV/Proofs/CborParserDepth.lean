/-
  JV.Proofs.CborParserDepth — the nesting limit of the cbor_parser model (JV.Model.CborParser):
  * `depth_all`: whatever the input, a value the model delivers from nesting level `d ≤ max_nesting_depth` is nested at most
    `max_nesting_depth - d` deep (so `decode`'s value is nested at most `max_nesting_depth` deep);
  * `nestArr_item` / `nestMap_item` / `nestIndef_item`: k one-element definite arrays / one-member maps / indefinite arrays around a
    one-byte unsigned integer are accepted iff the innermost container is at level ≤ max_nesting_depth, and refused with
    `max_nesting_depth_exceeded` otherwise — the test is `++nesting_depth_ > max_nesting_depth_`: accept AT the limit, refuse one above.
-/
import JV.Proofs.CborParserFuel
namespace JV.Model.CborParser
open JV
set_option linter.unusedSimpArgs false
set_option linter.unusedVariables false

mutual
  /-- how many containers are open around the innermost item (scalars 0; keys count like values) -/
  def Item.depth : Item → Nat
    | .null => 0 | .undef => 0 | .bool _ => 0 | .uint _ => 0 | .nint _ => 0 | .half _ => 0 | .dbl _ => 0 | .str _ => 0 | .bytes _ => 0
    | .arr xs => depthList xs + 1
    | .map ms => depthMembers ms + 1
  def depthList : List Item → Nat
    | [] => 0
    | x :: xs => max x.depth (depthList xs)
  def depthMembers : List (Item × Item) → Nat
    | [] => 0
    | (k, v) :: ms => max (max k.depth v.depth) (depthMembers ms)
end

section depth
variable (maxD fuel : Nat)

theorem item_depth_step
    (hL : ∀ d n s v r, d ≤ maxD → items maxD fuel d n s = .ok v r → d + depthList v ≤ maxD)
    (hLI : ∀ d s v r, d ≤ maxD → itemsIndef maxD fuel d s = .ok v r → d + depthList v ≤ maxD)
    (hM : ∀ d n s v r, d ≤ maxD → members maxD fuel d n s = .ok v r → d + depthMembers v ≤ maxD)
    (hMI : ∀ d s v r, d ≤ maxD → membersIndef maxD fuel d s = .ok v r → d + depthMembers v ≤ maxD) :
    ∀ d s v r, d ≤ maxD → item maxD (fuel + 1) d s = .ok v r → d + v.depth ≤ maxD := by
  intro d s v r hd h
  cases s with
  | nil => simp [item] at h
  | cons ib s =>
    rcases (by omega : ib / 32 = 0 ∨ ib / 32 = 1 ∨ ib / 32 = 2 ∨ ib / 32 = 3 ∨ ib / 32 = 4 ∨ ib / 32 = 5 ∨ ib / 32 = 6 ∨ ib / 32 = 7 ∨ 8 ≤ ib / 32)
      with hm | hm | hm | hm | hm | hm | hm | hm | hm
    all_goals first
      | (have e : ¬ ib / 32 = 0 ∧ ¬ ib / 32 = 1 ∧ ¬ ib / 32 = 2 ∧ ¬ ib / 32 = 3 ∧ ¬ ib / 32 = 4 ∧ ¬ ib / 32 = 5 ∧ ¬ ib / 32 = 6 ∧ ¬ ib / 32 = 7 := by omega
         simp [item, e] at h; done)
      | simp only [item, readSize, hm, if_true, if_false, Nat.reduceEqDiff] at h
    all_goals (repeat' split at h) <;> first
      | (injection h with h1 h2; subst h1
         try (have h' := ‹items _ _ _ _ _ = Res.ok _ _›; have := hL _ _ _ _ _ (by omega) h')
         try (have h' := ‹itemsIndef _ _ _ _ = Res.ok _ _›; have := hLI _ _ _ _ (by omega) h')
         try (have h' := ‹members _ _ _ _ _ = Res.ok _ _›; have := hM _ _ _ _ _ (by omega) h')
         try (have h' := ‹membersIndef _ _ _ _ = Res.ok _ _›; have := hMI _ _ _ _ (by omega) h')
         simp only [Item.depth]; omega)
      | cases h

variable (hI : ∀ d s v r, d ≤ maxD → item maxD fuel d s = .ok v r → d + v.depth ≤ maxD)

include hI in
theorem items_depth_step (hL : ∀ d n s v r, d ≤ maxD → items maxD fuel d n s = .ok v r → d + depthList v ≤ maxD) :
    ∀ d n s v r, d ≤ maxD → items maxD (fuel + 1) d n s = .ok v r → d + depthList v ≤ maxD := by
  intro d n s v r hd h
  cases n with
  | zero => simp only [items] at h; injection h with h1 h2; subst h1; simpa [depthList] using hd
  | succ n =>
    simp only [items] at h
    cases h1 : item maxD fuel d s with
    | fail f => simp [h1] at h
    | ok x s1 =>
      cases h2 : items maxD fuel d n s1 with
      | fail f => simp [h1, h2] at h
      | ok xs rest =>
        simp only [h1, h2] at h
        injection h with h3 h4; subst h3
        have := hI _ _ _ _ hd h1
        have := hL _ _ _ _ _ hd h2
        simp only [depthList]; omega

include hI in
theorem itemsIndef_depth_step (hL : ∀ d s v r, d ≤ maxD → itemsIndef maxD fuel d s = .ok v r → d + depthList v ≤ maxD) :
    ∀ d s v r, d ≤ maxD → itemsIndef maxD (fuel + 1) d s = .ok v r → d + depthList v ≤ maxD := by
  intro d s v r hd h
  cases s with
  | nil => simp [itemsIndef] at h
  | cons ib s =>
    simp only [itemsIndef] at h
    by_cases hff : ib = 255
    · simp only [hff, if_true] at h; injection h with h1 h2; subst h1; simpa [depthList] using hd
    · simp only [hff, if_false] at h
      cases h1 : item maxD fuel d (ib :: s) with
      | fail f => simp [h1] at h
      | ok x s1 =>
        cases h2 : itemsIndef maxD fuel d s1 with
        | fail f => simp [h1, h2] at h
        | ok xs rest =>
          simp only [h1, h2] at h
          injection h with h3 h4; subst h3
          have := hI _ _ _ _ hd h1
          have := hL _ _ _ _ hd h2
          simp only [depthList]; omega

include hI in
theorem members_depth_step (hL : ∀ d n s v r, d ≤ maxD → members maxD fuel d n s = .ok v r → d + depthMembers v ≤ maxD) :
    ∀ d n s v r, d ≤ maxD → members maxD (fuel + 1) d n s = .ok v r → d + depthMembers v ≤ maxD := by
  intro d n s v r hd h
  cases n with
  | zero => simp only [members] at h; injection h with h1 h2; subst h1; simpa [depthMembers] using hd
  | succ n =>
    simp only [members] at h
    cases h1 : item maxD fuel d s with
    | fail f => simp [h1] at h
    | ok k s1 =>
      cases h2 : item maxD fuel d s1 with
      | fail f => simp [h1, h2] at h
      | ok x s2 =>
        cases h3 : members maxD fuel d n s2 with
        | fail f => simp [h1, h2, h3] at h
        | ok xs rest =>
          simp only [h1, h2, h3] at h
          injection h with h4 h5; subst h4
          have := hI _ _ _ _ hd h1
          have := hI _ _ _ _ hd h2
          have := hL _ _ _ _ _ hd h3
          simp only [depthMembers]; omega

include hI in
theorem membersIndef_depth_step (hL : ∀ d s v r, d ≤ maxD → membersIndef maxD fuel d s = .ok v r → d + depthMembers v ≤ maxD) :
    ∀ d s v r, d ≤ maxD → membersIndef maxD (fuel + 1) d s = .ok v r → d + depthMembers v ≤ maxD := by
  intro d s v r hd h
  cases s with
  | nil => simp [membersIndef] at h
  | cons ib s =>
    simp only [membersIndef] at h
    by_cases hff : ib = 255
    · simp only [hff, if_true] at h; injection h with h1 h2; subst h1; simpa [depthMembers] using hd
    · simp only [hff, if_false] at h
      cases h1 : item maxD fuel d (ib :: s) with
      | fail f => simp [h1] at h
      | ok k s1 =>
        cases h2 : item maxD fuel d s1 with
        | fail f => simp [h1, h2] at h
        | ok x s2 =>
          cases h3 : membersIndef maxD fuel d s2 with
          | fail f => simp [h1, h2, h3] at h
          | ok xs rest =>
            simp only [h1, h2, h3] at h
            injection h with h4 h5; subst h4
            have := hI _ _ _ _ hd h1
            have := hI _ _ _ _ hd h2
            have := hL _ _ _ _ hd h3
            simp only [depthMembers]; omega

end depth

/-- a value delivered from nesting level `d ≤ maxD` is nested at most `maxD - d` deep -/
theorem depth_all (maxD : Nat) : ∀ fuel : Nat,
    (∀ d s v r, d ≤ maxD → item maxD fuel d s = .ok v r → d + v.depth ≤ maxD) ∧
    (∀ d n s v r, d ≤ maxD → items maxD fuel d n s = .ok v r → d + depthList v ≤ maxD) ∧
    (∀ d s v r, d ≤ maxD → itemsIndef maxD fuel d s = .ok v r → d + depthList v ≤ maxD) ∧
    (∀ d n s v r, d ≤ maxD → members maxD fuel d n s = .ok v r → d + depthMembers v ≤ maxD) ∧
    (∀ d s v r, d ≤ maxD → membersIndef maxD fuel d s = .ok v r → d + depthMembers v ≤ maxD)
  | 0 => by
    refine ⟨?_, ?_, ?_, ?_, ?_⟩
    · intro d s v r hd h; simp [item] at h
    · intro d n s v r hd h; cases n with
      | zero => simp only [items] at h; injection h with h1 h2; subst h1; simpa [depthList] using hd
      | succ n => simp [items] at h
    · intro d s v r hd h; simp [itemsIndef] at h
    · intro d n s v r hd h; cases n with
      | zero => simp only [members] at h; injection h with h1 h2; subst h1; simpa [depthMembers] using hd
      | succ n => simp [members] at h
    · intro d s v r hd h; simp [membersIndef] at h
  | fuel + 1 => by
    obtain ⟨hI, hL, hLI, hM, hMI⟩ := depth_all maxD fuel
    exact ⟨item_depth_step maxD fuel hL hLI hM hMI, items_depth_step maxD fuel hI hL, itemsIndef_depth_step maxD fuel hI hLI,
      members_depth_step maxD fuel hI hM, membersIndef_depth_step maxD fuel hI hMI⟩

theorem decode_depth_le {maxD : Nat} {s : Bytes} {v : Item} {r : Bytes} (h : decode maxD s = .ok v r) : v.depth ≤ maxD := by
  have := (depth_all maxD _).1 0 s v r (Nat.zero_le _) h
  omega

/-! ### the limit is exact: three container shapes -/

/-- k definite one-element arrays (`0x81`) around `leaf` -/
def nestArr : Nat → Bytes → Bytes
  | 0, leaf => leaf
  | k + 1, leaf => 0x81 :: nestArr k leaf
/-- k definite one-member maps with the empty text string as key (`0xa1 0x60`) around `leaf` -/
def nestMap : Nat → Bytes → Bytes
  | 0, leaf => leaf
  | k + 1, leaf => 0xa1 :: 0x60 :: nestMap k leaf
/-- k indefinite arrays (`0x9f … 0xff`) around `leaf` -/
def nestIndef : Nat → Bytes → Bytes
  | 0, leaf => leaf
  | k + 1, leaf => 0x9f :: (nestIndef k leaf ++ [0xff])

def nestArrV : Nat → Item → Item
  | 0, v => v
  | k + 1, v => .arr [nestArrV k v]
def nestMapV : Nat → Item → Item
  | 0, v => v
  | k + 1, v => .map [(.str [], nestMapV k v)]

theorem nestArr_eq (k : Nat) (leaf : Bytes) : nestArr k leaf = List.replicate k 0x81 ++ leaf := by
  induction k with
  | zero => rfl
  | succ k ih => simp [nestArr, ih, List.replicate_succ]

theorem nestIndef_eq (k : Nat) (leaf : Bytes) : nestIndef k leaf = List.replicate k 0x9f ++ leaf ++ List.replicate k 0xff := by
  induction k with
  | zero => simp [nestIndef]
  | succ k ih =>
    have : List.replicate (k + 1) (0xff : Nat) = List.replicate k 0xff ++ [0xff] := by simp [List.replicate_succ']
    rw [this]; simp [nestIndef, ih, List.replicate_succ]

theorem nestArr_length (k : Nat) (leaf : Bytes) : (nestArr k leaf).length = k + leaf.length := by
  induction k with
  | zero => simp [nestArr]
  | succ k ih => simp [nestArr, ih]; omega
theorem nestMap_length (k : Nat) (leaf : Bytes) : (nestMap k leaf).length = 2 * k + leaf.length := by
  induction k with
  | zero => simp [nestMap]
  | succ k ih => simp [nestMap, ih]; omega
theorem nestIndef_length (k : Nat) (leaf : Bytes) : (nestIndef k leaf).length = 2 * k + leaf.length := by
  induction k with
  | zero => simp [nestIndef]
  | succ k ih => simp [nestIndef, ih]; omega

theorem nestArrV_depth (k : Nat) (v : Item) : (nestArrV k v).depth = k + v.depth := by
  induction k with
  | zero => simp [nestArrV]
  | succ k ih => simp [nestArrV, Item.depth, depthList, ih]; omega
theorem nestMapV_depth (k : Nat) (v : Item) : (nestMapV k v).depth = k + v.depth := by
  induction k with
  | zero => simp [nestMapV]
  | succ k ih => simp [nestMapV, Item.depth, depthMembers, ih]; omega

/-- a one-byte unsigned integer is read at any level with any positive fuel -/
theorem leaf_item (maxD n : Nat) (hn : n < 24) (tail : Bytes) (fuel d : Nat) :
    item maxD (fuel + 1) d (n :: tail) = .ok (.uint n) tail := by
  have h0 : n / 32 = 0 := by omega
  have h1 : n % 32 = n := by omega
  simp [item, readUint64, h0, h1, hn]

theorem nestArr_item (maxD n : Nat) (hn : n < 24) (tail : Bytes) : ∀ k fuel d, 2 * k + 1 ≤ fuel → d ≤ maxD →
    item maxD fuel d (nestArr k [n] ++ tail) =
      if d + k ≤ maxD then .ok (nestArrV k (.uint n)) tail else .fail (.err .maxNestingDepthExceeded) := by
  intro k
  induction k with
  | zero =>
    intro fuel d hf hd
    obtain ⟨f, rfl⟩ : ∃ f, fuel = f + 1 := ⟨fuel - 1, by omega⟩
    simp [nestArr, nestArrV, leaf_item maxD n hn, hd]
  | succ k ih =>
    intro fuel d hf hd
    obtain ⟨f, rfl⟩ : ∃ f, fuel = f + 2 := ⟨fuel - 2, by omega⟩
    simp only [nestArr, List.cons_append]
    by_cases hdep : d + 1 > maxD
    · have : ¬ d + (k + 1) ≤ maxD := by omega
      simp [item, hdep, this]
    · have ih2 := ih f (d + 1) (by omega) (by omega)
      by_cases h2 : d + 1 + k ≤ maxD
      · have h3 : d + (k + 1) ≤ maxD := by omega
        simp [item, readSize, readUint64, items, ih2, hdep, h2, h3, nestArrV]
      · have h3 : ¬ d + (k + 1) ≤ maxD := by omega
        simp [item, readSize, readUint64, items, ih2, hdep, h2, h3]

theorem badUtf8_nil : badUtf8 [] = false := by decide

theorem members_zero (maxD f d : Nat) (s : Bytes) : members maxD f d 0 s = .ok [] s := by
  cases f <;> simp [members]

theorem item_map1_ok (maxD f d : Nat) (s r : Bytes) (ms : List (Item × Item)) (h : ¬ d + 1 > maxD)
    (hm : members maxD f (d + 1) 1 s = .ok ms r) : item maxD (f + 1) d (0xa1 :: s) = .ok (.map ms) r := by
  simp [item, readSize, readUint64, h, hm]
theorem item_map1_fail (maxD f d : Nat) (s : Bytes) (e : Fail) (h : ¬ d + 1 > maxD)
    (hm : members maxD f (d + 1) 1 s = .fail e) : item maxD (f + 1) d (0xa1 :: s) = .fail e := by
  simp [item, readSize, readUint64, h, hm]

theorem members_one_ok (maxD f d : Nat) (s s1 s2 : Bytes) (k v : Item) (hk : item maxD f d s = .ok k s1)
    (hv : item maxD f d s1 = .ok v s2) : members maxD (f + 1) d 1 s = .ok [(k, v)] s2 := by
  simp only [members, hk, hv, members_zero]
theorem members_one_fail (maxD f d : Nat) (s s1 : Bytes) (k : Item) (e : Fail) (hk : item maxD f d s = .ok k s1)
    (hv : item maxD f d s1 = .fail e) : members maxD (f + 1) d 1 s = .fail e := by
  simp only [members, hk, hv]

theorem emptyKey_item (maxD g d : Nat) (s : Bytes) : item maxD (g + 1) d (0x60 :: s) = .ok (.str []) s := by
  simp [item, readString, readSize, readUint64, badUtf8_nil]

theorem nestMap_item (maxD n : Nat) (hn : n < 24) (tail : Bytes) : ∀ k fuel d, 2 * k + 1 ≤ fuel → d ≤ maxD →
    item maxD fuel d (nestMap k [n] ++ tail) =
      if d + k ≤ maxD then .ok (nestMapV k (.uint n)) tail else .fail (.err .maxNestingDepthExceeded) := by
  intro k
  induction k with
  | zero =>
    intro fuel d hf hd
    obtain ⟨f, rfl⟩ : ∃ f, fuel = f + 1 := ⟨fuel - 1, by omega⟩
    simp [nestMap, nestMapV, leaf_item maxD n hn, hd]
  | succ k ih =>
    intro fuel d hf hd
    obtain ⟨g, rfl⟩ : ∃ g, fuel = g + 3 := ⟨fuel - 3, by omega⟩
    simp only [nestMap, List.cons_append]
    by_cases hdep : d + 1 > maxD
    · have : ¬ d + (k + 1) ≤ maxD := by omega
      simp [item, hdep, this]
    · have ih2 := ih (g + 1) (d + 1) (by omega) (by omega)
      by_cases h2 : d + 1 + k ≤ maxD
      · have h3 : d + (k + 1) ≤ maxD := by omega
        simp only [h2, if_true] at ih2
        simp only [h3, if_true, nestMapV]
        exact item_map1_ok _ _ _ _ _ _ hdep (members_one_ok _ _ _ _ _ _ _ _ (emptyKey_item maxD g (d + 1) _) ih2)
      · have h3 : ¬ d + (k + 1) ≤ maxD := by omega
        simp only [h2, if_false] at ih2
        simp only [h3, if_false]
        exact item_map1_fail _ _ _ _ _ hdep (members_one_fail _ _ _ _ _ _ _ (emptyKey_item maxD g (d + 1) _) ih2)

theorem nestIndef_head (n : Nat) (hn : n < 24) (tail : Bytes) (k : Nat) :
    ∃ b rest, nestIndef k [n] ++ tail = b :: rest ∧ b ≠ 255 := by
  cases k with
  | zero => exact ⟨n, tail, by simp [nestIndef], by omega⟩
  | succ k => exact ⟨0x9f, _, rfl, by decide⟩

theorem item_indef_ok (maxD f d : Nat) (s r : Bytes) (xs : List Item) (h : ¬ d + 1 > maxD)
    (hm : itemsIndef maxD f (d + 1) s = .ok xs r) : item maxD (f + 1) d (0x9f :: s) = .ok (.arr xs) r := by
  simp [item, h, hm]
theorem item_indef_fail (maxD f d : Nat) (s : Bytes) (e : Fail) (h : ¬ d + 1 > maxD)
    (hm : itemsIndef maxD f (d + 1) s = .fail e) : item maxD (f + 1) d (0x9f :: s) = .fail e := by
  simp [item, h, hm]

theorem itemsIndef_one_ok (maxD g d b : Nat) (rest tail : Bytes) (x : Item) (hb : b ≠ 255)
    (hx : item maxD (g + 1) d (b :: rest) = .ok x (255 :: tail)) : itemsIndef maxD (g + 2) d (b :: rest) = .ok [x] tail := by
  simp [itemsIndef, hb, hx]
theorem itemsIndef_one_fail (maxD f d b : Nat) (rest : Bytes) (e : Fail) (hb : b ≠ 255)
    (hx : item maxD f d (b :: rest) = .fail e) : itemsIndef maxD (f + 1) d (b :: rest) = .fail e := by
  simp [itemsIndef, hb, hx]

theorem nestIndef_item (maxD n : Nat) (hn : n < 24) : ∀ k fuel d tail, 2 * k + 1 ≤ fuel → d ≤ maxD →
    item maxD fuel d (nestIndef k [n] ++ tail) =
      if d + k ≤ maxD then .ok (nestArrV k (.uint n)) tail else .fail (.err .maxNestingDepthExceeded) := by
  intro k
  induction k with
  | zero =>
    intro fuel d tail hf hd
    obtain ⟨f, rfl⟩ : ∃ f, fuel = f + 1 := ⟨fuel - 1, by omega⟩
    simp [nestIndef, nestArrV, leaf_item maxD n hn, hd]
  | succ k ih =>
    intro fuel d tail hf hd
    obtain ⟨g, rfl⟩ : ∃ g, fuel = g + 3 := ⟨fuel - 3, by omega⟩
    simp only [nestIndef, List.cons_append, List.append_assoc, List.nil_append]
    by_cases hdep : d + 1 > maxD
    · have : ¬ d + (k + 1) ≤ maxD := by omega
      simp [item, hdep, this]
    · have ih2 := ih (g + 1) (d + 1) (255 :: tail) (by omega) (by omega)
      obtain ⟨b, rest, hb, hne⟩ := nestIndef_head n hn (255 :: tail) k
      rw [hb] at ih2 ⊢
      by_cases h2 : d + 1 + k ≤ maxD
      · have h3 : d + (k + 1) ≤ maxD := by omega
        simp only [h2, if_true] at ih2
        simp only [h3, if_true, nestArrV]
        exact item_indef_ok _ _ _ _ _ _ hdep (itemsIndef_one_ok _ _ _ _ _ _ _ hne ih2)
      · have h3 : ¬ d + (k + 1) ≤ maxD := by omega
        simp only [h2, if_false] at ih2
        simp only [h3, if_false]
        exact item_indef_fail _ _ _ _ _ hdep (itemsIndef_one_fail _ _ _ _ _ _ hne ih2)

/-- `decode` on the three shapes: accepted iff k ≤ max_nesting_depth, otherwise exactly max_nesting_depth_exceeded -/
theorem decode_nestArr (maxD n : Nat) (hn : n < 24) (k : Nat) :
    decode maxD (nestArr k [n]) = if k ≤ maxD then .ok (nestArrV k (.uint n)) [] else .fail (.err .maxNestingDepthExceeded) := by
  have := nestArr_item maxD n hn [] k (2 * (nestArr k [n]).length + 2) 0 (by simp [nestArr_length]; omega) (Nat.zero_le _)
  simpa [decode] using this

theorem decode_nestMap (maxD n : Nat) (hn : n < 24) (k : Nat) :
    decode maxD (nestMap k [n]) = if k ≤ maxD then .ok (nestMapV k (.uint n)) [] else .fail (.err .maxNestingDepthExceeded) := by
  have := nestMap_item maxD n hn [] k (2 * (nestMap k [n]).length + 2) 0 (by simp [nestMap_length]; omega) (Nat.zero_le _)
  simpa [decode] using this

theorem decode_nestIndef (maxD n : Nat) (hn : n < 24) (k : Nat) :
    decode maxD (nestIndef k [n]) = if k ≤ maxD then .ok (nestArrV k (.uint n)) [] else .fail (.err .maxNestingDepthExceeded) := by
  have := nestIndef_item maxD n hn k (2 * (nestIndef k [n]).length + 2) 0 [] (by simp [nestIndef_length]; omega) (Nat.zero_le _)
  simpa [decode] using this

end JV.Model.CborParser
