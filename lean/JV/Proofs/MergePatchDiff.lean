/-
  JV.Proofs.MergePatchDiff — pointwise (finite-map) characterisations and the diff law.
-/
import JV.Proofs.MergePatch
namespace JV
open Assoc Model Spec.Rfc7386

/-- keys pairwise distinct -/
def NodupKeys {α : Type} : List (Bytes × α) → Prop
  | [] => True
  | (k, _) :: ms => find k ms = none ∧ NodupKeys ms

theorem nodupKeys_of_sorted {α : Type} : ∀ {ms : List (Bytes × α)}, Sorted ms → NodupKeys ms
  | [], _ => trivial
  | (_, _) :: _, h => ⟨find_none_of_allGt (Or.inr rfl) h.allGt, nodupKeys_of_sorted h.tail⟩

theorem sorted_mergeMembers : ∀ (pm tm : List (Bytes × JVal)), Sorted tm → Sorted (mergeMembers tm pm)
  | [], _, hs => by simpa [mergeMembers] using hs
  | (k, pv) :: pm, tm, hs => by
    by_cases hn : pv.isNull = true
    · simp only [mergeMembers, hn, if_true]; exact sorted_mergeMembers pm _ (sorted_erase hs)
    · simp only [mergeMembers, hn]; exact sorted_mergeMembers pm _ (sorted_assign hs)

/-- RFC 7386 as a statement about finite maps: what each name maps to after the merge. -/
theorem find_mergeMembers (k : Bytes) : ∀ (pm tm : List (Bytes × JVal)), Sorted tm → NodupKeys pm →
    find k (mergeMembers tm pm) =
      match find k pm with
      | none => find k tm
      | some pv => if pv.isNull then none else some (mergePatch ((find k tm).getD .null) pv)
  | [], tm, _, _ => by simp [mergeMembers, find]
  | (k0, pv0) :: pm, tm, hs, hn => by
    by_cases e : k0 = k
    · subst e
      by_cases hnull : pv0.isNull = true
      · have ih := find_mergeMembers k0 pm (erase k0 tm) (sorted_erase hs) hn.2
        simp only [mergeMembers, hnull, if_true, find]
        rw [ih, hn.1]
        exact find_erase_self hs
      · have ih := find_mergeMembers k0 pm (assign k0 (mergePatch ((find k0 tm).getD .null) pv0) tm) (sorted_assign hs) hn.2
        have hnull' : pv0.isNull = false := by simpa using hnull
        simp only [mergeMembers, hnull', find, if_true, Bool.false_eq_true, if_false]
        rw [ih, hn.1]
        simp [find_assign_self hs]
    · have e' : k ≠ k0 := fun h => e h.symm
      by_cases hnull : pv0.isNull = true
      · have ih := find_mergeMembers k pm (erase k0 tm) (sorted_erase hs) hn.2
        simp only [mergeMembers, hnull, if_true, find, e, if_false]
        rw [ih, find_erase_ne e']
      · have ih := find_mergeMembers k pm (assign k0 (mergePatch ((find k0 tm).getD .null) pv0) tm) (sorted_assign hs) hn.2
        have hnull' : pv0.isNull = false := by simpa using hnull
        simp only [mergeMembers, hnull', find, e, if_false, Bool.false_eq_true]
        rw [ih, find_assign_ne hs e']

/-! ### lookups of `try_emplace` and of the two loops of `from_diff` -/

theorem find_tryEmplace (k' k : Bytes) (v : JVal) (acc : List (Bytes × JVal)) :
    find k' (tryEmplace false k v acc) =
      match find k' acc with
      | some x => some x
      | none => if k' = k then some v else none := by
  unfold tryEmplace
  cases hk : find k acc with
  | some y =>
    cases hk' : find k' acc with
    | some x => simp
    | none =>
      by_cases e : k' = k
      · subst e; rw [hk] at hk'; cases hk'
      · simp [e]
  | none =>
    simp only [Bool.false_eq_true, if_false]
    by_cases e : k' = k
    · subst e; rw [hk]; simp [find_insertSorted_self]
    · rw [find_insertSorted_ne e]
      cases find k' acc <;> simp [e]

theorem sorted_tryEmplace {k : Bytes} {v : JVal} {acc : List (Bytes × JVal)} (hs : Sorted acc) :
    Sorted (tryEmplace false k v acc) := by
  unfold tryEmplace
  cases hk : find k acc with
  | some y => exact hs
  | none => exact sorted_insertSorted hs hk

theorem wfMembers_tryEmplace {k : Bytes} {v : JVal} {acc : List (Bytes × JVal)} (hv : v.WF) (hw : WFMembers acc) :
    WFMembers (tryEmplace false k v acc) := by
  unfold tryEmplace
  cases hk : find k acc with
  | some y => exact hw
  | none => exact wfMembers_insertSorted hv hw

theorem sorted_diffSecond (sm : List (Bytes × JVal)) : ∀ (tm acc : List (Bytes × JVal)), Sorted acc →
    Sorted (diffSecond false sm tm acc)
  | [], _, h => by simpa [diffSecond] using h
  | (k, tv) :: tm, acc, h => by
    simp only [diffSecond]
    cases find k sm with
    | some _ => exact sorted_diffSecond sm tm acc h
    | none => exact sorted_diffSecond sm tm _ (sorted_tryEmplace h)

theorem find_diffSecond (k : Bytes) (sm : List (Bytes × JVal)) : ∀ (tm acc : List (Bytes × JVal)), NodupKeys tm →
    find k (diffSecond false sm tm acc) =
      match find k acc with
      | some x => some x
      | none => match find k sm with
        | some _ => none
        | none => find k tm
  | [], acc, _ => by
    simp only [diffSecond, find]
    cases find k acc <;> cases find k sm <;> rfl
  | (k0, tv) :: tm, acc, hn => by
    simp only [diffSecond]
    cases h0 : find k0 sm with
    | some y =>
      simp only []
      rw [find_diffSecond k sm tm acc hn.2]
      by_cases e : k0 = k
      · subst e; simp [find, h0]
      · simp [find, e]
    | none =>
      simp only []
      rw [find_diffSecond k sm tm _ hn.2, find_tryEmplace]
      by_cases e : k0 = k
      · subst e
        cases find k0 acc <;> simp [find, h0]
      · have e' : k ≠ k0 := fun h => e h.symm
        cases find k acc <;> simp [find, e, e']

end JV

namespace JV
open Assoc Model Spec.Rfc7386

theorem wfMembers_diffSecond (sm : List (Bytes × JVal)) : ∀ (tm acc : List (Bytes × JVal)), WFMembers tm → WFMembers acc →
    WFMembers (diffSecond false sm tm acc)
  | [], _, _, h => by simpa [diffSecond] using h
  | (k, tv) :: tm, acc, ht, h => by
    simp only [diffSecond]
    cases find k sm with
    | some _ => exact wfMembers_diffSecond sm tm acc ht.2 h
    | none => exact wfMembers_diffSecond sm tm _ ht.2 (wfMembers_tryEmplace ht.1 h)

mutual
  theorem fromDiff_WF : ∀ (s t : JVal), s.WF → t.WF → (fromDiff false s t).WF
    | .obj sm, t, hs, ht => by
      cases t with
      | obj tm =>
        have hs' : Sorted sm ∧ WFMembers sm := by simpa [JVal.WF] using hs
        have ht' : Sorted tm ∧ WFMembers tm := by simpa [JVal.WF] using ht
        have h1 := diffFirst_WF sm tm [] hs'.2 ht'.2 trivial trivial
        simp only [fromDiff, JVal.WF]
        exact ⟨sorted_diffSecond sm tm _ h1.1, wfMembers_diffSecond sm tm _ ht'.2 h1.2⟩
      | null => simp [fromDiff, JVal.WF]
      | bool _ => simp [fromDiff, JVal.WF]
      | int _ => simp [fromDiff, JVal.WF]
      | str _ => simp [fromDiff, JVal.WF]
      | arr _ => simpa [fromDiff] using ht
    | .null, t, _, ht => by simpa [fromDiff] using ht
    | .bool _, t, _, ht => by simpa [fromDiff] using ht
    | .int _, t, _, ht => by simpa [fromDiff] using ht
    | .str _, t, _, ht => by simpa [fromDiff] using ht
    | .arr _, t, _, ht => by simpa [fromDiff] using ht
  theorem diffFirst_WF : ∀ (sm tm acc : List (Bytes × JVal)), WFMembers sm → WFMembers tm → Sorted acc → WFMembers acc →
      Sorted (diffFirst false sm tm acc) ∧ WFMembers (diffFirst false sm tm acc)
    | [], _, acc, _, _, ha, hw => by simp [diffFirst, ha, hw]
    | (k, sv) :: sm, tm, acc, hs, ht, ha, hw => by
      simp only [diffFirst]
      cases hf : find k tm with
      | some tv =>
        simp only []
        by_cases hne : (sv != tv) = true
        · simp only [hne, if_true]
          exact diffFirst_WF sm tm _ hs.2 ht (sorted_tryEmplace ha)
            (wfMembers_tryEmplace (fromDiff_WF sv tv hs.1 (wf_of_find ht hf)) hw)
        · simp only [hne]
          exact diffFirst_WF sm tm acc hs.2 ht ha hw
      | none =>
        simp only []
        exact diffFirst_WF sm tm _ hs.2 ht (sorted_tryEmplace ha) (wfMembers_tryEmplace trivial hw)
end

theorem find_diffFirst (k : Bytes) (tm : List (Bytes × JVal)) : ∀ (sm acc : List (Bytes × JVal)), NodupKeys sm →
    find k (diffFirst false sm tm acc) =
      match find k acc with
      | some x => some x
      | none => match find k sm with
        | none => none
        | some sv => match find k tm with
          | some tv => if sv != tv then some (fromDiff false sv tv) else none
          | none => some .null
  | [], acc, _ => by
    simp only [diffFirst, find]
    cases find k acc <;> rfl
  | (k0, sv) :: sm, acc, hn => by
    simp only [diffFirst]
    by_cases e : k0 = k
    · subst e
      have hsm : find k0 sm = none := hn.1
      cases hf : find k0 tm with
      | some tv =>
        simp only []
        by_cases hne : (sv != tv) = true
        · simp only [hne, if_true]
          rw [find_diffFirst k0 tm sm _ hn.2, find_tryEmplace, hsm]
          cases find k0 acc <;> simp [find, hne]
        · have hne' : (sv != tv) = false := by simpa using hne
          simp only [hne', Bool.false_eq_true, if_false]
          rw [find_diffFirst k0 tm sm _ hn.2, hsm]
          cases find k0 acc <;> simp [find, hne']
      | none =>
        simp only []
        rw [find_diffFirst k0 tm sm _ hn.2, find_tryEmplace, hsm]
        cases find k0 acc <;> simp [find]
    · have e' : k ≠ k0 := fun h => e h.symm
      cases hf : find k0 tm with
      | some tv =>
        simp only []
        by_cases hne : (sv != tv) = true
        · simp only [hne, if_true]
          rw [find_diffFirst k tm sm _ hn.2, find_tryEmplace]
          cases find k acc <;> simp [find, e, e']
        · have hne' : (sv != tv) = false := by simpa using hne
          simp only [hne', Bool.false_eq_true, if_false]
          rw [find_diffFirst k tm sm _ hn.2]
          cases find k acc <;> simp [find, e]
      | none =>
        simp only []
        rw [find_diffFirst k tm sm _ hn.2, find_tryEmplace]
        cases find k acc <;> simp [find, e, e']

theorem mergePatch_nonobj {x : JVal} (hx : x.isObject = false) (v : JVal) : mergePatch x v = mergePatch .null v := by
  cases v <;> cases x <;> simp_all [mergePatch, JVal.isObject]

theorem mergePatch_of_nonobj_patch {v : JVal} (hv : v.isObject = false) (x : JVal) : mergePatch x v = v := by
  cases v <;> simp_all [mergePatch, JVal.isObject]

theorem fromDiff_of_not_both {s t : JVal} (h : s.isObject = false ∨ t.isObject = false) : fromDiff false s t = t := by
  cases s <;> cases t <;> simp_all [fromDiff, JVal.isObject]

theorem fromDiff_nonnull {s t : JVal} (h : t.isNull = false) : (fromDiff false s t).isNull = false := by
  cases s <;> cases t <;> simp_all [fromDiff, JVal.isNull]

/-- applying a patch without null members to "nothing" yields the patch itself -/
theorem mergePatch_fresh : ∀ (n : Nat) (v : JVal), v.size ≤ n → v.WF → v.NoNullMembers → mergePatch .null v = v
  | 0, v, h, _, _ => by cases v <;> simp [JVal.size] at h <;> omega
  | n + 1, v, h, hw, hnn => by
    cases v with
    | obj m =>
      have hw' : Sorted m ∧ WFMembers m := by simpa [JVal.WF] using hw
      have hnn' : NoNullMems m := by simpa [JVal.NoNullMembers] using hnn
      simp only [mergePatch]
      congr 1
      apply sorted_ext (sorted_mergeMembers m [] trivial) hw'.1
      intro k
      rw [find_mergeMembers k m [] trivial (nodupKeys_of_sorted hw'.1)]
      cases hf : find k m with
      | none => simp [find]
      | some pv =>
        have hp := nonull_of_find hnn' hf
        have hsz : pv.size ≤ n := by
          have := size_of_find hf
          simp only [JVal.size] at h; omega
        simp only [hp.1, find, Option.getD_none, Bool.false_eq_true, if_false]
        rw [mergePatch_fresh n pv hsz (wf_of_find hw'.2 hf) hp.2]
    | null => rfl
    | bool _ => rfl
    | int _ => rfl
    | str _ => rfl
    | arr _ => rfl

theorem diff_law_aux : ∀ (n : Nat) (s t : JVal), s.size ≤ n → s.WF → t.WF → t.NoNullMembers →
    applyMP false s (fromDiff false s t) = t
  | 0, s, _, h, _, _, _ => by cases s <;> simp [JVal.size] at h <;> omega
  | n + 1, s, t, hsz, hs, ht, hnn => by
    by_cases hboth : s.isObject = true ∧ t.isObject = true
    · cases s with
      | obj sm =>
        cases t with
        | obj tm =>
          have hs' : Sorted sm ∧ WFMembers sm := by simpa [JVal.WF] using hs
          have ht' : Sorted tm ∧ WFMembers tm := by simpa [JVal.WF] using ht
          have hnn' : NoNullMems tm := by simpa [JVal.NoNullMembers] using hnn
          have hd := fromDiff_WF (.obj sm) (.obj tm) hs ht
          have hspec := applyMP_spec (fromDiff false (.obj sm) (.obj tm)) (.obj sm) hs hd
          rw [hspec.1]
          simp only [fromDiff] at hd ⊢
          have hd' : Sorted (diffSecond false sm tm (diffFirst false sm tm [])) ∧
              WFMembers (diffSecond false sm tm (diffFirst false sm tm [])) := by simpa [JVal.WF] using hd
          simp only [mergePatch]
          congr 1
          apply sorted_ext (sorted_mergeMembers _ _ hs'.1) ht'.1
          intro k
          rw [find_mergeMembers k _ sm hs'.1 (nodupKeys_of_sorted hd'.1),
            find_diffSecond k sm tm _ (nodupKeys_of_sorted ht'.1),
            find_diffFirst k tm sm [] (nodupKeys_of_sorted hs'.1)]
          simp only [find]
          cases hfs : find k sm with
          | none =>
            cases hft : find k tm with
            | none => simp
            | some tv =>
              have hp := nonull_of_find hnn' hft
              simp only [hp.1, Option.getD_none, Bool.false_eq_true, if_false]
              rw [mergePatch_fresh tv.size tv (Nat.le_refl _) (wf_of_find ht'.2 hft) hp.2]
          | some sv =>
            cases hft : find k tm with
            | none => simp [JVal.isNull]
            | some tv =>
              have hp := nonull_of_find hnn' hft
              by_cases hne : (sv != tv) = true
              · have hsvsz : sv.size ≤ n := by
                  have := size_of_find hfs
                  simp only [JVal.size] at hsz; omega
                have hsv := wf_of_find hs'.2 hfs
                have htv := wf_of_find ht'.2 hft
                have ih := diff_law_aux n sv tv hsvsz hsv htv hp.2
                have hsp := applyMP_spec (fromDiff false sv tv) sv hsv (fromDiff_WF sv tv hsv htv)
                simp only [hne, if_true, fromDiff_nonnull hp.1, Option.getD_some, Bool.false_eq_true, if_false]
                rw [← hsp.1, ih]
              · have heq : sv = tv := by
                  by_cases e : sv = tv
                  · exact e
                  · exact absurd ((JVal.bne_iff sv tv).2 e) hne
                subst heq
                have hne' : (sv != sv) = false := by simpa using hne
                simp [hne']
        | null => simp [JVal.isObject] at hboth
        | bool _ => simp [JVal.isObject] at hboth
        | int _ => simp [JVal.isObject] at hboth
        | str _ => simp [JVal.isObject] at hboth
        | arr _ => simp [JVal.isObject] at hboth
      | null => simp [JVal.isObject] at hboth
      | bool _ => simp [JVal.isObject] at hboth
      | int _ => simp [JVal.isObject] at hboth
      | str _ => simp [JVal.isObject] at hboth
      | arr _ => simp [JVal.isObject] at hboth
    · have hnb : s.isObject = false ∨ t.isObject = false := by
        cases hso : s.isObject <;> cases hto : t.isObject <;> simp_all
      rw [fromDiff_of_not_both hnb, (applyMP_spec t s hs ht).1]
      by_cases hto : t.isObject = true
      · have hso : s.isObject = false := by
          rcases hnb with h | h
          · exact h
          · rw [h] at hto; cases hto
        rw [mergePatch_nonobj hso, mergePatch_fresh t.size t (Nat.le_refl _) ht hnn]
      · exact mergePatch_of_nonobj_patch (by simpa using hto) s

end JV
