/-
  JV.Proofs.JsonEncodeStrip — the indenting encoder model differs from the compact one by white space outside string
  literals only: deleting the bytes 0x20 0x09 0x0A 0x0D that are not inside a string literal from `pretty o v` gives
  `compactS o.solidus v`, for every option record whose new_line_chars and indent_char are white space.
-/
import JV.Model.JsonEncode
import JV.Proofs.JsonEscape
import JV.Proofs.JsonEncodeParse
namespace JV
namespace Model
namespace JsonEncode
open Spec.Rfc8259

/-- scanner state: outside a string literal, inside one, inside one right after a backslash -/
inductive Mode where
  | out | str | esc

/-- delete RFC 8259 white space outside string literals -/
def strip : Mode → Bytes → Bytes
  | _, [] => []
  | .out, c :: cs => if c = 34 then c :: strip .str cs else if isWs c then strip .out cs else c :: strip .out cs
  | .str, c :: cs => if c = 34 then c :: strip .out cs else if c = 92 then c :: strip .esc cs else c :: strip .str cs
  | .esc, c :: cs => c :: strip .str cs

def stripWsOutsideStrings (s : Bytes) : Bytes := strip .out s

def AllWs (w : Bytes) : Prop := ∀ c ∈ w, isWs c = true

instance (w : Bytes) : Decidable (AllWs w) := by unfold AllWs; infer_instance
/-- no white space, no quote -/
def Plain (p : Bytes) : Prop := ∀ c ∈ p, isWs c = false ∧ c ≠ 34

theorem strip_ws : ∀ (w r : Bytes), AllWs w → strip .out (w ++ r) = strip .out r
  | [], _, _ => rfl
  | c :: w, r, h => by
    have hc : isWs c = true := h c (by simp)
    have h34 : c ≠ 34 := by intro e; subst e; simp [isWs] at hc
    simp only [List.cons_append, strip, h34, if_false, hc, if_true]
    exact strip_ws w r (fun x hx => h x (by simp [hx]))

theorem strip_plain : ∀ (p r : Bytes), Plain p → strip .out (p ++ r) = p ++ strip .out r
  | [], _, _ => rfl
  | c :: p, r, h => by
    have hc := h c (by simp)
    simp only [List.cons_append, strip, hc.2, if_false, hc.1, Bool.false_eq_true]
    rw [strip_plain p r (fun x hx => h x (by simp [hx]))]

/-- the shape of what escape_string writes: two-byte escapes and bytes other than quote and backslash -/
inductive EscBody : Bytes → Prop where
  | nil : EscBody []
  | pair (x : Nat) (e : Bytes) : EscBody e → EscBody (92 :: x :: e)
  | plain (c : Nat) (e : Bytes) : c ≠ 34 → c ≠ 92 → EscBody e → EscBody (c :: e)

theorem strip_escBody (e : Bytes) (h : EscBody e) (r : Bytes) : strip .str (e ++ 34 :: r) = e ++ 34 :: strip .out r := by
  induction h with
  | nil => simp [strip]
  | pair x e _ ih => simp [strip, ih]
  | plain c e h34 h92 _ ih => simp [strip, h34, h92, ih]

theorem hexChar_plain (n : Nat) (h : n < 16) : JsonEscape.hexChar n ≠ 34 ∧ JsonEscape.hexChar n ≠ 92 := by
  unfold JsonEscape.hexChar; split <;> omega

theorem escBody_u4 (cp : Nat) (e : Bytes) (h : EscBody e) : EscBody (JsonEscape.u4 cp ++ e) := by
  have m : ∀ k : Nat, k % 16 < 16 := fun k => Nat.mod_lt _ (by omega)
  simp only [JsonEscape.u4, List.cons_append, List.nil_append]
  exact .pair _ _ (.plain _ _ (hexChar_plain _ (m _)).1 (hexChar_plain _ (m _)).2
    (.plain _ _ (hexChar_plain _ (m _)).1 (hexChar_plain _ (m _)).2
    (.plain _ _ (hexChar_plain _ (m _)).1 (hexChar_plain _ (m _)).2
    (.plain _ _ (hexChar_plain _ (m _)).1 (hexChar_plain _ (m _)).2 h))))

theorem escape_escBody (ea sol : Bool) : ∀ (fuel : Nat) (s e : Bytes), JsonEscape.escape ea sol fuel s = some e → EscBody e
  | 0, [], e, h => by simp [JsonEscape.escape] at h; subst h; exact .nil
  | 0, _ :: _, e, h => by simp [JsonEscape.escape] at h
  | _ + 1, [], e, h => by simp [JsonEscape.escape] at h; subst h; exact .nil
  | fuel + 1, c :: cs, e, h => by
    have ih := escape_escBody ea sol fuel
    unfold JsonEscape.escape at h
    dsimp only at h
    have two : ∀ x : Nat, (JsonEscape.escape ea sol fuel cs).map (fun r => 92 :: x :: r) = some e → EscBody e := by
      intro x hx
      cases hr : JsonEscape.escape ea sol fuel cs with
      | none => simp [hr] at hx
      | some r => simp [hr] at hx; subst hx; exact .pair _ _ (ih cs r hr)
    have one : c ≠ 34 → c ≠ 92 → (JsonEscape.escape ea sol fuel cs).map (fun r => c :: r) = some e → EscBody e := by
      intro h34 h92 hx
      cases hr : JsonEscape.escape ea sol fuel cs with
      | none => simp [hr] at hx
      | some r => simp [hr] at hx; subst hx; exact .plain _ _ h34 h92 (ih cs r hr)
    by_cases h92 : c = 92
    · subst h92; exact two 92 (by simpa using h)
    by_cases h34 : c = 34
    · subst h34; exact two 34 (by simpa using h)
    by_cases h8 : c = 8
    · subst h8; exact two 98 (by simpa using h)
    by_cases h12 : c = 12
    · subst h12; exact two 102 (by simpa using h)
    by_cases h10 : c = 10
    · subst h10; exact two 110 (by simpa using h)
    by_cases h13 : c = 13
    · subst h13; exact two 114 (by simpa using h)
    by_cases h9 : c = 9
    · subst h9; exact two 116 (by simpa using h)
    simp only [h92, h34, h8, h12, h10, h13, h9, if_false] at h
    by_cases hs : (sol && decide (c = 47)) = true
    · have hc : c = 47 := by simpa using (Bool.and_eq_true_iff.1 hs).2
      subst hc
      have hsol : sol = true := by simpa using (Bool.and_eq_true_iff.1 hs).1
      subst hsol
      exact two 47 (by simpa using h)
    simp only [hs, Bool.false_eq_true, if_false] at h
    by_cases hx : (JsonEscape.isControl c || ea) = true
    · simp only [hx, if_true] at h
      cases htc : JsonEscape.toCodepoint (c :: cs) with
      | none => simp [htc] at h
      | some p =>
        obtain ⟨cp, len⟩ := p
        simp only [htc] at h
        by_cases hb : (decide (cp ≥ 0x80) || JsonEscape.isControl c) = true
        · simp only [hb, if_true] at h
          by_cases hbig : cp > 0xFFFF
          · simp only [hbig, if_true] at h
            cases hr : JsonEscape.escape ea sol fuel (List.drop len (c :: cs)) with
            | none => simp [hr] at h
            | some r =>
              simp only [hr, Option.map_some, Option.some.injEq] at h; subst h
              rw [List.append_assoc]
              exact escBody_u4 _ _ (escBody_u4 _ _ (ih _ r hr))
          · simp only [hbig, if_false] at h
            cases hr : JsonEscape.escape ea sol fuel (List.drop len (c :: cs)) with
            | none => simp [hr] at h
            | some r =>
              simp only [hr, Option.map_some, Option.some.injEq] at h; subst h
              exact escBody_u4 _ _ (ih _ r hr)
        · simp only [hb, Bool.false_eq_true, if_false] at h
          exact one h34 h92 h
    · simp only [hx, Bool.false_eq_true, if_false] at h
      exact one h34 h92 h

/-- a string literal of the encoder is copied -/
theorem strip_strLit (sol : Bool) (s r : Bytes) : strip .out (strLit sol s ++ r) = strLit sol s ++ strip .out r := by
  obtain ⟨e, he, _⟩ := JsonEscape.escape_reads_back sol s s.length (Nat.le_refl _)
  have hb := escape_escBody false sol s.length s e he
  have hl : strLit sol s = 34 :: (e ++ [34]) := by simp [strLit, JsonEscape.escapeString, he]
  rw [hl]
  simp only [List.cons_append, List.append_assoc, List.nil_append, strip, if_true]
  rw [strip_escBody e hb]

/-! ### layout pieces -/

/-- the option records for which the claim is made: new_line_chars and indent_char are white space -/
def WsLayout (o : PrettyOpts) : Prop := AllWs o.newLine ∧ isWs o.indentChar = true

instance (o : PrettyOpts) : Decidable (WsLayout o) := by unfold WsLayout; infer_instance

theorem allWs_replicate (n c : Nat) (h : isWs c = true) : AllWs (List.replicate n c) := by
  intro x hx; rw [List.eq_of_mem_replicate hx]; exact h

theorem allWs_append {a b : Bytes} (ha : AllWs a) (hb : AllWs b) : AllWs (a ++ b) := by
  intro x hx; rcases List.mem_append.1 hx with h | h
  · exact ha x h
  · exact hb x h

theorem allWs_nl (o : PrettyOpts) (h : WsLayout o) (ind : Nat) : AllWs (nl o ind) :=
  allWs_append h.1 (allWs_replicate _ _ h.2)

theorem allWs_nlPos (o : PrettyOpts) (h : WsLayout o) (n : Nat) : AllWs (nlPos o n) :=
  allWs_append h.1 (allWs_replicate _ _ (by decide))

theorem allWs_ite (b : Bool) (w : Bytes) (h : AllWs w) : AllWs (if b = true then w else []) := by
  cases b
  · intro x hx; simp at hx
  · simpa using h

/-- a punctuation byte with its optional spaces -/
theorem strip_spaced (k c : Nat) (r : Bytes) (hc : isWs c = false ∧ c ≠ 34) :
    strip .out (spaced k c ++ r) = c :: strip .out r := by
  have h32 : isWs 32 = true := by decide
  unfold spaced
  split
  · simp [strip, hc.1, hc.2, h32]
  · split
    · simp [strip, hc.1, hc.2, h32]
    · split
      · simp [strip, hc.1, hc.2, h32]
      · simp [strip, hc.1, hc.2]

theorem strip_comma (o : PrettyOpts) (r : Bytes) : strip .out (commaStr o ++ r) = 44 :: strip .out r :=
  strip_spaced _ 44 r (by decide)
theorem strip_colon (o : PrettyOpts) (r : Bytes) : strip .out (colonStr o ++ r) = 58 :: strip .out r :=
  strip_spaced _ 58 r (by decide)
theorem strip_openBrace (o : PrettyOpts) (r : Bytes) : strip .out (openBrace o ++ r) = 123 :: strip .out r := by
  unfold openBrace; split <;> simp [strip, isWs]
theorem strip_closeBrace (o : PrettyOpts) (r : Bytes) : strip .out (closeBrace o ++ r) = 125 :: strip .out r := by
  unfold closeBrace; split <;> simp [strip, isWs]
theorem strip_openBracket (o : PrettyOpts) (r : Bytes) : strip .out (openBracket o ++ r) = 91 :: strip .out r := by
  unfold openBracket; split <;> simp [strip, isWs]
theorem strip_closeBracket (o : PrettyOpts) (r : Bytes) : strip .out (closeBracket o ++ r) = 93 :: strip .out r := by
  unfold closeBracket; split <;> simp [strip, isWs]

/-- the comma a value contributes when it is not the first element of an array -/
def parSep : Option Par → Bytes
  | some p => if !p.isObj && !p.first then [44] else []
  | none => []

theorem strip_elemComma (o : PrettyOpts) (par : Option Par) (r : Bytes) :
    strip .out (elemComma o par ++ r) = parSep par ++ strip .out r := by
  cases par with
  | none => rfl
  | some p =>
    simp only [elemComma, parSep]
    split
    · simp [strip_comma]
    · rfl

/-- a token the scanner copies: a literal, a number text, a string literal -/
def Tok (t : Bytes) : Prop := ∀ r, strip .out (t ++ r) = t ++ strip .out r

theorem strip_scalar (o : PrettyOpts) (ho : WsLayout o) (par : Option Par) (ind col : Nat) (t : Bytes) (ht : Tok t) (r : Bytes) :
    strip .out ((scalar o par ind col t).out ++ r) = parSep par ++ (t ++ strip .out r) := by
  cases par with
  | none => simpa [scalar, parSep] using ht r
  | some p =>
    simp only [scalar, List.append_assoc]
    rw [strip_elemComma, strip_ws _ _ (allWs_ite _ _ (allWs_nl o ho ind)), strip_ws _ _ (allWs_ite _ _ (allWs_nl o ho ind)), ht r]

theorem strip_optNl (o : PrettyOpts) (ho : WsLayout o) (ind : Nat) (b : Bool) (r : Bytes) :
    strip .out ((if b = true then nl o ind else []) ++ r) = strip .out r :=
  strip_ws _ _ (allWs_ite _ _ (allWs_nl o ho ind))

theorem strip_nl (o : PrettyOpts) (ho : WsLayout o) (ind : Nat) (r : Bytes) : strip .out (nl o ind ++ r) = strip .out r :=
  strip_ws _ _ (allWs_nl o ho ind)

theorem strip_beginObject (o : PrettyOpts) (ho : WsLayout o) (par : Option Par) (ind col : Nat) (r : Bytes) :
    strip .out ((beginObject o par ind col).1 ++ r) = parSep par ++ strip .out r := by
  cases par with
  | none => rfl
  | some p =>
    simp only [beginObject]
    split <;> simp only [List.append_assoc, strip_elemComma, strip_optNl o ho, strip_nl o ho]

theorem strip_beginArray (o : PrettyOpts) (ho : WsLayout o) (par : Option Par) (ind col : Nat) (r : Bytes) :
    strip .out ((beginArray o par ind col).1 ++ r) = parSep par ++ strip .out r := by
  cases par with
  | none => rfl
  | some p =>
    simp only [beginArray]
    by_cases h1 : p.isObj = true
    · simp only [h1, if_true, strip_elemComma]
    · simp only [h1, Bool.false_eq_true, if_false]
      split <;> simp only [List.append_assoc, strip_elemComma, strip_optNl o ho, strip_nl o ho]

mutual
  /-- number texts contain no white space and no quote (true of every RFC 8259 number) -/
  def plainNums : JT → Bool
    | .num lit => lit.all fun c => !isWs c && c != 34
    | .arr xs => plainNumsList xs
    | .obj ms => plainNumsMembers ms
    | _ => true
  def plainNumsList : List JT → Bool
    | [] => true
    | x :: xs => plainNums x && plainNumsList xs
  def plainNumsMembers : List (Bytes × JT) → Bool
    | [] => true
    | (_, x) :: ms => plainNums x && plainNumsMembers ms
end

theorem tok_plain (t : Bytes) (h : Plain t) : Tok t := fun r => strip_plain t r h

theorem tok_lits : Tok nullLit ∧ Tok trueLit ∧ Tok falseLit := by
  refine ⟨tok_plain _ ?_, tok_plain _ ?_, tok_plain _ ?_⟩ <;> (intro c hc; simp [nullLit, trueLit, falseLit] at hc; rcases hc with rfl | rfl | rfl | rfl | rfl <;> decide)

theorem tok_num (lit : Bytes) (h : plainNums (.num lit) = true) : Tok lit := by
  apply tok_plain
  intro c hc
  have h' : ∀ x, x ∈ lit → isWs x = false ∧ ¬ x = 34 := by simpa [plainNums] using h
  exact h' c hc

theorem strip_memberWs (o : PrettyOpts) (ho : WsLayout o) (b1 b2 : Bool) (ind dp : Nat) (r : Bytes) :
    strip .out ((if b1 = true then nl o ind else if b2 = true then nlPos o dp else []) ++ r) = strip .out r := by
  apply strip_ws
  cases b1
  · simpa using allWs_ite b2 _ (allWs_nlPos o ho dp)
  · simpa using allWs_nl o ho ind

mutual
  theorem strip_encVal (o : PrettyOpts) (ho : WsLayout o) : ∀ (v : JT) (par : Option Par) (ind col : Nat) (r : Bytes),
      plainNums v = true →
      strip .out ((encVal o par ind col v).out ++ r) = parSep par ++ (compactS o.solidus v ++ strip .out r)
    | .null, par, ind, col, r, _ => by
      simpa [encVal, compactS] using strip_scalar o ho par ind col nullLit tok_lits.1 r
    | .bool true, par, ind, col, r, _ => by
      simpa [encVal, compactS] using strip_scalar o ho par ind col trueLit tok_lits.2.1 r
    | .bool false, par, ind, col, r, _ => by
      simpa [encVal, compactS] using strip_scalar o ho par ind col falseLit tok_lits.2.2 r
    | .num lit, par, ind, col, r, h => by
      simpa [encVal, compactS] using strip_scalar o ho par ind col lit (tok_num lit h) r
    | .str s, par, ind, col, r, _ => by
      simpa [encVal, compactS] using strip_scalar o ho par ind col (strLit o.solidus s) (fun r => strip_strLit _ s r) r
    | .arr xs, par, ind, col, r, h => by
      have hx : plainNumsList xs = true := by simpa [plainNums] using h
      simp only [encVal, compactS, List.append_assoc]
      rw [strip_beginArray o ho, strip_openBracket, strip_encElems o ho xs _ _ _ _ _ _ _ hx, strip_optNl o ho, strip_closeBracket]
      simp
    | .obj ms, par, ind, col, r, h => by
      have hx : plainNumsMembers ms = true := by simpa [plainNums] using h
      simp only [encVal, compactS, List.append_assoc]
      rw [strip_beginObject o ho, strip_openBrace, strip_encMembers o ho ms _ _ _ _ _ _ _ hx, strip_optNl o ho, strip_closeBrace]
      simp
  theorem strip_encElems (o : PrettyOpts) (ho : WsLayout o) : ∀ (xs : List JT) (split : Nat) (ib : Bool) (ind col : Nat)
      (first nla : Bool) (r : Bytes), plainNumsList xs = true →
      strip .out ((encElems o split ib ind col first nla xs).out ++ r) = compactElems o.solidus first xs ++ strip .out r
    | [], _, _, _, _, _, _, _, _ => by simp [encElems, compactElems]
    | x :: xs, split, ib, ind, col, first, nla, r, h => by
      have hx : plainNums x = true ∧ plainNumsList xs = true := by simpa [plainNumsList] using h
      simp only [encElems, compactElems, List.append_assoc]
      rw [strip_encVal o ho x _ _ _ _ hx.1, strip_encElems o ho xs _ _ _ _ _ _ _ hx.2]
      cases first <;> simp [parSep, sep]
  theorem strip_encMembers (o : PrettyOpts) (ho : WsLayout o) : ∀ (ms : List (Bytes × JT)) (split : Nat) (ind col : Nat)
      (first nla : Bool) (dp : Nat) (r : Bytes), plainNumsMembers ms = true →
      strip .out ((encMembers o split ind col first nla dp ms).out ++ r) = compactMembers o.solidus first ms ++ strip .out r
    | [], _, _, _, _, _, _, _, _ => by simp [encMembers, compactMembers]
    | (k, x) :: ms, split, ind, col, first, nla, dp, r, h => by
      have hx : plainNums x = true ∧ plainNumsMembers ms = true := by simpa [plainNumsMembers] using h
      simp only [encMembers, compactMembers, List.append_assoc]
      have hc : ∀ r', strip .out ((if first = true then [] else commaStr o) ++ r') = sep first ++ strip .out r' := by
        intro r'; cases first <;> simp [sep, strip_comma]
      rw [hc, strip_memberWs o ho, strip_strLit, strip_colon, strip_encVal o ho x _ _ _ _ hx.1,
        strip_encMembers o ho ms _ _ _ _ _ _ _ hx.2]
      simp [parSep]
end

/-- pretty = compact + white space outside string literals -/
theorem strip_pretty (o : PrettyOpts) (ho : WsLayout o) (v : JT) (h : plainNums v = true) :
    stripWsOutsideStrings (pretty o v) = compactS o.solidus v := by
  have := strip_encVal o ho v none 0 0 [] h
  simpa [stripWsOutsideStrings, pretty, parSep, strip] using this

/-! every well-formed value (Proofs/JsonEncodeParse) has plain number texts -/
mutual
  theorem wf_plainNums : ∀ v : JT, wf v = true → plainNums v = true
    | .null, _ => rfl
    | .bool _, _ => rfl
    | .num lit, h => by
      have h' : parseNumber lit = some (lit, []) := by simpa [wf] using h
      simp only [plainNums, List.all_eq_true, Bool.and_eq_true, Bool.not_eq_true', bne_iff_ne]
      intro c hc
      exact (parseNumber_chars lit lit [] h' c hc).plain
    | .str _, _ => rfl
    | .arr xs, h => by simpa [plainNums] using wfList_plainNums xs (by simpa [wf] using h)
    | .obj ms, h => by simpa [plainNums] using wfMembers_plainNums ms (by simpa [wf] using h)
  theorem wfList_plainNums : ∀ xs : List JT, wfList xs = true → plainNumsList xs = true
    | [], _ => rfl
    | x :: xs, h => by
      have h' : wf x = true ∧ wfList xs = true := by simpa [wfList] using h
      simp [plainNumsList, wf_plainNums x h'.1, wfList_plainNums xs h'.2]
  theorem wfMembers_plainNums : ∀ ms : List (Bytes × JT), wfMembers ms = true → plainNumsMembers ms = true
    | [], _ => rfl
    | (k, x) :: ms, h => by
      have h' : (validUtf8 k = true ∧ wf x = true) ∧ wfMembers ms = true := by simpa [wfMembers] using h
      simp [plainNumsMembers, wf_plainNums x h'.1.2, wfMembers_plainNums ms h'.2]
end

end JsonEncode
end Model
end JV
