/-
  JV.Proofs.JsonParserSoundStr — second layer of the SOUNDNESS proof for whole documents: the string sub-automaton. If the model,
  inside a string, goes on to accept, the reference's `parseChars` reads the same characters — PROVIDED the text is free of the two
  surrogate anomalies (`surrogateOK`): a `\uDC00`–`\uDFFF` escape that is not the second half of a pair (the model drops it,
  the reference gives the text no value) and a high-surrogate escape followed by a `\uXXXX` that is not a low surrogate (the
  model combines them).
-/
import JV.Proofs.JsonParserSoundCtx
namespace JV
namespace Model
namespace JsonParser
open Spec.Rfc8259 (parseChars parseString hex4 utf8Encode validUtf8 isWs)

def isHi (u : Nat) : Bool := 0xD800 ≤ u && u ≤ 0xDBFF
def isLo (u : Nat) : Bool := 0xDC00 ≤ u && u ≤ 0xDFFF

/-- the text, read escape by escape (a backslash and the character after it are one unit; `\u` takes four hex digits), contains
    neither a low-surrogate escape `\uDC00`–`\uDFFF` that is not the second half of a pair, nor a high-surrogate escape
    `\uD800`–`\uDBFF` directly followed by a `\uXXXX` escape that is not a low surrogate. Where the digits are not hexadecimal,
    or a high surrogate is followed by something that is not a `\u` escape, both parsers refuse the text and the scan stops with
    `true`. -/
def surrogateOK : Bytes → Bool
  | [] => true
  | c :: cs =>
    if c = 92 then
      match cs with
      | [] => true
      | e :: r =>
        if e = 117 then
          match r with
          | a :: b :: c' :: d :: r1 =>
            match hex4 [a, b, c', d] with
            | none => true
            | some (u, _) =>
              if isLo u then false
              else if isHi u then
                match r1 with
                | 92 :: 117 :: a2 :: b2 :: c2 :: d2 :: r3 =>
                  match hex4 [a2, b2, c2, d2] with
                  | none => true
                  | some (lo, _) => isLo lo && surrogateOK r3
                | _ => true
              else surrogateOK r1
          | _ => true
        else surrogateOK r
    else surrogateOK cs

theorem sOK_cons (c : Nat) (cs : Bytes) (hc : c ≠ 92) (h : surrogateOK (c :: cs) = true) : surrogateOK cs = true := by
  unfold surrogateOK at h
  simpa [hc] using h

theorem sOK_esc (e : Nat) (r : Bytes) (he : e ≠ 117) (h : surrogateOK (92 :: e :: r) = true) : surrogateOK r = true := by
  unfold surrogateOK at h
  simpa [he] using h

theorem sOK_u (a b c d u : Nat) (r1 : Bytes) (hx : hex4 [a, b, c, d] = some (u, []))
    (h : surrogateOK (92 :: 117 :: a :: b :: c :: d :: r1) = true) :
    isLo u = false ∧ (isHi u = false → surrogateOK r1 = true) := by
  unfold surrogateOK at h
  simp only [if_true, hx] at h
  by_cases hlo : isLo u = true
  · simp [hlo] at h
  · simp only [hlo, Bool.false_eq_true, if_false] at h
    refine ⟨by simpa using hlo, ?_⟩
    intro hhi
    simpa [hhi] using h

theorem sOK_pair (a b c d u a2 b2 c2 d2 lo : Nat) (r3 : Bytes) (hx : hex4 [a, b, c, d] = some (u, []))
    (hhi : isHi u = true) (hy : hex4 [a2, b2, c2, d2] = some (lo, []))
    (h : surrogateOK (92 :: 117 :: a :: b :: c :: d :: 92 :: 117 :: a2 :: b2 :: c2 :: d2 :: r3) = true) :
    isLo lo = true ∧ surrogateOK r3 = true := by
  have hlo := (sOK_u a b c d u _ hx h).1
  unfold surrogateOK at h
  simp only [if_true, hx, hlo, hhi, hy, Bool.false_eq_true, if_false, Bool.and_eq_true] at h
  exact h

theorem sOK_drop : ∀ (p r : Bytes), (∀ x ∈ p, x ≠ 92) → surrogateOK (p ++ r) = true → surrogateOK r = true
  | [], _, _, h => h
  | c :: p, r, hp, h =>
    sOK_drop p r (fun x hx => hp x (List.mem_cons_of_mem _ hx)) (sOK_cons c (p ++ r) (hp c (List.mem_cons_self)) h)

theorem sOK_dropWs : ∀ (s : Bytes), surrogateOK s = true → surrogateOK (dropWs s) = true
  | [], h => h
  | c :: cs, h => by
    by_cases hw : isWs c = true
    · have e : dropWs (c :: cs) = dropWs cs := by simp [dropWs, hw]
      rw [e]
      have h92 : c ≠ 92 := by rcases (isWs_iff c).1 hw with h | h | h | h <;> omega
      exact sOK_dropWs cs (sOK_cons c cs h92 h)
    · have e : dropWs (c :: cs) = c :: cs := by simp [dropWs, hw]
      rw [e]; exact h

theorem dropWs_length (s : Bytes) : (dropWs s).length ≤ s.length := by
  unfold dropWs
  exact (List.dropWhile_sublist _).length_le

/-! ### hex digits -/

def hexState : SS → Bool
  | .u1 | .u2 | .u3 | .u4 | .u5 | .u6 | .u7 | .u8 => true
  | _ => false

/-- a state that expects a hex digit gets one -/
theorem hex_inv (cfg : Cfg) (s : St) (hst : s.st = .string) (hss : hexState s.ss = true) (t : Bytes) (h : Acc cfg s t) :
    ∃ a t', t = a :: t' ∧ (Spec.Rfc8259.hexVal a).isSome = true := by
  have he := h.err_none
  cases t with
  | nil => exact absurd h (Acc.not_eof (by simp [finish1, hst, fail]))
  | cons a t' =>
    refine ⟨a, t', rfl, ?_⟩
    cases hv : Spec.Rfc8259.hexVal a with
    | some _ => rfl
    | none =>
      exfalso
      refine Acc.not_dead ?_ h
      rw [feedChar_string cfg s a hst he]
      cases hs : s.ss <;> simp [hexState, hs] at hss <;> simp [stepString, hs, hexStep, hexStep2, hexVal_eq, hv, fail]

theorem hex4_of_vals (a b c d : Nat) (r : Bytes) (ha : (Spec.Rfc8259.hexVal a).isSome = true) (hb : (Spec.Rfc8259.hexVal b).isSome = true)
    (hc : (Spec.Rfc8259.hexVal c).isSome = true) (hd : (Spec.Rfc8259.hexVal d).isSome = true) :
    ∃ u, hex4 [a, b, c, d] = some (u, []) ∧ hex4 (a :: b :: c :: d :: r) = some (u, r) := by
  obtain ⟨va, ha'⟩ := Option.isSome_iff_exists.1 ha
  obtain ⟨vb, hb'⟩ := Option.isSome_iff_exists.1 hb
  obtain ⟨vc, hc'⟩ := Option.isSome_iff_exists.1 hc
  obtain ⟨vd, hd'⟩ := Option.isSome_iff_exists.1 hd
  exact ⟨((va * 16 + vb) * 16 + vc) * 16 + vd, by simp [hex4, ha', hb', hc', hd'], by simp [hex4, ha', hb', hc', hd']⟩

/-- one step of the string automaton on an accepting run -/
theorem Acc.str_step {cfg : Cfg} {s : St} {c : Nat} {cs : Bytes} (h : Acc cfg s (c :: cs)) (hst : s.st = .string) :
    Acc cfg (stepString s c) cs := by
  have := h.step
  rwa [feedChar_string cfg s c hst h.err_none] at this

def nextHex : SS → SS
  | .u1 => .u2 | .u2 => .u3 | .u3 => .u4 | .u5 => .u6 | .u6 => .u7 | .u7 => .u8 | x => x

/-- a hex digit that is not the last of its escape -/
theorem hex_inv2 (cfg : Cfg) (s : St) (hst : s.st = .string)
    (hss : s.ss = .u1 ∨ s.ss = .u2 ∨ s.ss = .u3 ∨ s.ss = .u5 ∨ s.ss = .u6 ∨ s.ss = .u7) (t : Bytes) (h : Acc cfg s t) :
    ∃ a t' s', t = a :: t' ∧ (Spec.Rfc8259.hexVal a).isSome = true ∧ Acc cfg s' t' ∧ s'.st = .string ∧ s'.ss = nextHex s.ss := by
  obtain ⟨a, t1, rfl, ha⟩ := hex_inv cfg s hst (by rcases hss with e | e | e | e | e | e <;> rw [e] <;> rfl) t h
  obtain ⟨va, hva⟩ := Option.isSome_iff_exists.1 ha
  refine ⟨a, t1, stepString s a, rfl, ha, h.str_step hst, ?_, ?_⟩ <;>
    rcases hss with e | e | e | e | e | e <;> simp [stepString, e, hexStep, hexStep2, hexVal_eq, hva, hst, nextHex]

/-- four hex digits -/
theorem hex4_inv (cfg : Cfg) (s : St) (hst : s.st = .string) (hss : s.ss = .u1 ∨ s.ss = .u5) (t : Bytes) (h : Acc cfg s t) :
    ∃ a b c d t' u, t = a :: b :: c :: d :: t' ∧ hex4 [a, b, c, d] = some (u, []) ∧ hex4 t = some (u, t') := by
  obtain ⟨a, t1, s1, rfl, ha, h1, hst1, hss1⟩ := hex_inv2 cfg s hst (by rcases hss with e | e <;> simp [e]) t h
  have hss1' : s1.ss = .u2 ∨ s1.ss = .u6 := by rcases hss with e | e <;> simp [hss1, e, nextHex]
  obtain ⟨b, t2, s2, rfl, hb, h2, hst2, hss2⟩ := hex_inv2 cfg s1 hst1 (by rcases hss1' with e | e <;> simp [e]) t1 h1
  have hss2' : s2.ss = .u3 ∨ s2.ss = .u7 := by rcases hss1' with e | e <;> simp [hss2, e, nextHex]
  obtain ⟨c, t3, s3, rfl, hc, h3, hst3, hss3⟩ := hex_inv2 cfg s2 hst2 (by rcases hss2' with e | e <;> simp [e]) t2 h2
  have hss3' : s3.ss = .u4 ∨ s3.ss = .u8 := by rcases hss2' with e | e <;> simp [hss3, e, nextHex]
  obtain ⟨d, t4, rfl, hd⟩ := hex_inv cfg s3 hst3 (by rcases hss3' with e | e <;> rw [e] <;> rfl) t3 h3
  obtain ⟨u, e1, e2⟩ := hex4_of_vals a b c d t4 ha hb hc hd
  exact ⟨a, b, c, d, t4, u, rfl, e1, e2⟩

/-- after a high-surrogate escape: `\u` -/
theorem pair_inv (cfg : Cfg) (s : St) (hst : s.st = .string) (hss : s.ss = .pair1) (t : Bytes) (h : Acc cfg s t) :
    ∃ r2, t = 92 :: 117 :: r2 ∧ Acc cfg { s with cp2 := 0, ss := .u5 } r2 := by
  cases t with
  | nil => exact absurd h (Acc.not_eof (by simp [finish1, hst, fail]))
  | cons c t1 =>
    have h1 := h.str_step hst
    by_cases h92 : c = 92
    · subst h92
      have e1 : stepString s 92 = { s with cp2 := 0, ss := .pair2 } := by simp [stepString, hss]
      rw [e1] at h1
      cases t1 with
      | nil => exact absurd h1 (Acc.not_eof (by simp [finish1, hst, fail]))
      | cons e t2 =>
        have h2 := h1.str_step (by simp [hst])
        by_cases h117 : e = 117
        · subst h117
          have e2 : stepString { s with cp2 := 0, ss := .pair2 } 117 = { s with cp2 := 0, ss := .u5 } := by simp [stepString]
          rw [e2] at h2
          exact ⟨t2, rfl, h2⟩
        · exact absurd h2.err_none (by simp [stepString, h117, fail])
    · exact absurd h1.err_none (by simp [stepString, hss, h92, fail])

theorem parseChars_u (fuel : Nat) (r : Bytes) : parseChars (fuel + 1) (92 :: 117 :: r) =
    match hex4 r with
    | none => none
    | some (u, r1) =>
      if 0xD800 ≤ u ∧ u ≤ 0xDBFF then
        match r1 with
        | 92 :: 117 :: r2 =>
          match hex4 r2 with
          | none => none
          | some (lo, r3) =>
            if 0xDC00 ≤ lo ∧ lo ≤ 0xDFFF then
              (parseChars fuel r3).map fun p => (utf8Encode (0x10000 + (u - 0xD800) * 1024 + (lo - 0xDC00)) ++ p.1, p.2)
            else none
        | _ => none
      else if 0xDC00 ≤ u ∧ u ≤ 0xDFFF then none
      else (parseChars fuel r1).map fun p => (utf8Encode u ++ p.1, p.2) := by
  simp [parseChars]; rfl

/-- the characters of a string up to the closing quote, on an accepting run over a text without surrogate anomalies -/
theorem chars_inv (cfg : Cfg) : ∀ (fuel : Nat) (cs : Bytes) (s : St), cs.length < fuel → s.st = .string → s.ss = .text →
    surrogateOK cs = true → Acc cfg s cs →
    ∃ b rest, parseChars fuel cs = some (b, rest) ∧ validate (s.buf ++ b) = none ∧ surrogateOK rest = true ∧
      rest.length < cs.length
  | 0, _, _, hl, _, _, _, _ => by omega
  | fuel + 1, [], s, _, hst, _, _, h => absurd h (Acc.not_eof (by simp [finish1, hst, fail]))
  | fuel + 1, c :: cs, s, hl, hst, hss, hok, h => by
    have he := h.err_none
    have h1 := h.str_step hst
    by_cases h34 : c = 34
    · subst h34
      rw [stepString_quote s hss] at h1
      cases hv : validate s.buf with
      | some code => exact absurd h1.err_none (by simp [endString, hv, fail])
      | none => exact ⟨[], cs, by simp [parseChars], by simpa using hv, sOK_cons 34 cs (by decide) hok, by simp⟩
    by_cases h32 : c < 32
    · exact absurd h1.err_none (by
        have := stepString_ctl s c hss h32
        intro e; rw [e] at this; cases this)
    by_cases h92 : c = 92
    · subst h92
      rw [stepString_backslash s hss] at h1
      cases cs with
      | nil => exact absurd h1 (Acc.not_eof (by simp [finish1, hst, fail]))
      | cons e r =>
        have h2 := h1.str_step (by simp [hst])
        cases hse : simpleEsc e with
        | some bb =>
          rw [stepString_simple_esc _ e bb rfl hse] at h2
          have he117 : e ≠ 117 := by intro e'; subst e'; simp [simpleEsc] at hse
          obtain ⟨b, rest, e1, e2, e3, e4⟩ := chars_inv cfg fuel r { s with ss := .text, noesc := false, buf := s.buf ++ [bb] }
            (by simp at hl; omega) hst rfl (sOK_esc e r he117 hok) h2
          exact ⟨bb :: b, rest, by rw [parseChars_simple_esc fuel e bb r hse, e1]; rfl, by simpa using e2, e3,
            by simp only [List.length_cons]; omega⟩
        | none =>
          by_cases h117 : e = 117
          · subst h117
            have hsU : stepString { s with ss := .escape, noesc := false } 117 = { s with ss := .u1, noesc := false, cp := 0 } := by
              simp [stepString]
            rw [hsU] at h2
            obtain ⟨a, b', c', d, r1, u, rfl, hx4, hxr⟩ := hex4_inv cfg _ (by simp [hst]) (Or.inl rfl) r h2
            obtain ⟨hnlo, hscal⟩ := sOK_u a b' c' d u r1 hx4 hok
            have hnlo' : ¬ (0xDC00 ≤ u ∧ u ≤ 0xDFFF) := by
              simp only [isLo, Bool.and_eq_false_iff, decide_eq_false_iff_not] at hnlo; omega
            by_cases hhi : isHi u = true
            · have hhi' : 0xD800 ≤ u ∧ u ≤ 0xDBFF := by simpa [isHi] using hhi
              -- the state after the high half
              have hP : Acc cfg { s with ss := .pair1, noesc := false, cp := u } r1 := by
                have h3 := h1
                unfold Acc at h3 ⊢
                have hsplit : (117 :: a :: b' :: c' :: d :: r1) = [117] ++ ([a, b', c', d] ++ r1) := rfl
                rw [hsplit, feed_append, feed_append, feed_escape_u cfg _ (by simp [hst]) rfl (by simp [he]),
                  feed_u4 cfg _ a b' c' d u (by simp [hst]) rfl (by simp [he]) hx4] at h3
                simpa [hhi'] using h3
              obtain ⟨r2, rfl, hQ⟩ := pair_inv cfg _ (by simp [hst]) rfl r1 hP
              obtain ⟨a2, b2, c2, d2, r3, lo, rfl, hy4, hyr⟩ := hex4_inv cfg _ (by simp [hst]) (Or.inr rfl) r2 hQ
              obtain ⟨hlo, hok3⟩ := sOK_pair a b' c' d u a2 b2 c2 d2 lo r3 hx4 hhi hy4 hok
              have hlo' : 0xDC00 ≤ lo ∧ lo ≤ 0xDFFF := by simpa [isLo] using hlo
              have hA : Acc cfg { s with ss := .text, noesc := false, cp := u, cp2 := lo, buf := s.buf ++ utf8Encode (0x10000 + (u - 0xD800) * 1024 + (lo - 0xDC00)) } r3 := by
                have h3 := h1
                unfold Acc at h3 ⊢
                have hsplit : (117 :: a :: b' :: c' :: d :: 92 :: 117 :: a2 :: b2 :: c2 :: d2 :: r3) =
                    [117, a, b', c', d, 92, 117, a2, b2, c2, d2] ++ r3 := rfl
                rw [hsplit, feed_append,
                  escape_u_pair cfg _ a b' c' d a2 b2 c2 d2 u lo (by simp [hst]) rfl (by simp [he]) hx4 hy4 hhi' hlo'] at h3
                exact h3
              obtain ⟨b, rest, e1, e2, e3, e4⟩ := chars_inv cfg fuel r3 _ (by simp at hl; omega) (by simpa using hst) rfl hok3 hA
              refine ⟨utf8Encode (0x10000 + (u - 0xD800) * 1024 + (lo - 0xDC00)) ++ b, rest, ?_, by simpa using e2, e3,
                by simp only [List.length_cons]; omega⟩
              rw [parseChars_u, hxr]
              simp only [hhi', and_self, if_true, hyr, hlo', e1, Option.map_some]
            · have hhi' : ¬ (0xD800 ≤ u ∧ u ≤ 0xDBFF) := by
                simp only [isHi, Bool.and_eq_true, decide_eq_true_eq] at hhi; exact hhi
              have hu : u < 0xD800 ∨ 0xE000 ≤ u := by omega
              have hA : Acc cfg { s with ss := .text, noesc := false, cp := u, buf := s.buf ++ utf8Encode u } r1 := by
                have h3 := h1
                unfold Acc at h3 ⊢
                have hsplit : (117 :: a :: b' :: c' :: d :: r1) = [117, a, b', c', d] ++ r1 := rfl
                rw [hsplit, feed_append, escape_u_scalar cfg _ a b' c' d u (by simp [hst]) rfl (by simp [he]) hx4 hu] at h3
                exact h3
              obtain ⟨b, rest, e1, e2, e3, e4⟩ := chars_inv cfg fuel r1 _ (by simp at hl; omega) (by simpa using hst) rfl
                (hscal (by simpa using hhi)) hA
              refine ⟨utf8Encode u ++ b, rest, ?_, by simpa using e2, e3, by simp only [List.length_cons]; omega⟩
              rw [parseChars_u, hxr]
              simp only [hhi', hnlo', if_false, e1, Option.map_some]
          · exact absurd h2.err_none (by rw [stepString_bad_esc _ e rfl hse h117]; simp [fail])
    · rw [stepString_plain s c hss h34 h32 h92] at h1
      obtain ⟨b, rest, e1, e2, e3, e4⟩ := chars_inv cfg fuel cs { s with buf := s.buf ++ [c] } (by simp at hl; omega)
        hst hss (sOK_cons c cs h92 hok) h1
      refine ⟨c :: b, rest, ?_, by simpa using e2, e3, by simp only [List.length_cons]; omega⟩
      simp [parseChars, h34, h32, h92, e1]

/-- a whole string from its opening quote, given the state the opening quote leads to -/
theorem string_inv (cfg : Cfg) (s : St) (hst : s.st = .string) (hss : s.ss = .text) (hbuf : s.buf = []) (cs : Bytes)
    (hok : surrogateOK cs = true) (h : Acc cfg s cs) :
    ∃ b rest, parseString (34 :: cs) = some (b, rest) ∧ surrogateOK rest = true ∧ rest.length < cs.length := by
  obtain ⟨b, rest, e1, e2, e3, e4⟩ := chars_inv cfg (cs.length + 1) cs s (Nat.lt_succ_self _) hst hss hok h
  have hv : validUtf8 b = true := (validate_iff b).1 (by simpa [hbuf] using e2)
  exact ⟨b, rest, by simp [parseString, e1, hv], e3, e4⟩

end JsonParser
end Model
end JV
