/-
  JV.Proofs.JsonParserSoundCtx — first layer of the SOUNDNESS proof for whole documents ("whatever the parser model accepts, the
  RFC 8259 reference reads as a value"): inversion lemmas for the single cells of the state machine in an arbitrary nesting
  context. Each says: if the machine, started in state `s` on the remaining input `a`, goes on to accept, then `a` begins the way
  the grammar demands at this point (every other character, and the end of the input, lead to an error code).
-/
import JV.Proofs.JsonParserSoundScalar
namespace JV
namespace Model
namespace JsonParser
open Spec.Rfc8259 (JT Flags parseValue parseText skipWs startsWith isWs hex4)

/-- the machine, started in `s` on the remaining input `a`, accepts -/
def Acc (cfg : Cfg) (s : St) (a : Bytes) : Prop := accepted (finish (feed cfg s a)) = true

theorem Acc.err_none {cfg : Cfg} {s : St} {a : Bytes} (h : Acc cfg s a) : s.err = none := by
  cases he : s.err with
  | none => rfl
  | some e => unfold Acc at h; rw [dead cfg s a (by simp [he])] at h; cases h

theorem Acc.step {cfg : Cfg} {s : St} {c : Nat} {cs : Bytes} (h : Acc cfg s (c :: cs)) : Acc cfg (feedChar cfg s c) cs := h

theorem Acc.not_eof {cfg : Cfg} {s : St} (h1 : (finish1 s).err.isSome = true) : ¬ Acc cfg s [] := by
  intro h
  have he := h.err_none
  unfold Acc at h
  rw [feed_nil, finish_eof_fail s he h1] at h; cases h

theorem Acc.not_dead {cfg : Cfg} {s : St} {c : Nat} {cs : Bytes} (h1 : (feedChar cfg s c).err.isSome = true) : ¬ Acc cfg s (c :: cs) := by
  intro h
  have := h.step.err_none
  rw [this] at h1; cases h1

theorem Acc.ws {cfg : Cfg} {s : St} {a : Bytes} (h : Acc cfg s a) (hs : wsState s.st = true) : Acc cfg s (dropWs a) := by
  have he := h.err_none
  unfold Acc at *
  rw [← feed_dropWs cfg s hs he a]; exact h

theorem Acc.of_reach {cfg : Cfg} {s0 s1 : St} {a b : Bytes} {evs : List Ev} (h : Acc cfg s0 a) (R : Reach cfg s0 a s1 b evs) :
    Acc cfg s1 b := by
  unfold Acc at *
  rw [← R.1]; exact h

/-! ### a `/` where white space may stand (comments off) -/

theorem slash_dead (cfg : Cfg) (hcm : cfg.comments = false) (s : St) (hs : wsState s.st = true) (r : Bytes) :
    ¬ Acc cfg s (47 :: r) := by
  intro h
  have he := h.err_none
  have h0 : feedChar cfg s 47 = { (push s s.st) with st := .slash } := by
    cases hst : s.st <;> simp [wsState, hst] at hs <;> simp [feedChar, he, stepChar, hst, isCtl, spaceOrSlash]
  have h1 := h.step
  rw [h0] at h1
  cases r with
  | nil => exact Acc.not_eof (by simp [finish1, fail]) h1
  | cons d ds =>
    refine Acc.not_dead ?_ h1
    simp only [feedChar, stepChar, hcm]
    by_cases h42 : d = 42
    · simp [h42, fail, push, he]
    · by_cases h47 : d = 47 <;> simp [h42, h47, fail, push, he]

/-- a character that is not white space, in a state that skips white space -/
theorem spaceOrSlash_none (s : St) (c : Nat) (hw : isWs c = false) (h47 : c ≠ 47) : spaceOrSlash s c = none := by
  have hnw : ¬ (c = 32 ∨ c = 9 ∨ c = 10 ∨ c = 13) := fun hh => by
    have := (isWs_iff c).2 hh; rw [hw] at this; cases this
  unfold spaceOrSlash
  have e1 : ¬ (c = 32 ∨ c = 9 ∨ c = 10) := fun e => hnw (by omega)
  have e2 : c ≠ 13 := fun e => hnw (by omega)
  simp [e1, e2, h47]

/-! ### where a value must start -/

theorem valueStart_some (cfg : Cfg) (s s' : St) (c : Nat) (h : valueStart cfg s c = some s') :
    c = 123 ∨ c = 91 ∨ c = 34 ∨ c = 116 ∨ c = 102 ∨ c = 110 ∨ ∃ ns0, numStart c = some ns0 := by
  unfold valueStart at h
  unfold numStart
  by_cases h1 : c = 123; · exact Or.inl h1
  by_cases h2 : c = 91; · exact Or.inr (Or.inl h2)
  by_cases h3 : c = 34; · exact Or.inr (Or.inr (Or.inl h3))
  by_cases h4 : c = 116; · exact Or.inr (Or.inr (Or.inr (Or.inl h4)))
  by_cases h5 : c = 102; · exact Or.inr (Or.inr (Or.inr (Or.inr (Or.inl h5))))
  by_cases h6 : c = 110; · exact Or.inr (Or.inr (Or.inr (Or.inr (Or.inr (Or.inl h6)))))
  refine Or.inr (Or.inr (Or.inr (Or.inr (Or.inr (Or.inr ?_)))))
  by_cases h7 : c = 45; · exact ⟨.minus, by simp [h7]⟩
  by_cases h8 : c = 48; · exact ⟨.zero, by simp [h8]⟩
  by_cases h9 : 49 ≤ c ∧ c ≤ 57; · exact ⟨.integer, by simp [h7, h8, h9]⟩
  simp [h1, h2, h3, h4, h5, h6, h7, h8, h9] at h

/-- in a state in which a value may start, the next character after the white space starts a value (or is a `]` directly inside
    an array: the closing bracket of an empty array or, with `allow_trailing_comma`, after a comma) -/
theorem value_head (cfg : Cfg) (hcm : cfg.comments = false) (s0 : St)
    (hv : vState s0.st = true) (c : Nat) (cs : Bytes) (hw : isWs c = false)
    (hne : ¬ (c = 93 ∧ parent s0 = .array)) (h : Acc cfg s0 (c :: cs)) :
    c = 123 ∨ c = 91 ∨ c = 34 ∨ c = 116 ∨ c = 102 ∨ c = 110 ∨ ∃ ns0, numStart c = some ns0 := by
  have he := h.err_none
  cases hvs : valueStart cfg s0 c with
  | some s' => exact valueStart_some cfg s0 s' c hvs
  | none =>
    exfalso
    by_cases h47 : c = 47
    · subst h47; exact slash_dead cfg hcm s0 (vState_ws hv) cs h
    · have hsp := spaceOrSlash_none s0 c hw h47
      refine Acc.not_dead ?_ h
      have hcons : (stepChar cfg s0 c).2 = true := by
        apply stepChar_consumed <;> (intro hh; simp [hh, vState] at hv)
      rw [feedChar_of_consumed cfg s0 c he hcons]
      cases hst : s0.st <;> simp [vState, hst] at hv
      · simp only [stepChar, hst, hsp, hvs, fail]
        (repeat' split) <;> (first | contradiction | simp)
      · by_cases h93 : c = 93
        · subst h93
          have hp : ¬ parent s0 = .array := fun e => hne ⟨rfl, e⟩
          simp only [stepChar, hst, hsp, hvs, endArray]
          (repeat' split) <;> (first | contradiction | simp [fail])
        · simp only [stepChar, hst, hsp, hvs, fail, h93]
          (repeat' split) <;> (first | contradiction | simp)
      · by_cases h93 : c = 93
        · subst h93
          have hp : ¬ parent s0 = .array := fun e => hne ⟨rfl, e⟩
          simp [stepChar, hst, hsp, hvs, fail, hp, isCtl]
        · simp only [stepChar, hst, hsp, hvs, fail, h93]
          (repeat' split) <;> (first | contradiction | simp)

/-- the end of the input where a value must start -/
theorem value_not_eof (cfg : Cfg) (s0 : St) (hv : vState s0.st = true) : ¬ Acc cfg s0 [] := by
  apply Acc.not_eof
  cases hst : s0.st <;> simp [vState, hst] at hv <;> simp [finish1, hst, fail]

/-! ### the three literals, in any context -/

theorem true_inv (cfg : Cfg) (s0 : St) (hv : vState s0.st = true) (cs : Bytes) (h : Acc cfg s0 (116 :: cs)) :
    ∃ r, cs = 114 :: 117 :: 101 :: r := by
  have he := h.err_none
  have h0 : feedChar cfg s0 116 = { s0 with st := .t } := feedChar_value cfg s0 _ 116 hv he (by simp [valueStart])
  have g0 := h.step
  rw [h0] at g0
  obtain ⟨r1, rfl, g1⟩ := expect_char_sound cfg { s0 with st := .t } { s0 with st := .tr } 114 he
    (by simp [feedChar, stepChar, lit, he]) (by intro c hc; simp [feedChar, stepChar, lit, he, hc, fail])
    (by simp [finish1, fail]) cs g0
  obtain ⟨r2, rfl, g2⟩ := expect_char_sound cfg { s0 with st := .tr } { s0 with st := .tru } 117 he
    (by simp [feedChar, stepChar, lit, he]) (by intro c hc; simp [feedChar, stepChar, lit, he, hc, fail])
    (by simp [finish1, fail]) r1 g1
  obtain ⟨r3, rfl, _⟩ := expect_char_sound cfg { s0 with st := .tru } (afterLiteral (emit { s0 with st := .tru } (.bool true))) 101 he
    (by simp [feedChar, stepChar, he]) (by intro c hc; simp [feedChar, stepChar, he, hc, fail])
    (by simp [finish1, fail]) r2 g2
  exact ⟨r3, rfl⟩

theorem false_inv (cfg : Cfg) (s0 : St) (hv : vState s0.st = true) (cs : Bytes) (h : Acc cfg s0 (102 :: cs)) :
    ∃ r, cs = 97 :: 108 :: 115 :: 101 :: r := by
  have he := h.err_none
  have h0 : feedChar cfg s0 102 = { s0 with st := .f } := feedChar_value cfg s0 _ 102 hv he (by simp [valueStart])
  have g0 := h.step
  rw [h0] at g0
  obtain ⟨r1, rfl, g1⟩ := expect_char_sound cfg { s0 with st := .f } { s0 with st := .fa } 97 he
    (by simp [feedChar, stepChar, lit, he]) (by intro c hc; simp [feedChar, stepChar, lit, he, hc, fail])
    (by simp [finish1, fail]) cs g0
  obtain ⟨r2, rfl, g2⟩ := expect_char_sound cfg { s0 with st := .fa } { s0 with st := .fal } 108 he
    (by simp [feedChar, stepChar, lit, he]) (by intro c hc; simp [feedChar, stepChar, lit, he, hc, fail])
    (by simp [finish1, fail]) r1 g1
  obtain ⟨r3, rfl, g3⟩ := expect_char_sound cfg { s0 with st := .fal } { s0 with st := .fals } 115 he
    (by simp [feedChar, stepChar, lit, he]) (by intro c hc; simp [feedChar, stepChar, lit, he, hc, fail])
    (by simp [finish1, fail]) r2 g2
  obtain ⟨r4, rfl, _⟩ := expect_char_sound cfg { s0 with st := .fals } (afterLiteral (emit { s0 with st := .fals } (.bool false))) 101 he
    (by simp [feedChar, stepChar, he]) (by intro c hc; simp [feedChar, stepChar, he, hc, fail])
    (by simp [finish1, fail]) r3 g3
  exact ⟨r4, rfl⟩

theorem null_inv (cfg : Cfg) (s0 : St) (hv : vState s0.st = true) (cs : Bytes) (h : Acc cfg s0 (110 :: cs)) :
    ∃ r, cs = 117 :: 108 :: 108 :: r := by
  have he := h.err_none
  have h0 : feedChar cfg s0 110 = { s0 with st := .n } := feedChar_value cfg s0 _ 110 hv he (by simp [valueStart])
  have g0 := h.step
  rw [h0] at g0
  obtain ⟨r1, rfl, g1⟩ := expect_char_sound cfg { s0 with st := .n } { s0 with st := .nu } 117 he
    (by simp [feedChar, stepChar, lit, he]) (by intro c hc; simp [feedChar, stepChar, lit, he, hc, fail])
    (by simp [finish1, fail]) cs g0
  obtain ⟨r2, rfl, g2⟩ := expect_char_sound cfg { s0 with st := .nu } { s0 with st := .nul } 108 he
    (by simp [feedChar, stepChar, lit, he]) (by intro c hc; simp [feedChar, stepChar, lit, he, hc, fail])
    (by simp [finish1, fail]) r1 g1
  obtain ⟨r3, rfl, _⟩ := expect_char_sound cfg { s0 with st := .nul } (afterLiteral (emit { s0 with st := .nul } .null)) 108 he
    (by simp [feedChar, stepChar, he]) (by intro c hc; simp [feedChar, stepChar, he, hc, fail])
    (by simp [finish1, fail]) r2 g2
  exact ⟨r3, rfl⟩

/-! ### a number, in any context -/

theorem numNext_no92 (ns ns' : NS) (c : Nat) (h : numNext ns c = some ns') : c ≠ 92 := by
  intro e; subst e
  cases ns <;> simp [numNext, isDigit, isExp] at h

theorem numRun_no92 : ∀ (pre : Bytes) (ns f : NS), numRun ns pre = some f → ∀ x ∈ pre, x ≠ 92
  | [], _, _, _ => by intro x hx; cases hx
  | c :: cs, ns, f, h => by
    simp only [numRun] at h
    cases hn : numNext ns c with
    | none => simp [hn] at h
    | some ns' =>
      simp only [hn] at h
      intro x hx
      rcases List.mem_cons.1 hx with rfl | hx
      · exact numNext_no92 ns ns' _ hn
      · exact numRun_no92 cs ns' f h x hx

theorem numStart_no92 (c : Nat) (ns0 : NS) (h : numStart c = some ns0) : c ≠ 92 := by
  intro e; subst e; simp [numStart] at h

/-- where a value may start, a character that starts a number is followed by the rest of an RFC 8259 number, and what follows the
    literal is not a digit -/
theorem number_inv (cfg : Cfg) {stk : List PS} {n : Nat} (_hctx : Ctx stk n) (s0 : St) (hvs : vState s0.st = true)
    (hstk : s0.stack = stk) (c : Nat) (cs : Bytes) (ns0 : NS) (hs : numStart c = some ns0) (h : Acc cfg s0 (c :: cs)) :
    ∃ lit r, Spec.Rfc8259.parseNumber (c :: cs) = some (lit, r) ∧ NoDigitHead r ∧ c :: cs = lit ++ r ∧ lit ≠ [] ∧
      ∀ x ∈ lit, x ≠ 92 := by
  have he0 := h.err_none
  unfold Acc at h
  have hv : valueStart cfg s0 c = some { s0 with st := .number, ns := ns0, buf := [c] } := by
    unfold numStart at hs
    unfold valueStart
    (repeat' split at hs) <;> cases hs
    · rename_i h1; subst h1; simp
    · rename_i h1 h2; subst h2; simp
    · rename_i h1 h2 h3
      have e1 : c ≠ 123 := by omega
      have e2 : c ≠ 91 := by omega
      have e3 : c ≠ 34 := by omega
      simp [e1, e2, e3, h1, h2, h3]
  cases hsc : numScan ns0 cs with
  | mk f r =>
    obtain ⟨pre, e1, e2, e3⟩ := numScan_spec cs ns0 f r hsc
    obtain ⟨sE, hfeed, hst, herr, hns, hstk'⟩ : ∃ sE : St, feed cfg s0 (c :: cs) = feed cfg sE r ∧ sE.st = .number ∧
        sE.err = none ∧ sE.ns = f ∧ sE.stack = stk := by
      refine ⟨{ s0 with st := .number, ns := f, buf := [c] ++ pre }, ?_, rfl, he0, rfl, hstk⟩
      rw [feed_cons, feedChar_value cfg s0 _ c hvs he0 hv, e1, feed_append]
      rw [feed_number cfg pre { s0 with st := .number, ns := ns0, buf := [c] } f rfl he0 e2]
    rw [hfeed] at h
    by_cases hf : numFinal f = true
    · have hrest : specRest (c :: cs) = some r := by
        rw [← ok_start c cs ns0 hs, hsc]; simp [scanOK, hf]
      rw [← parseNumber_rest] at hrest
      cases hp : Spec.Rfc8259.parseNumber (c :: cs) with
      | none => rw [hp] at hrest; simp at hrest
      | some p =>
        obtain ⟨lit, r'⟩ := p
        have : r' = r := by rw [hp] at hrest; simpa using hrest
        subst this
        have hsplit := parseNumber_split _ _ _ hp
        have hlit : lit = c :: pre := by
          have h2 := hsplit
          rw [e1, ← List.cons_append] at h2
          exact (List.append_cancel_right h2).symm
        refine ⟨lit, r', rfl, ?_, hsplit, by rw [hlit]; simp, ?_⟩
        · intro d r'' e
          rcases numFinal_next f d hf (e3 d r'' e) with ⟨hz, hd⟩ | hd
          · subst e
            have hstep : stepChar cfg sE d = (fail sE eLeadingZero, true) := by
              simp only [stepChar, hst]; exact stepNumber_leading_zero sE d (hns.trans hz) hd
            have := feedChar_of_consumed cfg sE d herr (by rw [hstep])
            rw [feed_cons, this, hstep, dead cfg _ r'' (by simp [fail])] at h
            cases h
          · exact hd
        · rw [hlit]
          intro x hx
          rcases List.mem_cons.1 hx with rfl | hx
          · exact numStart_no92 _ ns0 hs
          · exact numRun_no92 pre ns0 f e2 x hx
    · have hf' : numFinal f = false := by simpa using hf
      exfalso
      cases r with
      | nil =>
        have : (finish1 sE).err.isSome = true := by
          cases f <;> simp [numFinal] at hf' <;> simp [finish1, hst, hns, fail]
        rw [feed_nil, finish_eof_fail _ herr this] at h
        cases h
      | cons d r'' =>
        have hstep : stepChar cfg sE d = (fail sE eInvalidNumber, true) := by
          simp only [stepChar, hst]; exact stepNumber_nonfinal sE d (by rw [hns]; exact hf') (by rw [hns]; exact e3 d r'' rfl)
        have := feedChar_of_consumed cfg sE d herr (by rw [hstep])
        rw [feed_cons, this, hstep, dead cfg _ r'' (by simp [fail])] at h
        cases h

/-! ### the structural characters -/

/-- a container that would exceed the nesting limit -/
theorem depth_inv (cfg : Cfg) (s0 : St) (hv : vState s0.st = true) (c : Nat) (hc : c = 91 ∨ c = 123) (cs : Bytes)
    (h : Acc cfg s0 (c :: cs)) : ¬ s0.level + 1 > cfg.maxDepth := by
  intro hd
  have he := h.err_none
  refine Acc.not_dead ?_ h
  rcases hc with rfl | rfl
  · rw [feedChar_value cfg s0 (beginArray cfg s0) 91 hv he (by simp [valueStart])]
    simp [beginArray, hd, fail]
  · rw [feedChar_value cfg s0 (beginObject cfg s0) 123 hv he (by simp [valueStart])]
    simp [beginObject, hd, fail]

/-- after an element of an array: `,` or `]` -/
theorem after_elem_inv (cfg : Cfg) (hcm : cfg.comments = false) (s : St) (stk : List PS) (hs : s.st = .expectCommaOrEnd)
    (hstk : s.stack = .array :: stk) (t : Bytes) (ht : ∀ c r, t = c :: r → isWs c = false) (h : Acc cfg s t) :
    (∃ r, t = 93 :: r) ∨ (∃ r, t = 44 :: r) := by
  have he := h.err_none
  cases t with
  | nil => exact absurd h (Acc.not_eof (by simp [finish1, hs, fail]))
  | cons c r =>
    by_cases h93 : c = 93; · exact Or.inl ⟨r, by rw [h93]⟩
    by_cases h44 : c = 44; · exact Or.inr ⟨r, by rw [h44]⟩
    exfalso
    by_cases h47 : c = 47
    · subst h47; exact slash_dead cfg hcm s (by rw [hs]; rfl) r h
    · have hsp := spaceOrSlash_none s c (ht c r rfl) h47
      refine Acc.not_dead ?_ h
      have hcons : (stepChar cfg s c).2 = true := by
        apply stepChar_consumed <;> simp [hs]
      rw [feedChar_of_consumed cfg s c he hcons]
      simp only [stepChar, hs, hsp, h93, h44, parent, hstk, endObject, fail, popTo]
      (repeat' split) <;> (first | contradiction | simp)

/-- after a member of an object: `,` or `}` -/
theorem after_member_inv (cfg : Cfg) (hcm : cfg.comments = false) (s : St) (stk : List PS) (hs : s.st = .expectCommaOrEnd)
    (hstk : s.stack = .object :: stk) (t : Bytes) (ht : ∀ c r, t = c :: r → isWs c = false) (h : Acc cfg s t) :
    (∃ r, t = 125 :: r) ∨ (∃ r, t = 44 :: r) := by
  have he := h.err_none
  cases t with
  | nil => exact absurd h (Acc.not_eof (by simp [finish1, hs, fail]))
  | cons c r =>
    by_cases h125 : c = 125; · exact Or.inl ⟨r, by rw [h125]⟩
    by_cases h44 : c = 44; · exact Or.inr ⟨r, by rw [h44]⟩
    exfalso
    by_cases h47 : c = 47
    · subst h47; exact slash_dead cfg hcm s (by rw [hs]; rfl) r h
    · have hsp := spaceOrSlash_none s c (ht c r rfl) h47
      refine Acc.not_dead ?_ h
      have hcons : (stepChar cfg s c).2 = true := by
        apply stepChar_consumed <;> simp [hs]
      rw [feedChar_of_consumed cfg s c he hcons]
      simp only [stepChar, hs, hsp, h125, h44, parent, hstk, endArray, fail, popTo]
      (repeat' split) <;> (first | contradiction | simp)

/-- after a member name: `:` -/
theorem colon_inv (cfg : Cfg) (hcm : cfg.comments = false) (s : St) (hs : s.st = .expectColon)
    (t : Bytes) (ht : ∀ c r, t = c :: r → isWs c = false) (h : Acc cfg s t) : ∃ r, t = 58 :: r := by
  have he := h.err_none
  cases t with
  | nil => exact absurd h (Acc.not_eof (by simp [finish1, hs, fail]))
  | cons c r =>
    by_cases h58 : c = 58; · exact ⟨r, by rw [h58]⟩
    exfalso
    by_cases h47 : c = 47
    · subst h47; exact slash_dead cfg hcm s (by rw [hs]; rfl) r h
    · have hsp := spaceOrSlash_none s c (ht c r rfl) h47
      refine Acc.not_dead ?_ h
      have hcons : (stepChar cfg s c).2 = true := by
        apply stepChar_consumed <;> simp [hs]
      rw [feedChar_of_consumed cfg s c he hcons]
      simp only [stepChar, hs, hsp, h58, fail]
      (repeat' split) <;> (first | contradiction | simp)

/-- where a member name must start: `"` (or `}` right after the opening brace, or after a comma with `allow_trailing_comma`) -/
theorem key_inv (cfg : Cfg) (hcm : cfg.comments = false) (s : St)
    (hs : s.st = .expectMemberNameOrEnd ∨ s.st = .expectMemberName)
    (t : Bytes) (ht : ∀ c r, t = c :: r → isWs c = false) (h : Acc cfg s t) :
    (∃ r, t = 34 :: r) ∨ ((s.st = .expectMemberNameOrEnd ∨ cfg.trailingComma = true) ∧ ∃ r, t = 125 :: r) := by
  have he := h.err_none
  cases t with
  | nil => exact absurd h (Acc.not_eof (by rcases hs with hs | hs <;> simp [finish1, hs, fail]))
  | cons c r =>
    by_cases h34 : c = 34; · exact Or.inl ⟨r, by rw [h34]⟩
    by_cases h47 : c = 47
    · subst h47; exact absurd h (slash_dead cfg hcm s (by rcases hs with hs | hs <;> rw [hs] <;> rfl) r)
    · have hsp := spaceOrSlash_none s c (ht c r rfl) h47
      rcases hs with hs | hs
      · by_cases h125 : c = 125; · exact Or.inr ⟨Or.inl hs, r, by rw [h125]⟩
        exfalso
        refine Acc.not_dead ?_ h
        have hcons : (stepChar cfg s c).2 = true := by
          apply stepChar_consumed <;> simp [hs]
        rw [feedChar_of_consumed cfg s c he hcons]
        simp only [stepChar, hs, hsp, h34, h125, fail]
        (repeat' split) <;> (first | contradiction | simp)
      · by_cases htc : cfg.trailingComma = true
        · by_cases h125 : c = 125; · exact Or.inr ⟨Or.inr htc, r, by rw [h125]⟩
          exfalso
          refine Acc.not_dead ?_ h
          have hcons : (stepChar cfg s c).2 = true := by
            apply stepChar_consumed <;> simp [hs]
          rw [feedChar_of_consumed cfg s c he hcons]
          simp only [stepChar, hs, hsp, h34, h125, fail]
          (repeat' split) <;> (first | contradiction | simp)
        · exfalso
          refine Acc.not_dead ?_ h
          have hcons : (stepChar cfg s c).2 = true := by
            apply stepChar_consumed <;> simp [hs]
          rw [feedChar_of_consumed cfg s c he hcons]
          simp only [stepChar, hs, hsp, h34, htc, fail]
          (repeat' split) <;> (first | contradiction | simp)

end JsonParser
end Model
end JV
