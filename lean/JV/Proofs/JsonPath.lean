/-
  JV.Proofs.JsonPath — every node a query returns is addressed by the path returned with it.
-/
import JV.Model.JsonPath
namespace JV
namespace Model
namespace JsonPath
open Assoc

/-! ### unique keys (the `basic_json` object invariant for both `json` and `ojson`) -/
mutual
  def UK : JVal → Prop
    | .arr xs => UKList xs
    | .obj ms => (keys ms).Nodup ∧ UKMembers ms
    | _ => True
  def UKList : List JVal → Prop
    | [] => True
    | x :: xs => UK x ∧ UKList xs
  def UKMembers : List (Bytes × JVal) → Prop
    | [] => True
    | (_, x) :: ms => UK x ∧ UKMembers ms
end

theorem uk_of_getElem : ∀ {xs : List JVal} {i : Nat} {x : JVal}, UKList xs → xs[i]? = some x → UK x
  | [], _, _, _, h => by simp at h
  | y :: ys, 0, x, hu, h => by
    simp at h; subst h; exact hu.1
  | y :: ys, i + 1, x, hu, h => by
    simp at h; exact uk_of_getElem hu.2 h

theorem uk_of_mem : ∀ {ms : List (Bytes × JVal)} {k : Bytes} {x : JVal}, UKMembers ms → (k, x) ∈ ms → UK x
  | [], _, _, _, h => by simp at h
  | (k', y) :: ms, k, x, hu, h => by
    simp only [List.mem_cons, Prod.mk.injEq] at h
    rcases h with ⟨_, rfl⟩ | h
    · exact hu.1
    · exact uk_of_mem hu.2 h

theorem mem_of_find : ∀ {ms : List (Bytes × JVal)} {k : Bytes} {x : JVal}, find k ms = some x → (k, x) ∈ ms
  | [], _, _, h => by simp [find] at h
  | (k', y) :: ms, k, x, h => by
    simp only [find] at h
    by_cases e : k' = k
    · simp only [e, if_true, Option.some.injEq] at h
      subst h; subst e; simp
    · simp only [e, if_false] at h
      exact List.mem_cons_of_mem _ (mem_of_find h)

theorem find_of_mem_nodup : ∀ {ms : List (Bytes × JVal)} {k : Bytes} {x : JVal}, (keys ms).Nodup → (k, x) ∈ ms → find k ms = some x
  | [], _, _, _, h => by simp at h
  | (k', y) :: ms, k, x, hn, h => by
    simp only [keys, List.map_cons, List.nodup_cons] at hn
    simp only [List.mem_cons, Prod.mk.injEq] at h
    rcases h with ⟨rfl, rfl⟩ | h
    · simp [find]
    · have hk : k ∈ keys ms := List.mem_map.mpr ⟨(k, x), h, rfl⟩
      have : k' ≠ k := fun e => hn.1 (by simpa [keys, e] using hk)
      simp only [find, this, if_false]
      exact find_of_mem_nodup (by simpa [keys] using hn.2) h

theorem child_uk {v c : JVal} {s : Step} (hu : UK v) (h : child v s = some c) : UK c := by
  cases v <;> cases s <;> simp only [child] at h <;> try (exact absurd h (by simp))
  case obj.name ms k => exact uk_of_mem hu.2 (mem_of_find h)
  case arr.idx xs i => exact uk_of_getElem hu h

theorem resolve_append (v : JVal) : ∀ (p : Path) (s : Step), resolve v (p ++ [s]) = (resolve v p).bind (child · s)
  | [], s => by
    simp only [List.nil_append, resolve, Option.bind_some]
    cases h : child v s <;> simp
  | t :: p, s => by
    simp only [List.cons_append, resolve]
    cases h : child v t with
    | none => rfl
    | some c => exact resolve_append c p s

/-- a node whose path resolves, in the document, to exactly its value (and whose value keeps the key invariant) -/
def Good (root : JVal) (nd : Node) : Prop := resolve root nd.1 = some nd.2 ∧ UK nd.2

theorem good_child {root : JVal} {p : Path} {v c : JVal} {s : Step} (hg : Good root (p, v)) (h : child v s = some c) :
    Good root (p ++ [s], c) := by
  refine ⟨?_, child_uk hg.2 h⟩
  show resolve root (p ++ [s]) = some c
  rw [resolve_append, hg.1]; exact h

theorem pickIdx_good {root : JVal} {p : Path} {xs : List JVal} (hg : Good root (p, .arr xs)) (is : List Nat) :
    ∀ nd ∈ pickIdx p xs is, Good root nd := by
  intro nd h
  simp only [pickIdx, List.mem_filterMap] at h
  obtain ⟨i, _, hi⟩ := h
  cases hx : xs[i]? with
  | none => simp [hx] at hi
  | some x =>
    simp only [hx, Option.map_some, Option.some.injEq] at hi
    subst hi
    exact good_child hg (by simpa [child] using hx)

theorem arrChildren_good {root : JVal} {p : Path} {xs : List JVal} (hg : Good root (p, .arr xs)) :
    ∀ nd ∈ arrChildren p xs, Good root nd := pickIdx_good hg _

theorem objChildren_good {root : JVal} {p : Path} {ms : List (Bytes × JVal)} (hg : Good root (p, .obj ms)) :
    ∀ nd ∈ objChildren p ms, Good root nd := by
  intro nd h
  simp only [objChildren, List.mem_map] at h
  obtain ⟨m, hm, rfl⟩ := h
  exact good_child hg (by simpa [child] using find_of_mem_nodup hg.2.1 (by cases m; exact hm))

theorem select1_good {root : JVal} (sel : Sel) {p : Path} {cur : JVal} (hg : Good root (p, cur)) :
    ∀ nd ∈ select1 root sel p cur, Good root nd := by
  intro nd h
  cases sel <;> cases cur <;> simp only [select1, List.not_mem_nil] at h
  case name.obj k ms =>
    cases hf : find k ms with
    | none => simp [hf] at h
    | some x =>
      simp only [hf, List.mem_singleton] at h
      subst h
      exact good_child hg (by simpa [child] using hf)
  case index.arr i xs =>
    split at h
    · exact pickIdx_good hg _ nd h
    · split at h
      · exact pickIdx_good hg _ nd h
      · simp at h
  case wild.arr xs => exact arrChildren_good hg nd h
  case wild.obj ms => exact objChildren_good hg nd h
  case slice.arr s xs => exact pickIdx_good hg _ nd h
  case filter.arr e xs => exact arrChildren_good hg nd (List.mem_filter.mp h).1
  case filter.obj e ms => exact objChildren_good hg nd (List.mem_filter.mp h).1

mutual
  theorem descend_good (root : JVal) : ∀ (p : Path) (v : JVal), Good root (p, v) → ∀ nd ∈ descend p v, Good root nd
    | p, .arr xs, hg, nd, h => by
      simp only [descend, List.mem_cons] at h
      rcases h with rfl | h
      · exact hg
      · refine descendArr_good root p 0 xs ?_ nd h
        intro j x hx
        exact good_child hg (by simpa [child] using hx)
    | p, .obj ms, hg, nd, h => by
      simp only [descend, List.mem_cons] at h
      rcases h with rfl | h
      · exact hg
      · refine descendObj_good root p ms ?_ nd h
        intro k x hm
        exact good_child hg (by simpa [child] using find_of_mem_nodup hg.2.1 hm)
    | _, .null, _, _, h => by simp [descend] at h
    | _, .bool _, _, _, h => by simp [descend] at h
    | _, .int _, _, _, h => by simp [descend] at h
    | _, .str _, _, _, h => by simp [descend] at h
  theorem descendArr_good (root : JVal) : ∀ (p : Path) (i : Nat) (xs : List JVal),
      (∀ j x, xs[j]? = some x → Good root (p ++ [.idx (i + j)], x)) → ∀ nd ∈ descendArr p i xs, Good root nd
    | _, _, [], _, _, h => by simp [descendArr] at h
    | p, i, x :: xs, hall, nd, h => by
      simp only [descendArr, List.mem_append] at h
      rcases h with h | h
      · exact descend_good root _ x (by simpa using hall 0 x (by simp)) nd h
      · refine descendArr_good root p (i + 1) xs ?_ nd h
        intro j y hy
        have := hall (j + 1) y (by simpa using hy)
        simpa [Nat.add_assoc, Nat.add_comm 1 j] using this
  theorem descendObj_good (root : JVal) : ∀ (p : Path) (ms : List (Bytes × JVal)),
      (∀ k x, (k, x) ∈ ms → Good root (p ++ [.name k], x)) → ∀ nd ∈ descendObj p ms, Good root nd
    | _, [], _, _, h => by simp [descendObj] at h
    | p, (k, x) :: ms, hall, nd, h => by
      simp only [descendObj, List.mem_append] at h
      rcases h with h | h
      · exact descend_good root _ x (hall k x (by simp)) nd h
      · exact descendObj_good root p ms (fun k' y hm => hall k' y (List.mem_cons_of_mem _ hm)) nd h
end

theorem evalSegs_good (root : JVal) : ∀ (segs : List Seg) (nd0 : Node), Good root nd0 → ∀ nd ∈ evalSegs root segs nd0, Good root nd
  | [], nd0, hg, nd, h => by
    simp only [evalSegs, List.mem_singleton] at h; subst h; exact hg
  | .child alts :: rest, nd0, hg, nd, h => by
    simp only [evalSegs, List.mem_flatMap] at h
    obtain ⟨a, _, c, hc, hnd⟩ := h
    exact evalSegs_good root rest c (select1_good a (p := nd0.1) (cur := nd0.2) hg c hc) nd hnd
  | .desc alts :: rest, nd0, hg, nd, h => by
    simp only [evalSegs, List.mem_flatMap] at h
    obtain ⟨d, hd, a, _, c, hc, hnd⟩ := h
    have hgd : Good root d := descend_good root nd0.1 nd0.2 hg d hd
    exact evalSegs_good root rest c (select1_good a (p := d.1) (cur := d.2) hgd c hc) nd hnd

end JsonPath
end Model
end JV
