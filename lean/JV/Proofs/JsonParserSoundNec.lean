/-
  JV.Proofs.JsonParserSoundNec — the hypothesis `surrogateOK` of the soundness theorem is NECESSARY: every text the RFC 8259
  reference gives a value is free of the two surrogate anomalies. So the texts on which `run_sound` is silent and the model accepts
  are exactly the texts on which model and reference disagree. Proof: the scan `surrogateOK` commutes with every production of
  the reference (induction on the reference's recursion): `surrogateOK s = surrogateOK rest` whenever a production reads a prefix
  of `s` and leaves `rest`.
-/
import JV.Proofs.JsonParserSound
namespace JV
namespace Model
namespace JsonParser
open Spec.Rfc8259 (JT Flags parseValue parseElems parseMembers parseText parseString parseChars parseNumber skipWs startsWith isWs hex4)

theorem sOK_cons_eq (c : Nat) (cs : Bytes) (hc : c ≠ 92) : surrogateOK (c :: cs) = surrogateOK cs := by
  conv => lhs; unfold surrogateOK
  simp [hc]

theorem sOK_esc_eq (e : Nat) (r : Bytes) (he : e ≠ 117) : surrogateOK (92 :: e :: r) = surrogateOK r := by
  conv => lhs; unfold surrogateOK
  simp [he]

theorem sOK_scalar_eq (a b c d u : Nat) (r1 : Bytes) (hx : hex4 [a, b, c, d] = some (u, []))
    (hlo : isLo u = false) (hhi : isHi u = false) : surrogateOK (92 :: 117 :: a :: b :: c :: d :: r1) = surrogateOK r1 := by
  conv => lhs; unfold surrogateOK
  simp [hx, hlo, hhi]

theorem sOK_pair_eq (a b c d u a2 b2 c2 d2 lo : Nat) (r3 : Bytes) (hx : hex4 [a, b, c, d] = some (u, []))
    (hhi : isHi u = true) (hnlo : isLo u = false) (hy : hex4 [a2, b2, c2, d2] = some (lo, [])) (hlo : isLo lo = true) :
    surrogateOK (92 :: 117 :: a :: b :: c :: d :: 92 :: 117 :: a2 :: b2 :: c2 :: d2 :: r3) = surrogateOK r3 := by
  conv => lhs; unfold surrogateOK
  simp [hx, hhi, hnlo, hy, hlo]

theorem sOK_drop_eq : ∀ (p r : Bytes), (∀ x ∈ p, x ≠ 92) → surrogateOK (p ++ r) = surrogateOK r
  | [], _, _ => rfl
  | c :: p, r, hp => by
    rw [List.cons_append, sOK_cons_eq c (p ++ r) (hp c (List.mem_cons_self))]
    exact sOK_drop_eq p r (fun x hx => hp x (List.mem_cons_of_mem _ hx))

theorem sOK_dropWs_eq : ∀ (s : Bytes), surrogateOK (dropWs s) = surrogateOK s
  | [] => rfl
  | c :: cs => by
    by_cases hw : isWs c = true
    · have e : dropWs (c :: cs) = dropWs cs := by simp [dropWs, hw]
      have h92 : c ≠ 92 := by rcases (isWs_iff c).1 hw with h | h | h | h <;> omega
      rw [e, sOK_cons_eq c cs h92]; exact sOK_dropWs_eq cs
    · have e : dropWs (c :: cs) = c :: cs := by simp [dropWs, hw]
      rw [e]

/-! ### strings -/

theorem parseChars_sOK : ∀ (fuel : Nat) (cs b rest : Bytes), parseChars fuel cs = some (b, rest) → surrogateOK cs = surrogateOK rest
  | 0, _, _, _, h => by simp [parseChars] at h
  | _ + 1, [], _, _, h => by simp [parseChars] at h
  | fuel + 1, c :: cs, b, rest, h => by
    by_cases h34 : c = 34
    · subst h34
      simp only [parseChars, if_true, Option.some.injEq, Prod.mk.injEq] at h
      obtain ⟨_, rfl⟩ := h
      exact sOK_cons_eq 34 cs (by decide)
    by_cases h32 : c < 32
    · simp [parseChars, h34, h32] at h
    by_cases h92 : c = 92
    · subst h92
      cases cs with
      | nil => simp [parseChars] at h
      | cons e r =>
        cases hse : simpleEsc e with
        | some bb =>
          have he117 : e ≠ 117 := by intro e'; subst e'; simp [simpleEsc] at hse
          rw [parseChars_simple_esc fuel e bb r hse] at h
          cases hp : parseChars fuel r with
          | none => simp [hp] at h
          | some p =>
            obtain ⟨p1, p2⟩ := p
            simp only [hp, Option.map_some, Option.some.injEq, Prod.mk.injEq] at h
            obtain ⟨_, rfl⟩ := h
            rw [sOK_esc_eq e r he117]; exact parseChars_sOK fuel r p1 p2 hp
        | none =>
          by_cases h117 : e = 117
          · subst h117
            rw [parseChars_u] at h
            cases hx : hex4 r with
            | none => simp [hx] at h
            | some q =>
              obtain ⟨u, r1⟩ := q
              simp only [hx] at h
              obtain ⟨a, b', c', d, er, hx4⟩ := hex4_split r u r1 hx
              subst er
              by_cases hhi : 0xD800 ≤ u ∧ u ≤ 0xDBFF
              · simp only [hhi, and_self, if_true] at h
                have hhi' : isHi u = true := by simp [isHi, hhi]
                have hnlo : isLo u = false := by
                  simp only [isLo, Bool.and_eq_false_iff, decide_eq_false_iff_not]; omega
                split at h
                · rename_i r2
                  cases hy : hex4 r2 with
                  | none => simp [hy] at h
                  | some q2 =>
                    obtain ⟨lo, r3⟩ := q2
                    simp only [hy] at h
                    obtain ⟨a2, b2, c2, d2, er2, hy4⟩ := hex4_split r2 lo r3 hy
                    subst er2
                    by_cases hlo : 0xDC00 ≤ lo ∧ lo ≤ 0xDFFF
                    · simp only [hlo, and_self, if_true] at h
                      cases hp : parseChars fuel r3 with
                      | none => simp [hp] at h
                      | some p =>
                        obtain ⟨p1, p2⟩ := p
                        simp only [hp, Option.map_some, Option.some.injEq, Prod.mk.injEq] at h
                        obtain ⟨_, rfl⟩ := h
                        rw [sOK_pair_eq a b' c' d u a2 b2 c2 d2 lo r3 hx4 hhi' hnlo hy4 (by simp [isLo, hlo])]
                        exact parseChars_sOK fuel r3 p1 p2 hp
                    · simp [hlo] at h
                · simp at h
              · simp only [hhi, if_false] at h
                by_cases hlo : 0xDC00 ≤ u ∧ u ≤ 0xDFFF
                · simp [hlo] at h
                · simp only [hlo, if_false] at h
                  cases hp : parseChars fuel r1 with
                  | none => simp [hp] at h
                  | some p =>
                    obtain ⟨p1, p2⟩ := p
                    simp only [hp, Option.map_some, Option.some.injEq, Prod.mk.injEq] at h
                    obtain ⟨_, rfl⟩ := h
                    have hnlo : isLo u = false := by
                      simp only [isLo, Bool.and_eq_false_iff, decide_eq_false_iff_not]; omega
                    have hnhi : isHi u = false := by
                      simp only [isHi, Bool.and_eq_false_iff, decide_eq_false_iff_not]; omega
                    rw [sOK_scalar_eq a b' c' d u r1 hx4 hnlo hnhi]
                    exact parseChars_sOK fuel r1 p1 p2 hp
          · rw [parseChars_bad_esc fuel e r hse h117] at h; simp at h
    · have hpc : parseChars (fuel + 1) (c :: cs) = (parseChars fuel cs).map fun p => (c :: p.1, p.2) := by
        simp [parseChars, h34, h32, h92]
      rw [hpc] at h
      cases hp : parseChars fuel cs with
      | none => simp [hp] at h
      | some p =>
        obtain ⟨p1, p2⟩ := p
        simp only [hp, Option.map_some, Option.some.injEq, Prod.mk.injEq] at h
        obtain ⟨_, rfl⟩ := h
        rw [sOK_cons_eq c cs h92]; exact parseChars_sOK fuel cs p1 p2 hp

theorem parseString_sOK (s b rest : Bytes) (h : parseString s = some (b, rest)) : surrogateOK s = surrogateOK rest := by
  obtain ⟨cs, rfl, hpc, _⟩ := parseString_inv s b rest h
  rw [sOK_cons_eq 34 cs (by decide)]
  exact parseChars_sOK _ cs b rest hpc

/-! ### numbers -/

theorem parseNumber_sOK (c : Nat) (cs lit r : Bytes) (hp : Spec.Rfc8259.parseNumber (c :: cs) = some (lit, r)) :
    surrogateOK (c :: cs) = surrogateOK r := by
  obtain ⟨c', cs', e, hc⟩ := Spec.Rfc8259.parseNumber_head _ _ _ hp
  cases e
  have hstart : ∃ ns0, numStart c = some ns0 := by
    unfold numStart
    rcases hc with rfl | hd
    · exact ⟨.minus, by simp⟩
    · simp only [Spec.Rfc8259.isDigit, Bool.and_eq_true, decide_eq_true_eq] at hd
      by_cases h48 : c = 48
      · subst h48; exact ⟨.zero, by simp⟩
      · have h19 : 49 ≤ c ∧ c ≤ 57 := by omega
        have h4 : c ≠ 45 := by omega
        exact ⟨.integer, by simp [h4, h48, h19]⟩
  obtain ⟨ns0, hns0⟩ := hstart
  have hrest : specRest (c :: cs) = some r := by rw [← parseNumber_rest, hp]; rfl
  rw [← ok_start c cs ns0 hns0] at hrest
  unfold scanOK at hrest
  cases hsc : numScan ns0 cs with
  | mk f r0 =>
    rw [hsc] at hrest
    by_cases hf : numFinal f = true
    · simp only [hf, if_true, Option.some.injEq] at hrest
      subst hrest
      obtain ⟨pre, e1, e2, _⟩ := numScan_spec cs ns0 f r0 hsc
      rw [e1, ← List.cons_append]
      apply sOK_drop_eq
      intro x hx
      rcases List.mem_cons.1 hx with rfl | hx
      · exact numStart_no92 _ ns0 hns0
      · exact numRun_no92 pre ns0 f e2 x hx
    · simp [hf] at hrest

/-! ### values -/

def SokAt (cfg : Cfg) (fuel : Nat) : Prop :=
  (∀ (n : Nat) (s : Bytes) (v : JT) (r : Bytes), parseValue (strictFlags cfg) fuel n s = some (v, r) → surrogateOK s = surrogateOK r) ∧
  (∀ (n : Nat) (s : Bytes) (xs : List JT) (r : Bytes), parseElems (strictFlags cfg) fuel n s = some (xs, r) →
    surrogateOK s = surrogateOK r) ∧
  (∀ (n : Nat) (s : Bytes) (ms : List (Bytes × JT)) (r : Bytes), parseMembers (strictFlags cfg) fuel n s = some (ms, r) →
    surrogateOK s = surrogateOK r)

theorem sok_head (c : Nat) (rest s : Bytes) (hc : c ≠ 92) (h : dropWs s = c :: rest) : surrogateOK s = surrogateOK rest := by
  rw [← sOK_dropWs_eq s, h, sOK_cons_eq c rest hc]

theorem sok_value (cfg : Cfg) (fuel : Nat) (ih : SokAt cfg fuel) :
    ∀ (n : Nat) (s : Bytes) (v : JT) (r : Bytes), parseValue (strictFlags cfg) (fuel + 1) n s = some (v, r) →
      surrogateOK s = surrogateOK r := by
  obtain ⟨_, ihE, ihM⟩ := ih
  intro n s v r h
  cases s with
  | nil => simp [parseValue] at h
  | cons c cs =>
    simp only [parseValue] at h
    by_cases h123 : c = 123
    · subst h123
      simp only [if_true] at h
      by_cases hd : n + 1 > cfg.maxDepth
      · simp [hd] at h
      · simp only [hd, if_false] at h
        rw [skipWs_eq _ _ (Nat.lt_succ_self _)] at h
        rw [sOK_cons_eq 123 cs (by decide)]
        split at h
        · rename_i heq; simp at heq
        · rename_i rest heq
          simp only [Option.some.injEq] at heq
          simp only [Option.some.injEq, Prod.mk.injEq] at h
          obtain ⟨_, rfl⟩ := h
          exact sok_head 125 rest cs (by decide) heq
        · rename_i s1 _ heq
          simp only [Option.some.injEq] at heq
          cases hm : parseMembers (strictFlags cfg) fuel (n + 1) s1 with
          | none => simp [hm] at h
          | some p =>
            obtain ⟨ms, r'⟩ := p
            simp only [hm, Option.map_some, Option.some.injEq, Prod.mk.injEq] at h
            obtain ⟨_, rfl⟩ := h
            rw [← sOK_dropWs_eq cs, heq]; exact ihM (n + 1) s1 ms r' hm
    · simp only [h123, if_false] at h
      by_cases h91 : c = 91
      · subst h91
        simp only [if_true] at h
        by_cases hd : n + 1 > cfg.maxDepth
        · simp [hd] at h
        · simp only [hd, if_false] at h
          rw [skipWs_eq _ _ (Nat.lt_succ_self _)] at h
          rw [sOK_cons_eq 91 cs (by decide)]
          split at h
          · rename_i heq; simp at heq
          · rename_i rest heq
            simp only [Option.some.injEq] at heq
            simp only [Option.some.injEq, Prod.mk.injEq] at h
            obtain ⟨_, rfl⟩ := h
            exact sok_head 93 rest cs (by decide) heq
          · rename_i s1 _ heq
            simp only [Option.some.injEq] at heq
            cases hm : parseElems (strictFlags cfg) fuel (n + 1) s1 with
            | none => simp [hm] at h
            | some p =>
              obtain ⟨xs, r'⟩ := p
              simp only [hm, Option.map_some, Option.some.injEq, Prod.mk.injEq] at h
              obtain ⟨_, rfl⟩ := h
              rw [← sOK_dropWs_eq cs, heq]; exact ihE (n + 1) s1 xs r' hm
      · simp only [h91, if_false] at h
        by_cases h34 : c = 34
        · subst h34
          simp only [if_true] at h
          cases hp : parseString (34 :: cs) with
          | none => simp [hp] at h
          | some p =>
            obtain ⟨b, r'⟩ := p
            simp only [hp, Option.map_some, Option.some.injEq, Prod.mk.injEq] at h
            obtain ⟨_, rfl⟩ := h
            exact parseString_sOK _ b r' hp
        · simp only [h34, if_false] at h
          by_cases h116 : c = 116
          · subst h116
            simp only [if_true] at h
            cases hp : startsWith [114, 117, 101] cs with
            | none => simp [hp] at h
            | some r' =>
              simp only [hp, Option.map_some, Option.some.injEq, Prod.mk.injEq] at h
              obtain ⟨_, rfl⟩ := h
              have := startsWith_eq _ _ _ hp
              subst this
              exact sOK_drop_eq [116, 114, 117, 101] r' (by decide)
          · simp only [h116, if_false] at h
            by_cases h102 : c = 102
            · subst h102
              simp only [if_true] at h
              cases hp : startsWith [97, 108, 115, 101] cs with
              | none => simp [hp] at h
              | some r' =>
                simp only [hp, Option.map_some, Option.some.injEq, Prod.mk.injEq] at h
                obtain ⟨_, rfl⟩ := h
                have := startsWith_eq _ _ _ hp
                subst this
                exact sOK_drop_eq [102, 97, 108, 115, 101] r' (by decide)
            · simp only [h102, if_false] at h
              by_cases h110 : c = 110
              · subst h110
                simp only [if_true] at h
                cases hp : startsWith [117, 108, 108] cs with
                | none => simp [hp] at h
                | some r' =>
                  simp only [hp, Option.map_some, Option.some.injEq, Prod.mk.injEq] at h
                  obtain ⟨_, rfl⟩ := h
                  have := startsWith_eq _ _ _ hp
                  subst this
                  exact sOK_drop_eq [110, 117, 108, 108] r' (by decide)
              · simp only [h110, if_false] at h
                cases hp : parseNumber (c :: cs) with
                | none => simp [hp] at h
                | some p =>
                  obtain ⟨lit, r'⟩ := p
                  simp only [hp, Option.map_some, Option.some.injEq, Prod.mk.injEq] at h
                  obtain ⟨_, rfl⟩ := h
                  exact parseNumber_sOK c cs lit r' hp

theorem sok_elems (cfg : Cfg) (fuel : Nat) (ih : SokAt cfg fuel) :
    ∀ (n : Nat) (s : Bytes) (xs : List JT) (r : Bytes), parseElems (strictFlags cfg) (fuel + 1) n s = some (xs, r) →
      surrogateOK s = surrogateOK r := by
  obtain ⟨ihV, ihE, _⟩ := ih
  intro n s xs r h
  simp only [parseElems] at h
  cases hv : parseValue (strictFlags cfg) fuel n s with
  | none => simp [hv] at h
  | some p =>
    obtain ⟨v, s1⟩ := p
    simp only [hv] at h
    rw [skipWs_eq _ _ (Nat.lt_succ_self _)] at h
    rw [ihV n s v s1 hv]
    split at h
    · rename_i rest heq
      simp only [Option.some.injEq] at heq
      simp only [Option.some.injEq, Prod.mk.injEq] at h
      obtain ⟨_, rfl⟩ := h
      exact sok_head 93 rest s1 (by decide) heq
    · rename_i s2 heq
      simp only [Option.some.injEq] at heq
      rw [skipWs_eq _ _ (Nat.lt_succ_self _)] at h
      rw [sok_head 44 s2 s1 (by decide) heq]
      split at h
      · rename_i heq2; simp at heq2
      · simp at h
      · rename_i s3 _ heq2
        simp only [Option.some.injEq] at heq2
        cases hm : parseElems (strictFlags cfg) fuel n s3 with
        | none => simp [hm] at h
        | some p =>
          obtain ⟨xs', r'⟩ := p
          simp only [hm, Option.map_some, Option.some.injEq, Prod.mk.injEq] at h
          obtain ⟨_, rfl⟩ := h
          rw [← sOK_dropWs_eq s2, heq2]; exact ihE n s3 xs' r' hm
    · simp at h

theorem sok_members (cfg : Cfg) (fuel : Nat) (ih : SokAt cfg fuel) :
    ∀ (n : Nat) (s : Bytes) (ms : List (Bytes × JT)) (r : Bytes), parseMembers (strictFlags cfg) (fuel + 1) n s = some (ms, r) →
      surrogateOK s = surrogateOK r := by
  obtain ⟨ihV, _, ihM⟩ := ih
  intro n s ms r h
  simp only [parseMembers] at h
  cases hk : parseString s with
  | none => simp [hk] at h
  | some p =>
    obtain ⟨k, s1⟩ := p
    simp only [hk] at h
    rw [skipWs_eq _ _ (Nat.lt_succ_self _)] at h
    rw [parseString_sOK s k s1 hk]
    split at h
    · rename_i s2 heq
      simp only [Option.some.injEq] at heq
      rw [skipWs_eq _ _ (Nat.lt_succ_self _)] at h
      simp only at h
      rw [sok_head 58 s2 s1 (by decide) heq, ← sOK_dropWs_eq s2]
      cases hv : parseValue (strictFlags cfg) fuel n (dropWs s2) with
      | none => simp [hv] at h
      | some p =>
        obtain ⟨v, s4⟩ := p
        simp only [hv] at h
        rw [skipWs_eq _ _ (Nat.lt_succ_self _)] at h
        rw [ihV n (dropWs s2) v s4 hv]
        split at h
        · rename_i rest heq4
          simp only [Option.some.injEq] at heq4
          simp only [Option.some.injEq, Prod.mk.injEq] at h
          obtain ⟨_, rfl⟩ := h
          exact sok_head 125 rest s4 (by decide) heq4
        · rename_i s5 heq4
          simp only [Option.some.injEq] at heq4
          rw [skipWs_eq _ _ (Nat.lt_succ_self _)] at h
          rw [sok_head 44 s5 s4 (by decide) heq4]
          split at h
          · rename_i heq5; simp at heq5
          · simp at h
          · rename_i s6 _ heq5
            simp only [Option.some.injEq] at heq5
            cases hm : parseMembers (strictFlags cfg) fuel n s6 with
            | none => simp [hm] at h
            | some p =>
              obtain ⟨ms', r'⟩ := p
              simp only [hm, Option.map_some, Option.some.injEq, Prod.mk.injEq] at h
              obtain ⟨_, rfl⟩ := h
              rw [← sOK_dropWs_eq s5, heq5]; exact ihM n s6 ms' r' hm
        · simp at h
    · simp at h

theorem sokAt (cfg : Cfg) : ∀ fuel, SokAt cfg fuel
  | 0 => ⟨fun n s v r h => by simp [parseValue] at h, fun n s xs r h => by simp [parseElems] at h,
          fun n s ms r h => by simp [parseMembers] at h⟩
  | fuel + 1 => ⟨sok_value cfg fuel (sokAt cfg fuel), sok_elems cfg fuel (sokAt cfg fuel), sok_members cfg fuel (sokAt cfg fuel)⟩

/-- a text the reference gives a value has no surrogate anomaly -/
theorem parseText_sOK (cfg : Cfg) (bs : Bytes) (v : JT) (h : parseText (strictFlags cfg) bs = some v) : surrogateOK bs = true := by
  unfold parseText at h
  rw [skipWs_eq _ _ (Nat.lt_succ_self _)] at h
  simp only at h
  cases hv : parseValue (strictFlags cfg) ((dropWs bs).length + 1) 0 (dropWs bs) with
  | none => simp [hv] at h
  | some p =>
    obtain ⟨v', s2⟩ := p
    simp only [hv] at h
    rw [skipWs_eq _ _ (Nat.lt_succ_self _)] at h
    split at h
    · rename_i heq
      simp only [Option.some.injEq] at heq
      rw [← sOK_dropWs_eq bs, (sokAt cfg _).1 0 (dropWs bs) v' s2 hv, ← sOK_dropWs_eq s2, heq]
      rfl
    · simp at h

end JsonParser
end Model
end JV
