/-
  JV.Proofs.CompareOrder — on the domain `dom L` (no NaN / infinity, no `json()` empty_object, stored integers within ±2^53, strings
  all short (L = false) or all long (L = true)) `compare` is a total preorder: `compare a b ≤ 0` is transitive.
-/
import JV.Proofs.CompareFull
namespace JV
namespace Model
namespace Compare

mutual
  def dom (L : Bool) : CVal → Bool
    | .null => true
    | .bool _ => true
    | .bstr _ => true
    | .emptyObj => false
    | .i64 v => decide (-(2 ^ 53 : Int) ≤ v ∧ v ≤ 2 ^ 53)
    | .u64 v => decide (v ≤ 2 ^ 53)
    | .dbl b => dExp b != 2047
    | .half h => dExp (halfToDouble h) != 2047
    | .str s => decide (shortMax < s.length) == L
    | .arr xs => domL L xs
    | .obj ms => domM L ms
  def domL (L : Bool) : List CVal → Bool
    | [] => true
    | x :: xs => dom L x && domL L xs
  def domM (L : Bool) : List (Bytes × CVal) → Bool
    | [] => true
    | (_, x) :: ms => dom L x && domM L ms
end

theorem domL_mem {L : Bool} : ∀ {xs : List CVal}, domL L xs = true → ∀ x ∈ xs, dom L x = true
  | [], _, _, h => by cases h
  | y :: ys, hf, x, h => by
    simp only [domL, Bool.and_eq_true] at hf
    rcases List.mem_cons.1 h with e | e
    · subst e; exact hf.1
    · exact domL_mem hf.2 x e

theorem domM_mem {L : Bool} : ∀ {ms : List (Bytes × CVal)}, domM L ms = true → ∀ p ∈ ms, dom L p.2 = true
  | [], _, _, h => by cases h
  | (k, y) :: ys, hf, x, h => by
    simp only [domM, Bool.and_eq_true] at hf
    rcases List.mem_cons.1 h with e | e
    · subst e; exact hf.1
    · exact domM_mem hf.2 x e

mutual
  theorem dom_finite (L : Bool) : ∀ a : CVal, dom L a = true → finite a = true
    | .null, _ => rfl
    | .bool _, _ => rfl
    | .bstr _, _ => rfl
    | .str _, _ => rfl
    | .emptyObj, _ => rfl
    | .i64 v, h => by simp [dom, finite] at *; omega
    | .u64 v, h => by simp [dom, finite] at *; omega
    | .dbl b, h => by simpa [dom, finite] using h
    | .half b, h => by simpa [dom, finite] using h
    | .arr xs, h => by simp only [dom] at h; simp only [finite]; exact domL_finite L xs h
    | .obj ms, h => by simp only [dom] at h; simp only [finite]; exact domM_finite L ms h
  theorem domL_finite (L : Bool) : ∀ xs : List CVal, domL L xs = true → finiteL xs = true
    | [], _ => rfl
    | x :: xs, h => by
      simp only [domL, Bool.and_eq_true] at h
      simp only [finiteL, Bool.and_eq_true]
      exact ⟨dom_finite L x h.1, domL_finite L xs h.2⟩
  theorem domM_finite (L : Bool) : ∀ ms : List (Bytes × CVal), domM L ms = true → finiteM ms = true
    | [], _ => rfl
    | (_, x) :: ms, h => by
      simp only [domM, Bool.and_eq_true] at h
      simp only [finiteM, Bool.and_eq_true]
      exact ⟨dom_finite L x h.1, domM_finite L ms h.2⟩
end

/-- the class a value is ordered in against values of other classes (numbers form one class) -/
def cls (L : Bool) : CVal → Int
  | .null => 0
  | .bool _ => 1
  | .i64 _ => 2
  | .u64 _ => 2
  | .dbl _ => 2
  | .emptyObj => 4
  | .half _ => 6
  | .str _ => if L then 15 else 7
  | .bstr _ => 12
  | .obj _ => 13
  | .arr _ => 14

theorem sgn_le (x : Int) : sgn x ≤ 0 ↔ x ≤ 0 := by
  unfold sgn; split <;> (try split) <;> omega

theorem cmpK_le (x y : Int) : cmpK x y ≤ 0 ↔ x ≤ y := by
  unfold cmpK; split <;> (try split) <;> omega

theorem compare_diff_cls (L : Bool) (a b : CVal) (da : dom L a = true) (db : dom L b = true) (h : cls L a ≠ cls L b) :
    compare a b = sgn (cls L a - cls L b) := by
  cases L <;> cases a <;> cases b <;> simp [compare, kind, cls, dom] at * <;>
    first
    | decide
    | ((try simp only [decide_eq_false_iff_not, decide_eq_true_eq] at *); split <;> first | decide | omega)

/-! ### numbers: one key orders them all (within ±2^53 the conversion to double is exact) -/

def isNum : CVal → Bool
  | .i64 _ => true
  | .u64 _ => true
  | .dbl _ => true
  | _ => false

def nkey : CVal → Int
  | .i64 v => ikey v
  | .u64 v => ikey (v : Int)
  | .dbl b => dKey b
  | _ => 0

theorem ikey_strict (x y : Int) (hx : -(2 ^ 53 : Int) ≤ x) (hy : y ≤ 2 ^ 53) (h : x < y) : ikey x < ikey y := by
  unfold ikey
  by_cases h1 : x < 0
  · by_cases h2 : y < 0
    · simp only [h1, h2, if_true]
      have := natToDouble_strict (-y).toNat (-x).toNat (by omega) (by omega)
      omega
    · simp only [h1, h2, if_true, if_false]
      have := natToDouble_pos (-x).toNat (by omega) (by omega)
      omega
  · have h2 : ¬ y < 0 := by omega
    simp only [h1, h2, if_false]
    have := natToDouble_strict x.toNat y.toNat (by omega) (by omega)
    omega

theorem cmpII_key (x y : Int) (hx1 : -(2 ^ 53 : Int) ≤ x) (hx2 : x ≤ 2 ^ 53) (hy1 : -(2 ^ 53 : Int) ≤ y) (hy2 : y ≤ 2 ^ 53) :
    cmpII x y = cmpK (ikey x) (ikey y) := by
  unfold cmpII cmpK
  by_cases e : x = y
  · subst e; simp
  · by_cases l : x < y
    · have := ikey_strict x y hx1 hy2 l
      have n : ¬ ikey x = ikey y := by omega
      simp [e, l, n, this]
    · have := ikey_strict y x hy1 hx2 (by omega)
      have n : ¬ ikey x = ikey y := by omega
      have n2 : ¬ ikey x < ikey y := by omega
      simp [e, l, n, n2]

theorem toU64_small (x : Int) (h0 : 0 ≤ x) (h1 : x < 2 ^ 63) : (toU64 x : Int) = x := by
  unfold toU64
  have : x % (2 ^ 64 : Int) = x := Int.emod_eq_of_lt h0 (by omega)
  rw [this]; exact Int.toNat_of_nonneg h0

theorem cmpIU_eq (x : Int) (y : Nat) (h1 : -(2 ^ 63 : Int) ≤ x) (h2 : x < 2 ^ 63) : cmpIU x y = cmpII x (y : Int) := by
  unfold cmpIU cmpII
  by_cases hx : x < 0
  · have e : ¬ x = (y : Int) := by omega
    have l : x < (y : Int) := by omega
    simp [hx, e, l]
  · have t := toU64_small x (by omega) h2
    simp only [hx, if_false]
    by_cases e : toU64 x = y
    · have : x = (y : Int) := by omega
      rw [if_pos e, if_pos this]
    · have ne : ¬ x = (y : Int) := by omega
      by_cases l : toU64 x < y
      · have : x < (y : Int) := by omega
        simp [e, l, ne, this]
      · have : ¬ x < (y : Int) := by omega
        simp [e, l, ne, this]

theorem cmpUI_eq (x : Nat) (y : Int) (h1 : -(2 ^ 63 : Int) ≤ y) (h2 : y < 2 ^ 63) : cmpUI x y = cmpII (x : Int) y := by
  have a := cmpUI_antisymm y x
  have b := cmpIU_eq y x h1 h2
  have c := cmpII_antisymm y (x : Int)
  omega

theorem cmpUU_eq (x y : Nat) : cmpUU x y = cmpII (x : Int) (y : Int) := by
  unfold cmpUU cmpII
  by_cases e : x = y
  · subst e; simp
  · have ne : ¬ (x : Int) = (y : Int) := by omega
    by_cases l : x < y
    · have : (x : Int) < (y : Int) := by omega
      simp [e, l, ne, this]
    · have : ¬ (x : Int) < (y : Int) := by omega
      simp [e, l, ne, this]

theorem ikey_ofNat (v : Nat) : ikey (v : Int) = (natToDouble v : Int) := by
  unfold ikey
  have : ¬ (v : Int) < 0 := by omega
  simp [this]

theorem compare_num (L : Bool) (a b : CVal) (na : isNum a = true) (nb : isNum b = true) (da : dom L a = true) (db : dom L b = true) :
    compare a b = cmpK (nkey a) (nkey b) := by
  cases a <;> simp [isNum] at na <;> cases b <;> simp [isNum] at nb <;> simp only [dom, decide_eq_true_eq, bne_iff_ne, ne_eq] at da db <;>
    simp only [compare, nkey]
  · exact cmpII_key _ _ da.1 da.2 db.1 db.2
  · rw [cmpIU_eq _ _ (by omega) (by omega)]; exact cmpII_key _ _ da.1 da.2 (by omega) (by omega)
  · rename_i x y
    have c := conv_i64 x (by omega) (by omega)
    rw [subSign_fin _ _ c.1 db, c.2]
  · rw [cmpUI_eq _ _ (by omega) (by omega)]; exact cmpII_key _ _ (by omega) (by omega) db.1 db.2
  · rw [cmpUU_eq]; exact cmpII_key _ _ (by omega) (by omega) (by omega) (by omega)
  · rename_i x y
    have c := conv_u64 x (by omega)
    rw [subSign_fin _ _ c.1 db, c.2, ikey_ofNat]
  · rename_i x y
    have c := conv_i64 y (by omega) (by omega)
    rw [subSign_fin _ _ da c.1, c.2]
  · rename_i x y
    have c := conv_u64 y (by omega)
    rw [subSign_fin _ _ da c.1, c.2, ikey_ofNat]
  · exact subSign_fin _ _ da db

theorem isNum_of_cls (L : Bool) (b : CVal) (h : cls L b = 2) : isNum b = true := by
  cases L <;> cases b <;> simp [cls, isNum] at *

theorem num_le_trans (L : Bool) (a b c : CVal) (na : isNum a = true) (nb : isNum b = true) (nc : isNum c = true)
    (da : dom L a = true) (db : dom L b = true) (dc : dom L c = true)
    (h1 : compare a b ≤ 0) (h2 : compare b c ≤ 0) : compare a c ≤ 0 := by
  rw [compare_num L a b na nb da db, cmpK_le] at h1
  rw [compare_num L b c nb nc db dc, cmpK_le] at h2
  rw [compare_num L a c na nc da dc, cmpK_le]
  omega

/-! ### key/value pairs -/

theorem kvCmp_le_trans (p q r : Bytes × CVal)
    (T : compare p.2 q.2 ≤ 0 → compare q.2 r.2 ≤ 0 → compare p.2 r.2 ≤ 0)
    (h1 : kvCmp p q ≤ 0) (h2 : kvCmp q r ≤ 0) : kvCmp p r ≤ 0 := by
  unfold kvCmp at *
  rcases Assoc.keyLt_trichotomy p.1 q.1 with g1 | g1 | g1
  · rcases Assoc.keyLt_trichotomy q.1 r.1 with g2 | g2 | g2
    · simp [Assoc.keyLt_trans g1 g2]
    · rw [← g2]; simp [g1]
    · simp [g2, Assoc.keyLt_asymm g2] at h2
  · rw [g1] at h1 ⊢
    simp only [Assoc.keyLt_irrefl] at h1
    rcases Assoc.keyLt_trichotomy q.1 r.1 with g2 | g2 | g2
    · simp [g2]
    · rw [g2] at h2 ⊢
      simp only [Assoc.keyLt_irrefl] at h2 ⊢
      exact T h1 h2
    · simp [g2, Assoc.keyLt_asymm g2] at h2
  · simp [g1, Assoc.keyLt_asymm g1] at h1

/-! ### classes determine constructors -/

theorem cls_inv (L : Bool) (a b : CVal) (da : dom L a = true) (db : dom L b = true) (h : cls L a = cls L b) :
    (isNum a = true ∧ isNum b = true) ∨ (a = .null ∧ b = .null) ∨ (∃ x y, a = .bool x ∧ b = .bool y) ∨ (∃ x y, a = .half x ∧ b = .half y) ∨
    (∃ x y, a = .str x ∧ b = .str y) ∨ (∃ x y, a = .bstr x ∧ b = .bstr y) ∨ (∃ x y, a = .arr x ∧ b = .arr y) ∨ (∃ x y, a = .obj x ∧ b = .obj y) := by
  cases L <;> cases a <;> cases b <;> simp [cls, isNum, dom] at *

theorem compare_le_trans_aux (L : Bool) : ∀ n : Nat, ∀ a b c : CVal, sizeOf a + sizeOf b + sizeOf c < n →
    dom L a = true → dom L b = true → dom L c = true → compare a b ≤ 0 → compare b c ≤ 0 → compare a c ≤ 0
  | 0, _, _, _, h, _, _, _, _, _ => by omega
  | n + 1, a, b, c, hn, da, db, dc, h1, h2 => by
    by_cases e1 : cls L a = cls L b
    · by_cases e2 : cls L b = cls L c
      · rcases cls_inv L a b da db e1 with ⟨na, nb⟩ | ⟨ra, rb⟩ | ⟨x, y, ra, rb⟩ | ⟨x, y, ra, rb⟩ | ⟨x, y, ra, rb⟩ | ⟨x, y, ra, rb⟩ | ⟨x, y, ra, rb⟩ | ⟨x, y, ra, rb⟩
        · have nc : isNum c = true := by
            rcases cls_inv L b c db dc e2 with ⟨_, nc⟩ | ⟨rb, _⟩ | ⟨_, _, rb, _⟩ | ⟨_, _, rb, _⟩ | ⟨_, _, rb, _⟩ | ⟨_, _, rb, _⟩ | ⟨_, _, rb, _⟩ | ⟨_, _, rb, _⟩
            · exact nc
            all_goals (subst rb; simp [isNum] at nb)
          exact num_le_trans L a b c na nb nc da db dc h1 h2
        all_goals subst ra; subst rb
        all_goals
          rcases cls_inv L _ c db dc e2 with ⟨nb, _⟩ | ⟨rb, rc⟩ | ⟨_, z, rb, rc⟩ | ⟨_, z, rb, rc⟩ | ⟨_, z, rb, rc⟩ | ⟨_, z, rb, rc⟩ | ⟨_, z, rb, rc⟩ | ⟨_, z, rb, rc⟩
        all_goals first | (simp [isNum] at nb; done) | (cases rb; done) | skip
        all_goals subst rc
        · simp [compare, kind, sgn]
        · cases x <;> cases z <;> cases y <;> simp [compare, sgn] at *
        · simp only [compare, dom, bne_iff_ne, ne_eq] at *
          rw [subSign_fin _ _ da db, cmpK_le] at h1
          rw [subSign_fin _ _ db dc, cmpK_le] at h2
          rw [subSign_fin _ _ da dc, cmpK_le]
          omega
        · simp only [compare] at *
          exact bytesCmp_le_trans _ _ _ h1 h2
        · simp only [compare] at *
          exact bytesCmp_le_trans _ _ _ h1 h2
        · rw [compare_arr] at *
          simp only [dom] at da db dc
          simp only [CVal.arr.sizeOf_spec] at hn
          exact vecCmp_le_trans compare (fun u => finite u = true)
            (fun u => dom L u = true ∧ sizeOf u < sizeOf x) (fun u => dom L u = true ∧ sizeOf u < sizeOf y) (fun u => dom L u = true ∧ sizeOf u < sizeOf z)
            (fun u v hu hv => compare_antisymm_fin u v hu hv)
            (fun u hu => dom_finite L u hu.1) (fun u hu => dom_finite L u hu.1) (fun u hu => dom_finite L u hu.1)
            (fun u v w hu hv hw =>
              ⟨compare_le_trans_aux L n u v w (by have := hu.2; have := hv.2; have := hw.2; omega) hu.1 hv.1 hw.1,
               compare_le_trans_aux L n w u v (by have := hu.2; have := hv.2; have := hw.2; omega) hw.1 hu.1 hv.1,
               compare_le_trans_aux L n v w u (by have := hu.2; have := hv.2; have := hw.2; omega) hv.1 hw.1 hu.1,
               compare_le_trans_aux L n w v u (by have := hu.2; have := hv.2; have := hw.2; omega) hw.1 hv.1 hu.1⟩)
            x y z
            (fun u hu => ⟨domL_mem da u hu, List.sizeOf_lt_of_mem hu⟩) (fun u hu => ⟨domL_mem db u hu, List.sizeOf_lt_of_mem hu⟩)
            (fun u hu => ⟨domL_mem dc u hu, List.sizeOf_lt_of_mem hu⟩) h1 h2
        · rw [compare_obj] at *
          simp only [dom] at da db dc
          simp only [CVal.obj.sizeOf_spec] at hn
          have sz : ∀ (ms : List (Bytes × CVal)) (u : Bytes × CVal), u ∈ ms → sizeOf u.2 < sizeOf ms := by
            intro ms u hu
            have := List.sizeOf_lt_of_mem hu
            have e : sizeOf u = 1 + sizeOf u.1 + sizeOf u.2 := by cases u; simp
            omega
          exact vecCmp_le_trans kvCmp (fun u => finite u.2 = true)
            (fun u => dom L u.2 = true ∧ sizeOf u.2 < sizeOf x) (fun u => dom L u.2 = true ∧ sizeOf u.2 < sizeOf y)
            (fun u => dom L u.2 = true ∧ sizeOf u.2 < sizeOf z)
            (fun u v hu hv => kvCmp_antisymm u v (compare_antisymm_fin u.2 v.2 hu hv))
            (fun u hu => dom_finite L u.2 hu.1) (fun u hu => dom_finite L u.2 hu.1) (fun u hu => dom_finite L u.2 hu.1)
            (fun u v w hu hv hw =>
              ⟨kvCmp_le_trans u v w (compare_le_trans_aux L n u.2 v.2 w.2 (by have := hu.2; have := hv.2; have := hw.2; omega) hu.1 hv.1 hw.1),
               kvCmp_le_trans w u v (compare_le_trans_aux L n w.2 u.2 v.2 (by have := hu.2; have := hv.2; have := hw.2; omega) hw.1 hu.1 hv.1),
               kvCmp_le_trans v w u (compare_le_trans_aux L n v.2 w.2 u.2 (by have := hu.2; have := hv.2; have := hw.2; omega) hv.1 hw.1 hu.1),
               kvCmp_le_trans w v u (compare_le_trans_aux L n w.2 v.2 u.2 (by have := hu.2; have := hv.2; have := hw.2; omega) hw.1 hv.1 hu.1)⟩)
            x y z
            (fun u hu => ⟨domM_mem da u hu, sz x u hu⟩) (fun u hu => ⟨domM_mem db u hu, sz y u hu⟩)
            (fun u hu => ⟨domM_mem dc u hu, sz z u hu⟩) h1 h2
      · rw [compare_diff_cls L b c db dc e2, sgn_le] at h2
        rw [compare_diff_cls L a c da dc (by omega), sgn_le]
        omega
    · rw [compare_diff_cls L a b da db e1, sgn_le] at h1
      by_cases e2 : cls L b = cls L c
      · rw [compare_diff_cls L a c da dc (by omega), sgn_le]
        omega
      · rw [compare_diff_cls L b c db dc e2, sgn_le] at h2
        rw [compare_diff_cls L a c da dc (by omega), sgn_le]
        omega

/-- on `dom L`, `compare a b ≤ 0` is transitive -/
theorem compare_le_trans (L : Bool) (a b c : CVal) (da : dom L a = true) (db : dom L b = true) (dc : dom L c = true)
    (h1 : compare a b ≤ 0) (h2 : compare b c ≤ 0) : compare a c ≤ 0 :=
  compare_le_trans_aux L _ a b c (Nat.lt_succ_self _) da db dc h1 h2

end Compare
end Model
end JV
