/-
  JV.Proofs.JsonPathSlice — jsoncons' slice arithmetic enumerates exactly the RFC 9535 slice, in the order of the step.
-/
import JV.Model.JsonPath
import JV.Spec.Rfc9535
namespace JV
namespace Model
namespace JsonPath
open Spec.Rfc9535

theorem upLoop_ge : ∀ (fuel : Nat) (i e step : Int), 0 < step → ∀ x ∈ upLoop fuel i e step, i ≤ x
  | 0, _, _, _, _, _, h => by simp [upLoop] at h
  | fuel + 1, i, e, step, hs, x, h => by
    simp only [upLoop] at h
    split at h
    · simp only [List.mem_cons] at h
      rcases h with rfl | h
      · exact Int.le_refl _
      · have := upLoop_ge fuel (i + step) e step hs x h; omega
    · simp at h

theorem upLoop_mem : ∀ (fuel : Nat) (i e step : Int), 0 < step → e - i ≤ fuel →
    ∀ x, x ∈ upLoop fuel i e step ↔ (i ≤ x ∧ x < e ∧ step ∣ (x - i))
  | 0, i, e, step, _, hf, x => by
    simp only [upLoop, List.not_mem_nil, false_iff]
    intro ⟨h1, h2, _⟩; omega
  | fuel + 1, i, e, step, hs, hf, x => by
    simp only [upLoop]
    by_cases hlt : i < e
    · simp only [hlt, if_true, List.mem_cons]
      rw [upLoop_mem fuel (i + step) e step hs (by omega) x]
      constructor
      · rintro (rfl | ⟨h1, h2, h3⟩)
        · exact ⟨Int.le_refl _, hlt, by simp⟩
        · refine ⟨by omega, h2, ?_⟩
          have : x - i = (x - (i + step)) + step := by omega
          rw [this]; exact Int.dvd_add h3 (Int.dvd_refl _)
      · rintro ⟨h1, h2, h3⟩
        by_cases hx : x = i
        · exact Or.inl hx
        · right
          have hpos : 0 < x - i := by omega
          have hle : step ≤ x - i := Int.le_of_dvd hpos h3
          refine ⟨by omega, h2, ?_⟩
          have : x - (i + step) = (x - i) - step := by omega
          rw [this]; exact Int.dvd_sub h3 (Int.dvd_refl _)
    · simp only [hlt, if_false, List.not_mem_nil, false_iff]
      intro ⟨h1, h2, _⟩; omega

theorem upLoop_pairwise : ∀ (fuel : Nat) (i e step : Int), 0 < step → (upLoop fuel i e step).Pairwise (· < ·)
  | 0, _, _, _, _ => by simp [upLoop]
  | fuel + 1, i, e, step, hs => by
    simp only [upLoop]
    split
    · refine List.pairwise_cons.mpr ⟨?_, upLoop_pairwise fuel (i + step) e step hs⟩
      intro x hx
      have := upLoop_ge fuel (i + step) e step hs x hx; omega
    · exact List.Pairwise.nil

theorem downLoop_le : ∀ (fuel : Nat) (i e step : Int), step < 0 → ∀ x ∈ downLoop fuel i e step, x ≤ i
  | 0, _, _, _, _, _, h => by simp [downLoop] at h
  | fuel + 1, i, e, step, hs, x, h => by
    simp only [downLoop] at h
    split at h
    · simp only [List.mem_cons] at h
      rcases h with rfl | h
      · exact Int.le_refl _
      · have := downLoop_le fuel (i + step) e step hs x h; omega
    · simp at h

theorem downLoop_mem : ∀ (fuel : Nat) (i e step : Int), step < 0 → i - e ≤ fuel →
    ∀ x, x ∈ downLoop fuel i e step ↔ (e < x ∧ x ≤ i ∧ step ∣ (i - x))
  | 0, i, e, step, _, hf, x => by
    simp only [downLoop, List.not_mem_nil, false_iff]
    intro ⟨h1, h2, _⟩; omega
  | fuel + 1, i, e, step, hs, hf, x => by
    simp only [downLoop]
    by_cases hgt : i > e
    · simp only [hgt, if_true, List.mem_cons]
      rw [downLoop_mem fuel (i + step) e step hs (by omega) x]
      constructor
      · rintro (rfl | ⟨h1, h2, h3⟩)
        · exact ⟨hgt, Int.le_refl _, by simp⟩
        · refine ⟨h1, by omega, ?_⟩
          have : i - x = (i + step - x) - step := by omega
          rw [this]; exact Int.dvd_sub h3 (Int.dvd_refl _)
      · rintro ⟨h1, h2, h3⟩
        by_cases hx : x = i
        · exact Or.inl hx
        · right
          have hpos : 0 < i - x := by omega
          have hneg : (-step) ∣ (i - x) := (Int.neg_dvd).mpr h3
          have hle : -step ≤ i - x := Int.le_of_dvd hpos hneg
          refine ⟨h1, by omega, ?_⟩
          have : i + step - x = (i - x) + step := by omega
          rw [this]; exact Int.dvd_add h3 (Int.dvd_refl _)
    · simp only [hgt, if_false, List.not_mem_nil, false_iff]
      intro ⟨h1, h2, _⟩; omega

theorem downLoop_pairwise : ∀ (fuel : Nat) (i e step : Int), step < 0 → (downLoop fuel i e step).Pairwise (· > ·)
  | 0, _, _, _, _ => by simp [downLoop]
  | fuel + 1, i, e, step, hs => by
    simp only [downLoop]
    split
    · refine List.pairwise_cons.mpr ⟨?_, downLoop_pairwise fuel (i + step) e step hs⟩
      intro x hx
      have := downLoop_le fuel (i + step) e step hs x hx; omega
    · exact List.Pairwise.nil

end JsonPath
end Model
end JV

namespace JV.Model.JsonPath
open Spec.Rfc9535

theorem up_start_eq (s : Slice) (n : Nat) (h : s.step > 0) :
    (if getStart s n < 0 then 0 else getStart s n) = (bounds s.start s.stop s.step n).lower := by
  have h' : s.step ≥ 0 := by omega
  unfold getStart bounds normalize clampHi clampLo
  cases s.start <;> simp only [h', if_true] <;> (repeat' split) <;> omega

theorem up_end_iff (s : Slice) (n : Nat) (h : s.step > 0) (x : Int) (hx : 0 ≤ x) :
    x < (if getStop s n > n then (n : Int) else getStop s n) ↔ x < (bounds s.start s.stop s.step n).upper := by
  have h' : s.step ≥ 0 := by omega
  unfold getStop bounds normalize clampHi clampLo
  cases s.stop <;> simp only [h', if_true] <;> (repeat' split) <;> omega


theorem down_end_eq (s : Slice) (n : Nat) (h : s.step < 0) :
    (if getStop s n < -1 then -1 else getStop s n) ≥ -1 := by
  split <;> omega

theorem down_start_le (s : Slice) (n : Nat) : (if getStart s n ≥ n then (n : Int) - 1 else getStart s n) ≤ (n : Int) - 1 := by
  split <;> omega

theorem down_lo_iff (s : Slice) (n : Nat) (h : s.step < 0) (x : Int) (hxn : x ≤ (n : Int) - 1) :
    (if getStop s n < -1 then -1 else getStop s n) < x ↔ (bounds s.start s.stop s.step n).lower < x := by
  have h' : ¬ s.step ≥ 0 := by omega
  unfold getStop bounds normalize clampHi clampLo
  cases s.stop <;> simp only [h', if_false] <;> (repeat' split) <;> omega

theorem down_hi_iff (s : Slice) (n : Nat) (h : s.step < 0) (x : Int) (hx0 : 0 ≤ x) :
    x ≤ (if getStart s n ≥ n then (n : Int) - 1 else getStart s n) ↔ x ≤ (bounds s.start s.stop s.step n).upper := by
  have h' : ¬ s.step ≥ 0 := by omega
  unfold getStart bounds normalize clampHi clampLo
  cases s.start <;> simp only [h', if_false] <;> (repeat' split) <;> omega

/-- going down: jsoncons' start is the RFC's upper bound whenever anything can be selected at all -/
theorem down_iff (s : Slice) (n : Nat) (h : s.step < 0) (x : Int) (hx0 : 0 ≤ x) :
    ((if getStop s n < -1 then -1 else getStop s n) < x ∧ x ≤ (if getStart s n ≥ n then (n : Int) - 1 else getStart s n)) ↔
      ((bounds s.start s.stop s.step n).lower < x ∧ x ≤ (bounds s.start s.stop s.step n).upper) := by
  have hle := down_start_le s n
  have hup : (bounds s.start s.stop s.step n).upper ≤ (n : Int) - 1 := by
    have h' : ¬ s.step ≥ 0 := by omega
    unfold bounds normalize clampHi clampLo
    cases s.start <;> simp only [h', if_false] <;> (repeat' split) <;> omega
  constructor
  · rintro ⟨h1, h2⟩
    exact ⟨(down_lo_iff s n h x (by omega)).mp h1, (down_hi_iff s n h x hx0).mp h2⟩
  · rintro ⟨h1, h2⟩
    exact ⟨(down_lo_iff s n h x (by omega)).mpr h1, (down_hi_iff s n h x hx0).mpr h2⟩

theorem down_start_eq (s : Slice) (n : Nat) (h : s.step < 0) (x : Int) (hx0 : 0 ≤ x)
    (hx : x ≤ (if getStart s n ≥ n then (n : Int) - 1 else getStart s n)) :
    (if getStart s n ≥ n then (n : Int) - 1 else getStart s n) = (bounds s.start s.stop s.step n).upper := by
  have h' : ¬ s.step ≥ 0 := by omega
  revert hx
  unfold getStart bounds normalize clampHi clampLo
  cases s.start <;> simp only [h', if_false] <;> (repeat' split) <;> omega

theorem down_upper_eq (s : Slice) (n : Nat) (h : s.step < 0) (x : Int) (hx0 : 0 ≤ x)
    (hx : x ≤ (bounds s.start s.stop s.step n).upper) :
    (if getStart s n ≥ n then (n : Int) - 1 else getStart s n) = (bounds s.start s.stop s.step n).upper := by
  have h' : ¬ s.step ≥ 0 := by omega
  revert hx
  unfold getStart bounds normalize clampHi clampLo
  cases s.start <;> simp only [h', if_false] <;> (repeat' split) <;> omega

/-- **Slice theorem.** The indices jsoncons visits for `[start:stop:step]` on an array of `n` elements are exactly
    those RFC 9535 selects. -/
theorem sliceIdx_spec (s : Slice) (n : Nat) (x : Nat) :
    x ∈ sliceIdx s n ↔ Selected s.start s.stop s.step n (x : Int) := by
  unfold sliceIdx Selected
  by_cases hp : s.step > 0
  · have hn : ¬ s.step < 0 := by omega
    simp only [hp, if_true, hn, false_and, or_false, true_and, List.mem_map]
    have hst := up_start_eq s n hp
    have hst0 : 0 ≤ (if getStart s n < 0 then 0 else getStart s n) := by split <;> omega
    have hen : (if getStop s n > n then (n : Int) else getStop s n) ≤ n := by split <;> omega
    constructor
    · rintro ⟨y, hy, rfl⟩
      rw [upLoop_mem _ _ _ _ hp (by omega)] at hy
      obtain ⟨h1, h2, h3⟩ := hy
      have hy0 : 0 ≤ y := by omega
      rw [Int.toNat_of_nonneg hy0]
      rw [← hst]
      exact ⟨h1, (up_end_iff s n hp y hy0).mp h2, h3⟩
    · rintro ⟨h1, h2, h3⟩
      refine ⟨(x : Int), ?_, by simp⟩
      rw [upLoop_mem _ _ _ _ hp (by omega)]
      rw [← hst] at h1 h3
      exact ⟨h1, (up_end_iff s n hp x (by omega)).mpr h2, h3⟩
  · by_cases hm : s.step < 0
    · simp only [hp, if_false, hm, if_true, false_and, false_or, true_and, List.mem_map, List.mem_filter, decide_eq_true_eq]
      have hle := down_start_le s n
      have hge := down_end_eq s n hm
      constructor
      · rintro ⟨y, ⟨hy, hy0, _⟩, rfl⟩
        rw [downLoop_mem _ _ _ _ hm (by omega)] at hy
        obtain ⟨h1, h2, h3⟩ := hy
        rw [Int.toNat_of_nonneg hy0]
        have e := down_start_eq s n hm y hy0 h2
        have := (down_iff s n hm y hy0).mp ⟨h1, h2⟩
        exact ⟨this.1, this.2, e ▸ h3⟩
      · rintro ⟨h1, h2, h3⟩
        have hx0 : (0 : Int) ≤ x := by omega
        have e := down_upper_eq s n hm x hx0 h2
        have := (down_iff s n hm x hx0).mpr ⟨h1, h2⟩
        refine ⟨(x : Int), ⟨?_, hx0, by omega⟩, by simp⟩
        rw [downLoop_mem _ _ _ _ hm (by omega)]
        exact ⟨this.1, this.2, e ▸ h3⟩
    · have h0 : s.step = 0 := by omega
      simp [h0]

/-- every visited index is inside the array -/
theorem sliceIdx_lt (s : Slice) (n : Nat) : ∀ x ∈ sliceIdx s n, x < n := by
  intro x hx
  rw [sliceIdx_spec] at hx
  unfold Selected at hx
  rcases hx with ⟨hp, _, h2, _⟩ | ⟨hm, _, h2, _⟩
  · have h' : s.step ≥ 0 := by omega
    revert h2
    unfold bounds normalize clampHi clampLo
    cases s.stop <;> simp only [h', if_true] <;> (repeat' split) <;> omega
  · have h' : ¬ s.step ≥ 0 := by omega
    revert h2
    unfold bounds normalize clampHi clampLo
    cases s.start <;> simp only [h', if_false] <;> (repeat' split) <;> omega

theorem pairwise_map_toNat_lt : ∀ {l : List Int}, (∀ y ∈ l, 0 ≤ y) → l.Pairwise (· < ·) → (l.map Int.toNat).Pairwise (· < ·)
  | [], _, _ => List.Pairwise.nil
  | a :: l, h0, hp => by
    rw [List.map_cons, List.pairwise_cons]
    rw [List.pairwise_cons] at hp
    refine ⟨?_, pairwise_map_toNat_lt (fun y hy => h0 y (List.mem_cons_of_mem _ hy)) hp.2⟩
    intro b hb
    obtain ⟨y, hy, rfl⟩ := List.mem_map.mp hb
    have := hp.1 y hy
    have := h0 a (by simp)
    have := h0 y (List.mem_cons_of_mem _ hy)
    omega

theorem pairwise_map_toNat_gt : ∀ {l : List Int}, (∀ y ∈ l, 0 ≤ y) → l.Pairwise (· > ·) → (l.map Int.toNat).Pairwise (· > ·)
  | [], _, _ => List.Pairwise.nil
  | a :: l, h0, hp => by
    rw [List.map_cons, List.pairwise_cons]
    rw [List.pairwise_cons] at hp
    refine ⟨?_, pairwise_map_toNat_gt (fun y hy => h0 y (List.mem_cons_of_mem _ hy)) hp.2⟩
    intro b hb
    obtain ⟨y, hy, rfl⟩ := List.mem_map.mp hb
    have := hp.1 y hy
    have := h0 a (by simp)
    have := h0 y (List.mem_cons_of_mem _ hy)
    omega

/-- ascending for a positive step … -/
theorem sliceIdx_ascending (s : Slice) (n : Nat) (hp : s.step > 0) : (sliceIdx s n).Pairwise (· < ·) := by
  unfold sliceIdx
  simp only [hp, if_true]
  refine pairwise_map_toNat_lt ?_ (upLoop_pairwise _ _ _ _ hp)
  intro y hy
  have := upLoop_ge _ _ _ _ hp y hy
  have : 0 ≤ (if getStart s n < 0 then 0 else getStart s n) := by split <;> omega
  omega

/-- … descending for a negative one: no index is visited twice either way -/
theorem sliceIdx_descending (s : Slice) (n : Nat) (hm : s.step < 0) : (sliceIdx s n).Pairwise (· > ·) := by
  unfold sliceIdx
  have hp : ¬ s.step > 0 := by omega
  simp only [hp, if_false, hm, if_true]
  refine pairwise_map_toNat_gt ?_ ((downLoop_pairwise _ _ _ _ hm).filter _)
  intro y hy
  have := (List.mem_filter.mp hy).2
  simp only [decide_eq_true_eq] at this
  exact this.1

end JV.Model.JsonPath
