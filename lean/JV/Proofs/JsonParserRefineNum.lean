/-
  JV.Proofs.JsonParserRefineNum — second layer of the refinement proof: a number of the RFC 8259 reference, in any context, is
  read by the number sub-automaton of the model and reported as one event carrying the literal; the literal ends when the
  next character arrives or the input ends.
-/
import JV.Proofs.JsonParserRefineWs
import JV.Proofs.JsonParserNumber
namespace JV
namespace Model
namespace JsonParser
open Spec.Rfc8259 (pSign pInt pFrac pExp eSign staged afterSign)

/-! ### the DFA run as far as it goes -/

/-- run the number DFA until a character does not belong to the literal: the state reached and the rest -/
def numScan : NS → Bytes → NS × Bytes
  | ns, [] => (ns, [])
  | ns, c :: cs => match numNext ns c with
    | some ns' => numScan ns' cs
    | none => (ns, c :: cs)

def scanOK (p : NS × Bytes) : Option Bytes := if numFinal p.1 then some p.2 else none

theorem numScan_spec : ∀ (cs : Bytes) (ns f : NS) (r : Bytes), numScan ns cs = (f, r) →
    ∃ pre, cs = pre ++ r ∧ numRun ns pre = some f ∧ (∀ d r', r = d :: r' → numNext f d = none)
  | [], ns, f, r, h => by
    simp only [numScan, Prod.mk.injEq] at h
    obtain ⟨rfl, rfl⟩ := h
    exact ⟨[], rfl, rfl, by intro d r' e; cases e⟩
  | c :: cs, ns, f, r, h => by
    simp only [numScan] at h
    cases hn : numNext ns c with
    | none =>
      simp only [hn, Prod.mk.injEq] at h
      obtain ⟨rfl, rfl⟩ := h
      exact ⟨[], rfl, rfl, by intro d r' e; cases e; exact hn⟩
    | some ns' =>
      simp only [hn] at h
      obtain ⟨pre, e1, e2, e3⟩ := numScan_spec cs ns' f r h
      exact ⟨c :: pre, by simp [e1], by simp [numRun, hn, e2], e3⟩

theorem scan_exp3 (bs : Bytes) : numScan .exp3 bs = (.exp3, (takeDigits bs).2) := by
  induction bs with
  | nil => simp [numScan, Spec.Rfc8259.takeDigits]
  | cons c cs ih =>
    simp only [numScan, numNext, Spec.Rfc8259.takeDigits, isDigit_eq]
    by_cases h : Spec.Rfc8259.isDigit c = true <;> simp [h, ih]

theorem scan_frac2 (bs : Bytes) :
    numScan .fraction2 bs = match (takeDigits bs).2 with
      | [] => (.fraction2, [])
      | c :: r => if isExp c then numScan .exp1 r else (.fraction2, c :: r) := by
  induction bs with
  | nil => simp [numScan, Spec.Rfc8259.takeDigits]
  | cons c cs ih =>
    simp only [numScan, numNext, Spec.Rfc8259.takeDigits, isDigit_eq]
    by_cases h : Spec.Rfc8259.isDigit c = true
    · simp [h, ih]
    · simp only [h]; by_cases he : isExp c = true <;> simp [he]

theorem scan_int (bs : Bytes) :
    numScan .integer bs = match (takeDigits bs).2 with
      | [] => (.integer, [])
      | c :: r => if c = 46 then numScan .fraction1 r else if isExp c then numScan .exp1 r else (.integer, c :: r) := by
  induction bs with
  | nil => simp [numScan, Spec.Rfc8259.takeDigits]
  | cons c cs ih =>
    simp only [numScan, numNext, Spec.Rfc8259.takeDigits, isDigit_eq]
    by_cases h : Spec.Rfc8259.isDigit c = true
    · simp [h, ih]
    · simp only [h]
      by_cases h46 : c = 46
      · simp [h46]
      · by_cases he : isExp c = true <;> simp [he, h46]

theorem ok_exp3 (r : Bytes) : scanOK (numScan .exp3 r) = some (takeDigits r).2 := by
  simp [scan_exp3, scanOK, numFinal]

theorem ok_exp2 (r : Bytes) :
    scanOK (numScan .exp2 r) = if (takeDigits r).1 = [] then none else some (takeDigits r).2 := by
  cases r with
  | nil => simp [numScan, scanOK, numFinal, Spec.Rfc8259.takeDigits]
  | cons d ds =>
    by_cases hd : Spec.Rfc8259.isDigit d = true
    · have : numScan .exp2 (d :: ds) = numScan .exp3 ds := by simp [numScan, numNext, isDigit_eq, hd]
      rw [this, ok_exp3, takeDigits_cons_digit _ _ hd]; simp
    · have hd' : Spec.Rfc8259.isDigit d = false := by simpa using hd
      have : numScan .exp2 (d :: ds) = (.exp2, d :: ds) := by simp [numScan, numNext, isDigit_eq, hd]
      rw [this, takeDigits_cons_nondigit _ _ hd']; simp [scanOK, numFinal]

theorem ok_exp1 (r : Bytes) :
    scanOK (numScan .exp1 r) = if (takeDigits (dropSign r)).1 = [] then none else some (takeDigits (dropSign r)).2 := by
  cases r with
  | nil => simp [numScan, scanOK, numFinal, Spec.Rfc8259.takeDigits, dropSign]
  | cons c cs =>
    by_cases h45 : c = 45
    · subst h45
      have : numScan .exp1 (45 :: cs) = numScan .exp2 cs := by simp [numScan, numNext]
      rw [this, ok_exp2]; rfl
    · by_cases h43 : c = 43
      · subst h43
        have : numScan .exp1 (43 :: cs) = numScan .exp2 cs := by simp [numScan, numNext]
        rw [this, ok_exp2]; rfl
      · rw [dropSign_other c cs h43 h45]
        by_cases hd : Spec.Rfc8259.isDigit c = true
        · have : numScan .exp1 (c :: cs) = numScan .exp3 cs := by simp [numScan, numNext, isDigit_eq, hd, h43, h45]
          rw [this, ok_exp3, takeDigits_cons_digit _ _ hd]; simp
        · have hd' : Spec.Rfc8259.isDigit c = false := by simpa using hd
          have : numScan .exp1 (c :: cs) = (.exp1, c :: cs) := by simp [numScan, numNext, isDigit_eq, hd, h43, h45]
          rw [this, takeDigits_cons_nondigit _ _ hd']; simp [scanOK, numFinal]

theorem ok_frac2 (r : Bytes) : scanOK (numScan .fraction2 r) = specExp (takeDigits r).2 := by
  rw [scan_frac2]
  cases h : (takeDigits r).2 with
  | nil => simp [scanOK, numFinal, specExp]
  | cons c r' =>
    simp only [specExp]
    by_cases he : isExp c = true
    · simp only [he, if_true]; exact ok_exp1 r'
    · simp [he, scanOK, numFinal]

theorem ok_frac1 (r : Bytes) :
    scanOK (numScan .fraction1 r) = if (takeDigits r).1 = [] then none else specExp (takeDigits r).2 := by
  cases r with
  | nil => simp [numScan, scanOK, numFinal, Spec.Rfc8259.takeDigits]
  | cons d ds =>
    by_cases hd : Spec.Rfc8259.isDigit d = true
    · have : numScan .fraction1 (d :: ds) = numScan .fraction2 ds := by simp [numScan, numNext, isDigit_eq, hd]
      rw [this, ok_frac2, takeDigits_cons_digit _ _ hd]; simp
    · have hd' : Spec.Rfc8259.isDigit d = false := by simpa using hd
      have : numScan .fraction1 (d :: ds) = (.fraction1, d :: ds) := by simp [numScan, numNext, isDigit_eq, hd]
      rw [this, takeDigits_cons_nondigit _ _ hd']; simp [scanOK, numFinal]

/-- what follows the integer part, from a state `st` in which the number may end -/
theorem ok_after_int (st : NS) (hst : numFinal st = true) (s2 : Bytes) :
    scanOK (match s2 with
      | [] => (st, [])
      | c :: r => if c = 46 then numScan .fraction1 r else if isExp c then numScan .exp1 r else (st, c :: r)) =
      (specFrac s2).bind specExp := by
  cases s2 with
  | nil => simp [scanOK, hst, specFrac, specExp]
  | cons c r =>
    by_cases h46 : c = 46
    · subst h46
      simp only [if_true, specFrac]
      rw [ok_frac1]
      by_cases h1 : (takeDigits r).1 = [] <;> simp [h1]
    · have hf : specFrac (c :: r) = some (c :: r) := by unfold specFrac; split <;> simp_all
      simp only [h46, if_false, hf, Option.bind_some, specExp]
      by_cases he : isExp c = true
      · simp only [he, if_true]; exact ok_exp1 r
      · simp [he, scanOK, hst]

theorem ok_int (r : Bytes) : scanOK (numScan .integer r) = (specFrac (takeDigits r).2).bind specExp := by
  rw [scan_int]; exact ok_after_int .integer rfl _

theorem ok_zero (r : Bytes) : scanOK (numScan .zero r) = (specFrac r).bind specExp := by
  rw [← ok_after_int .zero rfl r]
  cases r with
  | nil => rfl
  | cons c cs =>
    simp only [numScan, numNext]
    by_cases h46 : c = 46
    · simp [h46]
    · by_cases he : isExp c = true <;> simp [he, h46]

theorem ok_minus (r : Bytes) : scanOK (numScan .minus r) = (specInt r).bind fun s2 => (specFrac s2).bind specExp := by
  cases r with
  | nil => simp [numScan, scanOK, numFinal, specInt]
  | cons c cs =>
    by_cases h19 : 49 ≤ c ∧ c ≤ 57
    · have h48 : c ≠ 48 := by omega
      have : numScan .minus (c :: cs) = numScan .integer cs := by simp [numScan, numNext, h19]
      rw [this, ok_int]; simp [specInt, h19, h48]
    · by_cases h48 : c = 48
      · subst h48
        have : numScan .minus (48 :: cs) = numScan .zero cs := by simp [numScan, numNext]
        rw [this, ok_zero]; simp [specInt]
      · have : numScan .minus (c :: cs) = (.minus, c :: cs) := by simp [numScan, numNext, h19, h48]
        rw [this]; simp [specInt, h19, h48, scanOK, numFinal]

/-- the DFA, started on the first character, stops exactly where the reference's number production stops -/
theorem ok_start (c : Nat) (cs : Bytes) (ns0 : NS) (h : numStart c = some ns0) : scanOK (numScan ns0 cs) = specRest (c :: cs) := by
  unfold numStart at h
  by_cases h45 : c = 45
  · subst h45
    simp at h; subst h
    rw [ok_minus]; rfl
  · have hd : dropMinus (c :: cs) = c :: cs := by unfold dropMinus; split <;> simp_all
    simp only [h45, if_false] at h
    by_cases h48 : c = 48
    · subst h48
      simp at h; subst h
      rw [ok_zero, specRest, hd]; simp [specInt]
    · simp only [h48, if_false] at h
      by_cases h19 : 49 ≤ c ∧ c ≤ 57
      · simp only [h19, and_self, if_true, Option.some.injEq] at h; subst h
        rw [ok_int, specRest, hd]; simp [specInt, h19, h48]
      · simp [h19] at h

/-! ### the literal is the consumed prefix -/

theorem pInt_split (s a t : Bytes) (h : pInt s = some (a, t)) : s = a ++ t := by
  match s with
  | [] => simp [pInt] at h
  | c :: cs =>
    simp only [pInt] at h
    by_cases h48 : c = 48
    · simp only [h48, if_true, Option.some.injEq, Prod.mk.injEq] at h
      obtain ⟨rfl, rfl⟩ := h; simp [h48]
    · simp only [h48, if_false] at h
      by_cases hd : 49 ≤ c ∧ c ≤ 57
      · simp only [hd, and_self, if_true, Option.some.injEq, Prod.mk.injEq] at h
        obtain ⟨rfl, rfl⟩ := h
        simp [takeDigits_append cs]
      · simp [hd] at h

theorem pFrac_split (s a t : Bytes) (h : pFrac s = some (a, t)) : s = a ++ t := by
  unfold pFrac at h
  split at h
  · rename_i r
    simp only at h
    by_cases hd : (Spec.Rfc8259.takeDigits r).1 = []
    · simp [hd] at h
    · simp only [hd, if_false, Option.some.injEq, Prod.mk.injEq] at h
      obtain ⟨rfl, rfl⟩ := h
      simp [takeDigits_append r]
  · simp only [Option.some.injEq, Prod.mk.injEq] at h
    obtain ⟨rfl, rfl⟩ := h; simp

theorem eSign_split (r : Bytes) : r = (eSign r).1 ++ (eSign r).2 := by
  unfold eSign; split <;> simp

theorem pExp_split (s a t : Bytes) (h : pExp s = some (a, t)) : s = a ++ t := by
  match s with
  | [] =>
    have : a = [] ∧ t = [] := by simpa [pExp, eq_comm] using h
    simp [this.1, this.2]
  | e :: r =>
    simp only [Spec.Rfc8259.pExp_cons] at h
    by_cases he : (e = 101 || e = 69) = true
    · simp only [he, if_true] at h
      by_cases hd : (Spec.Rfc8259.takeDigits (eSign r).2).1 = []
      · simp [hd] at h
      · simp only [hd, if_false, Option.some.injEq, Prod.mk.injEq] at h
        obtain ⟨rfl, rfl⟩ := h
        have h1 := eSign_split r
        have h2 := takeDigits_append (eSign r).2
        simp only [List.cons_append, List.append_assoc, List.cons.injEq, true_and]
        rw [h2]; exact h1
    · simp only [he, Bool.false_eq_true, if_false, Option.some.injEq, Prod.mk.injEq] at h
      obtain ⟨rfl, rfl⟩ := h; simp

theorem pSign_split (s : Bytes) : s = (pSign s).1 ++ (pSign s).2 := by
  unfold pSign; split <;> simp

/-- the reference's literal and rest are a split of the input -/
theorem parseNumber_split (s l t : Bytes) (h : Spec.Rfc8259.parseNumber s = some (l, t)) : s = l ++ t := by
  rw [Spec.Rfc8259.parseNumber_staged, Spec.Rfc8259.staged_eq] at h
  unfold afterSign at h
  cases h1 : pInt (pSign s).2 with
  | none => simp [h1] at h
  | some p1 =>
    obtain ⟨ip, s2⟩ := p1
    simp only [h1] at h
    cases h2 : pFrac s2 with
    | none => simp [h2] at h
    | some p2 =>
      obtain ⟨fp, s3⟩ := p2
      simp only [h2] at h
      cases h3 : pExp s3 with
      | none => simp [h3] at h
      | some p3 =>
        obtain ⟨ep, s4⟩ := p3
        simp only [h3, Option.some.injEq, Prod.mk.injEq] at h
        obtain ⟨rfl, rfl⟩ := h
        have e0 := pSign_split s
        have e1 := pInt_split _ _ _ h1
        have e2 := pFrac_split _ _ _ h2
        have e3 := pExp_split _ _ _ h3
        calc s = (pSign s).1 ++ (pSign s).2 := e0
          _ = (pSign s).1 ++ ip ++ fp ++ ep ++ s4 := by rw [e1, e2, e3]; simp

/-! ### integer or fraction -/

def isIntNS : NS → Bool
  | .minus | .zero | .integer => true
  | _ => false

/-- the characters that make a literal a "fraction" for the visitor: '.', 'e', 'E' -/
def fracCh (c : Nat) : Bool := c = 46 || c = 101 || c = 69

theorem numNext_int (ns ns' : NS) (c : Nat) (h : numNext ns c = some ns') :
    isIntNS ns' = (isIntNS ns && !fracCh c) := by
  unfold numNext at h
  cases ns <;> simp only [] at h <;> (repeat' split at h) <;> cases h <;> simp_all [isIntNS, fracCh, isExp, isDigit] <;> omega

theorem numRun_int : ∀ (pre : Bytes) (ns f : NS), numRun ns pre = some f → isIntNS f = (isIntNS ns && !pre.any fracCh)
  | [], ns, f, h => by simp [numRun] at h; subst h; simp
  | c :: cs, ns, f, h => by
    simp only [numRun] at h
    cases hn : numNext ns c with
    | none => simp [hn] at h
    | some ns' =>
      simp only [hn] at h
      rw [numRun_int cs ns' f h, numNext_int ns ns' c hn]
      simp [Bool.and_assoc]

theorem numStart_int (c : Nat) (ns0 : NS) (h : numStart c = some ns0) : isIntNS ns0 = true ∧ fracCh c = false := by
  unfold numStart at h
  (repeat' split at h) <;> cases h <;> simp_all [isIntNS, fracCh] <;> omega

/-- the event a number literal is reported as -/
def numEv (lit : Bytes) : Ev := if lit.any fracCh then .frac lit else .int lit

/-! ### the end of a number -/

/-- `end_integer_value` / `end_fraction_value` according to the sub-state -/
def endNum (s : St) : St := if isIntNS s.ns then endInteger s else endFraction s

theorem endNum_ctx {stk n} (h : Ctx stk n) (s : St) (hs : s.stack = stk) :
    endNum s = { s with st := afterSt n, evs := (if isIntNS s.ns then Ev.int s.buf else Ev.frac s.buf) :: s.evs } := by
  unfold endNum endInteger endFraction
  by_cases hi : isIntNS s.ns = true <;> simp only [hi, if_true, Bool.false_eq_true, if_false] <;>
    rw [afterValue_ctx h _ (by simpa [emit] using hs)] <;> simp [emit]

theorem stepNumber_end (s : St) (d : Nat) (hf : numFinal s.ns = true) (hn : numNext s.ns d = none) (hd : isDigit d = false) :
    stepNumber s d = (endNum s, false) := by
  unfold numNext at hn
  unfold stepNumber endNum
  cases hns : s.ns <;> simp [hns, numFinal] at hf <;> simp only [hns] at hn ⊢ <;> (repeat' split at hn) <;> simp_all [isIntNS]

theorem finish_eq (s : St) (he : s.err = none) : finish s =
    (if (finish1 s).err.isSome || (finish1 s).st = .done then finish1 s
     else if (finish1 (finish1 s)).err.isSome || (finish1 (finish1 s)).st = .done then finish1 (finish1 s)
     else finish1 (finish1 (finish1 s))) := by
  simp [finish, he]

/-- a number that may end here ends when the next character arrives or the input ends -/
theorem number_end (cfg : Cfg) {stk n} (hctx : Ctx stk n) (s : St) (r : Bytes) (hst : s.st = .number) (he : s.err = none)
    (hstk : s.stack = stk) (hf : numFinal s.ns = true)
    (hr : ∀ d r', r = d :: r' → numNext s.ns d = none ∧ isDigit d = false) :
    finish (feed cfg s r) = finish (feed cfg (endNum s) r) := by
  have hend := endNum_ctx hctx s hstk
  have he1 : (endNum s).err = none := by rw [hend]; exact he
  have hst1 : (endNum s).st = afterSt n := by rw [hend]
  cases r with
  | nil =>
    have h1 : finish1 s = endNum s := by
      unfold finish1 endNum
      cases hns : s.ns <;> simp [hns, numFinal] at hf <;> simp [hst, isIntNS]
    simp only [feed_nil]
    rw [finish_eq s he, h1, finish_eq (endNum s) he1]
    by_cases h0 : n = 0
    · have hst1' : (endNum s).st = .accept := by rw [hst1]; simp [afterSt, h0]
      have h2 : finish1 (endNum s) = { endNum s with st := .done } := by simp [finish1, hst1']
      simp [h2, he1, hst1']
    · have hst1' : (endNum s).st = .expectCommaOrEnd := by rw [hst1]; simp [afterSt, h0]
      have h2 : finish1 (endNum s) = fail (endNum s) eUnexpectedEof := by simp [finish1, hst1']
      simp [h2, he1, hst1', fail]
  | cons d r' =>
    obtain ⟨h1, h2⟩ := hr d r' rfl
    rw [feed_cons, feed_cons]
    congr 2
    have hstep : stepChar cfg s d = (endNum s, false) := by
      simp only [stepChar, hst]; exact stepNumber_end s d hf h1 h2
    apply feedChar_redispatch cfg s (endNum s) d he hstep he1
    apply stepChar_consumed <;> rw [hst1] <;> unfold afterSt <;> split <;> simp

/-- a number of the reference at a place where a value may start, followed by anything that is not a digit -/
theorem feed_number_value (cfg : Cfg) {stk n} (hctx : Ctx stk n) (s0 : St) (c : Nat) (cs lit r : Bytes)
    (hp : Spec.Rfc8259.parseNumber (c :: cs) = some (lit, r)) (hnd : NoDigitHead r)
    (hs : vState s0.st = true) (he : s0.err = none) (hstk : s0.stack = stk) :
    ∃ s1, finish (feed cfg s0 (c :: cs)) = finish (feed cfg s1 r) ∧ s1.st = afterSt n ∧ s1.stack = s0.stack ∧
      s1.level = s0.level ∧ s1.err = none ∧ s1.evs = numEv lit :: s0.evs := by
  obtain ⟨c', cs', e, hc⟩ := Spec.Rfc8259.parseNumber_head _ _ _ hp
  cases e
  -- the first character
  have hstart : ∃ ns0, numStart c = some ns0 ∧
      valueStart cfg s0 c = some { s0 with st := .number, ns := ns0, buf := [c] } := by
    unfold numStart valueStart
    rcases hc with rfl | hd
    · exact ⟨.minus, by simp, by simp⟩
    · simp only [Spec.Rfc8259.isDigit, Bool.and_eq_true, decide_eq_true_eq] at hd
      by_cases h48 : c = 48
      · subst h48; exact ⟨.zero, by simp, by simp⟩
      · have h19 : 49 ≤ c ∧ c ≤ 57 := by omega
        have h1 : c ≠ 123 := by omega
        have h2 : c ≠ 91 := by omega
        have h3 : c ≠ 34 := by omega
        have h4 : c ≠ 45 := by omega
        exact ⟨.integer, by simp [h4, h48, h19], by simp [h1, h2, h3, h4, h48, h19]⟩
  obtain ⟨ns0, hns0, hv⟩ := hstart
  have hrest : specRest (c :: cs) = some r := by rw [← parseNumber_rest, hp]; rfl
  rw [← ok_start c cs ns0 hns0] at hrest
  unfold scanOK at hrest
  cases hsc : numScan ns0 cs with
  | mk f r0 =>
    rw [hsc] at hrest
    by_cases hf : numFinal f = true
    · simp only [hf, if_true, Option.some.injEq] at hrest
      subst hrest
      obtain ⟨pre, e1, e2, e3⟩ := numScan_spec cs ns0 f r0 hsc
      have hlit : lit = c :: pre := by
        have := parseNumber_split _ _ _ hp
        rw [e1, ← List.cons_append] at this
        exact (List.append_cancel_right this).symm
      -- the model reads the literal
      let sN : St := { s0 with st := .number, ns := ns0, buf := [c] }
      have hfeed : feed cfg s0 (c :: cs) = feed cfg { sN with buf := sN.buf ++ pre, ns := f } r0 := by
        rw [feed_cons, feedChar_value cfg s0 _ c hs he hv, e1, feed_append]
        rw [feed_number cfg pre sN f rfl he e2]
      let sE : St := { sN with buf := sN.buf ++ pre, ns := f }
      have hfin := number_end cfg hctx sE r0 rfl he hstk hf (by
        intro d r' e; exact ⟨e3 d r' e, hnd d r' e⟩)
      refine ⟨endNum sE, by rw [hfeed]; exact hfin, ?_⟩
      rw [endNum_ctx hctx sE hstk]
      refine ⟨rfl, rfl, rfl, he, ?_⟩
      have hint := numRun_int pre ns0 f e2
      obtain ⟨i1, i2⟩ := numStart_int c ns0 hns0
      simp only [sE, sN, List.cons.injEq, and_true]
      rw [hlit]
      unfold numEv
      simp only [List.any_cons, i2, Bool.false_or, List.singleton_append]
      rw [hint, i1]
      cases hany : pre.any fracCh <;> simp
    · simp [hf] at hrest

end JsonParser
end Model
end JV
