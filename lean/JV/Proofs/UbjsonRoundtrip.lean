/-
  JV.Proofs.UbjsonRoundtrip — what the UBJSON encoder model writes, the reference UBJSON decoder (JV.Spec.Ubjson,
  the one the real decoder is judged by in C07) reads back, under the documented mapping (a byte string travels as
  a typed array of uint8 and comes back as an array of integers).
-/
import JV.Model.Ubjson
import JV.Proofs.MsgpackRoundtrip
namespace JV
namespace Model
namespace Ubjson
open Spec Spec.Ubjson
open Spec.Cbor (BV Res beVal f32ToF64)
open Cbor (CV beBytes narrowF32 DoubleOK)
open Msgpack (length_beBytes takeN_append takeN_be takeN_one beVal_one beVal_beBytes2 beVal_beBytes4 beVal_beBytes8
  toSigned8 toSigned16 toSigned32 toSigned64)

/-- an item: a type marker followed by its payload (`Spec.Ubjson.decode s = item (3 * s.length + 3) s`) -/
def item (fuel : Nat) (s : Bytes) : Res BV :=
  match s with
  | [] => .illformed
  | m :: r => valueOf fuel m r

theorem decode_eq_item (s : Bytes) : Spec.Ubjson.decode s = item (3 * s.length + 3) s := by
  cases s <;> rfl

/-! ### two's complement, non-negative side -/
theorem toSigned16_pos (n : Nat) (h : n < 2 ^ 15) : toSigned 16 n = n := by
  simp [toSigned]; omega
theorem toSigned32_pos (n : Nat) (h : n < 2 ^ 31) : toSigned 32 n = n := by
  simp [toSigned]; omega
theorem toSigned64_pos (n : Nat) (h : n < 2 ^ 63) : toSigned 64 n = n := by
  simp [toSigned]; omega

/-! ### integer payloads, per marker (any tail) -/
theorem intOf_i (b : Nat) (rest : Bytes) : intOf 105 (b :: rest) = some (toSigned 8 b, rest) := by
  simp [intOf, takeN_one, beVal_one]
theorem intOf_U (b : Nat) (rest : Bytes) : intOf 85 (b :: rest) = some ((b : Int), rest) := by
  simp [intOf, takeN_one, beVal_one]
theorem intOf_I_gen (s : Bytes) : intOf 73 s = (takeN 2 s).map fun p => (toSigned 16 (beVal p.1), p.2) := by
  simp [intOf]
theorem intOf_l_gen (s : Bytes) : intOf 108 s = (takeN 4 s).map fun p => (toSigned 32 (beVal p.1), p.2) := by
  simp [intOf]
theorem intOf_L_gen (s : Bytes) : intOf 76 s = (takeN 8 s).map fun p => (toSigned 64 (beVal p.1), p.2) := by
  simp [intOf]
theorem intOf_I (n : Nat) (rest : Bytes) (h : n < 2 ^ 16) : intOf 73 (beBytes 2 n ++ rest) = some (toSigned 16 n, rest) := by
  rw [intOf_I_gen, takeN_be]; simp only [Option.map, beVal_beBytes2 n h]
theorem intOf_l (n : Nat) (rest : Bytes) (h : n < 2 ^ 32) : intOf 108 (beBytes 4 n ++ rest) = some (toSigned 32 n, rest) := by
  rw [intOf_l_gen, takeN_be]; simp only [Option.map, beVal_beBytes4 n h]
theorem intOf_L (n : Nat) (rest : Bytes) (h : n < 2 ^ 64) : intOf 76 (beBytes 8 n ++ rest) = some (toSigned 64 n, rest) := by
  rw [intOf_L_gen, takeN_be]; simp only [Option.map, beVal_beBytes8 n h]

/-- an integer item: marker + payload → the integer -/
theorem valueOf_int (fuel m : Nat) (s : Bytes) (hm : m = 105 ∨ m = 85 ∨ m = 73 ∨ m = 108 ∨ m = 76) :
    valueOf (fuel + 1) m s = (match intOf m s with | none => .illformed | some (v, r) => .ok (.int v "") r) := by
  cases s <;> rcases hm with h | h | h | h | h <;> subst h <;> simp [valueOf] <;> rfl

/-- `put_length n` followed by anything is one integer item denoting n: as a length … -/
theorem length_putLength (n : Nat) (h : n < 2 ^ 63) (rest : Bytes) :
    Spec.Ubjson.length (putLength n ++ rest) = some (n, rest) := by
  unfold putLength
  by_cases h1 : n ≤ 0xff
  · simp only [h1, if_true, List.cons_append, List.nil_append, Spec.Ubjson.length, intOf_U]
    simp
  · by_cases h2 : n ≤ 0x7fff
    · simp only [h1, h2, if_true, if_false, List.cons_append, Spec.Ubjson.length, intOf_I n rest (by omega), toSigned16_pos n (by omega)]
      simp
    · by_cases h3 : n ≤ 0x7fffffff
      · simp only [h1, h2, h3, if_true, if_false, List.cons_append, Spec.Ubjson.length, intOf_l n rest (by omega), toSigned32_pos n (by omega)]
        simp
      · simp only [h1, h2, h3, if_false, List.cons_append, Spec.Ubjson.length, intOf_L n rest (by omega), toSigned64_pos n (by omega)]
        simp

/-- … and as a value -/
theorem item_putLength (fuel n : Nat) (h : n < 2 ^ 63) (rest : Bytes) :
    item (fuel + 1) (putLength n ++ rest) = .ok (.int n "") rest := by
  unfold putLength
  by_cases h1 : n ≤ 0xff
  · simp only [h1, if_true, List.cons_append, List.nil_append, item]
    rw [valueOf_int _ _ _ (by simp), intOf_U]
  · by_cases h2 : n ≤ 0x7fff
    · simp only [h1, h2, if_true, if_false, List.cons_append, item]
      rw [valueOf_int _ _ _ (by simp), intOf_I n rest (by omega), toSigned16_pos n (by omega)]
    · by_cases h3 : n ≤ 0x7fffffff
      · simp only [h1, h2, h3, if_true, if_false, List.cons_append, item]
        rw [valueOf_int _ _ _ (by simp), intOf_l n rest (by omega), toSigned32_pos n (by omega)]
      · simp only [h1, h2, h3, if_false, List.cons_append, item]
        rw [valueOf_int _ _ _ (by simp), intOf_L n rest (by omega), toSigned64_pos n (by omega)]

/-! ### integers: every value in [-2^63, 2^63) -/
theorem item_int (fuel : Nat) (i : Int) (rest : Bytes) (hlo : -(2 ^ 63 : Int) ≤ i) (hhi : i < 2 ^ 63) :
    item (fuel + 1) (writeInt i ++ rest) = .ok (.int i "") rest := by
  unfold writeInt
  by_cases hv : i ≥ 0
  · have e : ((i.toNat : Nat) : Int) = i := Int.toNat_of_nonneg hv
    simp only [hv, if_true]
    rw [item_putLength fuel i.toNat (by omega) rest, e]
  · simp only [hv, if_false]
    by_cases h2 : i ≥ -128
    · simp only [h2, if_true, List.cons_append, List.nil_append, item]
      rw [valueOf_int _ _ _ (by simp), intOf_i, toSigned8 i (by omega) (by omega)]
    · by_cases h3 : i ≥ -32768
      · simp only [h2, h3, if_true, if_false, List.cons_append, item]
        have hb : (65536 + i).toNat < 2 ^ 16 := by omega
        rw [valueOf_int _ _ _ (by simp), intOf_I _ rest hb, toSigned16 i (by omega) (by omega)]
      · by_cases h4 : i ≥ -2147483648
        · simp only [h2, h3, h4, if_true, if_false, List.cons_append, item]
          have hb : (4294967296 + i).toNat < 2 ^ 32 := by omega
          rw [valueOf_int _ _ _ (by simp), intOf_l _ rest hb, toSigned32 i (by omega) (by omega)]
        · simp only [h2, h3, h4, if_false, List.cons_append, item]
          have hb : (18446744073709551616 + i).toNat < 2 ^ 64 := by omega
          rw [valueOf_int _ _ _ (by simp), intOf_L _ rest hb, toSigned64 i (by omega) (by omega)]

/-! ### doubles -/
theorem valueOf_d (fuel : Nat) (s : Bytes) :
    valueOf (fuel + 1) 100 s = (match takeN 4 s with | none => .illformed | some (d, r) => .ok (.dbl (f32ToF64 (beVal d)) "") r) := by
  cases s <;> simp [valueOf] <;> rfl
theorem valueOf_D (fuel : Nat) (s : Bytes) :
    valueOf (fuel + 1) 68 s = (match takeN 8 s with | none => .illformed | some (d, r) => .ok (.dbl (beVal d) "") r) := by
  cases s <;> simp [valueOf] <;> rfl

theorem item_double (fuel : Nat) (b : Nat) (rest : Bytes) (h : DoubleOK b) :
    item (fuel + 1) (encodeDouble b ++ rest) = .ok (.dbl b "") rest := by
  unfold encodeDouble
  cases hn : narrowF32 b with
  | none =>
    simp only [List.cons_append, item]
    rw [valueOf_D, takeN_be]
    simp only [beVal_beBytes8 b h.1]
  | some f =>
    obtain ⟨hf, hw⟩ := h.2 f hn
    simp only [List.cons_append, item]
    rw [valueOf_d, takeN_be]
    simp only [beVal_beBytes4 f hf, hw]

/-! ### text -/
theorem valueOf_S (fuel : Nat) (s : Bytes) :
    valueOf (fuel + 1) 83 s =
      (match Spec.Ubjson.length s with
       | none => .illformed
       | some (n, r) => match takeN n r with
         | none => .illformed
         | some (d, r') => if Rfc8259.validUtf8 d then .ok (.str d "") r' else .illformed) := by
  cases s <;> simp [valueOf] <;> rfl

theorem item_text (fuel : Nat) (s rest : Bytes) (hl : s.length < 2 ^ 63) (hv : Rfc8259.validUtf8 s = true) :
    item (fuel + 1) (83 :: (putLength s.length ++ s) ++ rest) = .ok (.str s "") rest := by
  simp only [List.cons_append, List.append_assoc, item]
  rw [valueOf_S, length_putLength s.length hl]
  simp only [takeN_append, hv, if_true]

/-! ### containers -/
theorem valueOf_arr (fuel : Nat) (s : Bytes) : valueOf (fuel + 1) 91 s = container fuel true s := by cases s <;> simp [valueOf]
theorem valueOf_obj (fuel : Nat) (s : Bytes) : valueOf (fuel + 1) 123 s = container fuel false s := by cases s <;> simp [valueOf]

theorem container_counted_arr (fuel n : Nat) (h : n < 2 ^ 63) (body : Bytes) :
    container (fuel + 1) true (35 :: (putLength n ++ body)) = wrapArr (countedItems fuel n body) := by
  simp [container, length_putLength n h]

theorem container_counted_obj (fuel n : Nat) (h : n < 2 ^ 63) (body : Bytes) :
    container (fuel + 1) false (35 :: (putLength n ++ body)) = wrapMap (countedMembers fuel n body) := by
  simp [container, length_putLength n h]

theorem container_typed_u8 (fuel n : Nat) (h : n < 2 ^ 63) (body : Bytes) :
    container (fuel + 1) true (36 :: 85 :: 35 :: (putLength n ++ body)) = wrapArr (typedItems fuel 85 n body) := by
  simp [container, length_putLength n h]

/-- the payload of a `[$U#n` array: n raw bytes, each read as one unsigned integer -/
theorem typedItems_u8 : ∀ (b rest : Bytes) (fuel : Nat), b.length + 1 ≤ fuel →
    typedItems fuel 85 b.length (b ++ rest) = .ok (List.map (fun x : Nat => BV.int (x : Int) "") b) rest
  | [], rest, fuel, _ => by cases fuel <;> simp [typedItems]
  | x :: b, rest, fuel, hf => by
    obtain ⟨f, rfl⟩ : ∃ f, fuel = f + 1 := ⟨fuel - 1, by simp at hf; omega⟩
    obtain ⟨g, rfl⟩ : ∃ g, f = g + 1 := ⟨f - 1, by simp at hf; omega⟩
    have ih := typedItems_u8 b rest (g + 1) (by simp at hf; omega)
    have hx : valueOf (g + 1) 85 (x :: (b ++ rest)) = .ok (.int (x : Int) "") (b ++ rest) := by
      rw [valueOf_int _ _ _ (by simp), intOf_U]
    simp only [List.length_cons, List.cons_append, typedItems, hx, ih, List.map]

theorem valueOf_Z (fuel : Nat) (s : Bytes) : valueOf (fuel + 1) 90 s = .ok .null s := by cases s <;> simp [valueOf]
theorem valueOf_T (fuel : Nat) (s : Bytes) : valueOf (fuel + 1) 84 s = .ok (.bool true) s := by cases s <;> simp [valueOf]
theorem valueOf_F (fuel : Nat) (s : Bytes) : valueOf (fuel + 1) 70 s = .ok (.bool false) s := by cases s <;> simp [valueOf]

/-! ### every item starts with a type marker, never with the no-op 'N' -/
theorem putLength_cons (n : Nat) : ∃ m r, putLength n = m :: r ∧ isNoop m = false := by
  unfold putLength
  repeat' split
  all_goals exact ⟨_, _, rfl, by decide⟩

theorem encode_cons (v : CV) : ∃ m r, encode v = m :: r ∧ isNoop m = false := by
  cases v with
  | null => exact ⟨90, [], by simp [encode], by decide⟩
  | bool b => cases b <;> simp only [encode] <;> exact ⟨_, _, rfl, by decide⟩
  | int i =>
    simp only [encode]
    unfold writeInt
    split
    · exact putLength_cons _
    · repeat' split
      all_goals exact ⟨_, _, rfl, by decide⟩
  | dbl b =>
    simp only [encode]
    unfold encodeDouble
    split <;> exact ⟨_, _, rfl, by decide⟩
  | str s => simp only [encode]; exact ⟨_, _, rfl, by decide⟩
  | bytes b => simp only [encode]; exact ⟨_, _, rfl, by decide⟩
  | arr xs => simp only [encode]; exact ⟨_, _, rfl, by decide⟩
  | map ms => simp only [encode]; exact ⟨_, _, rfl, by decide⟩

/-! ### the documented mapping, the domain, the fuel -/
mutual
  /-- what decode(encode(v)) is documented to be: everything itself, except that a byte string comes back as an array of its bytes -/
  def toBVu : CV → BV
    | .null => .null
    | .bool b => .bool b
    | .int i => .int i ""
    | .dbl b => .dbl b ""
    | .str s => .str s ""
    | .bytes b => .arr (List.map (fun x : Nat => BV.int (x : Int) "") b)
    | .arr xs => .arr (toBVuList xs)
    | .map ms => .map (toBVuMembers ms)
  def toBVuList : List CV → List BV
    | [] => []
    | x :: xs => toBVu x :: toBVuList xs
  def toBVuMembers : List (Bytes × CV) → List (Bytes × BV)
    | [] => []
    | (k, x) :: ms => (k, toBVu x) :: toBVuMembers ms
end

mutual
  /-- integers in [-2^63, 2^63) (UBJSON has no uint64), doubles on which the float32 shortcut is lossless, valid UTF-8 text,
      every length below 2^63 (a length is a signed 64-bit integer item at most) -/
  def OKu : CV → Prop
    | .int i => -(2 ^ 63 : Int) ≤ i ∧ i < 2 ^ 63
    | .dbl b => DoubleOK b
    | .str s => s.length < 2 ^ 63 ∧ Spec.Rfc8259.validUtf8 s = true
    | .bytes b => b.length < 2 ^ 63
    | .arr xs => xs.length < 2 ^ 63 ∧ OKuList xs
    | .map ms => ms.length < 2 ^ 63 ∧ OKuMembers ms
    | _ => True
  def OKuList : List CV → Prop
    | [] => True
    | x :: xs => OKu x ∧ OKuList xs
  def OKuMembers : List (Bytes × CV) → Prop
    | [] => True
    | (k, x) :: ms => (k.length < 2 ^ 63 ∧ Spec.Rfc8259.validUtf8 k = true) ∧ OKu x ∧ OKuMembers ms
end

mutual
  def needU : CV → Nat
    | .bytes b => b.length + 3
    | .arr xs => 2 + needUList xs
    | .map ms => 2 + needUMembers ms
    | _ => 1
  def needUList : List CV → Nat
    | [] => 0
    | x :: xs => 1 + max (needU x) (needUList xs)
  def needUMembers : List (Bytes × CV) → Nat
    | [] => 0
    | (_, x) :: ms => 1 + max (needU x) (needUMembers ms)
end

/-! ### the theorem -/
mutual
  theorem enc_dec : ∀ (v : CV) (rest : Bytes) (fuel : Nat), OKu v → needU v ≤ fuel →
      item fuel (encode v ++ rest) = .ok (toBVu v) rest
    | .null, rest, fuel, _, hf => by
      obtain ⟨f, rfl⟩ : ∃ f, fuel = f + 1 := ⟨fuel - 1, by simp [needU] at hf; omega⟩
      simp [encode, item, valueOf_Z, toBVu]
    | .bool b, rest, fuel, _, hf => by
      obtain ⟨f, rfl⟩ : ∃ f, fuel = f + 1 := ⟨fuel - 1, by simp [needU] at hf; omega⟩
      cases b <;> simp [encode, item, valueOf_T, valueOf_F, toBVu]
    | .int i, rest, fuel, h, hf => by
      obtain ⟨f, rfl⟩ : ∃ f, fuel = f + 1 := ⟨fuel - 1, by simp [needU] at hf; omega⟩
      have h' : -(2 ^ 63 : Int) ≤ i ∧ i < 2 ^ 63 := by simpa [OKu] using h
      simpa [encode, toBVu] using item_int f i rest h'.1 h'.2
    | .dbl b, rest, fuel, h, hf => by
      obtain ⟨f, rfl⟩ : ∃ f, fuel = f + 1 := ⟨fuel - 1, by simp [needU] at hf; omega⟩
      have h' : DoubleOK b := by simpa [OKu] using h
      simpa [encode, toBVu] using item_double f b rest h'
    | .str s, rest, fuel, h, hf => by
      obtain ⟨f, rfl⟩ : ∃ f, fuel = f + 1 := ⟨fuel - 1, by simp [needU] at hf; omega⟩
      have h' : s.length < 2 ^ 63 ∧ Spec.Rfc8259.validUtf8 s = true := by simpa [OKu] using h
      simpa [encode, toBVu] using item_text f s rest h'.1 h'.2
    | .bytes b, rest, fuel, h, hf => by
      obtain ⟨f, rfl⟩ : ∃ f, fuel = f + 2 := ⟨fuel - 2, by simp [needU] at hf; omega⟩
      have h' : b.length < 2 ^ 63 := by simpa [OKu] using h
      have hf' : b.length + 1 ≤ f := by simp [needU] at hf; omega
      simp only [encode, List.cons_append, List.append_assoc, item]
      rw [valueOf_arr, container_typed_u8 f b.length h', typedItems_u8 b rest f hf']
      simp [wrapArr, toBVu]
    | .arr xs, rest, fuel, h, hf => by
      obtain ⟨f, rfl⟩ : ∃ f, fuel = f + 2 := ⟨fuel - 2, by simp [needU] at hf; omega⟩
      have h' : xs.length < 2 ^ 63 ∧ OKuList xs := by simpa [OKu] using h
      have hf' : needUList xs ≤ f := by simp [needU] at hf; omega
      have ih := encList_dec xs rest f h'.2 hf'
      simp only [encode, List.cons_append, List.append_assoc, item]
      rw [valueOf_arr, container_counted_arr f xs.length h'.1, ih]
      simp [wrapArr, toBVu]
    | .map ms, rest, fuel, h, hf => by
      obtain ⟨f, rfl⟩ : ∃ f, fuel = f + 2 := ⟨fuel - 2, by simp [needU] at hf; omega⟩
      have h' : ms.length < 2 ^ 63 ∧ OKuMembers ms := by simpa [OKu] using h
      have hf' : needUMembers ms ≤ f := by simp [needU] at hf; omega
      have ih := encMembers_dec ms rest f h'.2 hf'
      simp only [encode, List.cons_append, List.append_assoc, item]
      rw [valueOf_obj, container_counted_obj f ms.length h'.1, ih]
      simp [wrapMap, toBVu]
  theorem encList_dec : ∀ (xs : List CV) (rest : Bytes) (fuel : Nat), OKuList xs → needUList xs ≤ fuel →
      countedItems fuel xs.length (encodeList xs ++ rest) = .ok (toBVuList xs) rest
    | [], rest, fuel, _, _ => by cases fuel <;> simp [countedItems, encodeList, toBVuList]
    | x :: xs, rest, fuel, h, hf => by
      obtain ⟨f, rfl⟩ : ∃ f, fuel = f + 1 := ⟨fuel - 1, by simp [needUList] at hf; omega⟩
      have hx : needU x ≤ f := by simp [needUList] at hf; omega
      have hxs : needUList xs ≤ f := by simp [needUList] at hf; omega
      have i1 := enc_dec x (encodeList xs ++ rest) f h.1 hx
      have i2 := encList_dec xs rest f h.2 hxs
      obtain ⟨m, r, he, hm⟩ := encode_cons x
      simp only [he, List.cons_append, item] at i1
      simp only [encodeList, List.length_cons, List.append_assoc, he, List.cons_append, countedItems, hm, i1, i2, toBVuList]
      simp
  theorem encMembers_dec : ∀ (ms : List (Bytes × CV)) (rest : Bytes) (fuel : Nat), OKuMembers ms → needUMembers ms ≤ fuel →
      countedMembers fuel ms.length (encodeMembers ms ++ rest) = .ok (toBVuMembers ms) rest
    | [], rest, fuel, _, _ => by cases fuel <;> simp [countedMembers, encodeMembers, toBVuMembers]
    | (k, x) :: ms, rest, fuel, h, hf => by
      obtain ⟨f, rfl⟩ : ∃ f, fuel = f + 1 := ⟨fuel - 1, by simp [needUMembers] at hf; omega⟩
      have hx : needU x ≤ f := by simp [needUMembers] at hf; omega
      have hms : needUMembers ms ≤ f := by simp [needUMembers] at hf; omega
      have i1 := enc_dec x (encodeMembers ms ++ rest) f h.2.1 hx
      have i2 := encMembers_dec ms rest f h.2.2 hms
      obtain ⟨m, r, he, _⟩ := encode_cons x
      simp only [he, List.cons_append, item] at i1
      simp only [encodeMembers, List.length_cons, List.append_assoc, countedMembers, length_putLength k.length h.1.1,
        takeN_append, h.1.2, he, List.cons_append, i1, i2, toBVuMembers]
      simp
end

end Ubjson
end Model
end JV
