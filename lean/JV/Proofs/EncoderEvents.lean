/-
  JV.Proofs.EncoderEvents — the event-driven encoder models (JV.Model.EncoderEvents) fed with the events of a value write exactly
  the bytes of the value-level encoder models (JV.Model.Cbor / Msgpack / Ubjson / Bson `encode`, each tied byte for byte to the real
  encoder by a C06 stream), and those events pass the length bookkeeping of JV.Model.EncoderLen.
-/
import JV.Model.EncoderEvents
import JV.Proofs.EncoderLen
import JV.Proofs.BsonRoundtrip
open _root_.JV.Model.Cbor (CV)
namespace JV.Model.EncoderEvents

theorem feed_append (emit : Ev → Bytes) : ∀ (a b : List Ev), feed emit (a ++ b) = feed emit a ++ feed emit b
  | [], b => by simp [feed]
  | e :: a, b => by simp [feed, feed_append emit a b]

/-! ### the events of a value, fed to the definite-length encoders, give the bytes of `encode` -/
namespace Cbor
mutual
  theorem feed_events : ∀ (v : CV), feed emit (events v) = Model.Cbor.encode v
    | .null => rfl
    | .bool _ => by simp [events, feed, emit, Model.Cbor.encode]
    | .int _ => by simp [events, feed, emit, Model.Cbor.encode]
    | .dbl _ => by simp [events, feed, emit, Model.Cbor.encode]
    | .str _ => by simp [events, feed, emit, Model.Cbor.encode]
    | .bytes _ => by simp [events, feed, emit, Model.Cbor.encode]
    | .arr xs => by simp [events, feed, feed_append, emit, Model.Cbor.encode, feed_eventsList xs]
    | .map ms => by simp [events, feed, feed_append, emit, Model.Cbor.encode, feed_eventsMembers ms]
  theorem feed_eventsList : ∀ (xs : List CV), feed emit (eventsList xs) = Model.Cbor.encodeList xs
    | [] => rfl
    | x :: xs => by simp [eventsList, feed_append, Model.Cbor.encodeList, feed_events x, feed_eventsList xs]
  theorem feed_eventsMembers : ∀ (ms : List (Bytes × CV)), feed emit (eventsMembers ms) = Model.Cbor.encodeMembers ms
    | [] => rfl
    | (k, x) :: ms => by
      simp [eventsMembers, feed, feed_append, emit, Model.Cbor.encodeMembers, feed_events x, feed_eventsMembers ms]
end
end Cbor

namespace Msgpack
mutual
  theorem feed_events : ∀ (v : CV), feed emit (events v) = Model.Msgpack.encode v
    | .null => rfl
    | .bool _ => by simp [events, feed, emit, Model.Msgpack.encode]
    | .int _ => by simp [events, feed, emit, Model.Msgpack.encode]
    | .dbl _ => by simp [events, feed, emit, Model.Msgpack.encode]
    | .str _ => by simp [events, feed, emit, Model.Msgpack.encode]
    | .bytes _ => by simp [events, feed, emit, Model.Msgpack.encode]
    | .arr xs => by simp [events, feed, feed_append, emit, Model.Msgpack.encode, feed_eventsList xs]
    | .map ms => by simp [events, feed, feed_append, emit, Model.Msgpack.encode, feed_eventsMembers ms]
  theorem feed_eventsList : ∀ (xs : List CV), feed emit (eventsList xs) = Model.Msgpack.encodeList xs
    | [] => rfl
    | x :: xs => by simp [eventsList, feed_append, Model.Msgpack.encodeList, feed_events x, feed_eventsList xs]
  theorem feed_eventsMembers : ∀ (ms : List (Bytes × CV)), feed emit (eventsMembers ms) = Model.Msgpack.encodeMembers ms
    | [] => rfl
    | (k, x) :: ms => by
      simp [eventsMembers, feed, feed_append, emit, Model.Msgpack.encodeMembers, feed_events x, feed_eventsMembers ms]
end
end Msgpack

namespace Ubjson
mutual
  theorem feed_events : ∀ (v : CV), feed emit (events v) = Model.Ubjson.encode v
    | .null => rfl
    | .bool _ => by simp [events, feed, emit, Model.Ubjson.encode]
    | .int _ => by simp [events, feed, emit, Model.Ubjson.encode]
    | .dbl _ => by simp [events, feed, emit, Model.Ubjson.encode]
    | .str _ => by simp [events, feed, emit, Model.Ubjson.encode]
    | .bytes _ => by simp [events, feed, emit, Model.Ubjson.encode]
    | .arr xs => by simp [events, feed, feed_append, emit, Model.Ubjson.encode, feed_eventsList xs]
    | .map ms => by simp [events, feed, feed_append, emit, Model.Ubjson.encode, feed_eventsMembers ms]
  theorem feed_eventsList : ∀ (xs : List CV), feed emit (eventsList xs) = Model.Ubjson.encodeList xs
    | [] => rfl
    | x :: xs => by simp [eventsList, feed_append, Model.Ubjson.encodeList, feed_events x, feed_eventsList xs]
  theorem feed_eventsMembers : ∀ (ms : List (Bytes × CV)), feed emit (eventsMembers ms) = Model.Ubjson.encodeMembers ms
    | [] => rfl
    | (k, x) :: ms => by
      simp [eventsMembers, feed, feed_append, emit, Model.Ubjson.encodeMembers, feed_events x, feed_eventsMembers ms]
end
end Ubjson

/-! ### the same events pass the length bookkeeping: every announced length is the number of items pushed -/
mutual
  def skel : CV → EncoderLen.Tree
    | .arr xs => .arr (some xs.length) (skelList xs)
    | .map ms => .obj (some ms.length) (skelMembers ms)
    | _ => .scalar
  def skelList : List CV → List EncoderLen.Tree
    | [] => []
    | x :: xs => skel x :: skelList xs
  def skelMembers : List (Bytes × CV) → List EncoderLen.Tree
    | [] => []
    | (_, x) :: ms => skel x :: skelMembers ms
end

theorem length_skelList : ∀ (xs : List CV), (skelList xs).length = xs.length
  | [] => rfl
  | _ :: xs => by simp [skelList, length_skelList xs]
theorem length_skelMembers : ∀ (ms : List (Bytes × CV)), (skelMembers ms).length = ms.length
  | [] => rfl
  | (_, _) :: ms => by simp [skelMembers, length_skelMembers ms]

mutual
  theorem shape_events : ∀ (v : CV), (events v).map shape = EncoderLen.events (skel v)
    | .null => rfl
    | .bool _ => rfl
    | .int _ => rfl
    | .dbl _ => rfl
    | .str _ => rfl
    | .bytes _ => rfl
    | .arr xs => by simp [events, skel, EncoderLen.events, shape, shape_eventsList xs]
    | .map ms => by simp [events, skel, EncoderLen.events, shape, shape_eventsMembers ms]
  theorem shape_eventsList : ∀ (xs : List CV), (eventsList xs).map shape = EncoderLen.eventsList (skelList xs)
    | [] => rfl
    | x :: xs => by simp [eventsList, skelList, EncoderLen.eventsList, shape_events x, shape_eventsList xs]
  theorem shape_eventsMembers : ∀ (ms : List (Bytes × CV)), (eventsMembers ms).map shape = EncoderLen.eventsMembers (skelMembers ms)
    | [] => rfl
    | (k, x) :: ms => by simp [eventsMembers, skelMembers, EncoderLen.eventsMembers, shape, shape_events x, shape_eventsMembers ms]
end

mutual
  theorem exact_skel : ∀ (v : CV), EncoderLen.Exact (skel v)
    | .null => trivial
    | .bool _ => trivial
    | .int _ => trivial
    | .dbl _ => trivial
    | .str _ => trivial
    | .bytes _ => trivial
    | .arr xs => ⟨by intro n h; simp at h; rw [length_skelList]; exact h.symm, exact_skelList xs⟩
    | .map ms => ⟨by intro n h; simp at h; rw [length_skelMembers]; exact h.symm, exact_skelMembers ms⟩
  theorem exact_skelList : ∀ (xs : List CV), EncoderLen.ExactList (skelList xs)
    | [] => trivial
    | x :: xs => ⟨exact_skel x, exact_skelList xs⟩
  theorem exact_skelMembers : ∀ (ms : List (Bytes × CV)), EncoderLen.ExactList (skelMembers ms)
    | [] => trivial
    | (_, x) :: ms => ⟨exact_skel x, exact_skelMembers ms⟩
end

/-- the events of any value are accepted by the count bookkeeping and leave it balanced -/
theorem events_accepted (v : CV) : EncoderLen.run [] ((events v).map shape) = .ok [] := by
  rw [shape_events]
  simpa [EncoderLen.endValue] using EncoderLen.run_exact (skel v) [] (exact_skel v)


/-! ### BSON: the stack of open containers, back-patching included -/
namespace Bson
open Model.Bson (indexName doc leBytes int32Bytes int64Bytes fitsInt32 typeCode value arrBody mapBody scalarsOK scalarsOKList scalarsOKMembers)

theorem run_append : ∀ (a b : List Ev) (st : St), run st (a ++ b) = (run st a).bind fun st' => run st' b
  | [], b, st => by simp [run]
  | e :: a, b, st => by
    simp only [List.cons_append, run]
    cases h : step st e with
    | none => simp
    | some st' => simp [run_append a b st']

theorem scalar_cons (code : Nat) (payload : Bytes) (f g : Frame) (fs : List Frame) (sink : Bytes) (h : beforeValue code f = some g) :
    scalar code payload { stack := f :: fs, sink := sink } = some { stack := { g with body := g.body ++ payload } :: fs, sink := sink } := by
  simp [scalar, h]

mutual
  theorem run_value : ∀ (x : CV) (f g : Frame) (fs : List Frame) (sink : Bytes), scalarsOK x = true →
      beforeValue (typeCode x) f = some g →
      run { stack := f :: fs, sink := sink } (events x) = some { stack := { g with body := g.body ++ value x } :: fs, sink := sink }
    | .null, f, g, fs, sink, _, hb => by
      simp [events, run, step, value, scalar_cons _ _ f g fs sink (by simpa [typeCode] using hb)]
    | .bool b, f, g, fs, sink, _, hb => by
      simp [events, run, step, value, scalar_cons _ _ f g fs sink (by simpa [typeCode] using hb)]
    | .int i, f, g, fs, sink, h, hb => by
      have hi : ¬ (i ≥ 9223372036854775808) := by simp [scalarsOK] at h; omega
      by_cases hf : fitsInt32 i = true
      · simp [events, run, step, value, hi, hf, scalar_cons _ _ f g fs sink (by simpa [typeCode, hf] using hb)]
      · have hf' : fitsInt32 i = false := by simpa using hf
        simp [events, run, step, value, hi, hf', scalar_cons _ _ f g fs sink (by simpa [typeCode, hf'] using hb)]
    | .dbl b, f, g, fs, sink, _, hb => by
      simp [events, run, step, value, scalar_cons _ _ f g fs sink (by simpa [typeCode] using hb)]
    | .str s, f, g, fs, sink, h, hb => by
      have hv : Spec.Rfc8259.validUtf8 s = true := by simpa [scalarsOK] using h
      simp [events, run, step, value, hv, scalar_cons _ _ f g fs sink (by simpa [typeCode] using hb)]
    | .bytes b, f, g, fs, sink, _, hb => by
      simp [events, run, step, value, scalar_cons _ _ f g fs sink (by simpa [typeCode] using hb)]
    | .arr xs, f, g, fs, sink, h, hb => by
      have hb' : beforeValue 4 f = some g := by simpa [typeCode] using hb
      have ih := run_list xs [] 0 none (g :: fs) sink (by simpa [scalarsOK] using h)
      simp [events, run, step, beginC, hb', run_append, ih, endC, value]
    | .map ms, f, g, fs, sink, h, hb => by
      have hb' : beforeValue 3 f = some g := by simpa [typeCode] using hb
      have ih := run_members ms [] 0 (g :: fs) sink (by simpa [scalarsOK] using h)
      simp [events, run, step, beginC, hb', run_append, ih, endC, value]
  theorem run_list : ∀ (xs : List CV) (B : Bytes) (i : Nat) (p : Option Bytes) (fs : List Frame) (sink : Bytes), scalarsOKList xs = true →
      run { stack := { isObj := false, body := B, index := i, pending := p } :: fs, sink := sink } (eventsList xs) =
        some { stack := { isObj := false, body := B ++ arrBody i xs, index := i + xs.length, pending := p } :: fs, sink := sink }
    | [], B, i, p, fs, sink, _ => by simp [eventsList, run, arrBody]
    | x :: xs, B, i, p, fs, sink, h => by
      have h' : scalarsOK x = true ∧ scalarsOKList xs = true := by simpa [scalarsOKList] using h
      have hv := run_value x { isObj := false, body := B, index := i, pending := p }
        { isObj := false, body := B ++ typeCode x :: (indexName i ++ [0]), index := i + 1, pending := p } fs sink h'.1 (by simp [beforeValue])
      have ih := run_list xs (B ++ typeCode x :: (indexName i ++ [0]) ++ value x) (i + 1) p fs sink h'.2
      simp only [eventsList, run_append, hv, Option.bind_some, ih, arrBody]
      simp [Nat.add_assoc, Nat.add_comm 1]
  theorem run_members : ∀ (ms : List (Bytes × CV)) (B : Bytes) (i : Nat) (fs : List Frame) (sink : Bytes), scalarsOKMembers ms = true →
      run { stack := { isObj := true, body := B, index := i, pending := none } :: fs, sink := sink } (eventsMembers ms) =
        some { stack := { isObj := true, body := B ++ mapBody ms, index := i, pending := none } :: fs, sink := sink }
    | [], B, i, fs, sink, _ => by simp [eventsMembers, run, mapBody]
    | (k, x) :: ms, B, i, fs, sink, h => by
      have h' : scalarsOK x = true ∧ scalarsOKMembers ms = true := by
        have h0 : (Model.Bson.nameOK k = true ∧ scalarsOK x = true) ∧ scalarsOKMembers ms = true := by simpa [scalarsOKMembers] using h
        exact ⟨h0.1.2, h0.2⟩
      have hv := run_value x { isObj := true, body := B, index := i, pending := some k }
        { isObj := true, body := B ++ typeCode x :: (k ++ [0]), index := i, pending := none } fs sink h'.1 (by simp [beforeValue])
      have ih := run_members ms (B ++ typeCode x :: (k ++ [0]) ++ value x) i fs sink h'.2
      simp only [eventsMembers, run, step, run_append, hv, Option.bind_some, ih, mapBody]
      simp
end

/-- the events of a value, fed to the BSON encoder, leave in the sink exactly the bytes of `encode` - and are refused when it is `none` -/
theorem feed_events (v : CV) (h : scalarsOK v = true) : feed (events v) = Model.Bson.encode v := by
  cases v with
  | arr xs =>
    have ih := run_list xs [] 0 none [] [] (by simpa [scalarsOK] using h)
    simp [feed, events, run, step, beginC, St.init, run_append, ih, endC, Model.Bson.encode]
  | map ms =>
    have ih := run_members ms [] 0 [] [] (by simpa [scalarsOK] using h)
    simp [feed, events, run, step, beginC, St.init, run_append, ih, endC, Model.Bson.encode]
  | null => simp [feed, events, run, step, scalar, St.init, Model.Bson.encode]
  | bool b => simp [feed, events, run, step, scalar, St.init, Model.Bson.encode]
  | int i => simp [feed, events, run, step, scalar, St.init, Model.Bson.encode]; repeat' split <;> rfl
  | dbl b => simp [feed, events, run, step, scalar, St.init, Model.Bson.encode]
  | str s => simp [feed, events, run, step, scalar, St.init, Model.Bson.encode]
  | bytes b => simp [feed, events, run, step, scalar, St.init, Model.Bson.encode]

end Bson
end JV.Model.EncoderEvents
