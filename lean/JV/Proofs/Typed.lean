/-
  JV.Proofs.Typed — the conversion is a retraction onto the typed values: converting a converted value changes nothing.
  (Typed round trip: `conv t j = ok v` says `v` is the JSON form of a value of type `t`; decoding that encoding again gives `v`.)
  Proved for the descriptors built from integers, strings, booleans, sequences, maps, tuples, pairs, fixed arrays, optionals and
  enumerations; sets, variants and structs are covered by the correspondence check only.
-/
import JV.Model.Typed
namespace JV
namespace Model
namespace Typed

mutual
  def Simple : Ty → Prop
    | .int lo hi => lo ≤ 0 ∧ 1 ≤ hi          -- every C++ integer type
    | .str => True
    | .bool => True
    | .seq t => Simple t
    | .set _ _ => False
    | .map t => Simple t
    | .tuple ts => SimpleList ts
    | .pair a b => Simple a ∧ Simple b
    | .array t _ => Simple t
    | .opt t => Simple t
    | .enum _ => True
    | .variant _ => False
    | .struct _ => False
  def SimpleList : List Ty → Prop
    | [] => True
    | t :: ts => Simple t ∧ SimpleList ts
end

theorem convList_length (t : Ty) : ∀ (xs ys : List JVal), convList t xs = .ok ys → ys.length = xs.length
  | [], ys, h => by simp [convList] at h; subst h; rfl
  | x :: xs, ys, h => by
    simp only [convList] at h
    cases hx : conv t x with
    | error e => simp [hx] at h
    | ok y =>
      simp only [hx] at h
      cases hr : convList t xs with
      | error e => simp [hr] at h
      | ok r =>
        simp only [hr, Except.ok.injEq] at h
        subst h
        simp [convList_length t xs r hr]

def Idem (t : Ty) : Prop := ∀ (j v : JVal), conv t j = .ok v → conv t v = .ok v

theorem convList_idem (t : Ty) (ih : Idem t) : ∀ (xs ys : List JVal), convList t xs = .ok ys → convList t ys = .ok ys
  | [], ys, h => by simp [convList] at h; subst h; simp [convList]
  | x :: xs, ys, h => by
    simp only [convList] at h
    cases hx : conv t x with
    | error e => simp [hx] at h
    | ok y =>
      simp only [hx] at h
      cases hr : convList t xs with
      | error e => simp [hr] at h
      | ok r =>
        simp only [hr, Except.ok.injEq] at h
        subst h
        simp [convList, ih x y hx, convList_idem t ih xs r hr]

theorem convMembers_idem (t : Ty) (ih : Idem t) : ∀ (ms ys : List (Bytes × JVal)), convMembers t ms = .ok ys → convMembers t ys = .ok ys
  | [], ys, h => by simp [convMembers] at h; subst h; simp [convMembers]
  | (k, x) :: ms, ys, h => by
    simp only [convMembers] at h
    cases hx : conv t x with
    | error e => simp [hx] at h
    | ok y =>
      simp only [hx] at h
      cases hr : convMembers t ms with
      | error e => simp [hr] at h
      | ok r =>
        simp only [hr, Except.ok.injEq] at h
        subst h
        simp [convMembers, ih x y hx, convMembers_idem t ih ms r hr]

def IdemAll : List Ty → Prop
  | [] => True
  | t :: ts => Idem t ∧ IdemAll ts

theorem convTuple_idem : ∀ (ts : List Ty), IdemAll ts → ∀ (xs ys : List JVal), convTuple ts xs = .ok ys → convTuple ts ys = .ok ys
  | [], _, xs, ys, h => by simp [convTuple] at h; subst h; simp [convTuple]
  | _ :: _, _, [], ys, h => by simp [convTuple] at h
  | t :: ts, ih, x :: xs, ys, h => by
    simp only [convTuple] at h
    cases hx : conv t x with
    | error e => simp [hx] at h
    | ok y =>
      simp only [hx] at h
      cases hr : convTuple ts xs with
      | error e => simp [hr] at h
      | ok r =>
        simp only [hr, Except.ok.injEq] at h
        subst h
        simp [convTuple, ih.1 x y hx, convTuple_idem ts ih.2 xs r hr]

mutual
  theorem conv_idem : ∀ (t : Ty), Simple t → Idem t
    | .int lo hi, hsi => by
      intro j v h
      cases j <;> simp only [conv] at h
      case int i =>
        by_cases hr : lo ≤ i ∧ i ≤ hi
        · simp only [hr, and_self, if_true, Except.ok.injEq] at h
          subst h; simp [conv, hr]
        · simp [hr] at h
      case bool b =>
        -- 0 or 1: representable in every integer type of the family only if the range contains it; otherwise unjudged, never a different value
        simp only [Except.ok.injEq] at h
        subst h
        have h0 : lo ≤ 0 ∧ 1 ≤ hi := hsi
        cases b <;> simp [conv] <;> omega
      case str s => split at h <;> simp at h
      all_goals simp at h
    | .str, _ => by
      intro j v h
      cases j <;> simp only [conv] at h <;> simp at h
      subst h; simp [conv]
    | .bool, _ => by
      intro j v h
      cases j <;> simp only [conv] at h <;> simp at h <;> (subst h; simp [conv])
    | .seq t, hs => by
      intro j v h
      cases j <;> simp only [conv] at h <;> try (simp at h)
      case arr xs =>
        cases hl : convList t xs with
        | error e => simp [hl] at h
        | ok ys =>
          simp only [hl, Except.ok.injEq] at h
          subst h
          simp [conv, convList_idem t (conv_idem t hs) xs ys hl]
    | .map t, hs => by
      intro j v h
      cases j <;> simp only [conv] at h <;> try (simp at h)
      case obj ms =>
        cases hl : convMembers t ms with
        | error e => simp [hl] at h
        | ok ys =>
          simp only [hl, Except.ok.injEq] at h
          subst h
          simp [conv, convMembers_idem t (conv_idem t hs) ms ys hl]
    | .tuple ts, hs => by
      intro j v h
      cases j <;> simp only [conv] at h <;> try (simp at h)
      case arr xs =>
        cases hl : convTuple ts xs with
        | error e => simp [hl] at h
        | ok ys =>
          simp only [hl, Except.ok.injEq] at h
          subst h
          simp [conv, convTuple_idem ts (conv_idem_all ts hs) xs ys hl]
    | .pair a b, hs => by
      intro j v h
      cases j <;> try (simp [conv] at h)
      case arr xs =>
        match xs, h with
        | [x, y], h =>
          simp only [conv] at h
          cases hx : conv a x with
          | error e => simp [hx] at h
          | ok x' =>
            cases hy : conv b y with
            | error e => simp [hx, hy] at h
            | ok y' =>
              simp only [hx, hy, Except.ok.injEq] at h
              subst h
              simp [conv, conv_idem a hs.1 x x' hx, conv_idem b hs.2 y y' hy]
        | [], h => simp [conv] at h
        | [_], h => simp [conv] at h
        | _ :: _ :: _ :: _, h => simp [conv] at h
    | .array t n, hs => by
      intro j v h
      cases j <;> simp only [conv] at h <;> try (simp at h)
      case arr xs =>
        by_cases hn : xs.length = n
        · simp only [hn, if_true] at h
          cases hl : convList t xs with
          | error e => simp [hl] at h
          | ok ys =>
            simp only [hl, Except.ok.injEq] at h
            subst h
            have hlen := convList_length t xs ys hl
            simp [conv, hlen, hn, convList_idem t (conv_idem t hs) xs ys hl]
        · simp [hn] at h
    | .opt t, hs => by
      intro j v h
      have ih := conv_idem t hs
      cases j
      case null => simp only [conv, Except.ok.injEq] at h; subst h; simp [conv]
      all_goals
        simp only [conv] at h
        have hv := ih _ v h
        cases v <;> first | (simp [conv]; done) | (simp only [conv]; exact hv)
    | .enum names, _ => by
      intro j v h
      cases j <;> simp only [conv] at h <;> try (simp at h)
      case str s =>
        by_cases hc : s ∈ names
        · rw [if_pos hc] at h
          simp only [Except.ok.injEq] at h
          subst h; simp [conv, hc]
        · rw [if_neg hc] at h; simp at h
    | .set _ _, hs => absurd hs (by simp [Simple])
    | .variant _, hs => absurd hs (by simp [Simple])
    | .struct _, hs => absurd hs (by simp [Simple])
  theorem conv_idem_all : ∀ (ts : List Ty), SimpleList ts → IdemAll ts
    | [], _ => trivial
    | t :: ts, hs => ⟨conv_idem t hs.1, conv_idem_all ts hs.2⟩
end

end Typed
end Model
end JV
