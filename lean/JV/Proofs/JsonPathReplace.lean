/-
  JV.Proofs.JsonPathReplace — `json_replace` assigns the new value to the selected nodes and changes nothing else.
-/
import JV.Proofs.JsonPath
import JV.Proofs.JsonPathOpts
namespace JV
namespace Model
namespace JsonPath
open Assoc

/-- the two paths part ways at some step: neither addresses a node inside the other's subtree -/
def Diverge : Path → Path → Prop
  | a :: p, b :: q => a ≠ b ∨ Diverge p q
  | _, _ => False

/-- `p` is a prefix of `q` (the node at `q` is the node at `p` or lies below it) -/
def IsPrefix : Path → Path → Prop
  | [], _ => True
  | _ :: _, [] => False
  | a :: p, b :: q => a = b ∧ IsPrefix p q

theorem find_map_ne {k k' : Bytes} {c : JVal} (hne : k ≠ k') : ∀ (ms : List (Bytes × JVal)),
    find k' (ms.map fun m => if m.1 = k then (m.1, c) else m) = find k' ms
  | [] => rfl
  | (k0, v0) :: ms => by
    simp only [List.map_cons, find]
    by_cases e : k0 = k
    · subst e
      simp [hne, find_map_ne hne ms]
    · simp only [e, if_false]
      by_cases e' : k0 = k' <;> simp [e', find_map_ne hne ms]

theorem find_map_self {k : Bytes} {c x : JVal} : ∀ (ms : List (Bytes × JVal)), find k ms = some x →
    find k (ms.map fun m => if m.1 = k then (m.1, c) else m) = some c
  | [], h => by simp [find] at h
  | (k0, v0) :: ms, h => by
    simp only [List.map_cons, find] at h ⊢
    by_cases e : k0 = k
    · subst e; simp
    · simp only [e, if_false] at h
      simp [e, find_map_self ms h]

theorem child_setChild_ne {d c : JVal} {a b : Step} (hne : a ≠ b) : child (setChild d a c) b = child d b := by
  cases d <;> cases a <;> cases b <;> simp only [setChild, child]
  case obj.name.name ms k k' => exact find_map_ne (fun e => hne (by rw [e])) ms
  case arr.idx.idx xs i j =>
    have : i ≠ j := fun e => hne (by rw [e])
    simp [List.getElem?_set_ne this]

theorem child_setChild_self {d c x : JVal} {a : Step} (h : child d a = some x) : child (setChild d a c) a = some c := by
  cases d <;> cases a <;> simp only [child] at h <;> try (exact absurd h (by simp))
  case obj.name ms k => simpa [setChild, child] using find_map_self ms h
  case arr.idx xs i =>
    simp only [setChild, child]
    have hi : i < xs.length := by
      rcases Nat.lt_or_ge i xs.length with h' | h'
      · exact h'
      · simp [List.getElem?_eq_none h'] at h
    simp [hi]

/-- assigning at `p` leaves every node whose path diverges from `p` exactly as it was -/
theorem resolve_setAt_diverge (nv : JVal) : ∀ (p q : Path) (d : JVal), Diverge p q → resolve (setAt d p nv) q = resolve d q
  | [], _, _, h => by simp [Diverge] at h
  | _ :: _, [], _, h => by simp [Diverge] at h
  | a :: p, b :: q, d, h => by
    simp only [setAt]
    cases hc : child d a with
    | none => rfl
    | some c =>
      simp only [resolve]
      by_cases e : a = b
      · subst e
        rw [child_setChild_self hc, hc]
        rcases h with h | h
        · exact absurd rfl h
        · exact resolve_setAt_diverge nv p q c h
      · rw [child_setChild_ne e]

/-- assigning at a path that resolves makes it resolve to the new value -/
theorem resolve_setAt_self (nv : JVal) : ∀ (p : Path) (d x : JVal), resolve d p = some x → resolve (setAt d p nv) p = some nv
  | [], _, _, _ => rfl
  | a :: p, d, x, h => by
    simp only [resolve] at h
    cases hc : child d a with
    | none => simp [hc] at h
    | some c =>
      simp only [hc] at h
      simp only [setAt, hc, resolve, child_setChild_self hc]
      exact resolve_setAt_self nv p c x h

/-- assigning at `q` keeps `p` resolvable unless `q` is `p` or one of its ancestors -/
theorem resolves_after_setAt (nv : JVal) : ∀ (q p : Path) (d x : JVal), resolve d p = some x → ¬ IsPrefix q p →
    ∃ y, resolve (setAt d q nv) p = some y
  | [], _, _, _, _, hn => absurd trivial hn
  | b :: q, [], d, x, _, _ => ⟨_, rfl⟩
  | b :: q, a :: p, d, x, h, hn => by
    simp only [setAt]
    cases hcb : child d b with
    | none => exact ⟨x, h⟩
    | some cb =>
      simp only [resolve] at h ⊢
      by_cases e : b = a
      · subst e
        rw [child_setChild_self hcb]
        rw [hcb] at h
        exact resolves_after_setAt nv q p cb x h (fun hp => hn ⟨rfl, hp⟩)
      · rw [child_setChild_ne e]
        exact ⟨x, h⟩

/-! ### the fold over the selected paths -/

def assignAll (nv : JVal) (d : JVal) (ps : List Path) : JVal := ps.foldl (fun d p => setAt d p nv) d

theorem assignAll_diverge (nv : JVal) (q : Path) : ∀ (ps : List Path) (d : JVal), (∀ p ∈ ps, Diverge p q) →
    resolve (assignAll nv d ps) q = resolve d q
  | [], _, _ => rfl
  | p :: ps, d, h => by
    simp only [assignAll, List.foldl_cons]
    have := assignAll_diverge nv q ps (setAt d p nv) (fun p' hp' => h p' (List.mem_cons_of_mem _ hp'))
    simp only [assignAll] at this
    rw [this]
    exact resolve_setAt_diverge nv p q d (h p (by simp))

theorem assignAll_resolves (nv : JVal) (p : Path) : ∀ (ps : List Path) (d x : JVal), resolve d p = some x →
    (∀ q ∈ ps, ¬ IsPrefix q p) → ∃ y, resolve (assignAll nv d ps) p = some y
  | [], _, x, h, _ => ⟨x, h⟩
  | q :: ps, d, x, h, hn => by
    simp only [assignAll, List.foldl_cons]
    obtain ⟨y, hy⟩ := resolves_after_setAt nv q p d x h (hn q (by simp))
    exact assignAll_resolves nv p ps _ y hy (fun q' hq' => hn q' (List.mem_cons_of_mem _ hq'))

/-- a selected path that is assigned after everything below it and before only diverging paths ends up holding `nv` -/
theorem assignAll_hits (nv : JVal) (p : Path) (pre post : List Path) (d x : JVal) (h : resolve d p = some x)
    (hpre : ∀ q ∈ pre, ¬ IsPrefix q p) (hpost : ∀ q ∈ post, Diverge q p) :
    resolve (assignAll nv d (pre ++ p :: post)) p = some nv := by
  simp only [assignAll, List.foldl_append, List.foldl_cons]
  obtain ⟨y, hy⟩ := assignAll_resolves nv p pre d x h hpre
  simp only [assignAll] at hy
  have h1 := resolve_setAt_self nv p _ y hy
  have h2 := assignAll_diverge nv p post (setAt (List.foldl (fun d p => setAt d p nv) d pre) p nv) hpost
  simp only [assignAll] at h2
  rw [h2, h1]

/-! ### order facts: in a strictly descending list, what comes after `p` is an ancestor of `p` or diverges from it -/

theorem not_prefix_of_lt : ∀ {p q : Path}, pathLt p q = true → ¬ IsPrefix q p
  | [], [], h => by simp [pathLt] at h
  | [], _ :: _, _ => by simp [IsPrefix]
  | _ :: _, [], h => by simp [pathLt] at h
  | a :: p, b :: q, h => by
    intro ⟨e, hp⟩
    subst e
    simp only [pathLt, stepLt_irrefl, Bool.false_eq_true, if_false] at h
    exact not_prefix_of_lt h hp

theorem diverge_or_prefix_of_lt : ∀ {q p : Path}, pathLt q p = true → IsPrefix q p ∨ Diverge q p
  | [], _, _ => Or.inl trivial
  | _ :: _, [], h => by simp [pathLt] at h
  | b :: q, a :: p, h => by
    by_cases e : b = a
    · subst e
      simp only [pathLt, stepLt_irrefl, Bool.false_eq_true, if_false] at h
      rcases diverge_or_prefix_of_lt h with h' | h'
      · exact Or.inl ⟨rfl, h'⟩
      · exact Or.inr (Or.inr h')
    · exact Or.inr (Or.inl e)

theorem isPrefix_refl : ∀ p : Path, IsPrefix p p
  | [] => trivial
  | _ :: p => ⟨rfl, isPrefix_refl p⟩

end JsonPath
end Model
end JV
