/-
  JV.Proofs.Utf8 — the strings the reference grammar accepts are exactly the UTF-8 encodings of
  sequences of Unicode scalar values.
-/
import JV.Spec.Rfc8259
namespace JV
namespace Spec.Rfc8259

def IsScalar (cp : Nat) : Prop := cp < 0xD800 ∨ (0xE000 ≤ cp ∧ cp < 0x110000)

def encodeAll : List Nat → Bytes
  | [] => []
  | cp :: cps => utf8Encode cp ++ encodeAll cps

def lo3 (a : Nat) : Nat := if a = 0xE0 then 0xA0 else 0x80
def hi3 (a : Nat) : Nat := if a = 0xED then 0x9F else 0xBF
def lo4 (a : Nat) : Nat := if a = 0xF0 then 0x90 else 0x80
def hi4 (a : Nat) : Nat := if a = 0xF4 then 0x8F else 0xBF

theorem v1 (a : Nat) (r : Bytes) (h : a < 0x80) : validUtf8 (a :: r) = validUtf8 r := by
  rw [validUtf8.eq_def]; simp [h]

theorem v2 (a b : Nat) (r : Bytes) (h : 0xC2 ≤ a ∧ a ≤ 0xDF) :
    validUtf8 (a :: b :: r) = ((decide (0x80 ≤ b) && decide (b ≤ 0xBF)) && validUtf8 r) := by
  simp only [validUtf8]
  have h1 : ¬ a < 0x80 := by omega
  simp [h1, h]

theorem v3 (a b c : Nat) (r : Bytes) (h : 0xE0 ≤ a ∧ a ≤ 0xEF) :
    validUtf8 (a :: b :: c :: r) =
      ((decide (lo3 a ≤ b) && decide (b ≤ hi3 a)) && (decide (0x80 ≤ c) && decide (c ≤ 0xBF)) && validUtf8 r) := by
  simp only [validUtf8]
  have h1 : ¬ a < 0x80 := by omega
  have h2 : ¬ (0xC2 ≤ a ∧ a ≤ 0xDF) := by omega
  simp [h1, h2, h, lo3, hi3]
  try rfl

theorem v4 (a b c d : Nat) (r : Bytes) (h : 0xF0 ≤ a ∧ a ≤ 0xF4) :
    validUtf8 (a :: b :: c :: d :: r) =
      ((decide (lo4 a ≤ b) && decide (b ≤ hi4 a)) && (decide (0x80 ≤ c) && decide (c ≤ 0xBF)) &&
        (decide (0x80 ≤ d) && decide (d ≤ 0xBF)) && validUtf8 r) := by
  simp only [validUtf8]
  have h1 : ¬ a < 0x80 := by omega
  have h2 : ¬ (0xC2 ≤ a ∧ a ≤ 0xDF) := by omega
  have h3 : ¬ (0xE0 ≤ a ∧ a ≤ 0xEF) := by omega
  simp [h1, h2, h3, h, lo4, hi4]
  try rfl

theorem validUtf8_encode (cp : Nat) (h : IsScalar cp) (rest : Bytes) :
    validUtf8 (utf8Encode cp ++ rest) = validUtf8 rest := by
  unfold utf8Encode
  by_cases h1 : cp < 0x80
  · rw [if_pos h1]; exact v1 cp rest h1
  · rw [if_neg h1]
    by_cases h2 : cp < 0x800
    · rw [if_pos h2]
      show validUtf8 ((0xC0 + cp / 64) :: (0x80 + cp % 64) :: rest) = _
      rw [v2 _ _ _ (by omega)]
      have hc : 0x80 ≤ 0x80 + cp % 64 ∧ 0x80 + cp % 64 ≤ 0xBF := by omega
      simp [hc.1, hc.2]
    · rw [if_neg h2]
      by_cases h3 : cp < 0x10000
      · rw [if_pos h3]
        show validUtf8 ((0xE0 + cp / 4096) :: (0x80 + cp / 64 % 64) :: (0x80 + cp % 64) :: rest) = _
        rw [v3 _ _ _ _ (by omega)]
        have hd : 0x80 ≤ 0x80 + cp % 64 ∧ 0x80 + cp % 64 ≤ 0xBF := by omega
        have he : lo3 (0xE0 + cp / 4096) ≤ 0x80 + cp / 64 % 64 := by
          unfold lo3; split <;> omega
        have hf : 0x80 + cp / 64 % 64 ≤ hi3 (0xE0 + cp / 4096) := by
          unfold hi3
          rcases h with h | h <;> (split <;> omega)
        simp [hd.1, hd.2, he, hf]
      · rw [if_neg h3]
        have h4 : cp < 0x110000 := by rcases h with h | h <;> omega
        show validUtf8 ((0xF0 + cp / 262144) :: (0x80 + cp / 4096 % 64) :: (0x80 + cp / 64 % 64) :: (0x80 + cp % 64) :: rest) = _
        rw [v4 _ _ _ _ _ (by omega)]
        have he : 0x80 ≤ 0x80 + cp % 64 ∧ 0x80 + cp % 64 ≤ 0xBF := by omega
        have hf : 0x80 ≤ 0x80 + cp / 64 % 64 ∧ 0x80 + cp / 64 % 64 ≤ 0xBF := by omega
        have hg : lo4 (0xF0 + cp / 262144) ≤ 0x80 + cp / 4096 % 64 := by
          unfold lo4; split <;> omega
        have hh : 0x80 + cp / 4096 % 64 ≤ hi4 (0xF0 + cp / 262144) := by
          unfold hi4; split <;> omega
        simp [he.1, he.2, hf.1, hf.2, hg, hh]

theorem validUtf8_encodeAll : ∀ (cps : List Nat), (∀ cp ∈ cps, IsScalar cp) → validUtf8 (encodeAll cps) = true
  | [], _ => rfl
  | cp :: cps, h => by
    simp only [encodeAll]
    rw [validUtf8_encode cp (h cp (by simp))]
    exact validUtf8_encodeAll cps (fun c hc => h c (by simp [hc]))

theorem short_invalid2 (a : Nat) (h : 0xC2 ≤ a ∧ a ≤ 0xDF) : validUtf8 [a] = false := by
  simp only [validUtf8]; have : ¬ a < 0x80 := by omega
  simp [this, h]

theorem validUtf8_decode : ∀ (n : Nat) (bs : Bytes), bs.length ≤ n → validUtf8 bs = true →
    ∃ cps, (∀ cp ∈ cps, IsScalar cp) ∧ bs = encodeAll cps
  | _, [], _, _ => ⟨[], by simp, rfl⟩
  | 0, _ :: _, h, _ => by simp at h
  | n + 1, a :: rest, hl, hv => by
    have hl' : rest.length ≤ n := by simpa using hl
    by_cases h1 : a < 0x80
    · rw [v1 a rest h1] at hv
      obtain ⟨cps, hs, he⟩ := validUtf8_decode n rest hl' hv
      refine ⟨a :: cps, ?_, ?_⟩
      · intro cp hc
        rcases List.mem_cons.1 hc with e | e
        · rw [e]; left; omega
        · exact hs cp e
      · simp [encodeAll, utf8Encode, h1, he]
    · by_cases h2 : 0xC2 ≤ a ∧ a ≤ 0xDF
      · match rest, hl', hv with
        | [], _, hv => rw [short_invalid2 a h2] at hv; cases hv
        | b :: r, hl', hv =>
          rw [v2 a b r h2] at hv
          simp only [Bool.and_eq_true, decide_eq_true_eq] at hv
          obtain ⟨cps, hs, he⟩ := validUtf8_decode n r (by simp at hl'; omega) hv.2
          refine ⟨((a - 0xC0) * 64 + (b - 0x80)) :: cps, ?_, ?_⟩
          · intro cp hc
            rcases List.mem_cons.1 hc with e | e
            · rw [e]; left; omega
            · exact hs cp e
          · have hx1 : ¬ ((a - 0xC0) * 64 + (b - 0x80) < 0x80) := by omega
            have hx2 : (a - 0xC0) * 64 + (b - 0x80) < 0x800 := by omega
            have hx3 : 0xC0 + ((a - 0xC0) * 64 + (b - 0x80)) / 64 = a := by omega
            have hx4 : 0x80 + ((a - 0xC0) * 64 + (b - 0x80)) % 64 = b := by omega
            simp only [encodeAll, utf8Encode, hx1, hx2, hx3, hx4, if_false, if_true, ← he]
            rfl
      · by_cases h3 : 0xE0 ≤ a ∧ a ≤ 0xEF
        · match rest, hl', hv with
          | [], _, hv => simp only [validUtf8] at hv; simp [h1, h2, h3] at hv
          | [_], _, hv => simp only [validUtf8] at hv; simp [h1, h2, h3] at hv
          | b :: c :: r, hl', hv =>
            rw [v3 a b c r h3] at hv
            simp only [Bool.and_eq_true, decide_eq_true_eq] at hv
            obtain ⟨⟨⟨hlo, hhi⟩, hc1, hc2⟩, hrest⟩ := hv
            obtain ⟨cps, hs, he⟩ := validUtf8_decode n r (by simp at hl'; omega) hrest
            have hb1 : 0x80 ≤ b := by unfold lo3 at hlo; split at hlo <;> omega
            have hb2 : b ≤ 0xBF := by unfold hi3 at hhi; split at hhi <;> omega
            have hE0 : a = 0xE0 → 0xA0 ≤ b := by intro e; simpa [lo3, e] using hlo
            have hED : a = 0xED → b ≤ 0x9F := by intro e; simpa [hi3, e] using hhi
            refine ⟨(((a - 0xE0) * 64 + (b - 0x80)) * 64 + (c - 0x80)) :: cps, ?_, ?_⟩
            · intro cp hc
              rcases List.mem_cons.1 hc with e | e
              · rw [e]
                by_cases hed : a = 0xED
                · have := hED hed; left; omega
                · by_cases hlt : a < 0xED
                  · left; omega
                  · right; omega
              · exact hs cp e
            · have hx0 : 0x800 ≤ ((a - 0xE0) * 64 + (b - 0x80)) * 64 + (c - 0x80) := by
                by_cases he0 : a = 0xE0
                · have := hE0 he0; omega
                · omega
              have hx1 : ¬ (((a - 0xE0) * 64 + (b - 0x80)) * 64 + (c - 0x80) < 0x80) := by omega
              have hx2 : ¬ (((a - 0xE0) * 64 + (b - 0x80)) * 64 + (c - 0x80) < 0x800) := by omega
              have hx3 : ((a - 0xE0) * 64 + (b - 0x80)) * 64 + (c - 0x80) < 0x10000 := by omega
              have hy1 : 0xE0 + (((a - 0xE0) * 64 + (b - 0x80)) * 64 + (c - 0x80)) / 4096 = a := by omega
              have hy2 : 0x80 + (((a - 0xE0) * 64 + (b - 0x80)) * 64 + (c - 0x80)) / 64 % 64 = b := by omega
              have hy3 : 0x80 + (((a - 0xE0) * 64 + (b - 0x80)) * 64 + (c - 0x80)) % 64 = c := by omega
              simp only [encodeAll, utf8Encode, hx1, hx2, hx3, hy1, hy2, hy3, if_false, if_true, ← he]
              rfl
        · by_cases h4 : 0xF0 ≤ a ∧ a ≤ 0xF4
          · match rest, hl', hv with
            | [], _, hv => simp only [validUtf8] at hv; simp [h1, h2, h3, h4] at hv
            | [_], _, hv => simp only [validUtf8] at hv; simp [h1, h2, h3, h4] at hv
            | [_, _], _, hv => simp only [validUtf8] at hv; simp [h1, h2, h3, h4] at hv
            | b :: c :: d :: r, hl', hv =>
              rw [v4 a b c d r h4] at hv
              simp only [Bool.and_eq_true, decide_eq_true_eq] at hv
              obtain ⟨⟨⟨⟨hlo, hhi⟩, hc1, hc2⟩, hd1, hd2⟩, hrest⟩ := hv
              obtain ⟨cps, hs, he⟩ := validUtf8_decode n r (by simp at hl'; omega) hrest
              have hb1 : 0x80 ≤ b := by unfold lo4 at hlo; split at hlo <;> omega
              have hb2 : b ≤ 0xBF := by unfold hi4 at hhi; split at hhi <;> omega
              have hF0 : a = 0xF0 → 0x90 ≤ b := by intro e; simpa [lo4, e] using hlo
              have hF4 : a = 0xF4 → b ≤ 0x8F := by intro e; simpa [hi4, e] using hhi
              refine ⟨((((a - 0xF0) * 64 + (b - 0x80)) * 64 + (c - 0x80)) * 64 + (d - 0x80)) :: cps, ?_, ?_⟩
              · intro cp hc
                rcases List.mem_cons.1 hc with e | e
                · rw [e]; right
                  by_cases hf4 : a = 0xF4
                  · have := hF4 hf4; omega
                  · by_cases hf0 : a = 0xF0
                    · have := hF0 hf0; omega
                    · omega
                · exact hs cp e
              · have hx0 : 0x10000 ≤ (((a - 0xF0) * 64 + (b - 0x80)) * 64 + (c - 0x80)) * 64 + (d - 0x80) := by
                  by_cases hf0 : a = 0xF0
                  · have := hF0 hf0; omega
                  · omega
                have hx1 : ¬ ((((a - 0xF0) * 64 + (b - 0x80)) * 64 + (c - 0x80)) * 64 + (d - 0x80) < 0x80) := by omega
                have hx2 : ¬ ((((a - 0xF0) * 64 + (b - 0x80)) * 64 + (c - 0x80)) * 64 + (d - 0x80) < 0x800) := by omega
                have hx3 : ¬ ((((a - 0xF0) * 64 + (b - 0x80)) * 64 + (c - 0x80)) * 64 + (d - 0x80) < 0x10000) := by omega
                have hy1 : 0xF0 + ((((a - 0xF0) * 64 + (b - 0x80)) * 64 + (c - 0x80)) * 64 + (d - 0x80)) / 262144 = a := by omega
                have hy2 : 0x80 + ((((a - 0xF0) * 64 + (b - 0x80)) * 64 + (c - 0x80)) * 64 + (d - 0x80)) / 4096 % 64 = b := by omega
                have hy3 : 0x80 + ((((a - 0xF0) * 64 + (b - 0x80)) * 64 + (c - 0x80)) * 64 + (d - 0x80)) / 64 % 64 = c := by omega
                have hy4 : 0x80 + ((((a - 0xF0) * 64 + (b - 0x80)) * 64 + (c - 0x80)) * 64 + (d - 0x80)) % 64 = d := by omega
                simp only [encodeAll, utf8Encode, hx1, hx2, hx3, hy1, hy2, hy3, hy4, if_false, ← he]
                rfl
          · rw [validUtf8.eq_def] at hv; simp [h1, h2, h3, h4] at hv

end Spec.Rfc8259
end JV
