/-
  JV.Proofs.CompareLex — generic facts behind `basic_json::compare` on containers:
  `std::vector::operator==` / `operator<` (`allEq` / `lexLt`) over an element comparison `c`, and the three-way value built from
  them (`vecCmp`), is antisymmetric and transitive whenever `c` is, on the elements concerned; `bytesCmp` is the order `keyLt`.
-/
import JV.Model.Compare
import JV.Proofs.Assoc
namespace JV
namespace Model
namespace Compare

/-! ### bytes -/

theorem bytesCmp_eq : ∀ a b : Bytes, bytesCmp a b = if keyLt a b then -1 else if keyLt b a then 1 else 0
  | [], [] => by simp [bytesCmp, keyLt]
  | [], _ :: _ => by simp [bytesCmp, keyLt]
  | _ :: _, [] => by simp [bytesCmp, keyLt]
  | a :: as, b :: bs => by
    simp only [bytesCmp, keyLt]
    by_cases h1 : a < b
    · simp [h1]
    · by_cases h2 : b < a
      · simp [h1, h2]
      · simp only [h1, h2, if_false]
        exact bytesCmp_eq as bs

theorem bytesCmp_antisymm (a b : Bytes) : bytesCmp b a = - bytesCmp a b := by
  rw [bytesCmp_eq a b, bytesCmp_eq b a]
  rcases Assoc.keyLt_trichotomy a b with h | h | h
  · simp [h, Assoc.keyLt_asymm h]
  · subst h; simp [Assoc.keyLt_irrefl]
  · simp [h, Assoc.keyLt_asymm h]

theorem bytesCmp_le_iff (a b : Bytes) : bytesCmp a b ≤ 0 ↔ keyLt b a = false := by
  rw [bytesCmp_eq a b]
  rcases Assoc.keyLt_trichotomy a b with h | h | h
  · simp [h, Assoc.keyLt_asymm h]
  · subst h; simp [Assoc.keyLt_irrefl]
  · simp [h, Assoc.keyLt_asymm h]

theorem bytesCmp_le_trans (a b c : Bytes) (h1 : bytesCmp a b ≤ 0) (h2 : bytesCmp b c ≤ 0) : bytesCmp a c ≤ 0 := by
  rw [bytesCmp_le_iff] at *
  rcases Assoc.keyLt_trichotomy a b with h | h | h
  · rcases Assoc.keyLt_trichotomy b c with g | g | g
    · exact Assoc.keyLt_asymm (Assoc.keyLt_trans h g)
    · subst g; exact Assoc.keyLt_asymm h
    · rw [g] at h2; cases h2
  · subst h; exact h2
  · rw [h] at h1; cases h1

theorem bytesCmp_eq_zero (a b : Bytes) : bytesCmp a b = 0 ↔ a = b := by
  rw [bytesCmp_eq a b]
  rcases Assoc.keyLt_trichotomy a b with h | h | h
  · simp [h, Assoc.keyLt_ne h]
  · subst h; simp [Assoc.keyLt_irrefl]
  · have := Assoc.keyLt_ne h
    simp [h, Assoc.keyLt_asymm h]; exact fun e => this e.symm

theorem bytesCmp_range (a b : Bytes) : bytesCmp a b = -1 ∨ bytesCmp a b = 0 ∨ bytesCmp a b = 1 := by
  rw [bytesCmp_eq]; by_cases h : keyLt a b <;> by_cases g : keyLt b a <;> simp [h, g]

/-! ### vectors -/

section vec
variable {α : Type} (c : α → α → Int)

def allEq : List α → List α → Bool
  | [], [] => true
  | x :: xs, y :: ys => c x y == 0 && allEq xs ys
  | _, _ => false

def lexLt : List α → List α → Bool
  | [], [] => false
  | [], _ :: _ => true
  | _ :: _, [] => false
  | x :: xs, y :: ys => if c x y < 0 then true else if c y x < 0 then false else lexLt xs ys

def vecCmp (xs ys : List α) : Int := if allEq c xs ys then 0 else if lexLt c xs ys then -1 else 1

theorem vecCmp_nil_nil : vecCmp c [] [] = 0 := by simp [vecCmp, allEq]
theorem vecCmp_nil_cons (y : α) (ys : List α) : vecCmp c [] (y :: ys) = -1 := by simp [vecCmp, allEq, lexLt]
theorem vecCmp_cons_nil (x : α) (xs : List α) : vecCmp c (x :: xs) [] = 1 := by simp [vecCmp, allEq, lexLt]

/-- with an antisymmetric head comparison the vector comparison is "first difference decides" -/
theorem vecCmp_cons_cons (x y : α) (xs ys : List α) (h : c y x = - c x y) :
    vecCmp c (x :: xs) (y :: ys) = if c x y < 0 then -1 else if c x y = 0 then vecCmp c xs ys else 1 := by
  simp only [vecCmp, allEq, lexLt, h]
  by_cases h1 : c x y < 0
  · have : ¬ c x y = 0 := by omega
    simp [h1, this]
  · by_cases h2 : c x y = 0
    · simp [h2]
    · have : - c x y < 0 := by omega
      simp [h1, h2]
      intro h3; omega

theorem vecCmp_range (xs ys : List α) : vecCmp c xs ys = -1 ∨ vecCmp c xs ys = 0 ∨ vecCmp c xs ys = 1 := by
  unfold vecCmp; by_cases h : allEq c xs ys <;> by_cases g : lexLt c xs ys <;> simp [h, g]

variable (S S1 S2 S3 : α → Prop)

theorem vecCmp_antisymm (A : ∀ u v, S1 u → S2 v → c v u = - c u v) :
    ∀ xs ys : List α, (∀ x ∈ xs, S1 x) → (∀ y ∈ ys, S2 y) → vecCmp c ys xs = - vecCmp c xs ys
  | [], [], _, _ => by simp [vecCmp_nil_nil]
  | [], _ :: _, _, _ => by simp [vecCmp_nil_cons, vecCmp_cons_nil]
  | _ :: _, [], _, _ => by simp [vecCmp_nil_cons, vecCmp_cons_nil]
  | x :: xs, y :: ys, hx, hy => by
    have sx : S1 x := hx x (by simp)
    have sy : S2 y := hy y (by simp)
    have a1 := A x y sx sy
    have a2 : c x y = - c y x := by omega
    rw [vecCmp_cons_cons c x y xs ys a1, vecCmp_cons_cons c y x ys xs a2]
    have ih := vecCmp_antisymm A xs ys (fun u hu => hx u (by simp [hu])) (fun u hu => hy u (by simp [hu]))
    rw [a1, ih]
    generalize c x y = d
    generalize vecCmp c xs ys = v
    by_cases h1 : d < 0
    · have n1 : ¬ (-d < 0) := by omega
      have n2 : ¬ (-d = 0) := by omega
      simp [h1, n1, n2] <;> omega
    · by_cases h2 : d = 0
      · subst h2; simp
      · have n1 : -d < 0 := by omega
        simp [h1, h2, n1] <;> omega

theorem vecCmp_refl (R : ∀ u, S u → c u u = 0) : ∀ xs : List α, (∀ x ∈ xs, S x) → vecCmp c xs xs = 0
  | [], _ => vecCmp_nil_nil c
  | x :: xs, hx => by
    have r := R x (hx x (by simp))
    rw [vecCmp_cons_cons c x x xs xs (by omega)]
    simp [r, vecCmp_refl R xs (fun u hu => hx u (by simp [hu]))]

/-- transitivity of `≤` lifts to vectors: `S` is where `c` is antisymmetric, `S1 S2 S3` say where the elements of the three
    vectors live; `c` must be transitive on every arrangement of one element from each -/
theorem vecCmp_le_trans (A : ∀ u v, S u → S v → c v u = - c u v)
    (h1S : ∀ u, S1 u → S u) (h2S : ∀ u, S2 u → S u) (h3S : ∀ u, S3 u → S u)
    (T : ∀ x y z, S1 x → S2 y → S3 z →
      (c x y ≤ 0 → c y z ≤ 0 → c x z ≤ 0) ∧ (c z x ≤ 0 → c x y ≤ 0 → c z y ≤ 0) ∧
      (c y z ≤ 0 → c z x ≤ 0 → c y x ≤ 0) ∧ (c z y ≤ 0 → c y x ≤ 0 → c z x ≤ 0)) :
    ∀ xs ys zs : List α, (∀ x ∈ xs, S1 x) → (∀ y ∈ ys, S2 y) → (∀ z ∈ zs, S3 z) →
      vecCmp c xs ys ≤ 0 → vecCmp c ys zs ≤ 0 → vecCmp c xs zs ≤ 0
  | [], _, [], _, _, _, _, _ => by simp [vecCmp_nil_nil]
  | [], _, _ :: _, _, _, _, _, _ => by simp [vecCmp_nil_cons]
  | _ :: _, [], _, _, _, _, h1, _ => by simp [vecCmp_cons_nil] at h1
  | _ :: _, _ :: _, [], _, _, _, _, h2 => by simp [vecCmp_cons_nil] at h2
  | x :: xs, y :: ys, z :: zs, hx, hy, hz, h1, h2 => by
    have sx : S1 x := hx x (by simp)
    have sy : S2 y := hy y (by simp)
    have sz : S3 z := hz z (by simp)
    have axy := A x y (h1S x sx) (h2S y sy)
    have ayz := A y z (h2S y sy) (h3S z sz)
    have axz := A x z (h1S x sx) (h3S z sz)
    rw [vecCmp_cons_cons c x y xs ys axy] at h1
    rw [vecCmp_cons_cons c y z ys zs ayz] at h2
    rw [vecCmp_cons_cons c x z xs zs axz]
    have ih := vecCmp_le_trans A h1S h2S h3S T xs ys zs (fun u hu => hx u (by simp [hu])) (fun u hu => hy u (by simp [hu]))
      (fun u hu => hz u (by simp [hu]))
    obtain ⟨t1, t2, t3, t4⟩ := T x y z sx sy sz
    by_cases d1 : c x y < 0
    · simp only [d1, if_true] at h1
      by_cases d2 : c y z < 0
      · have : c x z < 0 := by omega
        simp [this]
      · by_cases e2 : c y z = 0
        · have : c x z < 0 := by omega
          simp [this]
        · simp [d2, e2] at h2
    · by_cases e1 : c x y = 0
      · simp only [d1, e1, if_true, if_false] at h1
        by_cases d2 : c y z < 0
        · have : c x z < 0 := by omega
          simp [this]
        · by_cases e2 : c y z = 0
          · simp only [d2, e2, if_true, if_false] at h2
            have : c x z = 0 := by omega
            have n : ¬ c x z < 0 := by omega
            simp only [n, this, if_true, if_false]
            exact ih h1 h2
          · simp [d2, e2] at h2
      · simp [d1, e1] at h1

end vec

end Compare
end Model
end JV
