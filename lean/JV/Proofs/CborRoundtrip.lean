/-
  JV.Proofs.CborRoundtrip — what the CBOR encoder model writes, the RFC 8949 reference decoder reads back.
-/
import JV.Model.Cbor
import JV.Spec.Cbor
namespace JV
namespace Model
namespace Cbor
open Spec.Cbor

/-- the head lemma in the form the decoder consumes it -/
theorem head_read (major n : Nat) (hm : major < 8) (hn : n < 2 ^ 64) (rest : Bytes) :
    ∃ ib tail, writeHead major n ++ rest = ib :: tail ∧ ib / 32 = major ∧ ib % 32 < 28 ∧ readArg (ib % 32) tail = some (n, rest) := by
  unfold writeHead
  by_cases h1 : n ≤ 0x17
  · refine ⟨major * 32 + n, rest, by simp [h1], by omega, by omega, ?_⟩
    have : (major * 32 + n) % 32 = n := by omega
    simp [readArg, this]; omega
  · by_cases h2 : n ≤ 0xff
    · refine ⟨major * 32 + 0x18, n :: rest, by simp [h1, h2], by omega, by omega, ?_⟩
      have : (major * 32 + 0x18) % 32 = 24 := by omega
      simp [readArg, this, beVal]
    · by_cases h3 : n ≤ 0xffff
      · refine ⟨major * 32 + 0x19, beBytes 2 n ++ rest, by simp [h1, h2, h3], by omega, by omega, ?_⟩
        have : (major * 32 + 0x19) % 32 = 25 := by omega
        simp only [readArg, this, beBytes]
        simp [beVal]
        omega
      · by_cases h4 : n ≤ 0xffffffff
        · refine ⟨major * 32 + 0x1a, beBytes 4 n ++ rest, by simp [h1, h2, h3, h4], by omega, by omega, ?_⟩
          have : (major * 32 + 0x1a) % 32 = 26 := by omega
          simp only [readArg, this, beBytes]
          simp [beVal]
          omega
        · refine ⟨major * 32 + 0x1b, beBytes 8 n ++ rest, by simp [h1, h2, h3, h4], by omega, by omega, ?_⟩
          have : (major * 32 + 0x1b) % 32 = 27 := by omega
          simp only [readArg, this, beBytes]
          simp [beVal]
          omega

mutual
  def toBV : CV → BV
    | .null => .null
    | .bool b => .bool b
    | .int i => .int i ""
    | .dbl b => .dbl b ""
    | .str s => .str s ""
    | .bytes b => .bytes b ""
    | .arr xs => .arr (toBVList xs)
    | .map ms => .map (toBVMembers ms)
  def toBVList : List CV → List BV
    | [] => []
    | x :: xs => toBV x :: toBVList xs
  def toBVMembers : List (Bytes × CV) → List (Bytes × BV)
    | [] => []
    | (k, x) :: ms => (k, toBV x) :: toBVMembers ms
end

/-- the float32 shortcut loses nothing on this double -/
def DoubleOK (b : Nat) : Prop := b < 2 ^ 64 ∧ ∀ f, narrowF32 b = some f → f < 2 ^ 32 ∧ f32ToF64 f = b

mutual
  def OK : CV → Prop
    | .int i => -(2 ^ 63 : Int) ≤ i ∧ i < 2 ^ 64
    | .dbl b => DoubleOK b
    | .str s => s.length < 2 ^ 64 ∧ Spec.Rfc8259.validUtf8 s = true
    | .bytes b => b.length < 2 ^ 64
    | .arr xs => xs.length < 2 ^ 64 ∧ OKList xs
    | .map ms => ms.length < 2 ^ 64 ∧ OKMembers ms
    | _ => True
  def OKList : List CV → Prop
    | [] => True
    | x :: xs => OK x ∧ OKList xs
  def OKMembers : List (Bytes × CV) → Prop
    | [] => True
    | (k, x) :: ms => (k.length < 2 ^ 64 ∧ Spec.Rfc8259.validUtf8 k = true) ∧ OK x ∧ OKMembers ms
end

mutual
  def need : CV → Nat
    | .arr xs => 1 + needList xs
    | .map ms => 1 + needMembers ms
    | _ => 1
  def needList : List CV → Nat
    | [] => 0
    | x :: xs => 1 + max (need x) (needList xs)
  def needMembers : List (Bytes × CV) → Nat
    | [] => 0
    | (_, x) :: ms => 1 + max 1 (max (need x) (needMembers ms))
end

theorem beVal_beBytes8 (n : Nat) (h : n < 2 ^ 64) : beVal (beBytes 8 n) = n := by
  simp [beBytes, beVal]; omega

theorem beVal_beBytes4 (n : Nat) (h : n < 2 ^ 32) : beVal (beBytes 4 n) = n := by
  simp [beBytes, beVal]; omega

theorem item_text (fuel : Nat) (s rest : Bytes) (hl : s.length < 2 ^ 64) (hv : Spec.Rfc8259.validUtf8 s = true) :
    item (fuel + 1) none (writeHead 3 s.length ++ s ++ rest) = .ok (.str s "") rest := by
  obtain ⟨ib, tail, he, hmaj, hai, hr⟩ := head_read 3 s.length (by omega) hl (s ++ rest)
  rw [List.append_assoc, he]
  have h7 : ¬ ib / 32 = 7 := by omega
  have h28 : ¬ (ib % 32 ≥ 28 ∧ ib % 32 ≤ 30) := by omega
  have h31 : ¬ ib % 32 = 31 := by omega
  simp [item, h7, h28, h31, hr, hmaj, hv, tagName]

theorem item_bytes (fuel : Nat) (b rest : Bytes) (hl : b.length < 2 ^ 64) :
    item (fuel + 1) none (writeHead 2 b.length ++ b ++ rest) = .ok (.bytes b "") rest := by
  obtain ⟨ib, tail, he, hmaj, hai, hr⟩ := head_read 2 b.length (by omega) hl (b ++ rest)
  rw [List.append_assoc, he]
  have h7 : ¬ ib / 32 = 7 := by omega
  have h28 : ¬ (ib % 32 ≥ 28 ∧ ib % 32 ≤ 30) := by omega
  have h31 : ¬ ib % 32 = 31 := by omega
  simp [item, h7, h28, h31, hr, hmaj, tagName]

theorem item_int (fuel : Nat) (i : Int) (rest : Bytes) (hlo : -(2 ^ 63 : Int) ≤ i) (hhi : i < 2 ^ 64) :
    item (fuel + 1) none (writeInt i ++ rest) = .ok (.int i "") rest := by
  unfold writeInt
  by_cases hv : i ≥ 0
  · simp only [hv, if_true]
    obtain ⟨ib, tail, he, hmaj, hai, hr⟩ := head_read 0 i.toNat (by omega) (by omega) rest
    rw [he]
    have h28 : ¬ (ib % 32 ≥ 28 ∧ ib % 32 ≤ 30) := by omega
    have h31 : ¬ ib % 32 = 31 := by omega
    have e : ((i.toNat : Nat) : Int) = i := Int.toNat_of_nonneg hv
    simp [item, h28, h31, hr, hmaj, e]
  · simp only [hv, if_false]
    obtain ⟨ib, tail, he, hmaj, hai, hr⟩ := head_read 1 (-1 - i).toNat (by omega) (by omega) rest
    rw [he]
    have h28 : ¬ (ib % 32 ≥ 28 ∧ ib % 32 ≤ 30) := by omega
    have h31 : ¬ ib % 32 = 31 := by omega
    have hsmall : ¬ ((-1 - i).toNat ≥ 2 ^ 63) := by omega
    have e : (((-1 - i).toNat : Nat) : Int) = -1 - i := Int.toNat_of_nonneg (by omega)
    have e2 : -1 - (-1 - i) = i := by omega
    simp [item, h28, h31, hr, hmaj, hsmall, e, e2]

theorem item_double (fuel : Nat) (b : Nat) (rest : Bytes) (h : DoubleOK b) :
    item (fuel + 1) none (encodeDouble b ++ rest) = .ok (.dbl b "") rest := by
  unfold encodeDouble
  cases hn : narrowF32 b with
  | none =>
    have hr : readArg 27 (beBytes 8 b ++ rest) = some (b, rest) := by
      simp only [readArg, beBytes]
      simp [beVal]
      have := h.1; omega
    simp [item, hr]
  | some f =>
    obtain ⟨hf, hw⟩ := h.2 f hn
    have hr : readArg 26 (beBytes 4 f ++ rest) = some (f, rest) := by
      simp only [readArg, beBytes]
      simp [beVal]
      omega
    simp [item, hr, hw]

theorem length_toBVList : ∀ xs : List CV, (toBVList xs).length = xs.length
  | [] => rfl
  | _ :: xs => by simp [toBVList, length_toBVList xs]

/-! the theorem: for every value of the core (any nesting), the bytes written by the encoder model are read back
    by the RFC 8949 reference decoder as exactly that value, leaving whatever follows untouched -/
mutual
  theorem enc_dec : ∀ (v : CV) (rest : Bytes) (fuel : Nat), OK v → need v ≤ fuel →
      item fuel none (encode v ++ rest) = .ok (toBV v) rest
    | .null, rest, fuel, _, hf => by
      obtain ⟨f, rfl⟩ : ∃ f, fuel = f + 1 := ⟨fuel - 1, by simp [need] at hf; omega⟩
      simp [encode, item, toBV]
    | .bool b, rest, fuel, _, hf => by
      obtain ⟨f, rfl⟩ : ∃ f, fuel = f + 1 := ⟨fuel - 1, by simp [need] at hf; omega⟩
      cases b <;> simp [encode, item, toBV]
    | .int i, rest, fuel, h, hf => by
      obtain ⟨f, rfl⟩ : ∃ f, fuel = f + 1 := ⟨fuel - 1, by simp [need] at hf; omega⟩
      have h' : -(2 ^ 63 : Int) ≤ i ∧ i < 2 ^ 64 := by simpa [OK] using h
      simpa [encode, toBV] using item_int f i rest h'.1 h'.2
    | .dbl b, rest, fuel, h, hf => by
      obtain ⟨f, rfl⟩ : ∃ f, fuel = f + 1 := ⟨fuel - 1, by simp [need] at hf; omega⟩
      have h' : DoubleOK b := by simpa [OK] using h
      simpa [encode, toBV] using item_double f b rest h'
    | .str s, rest, fuel, h, hf => by
      obtain ⟨f, rfl⟩ : ∃ f, fuel = f + 1 := ⟨fuel - 1, by simp [need] at hf; omega⟩
      have h' : s.length < 2 ^ 64 ∧ Spec.Rfc8259.validUtf8 s = true := by simpa [OK] using h
      simpa [encode, toBV] using item_text f s rest h'.1 h'.2
    | .bytes b, rest, fuel, h, hf => by
      obtain ⟨f, rfl⟩ : ∃ f, fuel = f + 1 := ⟨fuel - 1, by simp [need] at hf; omega⟩
      have h' : b.length < 2 ^ 64 := by simpa [OK] using h
      simpa [encode, toBV] using item_bytes f b rest h'
    | .arr xs, rest, fuel, h, hf => by
      obtain ⟨f, rfl⟩ : ∃ f, fuel = f + 1 := ⟨fuel - 1, by simp [need] at hf; omega⟩
      have h' : xs.length < 2 ^ 64 ∧ OKList xs := by simpa [OK] using h
      have hf' : needList xs ≤ f := by simp [need] at hf; omega
      obtain ⟨ib, tail, he, hmaj, hai, hr⟩ := head_read 4 xs.length (by omega) h'.1 (encodeList xs ++ rest)
      have ih := encList_dec xs rest f h'.2 hf'
      simp only [encode, List.append_assoc, he]
      have h7 : ¬ ib / 32 = 7 := by omega
      have h28 : ¬ (ib % 32 ≥ 28 ∧ ib % 32 ≤ 30) := by omega
      have h31 : ¬ ib % 32 = 31 := by omega
      simp [item, h7, h28, h31, hr, hmaj, ih, toBV]
    | .map ms, rest, fuel, h, hf => by
      obtain ⟨f, rfl⟩ : ∃ f, fuel = f + 1 := ⟨fuel - 1, by simp [need] at hf; omega⟩
      have h' : ms.length < 2 ^ 64 ∧ OKMembers ms := by simpa [OK] using h
      have hf' : needMembers ms ≤ f := by simp [need] at hf; omega
      obtain ⟨ib, tail, he, hmaj, hai, hr⟩ := head_read 5 ms.length (by omega) h'.1 (encodeMembers ms ++ rest)
      have ih := encMembers_dec ms rest f h'.2 hf'
      simp only [encode, List.append_assoc, he]
      have h7 : ¬ ib / 32 = 7 := by omega
      have h28 : ¬ (ib % 32 ≥ 28 ∧ ib % 32 ≤ 30) := by omega
      have h31 : ¬ ib % 32 = 31 := by omega
      simp [item, h7, h28, h31, hr, hmaj, ih, toBV]
  theorem encList_dec : ∀ (xs : List CV) (rest : Bytes) (fuel : Nat), OKList xs → needList xs ≤ fuel →
      items fuel xs.length (encodeList xs ++ rest) = .ok (toBVList xs) rest
    | [], rest, fuel, _, _ => by cases fuel <;> simp [items, encodeList, toBVList]
    | x :: xs, rest, fuel, h, hf => by
      obtain ⟨f, rfl⟩ : ∃ f, fuel = f + 1 := ⟨fuel - 1, by simp [needList] at hf; omega⟩
      have hx : need x ≤ f := by simp [needList] at hf; omega
      have hxs : needList xs ≤ f := by simp [needList] at hf; omega
      have i1 := enc_dec x (encodeList xs ++ rest) f h.1 hx
      have i2 := encList_dec xs rest f h.2 hxs
      simp only [encodeList, List.length_cons, items, List.append_assoc, i1, i2, toBVList]
  theorem encMembers_dec : ∀ (ms : List (Bytes × CV)) (rest : Bytes) (fuel : Nat), OKMembers ms → needMembers ms ≤ fuel →
      members fuel ms.length (encodeMembers ms ++ rest) = .ok (toBVMembers ms) rest
    | [], rest, fuel, _, _ => by cases fuel <;> simp [members, encodeMembers, toBVMembers]
    | (k, x) :: ms, rest, fuel, h, hf => by
      obtain ⟨f, rfl⟩ : ∃ f, fuel = f + 1 := ⟨fuel - 1, by simp [needMembers] at hf; omega⟩
      have hf1 : 1 ≤ f := by simp [needMembers] at hf; omega
      obtain ⟨g, rfl⟩ : ∃ g, f = g + 1 := ⟨f - 1, by omega⟩
      have hx : need x ≤ g + 1 := by simp [needMembers] at hf; omega
      have hms : needMembers ms ≤ g + 1 := by simp [needMembers] at hf; omega
      have ik := item_text g k (encode x ++ encodeMembers ms ++ rest) h.1.1 h.1.2
      have i1 := enc_dec x (encodeMembers ms ++ rest) (g + 1) h.2.1 hx
      have i2 := encMembers_dec ms rest (g + 1) h.2.2 hms
      simp only [encodeMembers, List.length_cons, members, List.append_assoc] at ik ⊢
      simp only [ik, i1, i2, toBVMembers]
end

end Cbor
end Model
end JV

namespace JV
namespace Model
namespace Cbor
open Spec.Cbor

/-- the float32 shortcut is lossless for every double outside the binary32-subnormal exponent range
    (zeros, infinities, all normal-range values, and everything that is not narrowed at all) -/
theorem doubleOK_outside_f32_subnormals (b : Nat) (hb : b < 2 ^ 64)
    (hsub : ¬ (874 ≤ b / 2 ^ 52 % 2048 ∧ b / 2 ^ 52 % 2048 ≤ 896)) : DoubleOK b := by
  refine ⟨hb, ?_⟩
  intro f hf
  unfold narrowF32 at hf
  simp only [] at hf
  by_cases h1 : b / 2 ^ 52 % 2048 = 2047
  · simp only [h1, if_true] at hf
    by_cases hm : b % 2 ^ 52 = 0
    · simp only [hm, if_true, Option.some.injEq] at hf
      subst hf
      refine ⟨by omega, ?_⟩
      unfold f32ToF64
      have e1 : (b / 2 ^ 63 * 2 ^ 31 + 255 * 2 ^ 23) / 8388608 % 256 = 255 := by omega
      have e2 : (b / 2 ^ 63 * 2 ^ 31 + 255 * 2 ^ 23) / 2147483648 = b / 2 ^ 63 := by omega
      have e3 : (b / 2 ^ 63 * 2 ^ 31 + 255 * 2 ^ 23) % 8388608 = 0 := by omega
      simp only [e1, e2, e3, if_true]
      omega
    · simp [hm] at hf
  · simp only [h1, if_false] at hf
    by_cases h0 : b / 2 ^ 52 % 2048 = 0
    · simp only [h0, if_true] at hf
      by_cases hm : b % 2 ^ 52 = 0
      · simp only [hm, if_true, Option.some.injEq] at hf
        subst hf
        refine ⟨by omega, ?_⟩
        unfold f32ToF64
        have e1 : (b / 2 ^ 63 * 2 ^ 31) / 8388608 % 256 = 0 := by omega
        have e2 : (b / 2 ^ 63 * 2 ^ 31) / 2147483648 = b / 2 ^ 63 := by omega
        have e3 : (b / 2 ^ 63 * 2 ^ 31) % 8388608 = 0 := by omega
        simp only [e1, e2, e3, if_true, show ¬ ((0:Nat) = 255) by decide, if_false]
        omega
      · simp [hm] at hf
    · simp only [h0, if_false] at hf
      by_cases hn : 897 ≤ b / 2 ^ 52 % 2048 ∧ b / 2 ^ 52 % 2048 ≤ 1150
      · simp only [hn, and_self, if_true] at hf
        by_cases hm : b % 2 ^ 52 % 2 ^ 29 = 0
        · simp only [hm, if_true, Option.some.injEq] at hf
          subst hf
          refine ⟨by omega, ?_⟩
          unfold f32ToF64
          have e1 : (b / 2 ^ 63 * 2 ^ 31 + (b / 2 ^ 52 % 2048 - 896) * 2 ^ 23 + b % 2 ^ 52 / 2 ^ 29) / 8388608 % 256 = b / 2 ^ 52 % 2048 - 896 := by omega
          have e2 : (b / 2 ^ 63 * 2 ^ 31 + (b / 2 ^ 52 % 2048 - 896) * 2 ^ 23 + b % 2 ^ 52 / 2 ^ 29) / 2147483648 = b / 2 ^ 63 := by omega
          have e3 : (b / 2 ^ 63 * 2 ^ 31 + (b / 2 ^ 52 % 2048 - 896) * 2 ^ 23 + b % 2 ^ 52 / 2 ^ 29) % 8388608 = b % 2 ^ 52 / 2 ^ 29 := by omega
          have n255 : ¬ (b / 2 ^ 52 % 2048 - 896 = 255) := by omega
          have n0 : ¬ (b / 2 ^ 52 % 2048 - 896 = 0) := by omega
          simp only [e1, e2, e3, n255, n0, if_false]
          omega
        · simp at hf; omega
      · simp only [hn, if_false, hsub] at hf
        simp at hf

end Cbor
end Model
end JV
