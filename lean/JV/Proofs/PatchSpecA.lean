/-
  JV.Proofs.PatchSpecA — pointer text: what `basic_json_pointer::parse` accepts is an RFC 6901 pointer
  with the same reference tokens (and conversely); `natDigits` is an RFC 6901 array index.
-/
import JV.Proofs.PointerText
import JV.Proofs.PointerOps
import JV.Proofs.UnflattenOrder
namespace JV
namespace Model
namespace Pointer
open Assoc Spec.Rfc6901

theorem splitSlash_ne_nil : ∀ s : Bytes, splitSlash s ≠ []
  | [] => by simp [splitSlash]
  | c :: cs => by
    simp only [splitSlash]
    split
    · simp
    · split <;> simp

theorem splitSlash_no47 : ∀ a : Bytes, (∀ c ∈ a, c ≠ 47) → splitSlash a = [a]
  | [], _ => rfl
  | c :: cs, h => by
    have ih := splitSlash_no47 cs (fun x hx => h x (by simp [hx]))
    have hc : c ≠ 47 := h c (by simp)
    simp [splitSlash, ih, hc]

theorem splitSlash_app : ∀ (a : Bytes), (∀ c ∈ a, c ≠ 47) → ∀ b, splitSlash (a ++ 47 :: b) = a :: splitSlash b
  | [], _, b => by
    simp only [List.nil_append, splitSlash]
    cases h : splitSlash b with
    | nil => exact absurd h (splitSlash_ne_nil b)
    | cons p ps => simp
  | c :: cs, h, b => by
    have ih := splitSlash_app cs (fun x hx => h x (by simp [hx])) b
    have hc : c ≠ 47 := h c (by simp)
    simp only [List.cons_append, splitSlash, ih, hc, if_false]

theorem escapeToken_no47 : ∀ (t : Bytes) (c : Nat), c ∈ escapeToken t → c ≠ 47
  | [], c, h => by simp [escapeToken] at h
  | x :: xs, c, h => by
    simp only [escapeToken] at h
    by_cases h1 : x = 126
    · simp only [h1, if_true, List.mem_cons] at h
      rcases h with h | h | h
      · omega
      · omega
      · exact escapeToken_no47 xs c h
    · by_cases h2 : x = 47
      · simp only [h2, if_true] at h
        simp at h
        rcases h with h | h | h
        · omega
        · omega
        · exact escapeToken_no47 xs c h
      · simp only [h1, h2, if_false, List.mem_cons] at h
        rcases h with h | h
        · omega
        · exact escapeToken_no47 xs c h

theorem splitSlash_toString : ∀ (rest : List Bytes) (t : Bytes),
    splitSlash (escapeToken t ++ toString rest) = escapeToken t :: rest.map escapeToken
  | [], t => by simp [toString, splitSlash_no47 _ (escapeToken_no47 t)]
  | t2 :: r, t => by
    simp only [toString, List.map_cons]
    rw [splitSlash_app _ (escapeToken_no47 t), splitSlash_toString r t2]

theorem unescape_cons_other (c : Nat) (cs : Bytes) (h : c ≠ 126) : unescape (c :: cs) = (unescape cs).map (c :: ·) := by
  conv => lhs; unfold unescape
  split
  · simp_all
  · simp_all
  · simp_all
  · simp_all
  · rename_i heq; simp only [List.cons.injEq] at heq; obtain ⟨rfl, rfl⟩ := heq; rfl

theorem unescape_escape : ∀ t : Bytes, unescape (escapeToken t) = some t
  | [] => by simp [escapeToken, unescape]
  | c :: cs => by
    simp only [escapeToken]
    by_cases h1 : c = 126
    · subst h1; simp [unescape, unescape_escape cs]
    · by_cases h2 : c = 47
      · subst h2; simp [unescape, unescape_escape cs]
      · simp only [h1, h2, if_false]
        rw [unescape_cons_other c _ h1, unescape_escape cs]; rfl

theorem mapM_unescape_escape : ∀ ts : List Bytes, mapM' unescape (ts.map escapeToken) = some ts
  | [] => rfl
  | t :: ts => by simp [mapM', unescape_escape t, mapM_unescape_escape ts]

theorem tokens_toString : ∀ ts : List Bytes, tokens (toString ts) = some ts
  | [] => rfl
  | t :: rest => by
    simp only [toString, tokens, if_true]
    rw [splitSlash_toString rest t]
    exact mapM_unescape_escape (t :: rest)

/-- whatever `basic_json_pointer::parse` accepts is an RFC 6901 JSON Pointer denoting the same reference tokens -/
theorem parse_sound {s : Bytes} {ts : List Bytes} (h : parse s = .ok ts) : tokens s = some ts := by
  rw [← toString_parse_aux s ts h]; exact tokens_toString ts

/-! ### `natDigits n` is the RFC 6901 array index `n` (for every `n`) -/

theorem natDigits_eq_rev (n : Nat) : natDigits n = (revDigits (n + 1) n).reverse := by
  unfold natDigits Nat.toDigits
  rw [SMap.toDigitsCore_eq (n + 1) n [] (by omega)]
  simp

theorem arrayIndex_natDigits (n : Nat) : arrayIndex (natDigits n) = some n := by
  have h0 : n < 10 ^ n := Nat.lt_pow_self (by decide)
  have h1 : n < 10 ^ (n + 1) := Nat.lt_of_lt_of_le h0 (Nat.pow_le_pow_right (by decide) (by omega))
  obtain ⟨hv, hall, hne, _, hz⟩ := revDigits_spec (n + 1) n h1 (by omega)
  rw [natDigits_eq_rev]
  cases hs : (revDigits (n + 1) n).reverse with
  | nil => simp at hs; exact absurd hs hne
  | cons c cs =>
    rw [hs] at hv hall hz
    have hc := isDigit_iff.1 (hall c (by simp))
    by_cases hc0 : c = 48
    · subst hc0
      have hn0 : n = 0 := hz (by simp)
      subst hn0
      have : (revDigits (0 + 1) 0).reverse = [48] := by decide
      rw [this] at hs
      cases hs
      simp [arrayIndex]
    · have hcs : AllDigits cs := fun x hx => hall x (by simp [hx])
      have h3 : 49 ≤ c ∧ c ≤ 57 ∧ cs.all Spec.Rfc6901.isDigit = true :=
        ⟨by omega, hc.2, (all_isDigit_iff cs).2 hcs⟩
      simp only [arrayIndex, hc0, if_false, h3, and_self, if_true]
      rw [digitsVal_eq, hv]; simp

end Pointer
end Model
end JV
