/-
  JV.Proofs.UnflattenCollect — the pointer map `unflatten` builds from `flatten d` is `SL d`.
-/
import JV.Proofs.UnflattenSorted
namespace JV
namespace SMap
open Model Model.Pointer Assoc

theorem emplaceStr_eq (key : Bytes) : ∀ (es : List Entry) (acc : List (Bytes × JVal)), SSorted keyLt acc →
    emplaceStr key acc es = emplaceAll keyLt acc (es.map (strKey key))
  | [], _, _ => rfl
  | e :: es, acc, hs => by
    show emplaceStr key (tryEmplace false (key ++ Pointer.toString e.1) e.2 acc) es = _
    rw [tryEmplace_eq_mapEmplace _ _ acc hs, emplaceStr_eq key es _ (sorted_mapEmplace keyLt_st _ _ acc hs)]
    rfl

theorem toString_inj {a b : List Bytes} (h : Pointer.toString a = Pointer.toString b) : a = b := by
  have ha := parse_toString_aux a
  rw [h, parse_toString_aux b] at ha
  cases ha; rfl

def unp (s : Bytes) : List Bytes :=
  match parse s with
  | .ok ts => ts
  | .error _ => []

def unparseKey (kv : Bytes × JVal) : Entry := (unp kv.1, kv.2)

theorem unp_toString (p : List Bytes) : unp (Pointer.toString p) = p := by
  simp [unp, parse_toString_aux]

theorem collect_eq : ∀ (ms : List (Bytes × JVal)) (acc : List Entry), (∀ kv ∈ ms, ∃ p, kv.1 = Pointer.toString p) →
    collect ms acc = .ok (emplaceAll toksLt acc (ms.map unparseKey))
  | [], _, _ => rfl
  | (k, v) :: ms, acc, h => by
    obtain ⟨p, hp⟩ := h (k, v) List.mem_cons_self
    simp only [] at hp
    subst hp
    simp only [collect, parse_toString_aux]
    rw [collect_eq ms _ (fun kv hkv => h kv (List.mem_cons_of_mem _ hkv))]
    simp [emplaceAll, unparseKey, unp_toString]

theorem flatten_collect (d : JVal) (hw : JVal.WF d) (hs : SmallArrays d) :
    ∃ F, flatten false d = .obj F ∧ F ≠ [] ∧ collect F [] = .ok (SL d) := by
  have hg := good d hw hs
  have hfun := leaves_functional d hw hs
  refine ⟨flattenInto false [] d [], rfl, ?_, ?_⟩
  all_goals rw [flattenInto_eq d [] [] hs, emplaceStr_eq [] (leaves d) [] trivial]
  all_goals
    have hf1 : Functional ([] ++ (leaves d).map (strKey [])) := by
      intro k v v' h1 h2
      simp only [List.nil_append] at h1 h2
      obtain ⟨e, he, h⟩ := List.mem_map.1 h1
      obtain ⟨e', he', h'⟩ := List.mem_map.1 h2
      simp only [strKey, List.nil_append] at h h'
      have hp : e.1 = e'.1 := toString_inj (by rw [(Prod.mk.inj h).1, (Prod.mk.inj h').1])
      rw [← (Prod.mk.inj h).2, ← (Prod.mk.inj h').2]
      apply hfun e.1 e.2 e'.2 he
      rw [hp]; exact he'
    have sF := emplaceAll_spec keyLt_st ((leaves d).map (strKey [])) [] trivial hf1
  · -- non-empty: `leaves d` has a member
    intro hF
    cases hl : SL d with
    | nil => exact hg.1 hl
    | cons e _ =>
      have he : e ∈ leaves d := (hg.2.2 e).1 (by rw [hl]; exact List.mem_cons_self)
      have : strKey [] e ∈ emplaceAll keyLt [] ((leaves d).map (strKey [])) :=
        (sF.2 _).2 (Or.inr (List.mem_map.2 ⟨e, he, rfl⟩))
      rw [hF] at this; cases this
  · have hkeys : ∀ kv ∈ emplaceAll keyLt [] ((leaves d).map (strKey [])), ∃ p, kv.1 = Pointer.toString p := by
      intro kv hkv
      rcases (sF.2 kv).1 hkv with h | h
      · cases h
      · obtain ⟨e, _, rfl⟩ := List.mem_map.1 h
        exact ⟨e.1, by simp [strKey]⟩
    rw [collect_eq _ [] hkeys]
    congr 1
    -- members of the re-sorted map are the members of `leaves d`
    have hmem : ∀ x, x ∈ (emplaceAll keyLt [] ((leaves d).map (strKey []))).map unparseKey ↔ x ∈ leaves d := by
      intro x
      constructor
      · intro hx
        obtain ⟨kv, hkv, rfl⟩ := List.mem_map.1 hx
        rcases (sF.2 kv).1 hkv with h | h
        · cases h
        · obtain ⟨e, he, rfl⟩ := List.mem_map.1 h
          have : unparseKey (strKey [] e) = e := by
            cases e; simp [unparseKey, strKey, unp_toString]
          rw [this]; exact he
      · intro hx
        refine List.mem_map.2 ⟨strKey [] x, (sF.2 _).2 (Or.inr (List.mem_map.2 ⟨x, hx, rfl⟩)), ?_⟩
        cases x; simp [unparseKey, strKey, unp_toString]
    have hf2 : Functional ([] ++ (emplaceAll keyLt [] ((leaves d).map (strKey []))).map unparseKey) := by
      intro k v v' h1 h2
      simp only [List.nil_append] at h1 h2
      exact hfun k v v' ((hmem _).1 h1) ((hmem _).1 h2)
    have sE := emplaceAll_spec toksLt_st _ [] trivial hf2
    apply ext toksLt_st sE.1 hg.2.1
    intro x
    rw [sE.2 x, hg.2.2 x, ← hmem x]
    simp

end SMap
end JV
