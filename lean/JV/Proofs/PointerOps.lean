/-
  JV.Proofs.PointerOps — navigation and modification lemmas for JV.Props.C14.
-/
import JV.Proofs.Number
import JV.Proofs.JValLemmas
import JV.Model.Pointer
import JV.Spec.Rfc6901
namespace JV
namespace Model
namespace Pointer
open Assoc

theorem replaceVal_same {k : Bytes} {x : JVal} : ∀ {ms : List (Bytes × JVal)}, find k ms = some x → replaceVal k x ms = ms
  | [], h => by simp [find] at h
  | (k', v) :: ms, h => by
    simp only [find] at h
    by_cases e : k' = k
    · simp only [e, if_true, Option.some.injEq] at h
      subst h; simp [replaceVal, e]
    · simp only [e, if_false] at h
      simp [replaceVal, e, replaceVal_same h]

theorem set_same {x : JVal} : ∀ {xs : List JVal} {i : Nat}, xs[i]? = some x → xs.set i x = xs
  | [], _, h => by simp at h
  | y :: ys, 0, h => by simp at h; simp [h]
  | y :: ys, i + 1, h => by
    simp at h
    simp [set_same h]

def Final.isRemove : Final → Bool
  | .remove => true
  | _ => false

theorem finalStep_err (ordered create : Bool) (f : Final) (cur : JVal) (tok : Bytes) :
    (finalStep ordered create f cur tok).1 ≠ none → (finalStep ordered create f cur tok).2 = cur := by
  unfold finalStep
  cases cur <;> cases f <;> simp <;> (repeat' split) <;> simp_all

/-- on a freshly created empty object nothing can fail (unless the operation is `remove`) -/
theorem modifyAt_fresh (ordered : Bool) (f : Final) (hf : f.isRemove = false) :
    ∀ (rest : List Bytes) (tok : Bytes), (modifyAt ordered true f (.obj []) tok rest).1 = none
  | [], tok => by
    cases f <;> simp_all [modifyAt, finalStep, find, Final.isRemove]
  | t2 :: rest, tok => by
    simp only [modifyAt, find, if_true]
    exact modifyAt_fresh ordered f hf rest t2

theorem modifyAt_err (ordered create : Bool) (f : Final) (hf : f.isRemove = true → create = false) :
    ∀ (rest : List Bytes) (cur : JVal) (tok : Bytes),
      (modifyAt ordered create f cur tok rest).1 ≠ none → (modifyAt ordered create f cur tok rest).2 = cur
  | [], cur, tok => by
    simp only [modifyAt]; exact finalStep_err ordered create f cur tok
  | t2 :: rest, cur, tok => by
    cases cur with
    | arr xs =>
      simp only [modifyAt]
      by_cases hd : isDash tok = true
      · simp [hd]
      · have hd' : isDash tok = false := by simpa using hd
        simp only [hd', Bool.false_eq_true, if_false]
        cases hi : decToIndex tok with
        | none => simp
        | some i =>
          simp only []
          split
          · simp
          · rename_i x hx
            intro he
            have := modifyAt_err ordered create f hf rest x t2 he
            simp only [this, set_same hx]
    | obj ms =>
      simp only [modifyAt]
      cases hfind : find tok ms with
      | some x =>
        simp only []
        intro he
        have := modifyAt_err ordered create f hf rest x t2 he
        simp only [this, replaceVal_same hfind]
      | none =>
        simp only []
        by_cases hc : create = true
        · subst hc
          have hfr : f.isRemove = false := by
            cases h : f.isRemove with
            | false => rfl
            | true => exact absurd (hf h) (by decide)
          intro he
          simp only [if_true] at he
          exact absurd (modifyAt_fresh ordered f hfr rest t2) he
        · simp [hc]
    | null => simp [modifyAt]
    | bool _ => simp [modifyAt]
    | int _ => simp [modifyAt]
    | str _ => simp [modifyAt]

end Pointer
end Model
end JV

namespace JV
namespace Model
namespace Pointer
open Assoc Spec.Rfc6901

theorem digitsVal_eq : ∀ (s : Bytes) (acc : Nat), digitsVal s acc = acc * 10 ^ s.length + decVal s
  | [], acc => by simp [digitsVal, decVal]
  | c :: cs, acc => by
    simp only [digitsVal, decVal, digitsVal_eq cs, List.length_cons, Nat.pow_succ]
    rw [Nat.add_mul, Nat.mul_assoc, Nat.mul_comm 10]
    omega

theorem all_isDigit_iff (s : Bytes) : s.all Spec.Rfc6901.isDigit = true ↔ AllDigits s := by
  simp [AllDigits, List.all_eq_true, Spec.Rfc6901.isDigit, Model.isDigit]

theorem decToIndex_sound {tok : Bytes} {n : Nat} (h : decToIndex tok = some n) : arrayIndex tok = some n := by
  unfold decToIndex at h
  by_cases hz : tok.length > 1 ∧ tok.head? = some 48
  · simp [hz] at h
  · simp only [hz, if_false] at h
    cases hd : decToU64 tok with
    | error e => rw [hd] at h; simp at h
    | ok m =>
      rw [hd] at h
      simp only [Option.some.injEq] at h
      subst h
      obtain ⟨hall, hne, hlen⟩ := decToU64_ok_allDigits tok m hd
      have hv := decToU64_digits tok hne hall hlen
      rw [hd] at hv
      have hm : m = decVal tok := by
        by_cases hle : decVal tok ≤ 2 ^ 64 - 1
        · simp only [hle, if_true, Except.ok.injEq] at hv; exact hv
        · simp [hle] at hv
      cases tok with
      | nil => exact absurd rfl hne
      | cons c cs =>
        have hc := isDigit_iff.1 (hall c (by simp))
        by_cases hc0 : c = 48
        · subst hc0
          have hcs : cs = [] := by
            cases cs with
            | nil => rfl
            | cons _ _ => exact absurd ⟨by simp, by simp⟩ hz
          subst hcs
          simp [arrayIndex, hm, decVal]
        · have hcs : AllDigits cs := fun x hx => hall x (by simp [hx])
          have : arrayIndex (c :: cs) = some (digitsVal (c :: cs) 0) := by
            have h3 : 49 ≤ c ∧ c ≤ 57 ∧ cs.all Spec.Rfc6901.isDigit = true :=
              ⟨by omega, hc.2, (all_isDigit_iff cs).2 hcs⟩
            simp only [arrayIndex, hc0, if_false, h3, and_self, if_true]
          rw [this, digitsVal_eq, hm]; simp

theorem decToIndex_complete_aux (c : Nat) (cs : Bytes) (n : Nat) (hn : n < 2 ^ 64)
    (h : (if 49 ≤ c ∧ c ≤ 57 ∧ cs.all Spec.Rfc6901.isDigit = true then some (digitsVal (c :: cs) 0) else none) = some n) :
    decToIndex (c :: cs) = some n := by
    by_cases hcond : 49 ≤ c ∧ c ≤ 57 ∧ cs.all Spec.Rfc6901.isDigit = true
    · simp only [hcond, and_self, if_true, Option.some.injEq] at h
      have hall : AllDigits (c :: cs) := by
        intro x hx
        rcases List.mem_cons.1 hx with e | e
        · rw [e]; exact isDigit_iff.2 ⟨by omega, hcond.2.1⟩
        · exact (all_isDigit_iff cs).1 hcond.2.2 x e
      rw [digitsVal_eq] at h
      simp only [Nat.zero_mul, Nat.zero_add] at h
      -- the leading digit is non-zero, so more than 20 digits would exceed 2^64
      have hlen : (c :: cs).length ≤ 20 := by
        by_cases hl : (c :: cs).length ≤ 20
        · exact hl
        · exfalso
          have h20 : 20 ≤ cs.length := by simp at hl; omega
          have : decVal (c :: cs) ≥ 10 ^ cs.length := by
            simp only [decVal]
            have : 1 ≤ c - 48 := by omega
            have := Nat.mul_le_mul_right (10 ^ cs.length) this
            omega
          have hp : (10:Nat) ^ 20 ≤ 10 ^ cs.length := Nat.pow_le_pow_right (by omega) h20
          omega
      have hv := decToU64_digits (c :: cs) (by simp) hall hlen
      have hle : decVal (c :: cs) ≤ 2 ^ 64 - 1 := by omega
      simp only [hle, if_true] at hv
      unfold decToIndex
      have hz : ¬ ((c :: cs).length > 1 ∧ (c :: cs).head? = some 48) := by
        simp; intro _; omega
      simp only [hz, if_false, hv, h]
    · rw [if_neg hcond] at h; simp at h


theorem decToIndex_complete {tok : Bytes} {n : Nat} (h : arrayIndex tok = some n) (hn : n < 2 ^ 64) :
    decToIndex tok = some n := by
  cases tok with
  | nil => simp [arrayIndex] at h
  | cons c cs =>
    simp only [arrayIndex] at h
    by_cases hc48 : c = 48
    · subst hc48
      by_cases hcs : cs = []
      · subst hcs
        simp only [if_true, Option.some.injEq] at h
        subst h; decide
      · simp [hcs] at h
    · simp only [hc48, if_false] at h
      exact decToIndex_complete_aux c cs n hn h

theorem arrayIndex_dash : arrayIndex [45] = none := by decide

/-! every array of the value is shorter than 2^64 (always true of a C++ container) -/
mutual
  def SmallArrays : JVal → Prop
    | .arr xs => xs.length < 2 ^ 64 ∧ SmallList xs
    | .obj ms => SmallMembers ms
    | _ => True
  def SmallList : List JVal → Prop
    | [] => True
    | x :: xs => SmallArrays x ∧ SmallList xs
  def SmallMembers : List (Bytes × JVal) → Prop
    | [] => True
    | (_, x) :: ms => SmallArrays x ∧ SmallMembers ms
end

theorem small_of_getElem {x : JVal} : ∀ {xs : List JVal} {i : Nat}, SmallList xs → xs[i]? = some x → SmallArrays x
  | [], _, _, h => by simp at h
  | y :: ys, 0, hs, h => by simp at h; subst h; exact hs.1
  | y :: ys, i + 1, hs, h => by simp at h; exact small_of_getElem hs.2 h

theorem small_of_find {k : Bytes} {x : JVal} : ∀ {ms : List (Bytes × JVal)}, SmallMembers ms → find k ms = some x → SmallArrays x
  | [], _, h => by simp [find] at h
  | (k', v) :: ms, hs, h => by
    simp only [find] at h
    by_cases e : k' = k
    · simp only [e, if_true, Option.some.injEq] at h; subst h; exact hs.1
    · simp only [e, if_false] at h; exact small_of_find hs.2 h

theorem get_sound : ∀ (ts : List Bytes) (d v : JVal), get d ts = .ok v → eval d ts = some v
  | [], d, v, h => by simp [get] at h; simp [eval, h]
  | tok :: rest, d, v, h => by
    cases d with
    | arr xs =>
      simp only [get] at h
      by_cases hd : isDash tok = true
      · simp [hd] at h
      · have hd' : isDash tok = false := by simpa using hd
        simp only [hd', Bool.false_eq_true, if_false] at h
        cases hi : decToIndex tok with
        | none => rw [hi] at h; simp at h
        | some i =>
          rw [hi] at h
          simp only [] at h
          simp only [eval, decToIndex_sound hi]
          split at h
          · simp at h
          · next x hx => simp only [hx]; exact get_sound rest x v h
    | obj ms =>
      simp only [get] at h
      simp only [eval]
      cases hf : find tok ms with
      | none => rw [hf] at h; simp at h
      | some x => rw [hf] at h; exact get_sound rest x v h
    | null => simp [get] at h
    | bool _ => simp [get] at h
    | int _ => simp [get] at h
    | str _ => simp [get] at h

theorem get_complete : ∀ (ts : List Bytes) (d v : JVal), SmallArrays d → eval d ts = some v → get d ts = .ok v
  | [], d, v, _, h => by simp [eval] at h; simp [get, h]
  | tok :: rest, d, v, hs, h => by
    cases d with
    | arr xs =>
      simp only [eval] at h
      cases hi : arrayIndex tok with
      | none => rw [hi] at h; simp at h
      | some i =>
        rw [hi] at h
        simp only [] at h
        split at h
        · simp at h
        · next x hx =>
          have hlt : i < xs.length := by
            have := List.getElem?_eq_some_iff.1 hx
            exact this.1
          have hsm : xs.length < 2 ^ 64 ∧ SmallList xs := by simpa [SmallArrays] using hs
          have hdash : isDash tok = false := by
            cases hd : isDash tok with
            | false => rfl
            | true =>
              have : tok = [45] := by simpa [isDash] using hd
              rw [this, arrayIndex_dash] at hi; simp at hi
          have hidx := decToIndex_complete hi (by omega)
          simp only [get, hdash, Bool.false_eq_true, if_false, hidx, hx]
          exact get_complete rest x v (small_of_getElem hsm.2 hx) h
    | obj ms =>
      simp only [eval] at h
      cases hf : find tok ms with
      | none => rw [hf] at h; simp at h
      | some x =>
        rw [hf] at h
        have hsm : SmallMembers ms := by simpa [SmallArrays] using hs
        simp only [get, hf]
        exact get_complete rest x v (small_of_find hsm hf) h
    | null => simp [eval] at h
    | bool _ => simp [eval] at h
    | int _ => simp [eval] at h
    | str _ => simp [eval] at h

end Pointer
end Model
end JV

namespace JV
namespace Model
namespace Pointer
open Assoc

theorem find_replaceVal_self {k : Bytes} {v : JVal} : ∀ {ms : List (Bytes × JVal)} {x : JVal}, find k ms = some x →
    find k (replaceVal k v ms) = some v
  | [], _, h => by simp [find] at h
  | (k', v') :: ms, x, h => by
    simp only [find] at h
    by_cases e : k' = k
    · simp [replaceVal, e, find]
    · simp only [e, if_false] at h
      simp [replaceVal, e, find, find_replaceVal_self h]

theorem find_append_absent {k : Bytes} {v : JVal} : ∀ {ms : List (Bytes × JVal)}, find k ms = none →
    find k (ms ++ [(k, v)]) = some v
  | [], _ => by simp [find]
  | (k', v') :: ms, h => by
    simp only [find] at h
    by_cases e : k' = k
    · simp [e] at h
    · simp only [e, if_false] at h
      simp [find, e, find_append_absent h]

theorem find_tryEmplace_self (ordered : Bool) {k : Bytes} {v : JVal} {ms : List (Bytes × JVal)} (h : find k ms = none) :
    find k (tryEmplace ordered k v ms) = some v := by
  unfold tryEmplace
  rw [h]
  cases ordered
  · simpa using find_insertSorted_self
  · simpa using find_append_absent h

theorem find_insertOrAssign_self (ordered : Bool) (k : Bytes) (v : JVal) (ms : List (Bytes × JVal)) :
    find k (insertOrAssign ordered k v ms) = some v := by
  unfold insertOrAssign
  cases h : find k ms with
  | some x => exact find_replaceVal_self h
  | none =>
    cases ordered
    · simpa using find_insertSorted_self
    · simpa using find_append_absent h

theorem getElem_insertAt {v : JVal} : ∀ {xs : List JVal} {i : Nat}, i ≤ xs.length → (insertAt i v xs)[i]? = some v := by
  intro xs i h
  unfold insertAt
  rw [List.getElem?_append_right (by simp; omega)]
  simp [Nat.min_eq_left h]

/-- after a successful `add` / `add_if_absent` / `replace` whose last token is not `-`, the location holds the value -/
theorem modifyAt_then_get (ordered create : Bool) (f : Final) (v : JVal)
    (hf : f = .add v ∨ f = .addIfAbsent v ∨ f = .replace v) :
    ∀ (rest : List Bytes) (cur : JVal) (tok : Bytes), (tok :: rest).getLast? ≠ some [45] →
      (modifyAt ordered create f cur tok rest).1 = none →
      get (modifyAt ordered create f cur tok rest).2 (tok :: rest) = .ok v
  | [], cur, tok, hlast, hok => by
    have hnd : isDash tok = false := by
      cases hd : isDash tok with
      | false => rfl
      | true =>
        have : tok = [45] := by simpa [isDash] using hd
        subst this; simp at hlast
    simp only [modifyAt] at hok ⊢
    cases cur with
    | arr xs =>
      rcases hf with hf | hf | hf <;> subst hf <;> simp only [finalStep, hnd, Bool.false_eq_true, if_false] at hok ⊢
      all_goals
        cases hi : decToIndex tok with
        | none => (try rw [hi] at hok); simp at hok
        | some i =>
          (try rw [hi] at hok); (try rw [hi])
          simp only [] at hok ⊢
          first
          | (by_cases h1 : i > xs.length
             · simp [h1] at hok
             · by_cases h2 : i = xs.length
               · subst h2; simp [get, hnd, hi]
               · have h3 : i ≤ xs.length := by omega
                 simp only [h1, h2, if_false, get, hnd, Bool.false_eq_true, hi, getElem_insertAt h3])
          | (by_cases h1 : i ≥ xs.length
             · simp [h1] at hok
             · have h3 : i < xs.length := by omega
               simp [h1, get, hnd, hi, h3])
    | obj ms =>
      rcases hf with hf | hf | hf <;> subst hf <;> simp only [finalStep] at hok ⊢
      · simp [get, find_insertOrAssign_self]
      · cases hfi : find tok ms with
        | some x => rw [hfi] at hok; simp at hok
        | none => simp [get, find_tryEmplace_self ordered hfi]
      · cases hfi : find tok ms with
        | some x => simp [get, find_insertOrAssign_self]
        | none =>
          rw [hfi] at hok
          by_cases hc : create = true
          · simp [hc, get, find_tryEmplace_self ordered hfi]
          · simp [hc] at hok
    | null => simp [finalStep] at hok
    | bool _ => simp [finalStep] at hok
    | int _ => simp [finalStep] at hok
    | str _ => simp [finalStep] at hok
  | t2 :: rest, cur, tok, hlast, hok => by
    have hlast' : (t2 :: rest).getLast? ≠ some [45] := by simpa [List.getLast?_cons_cons] using hlast
    cases cur with
    | arr xs =>
      simp only [modifyAt] at hok ⊢
      by_cases hd : isDash tok = true
      · simp [hd] at hok
      · have hd' : isDash tok = false := by simpa using hd
        simp only [hd', Bool.false_eq_true, if_false] at hok ⊢
        cases hi : decToIndex tok with
        | none => (try rw [hi] at hok); simp at hok
        | some i =>
          (try rw [hi] at hok); (try rw [hi])
          simp only [] at hok ⊢
          split at hok
          · simp at hok
          · next x hx =>
            have hlt : i < xs.length := (List.getElem?_eq_some_iff.1 hx).1
            simp only [hx]
            have ih := modifyAt_then_get ordered create f v hf rest x t2 hlast' hok
            simp only [get, hd', Bool.false_eq_true, if_false, hi]
            simp [hlt, ih]
    | obj ms =>
      simp only [modifyAt] at hok ⊢
      cases hfi : find tok ms with
      | some x =>
        rw [hfi] at hok
        simp only [] at hok ⊢
        have ih := modifyAt_then_get ordered create f v hf rest x t2 hlast' hok
        simp only [get, find_replaceVal_self hfi]
        exact ih
      | none =>
        rw [hfi] at hok
        simp only [] at hok ⊢
        by_cases hc : create = true
        · subst hc
          simp only [if_true] at hok ⊢
          have ih := modifyAt_then_get ordered true f v hf rest (.obj []) t2 hlast' hok
          simp only [get, find_tryEmplace_self ordered hfi]
          exact ih
        · simp [hc] at hok
    | null => simp [modifyAt] at hok
    | bool _ => simp [modifyAt] at hok
    | int _ => simp [modifyAt] at hok
    | str _ => simp [modifyAt] at hok

end Pointer
end Model
end JV
