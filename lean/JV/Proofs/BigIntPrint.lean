/-
  JV.Proofs.BigIntPrint — `write_string`: the digit loop over 10^19 chunks, and print-then-parse.
-/
import JV.Proofs.BigIntRadix
namespace JV
namespace Model
namespace BigInt

/-! ### bigint → decimal text (write_string) -/

/-- value of decimal digit characters written least significant first -/
def leDec : List Nat → Nat
  | [] => 0
  | c :: cs => (c - 48) + 10 * leDec cs

theorem leDec_append (a b : List Nat) : leDec (a ++ b) = leDec a + 10 ^ a.length * leDec b := by
  induction a with
  | nil => simp [leDec]
  | cons c cs ih =>
    simp only [List.cons_append, leDec, ih, List.length_cons, Nat.pow_succ]
    have : 10 * (10 ^ cs.length * leDec b) = 10 ^ cs.length * 10 * leDec b := by
      rw [← Nat.mul_assoc, Nat.mul_comm 10]
    rw [Nat.mul_add, this]
    omega

theorem decVal_reverse : ∀ (l : List Nat), decVal l.reverse = leDec l
  | [] => rfl
  | c :: cs => by
    rw [List.reverse_cons, decVal_append, decVal_reverse cs]
    simp [decVal, leDec]; omega

theorem allDigits_reverse {l : List Nat} (h : AllDigits l) : AllDigits l.reverse :=
  fun c hc => h c (List.mem_reverse.1 hc)

theorem allDigits_append {a b : List Nat} (ha : AllDigits a) (hb : AllDigits b) : AllDigits (a ++ b) := by
  intro c hc
  rcases List.mem_append.1 hc with h | h
  · exact ha c h
  · exact hb c h

theorem chunkDigits_spec : ∀ (j r : Nat) (more : Bool), r < 10 ^ j →
    leDec (chunkDigits j r more) = r ∧ AllDigits (chunkDigits j r more) ∧ (more = true → (chunkDigits j r more).length = j)
  | 0, r, more, h => by
    simp at h
    exact ⟨by simp [chunkDigits, leDec, h], fun _ hc => by simp [chunkDigits] at hc, fun _ => rfl⟩
  | j + 1, r, more, h => by
    have hdig : isDigit (r % 10 + 48) = true := isDigit_iff.2 (by omega)
    have hr' : r / 10 < 10 ^ j := by rw [Nat.pow_succ] at h; omega
    obtain ⟨i1, i2, i3⟩ := chunkDigits_spec j (r / 10) more hr'
    unfold chunkDigits
    simp only []
    by_cases hs : r / 10 = 0 ∧ (!more) = true
    · rw [if_pos hs]
      refine ⟨by simp [leDec]; omega, ?_, ?_⟩
      · intro c hc; simp at hc; rw [hc]; exact hdig
      · intro hm; rw [hm] at hs; simp at hs
    · rw [if_neg hs]
      refine ⟨by simp only [leDec, i1]; omega, ?_, fun hm => by simp [i3 hm]⟩
      intro c hc
      rcases List.mem_cons.1 hc with e | e
      · rw [e]; exact hdig
      · exact i2 c e

theorem chunkDigits_ne_nil (j r : Nat) (more : Bool) : chunkDigits (j + 1) r more ≠ [] := by
  unfold chunkDigits
  simp only []
  split <;> simp

/-- what `toDecimal` needs from the division by 10^19 it is given -/
def Div19Exact (P : List Nat → Prop) (div19 : List Nat → List Nat × Nat) : Prop :=
  ∀ v, P v → Words v → val v = val (div19 v).1 * 10 ^ 19 + (div19 v).2 ∧ (div19 v).2 < 10 ^ 19 ∧ Words (div19 v).1 ∧
    ((div19 v).1 = [] ↔ val (div19 v).1 = 0) ∧ P (div19 v).1

theorem toDecimalLoop_spec (P : List Nat → Prop) (div19 : List Nat → List Nat × Nat) (hdiv : Div19Exact P div19) :
    ∀ (fuel : Nat) (v : List Nat), P v → Words v → val v < (10 ^ 19) ^ fuel →
    leDec (toDecimalLoop div19 fuel v) = val v ∧ AllDigits (toDecimalLoop div19 fuel v)
  | 0, v, _, _, h => by
    simp at h
    exact ⟨by simp [toDecimalLoop, leDec, h], fun _ hc => by simp [toDecimalLoop] at hc⟩
  | fuel + 1, v, hP, hw, h => by
    obtain ⟨d1, d2, d3, d4, d5⟩ := hdiv v hP hw
    obtain ⟨c1, c2, c3⟩ := chunkDigits_spec 19 (div19 v).2 (decide ((div19 v).1 ≠ [])) d2
    unfold toDecimalLoop
    simp only []
    by_cases hq : (div19 v).1 = []
    · rw [if_pos hq]
      refine ⟨?_, c2⟩
      rw [c1, d1, d4.1 hq]; omega
    · rw [if_neg hq]
      have hqv : val (div19 v).1 < (10 ^ 19) ^ fuel := by
        rw [Nat.pow_succ] at h
        have : val (div19 v).1 * 10 ^ 19 < (10 ^ 19) ^ fuel * 10 ^ 19 := by omega
        exact Nat.lt_of_mul_lt_mul_right this
      obtain ⟨i1, i2⟩ := toDecimalLoop_spec P div19 hdiv fuel (div19 v).1 d5 d3 hqv
      refine ⟨?_, allDigits_append c2 i2⟩
      rw [leDec_append, c1, i1, c3 (by simp [hq]), d1]
      rw [Nat.mul_comm]; omega

theorem toDecimalLoop_ne_nil (div19 : List Nat → List Nat × Nat) (fuel : Nat) (v : List Nat) :
    toDecimalLoop div19 (fuel + 1) v ≠ [] := by
  unfold toDecimalLoop
  simp only []
  have := chunkDigits_ne_nil 18 (div19 v).2 (decide ((div19 v).1 ≠ []))
  split
  · exact this
  · intro h; exact this (List.append_eq_nil_iff.1 h).1

theorem ofDecimal_digits (s : List Nat) (hd : AllDigits s) : ofDecimal s = (if s = [] then none else ofDecimalDigits false s) := by
  unfold ofDecimal
  split
  · simp
  · rename_i cs
    have := isDigit_iff.1 (hd 45 (by simp)); omega
  · rename_i h1 h2
    by_cases hs : s = []
    · exact absurd hs h1
    · rw [if_neg hs]

theorem ofDecimal_minus (s : List Nat) : ofDecimal (45 :: s) = ofDecimalDigits true s := by
  unfold ofDecimal; rfl

theorem fuel19 (n : Nat) : B ^ n ≤ (10 ^ 19) ^ (2 * n + 1) := by
  have h1 : B ≤ (10 ^ 19) ^ 2 := by decide
  have h2 : B ^ n ≤ ((10 ^ 19) ^ 2) ^ n := Nat.pow_le_pow_left h1 n
  rw [← Nat.pow_mul] at h2
  exact Nat.le_trans h2 (Nat.pow_le_pow_right (by decide) (by omega))

/-- printing then parsing gives the same integer back, provided the division by 10^19 that `write_string`
    calls is exact -/
theorem print_parse (P : List Nat → Prop) (div19 : List Nat → List Nat × Nat) (hdiv : Div19Exact P div19) (a : Big)
    (hP : P a.mag) (hw : Words a.mag) :
    ∃ b, ofDecimal (toDecimal div19 a) = some b ∧ toInt b = toInt a := by
  unfold toDecimal
  by_cases hz : a.mag = []
  · rw [if_pos hz]
    refine ⟨ofWord 0, by decide, ?_⟩
    unfold toInt; rw [hz]; cases a.neg <;> simp [ofWord, val]
  · rw [if_neg hz]
    simp only []
    have hlt : val a.mag < (10 ^ 19) ^ (2 * a.mag.length + 1) := Nat.lt_of_lt_of_le (val_lt hw) (fuel19 _)
    obtain ⟨l1, l2⟩ := toDecimalLoop_spec P div19 hdiv _ a.mag hP hw hlt
    have l3 := toDecimalLoop_ne_nil div19 (2 * a.mag.length) a.mag
    generalize toDecimalLoop div19 (2 * a.mag.length + 1) a.mag = ds at *
    have hne : ds.reverse ≠ [] := by simpa using l3
    cases hn : a.neg with
    | true =>
      simp only [if_true, List.reverse_append, List.reverse_cons, List.reverse_nil, List.nil_append, List.cons_append]
      rw [ofDecimal_minus]
      obtain ⟨b, b1, b2, _, _, b5⟩ := ofDecimalDigits_ok true ds.reverse hne (allDigits_reverse l2)
      refine ⟨b, b1, ?_⟩
      rw [decVal_reverse, l1] at b2 b5
      unfold toInt
      rw [hn, b2]
      rcases b5 with h | h
      · rw [h]
      · rw [h]; simp
    | false =>
      simp only [Bool.false_eq_true, if_false]
      rw [ofDecimal_digits _ (allDigits_reverse l2), if_neg hne]
      obtain ⟨b, b1, b2, _, b4, _⟩ := ofDecimalDigits_ok false ds.reverse hne (allDigits_reverse l2)
      refine ⟨b, b1, ?_⟩
      rw [decVal_reverse, l1] at b2
      unfold toInt
      rw [hn, b2]
      cases hb : b.neg with
      | true => exact absurd (b4 hb) (by simp)
      | false => simp


/-- `divide(LP10)` for a value of at most one word runs through the `num < denom` or the 1×1 exit -/
theorem div19Word_exact : Div19Exact (fun v => v.length ≤ 1) div19Word := by
  intro v hP hw
  have hsome : ∃ q r, divWord v 10000000000000000000 = some (q, r) := by
    unfold divWord
    by_cases hc : cmpMag v [10000000000000000000] < 0
    · rw [if_pos hc]; exact ⟨_, _, rfl⟩
    · rw [if_neg hc]
      match v, hP, hc with
      | [], _, hc => exact absurd (by decide) hc
      | [a], _, _ => exact ⟨_, _, rfl⟩
      | _ :: _ :: _, hP, _ => simp at hP
  obtain ⟨q, r, hqr⟩ := hsome
  obtain ⟨s1, s2, s3⟩ := divWord_spec v 10000000000000000000 hw (by omega) q r hqr
  have e : div19Word v = (q, r.headD 0) := by unfold div19Word; rw [hqr]
  rw [e]
  simp only []
  -- which exit
  unfold divWord at hqr
  by_cases hc : cmpMag v [10000000000000000000] < 0
  · rw [if_pos hc] at hqr
    injection hqr with h; injection h with h1 h2
    subst h1; subst h2
    obtain ⟨c1, c2⟩ := cmp_lt_word v 10000000000000000000 (by omega) hc
    exact ⟨by rw [c2]; simp [val], by rw [c2]; omega, s2, by simp [val], by simp⟩
  · obtain ⟨t1, t2⟩ := s3 hc
    rw [if_neg hc] at hqr
    match v, hP, hqr with
    | [], _, _ => exact absurd (by decide) hc
    | [a], _, hqr =>
      simp only [] at hqr
      injection hqr with h; injection h with h1 h2
      refine ⟨by rw [t2]; have : (10:Nat) ^ 19 = 10000000000000000000 := by decide
                 omega, by rw [t2]; omega, s2, ?_, ?_⟩
      · rw [← h1, val_ofWord]; unfold ofWord; by_cases h0 : a / 10000000000000000000 = 0 <;> simp [h0]
      · rw [← h1]; unfold ofWord; by_cases h0 : a / 10000000000000000000 = 0 <;> simp [h0]
    | _ :: _ :: _, hP, _ => simp at hP

/-- unconditional for values of at most one word: `write_string` then the string constructor is the identity
    on the integer, the division being the modelled `divide` exits -/
theorem print_parse_word (a : Big) (hl : a.mag.length ≤ 1) (hw : Words a.mag) :
    ∃ b, ofDecimal (toDecimal div19Word a) = some b ∧ toInt b = toInt a :=
  print_parse _ div19Word div19Word_exact a hl hw

end BigInt
end Model
end JV
