/-
  JV.Proofs.Patch — per-operation lemmas for JV.Props.C15.
-/
import JV.Proofs.PointerOps
import JV.Model.Patch
namespace JV
namespace Model
namespace Patch
open Assoc Pointer

theorem apply_err_doc (ordered : Bool) (f : Final) (d : JVal) (ts : List Bytes)
    (h : (Pointer.apply ordered false f d ts).1 ≠ none) : (Pointer.apply ordered false f d ts).2 = d := by
  cases ts with
  | nil => cases f <;> simp_all [Pointer.apply]
  | cons tok rest => exact modifyAt_err ordered false f (fun _ => rfl) rest d tok h

/-- the insert-else-replace sequence either succeeds or leaves the document as it was -/
theorem addLike_fail_doc (ordered : Bool) (target : JVal) (npath : List Bytes) (val : JVal)
    (h : (addLike ordered target npath val).1 = false) : (addLike ordered target npath val).2.1 = target := by
  unfold addLike at h ⊢
  by_cases hn : npath = []
  · subst hn
    simp only [if_true] at h ⊢
    cases hg : Pointer.get target [] with
    | error e => simp [Pointer.get] at hg
    | ok orig =>
      simp only [hg] at h ⊢
      cases hr : (Pointer.apply ordered false (Final.replace val) target []).1 with
      | none => simp [hr] at h
      | some e =>
        simp only [hr]
        exact apply_err_doc ordered _ target [] (by simp [hr])
  · simp only [hn, if_false] at h ⊢
    cases hi : (Pointer.apply ordered false (Final.addIfAbsent val) target npath).1 with
    | none => simp [hi] at h
    | some e =>
      have hdoc := apply_err_doc ordered (Final.addIfAbsent val) target npath (by simp [hi])
      simp only [hi] at h ⊢
      rw [hdoc] at h ⊢
      cases hg : Pointer.get target npath with
      | error e => simp
      | ok orig =>
        simp only [hg] at h ⊢
        cases hr : (Pointer.apply ordered false (Final.replace val) target npath).1 with
        | none => simp [hr] at h
        | some e =>
          simp only [hr]
          exact apply_err_doc ordered _ target npath (by simp [hr])

end Patch
end Model
end JV

namespace JV
namespace Model
namespace Patch
open Assoc Pointer

/-- the document an operation leaves behind on failure, as a function of its undo entries -/
def ErrOK (t : JVal) (r : OpResult) : Prop := r.1 ≠ none → r.2.2 = [] → r.2.1 = t

theorem opTest_err (t : JVal) (loc : List Bytes) (om : List (Bytes × JVal)) : ErrOK t (opTest t loc om) := by
  unfold ErrOK opTest
  repeat' split
  all_goals simp

theorem opAdd_err (o : Bool) (t : JVal) (loc : List Bytes) (om : List (Bytes × JVal)) : ErrOK t (opAdd o t loc om) := by
  unfold ErrOK opAdd
  split
  · simp
  · next v _ =>
    by_cases h : (addLike o t (definitePath t loc) v).1 = true
    · simp [h]
    · have h' : (addLike o t (definitePath t loc) v).1 = false := by simpa using h
      simp [h', addLike_fail_doc o t _ v h']

theorem opRemove_err (o : Bool) (t : JVal) (loc : List Bytes) : ErrOK t (opRemove o t loc) := by
  unfold ErrOK opRemove
  split
  · simp
  · cases hr : (Pointer.apply o false Final.remove t loc).1 with
    | none => simp [hr]
    | some e =>
      have := apply_err_doc o Final.remove t loc (by rw [hr]; simp)
      simp [hr, this]

theorem opReplace_err (o : Bool) (t : JVal) (loc : List Bytes) (om : List (Bytes × JVal)) : ErrOK t (opReplace o t loc om) := by
  unfold ErrOK opReplace
  split
  · simp
  · split
    · simp
    · next v _ =>
      cases hr : (Pointer.apply o false (Final.replace v) t loc).1 with
      | none => simp [hr]
      | some e =>
        have := apply_err_doc o (Final.replace v) t loc (by rw [hr]; simp)
        simp [hr, this]

theorem opCopy_err (o : Bool) (t : JVal) (loc : List Bytes) (om : List (Bytes × JVal)) : ErrOK t (opCopy o t loc om) := by
  unfold ErrOK opCopy
  split
  · simp
  · split
    · simp
    · next val _ =>
      by_cases h : (addLike o t (definitePath t loc) val).1 = true
      · simp [h]
      · have h' : (addLike o t (definitePath t loc) val).1 = false := by simpa using h
        simp [h', addLike_fail_doc o t _ val h']

theorem opMove_err (o : Bool) (t : JVal) (loc : List Bytes) (om : List (Bytes × JVal)) : ErrOK t (opMove o t loc om) := by
  unfold ErrOK opMove
  split
  · simp
  · split
    · simp
    · split
      · simp
      · next fromPtr _ _ val _ =>
        cases hr : (Pointer.apply o false Final.remove t fromPtr).1 with
        | some e =>
          have := apply_err_doc o Final.remove t fromPtr (by rw [hr]; simp)
          simp [hr, this]
        | none =>
          simp only [hr]
          split <;> simp

/-- an operation that fails without having logged an undo entry leaves the document as it was
    (the only failing operation that logs an entry is the second half of `move`) -/
theorem applyOp_err_doc (ordered : Bool) (t operation : JVal)
    (h1 : (applyOp ordered t operation).1 ≠ none) (h2 : (applyOp ordered t operation).2.2 = []) :
    (applyOp ordered t operation).2.1 = t := by
  revert h1 h2
  show ErrOK t (applyOp ordered t operation)
  unfold applyOp
  split
  · split
    · simp [ErrOK]
    · split
      · simp [ErrOK]
      · split
        · simp [ErrOK]
        · split
          · exact opTest_err _ _ _
          · split
            · exact opAdd_err _ _ _ _
            · split
              · exact opRemove_err _ _ _
              · split
                · exact opReplace_err _ _ _ _
                · split
                  · exact opMove_err _ _ _ _
                  · split
                    · exact opCopy_err _ _ _ _
                    · simp [ErrOK]
  · simp [ErrOK]

end Patch
end Model
end JV
