/-
  JV.Proofs.JMESPath — laws of the JMESPath reference semantics, and the link from its slice rule to the slice arithmetic
  jsoncons executes (which `JV.Proofs.JsonPathSlice` proves equal to RFC 9535 / Python slicing).
-/
import JV.Spec.JMESPath
import JV.Proofs.JsonPathSlice
namespace JV
namespace Spec
namespace JMESPath

/-! ### projections -/

theorem projectWith_shape (f : JVal → Except Err JVal) : ∀ (xs : List JVal) (r : JVal), projectWith f xs = .ok r →
    ∃ ys, r = .arr ys ∧ (∀ y ∈ ys, y.isNull = false) ∧ ys.length ≤ xs.length
  | [], r, h => by
    simp only [projectWith, Except.ok.injEq] at h
    exact ⟨[], h.symm, by simp, by simp⟩
  | x :: xs, r, h => by
    simp only [projectWith] at h
    cases hf : f x with
    | error e => simp [hf] at h
    | ok y =>
      simp only [hf] at h
      cases hp : projectWith f xs with
      | error e => simp [hp] at h
      | ok r' =>
        obtain ⟨ys, hr', hnn, hlen⟩ := projectWith_shape f xs r' hp
        subst hr'
        simp only [hp, Except.ok.injEq] at h
        by_cases hn : y.isNull = true
        · simp only [hn, if_true] at h
          exact ⟨ys, h.symm, hnn, by simp; omega⟩
        · simp only [hn] at h
          refine ⟨y :: ys, h.symm, ?_, by simp; omega⟩
          intro z hz
          rcases List.mem_cons.mp hz with rfl | hz
          · simpa using hn
          · exact hnn z hz

/-- a projection applied to anything but its container type is `null` (the specification's rule for `[*]`, `.*`, slices and filters) -/
theorem star_on_non_array (rest : List Step) (v : JVal) (h : v.isArray = false) : evalSteps (.star :: rest) v = .ok .null := by
  cases v <;> simp_all [evalSteps, JVal.isArray]

theorem filter_on_non_array (c : Expr) (rest : List Step) (v : JVal) (h : v.isArray = false) :
    evalSteps (.filter c :: rest) v = .ok .null := by
  cases v <;> simp_all [evalSteps, JVal.isArray]

theorem slice_on_non_array (s : Slice) (rest : List Step) (v : JVal) (h : v.isArray = false) :
    evalSteps (.slice s :: rest) v = .ok .null := by
  cases v <;> simp_all [evalSteps, JVal.isArray]

theorem objStar_on_non_object (rest : List Step) (v : JVal) (h : v.isObject = false) :
    evalSteps (.objStar :: rest) v = .ok .null := by
  cases v <;> simp_all [evalSteps, JVal.isObject]

/-! ### pipes and boolean operators -/

theorem pipe_assoc (a b c : Expr) (v : JVal) : eval (.pipe (.pipe a b) c) v = eval (.pipe a (.pipe b c)) v := by
  simp only [eval]
  cases eval a v with
  | error e => rfl
  | ok x => cases eval b x <;> rfl

theorem not_not (e : Expr) (v : JVal) :
    eval (.not (.not e)) v = (match eval e v with | .error err => .error err | .ok x => .ok (.bool (truthy x))) := by
  simp only [eval]
  cases eval e v with
  | error err => rfl
  | ok x => simp [truthy]

theorem or_idem (e : Expr) (v : JVal) : eval (.or e e) v = eval e v := by
  simp only [eval]
  cases h : eval e v with
  | error err => rfl
  | ok x => by_cases t : truthy x = true <;> simp [t, h]

theorem and_idem (e : Expr) (v : JVal) : eval (.and e e) v = eval e v := by
  simp only [eval]
  cases h : eval e v with
  | error err => rfl
  | ok x => by_cases t : truthy x = true <;> simp [t, h]

/-- `a || b` is `a` exactly when `a` is truthy; `a && b` is `a` exactly when it is not -/
theorem or_short_circuit (a b : Expr) (v x : JVal) (h : eval a v = .ok x) (t : truthy x = true) : eval (.or a b) v = .ok x := by
  simp [eval, h, t]

theorem and_short_circuit (a b : Expr) (v x : JVal) (h : eval a v = .ok x) (t : truthy x = false) : eval (.and a b) v = .ok x := by
  simp [eval, h, t]

/-! ### functions -/

theorem reverse_reverse (xs : List JVal) :
    (applyFn .reverse [.arr xs]).bind (fun r => applyFn .reverse [r]) = .ok (.arr xs) := by
  simp [applyFn, Except.bind]

theorem to_array_idem (v : JVal) : (applyFn .toArray [v]).bind (fun r => applyFn .toArray [r]) = applyFn .toArray [v] := by
  cases v <;> simp [applyFn, Except.bind]

theorem length_reverse (xs : List JVal) :
    (applyFn .reverse [.arr xs]).bind (fun r => applyFn .length [r]) = applyFn .length [.arr xs] := by
  simp [applyFn, Except.bind]

theorem keys_values_same_length (ms : List (Bytes × JVal)) :
    ∃ ks vs, applyFn .keys [.obj ms] = .ok (.arr ks) ∧ applyFn .values [.obj ms] = .ok (.arr vs) ∧ ks.length = vs.length :=
  ⟨_, _, rfl, rfl, by simp⟩

/-! ### stable sort: a sorted permutation -/

theorem insertFront_perm {α : Type} (le : α → α → Bool) (x : α) : ∀ l : List α, (stableSort.insertFront le x l).Perm (x :: l)
  | [] => List.Perm.refl _
  | y :: ys => by
    simp only [stableSort.insertFront]
    split
    · exact List.Perm.refl _
    · exact ((insertFront_perm le x ys).cons y).trans (List.Perm.swap x y ys)

theorem foldl_insertFront_perm {α : Type} (le : α → α → Bool) : ∀ (l acc : List α),
    (l.foldl (fun acc x => stableSort.insertFront le x acc) acc).Perm (l ++ acc)
  | [], acc => List.Perm.refl _
  | x :: l, acc => by
    simp only [List.foldl_cons]
    refine (foldl_insertFront_perm le l _).trans ?_
    refine ((insertFront_perm le x acc).append_left l).trans ?_
    simpa using (List.perm_middle (a := x) (l₁ := l) (l₂ := acc))

theorem stableSort_perm {α : Type} (le : α → α → Bool) (l : List α) : (stableSort le l).Perm l := by
  unfold stableSort
  have := foldl_insertFront_perm le l.reverse []
  rw [List.append_nil] at this
  exact this.trans (List.reverse_perm l)

theorem insertFront_sorted {α : Type} (le : α → α → Bool) (tot : ∀ a b, le a b = true ∨ le b a = true)
    (tr : ∀ a b c, le a b = true → le b c = true → le a c = true) (x : α) :
    ∀ l : List α, l.Pairwise (fun a b => le a b = true) → (stableSort.insertFront le x l).Pairwise (fun a b => le a b = true)
  | [], _ => by simp [stableSort.insertFront]
  | y :: ys, h => by
    simp only [stableSort.insertFront]
    rw [List.pairwise_cons] at h
    split
    · rename_i hxy
      refine List.pairwise_cons.mpr ⟨?_, List.pairwise_cons.mpr h⟩
      intro z hz
      rcases List.mem_cons.mp hz with rfl | hz
      · exact hxy
      · exact tr _ _ _ hxy (h.1 z hz)
    · rename_i hxy
      have hyx : le y x = true := by
        rcases tot x y with h' | h'
        · exact absurd h' hxy
        · exact h'
      refine List.pairwise_cons.mpr ⟨?_, insertFront_sorted le tot tr x ys h.2⟩
      intro z hz
      have := (insertFront_perm le x ys).subset hz
      rcases List.mem_cons.mp this with rfl | hz'
      · exact hyx
      · exact h.1 z hz'

theorem stableSort_sorted {α : Type} (le : α → α → Bool) (tot : ∀ a b, le a b = true ∨ le b a = true)
    (tr : ∀ a b c, le a b = true → le b c = true → le a c = true) (l : List α) :
    (stableSort le l).Pairwise (fun a b => le a b = true) := by
  unfold stableSort
  generalize l.reverse = r
  suffices ∀ (r acc : List α), acc.Pairwise (fun a b => le a b = true) →
      (r.foldl (fun acc x => stableSort.insertFront le x acc) acc).Pairwise (fun a b => le a b = true) from this r [] List.Pairwise.nil
  intro r
  induction r with
  | nil => intro acc h; exact h
  | cons x r ih => intro acc h; exact ih _ (insertFront_sorted le tot tr x acc h)

/-- `sort` on an array of numbers returns a sorted permutation of it -/
theorem sort_ints_sorted_perm (is : List Int) :
    ∃ out : List Int, applyFn .sort [.arr (is.map .int)] = .ok (.arr (out.map .int)) ∧ out.Perm is ∧ out.Pairwise (· ≤ ·) := by
  have hall : allInts (is.map JVal.int) = some is := by
    induction is with
    | nil => rfl
    | cons i is ih => simp [allInts, ih]
  refine ⟨stableSort (fun a b => decide (a ≤ b)) is, by simp [applyFn, hall], stableSort_perm _ _, ?_⟩
  have := stableSort_sorted (fun (a b : Int) => decide (a ≤ b)) (fun a b => by simp; omega) (fun a b c h1 h2 => by simp at *; omega) is
  exact this.imp (by simp)

/-! ### slices: the reference rule is the arithmetic jsoncons executes -/

theorem eq_of_sorted_of_mem_iff : ∀ {l1 l2 : List Nat}, l1.Pairwise (· < ·) → l2.Pairwise (· < ·) → (∀ x, x ∈ l1 ↔ x ∈ l2) → l1 = l2
  | [], [], _, _, _ => rfl
  | [], b :: l2, _, _, h => by have := (h b).mpr (by simp); simp at this
  | a :: l1, [], _, _, h => by have := (h a).mp (by simp); simp at this
  | a :: l1, b :: l2, h1, h2, h => by
    rw [List.pairwise_cons] at h1 h2
    have hab : a = b := by
      have ha : a ∈ b :: l2 := (h a).mp (by simp)
      have hb : b ∈ a :: l1 := (h b).mpr (by simp)
      rcases List.mem_cons.mp ha with e | ha'
      · exact e
      · rcases List.mem_cons.mp hb with e | hb'
        · exact e.symm
        · have := h1.1 b hb'; have := h2.1 a ha'; omega
    subst hab
    congr 1
    apply eq_of_sorted_of_mem_iff h1.2 h2.2
    intro x
    constructor
    · intro hx
      have := (h x).mp (List.mem_cons_of_mem _ hx)
      rcases List.mem_cons.mp this with e | h'
      · have := h1.1 x hx; omega
      · exact h'
    · intro hx
      have := (h x).mpr (List.mem_cons_of_mem _ hx)
      rcases List.mem_cons.mp this with e | h'
      · have := h2.1 x hx; omega
      · exact h'

theorem eq_of_sorted_desc_of_mem_iff {l1 l2 : List Nat} (h1 : l1.Pairwise (· > ·)) (h2 : l2.Pairwise (· > ·))
    (h : ∀ x, x ∈ l1 ↔ x ∈ l2) : l1 = l2 := by
  have := eq_of_sorted_of_mem_iff (l1 := l1.reverse) (l2 := l2.reverse) (List.pairwise_reverse.mpr (h1.imp (by intro a b h; exact h)))
    (List.pairwise_reverse.mpr (h2.imp (by intro a b h; exact h))) (by simpa using h)
  simpa using congrArg List.reverse this

open Model.JsonPath in
/-- **The JMESPath slice rule is the slice arithmetic of the implementation.** For every start, stop, step and length the
    indices the reference enumerates are, in the same order, those `slice::get_start` / `get_stop` and the loop visit. -/
theorem sliceIndices_eq_impl (s : Slice) (n : Nat) :
    sliceIndices s n = sliceIdx { start := s.start, stop := s.stop, step := s.step } n := by
  have hmem : ∀ x, x ∈ sliceIndices s n ↔ (Rfc9535.Selected s.start s.stop s.step n (x : Int) ∧ x < n) := by
    intro x
    unfold sliceIndices Rfc9535.Selected
    by_cases hp : s.step > 0
    · have hn : ¬ s.step < 0 := by omega
      simp only [hp, if_true, hn, false_and, or_false, true_and, List.mem_filter, List.mem_range, decide_eq_true_eq,
        Int.dvd_iff_emod_eq_zero]
      constructor
      · rintro ⟨h1, h2⟩; exact ⟨h2, h1⟩
      · rintro ⟨h1, h2⟩; exact ⟨h2, h1⟩
    · by_cases hm : s.step < 0
      · simp only [hp, if_false, hm, if_true, false_and, false_or, true_and, List.mem_reverse, List.mem_filter, List.mem_range,
          decide_eq_true_eq, Int.dvd_iff_emod_eq_zero]
        constructor
        · rintro ⟨h1, h2⟩; exact ⟨h2, h1⟩
        · rintro ⟨h1, h2⟩; exact ⟨h2, h1⟩
      · have h0 : s.step = 0 := by omega
        simp [h0]
  have himpl : ∀ x, x ∈ sliceIdx { start := s.start, stop := s.stop, step := s.step } n ↔
      (Rfc9535.Selected s.start s.stop s.step n (x : Int) ∧ x < n) := by
    intro x
    constructor
    · intro h
      exact ⟨(sliceIdx_spec _ n x).mp h, sliceIdx_lt _ n x h⟩
    · intro h
      exact (sliceIdx_spec { start := s.start, stop := s.stop, step := s.step } n x).mpr h.1
  by_cases hp : s.step > 0
  · apply eq_of_sorted_of_mem_iff
    · unfold sliceIndices
      simp only [hp, if_true]
      exact (List.pairwise_lt_range).filter _
    · exact sliceIdx_ascending _ n hp
    · intro x; rw [hmem, himpl]
  · by_cases hm : s.step < 0
    · apply eq_of_sorted_desc_of_mem_iff
      · unfold sliceIndices
        simp only [hp, if_false, hm, if_true]
        rw [List.pairwise_reverse]
        exact ((List.pairwise_lt_range).filter _).imp (by intro a b h; exact h)
      · exact sliceIdx_descending _ n hm
      · intro x; rw [hmem, himpl]
    · have h0 : s.step = 0 := by omega
      simp [sliceIndices, sliceIdx, h0]

end JMESPath
end Spec
end JV
