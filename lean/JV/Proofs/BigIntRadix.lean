/-
  JV.Proofs.BigIntRadix — text and byte radix conversion, division by a half-word.
-/
import JV.Proofs.Number
import JV.Proofs.BigIntShift
namespace JV
namespace Model
namespace BigInt

/-! ### `+= word`, `v *= radix; v += digit` -/

theorem addWord_val (x : List Nat) (y : Nat) (hx : Words x) (hy : y < B) :
    val (addWord x y) = val x + y ∧ Words (addWord x y) := by
  unfold addWord
  have hpl := length_padTo (x.length + 1) x (by omega)
  have hyw : Words [y] := by intro z hz; simp at hz; omega
  obtain ⟨cout, h1, h2, _, h4⟩ := addLoop_spec (padTo (x.length + 1) x) [y] 0 (words_padTo _ hx) hyw (by omega)
    (by rw [hpl]; simp)
  refine ⟨?_, h4⟩
  rw [val_padTo, hpl, val_one] at h2
  have hxl := val_lt hx
  have hpow : B ^ (x.length + 1) = B ^ x.length * B := Nat.pow_succ ..
  have h1le : 1 ≤ B ^ x.length := Nat.pow_pos B_pos
  have h2B : 2 * B ^ x.length ≤ B ^ x.length * B := by
    rw [Nat.mul_comm]; exact Nat.mul_le_mul_left _ two_le_B
  have hBle : B ≤ B ^ x.length * B := Nat.le_mul_of_pos_left _ (by omega)
  cases hc : cout with
  | zero => rw [hc] at h2; omega
  | succ n =>
    have : cout = 1 := by omega
    rw [this, hpow] at h2
    -- val x + y < B^n + B; if n = 0 then val x = 0
    cases hn : x.length with
    | zero =>
      rw [hn] at hxl h2; simp at hxl h2; omega
    | succ m =>
      have : B ≤ B ^ x.length := by
        rw [hn, Nat.pow_succ]; exact Nat.le_mul_of_pos_left _ (Nat.pow_pos B_pos)
      omega

theorem reduce_false (m : List Nat) : reduce false m = { neg := false, mag := stripHigh m } := by
  unfold reduce; simp

theorem pushDigit_spec (r d : Nat) (hr : r < B) (hd : d < B) (v : Big) (hv : v.neg = false) (hw : Words v.mag) :
    (pushDigit r v d).neg = false ∧ Words (pushDigit r v d).mag ∧ val (pushDigit r v d).mag = val v.mag * r + d := by
  have e1 : mulWordBig v r = { neg := false, mag := mulWord v.mag r } := by
    unfold mulWordBig mulWord; rw [hv, reduce_false]
  have hmw := mulWord_words v.mag r hw hr
  have hmv := mulWord_val v.mag r hw hr
  obtain ⟨a1, a2⟩ := addWord_val (mulWord v.mag r) d hmw hd
  have e2 : pushDigit r v d = { neg := false, mag := stripHigh (addWord (mulWord v.mag r) d) } := by
    unfold pushDigit; rw [e1]; unfold addWordBig; simp only [Bool.false_eq_true, if_false]; rw [reduce_false]
  rw [e2]
  exact ⟨rfl, stripHigh_words a2, by simp only [stripHigh_val, a1, hmv]⟩

/-! ### decimal text → bigint -/

theorem ofDecimalLoop_ok : ∀ (s : List Nat) (v : Big), AllDigits s → v.neg = false → Words v.mag →
    ∃ b, ofDecimalLoop s v = some b ∧ b.neg = false ∧ Words b.mag ∧ val b.mag = val v.mag * 10 ^ s.length + decVal s
  | [], v, _, hv, hw => ⟨v, rfl, hv, hw, by simp [decVal]⟩
  | c :: cs, v, h, hv, hw => by
    have hc := isDigit_iff.1 (h c (by simp))
    obtain ⟨p1, p2, p3⟩ := pushDigit_spec 10 (c - 48) (by unfold B; omega) (by unfold B; omega) v hv hw
    obtain ⟨b, b1, b2, b3, b4⟩ := ofDecimalLoop_ok cs (pushDigit 10 v (c - 48)) (fun x hx => h x (by simp [hx])) p1 p2
    refine ⟨b, by simp only [ofDecimalLoop, hc, and_self, if_true, b1], b2, b3, ?_⟩
    rw [b4, p3]
    simp only [decVal, List.length_cons, Nat.pow_succ]
    rw [Nat.add_mul, Nat.mul_assoc, Nat.mul_comm 10]
    omega

theorem ofDecimalLoop_bad : ∀ (s : List Nat) (v : Big), ¬ AllDigits s → ofDecimalLoop s v = none
  | [], _, h => absurd (fun _ hc => by simp at hc) h
  | c :: cs, v, h => by
    by_cases hc : 48 ≤ c ∧ c ≤ 57
    · simp only [ofDecimalLoop, hc, and_self, if_true]
      apply ofDecimalLoop_bad
      intro hall
      apply h
      intro x hx
      rcases List.mem_cons.1 hx with e | e
      · rw [e]; exact isDigit_iff.2 hc
      · exact hall x e
    · simp only [ofDecimalLoop, hc, if_false]

theorem decVal_zeros : ∀ (s : List Nat), s.all (· = 48) = true → decVal s = 0 ∧ AllDigits s
  | [], _ => ⟨rfl, fun _ h => by simp at h⟩
  | c :: cs, h => by
    simp only [List.all_cons, Bool.and_eq_true, decide_eq_true_eq] at h
    obtain ⟨i1, i2⟩ := decVal_zeros cs h.2
    refine ⟨by simp [decVal, h.1, i1], ?_⟩
    intro x hx
    rcases List.mem_cons.1 hx with e | e
    · rw [e, h.1]; rfl
    · exact i2 x e

/-- `detail::to_bigint`: a non-empty digit string becomes exactly its decimal value, as a normal word list;
    the sign flag is only ever set when asked for -/
theorem ofDecimalDigits_ok (neg : Bool) (s : List Nat) (hne : s ≠ []) (h : AllDigits s) :
    ∃ b, ofDecimalDigits neg s = some b ∧ val b.mag = decVal s ∧ Words b.mag ∧ (b.neg = true → neg = true) ∧
      (b.neg = neg ∨ decVal s = 0) := by
  unfold ofDecimalDigits
  rw [if_neg hne]
  by_cases hz : s.all (· = 48) = true
  · rw [if_pos hz]
    exact ⟨ofWord 0, rfl, by simp [ofWord, val, (decVal_zeros s hz).1], by intro z hz; simp [ofWord] at hz, by simp [ofWord], Or.inr (decVal_zeros s hz).1⟩
  · rw [if_neg hz]
    obtain ⟨b, b1, b2, b3, b4⟩ := ofDecimalLoop_ok s (ofWord 0) h rfl (by intro z hz; simp [ofWord] at hz)
    rw [b1]
    refine ⟨_, rfl, ?_, b3, fun h => h, Or.inl rfl⟩
    simp only [b4]
    simp [ofWord, val]

theorem ofDecimalDigits_bad (neg : Bool) (s : List Nat) (h : ¬ AllDigits s) : ofDecimalDigits neg s = none := by
  unfold ofDecimalDigits
  by_cases hne : s = []
  · rw [if_pos hne]
  · rw [if_neg hne]
    by_cases hz : s.all (· = 48) = true
    · exact absurd (decVal_zeros s hz).2 h
    · rw [if_neg hz, ofDecimalLoop_bad s _ h]

/-! ### bytes → bigint -/

/-- big-endian value of a byte string -/
def beVal : List Nat → Nat
  | [] => 0
  | b :: bs => b * 256 ^ bs.length + beVal bs

theorem fromBytesLoop_ok : ∀ (s : List Nat) (v : Big), (∀ b ∈ s, b < 256) → v.neg = false → Words v.mag →
    (fromBytesLoop s v).neg = false ∧ Words (fromBytesLoop s v).mag ∧
      val (fromBytesLoop s v).mag = val v.mag * 256 ^ s.length + beVal s
  | [], v, _, hv, hw => ⟨hv, hw, by simp [fromBytesLoop, beVal]⟩
  | c :: cs, v, h, hv, hw => by
    have hc := h c (by simp)
    obtain ⟨p1, p2, p3⟩ := pushDigit_spec 256 c (by unfold B; omega) (by unfold B; omega) v hv hw
    obtain ⟨b2, b3, b4⟩ := fromBytesLoop_ok cs (pushDigit 256 v c) (fun x hx => h x (by simp [hx])) p1 p2
    simp only [fromBytesLoop]
    refine ⟨b2, b3, ?_⟩
    rw [b4, p3]
    simp only [beVal, List.length_cons, Nat.pow_succ]
    rw [Nat.add_mul, Nat.mul_assoc, Nat.mul_comm 256]
    omega

/-- `from_bytes_be`: the magnitude is the big-endian value of the bytes; negative exactly when signum < 0 -/
theorem fromBytesBE_val (sg : Int) (s : List Nat) (h : ∀ b ∈ s, b < 256) :
    val (fromBytesBE sg s).mag = beVal s ∧ Words (fromBytesBE sg s).mag ∧ ((fromBytesBE sg s).neg = decide (sg < 0)) := by
  obtain ⟨b2, b3, b4⟩ := fromBytesLoop_ok s (ofWord 0) h rfl (by intro z hz; simp [ofWord] at hz)
  have hz : val (ofWord 0).mag = 0 := by simp [ofWord, val]
  rw [hz, Nat.zero_mul, Nat.zero_add] at b4
  unfold fromBytesBE
  simp only []
  by_cases hs : sg < 0
  · rw [if_pos hs]; exact ⟨b4, b3, by simp [hs]⟩
  · rw [if_neg hs]; exact ⟨b4, b3, by simp [hs, b2]⟩

/-! ### division by a half-word (divide :1716-1737) -/

theorem H_eq_pow : H = 2 ^ 32 := by decide

theorem or_half (a b : Nat) (hb : b < H) (ha : a < H) : ((a <<< 32) % B) ||| b = a * H + b := by
  have h1 : a <<< 32 < B := by rw [Nat.shiftLeft_eq]; unfold B H at *; omega
  rw [Nat.mod_eq_of_lt h1, ← Nat.shiftLeft_add_eq_or_of_lt (by rw [← H_eq_pow]; exact hb), Nat.shiftLeft_eq, ← H_eq_pow]

theorem divHalf_word (d w dHi : Nat) (hd : d < H) (hw : w < B) (hdHi : dHi < d) :
    let dividend := ((dHi <<< 32) % B) ||| (w >>> 32)
    let q1 := dividend / d
    let r := dividend % d
    let dividend2 := ((r <<< 32) % B) ||| (w &&& (H - 1))
    let q2 := dividend2 / d
    let dHi' := dividend2 % d
    let qw := ((q1 <<< 32) % B) ||| q2
    dHi * B + w = qw * d + dHi' ∧ dHi' < d ∧ qw < B := by
  intro dividend q1 r dividend2 q2 dHi' qw
  have hd0 : 0 < d := by omega
  have hwhi : w >>> 32 = w / H := by rw [Nat.shiftRight_eq_div_pow, H_eq_pow]
  have hwlo : w &&& (H - 1) = w % H := by rw [H_eq_pow, Nat.and_two_pow_sub_one_eq_mod]
  have e1 : dividend = dHi * H + w / H := by
    show ((dHi <<< 32) % B) ||| (w >>> 32) = _
    rw [hwhi]; exact or_half dHi (w / H) (by unfold B H at *; omega) (by omega)
  have hr : r < d := Nat.mod_lt _ hd0
  have e2 : dividend2 = r * H + w % H := by
    show ((r <<< 32) % B) ||| (w &&& (H - 1)) = _
    rw [hwlo]; exact or_half r (w % H) (Nat.mod_lt _ (by unfold H; omega)) (by omega)
  have hq1 : q1 < H := Nat.div_lt_of_lt_mul (by rw [e1]; unfold B H at *; omega)
  have hdHi' : dHi' < d := Nat.mod_lt _ hd0
  have hq2 : q2 < H := Nat.div_lt_of_lt_mul (by rw [e2]; unfold B H at *; omega)
  have e3 : qw = q1 * H + q2 := or_half q1 q2 hq2 hq1
  have m1 : d * q1 + r = dividend := Nat.div_add_mod dividend d
  have m2 : d * q2 + dHi' = dividend2 := Nat.div_add_mod dividend2 d
  have e4 : qw * d = H * (d * q1) + d * q2 := by rw [e3]; grind
  refine ⟨?_, hdHi', by rw [e3]; unfold B H at *; omega⟩
  rw [e4]
  rw [e1] at m1
  rw [e2] at m2
  generalize d * q1 = A at *
  generalize d * q2 = C at *
  unfold B H at *
  omega

/-- value of a word list written most significant word first -/
def valM : List Nat → Nat
  | [] => 0
  | w :: ws => w * B ^ ws.length + valM ws

theorem valM_eq : ∀ (ws : List Nat), valM ws = val ws.reverse
  | [] => rfl
  | w :: ws => by
    rw [List.reverse_cons, val_append, val_one, List.length_reverse, valM, valM_eq ws, Nat.mul_comm]; omega

theorem divHalf_arith (dHi w qw d dHi' P Vs Vr r2 Bv : Nat) (hw : dHi * Bv + w = qw * d + dHi')
    (ih : dHi' * P + Vs = Vr * d + r2) : dHi * (P * Bv) + (w * P + Vs) = (qw * P + Vr) * d + r2 := by
  have h1 : (dHi * Bv + w) * P = (qw * d + dHi') * P := by rw [hw]
  have e1 : dHi * (P * Bv) + w * P = (dHi * Bv + w) * P := by grind
  have e2 : (qw * P + Vr) * d = qw * d * P + Vr * d := by grind
  have e3 : (qw * d + dHi') * P = qw * d * P + dHi' * P := by grind
  omega

theorem divHalfLoop_spec (d : Nat) (hd : d < H) : ∀ (ws : List Nat) (dHi : Nat), dHi < d → Words ws →
    dHi * B ^ ws.length + valM ws = valM (divHalfLoop d ws dHi).1 * d + (divHalfLoop d ws dHi).2 ∧
      (divHalfLoop d ws dHi).2 < d ∧ Words (divHalfLoop d ws dHi).1 ∧ (divHalfLoop d ws dHi).1.length = ws.length
  | [], dHi, h, _ => by
    refine ⟨by simp [divHalfLoop, valM], by simpa [divHalfLoop] using h, ?_, rfl⟩
    intro z hz; simp [divHalfLoop] at hz
  | w :: ws, dHi, h, hw => by
    have hword := divHalf_word d w dHi hd hw.head h
    simp only [] at hword
    obtain ⟨w1, w2, w3⟩ := hword
    simp only [divHalfLoop]
    obtain ⟨i1, i2, i3, i4⟩ := divHalfLoop_spec d hd ws _ w2 hw.tail
    refine ⟨?_, i2, ?_, by simp [i4]⟩
    · simp only [valM, List.length_cons, Nat.pow_succ, i4]
      exact divHalf_arith _ _ _ _ _ _ _ _ _ _ w1 i1
    · intro z hz
      rcases List.mem_cons.1 hz with e | e
      · rw [e]; exact w3
      · exact i3 z e

theorem val_ofWord (w : Nat) : val (ofWord w).mag = w := by
  unfold ofWord
  by_cases h : w = 0
  · simp [h, val]
  · simp [h, val]

theorem words_ofWord (w : Nat) (h : w < B) : Words (ofWord w).mag := by
  unfold ofWord
  intro z hz
  by_cases h0 : w = 0
  · simp [h0] at hz
  · simp [h0] at hz; omega

theorem headD_ofWord (w : Nat) : (ofWord w).mag.headD 0 = w := by
  unfold ofWord
  by_cases h : w = 0
  · simp [h]
  · simp [h]

theorem words_reverse {x : List Nat} (h : Words x) : Words x.reverse := fun z hz => h z (List.mem_reverse.1 hz)

/-- `divide` by a one-word denominator, on the three modelled exits: `num = quot * d + rem`, and `rem < d`
    unless the `num < denom` exit was taken (where `rem = num`) -/
theorem divWord_spec (x : List Nat) (d : Nat) (hx : Words x) (hd0 : 0 < d) (q r : List Nat)
    (h : divWord x d = some (q, r)) :
    val x = val q * d + val r ∧ Words q ∧ (¬ cmpMag x [d] < 0 → val r < d ∧ r.headD 0 = val r) := by
  unfold divWord at h
  by_cases hc : cmpMag x [d] < 0
  · rw [if_pos hc] at h
    injection h with h; injection h with h1 h2
    subst h1; subst h2
    exact ⟨by simp [val], by intro z hz; simp at hz, fun hn => absurd hc hn⟩
  · rw [if_neg hc] at h
    split at h
    · rename_i a
      injection h with h; injection h with h1 h2
      subst h1; subst h2
      rw [val_ofWord, val_ofWord, val_one]
      refine ⟨?_, words_ofWord _ ?_, fun _ => ⟨Nat.mod_lt _ hd0, by rw [headD_ofWord]⟩⟩
      · have := Nat.div_add_mod a d; rw [Nat.mul_comm] at this; omega
      · exact Nat.lt_of_le_of_lt (Nat.div_le_self _ _) hx.head
    · by_cases hh : d / H = 0
      · rw [if_pos hh] at h
        injection h with h; injection h with h1 h2
        subst h1; subst h2
        have hdH : d < H := by
          rcases Nat.lt_or_ge d H with h | h
          · exact h
          · have := Nat.div_pos h (by unfold H; omega); omega
        obtain ⟨s1, s2, s3, s4⟩ := divHalfLoop_spec d hdH x.reverse 0 hd0 (words_reverse hx)
        rw [Nat.zero_mul, Nat.zero_add, valM_eq, valM_eq, List.reverse_reverse] at s1
        rw [stripHigh_val, val_ofWord]
        exact ⟨s1, stripHigh_words (words_reverse s3), fun _ => ⟨s2, by rw [headD_ofWord]⟩⟩
      · rw [if_neg hh] at h; exact absurd h (by simp)

theorem divWord_some (x : List Nat) (d : Nat) (hh : d / H = 0) : ∃ q r, divWord x d = some (q, r) := by
  unfold divWord
  by_cases hc : cmpMag x [d] < 0
  · rw [if_pos hc]; exact ⟨_, _, rfl⟩
  · rw [if_neg hc]
    split
    · exact ⟨_, _, rfl⟩
    · rw [if_pos hh]; exact ⟨_, _, rfl⟩

/-! ### bigint → bytes (write_bytes_be) -/

def leVal256 : List Nat → Nat
  | [] => 0
  | b :: bs => b + 256 * leVal256 bs

theorem beVal_snoc (a : List Nat) (b : Nat) : beVal (a ++ [b]) = beVal a * 256 + b := by
  induction a with
  | nil => simp [beVal]
  | cons c cs ih =>
    simp only [List.cons_append, beVal, ih, List.length_append, List.length_cons, List.length_nil, Nat.pow_succ]
    rw [Nat.add_mul, Nat.mul_assoc]
    omega

theorem beVal_reverse : ∀ (l : List Nat), beVal l.reverse = leVal256 l
  | [] => rfl
  | b :: bs => by rw [List.reverse_cons, beVal_snoc, beVal_reverse bs, leVal256]; omega

theorem cmp_lt_word (n : List Nat) (d : Nat) (hd : 0 < d) (h : cmpMag n [d] < 0) : val n < d ∧ n.headD 0 = val n := by
  unfold cmpMag at h
  match n, h with
  | [], _ => exact ⟨hd, rfl⟩
  | [a], h =>
    simp only [List.length_cons, List.length_nil, Nat.lt_irrefl, if_false, List.reverse_cons, List.reverse_nil,
      List.nil_append, cmpWordsRev, gt_iff_lt] at h
    rw [val_one]
    by_cases h1 : d < a
    · simp [h1] at h
    · by_cases h2 : a < d
      · exact ⟨h2, rfl⟩
      · simp [h1, h2] at h
  | a :: b :: cs, h =>
    simp at h

theorem toBytesLoop_spec : ∀ (f : Nat) (n : List Nat), Words n → val n < 256 ^ f →
    leVal256 (toBytesLoop f n) = val n ∧ ∀ b ∈ toBytesLoop f n, b < 256
  | 0, n, _, h => by
    simp at h
    exact ⟨by simp [toBytesLoop, leVal256, h], by intro b hb; simp [toBytesLoop] at hb⟩
  | f + 1, n, hw, h => by
    unfold toBytesLoop
    by_cases hc : cmpMag n [256] ≥ 0
    · rw [if_pos hc]
      obtain ⟨q, r, hqr⟩ := divWord_some n 256 (by decide)
      obtain ⟨s1, s2, s3⟩ := divWord_spec n 256 hw (by omega) q r hqr
      obtain ⟨s4, s5⟩ := s3 (by omega)
      rw [hqr]
      simp only []
      have hq : val q < 256 ^ f := by
        rw [Nat.pow_succ] at h
        have : val q * 256 < 256 ^ f * 256 := by omega
        exact Nat.lt_of_mul_lt_mul_right this
      obtain ⟨i1, i2⟩ := toBytesLoop_spec f q s2 hq
      refine ⟨?_, ?_⟩
      · rw [leVal256, i1, s5, Nat.mod_eq_of_lt s4]; omega
      · intro b hb
        rcases List.mem_cons.1 hb with e | e
        · rw [e]; exact Nat.mod_lt _ (by omega)
        · exact i2 b e
    · rw [if_neg hc]
      obtain ⟨c1, c2⟩ := cmp_lt_word n 256 (by omega) (by omega)
      refine ⟨by rw [leVal256, leVal256, c2, Nat.mod_eq_of_lt c1]; omega, ?_⟩
      intro b hb
      simp at hb
      rw [hb]; exact Nat.mod_lt _ (by omega)

theorem B_eq_256 : B = 256 ^ 8 := by decide

/-- `write_bytes_be`: the bytes are the big-endian base-256 digits of the magnitude -/
theorem toBytesBE_val (a : Big) (hw : Words a.mag) :
    beVal (toBytesBE a).2 = val a.mag ∧ ∀ b ∈ (toBytesBE a).2, b < 256 := by
  have hlt : val a.mag < 256 ^ (8 * a.mag.length + 1) := by
    have := val_lt hw
    rw [B_eq_256, ← Nat.pow_mul] at this
    have h2 : 256 ^ (8 * a.mag.length) ≤ 256 ^ (8 * a.mag.length + 1) := Nat.pow_le_pow_right (by omega) (by omega)
    omega
  obtain ⟨s1, s2⟩ := toBytesLoop_spec _ a.mag hw hlt
  unfold toBytesBE
  simp only []
  exact ⟨by rw [beVal_reverse, s1], fun b hb => s2 b (List.mem_reverse.1 hb)⟩

/-- bytes written by `write_bytes_be` and read by `from_bytes_be` give the same integer back -/
theorem bytes_roundtrip (a : Big) (hw : Words a.mag) :
    toInt (fromBytesBE (toBytesBE a).1 (toBytesBE a).2) = toInt a := by
  obtain ⟨t1, t2⟩ := toBytesBE_val a hw
  obtain ⟨f1, _, f3⟩ := fromBytesBE_val (toBytesBE a).1 (toBytesBE a).2 t2
  unfold toInt
  rw [f1, f3, t1]
  unfold toBytesBE
  simp only []
  by_cases hz : a.mag = []
  · simp [hz, val]
  · cases hn : a.neg <;> simp [hz]


end BigInt
end Model
end JV
