/-
  JV.Proofs.JsonDepth — the nesting limit of the RFC 8259 reference: exact at every depth.
-/
import JV.Spec.Rfc8259
namespace JV
namespace Spec.Rfc8259

theorem skipWs_nonws (c : Bool) (n b : Nat) (s : Bytes) (h1 : isWs b = false) (h2 : b ≠ 47) :
    skipWs c (n + 1) (b :: s) = some (b :: s) := by
  simp [skipWs, h1, h2]

/-- the text `[[…[]…]]` with k+1 pairs of brackets, followed by `rest` -/
def nested : Nat → Bytes → Bytes
  | 0, rest => 91 :: 93 :: rest
  | k + 1, rest => 91 :: nested k (93 :: rest)

def nestV : Nat → JT
  | 0 => .arr []
  | k + 1 => .arr [nestV k]

theorem nested_head (k : Nat) (rest : Bytes) : ∃ tl, nested k rest = 91 :: tl := by
  cases k <;> simp [nested]

theorem nested_arrays (fl : Flags) : ∀ (k depth fuel : Nat) (rest : Bytes), 2 * k + 1 ≤ fuel →
    parseValue fl fuel depth (nested k rest) = if depth + (k + 1) ≤ fl.maxDepth then some (nestV k, rest) else none
  | 0, depth, fuel, rest, hf => by
    obtain ⟨f, rfl⟩ : ∃ f, fuel = f + 1 := ⟨fuel - 1, by omega⟩
    simp only [nested, parseValue, show (91:Nat) ≠ 123 by decide, if_false, if_true]
    by_cases hd : depth + 1 > fl.maxDepth
    · have : ¬ (depth + (0 + 1) ≤ fl.maxDepth) := by omega
      simp [hd, this]
    · have : depth + (0 + 1) ≤ fl.maxDepth := by omega
      simp only [hd, if_false, this, if_true]
      rw [skipWs_nonws fl.comments _ 93 rest (by decide) (by decide)]
      simp [nestV]
  | k + 1, depth, fuel, rest, hf => by
    obtain ⟨f, rfl⟩ : ∃ f, fuel = f + 1 := ⟨fuel - 1, by omega⟩
    obtain ⟨g, rfl⟩ : ∃ g, f = g + 1 := ⟨f - 1, by omega⟩
    have ih := nested_arrays fl k (depth + 1) g (93 :: rest) (by omega)
    obtain ⟨tl, htl⟩ := nested_head k (93 :: rest)
    simp only [nested, parseValue, show (91:Nat) ≠ 123 by decide, if_false, if_true]
    by_cases hd : depth + 1 > fl.maxDepth
    · have : ¬ (depth + (k + 1 + 1) ≤ fl.maxDepth) := by omega
      simp [hd, this]
    · simp only [hd, if_false]
      rw [htl, skipWs_nonws fl.comments _ 91 tl (by decide) (by decide)]
      simp only [parseElems]
      rw [← htl, ih]
      by_cases hl : depth + 1 + (k + 1) ≤ fl.maxDepth
      · have : depth + (k + 1 + 1) ≤ fl.maxDepth := by omega
        simp only [hl, if_true, this]
        rw [skipWs_nonws fl.comments _ 93 rest (by decide) (by decide)]
        simp [nestV]
      · have : ¬ (depth + (k + 1 + 1) ≤ fl.maxDepth) := by omega
        simp [hl, this]

/-- a whole text of k+1 nested arrays is accepted exactly when k+1 does not exceed the limit -/
theorem depth_limit_exact (fl : Flags) (k : Nat) :
    (parseText fl (nested k [])).isSome = decide (k + 1 ≤ fl.maxDepth) := by
  obtain ⟨tl, htl⟩ := nested_head k []
  unfold parseText
  rw [htl, skipWs_nonws fl.comments _ 91 tl (by decide) (by decide), ← htl]
  have hlen : 2 * k + 1 ≤ (nested k []).length + 1 := by
    have : ∀ (k : Nat) (r : Bytes), (nested k r).length = 2 * k + 2 + r.length := by
      intro k
      induction k with
      | zero => intro r; simp [nested]; omega
      | succ k ih => intro r; simp [nested, ih]; omega
    rw [this]; omega
  simp only []
  rw [nested_arrays fl k 0 _ [] hlen]
  by_cases h : k + 1 ≤ fl.maxDepth
  · have h' : 0 + (k + 1) ≤ fl.maxDepth := by omega
    simp [h, h', skipWs]
  · have h' : ¬ (0 + (k + 1) ≤ fl.maxDepth) := by omega
    simp [h, h']

end Spec.Rfc8259
end JV
