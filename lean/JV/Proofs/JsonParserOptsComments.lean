/-
  JV.Proofs.JsonParserOptsComments — `allow_comments`: in every space-skipping state the parser model skips exactly what the
  reference's `ws`-with-comments skips (`/* … */` with the `slash_star` / `slash_star_star` states and the `cr` state inside a block
  comment, `// …` up to — not including — the next CR or LF), reporting nothing: `SkipOK cfg true`, the hypothesis under which the
  forward simulation of Proofs/JsonParserRefine has been carried out. Hence completeness for the comment-enabled configurations.
-/
import JV.Proofs.JsonParserRefine
namespace JV
namespace Model
namespace JsonParser
open Spec.Rfc8259 (JT Flags parseValue parseText skipWs skipLine skipBlock isWs)

/-! ### the comment states entered from a space-skipping state `s` -/

def slashOf (s : St) : St := { (push s s.st) with st := .slash }
def lineOf (s : St) : St := { (push s s.st) with st := .slashSlash }
def blockOf (s : St) : St := { (push s s.st) with st := .slashStar }
def starOf (s : St) : St := { (push s s.st) with st := .slashStarStar }

theorem feedChar_ws_slash (cfg : Cfg) (s : St) (hs : wsState s.st = true) (he : s.err = none) : feedChar cfg s 47 = slashOf s := by
  have hctl : isCtl 47 = false := by decide
  have hsp : spaceOrSlash s 47 = some (slashOf s) := by simp [spaceOrSlash, slashOf]
  cases hst : s.st <;> simp [wsState, hst] at hs <;> simp [feedChar, he, stepChar, hst, hctl, hsp]

theorem feedChar_slash_slash (cfg : Cfg) (hc : cfg.comments = true) (s : St) (he : s.err = none) :
    feedChar cfg (slashOf s) 47 = lineOf s := by
  simp [feedChar, stepChar, slashOf, lineOf, push, he, hc]

theorem feedChar_slash_star (cfg : Cfg) (hc : cfg.comments = true) (s : St) (he : s.err = none) :
    feedChar cfg (slashOf s) 42 = blockOf s := by
  simp [feedChar, stepChar, slashOf, blockOf, push, he, hc]

theorem popTo_lineOf (s : St) : popTo (lineOf s) = s := by cases s; simp [popTo, lineOf, push]
theorem popTo_starOf (s : St) : popTo (starOf s) = s := by cases s; simp [popTo, starOf, push]

/-! ### `// …` -/

theorem feedChar_line_other (cfg : Cfg) (s : St) (he : s.err = none) (c : Nat) (h : ¬ (c = 10 ∨ c = 13)) :
    feedChar cfg (lineOf s) c = lineOf s := by
  have h' : ¬ (c = 13 ∨ c = 10) := fun e => h (e.symm)
  simp [feedChar, stepChar, lineOf, push, he, h']

theorem feedChar_line_end (cfg : Cfg) (s : St) (hs : wsState s.st = true) (he : s.err = none) (c : Nat) (h : c = 10 ∨ c = 13) :
    feedChar cfg (lineOf s) c = feedChar cfg s c := by
  have hcons : (stepChar cfg s c).2 = true := by
    apply stepChar_consumed <;> (intro h; simp [h, wsState] at hs)
  have e : (lineOf s).st = .slashSlash := rfl
  have h1 : stepChar cfg (lineOf s) c = (s, false) := by
    have h' : c = 13 ∨ c = 10 := h.symm
    simp [stepChar, e, h', popTo_lineOf]
  exact feedChar_redispatch cfg (lineOf s) s c (by simp [lineOf, push, he]) h1 he hcons

theorem feed_line (cfg : Cfg) (s : St) (hs : wsState s.st = true) (he : s.err = none) :
    ∀ rest : Bytes, skipLine rest ≠ [] → feed cfg (lineOf s) rest = feed cfg s (skipLine rest)
  | [], h => by simp [skipLine] at h
  | c :: cs, h => by
    by_cases hc : c = 10 ∨ c = 13
    · have e : skipLine (c :: cs) = c :: cs := by
        rcases hc with hc | hc <;> simp [skipLine, hc]
      rw [e, feed_cons, feed_cons, feedChar_line_end cfg s hs he c hc]
    · have e : skipLine (c :: cs) = skipLine cs := by
        have h1 : c ≠ 10 := fun e => hc (Or.inl e)
        have h2 : c ≠ 13 := fun e => hc (Or.inr e)
        simp [skipLine, h1, h2]
      rw [e] at h ⊢
      rw [feed_cons, feedChar_line_other cfg s he c hc]
      exact feed_line cfg s hs he cs h

/-! ### `/* … */` -/

theorem skipBlock_cons2 (a c : Nat) (cs : Bytes) :
    skipBlock (a :: c :: cs) = if a = 42 ∧ c = 47 then some cs else skipBlock (c :: cs) := by
  by_cases h : a = 42 ∧ c = 47
  · obtain ⟨rfl, rfl⟩ := h
    simp [skipBlock]
  · rw [if_neg h]
    rw [skipBlock]
    intro h1 h2
    exact h ⟨h1, h2⟩

theorem skipBlock_cons_ne (c : Nat) (cs r : Bytes) (hc : c ≠ 42) (h : skipBlock (c :: cs) = some r) : skipBlock cs = some r := by
  cases cs with
  | nil => simp [skipBlock] at h
  | cons d ds =>
    rw [skipBlock_cons2, if_neg (fun e => hc e.1)] at h
    exact h

theorem feedChar_block (cfg : Cfg) (s : St) (he : s.err = none) (c : Nat) :
    feedChar cfg (blockOf s) c = if c = 13 then crOf (blockOf s) else if c = 42 then starOf s else blockOf s := by
  by_cases h13 : c = 13
  · simp [feedChar, stepChar, blockOf, crOf, push, he, h13]
  · by_cases h42 : c = 42
    · simp [feedChar, stepChar, blockOf, starOf, push, he, h42]
    · simp [feedChar, stepChar, blockOf, push, he, h13, h42]

theorem feedChar_star (cfg : Cfg) (s : St) (he : s.err = none) (c : Nat) :
    feedChar cfg (starOf s) c = if c = 47 then s else if c = 42 then starOf s else blockOf s := by
  have e : (starOf s).st = .slashStarStar := rfl
  have ee : (starOf s).err = none := by simp [starOf, push, he]
  by_cases h47 : c = 47
  · simp [feedChar, stepChar, e, ee, h47, popTo_starOf]
  · by_cases h42 : c = 42
    · simp [feedChar, stepChar, e, ee, h42]
    · simp [feedChar, stepChar, h47, h42, starOf, blockOf, push, he]

theorem feedChar_block_cr (cfg : Cfg) (s : St) (he : s.err = none) (c : Nat) :
    feedChar cfg (crOf (blockOf s)) c = if c = 10 then blockOf s else feedChar cfg (blockOf s) c := by
  have e : (crOf (blockOf s)).st = .cr := rfl
  have ee : (crOf (blockOf s)).err = none := by simp [crOf, blockOf, push, he]
  have eb : (blockOf s).err = none := by simp [blockOf, push, he]
  by_cases h10 : c = 10
  · simp [feedChar, stepChar, e, ee, h10, popTo_crOf]
  · rw [if_neg h10]
    have h1 : stepChar cfg (crOf (blockOf s)) c = (blockOf s, false) := by simp [stepChar, e, h10, popTo_crOf]
    have hcons : (stepChar cfg (blockOf s) c).2 = true := by
      apply stepChar_consumed <;> simp [blockOf]
    exact feedChar_redispatch cfg _ _ c ee h1 eb hcons

theorem feed_block_aux (cfg : Cfg) (s : St) (he : s.err = none) : ∀ (n : Nat) (rest : Bytes), rest.length ≤ n → ∀ r : Bytes,
    (skipBlock rest = some r → feed cfg (blockOf s) rest = feed cfg s r) ∧
    (skipBlock (42 :: rest) = some r → feed cfg (starOf s) rest = feed cfg s r) ∧
    (skipBlock rest = some r → feed cfg (crOf (blockOf s)) rest = feed cfg s r)
  | _, [], _, r => by simp [skipBlock]
  | 0, _ :: _, h, _ => by simp at h
  | n + 1, c :: cs, hl, r => by
    have hl' : cs.length ≤ n := by simpa using hl
    obtain ⟨ihA, ihS, ihC⟩ := feed_block_aux cfg s he n cs hl' r
    have hA : skipBlock (c :: cs) = some r → feed cfg (blockOf s) (c :: cs) = feed cfg s r := by
      intro h
      rw [feed_cons, feedChar_block cfg s he c]
      by_cases h42 : c = 42
      · subst h42
        simp only [show ¬ (42 : Nat) = 13 by decide, if_false, if_true]
        exact ihS h
      · have h' := skipBlock_cons_ne c cs r h42 h
        by_cases h13 : c = 13
        · simp only [h13, if_true]; exact ihC h'
        · simp only [h13, h42, if_false]; exact ihA h'
    refine ⟨hA, ?_, ?_⟩
    · intro h
      rw [skipBlock_cons2] at h
      rw [feed_cons, feedChar_star cfg s he c]
      by_cases h47 : c = 47
      · simp only [h47, and_self, if_true, Option.some.injEq] at h ⊢
        rw [h]
      · simp only [h47, and_false, if_false] at h ⊢
        by_cases h42 : c = 42
        · subst h42
          simp only [if_true]
          exact ihS h
        · simp only [h42, if_false]
          exact ihA (skipBlock_cons_ne c cs r h42 h)
    · intro h
      rw [feed_cons, feedChar_block_cr cfg s he c]
      by_cases h10 : c = 10
      · subst h10
        simp only [if_true]
        exact ihA (skipBlock_cons_ne 10 cs r (by decide) h)
      · simp only [h10, if_false]
        rw [← feed_cons]
        exact hA h

theorem feed_block (cfg : Cfg) (s : St) (he : s.err = none) (rest r : Bytes) (h : skipBlock rest = some r) :
    feed cfg (blockOf s) rest = feed cfg s r :=
  ((feed_block_aux cfg s he rest.length rest (Nat.le_refl _) r).1) h

/-! ### `ws` with comments -/

theorem skipWs_nil (cm : Bool) (n : Nat) : skipWs cm n [] = some [] := by
  cases n <;> simp [skipWs]

theorem feed_skipWs (cfg : Cfg) (hc : cfg.comments = true) (s0 : St) (hs : wsState s0.st = true) (he : s0.err = none) (w : Bytes)
    (hw : w ≠ []) : ∀ (n : Nat) (a : Bytes), skipWs true n a = some w → finish (feed cfg s0 a) = finish (feed cfg s0 w)
  | 0, a, h => by simp [skipWs] at h; rw [h]
  | n + 1, [], h => by simp [skipWs] at h; rw [← h]
  | n + 1, c :: cs, h => by
    by_cases hws : isWs c = true
    · simp only [skipWs, hws, if_true] at h
      rw [← feed_skipWs cfg hc s0 hs he w hw n cs h, feed_cons]
      rcases (isWs_iff c).1 hws with h' | h' | h' | h'
      · rw [feedChar_ws_plain cfg s0 c hs he (by simp [h'])]
      · rw [feedChar_ws_plain cfg s0 c hs he (by simp [h'])]
      · rw [feedChar_ws_plain cfg s0 c hs he (by simp [h'])]
      · subst h'; rw [feedChar_ws_cr cfg s0 hs he, cr_feed cfg s0 cs hs he]
    · by_cases h47 : c = 47
      · subst h47
        cases cs with
        | nil => simp [skipWs, hws] at h; rw [h]
        | cons d ds =>
          by_cases hd47 : d = 47
          · subst hd47
            simp only [skipWs, hws, Bool.true_and, decide_true, if_true, if_false, Bool.false_eq_true] at h
            have hne : skipLine ds ≠ [] := by
              intro e; rw [e, skipWs_nil] at h; simp at h; exact hw h
            rw [← feed_skipWs cfg hc s0 hs he w hw n (skipLine ds) h, feed_cons, feed_cons, feedChar_ws_slash cfg s0 hs he,
              feedChar_slash_slash cfg hc s0 he, feed_line cfg s0 hs he ds hne]
          · by_cases hd42 : d = 42
            · subst hd42
              simp only [skipWs, hws, Bool.true_and, decide_true, if_true, if_false, Bool.false_eq_true] at h
              cases hb : skipBlock ds with
              | none => simp [hb] at h
              | some r =>
                simp only [hb] at h
                rw [← feed_skipWs cfg hc s0 hs he w hw n r h, feed_cons, feed_cons, feedChar_ws_slash cfg s0 hs he,
                  feedChar_slash_star cfg hc s0 he, feed_block cfg s0 he ds r hb]
            · have : skipWs true (n + 1) (47 :: d :: ds) = some (47 :: d :: ds) := by
                simp only [skipWs, hws, Bool.true_and, decide_true, if_true, if_false, Bool.false_eq_true]
                split
                · rename_i heq; cases heq; exact absurd rfl hd47
                · rename_i heq; cases heq; exact absurd rfl hd42
                · rfl
              rw [this] at h
              simp only [Option.some.injEq] at h
              rw [h]
      · simp [skipWs, hws, h47] at h
        rw [h]

theorem skipOK_true (cfg : Cfg) (hc : cfg.comments = true) : SkipOK cfg true := by
  intro s0 a w hs he h hw
  exact ⟨feed_skipWs cfg hc s0 hs he w hw _ a h, he, by simp⟩

/-- the reference's flags that are exactly the parser's options -/
abbrev optFlags (cfg : Cfg) : Flags := { comments := cfg.comments, trailingComma := cfg.trailingComma, maxDepth := cfg.maxDepth }

theorem skipOK_any (cfg : Cfg) : SkipOK cfg cfg.comments := by
  cases hc : cfg.comments
  · exact skipOK_false cfg
  · exact skipOK_true cfg hc

theorem rel_opt (cfg : Cfg) : Rel cfg (optFlags cfg) := ⟨rfl, fun h => h, skipOK_any cfg⟩

/-! ### whole documents -/

/-- the reference's `JSON-text` with PLAIN white space only after the value: `ws value *( %x20 / %x09 / %x0A / %x0D )` — the parser's
    `check_done`, which reads the input after the root value, knows no comments (finding D22) -/
def parseTextPlainTail (fl : Flags) (s : Bytes) : Option JT :=
  match skipWs fl.comments (s.length + 1) s with
  | none => none
  | some s1 =>
    match parseValue fl (s1.length + 1) 0 s1 with
    | none => none
    | some (v, s2) => if dropWs s2 = [] then some v else none

/-- no comment after the root value (decidable; `true` when the reference reads no value at all) -/
def plainTail (fl : Flags) (s : Bytes) : Bool :=
  match skipWs fl.comments (s.length + 1) s with
  | none => true
  | some s1 =>
    match parseValue fl (s1.length + 1) 0 s1 with
    | none => true
    | some (_, s2) => dropWs s2 = []

theorem skipWs_of_dropWs_nil (cm : Bool) : ∀ (n : Nat) (s : Bytes), dropWs s = [] → skipWs cm n s = some [] ∨ n ≤ s.length
  | 0, _, _ => Or.inr (Nat.zero_le _)
  | n + 1, [], _ => Or.inl (by simp [skipWs])
  | n + 1, c :: cs, h => by
    have hw : isWs c = true := by
      by_cases hw : isWs c = true
      · exact hw
      · simp [dropWs, hw] at h
    have h' : dropWs cs = [] := by simpa [dropWs, hw] using h
    rcases skipWs_of_dropWs_nil cm n cs h' with e | e
    · exact Or.inl (by simp [skipWs, hw, e])
    · exact Or.inr (by simp; omega)

/-- `parseTextPlainTail` is `parseText` restricted to the texts without a comment after the value -/
theorem parseTextPlainTail_some (fl : Flags) (s : Bytes) (v : JT) :
    parseTextPlainTail fl s = some v ↔ (parseText fl s = some v ∧ plainTail fl s = true) := by
  unfold parseTextPlainTail parseText plainTail
  cases h1 : skipWs fl.comments (s.length + 1) s with
  | none => simp
  | some s1 =>
    simp only
    cases h2 : parseValue fl (s1.length + 1) 0 s1 with
    | none => simp
    | some p =>
      obtain ⟨v', s2⟩ := p
      simp only
      by_cases hd : dropWs s2 = []
      · have : skipWs fl.comments (s2.length + 1) s2 = some [] := by
          rcases skipWs_of_dropWs_nil fl.comments (s2.length + 1) s2 hd with e | e
          · exact e
          · omega
        simp [hd, this]
      · simp [hd]

theorem parseTextPlainTail_nc (fl : Flags) (hc : fl.comments = false) (s : Bytes) : parseTextPlainTail fl s = parseText fl s := by
  unfold parseTextPlainTail parseText
  rw [hc, skipWs_eq _ _ (Nat.lt_succ_self _)]
  simp only
  cases h2 : parseValue fl ((dropWs s).length + 1) 0 (dropWs s) with
  | none => rfl
  | some p =>
    obtain ⟨v', s2⟩ := p
    simp only
    rw [skipWs_eq _ _ (Nat.lt_succ_self _)]
    by_cases hd : dropWs s2 = []
    · simp [hd]
    · simp only [hd, if_false]
      split
      · rename_i heq; simp only [Option.some.injEq] at heq; exact absurd heq hd
      · rfl

/-- COMPLETENESS for every option setting, against the reference with exactly the parser's options: whatever the reference reads
    as a value with only plain white space after it, the parser accepts, reporting the events of the value (comments and trailing
    commas report nothing) -/
theorem run_complete_opt (cfg : Cfg) (bs : Bytes) (v : JT) (h : parseTextPlainTail (optFlags cfg) bs = some v) :
    accepted (run cfg bs) = true ∧ er (run cfg bs).evs.reverse = eventsOf v := by
  unfold parseTextPlainTail at h
  cases h1 : skipWs (optFlags cfg).comments (bs.length + 1) bs with
  | none => simp [h1] at h
  | some s1 =>
    simp only [h1] at h
    cases h2 : parseValue (optFlags cfg) (s1.length + 1) 0 s1 with
    | none => simp [h2] at h
    | some p =>
      obtain ⟨v', s2⟩ := p
      simp only [h2] at h
      by_cases hd : dropWs s2 = []
      · simp only [hd, if_true, Option.some.injEq] at h
        subst h
        exact run_complete_rel cfg (optFlags cfg) (rel_opt cfg) bs s1 s2 v' h1 h2 hd
      · simp [hd] at h

end JsonParser
end Model
end JV
