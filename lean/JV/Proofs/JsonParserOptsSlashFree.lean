/-
  JV.Proofs.JsonParserOptsSlashFree — on a text without the byte `/` the `allow_comments` option has no effect at all: the `slash`
  state (the only cell of the state machine that consults the option) is entered only by a `/`, and is never on the state stack.
-/
import JV.Proofs.JsonParserOptsComments
namespace JV
namespace Model
namespace JsonParser

/-- neither the current state nor any suspended state is `slash` -/
def NoSl (s : St) : Prop := s.st ≠ .slash ∧ ∀ p ∈ s.stack, p ≠ .slash

theorem stepChar_comments (cfg : Cfg) (b : Bool) (s : St) (c : Nat) (h : s.st ≠ .slash) :
    stepChar { cfg with comments := b } s c = stepChar cfg s c := by
  unfold stepChar
  cases hst : s.st <;> first | rfl | exact absurd hst h

macro "ns_tac" : tactic => `(tactic| ((repeat' split) <;> simp_all [NoSl, fail, emit, push, popTo, parent, List.headD] ))

theorem ns_fail (s : St) (k : Nat) (h : NoSl s) : NoSl (fail s k) := h
theorem ns_afterValue (s : St) (h : NoSl s) : NoSl (afterValue s) := by unfold afterValue; ns_tac
theorem ns_afterLiteral (s : St) (h : NoSl s) : NoSl (afterLiteral s) := by unfold afterLiteral; ns_tac
theorem ns_tail (s : St) (h : NoSl s) : ∀ p ∈ s.stack.tail, p ≠ .slash := fun p hp => h.2 p (List.mem_of_mem_tail hp)
theorem ns_head (s : St) (h : NoSl s) : s.stack.headD .root ≠ .slash := by
  cases hs : s.stack with
  | nil => simp
  | cons a t => simp; exact h.2 a (by rw [hs]; simp)
theorem ns_popTo (s : St) (h : NoSl s) : NoSl (popTo s) := ⟨ns_head s h, ns_tail s h⟩
theorem ns_endString (s : St) (h : NoSl s) : NoSl (endString s) := by
  have := ns_tail s h
  unfold endString; (repeat' split) <;> simp_all [NoSl, fail, emit]
theorem ns_endObject (s : St) (h : NoSl s) : NoSl (endObject s) := by
  have := ns_tail s h; have := ns_head s h
  unfold endObject; (repeat' split) <;> simp_all [NoSl, fail, emit, popTo]
theorem ns_endArray (s : St) (h : NoSl s) : NoSl (endArray s) := by
  have := ns_tail s h; have := ns_head s h
  unfold endArray; (repeat' split) <;> simp_all [NoSl, fail, emit, popTo]
theorem ns_bmoe (s : St) (h : NoSl s) : NoSl (beginMemberOrElement s) := by unfold beginMemberOrElement; ns_tac
theorem ns_stepString (s : St) (c : Nat) (h : NoSl s) (hst : s.st = .string) : NoSl (stepString s c) := by
  have h1 := ns_endString s h
  unfold stepString hexStep hexStep2
  (repeat' split) <;> (first | exact h1 | exact h | (simp_all [NoSl, fail]; done) | (simp_all [NoSl, fail]; split <;> simp_all))
theorem ns_stepNumber (s : St) (c : Nat) (h : NoSl s) : NoSl (stepNumber s c).1 := by
  have h1 : NoSl (endInteger s) := ns_afterValue _ h
  have h2 : NoSl (endFraction s) := ns_afterValue _ h
  unfold stepNumber
  (repeat' split) <;> (first | exact h1 | exact h2 | exact h | (simp_all [NoSl, fail]))
theorem ns_valueStart (cfg : Cfg) (s s' : St) (c : Nat) (h : NoSl s) (hv : valueStart cfg s c = some s') : NoSl s' := by
  unfold valueStart at hv
  (repeat' split at hv) <;> (try simp only [Option.some.injEq] at hv) <;> (try subst hv) <;>
    (first | (simp_all [NoSl, beginObject, beginArray, startString, fail, emit]; done)
           | (simp_all [NoSl, beginObject, beginArray, startString, fail, emit]; split <;> simp_all))
theorem ns_spaceOrSlash (s s' : St) (c : Nat) (h : NoSl s) (hc : c ≠ 47) (hv : spaceOrSlash s c = some s') : NoSl s' := by
  unfold spaceOrSlash at hv
  (repeat' split at hv) <;> simp_all [NoSl, push] <;> (subst hv; simp_all)

theorem ns_stepChar (cfg : Cfg) (s : St) (c : Nat) (h : NoSl s) (hc : c ≠ 47) : NoSl (stepChar cfg s c).1 := by
  have hp := ns_popTo s h
  unfold stepChar
  cases hst : s.st <;> simp only [] <;> (repeat' split) <;>
    first
    | exact h
    | exact ns_fail _ _ h
    | exact hp
    | exact ns_spaceOrSlash _ _ _ h hc ‹_›
    | exact ns_valueStart cfg _ _ _ h ‹_›
    | exact ns_endObject _ h
    | exact ns_endArray _ h
    | exact ns_bmoe _ h
    | exact ns_stepString _ _ h hst
    | exact ns_stepNumber _ _ h
    | (simp_all [NoSl, startString, push, lit, fail, popTo, afterLiteral, emit]; done)
    | (simp_all [NoSl, startString, push, lit, fail, popTo, afterLiteral, emit]; split <;> simp_all)

theorem feedChar_comments (cfg : Cfg) (b : Bool) (s : St) (c : Nat) (h : NoSl s) (hc : c ≠ 47) :
    feedChar { cfg with comments := b } s c = feedChar cfg s c ∧ NoSl (feedChar cfg s c) := by
  have n1 := ns_stepChar cfg s c h hc
  have n2 := ns_stepChar cfg _ c n1 hc
  have n3 := ns_stepChar cfg _ c n2 hc
  have e1 := stepChar_comments cfg b s c h.1
  have e2 := stepChar_comments cfg b (stepChar cfg s c).1 c n1.1
  have e3 := stepChar_comments cfg b (stepChar cfg (stepChar cfg s c).1 c).1 c n2.1
  constructor
  · simp only [feedChar, e1, e2, e3]
  · unfold feedChar
    split
    · exact h
    · simp only []
      split
      · exact n1
      · split
        · exact n2
        · exact n3

theorem feed_comments (cfg : Cfg) (b : Bool) : ∀ (bs : Bytes) (s : St), NoSl s → (∀ x ∈ bs, x ≠ 47) →
    feed { cfg with comments := b } s bs = feed cfg s bs
  | [], _, _, _ => rfl
  | c :: cs, s, h, hb => by
    obtain ⟨e, n⟩ := feedChar_comments cfg b s c h (hb c (by simp))
    rw [feed_cons, feed_cons, e]
    exact feed_comments cfg b cs _ n (fun x hx => hb x (by simp [hx]))

/-- on a text without `/` the outcome (state, events, error code) does not depend on `allow_comments` -/
theorem run_comments_slash_free (cfg : Cfg) (b : Bool) (bs : Bytes) (h : ∀ x ∈ bs, x ≠ 47) :
    run { cfg with comments := b } bs = run cfg bs := by
  unfold run
  rw [feed_comments cfg b bs init (by simp [NoSl, init]) h]

end JsonParser
end Model
end JV
