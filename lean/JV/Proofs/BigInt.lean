/-
  JV.Proofs.BigInt — the limb loops agree with integer arithmetic.
-/
import JV.Model.BigInt
namespace JV
namespace Model
namespace BigInt

/-- value of a little-endian word list -/
def val : List Nat → Nat
  | [] => 0
  | x :: xs => x + B * val xs

theorem B_pos : 0 < B := by unfold B; omega
theorem two_le_B : 2 ≤ B := by unfold B; omega

def Words (xs : List Nat) : Prop := ∀ x ∈ xs, x < B

theorem Words.tail {x : Nat} {xs : List Nat} (h : Words (x :: xs)) : Words xs := fun y hy => h y (by simp [hy])
theorem Words.head {x : Nat} {xs : List Nat} (h : Words (x :: xs)) : x < B := h x (by simp)

theorem val_lt : ∀ {xs : List Nat}, Words xs → val xs < B ^ xs.length
  | [], _ => by simp [val]
  | x :: xs, h => by
    have := val_lt h.tail
    have hx := h.head
    simp only [val, List.length_cons, Nat.pow_succ]
    have : B * val xs + B ≤ B * B ^ xs.length := by
      have := Nat.mul_le_mul_left B (Nat.succ_le_of_lt this)
      simpa [Nat.mul_succ] using this
    rw [Nat.mul_comm (B ^ xs.length) B]
    omega

theorem val_append (a b : List Nat) : val (a ++ b) = val a + B ^ a.length * val b := by
  induction a with
  | nil => simp [val]
  | cons x xs ih =>
    simp only [List.cons_append, val, ih, List.length_cons, Nat.pow_succ]
    rw [Nat.mul_add, ← Nat.mul_assoc, Nat.mul_comm B (B ^ xs.length)]
    omega

theorem val_replicate_zero (n : Nat) : val (List.replicate n 0) = 0 := by
  induction n with
  | zero => rfl
  | succ n ih => simp [List.replicate_succ, val, ih]

theorem val_padTo (n : Nat) (xs : List Nat) : val (padTo n xs) = val xs := by
  simp [padTo, val_append, val_replicate_zero]

theorem words_padTo (n : Nat) {xs : List Nat} (h : Words xs) : Words (padTo n xs) := by
  intro x hx
  simp only [padTo, List.mem_append, List.mem_replicate] at hx
  rcases hx with hx | hx
  · exact h x hx
  · rw [hx.2]; exact B_pos

theorem length_padTo (n : Nat) (xs : List Nat) (h : xs.length ≤ n) : (padTo n xs).length = n := by
  simp [padTo]; omega

theorem cons_carry {r v' cout P S : Nat} (h : v' + cout * P = S) :
    (r + B * v') + cout * (P * B) = r + B * S := by
  rw [← h, Nat.mul_add, Nat.mul_comm P B, Nat.mul_left_comm cout B P, Nat.add_assoc]

/-! ### addition -/

theorem carryLoop_spec : ∀ (xs : List Nat) (c : Nat), Words xs → c ≤ 1 →
    ∃ cout, cout ≤ 1 ∧ val (carryLoop xs c) + cout * B ^ xs.length = val xs + c ∧
      (carryLoop xs c).length = xs.length ∧ Words (carryLoop xs c)
  | [], c, _, hc => ⟨c, hc, by simp [carryLoop, val], rfl, fun _ h => by simp [carryLoop] at h⟩
  | x :: xs, c, hw, hc => by
    by_cases h0 : c = 0
    · subst h0
      exact ⟨0, by omega, by simp [carryLoop], by simp [carryLoop], by simpa [carryLoop] using hw⟩
    · have hc1 : c = 1 := by omega
      subst hc1
      have hx := hw.head
      simp only [carryLoop, if_false, Nat.one_ne_zero]
      by_cases hov : x + 1 < B
      · have hd : (x + 1) % B = x + 1 := Nat.mod_eq_of_lt hov
        have hlt : ¬ ((x + 1) % B < 1) := by rw [hd]; omega
        simp only [hlt, if_false]
        obtain ⟨cout, h1, h2, h3, h4⟩ := carryLoop_spec xs 0 hw.tail (by omega)
        refine ⟨cout, h1, ?_, by simp [h3], ?_⟩
        · simp only [val, List.length_cons, Nat.pow_succ, hd]
          rw [cons_carry h2]
          simp only [Nat.mul_add]
          omega
        · intro y hy
          rcases List.mem_cons.1 hy with e | e
          · rw [e, hd]; exact hov
          · exact h4 y e
      · have hxB : x + 1 = B := by omega
        have hd : (x + 1) % B = 0 := by rw [hxB]; exact Nat.mod_self B
        have hlt : (x + 1) % B < 1 := by rw [hd]; omega
        simp only [hlt, if_true]
        obtain ⟨cout, h1, h2, h3, h4⟩ := carryLoop_spec xs 1 hw.tail (by omega)
        refine ⟨cout, h1, ?_, by simp [h3], ?_⟩
        · simp only [val, List.length_cons, Nat.pow_succ, hd]
          rw [cons_carry h2]
          simp only [Nat.mul_add, Nat.mul_one]
          omega
        · intro y hy
          rcases List.mem_cons.1 hy with e | e
          · rw [e, hd]; exact B_pos
          · exact h4 y e

theorem addLoop_spec : ∀ (xs ys : List Nat) (c : Nat), Words xs → Words ys → c ≤ 1 → ys.length ≤ xs.length →
    ∃ cout, cout ≤ 1 ∧ val (addLoop xs ys c) + cout * B ^ xs.length = val xs + val ys + c ∧
      (addLoop xs ys c).length = xs.length ∧ Words (addLoop xs ys c)
  | xs, [], c, hx, _, hc, _ => by
    obtain ⟨cout, h1, h2, h3, h4⟩ := carryLoop_spec xs c hx hc
    refine ⟨cout, h1, ?_, ?_, ?_⟩
    · cases xs <;> simpa [addLoop, val] using h2
    · cases xs <;> simpa [addLoop] using h3
    · cases xs <;> simpa [addLoop] using h4
  | [], y :: ys, c, _, _, _, hl => by simp at hl
  | x :: xs, y :: ys, c, hx, hy, hc, hl => by
    have hxB := hx.head
    have hyB := hy.head
    simp only [addLoop]
    -- one word: x + c + y = r + B * c2
    have key : ∃ c2, c2 ≤ 1 ∧ x + c + y = (((x + c) % B) + y) % B + B * c2 ∧
        c2 = (if (((x + c) % B) + y) % B < (x + c) % B then 1 else (if (x + c) % B < c then 1 else 0)) := by
      have hB : B = 18446744073709551616 := rfl
      by_cases h1 : x + c < B
      · have hd : (x + c) % B = x + c := Nat.mod_eq_of_lt h1
        by_cases h2 : x + c + y < B
        · have hr : (x + c + y) % B = x + c + y := Nat.mod_eq_of_lt h2
          refine ⟨0, by omega, ?_, ?_⟩
          · rw [hd, hr]; omega
          · rw [hd, hr]
            have : ¬ (x + c + y < x + c) := by omega
            have : ¬ (x + c < c) := by omega
            simp [*]
        · have hr : (x + c + y) % B = x + c + y - B := by
            rw [Nat.mod_eq_sub_mod (by omega)]
            exact Nat.mod_eq_of_lt (by omega)
          refine ⟨1, by omega, ?_, ?_⟩
          · rw [hd, hr]; omega
          · rw [hd, hr]
            have : x + c + y - B < x + c := by omega
            simp [this]
      · have hxc : x + c = B := by omega
        have hd : (x + c) % B = 0 := by rw [hxc]; exact Nat.mod_self B
        have hr : (0 + y) % B = y := by rw [Nat.zero_add]; exact Nat.mod_eq_of_lt hyB
        refine ⟨1, by omega, ?_, ?_⟩
        · rw [hd, hr]; omega
        · rw [hd, hr]
          have h1' : ¬ (y < 0) := by omega
          have h2' : 0 < c := by omega
          simp [h1', h2']
    obtain ⟨c2, hc2, hsum, hdef⟩ := key
    rw [← hdef]
    obtain ⟨cout, h1, h2, h3, h4⟩ := addLoop_spec xs ys c2 hx.tail hy.tail hc2 (by simpa using hl)
    refine ⟨cout, h1, ?_, by simp [h3], ?_⟩
    · simp only [val, List.length_cons, Nat.pow_succ]
      rw [cons_carry h2]
      simp only [Nat.mul_add]
      omega
    · intro z hz
      rcases List.mem_cons.1 hz with e | e
      · rw [e]; exact Nat.mod_lt _ B_pos
      · exact h4 z e

/-- magnitude addition is exact -/
theorem addMag_val (x y : List Nat) (hx : Words x) (hy : Words y) :
    val (addMag x y) = val x + val y ∧ Words (addMag x y) := by
  unfold addMag
  have hn : x.length ≤ max x.length y.length + 1 := by omega
  have hpl := length_padTo _ x hn
  obtain ⟨cout, h1, h2, _, h4⟩ := addLoop_spec (padTo (max x.length y.length + 1) x) y 0
    (words_padTo _ hx) hy (by omega) (by rw [hpl]; omega)
  refine ⟨?_, h4⟩
  rw [val_padTo, hpl] at h2
  -- the sum fits in max+1 words, so there is no carry out
  have hxl := val_lt hx
  have hyl := val_lt hy
  have hpx : B ^ x.length ≤ B ^ max x.length y.length := Nat.pow_le_pow_right (n := B) B_pos (Nat.le_max_left _ _)
  have hpy : B ^ y.length ≤ B ^ max x.length y.length := Nat.pow_le_pow_right (n := B) B_pos (Nat.le_max_right _ _)
  have hpow : B ^ (max x.length y.length + 1) = B ^ max x.length y.length * B := Nat.pow_succ ..
  have h2B : 2 * B ^ max x.length y.length ≤ B ^ max x.length y.length * B := by
    rw [Nat.mul_comm]; exact Nat.mul_le_mul_left _ two_le_B
  cases hc : cout with
  | zero => rw [hc] at h2; omega
  | succ n =>
    have : cout = 1 := by omega
    rw [this, hpow] at h2
    omega

end BigInt
end Model
end JV

namespace JV
namespace Model
namespace BigInt

/-! ### subtraction -/

theorem cons_borrow {d v' b' bout P S x b : Nat} (h : v' + b' = S + bout * P) (hw : d + b = x + B * b') :
    (d + B * v') + b = (x + B * S) + bout * (P * B) := by
  have h' := congrArg (B * ·) h
  simp only [Nat.mul_add] at h'
  rw [Nat.mul_comm P B, Nat.mul_left_comm bout B P]
  omega

/-- one word of a subtraction with borrow-in `b ≤ 1`: `d = x - b` (wrapping), borrow-out iff it wrapped -/
theorem word_borrow (x b : Nat) (hx : x < B) (hb : b ≤ 1) :
    (x + B - b) % B + b = x + B * (if (x + B - b) % B > x then 1 else 0) ∧ (x + B - b) % B < B := by
  have hB : B = 18446744073709551616 := rfl
  refine ⟨?_, Nat.mod_lt _ B_pos⟩
  by_cases h : b ≤ x
  · have : (x + B - b) % B = x - b := by
      have e : x + B - b = (x - b) + B := by omega
      rw [e, Nat.add_mod_right]; exact Nat.mod_eq_of_lt (by omega)
    rw [this]
    have : ¬ (x - b > x) := by omega
    simp [this]; omega
  · have hx0 : x = 0 := by omega
    have hb1 : b = 1 := by omega
    subst hx0; subst hb1
    have : (0 + B - 1) % B = B - 1 := Nat.mod_eq_of_lt (by rw [hB]; omega)
    rw [this]
    have : B - 1 > 0 := by rw [hB]; omega
    simp [this]; rw [hB]

theorem word_sub (d y : Nat) (hd : d < B) (hy : y < B) :
    (d + B - y) % B + y = d + B * (if (d + B - y) % B > d then 1 else 0) ∧ (d + B - y) % B < B := by
  refine ⟨?_, Nat.mod_lt _ B_pos⟩
  by_cases h : y ≤ d
  · have : (d + B - y) % B = d - y := by
      have e : d + B - y = (d - y) + B := by omega
      rw [e, Nat.add_mod_right]; exact Nat.mod_eq_of_lt (by omega)
    rw [this]
    have : ¬ (d - y > d) := by omega
    simp [this]; omega
  · have : (d + B - y) % B = d + B - y := Nat.mod_eq_of_lt (by omega)
    rw [this]
    have : d + B - y > d := by omega
    simp [this]; omega

theorem borrowLoop_spec : ∀ (xs : List Nat) (b : Nat), Words xs → b ≤ 1 →
    ∃ bout, bout ≤ 1 ∧ val (borrowLoop xs b) + b = val xs + bout * B ^ xs.length ∧
      (borrowLoop xs b).length = xs.length ∧ Words (borrowLoop xs b)
  | [], b, _, hb => ⟨b, hb, by simp [borrowLoop, val], rfl, fun _ h => by simp [borrowLoop] at h⟩
  | x :: xs, b, hw, hb => by
    by_cases h0 : b = 0
    · subst h0
      exact ⟨0, by omega, by simp [borrowLoop], by simp [borrowLoop], by simpa [borrowLoop] using hw⟩
    · simp only [borrowLoop, h0, if_false]
      obtain ⟨hwd, hlt⟩ := word_borrow x b hw.head hb
      obtain ⟨bout, h1, h2, h3, h4⟩ := borrowLoop_spec xs (if (x + B - b) % B > x then 1 else 0) hw.tail (by split <;> omega)
      refine ⟨bout, h1, ?_, by simp [h3], ?_⟩
      · simp only [val, List.length_cons, Nat.pow_succ]
        exact cons_borrow h2 hwd
      · intro z hz
        rcases List.mem_cons.1 hz with e | e
        · rw [e]; exact hlt
        · exact h4 z e

theorem subLoop_spec : ∀ (xs ys : List Nat) (b : Nat), Words xs → Words ys → b ≤ 1 → ys.length ≤ xs.length →
    ∃ bout, bout ≤ 1 ∧ val (subLoop xs ys b) + (val ys + b) = val xs + bout * B ^ xs.length ∧
      (subLoop xs ys b).length = xs.length ∧ Words (subLoop xs ys b)
  | xs, [], b, hx, _, hb, _ => by
    obtain ⟨bout, h1, h2, h3, h4⟩ := borrowLoop_spec xs b hx hb
    refine ⟨bout, h1, ?_, ?_, ?_⟩
    · cases xs <;> simpa [subLoop, val] using h2
    · cases xs <;> simpa [subLoop] using h3
    · cases xs <;> simpa [subLoop] using h4
  | [], y :: ys, b, _, _, _, hl => by simp at hl
  | x :: xs, y :: ys, b, hx, hy, hb, hl => by
    simp only [subLoop]
    obtain ⟨hw1, hd⟩ := word_borrow x b hx.head hb
    obtain ⟨hw2, hr⟩ := word_sub ((x + B - b) % B) y hd hy.head
    -- the two borrows cannot both occur
    have hnot : (x + B - b) % B > x → ¬ ((((x + B - b) % B) + B - y) % B > (x + B - b) % B) := by
      intro h1 h2
      simp only [h1, if_true] at hw1
      simp only [h2, if_true] at hw2
      have := hx.head; have := hy.head
      omega
    have hb2 : (if (((x + B - b) % B) + B - y) % B > (x + B - b) % B then 1
        else (if (x + B - b) % B > x then 1 else 0)) ≤ 1 := by split <;> (try split) <;> omega
    obtain ⟨bout, h1, h2, h3, h4⟩ := subLoop_spec xs ys _ hx.tail hy.tail hb2 (by simpa using hl)
    refine ⟨bout, h1, ?_, by simp [h3], ?_⟩
    · simp only [val, List.length_cons, Nat.pow_succ]
      have hword : (((x + B - b) % B) + B - y) % B + (y + b) = x + B *
          (if (((x + B - b) % B) + B - y) % B > (x + B - b) % B then 1 else (if (x + B - b) % B > x then 1 else 0)) := by
        by_cases c1 : (x + B - b) % B > x
        · have c2 := hnot c1
          simp only [c1, c2, if_true, if_false] at hw1 hw2 ⊢
          omega
        · by_cases c2 : (((x + B - b) % B) + B - y) % B > (x + B - b) % B
          · simp only [c1, c2, if_true, if_false] at hw1 hw2 ⊢
            omega
          · simp only [c1, c2, if_false] at hw1 hw2 ⊢
            omega
      have h2m := congrArg (B * ·) h2
      simp only [Nat.mul_add] at h2m
      rw [Nat.mul_comm (B ^ xs.length) B, Nat.mul_left_comm bout B (B ^ xs.length)]
      omega
    · intro z hz
      rcases List.mem_cons.1 hz with e | e
      · rw [e]; exact hr
      · exact h4 z e

end BigInt
end Model
end JV

namespace JV
namespace Model
namespace BigInt

/-- magnitude subtraction is exact whenever the code takes this branch (|this| ≥ |y|) -/
theorem subLoop_val (x y : List Nat) (hx : Words x) (hy : Words y) (hl : y.length ≤ x.length) (hge : val y ≤ val x) :
    val (subLoop x y 0) = val x - val y ∧ Words (subLoop x y 0) := by
  obtain ⟨bout, h1, h2, h3, h4⟩ := subLoop_spec x y 0 hx hy (by omega) hl
  refine ⟨?_, h4⟩
  have hlt := val_lt h4
  rw [h3] at hlt
  rcases (by omega : bout = 0 ∨ bout = 1) with rfl | rfl
  · omega
  · simp only [Nat.one_mul] at h2; omega

theorem stripHigh_val : ∀ (xs : List Nat), val (stripHigh xs) = val xs
  | [] => rfl
  | x :: xs => by
    have ih := stripHigh_val xs
    simp only [stripHigh]
    cases h : stripHigh xs with
    | nil =>
      rw [h] at ih
      by_cases hx : x = 0
      · simp [hx, val, ← ih]
      · simp [hx, val, ← ih]
    | cons y ys =>
      rw [h] at ih
      simp [val, ← ih]

theorem stripHigh_words : ∀ {xs : List Nat}, Words xs → Words (stripHigh xs)
  | [], _ => fun _ h => by simp [stripHigh] at h
  | x :: xs, hw => by
    have ih := stripHigh_words hw.tail
    simp only [stripHigh]
    cases h : stripHigh xs with
    | nil =>
      by_cases hx : x = 0
      · simp [hx]; exact fun _ h => by simp at h
      · simp only [hx, if_false]; intro z hz; simp at hz; rw [hz]; exact hw.head
    | cons y ys =>
      rw [h] at ih
      intro z hz
      rcases List.mem_cons.1 hz with e | e
      · rw [e]; exact hw.head
      · exact ih z e

end BigInt
end Model
end JV
