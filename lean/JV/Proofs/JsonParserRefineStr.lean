/-
  JV.Proofs.JsonParserRefineStr — third layer of the refinement proof: a string of the RFC 8259 reference (`parseString`: plain
  characters, the eight simple escapes, `\uXXXX` for a scalar value, a surrogate pair; valid UTF-8) is read by the string
  sub-automaton of the model to the same decoded bytes, as a value and as a member name.
-/
import JV.Proofs.JsonParserRefineWs
import JV.Proofs.JsonParserString
namespace JV
namespace Model
namespace JsonParser
open Spec.Rfc8259 (parseChars parseString hex4 utf8Encode validUtf8)

/-- the eight two-character escapes -/
def simpleEsc (e : Nat) : Option Nat :=
  if e = 34 then some 34 else if e = 92 then some 92 else if e = 47 then some 47
  else if e = 98 then some 8 else if e = 102 then some 12 else if e = 110 then some 10
  else if e = 114 then some 13 else if e = 116 then some 9 else none

theorem parseChars_simple_esc (fuel e b : Nat) (r : Bytes) (h : simpleEsc e = some b) :
    parseChars (fuel + 1) (92 :: e :: r) = (parseChars fuel r).map fun p => (b :: p.1, p.2) := by
  unfold simpleEsc at h
  (repeat' split at h) <;> cases h <;> subst_vars <;> simp [parseChars]

theorem parseChars_bad_esc (fuel e : Nat) (r : Bytes) (h : simpleEsc e = none) (h117 : e ≠ 117) :
    parseChars (fuel + 1) (92 :: e :: r) = none := by
  unfold simpleEsc at h
  (repeat' split at h) <;> simp_all [parseChars]

theorem stepString_simple_esc (s : St) (e b : Nat) (hss : s.ss = .escape) (h : simpleEsc e = some b) :
    stepString s e = { s with buf := s.buf ++ [b], ss := .text } := by
  unfold simpleEsc at h
  (repeat' split at h) <;> cases h <;> subst_vars <;> simp [stepString, hss]

theorem stepString_plain (s : St) (c : Nat) (hss : s.ss = .text) (h34 : c ≠ 34) (h32 : ¬ c < 32) (h92 : c ≠ 92) :
    stepString s c = { s with buf := s.buf ++ [c] } := by
  have hctl : isCtl c = false := by
    simp only [isCtl, Bool.and_eq_false_iff, decide_eq_false_iff_not, bne_eq_false_iff_eq]; omega
  have h1 : ¬ (c = 10 ∨ c = 13 ∨ c = 9) := by omega
  simp [stepString, hss, hctl, h1, h34, h92]

theorem stepString_backslash (s : St) (hss : s.ss = .text) : stepString s 92 = { s with ss := .escape, noesc := false } := by
  simp [stepString, hss, isCtl]

theorem stepString_quote (s : St) (hss : s.ss = .text) : stepString s 34 = endString s := by
  simp [stepString, hss, isCtl]

theorem hex4_split (r : Bytes) (u : Nat) (r1 : Bytes) (h : hex4 r = some (u, r1)) :
    ∃ a b c d, r = a :: b :: c :: d :: r1 ∧ hex4 [a, b, c, d] = some (u, []) := by
  match r with
  | [] | [_] | [_, _] | [_, _, _] => simp [hex4] at h
  | a :: b :: c :: d :: rest =>
    simp only [hex4] at h ⊢
    cases ha : Spec.Rfc8259.hexVal a <;> cases hb : Spec.Rfc8259.hexVal b <;> cases hc : Spec.Rfc8259.hexVal c <;>
      cases hd : Spec.Rfc8259.hexVal d <;> simp [ha, hb, hc, hd] at h
    obtain ⟨rfl, rfl⟩ := h
    exact ⟨a, b, c, d, rfl, by simp [ha, hb, hc, hd]⟩

/-- the characters of a string up to and including the closing quote -/
theorem feed_chars (cfg : Cfg) : ∀ (fuel : Nat) (cs b rest : Bytes), parseChars fuel cs = some (b, rest) →
    ∀ s : St, s.st = .string → s.ss = .text → s.err = none →
    ∃ s', feed cfg s cs = feed cfg (endString s') rest ∧ s'.buf = s.buf ++ b ∧ s'.stack = s.stack ∧ s'.level = s.level ∧
      s'.evs = s.evs ∧ s'.err = none
  | 0, _, _, _, h, _, _, _, _ => by simp [parseChars] at h
  | _ + 1, [], _, _, h, _, _, _, _ => by simp [parseChars] at h
  | fuel + 1, c :: cs, b, rest, h, s, hst, hss, he => by
    by_cases h34 : c = 34
    · subst h34
      simp only [parseChars, if_true, Option.some.injEq, Prod.mk.injEq] at h
      obtain ⟨rfl, rfl⟩ := h
      exact ⟨s, by rw [feed_cons, feedChar_string cfg s 34 hst he, stepString_quote s hss], by simp, rfl, rfl, rfl, he⟩
    by_cases h32 : c < 32
    · simp [parseChars, h34, h32] at h
    by_cases h92 : c = 92
    · subst h92
      -- the state after the backslash
      have hE : feedChar cfg s 92 = { s with ss := .escape, noesc := false } := by
        rw [feedChar_string cfg s 92 hst he, stepString_backslash s hss]
      cases cs with
      | nil => simp [parseChars] at h
      | cons e r =>
        rw [feed_cons, hE]
        cases hse : simpleEsc e with
        | some bb =>
          rw [parseChars_simple_esc fuel e bb r hse] at h
          cases hp : parseChars fuel r with
          | none => simp [hp] at h
          | some p =>
            obtain ⟨p1, p2⟩ := p
            simp only [hp, Option.map_some, Option.some.injEq, Prod.mk.injEq] at h
            obtain ⟨rfl, rfl⟩ := h
            rw [feed_cons, feedChar_string cfg _ e (by simp [hst]) (by simp [he]), stepString_simple_esc _ e bb rfl hse]
            obtain ⟨s', e1, e2, e3, e4, e5, e6⟩ := feed_chars cfg fuel r p1 p2 hp
              { s with ss := .text, noesc := false, buf := s.buf ++ [bb] } hst rfl he
            exact ⟨s', e1, by simp [e2], e3, e4, e5, e6⟩
        | none =>
          by_cases h117 : e = 117
          · subst h117
            have hpc : parseChars (fuel + 1) (92 :: 117 :: r) =
                match hex4 r with
                | none => none
                | some (u, r1) =>
                  if 0xD800 ≤ u ∧ u ≤ 0xDBFF then
                    match r1 with
                    | 92 :: 117 :: r2 =>
                      match hex4 r2 with
                      | none => none
                      | some (lo, r3) =>
                        if 0xDC00 ≤ lo ∧ lo ≤ 0xDFFF then
                          (parseChars fuel r3).map fun p => (utf8Encode (0x10000 + (u - 0xD800) * 1024 + (lo - 0xDC00)) ++ p.1, p.2)
                        else none
                    | _ => none
                  else if 0xDC00 ≤ u ∧ u ≤ 0xDFFF then none
                  else (parseChars fuel r1).map fun p => (utf8Encode u ++ p.1, p.2) := by
              simp [parseChars]; rfl
            rw [hpc] at h
            cases hx : hex4 r with
            | none => simp [hx] at h
            | some q =>
              obtain ⟨u, r1⟩ := q
              simp only [hx] at h
              obtain ⟨a, b', c', d, er, hx4⟩ := hex4_split r u r1 hx
              subst er
              by_cases hhi : 0xD800 ≤ u ∧ u ≤ 0xDBFF
              · simp only [hhi, and_self, if_true] at h
                split at h
                · rename_i r2
                  cases hy : hex4 r2 with
                  | none => simp [hy] at h
                  | some q2 =>
                    obtain ⟨lo, r3⟩ := q2
                    simp only [hy] at h
                    obtain ⟨a2, b2, c2, d2, er2, hy4⟩ := hex4_split r2 lo r3 hy
                    subst er2
                    by_cases hlo : 0xDC00 ≤ lo ∧ lo ≤ 0xDFFF
                    · simp only [hlo, and_self, if_true] at h
                      cases hp : parseChars fuel r3 with
                      | none => simp [hp] at h
                      | some p =>
                        obtain ⟨p1, p2⟩ := p
                        simp only [hp, Option.map_some, Option.some.injEq, Prod.mk.injEq] at h
                        obtain ⟨rfl, rfl⟩ := h
                        have hsplit : (117 :: a :: b' :: c' :: d :: 92 :: 117 :: a2 :: b2 :: c2 :: d2 :: r3) =
                            [117, a, b', c', d, 92, 117, a2, b2, c2, d2] ++ r3 := rfl
                        rw [hsplit, feed_append,
                          escape_u_pair cfg _ a b' c' d a2 b2 c2 d2 u lo (by simp [hst]) rfl (by simp [he]) hx4 hy4 hhi hlo]
                        obtain ⟨s', e1, e2, e3, e4, e5, e6⟩ := feed_chars cfg fuel r3 p1 p2 hp
                          { s with ss := .text, noesc := false, cp := u, cp2 := lo,
                                   buf := s.buf ++ utf8Encode (0x10000 + (u - 0xD800) * 1024 + (lo - 0xDC00)) } hst rfl he
                        exact ⟨s', e1, by simp [e2], e3, e4, e5, e6⟩
                    · simp [hlo] at h
                · simp at h
              · simp only [hhi, if_false] at h
                by_cases hlo : 0xDC00 ≤ u ∧ u ≤ 0xDFFF
                · simp [hlo] at h
                · simp only [hlo, if_false] at h
                  cases hp : parseChars fuel r1 with
                  | none => simp [hp] at h
                  | some p =>
                    obtain ⟨p1, p2⟩ := p
                    simp only [hp, Option.map_some, Option.some.injEq, Prod.mk.injEq] at h
                    obtain ⟨rfl, rfl⟩ := h
                    have hsplit : (117 :: a :: b' :: c' :: d :: r1) = [117, a, b', c', d] ++ r1 := rfl
                    rw [hsplit, feed_append,
                      escape_u_scalar cfg _ a b' c' d u (by simp [hst]) rfl (by simp [he]) hx4 (by omega)]
                    obtain ⟨s', e1, e2, e3, e4, e5, e6⟩ := feed_chars cfg fuel r1 p1 p2 hp
                      { s with ss := .text, noesc := false, cp := u, buf := s.buf ++ utf8Encode u } hst rfl he
                    exact ⟨s', e1, by simp [e2], e3, e4, e5, e6⟩
          · rw [parseChars_bad_esc fuel e r hse h117] at h; simp at h
    · have hpc : parseChars (fuel + 1) (c :: cs) = (parseChars fuel cs).map fun p => (c :: p.1, p.2) := by
        simp [parseChars, h34, h32, h92]
      rw [hpc] at h
      cases hp : parseChars fuel cs with
      | none => simp [hp] at h
      | some p =>
        obtain ⟨p1, p2⟩ := p
        simp only [hp, Option.map_some, Option.some.injEq, Prod.mk.injEq] at h
        obtain ⟨rfl, rfl⟩ := h
        rw [feed_cons, feedChar_string cfg s c hst he, stepString_plain s c hss h34 h32 h92]
        obtain ⟨s', e1, e2, e3, e4, e5, e6⟩ := feed_chars cfg fuel cs p1 p2 hp { s with buf := s.buf ++ [c] } hst hss he
        exact ⟨s', e1, by simp [e2], e3, e4, e5, e6⟩

theorem parseString_inv (s b rest : Bytes) (h : parseString s = some (b, rest)) :
    ∃ cs, s = 34 :: cs ∧ parseChars (cs.length + 1) cs = some (b, rest) ∧ validUtf8 b = true := by
  unfold parseString at h
  split at h
  · rename_i cs
    refine ⟨cs, rfl, ?_⟩
    cases hp : parseChars (cs.length + 1) cs with
    | none => simp [hp] at h
    | some p =>
      obtain ⟨p1, p2⟩ := p
      simp only [hp] at h
      by_cases hv : validUtf8 p1 = true
      · simp only [hv, if_true, Option.some.injEq, Prod.mk.injEq] at h
        obtain ⟨rfl, rfl⟩ := h
        exact ⟨rfl, hv⟩
      · simp [hv] at h
  · simp at h

theorem endString_ctx {stk n} (h : Ctx stk n) (s : St) (hs : s.stack = stk) (hv : validate s.buf = none) :
    endString s = { s with st := afterSt n, evs := Ev.str s.buf s.noesc :: s.evs } := by
  cases h <;> simp [endString, hv, parent, hs, afterSt, emit]

/-- a string of the reference where a value may start -/
theorem feed_string_value (cfg : Cfg) {stk n} (hctx : Ctx stk n) (s0 : St) (s b rest : Bytes)
    (hp : parseString s = some (b, rest)) (hs : vState s0.st = true) (he : s0.err = none) (hstk : s0.stack = stk) :
    ∃ s1, feed cfg s0 s = feed cfg s1 rest ∧ s1.st = afterSt n ∧ s1.stack = s0.stack ∧
      s1.level = s0.level ∧ s1.err = none ∧ ∃ ne, s1.evs = Ev.str b ne :: s0.evs := by
  obtain ⟨cs, rfl, hpc, hv⟩ := parseString_inv s b rest hp
  have h1 : feedChar cfg s0 34 = startString s0 := feedChar_value cfg s0 _ 34 hs he (by simp [valueStart])
  obtain ⟨s', e1, e2, e3, e4, e5, e6⟩ := feed_chars cfg _ cs b rest hpc (startString s0) rfl rfl he
  have hbuf : s'.buf = b := by simpa [startString] using e2
  have hval : validate s'.buf = none := by rw [hbuf]; exact (validate_iff b).2 hv
  have hstk' : s'.stack = stk := by rw [e3]; exact hstk
  refine ⟨endString s', by rw [feed_cons, h1, e1], ?_⟩
  rw [endString_ctx hctx s' hstk' hval]
  exact ⟨rfl, e3, e4, e6, s'.noesc, by simp [hbuf, e5, startString]⟩

/-- a string of the reference where a member name is expected -/
theorem feed_string_key (cfg : Cfg) (s0 : St) (s b rest : Bytes)
    (hp : parseString s = some (b, rest)) (hs : s0.st = .expectMemberNameOrEnd ∨ s0.st = .expectMemberName) (he : s0.err = none) :
    ∃ s1, feed cfg s0 s = feed cfg s1 rest ∧ s1.st = .expectColon ∧ s1.stack = s0.stack ∧
      s1.level = s0.level ∧ s1.err = none ∧ s1.evs = Ev.key b :: s0.evs := by
  obtain ⟨cs, rfl, hpc, hv⟩ := parseString_inv s b rest hp
  have hsp : spaceOrSlash s0 34 = none := by simp [spaceOrSlash]
  have h1 : feedChar cfg s0 34 = startString (push s0 .memberName) := by
    rcases hs with hs | hs <;> simp [feedChar, he, stepChar, hs, isCtl, hsp]
  obtain ⟨s', e1, e2, e3, e4, e5, e6⟩ := feed_chars cfg _ cs b rest hpc (startString (push s0 .memberName)) rfl rfl he
  have hbuf : s'.buf = b := by simpa [startString] using e2
  have hval : validate s'.buf = none := by rw [hbuf]; exact (validate_iff b).2 hv
  have hstk' : s'.stack = .memberName :: s0.stack := by rw [e3]; rfl
  refine ⟨endString s', by rw [feed_cons, h1, e1], ?_⟩
  have : endString s' = { (emit s' (.key s'.buf)) with st := .expectColon, stack := s'.stack.tail } := by
    simp [endString, hval, parent, hstk']
  rw [this]
  exact ⟨rfl, by simp [hstk'], by simpa [emit, startString, push] using e4, by simpa [emit] using e6,
    by simp [emit, hbuf, e5, startString, push]⟩

end JsonParser
end Model
end JV
