/-
  JV.Proofs.PatchUndoD — atomicity of the `apply_patch` loop from the per-operation inversion
  (`applyLoop_atomic`, generic in the relation up to which documents are restored), the sorted-object
  invariant along the loop, and the two exact instances (sorted objects; no remove/move, both flavours).
-/
import JV.Proofs.PatchUndoC
namespace JV
namespace Model
namespace Patch
open Assoc Pointer

/-- the loop is atomic up to `R` as soon as every operation is inverted up to `R` by its log, `R` is
    transitive, and unwinding respects `R` on documents satisfying `Inv` with stacks satisfying `SOK` -/
theorem applyLoop_atomic (o : Bool) (R : JVal → JVal → Prop) (Inv : JVal → Prop) (SOK : List Undo → Prop)
    (hRt : ∀ a b c, R a b → R b c → R a c)
    (hcongr : ∀ a b s, R a b → Inv a → Inv b → SOK s → R (unwind o a s) (unwind o b s))
    (d : JVal) :
    ∀ (ops : List JVal) (t : JVal) (stack : List Undo),
      (∀ op ∈ ops, ∀ t stack, Inv t → SOK stack →
         ∃ t'', R t'' t ∧ Inv t'' ∧ Undoes o (applyOp o t op).2.1 (applyOp o t op).2.2 t'' ∧
           Inv (applyOp o t op).2.1 ∧ SOK ((applyOp o t op).2.2 ++ stack)) →
      Inv t → SOK stack → R (unwind o t stack) d →
      (applyLoop o t ops stack).1 ≠ none → R (applyLoop o t ops stack).2 d
  | [], t, stack, _, _, _, _, h => by simp [applyLoop] at h
  | op :: ops, t, stack, hstep, hi, hs, hr, h => by
    obtain ⟨t'', hrel, hi'', hu, hi', hs'⟩ := hstep op (by simp) t stack hi hs
    have hnew : R (unwind o (applyOp o t op).2.1 ((applyOp o t op).2.2 ++ stack)) d := by
      rw [hu stack]
      exact hRt _ _ _ (hcongr t'' t stack hrel hi'' hi hs) hr
    simp only [applyLoop] at h ⊢
    cases he : (applyOp o t op).1 with
    | some e => exact hnew
    | none =>
      simp only [he] at h ⊢
      exact applyLoop_atomic o R Inv SOK hRt hcongr d ops _ _
        (fun op' hm => hstep op' (by simp [hm])) hi' hs' hnew h

/-! ### the sorted-object invariant along the loop -/

theorem addLike_wf (t : JVal) (np : List Bytes) (v : JVal) (hw : t.WF) (hv : v.WF) :
    (addLike false t np v).2.1.WF := by
  unfold addLike
  by_cases hn : np = []
  · subst hn
    simpa [Pointer.get, Pointer.apply] using hv
  · simp only [hn, if_false]
    have h1 : (Pointer.apply false false (Final.addIfAbsent v) t np).2.WF :=
      apply_wf (.addIfAbsent v) (show Final.ValWF (.addIfAbsent v) from hv) t np hw
    have h2 : (Pointer.apply false false (Final.replace v) (Pointer.apply false false (Final.addIfAbsent v) t np).2 np).2.WF :=
      apply_wf (.replace v) (show Final.ValWF (.replace v) from hv) _ np h1
    repeat' split
    all_goals first | exact h1 | exact h2

/-- the values an operation object carries are well-formed (implied by well-formedness of the patch) -/
def OpValWF (operation : JVal) : Prop :=
  ∀ om v, operation = .obj om → find sValue om = some v → v.WF

theorem opValWF_of_wf {operation : JVal} (h : operation.WF) : OpValWF operation := by
  intro om v he hf
  subst he
  have : Sorted om ∧ WFMembers om := by simpa [JVal.WF] using h
  exact wf_of_find this.2 hf

theorem applyOp_wf (t operation : JVal) (hw : t.WF) (hv : OpValWF operation) :
    (applyOp false t operation).2.1.WF := by
  unfold applyOp
  split
  · next om =>
    have hval : ∀ v, find sValue om = some v → v.WF := fun v hf => hv om v rfl hf
    split
    · exact hw
    · split
      · exact hw
      · split
        · exact hw
        · next location _ =>
          split
          · have : (opTest t location om).2 = (t, []) := by
              unfold opTest
              repeat' split
              all_goals rfl
            rw [this]; exact hw
          · split
            · unfold opAdd
              split
              · exact hw
              · next v hf =>
                have := addLike_wf t (definitePath t location) v hw (hval v hf)
                dsimp only
                split <;> exact this
            · split
              · unfold opRemove
                have := apply_wf .remove trivial t location hw
                dsimp only
                repeat' split
                all_goals first | exact hw | exact this
              · split
                · unfold opReplace
                  split
                  · exact hw
                  · split
                    · exact hw
                    · next v hf =>
                      have := apply_wf (.replace v) (show Final.ValWF (.replace v) from hval v hf) t location hw
                      dsimp only
                      split <;> exact this
                · split
                  · unfold opMove
                    split
                    · exact hw
                    · split
                      · exact hw
                      · next fromPtr _ =>
                        split
                        · exact hw
                        · next val hg =>
                          have h1 := apply_wf .remove trivial t fromPtr hw
                          have h2 := addLike_wf _ (definitePath (Pointer.apply false false Final.remove t fromPtr).2 location)
                            val h1 (get_wf fromPtr t val hw hg)
                          dsimp only
                          repeat' split
                          all_goals first | exact h1 | exact h2
                  · split
                    · unfold opCopy
                      split
                      · exact hw
                      · split
                        · exact hw
                        · next from_ _ val hg =>
                          have hvw : val.WF := by
                            unfold getStr at hg
                            split at hg
                            · simp at hg
                            · next ts _ => exact get_wf ts t val hw hg
                          have := addLike_wf t (definitePath t location) val hw hvw
                          dsimp only
                          split <;> exact this
                    · exact hw
  · exact hw

theorem remInv_sorted (t : JVal) (hw : t.WF) : RemInv false Eq t := by
  intro loc val hg hok
  exact ⟨t, rfl, apply_remove_undo_sorted t loc val hw hg hok⟩

/-- sorted objects: the loop restores the document exactly -/
theorem applyLoop_atomic_sorted (d : JVal) (ops : List JVal) (t : JVal) (stack : List Undo)
    (hops : ∀ op ∈ ops, OpValWF op) (hw : t.WF) (hr : unwind false t stack = d)
    (h : (applyLoop false t ops stack).1 ≠ none) : (applyLoop false t ops stack).2 = d := by
  refine applyLoop_atomic false Eq JVal.WF (fun _ => True) (fun _ _ _ h1 h2 => h1.trans h2)
    (fun a b s hab _ _ _ => by rw [hab]) d ops t stack ?_ hw trivial hr h
  intro op hm t stack hw _
  obtain ⟨t'', he, hu⟩ := applyOp_undoes Eq (fun _ => rfl) false t op (Or.inr (remInv_sorted t hw))
  subst he
  exact ⟨t'', rfl, hw, hu, applyOp_wf t'' op hw (hops op hm), trivial⟩

/-- no `remove` / `move` in the patch: the loop restores the document exactly, for both object
    flavours and without any invariant -/
theorem applyLoop_atomic_noRemoval (o : Bool) (d : JVal) (ops : List JVal) (t : JVal) (stack : List Undo)
    (hops : ∀ op ∈ ops, noRemoval op = true) (hr : unwind o t stack = d)
    (h : (applyLoop o t ops stack).1 ≠ none) : (applyLoop o t ops stack).2 = d := by
  refine applyLoop_atomic o Eq (fun _ => True) (fun _ => True) (fun _ _ _ h1 h2 => h1.trans h2)
    (fun a b s hab _ _ _ => by rw [hab]) d ops t stack ?_ trivial trivial hr h
  intro op hm t stack _ _
  obtain ⟨t'', he, hu⟩ := applyOp_undoes Eq (fun _ => rfl) o t op (Or.inl (hops op hm))
  subst he
  exact ⟨t'', rfl, trivial, hu, trivial, trivial⟩

end Patch
end Model
end JV
