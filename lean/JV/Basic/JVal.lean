/-
  JV.Basic.JVal — the JSON data model shared by the DOM-level models.

  Text is `List Nat` (UTF-8 code units, each < 256 by construction of the driver's reader).
  Objects are association lists; the representation invariant (sorted + unique keys for
  `jsoncons::json`, unique keys for `jsoncons::ojson`) is a *separate* predicate, never a subtype.
-/
namespace JV

abbrev Bytes := List Nat

/-- Lexicographic strict order on byte strings — `std::string::compare < 0` on `char` keys
    (`char_traits<char>::compare` compares as unsigned char). -/
def keyLt : Bytes → Bytes → Bool
  | [], [] => false
  | [], _ :: _ => true
  | _ :: _, [] => false
  | a :: as, b :: bs => if a < b then true else if b < a then false else keyLt as bs

inductive JVal where
  | null
  | bool (b : Bool)
  | int (i : Int)
  | str (s : Bytes)
  | arr (xs : List JVal)
  | obj (ms : List (Bytes × JVal))
  deriving Repr, Inhabited

namespace JVal

mutual
  def beq : JVal → JVal → Bool
    | .null, .null => true
    | .bool a, .bool b => a == b
    | .int a, .int b => a == b
    | .str a, .str b => a == b
    | .arr a, .arr b => beqList a b
    | .obj a, .obj b => beqMembers a b
    | _, _ => false
  def beqList : List JVal → List JVal → Bool
    | [], [] => true
    | x :: xs, y :: ys => beq x y && beqList xs ys
    | _, _ => false
  def beqMembers : List (Bytes × JVal) → List (Bytes × JVal) → Bool
    | [], [] => true
    | (k, x) :: xs, (l, y) :: ys => k == l && beq x y && beqMembers xs ys
    | _, _ => false
end

instance : BEq JVal := ⟨beq⟩

def isObject : JVal → Bool
  | .obj _ => true
  | _ => false

def isNull : JVal → Bool
  | .null => true
  | _ => false

def isArray : JVal → Bool
  | .arr _ => true
  | _ => false

end JVal

/-! ### Association-list primitives (shared by Model and Spec; their laws are in `Proofs/Assoc`) -/

namespace Assoc

variable {α : Type}

def find (k : Bytes) : List (Bytes × α) → Option α
  | [] => none
  | (k', v) :: ms => if k' = k then some v else find k ms

def erase (k : Bytes) : List (Bytes × α) → List (Bytes × α)
  | [] => []
  | (k', v) :: ms => if k' = k then ms else (k', v) :: erase k ms

/-- insert `(k,v)` before the first key that is not smaller; used only when `k` is absent. -/
def insertSorted (k : Bytes) (v : α) : List (Bytes × α) → List (Bytes × α)
  | [] => [(k, v)]
  | (k', v') :: ms => if keyLt k' k then (k', v') :: insertSorted k v ms else (k, v) :: (k', v') :: ms

def keys (ms : List (Bytes × α)) : List Bytes := ms.map (·.1)

/-- strictly increasing keys: the `sorted_json_object` representation invariant. -/
def Sorted : List (Bytes × α) → Prop
  | [] => True
  | [_] => True
  | (k, _) :: (k', v') :: ms => keyLt k k' = true ∧ Sorted ((k', v') :: ms)

end Assoc

end JV

namespace JV

/-! ### deep representation invariant of `jsoncons::json`: every object sorted by key, keys unique -/
mutual
  def JVal.WF : JVal → Prop
    | .arr xs => WFList xs
    | .obj ms => Assoc.Sorted ms ∧ WFMembers ms
    | _ => True
  def WFList : List JVal → Prop
    | [] => True
    | x :: xs => JVal.WF x ∧ WFList xs
  def WFMembers : List (Bytes × JVal) → Prop
    | [] => True
    | (_, x) :: ms => JVal.WF x ∧ WFMembers ms
end

/-! no object member anywhere in the value is `null` (the precondition of the RFC 7386 diff law) -/
mutual
  def JVal.NoNullMembers : JVal → Prop
    | .arr xs => NoNullList xs
    | .obj ms => NoNullMems ms
    | _ => True
  def NoNullList : List JVal → Prop
    | [] => True
    | x :: xs => JVal.NoNullMembers x ∧ NoNullList xs
  def NoNullMems : List (Bytes × JVal) → Prop
    | [] => True
    | (_, x) :: ms => x.isNull = false ∧ JVal.NoNullMembers x ∧ NoNullMems ms
end

end JV

namespace JV

mutual
  def JVal.size : JVal → Nat
    | .arr xs => 1 + sizeList xs
    | .obj ms => 1 + sizeMembers ms
    | _ => 1
  def sizeList : List JVal → Nat
    | [] => 0
    | x :: xs => JVal.size x + sizeList xs
  def sizeMembers : List (Bytes × JVal) → Nat
    | [] => 0
    | (_, x) :: ms => JVal.size x + sizeMembers ms
end

end JV
