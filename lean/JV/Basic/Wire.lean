/-
  JV.Basic.Wire — the line protocol's value syntax (driver glue, not part of any theorem).

  tokens, separated by single spaces:
    n  t  f  i<decimal>  s<hex>  [ … ]  { k<hex> <value> … }
-/
import JV.Basic.JVal
namespace JV
namespace Wire

def hexDigit (n : Nat) : Char :=
  if n < 10 then Char.ofNat (48 + n) else Char.ofNat (87 + n)

def hexOfBytes (bs : Bytes) : String :=
  String.ofList (bs.flatMap fun b => [hexDigit (b / 16 % 16), hexDigit (b % 16)])

def hexVal (c : Char) : Option Nat :=
  let n := c.toNat
  if 48 ≤ n ∧ n ≤ 57 then some (n - 48)
  else if 97 ≤ n ∧ n ≤ 102 then some (n - 87)
  else if 65 ≤ n ∧ n ≤ 70 then some (n - 55)
  else none

def bytesOfHexChars : List Char → Option Bytes
  | [] => some []
  | [_] => none
  | a :: b :: rest => do
    let x ← hexVal a
    let y ← hexVal b
    let r ← bytesOfHexChars rest
    pure ((x * 16 + y) :: r)

def bytesOfHex (s : String) : Option Bytes := bytesOfHexChars s.toList

mutual
  def toTokens : JVal → List String
    | .null => ["n"]
    | .bool true => ["t"]
    | .bool false => ["f"]
    | .int i => ["i" ++ toString i]
    | .str s => ["s" ++ hexOfBytes s]
    | .arr xs => "[" :: (listTokens xs ++ ["]"])
    | .obj ms => "{" :: (memberTokens ms ++ ["}"])
  def listTokens : List JVal → List String
    | [] => []
    | x :: xs => toTokens x ++ listTokens xs
  def memberTokens : List (Bytes × JVal) → List String
    | [] => []
    | (k, x) :: ms => ("k" ++ hexOfBytes k) :: (toTokens x ++ memberTokens ms)
end

def render (v : JVal) : String := " ".intercalate (toTokens v)

def dropFirst (s : String) : String := String.ofList (s.toList.drop 1)

mutual
  def parseVal : Nat → List String → Option (JVal × List String)
    | 0, _ => none
    | _, [] => none
    | fuel + 1, tok :: rest =>
      match tok.toList with
      | ['n'] => some (.null, rest)
      | ['t'] => some (.bool true, rest)
      | ['f'] => some (.bool false, rest)
      | ['['] => do
        let (xs, rest') ← parseElems fuel rest
        pure (.arr xs, rest')
      | ['{'] => do
        let (ms, rest') ← parseMembers fuel rest
        pure (.obj ms, rest')
      | 'i' :: cs => (String.ofList cs).toInt?.map fun i => (.int i, rest)
      | 's' :: cs => (bytesOfHexChars cs).map fun b => (.str b, rest)
      | _ => none
  def parseElems : Nat → List String → Option (List JVal × List String)
    | 0, _ => none
    | _, [] => none
    | fuel + 1, tok :: rest =>
      if tok = "]" then some ([], rest) else do
        let (x, r1) ← parseVal fuel (tok :: rest)
        let (xs, r2) ← parseElems fuel r1
        pure (x :: xs, r2)
  def parseMembers : Nat → List String → Option (List (Bytes × JVal) × List String)
    | 0, _ => none
    | _, [] => none
    | fuel + 1, tok :: rest =>
      if tok = "}" then some ([], rest) else
        match tok.toList with
        | 'k' :: cs => do
          let k ← bytesOfHexChars cs
          let (x, r1) ← parseVal fuel rest
          let (ms, r2) ← parseMembers fuel r1
          pure ((k, x) :: ms, r2)
        | _ => none
end

/-- parse one value from the front of a token list -/
def readVal (toks : List String) : Option (JVal × List String) :=
  parseVal (toks.length + 1) toks

end Wire
end JV
