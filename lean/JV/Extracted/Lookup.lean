/-
  JV.Extracted.Lookup — helpers over the generated tables (static text written by tools/extract.py).
-/
namespace JV.Extracted

/-- value of `name` in a (name, value) table -/
def lookup (t : List (String × Nat)) (name : String) : Option Nat :=
  match t with
  | [] => none
  | (n, v) :: r => if n = name then some v else lookup r name

/-- the values of a (name, value) table -/
def values (t : List (String × Nat)) : List Nat := t.map (·.2)

/-- pairwise distinct -/
def distinct : List Nat → Bool
  | [] => true
  | x :: xs => !xs.contains x && distinct xs

/-- 256-entry table indexed by a byte; out of range is 0 -/
def at' (t : List Nat) (i : Nat) : Nat := t.getD i 0

end JV.Extracted
