/-
  JV.Model.BigInt — the limb loops of include/jsoncons/utility/bigint.hpp (`basic_bigint`):
  sign-magnitude, little-endian 64-bit words, `reduce()` strips high zero words and makes zero
  non-negative. Words are `Nat`s kept below `B = 2^64`; every `word_type` operation is written
  with its wrap-around (`% B`).
-/
import JV.Basic.JVal
namespace JV
namespace Model
namespace BigInt

def B : Nat := 18446744073709551616   -- 2^64

structure Big where
  neg : Bool
  mag : List Nat
  deriving Repr, DecidableEq

/-- `reduce()` on the word vector: drop zero words from the high end -/
def stripHigh : List Nat → List Nat
  | [] => []
  | x :: xs =>
    match stripHigh xs with
    | [] => if x = 0 then [] else [x]
    | ys => x :: ys

def reduce (neg : Bool) (mag : List Nat) : Big :=
  let m := stripHigh mag
  { neg := if m = [] then false else neg, mag := m }

/-- second loop of `+=`: propagate the carry while there is one -/
def carryLoop : List Nat → Nat → List Nat
  | [], _ => []
  | x :: xs, c =>
    if c = 0 then x :: xs
    else
      let d := (x + c) % B
      d :: carryLoop xs (if d < c then 1 else 0)

/-- first loop of `+=` over the words of `y` (`this` has been resized to max+1 words) -/
def addLoop : List Nat → List Nat → Nat → List Nat
  | x :: xs, y :: ys, c =>
    let d := (x + c) % B
    let c1 := if d < c then 1 else 0
    let r := (d + y) % B
    let c2 := if r < d then 1 else c1
    r :: addLoop xs ys c2
  | xs, [], c => carryLoop xs c
  | [], _ :: _, _ => []

def padTo (n : Nat) (xs : List Nat) : List Nat := xs ++ List.replicate (n - xs.length) 0

/-- magnitude addition as `operator+=` performs it for equal signs -/
def addMag (x y : List Nat) : List Nat :=
  addLoop (padTo (max x.length y.length + 1) x) y 0

def borrowLoop : List Nat → Nat → List Nat
  | [], _ => []
  | x :: xs, b =>
    if b = 0 then x :: xs
    else
      let d := (x + B - b) % B
      d :: borrowLoop xs (if d > x then 1 else 0)

/-- the loops of `-=` (called with |this| ≥ |y|) -/
def subLoop : List Nat → List Nat → Nat → List Nat
  | x :: xs, y :: ys, b =>
    let d := (x + B - b) % B
    let b1 := if d > x then 1 else 0
    let r := (d + B - y) % B
    let b2 := if r > d then 1 else b1
    r :: subLoop xs ys b2
  | xs, [], b => borrowLoop xs b
  | [], _ :: _, _ => []

/-- `compare` on magnitudes: by length, then from the most significant word down (:1640-1672) -/
def cmpWordsRev : List Nat → List Nat → Int
  | x :: xs, y :: ys => if x > y then 1 else if x < y then -1 else cmpWordsRev xs ys
  | _, _ => 0

def cmpMag (x y : List Nat) : Int :=
  if x.length < y.length then -1
  else if x.length > y.length then 1
  else cmpWordsRev x.reverse y.reverse

def compare (a b : Big) : Int :=
  if a.mag = [] ∧ b.mag = [] then 0
  else if a.neg ≠ b.neg then (if b.neg then 1 else 0) - (if a.neg then 1 else 0)
  else
    let code := cmpMag a.mag b.mag
    if a.neg then -code else code

def negate (a : Big) : Big := { neg := !a.neg, mag := a.mag }    -- `operator-()` (zero stays as stored)

mutual
  /-- `operator+=` (:919-951) -/
  def add (fuel : Nat) (a b : Big) : Big :=
    match fuel with
    | 0 => a
    | fuel + 1 =>
      if a.neg ≠ b.neg then sub fuel a (negate b)
      else reduce a.neg (addMag a.mag b.mag)
  /-- `operator-=` (:953-984) -/
  def sub (fuel : Nat) (a b : Big) : Big :=
    match fuel with
    | 0 => a
    | fuel + 1 =>
      if a.neg ≠ b.neg then add fuel a (negate b)
      else if (!a.neg && compare b a > 0) || (a.neg && compare b a < 0) then
        negate (sub fuel b a)                               -- `*this = -(y - *this)`
      else reduce a.neg (subLoop a.mag b.mag 0)
end

end BigInt
end Model
end JV
