/-
  JV.Model.BigInt — the limb loops of include/jsoncons/utility/bigint.hpp (`basic_bigint`):
  sign-magnitude, little-endian 64-bit words, `reduce()` strips high zero words and makes zero
  non-negative. Words are `Nat`s kept below `B = 2^64`; every `word_type` operation is written
  with its wrap-around (`% B`).
-/
import JV.Basic.JVal
namespace JV
namespace Model
namespace BigInt

def B : Nat := 18446744073709551616   -- 2^64

structure Big where
  neg : Bool
  mag : List Nat
  deriving Repr, DecidableEq

/-- `reduce()` on the word vector: drop zero words from the high end -/
def stripHigh : List Nat → List Nat
  | [] => []
  | x :: xs =>
    match stripHigh xs with
    | [] => if x = 0 then [] else [x]
    | ys => x :: ys

def reduce (neg : Bool) (mag : List Nat) : Big :=
  let m := stripHigh mag
  { neg := if m = [] then false else neg, mag := m }

/-- second loop of `+=`: propagate the carry while there is one -/
def carryLoop : List Nat → Nat → List Nat
  | [], _ => []
  | x :: xs, c =>
    if c = 0 then x :: xs
    else
      let d := (x + c) % B
      d :: carryLoop xs (if d < c then 1 else 0)

/-- first loop of `+=` over the words of `y` (`this` has been resized to max+1 words) -/
def addLoop : List Nat → List Nat → Nat → List Nat
  | x :: xs, y :: ys, c =>
    let d := (x + c) % B
    let c1 := if d < c then 1 else 0
    let r := (d + y) % B
    let c2 := if r < d then 1 else c1
    r :: addLoop xs ys c2
  | xs, [], c => carryLoop xs c
  | [], _ :: _, _ => []

def padTo (n : Nat) (xs : List Nat) : List Nat := xs ++ List.replicate (n - xs.length) 0

/-- magnitude addition as `operator+=` performs it for equal signs -/
def addMag (x y : List Nat) : List Nat :=
  addLoop (padTo (max x.length y.length + 1) x) y 0

def borrowLoop : List Nat → Nat → List Nat
  | [], _ => []
  | x :: xs, b =>
    if b = 0 then x :: xs
    else
      let d := (x + B - b) % B
      d :: borrowLoop xs (if d > x then 1 else 0)

/-- the loops of `-=` (called with |this| ≥ |y|) -/
def subLoop : List Nat → List Nat → Nat → List Nat
  | x :: xs, y :: ys, b =>
    let d := (x + B - b) % B
    let b1 := if d > x then 1 else 0
    let r := (d + B - y) % B
    let b2 := if r > d then 1 else b1
    r :: subLoop xs ys b2
  | xs, [], b => borrowLoop xs b
  | [], _ :: _, _ => []

/-- `compare` on magnitudes: by length, then from the most significant word down (:1640-1672) -/
def cmpWordsRev : List Nat → List Nat → Int
  | x :: xs, y :: ys => if x > y then 1 else if x < y then -1 else cmpWordsRev xs ys
  | _, _ => 0

def cmpMag (x y : List Nat) : Int :=
  if x.length < y.length then -1
  else if x.length > y.length then 1
  else cmpWordsRev x.reverse y.reverse

def compare (a b : Big) : Int :=
  if a.mag = [] ∧ b.mag = [] then 0
  else if a.neg ≠ b.neg then (if b.neg then 1 else 0) - (if a.neg then 1 else 0)
  else
    let code := cmpMag a.mag b.mag
    if a.neg then -code else code

def negate (a : Big) : Big := { neg := !a.neg, mag := a.mag }    -- `operator-()` (zero stays as stored)

mutual
  /-- `operator+=` (:919-951) -/
  def add (fuel : Nat) (a b : Big) : Big :=
    match fuel with
    | 0 => a
    | fuel + 1 =>
      if a.neg ≠ b.neg then sub fuel a (negate b)
      else reduce a.neg (addMag a.mag b.mag)
  /-- `operator-=` (:953-984) -/
  def sub (fuel : Nat) (a b : Big) : Big :=
    match fuel with
    | 0 => a
    | fuel + 1 =>
      if a.neg ≠ b.neg then add fuel a (negate b)
      else if (!a.neg && compare b a > 0) || (a.neg && compare b a < 0) then
        negate (sub fuel b a)                               -- `*this = -(y - *this)`
      else reduce a.neg (subLoop a.mag b.mag 0)
end

/-! ### multiplication (:985-1100, DDproduct :1786-1803) -/

def H : Nat := 4294967296   -- 2^32: `word_type_half_bits`

/-- `DDproduct(A, B, hi, lo)`: 128-bit product from 32-bit halves; returns `(hi, lo)` -/
def ddproduct (a b : Nat) : Nat × Nat :=
  let hiA := a / H
  let loA := a % H
  let hiB := b / H
  let loB := b % H
  let lo0 := (loA * loB) % B
  let hi0 := (hiA * hiB) % B
  let mid1 := (loA * hiB) % B
  let mid2 := (hiA * loB) % B
  let lo1 := (lo0 + (mid1 * H) % B) % B
  let hi1 := (hi0 + ((if lo1 < lo0 then 1 else 0) + mid1 / H)) % B
  let lo2 := (lo1 + (mid2 * H) % B) % B
  let hi2 := (hi1 + ((if lo2 < lo1 then 1 else 0) + mid2 / H)) % B
  (hi2, lo2)

/-- loop of `operator*=(word)` (:998-1021); the final `this_view[i] = carry` is the `[]` case -/
def mulWordLoop (y : Nat) : List Nat → Nat → List Nat
  | [], carry => [carry]
  | dig :: xs, carry =>
    let p := ddproduct dig y
    let d := (p.2 + carry) % B
    d :: mulWordLoop y xs ((p.1 + (if d < p.2 then 1 else 0)) % B)

def mulWord (x : List Nat) (y : Nat) : List Nat := stripHigh (mulWordLoop y x 0)

/-- `operator*=(word)` with its `reduce()` (zero becomes non-negative) -/
def mulWordBig (a : Big) (y : Nat) : Big := reduce a.neg (mulWordLoop y a.mag 0)

/-- inner loop of the schoolbook product over `jA` for a fixed column `i`; accumulator (sumLo, sumHi, carry) -/
def colLoop (y : List Nat) (i : Nat) : List Nat → Nat → Nat × Nat × Nat → Nat × Nat × Nat
  | [], _, acc => acc
  | xa :: xs, jA, (sumLo, sumHi, carry) =>
    if i ≥ jA ∧ i - jA < y.length then
      let p := ddproduct xa (y.getD (i - jA) 0)
      let sumLo' := (sumLo + p.2) % B
      let sumHi1 := if sumLo' < sumLo then (sumHi + 1) % B else sumHi
      let sumHi' := (sumHi1 + p.1) % B
      let carry' := (carry + (if sumHi' < sumHi then 1 else 0)) % B
      colLoop y i xs (jA + 1) (sumLo', sumHi', carry')
    else colLoop y i xs (jA + 1) (sumLo, sumHi, carry)

/-- outer loop over the `lenProd` columns -/
def rowLoop (x y : List Nat) : Nat → Nat → Nat → Nat → List Nat
  | 0, _, _, _ => []
  | n + 1, i, sumHi, carry =>
    let acc := colLoop y i x 0 (sumHi, carry, 0)
    acc.1 :: rowLoop x y n (i + 1) acc.2.1 acc.2.2

def schoolbook (x y : List Nat) : List Nat := rowLoop x y (x.length + y.length) 0 0 0

/-- magnitude of `operator*=(basic_bigint)` (:1023-1100). The 1×1 exit divides by `a`: the class invariant
    (no high zero word) makes `a ≠ 0` there. -/
def mulMag (x y : List Nat) : List Nat :=
  match x, y with
  | [], _ => []
  | _, [] => []
  | [a], [b] =>
    let p := (a * b) % B
    if p / a ≠ b then
      let dd := ddproduct a b
      [dd.2, dd.1]
    else [p]
  | [a], y => stripHigh (mulWord y a)
  | x, [b] => stripHigh (mulWord x b)
  | x, y => stripHigh (schoolbook x y)

def mul (a b : Big) : Big :=
  let m := mulMag a.mag b.mag
  if a.mag = [] ∨ b.mag = [] then { neg := a.neg, mag := [] }     -- `*this = 0`: assignment from zero keeps the sign flag (:366-380)
  else { neg := a.neg != b.neg, mag := m }

/-! ### shifts (:1117-1180) -/

/-- `this[i] = (this[i] << k) | ((this[i-1] >> k1) & mask)` from the top word down; `prev` is `this[i-1]`
    (still unshifted when word `i` is computed); the `[]` case is the extra word of `resize(size + 1)` -/
def shlBits (k : Nat) : List Nat → Nat → List Nat
  | [], prev => [((0 <<< k) % B) ||| ((prev >>> (64 - k)) &&& (2 ^ k - 1))]
  | x :: xs, prev => (((x <<< k) % B) ||| ((prev >>> (64 - k)) &&& (2 ^ k - 1))) :: shlBits k xs x

def shlWords (k : Nat) : List Nat → List Nat
  | [] => [0]
  | x :: xs => ((x <<< k) % B) :: shlBits k xs x

/-- `operator<<=` before the final `reduce()`: whole words first, then the bit shift -/
def shlRaw (x : List Nat) (k : Nat) : List Nat :=
  let q := k / 64
  let r := k % 64
  let x1 := if q ≠ 0 then List.replicate q 0 ++ x else x
  if r ≠ 0 then shlWords r x1 else x1

def shl (a : Big) (k : Nat) : Big := reduce a.neg (shlRaw a.mag k)

/-- `this[i] = (this[i] >> k) | ((this[i+1] & mask) << k1)` from the bottom word up -/
def shrBits (k : Nat) : List Nat → List Nat
  | [] => []
  | [x] => [x >>> k]
  | x :: x' :: xs => ((x >>> k) ||| (((x' &&& (2 ^ k - 1)) <<< (64 - k)) % B)) :: shrBits k (x' :: xs)

/-- `operator>>=`: when every word is shifted out the size becomes 0 *without* `reduce()`, so the sign
    flag stays as it was -/
def shr (a : Big) (k : Nat) : Big :=
  let q := k / 64
  let r := k % 64
  if q ≥ a.mag.length then { neg := a.neg, mag := [] }
  else
    let x1 := a.mag.drop q
    if r = 0 then reduce a.neg x1 else reduce a.neg (shrBits r x1)

/-! ### radix conversion from text and bytes (detail::to_bigint :2055-2113, from_bytes_be :792-817) -/

/-- the integer constructor: zero has no words -/
def ofWord (w : Nat) : Big := { neg := false, mag := if w = 0 then [] else [w] }

/-- `operator+=(word)` (:887-917) on a non-negative value: one word added, then the carry loop -/
def addWord (x : List Nat) (y : Nat) : List Nat := addLoop (padTo (x.length + 1) x) [y] 0

def addWordBig (a : Big) (y : Nat) : Big :=
  if a.neg then sub 4 a (negate (ofWord y)) else reduce a.neg (addWord a.mag y)

/-- `v *= radix; v += digit` -/
def pushDigit (radix : Nat) (v : Big) (d : Nat) : Big :=
  addWordBig (mulWordBig v radix) d

def ofDecimalLoop : List Nat → Big → Option Big
  | [], v => some v
  | c :: cs, v => if 48 ≤ c ∧ c ≤ 57 then ofDecimalLoop cs (pushDigit 10 v (c - 48)) else none

/-- `detail::to_bigint(data, length, neg, value)` on the characters after an optional '-' -/
def ofDecimalDigits (neg : Bool) (s : List Nat) : Option Big :=
  if s = [] then none
  else if s.all (· = 48) then some (ofWord 0)
  else match ofDecimalLoop s (ofWord 0) with
    | none => none
    | some v => some { neg := neg, mag := v.mag }

def ofDecimal (s : List Nat) : Option Big :=
  match s with
  | [] => none
  | 45 :: cs => ofDecimalDigits true cs
  | _ => ofDecimalDigits false s

def fromBytesLoop : List Nat → Big → Big
  | [], v => v
  | b :: bs, v => fromBytesLoop bs (pushDigit 256 v b)

def fromBytesBE (signum : Int) (bytes : List Nat) : Big :=
  let v := fromBytesLoop bytes (ofWord 0)
  if signum < 0 then { neg := true, mag := v.mag } else v

/-! ### division by a half-word divisor (divide :1681-1738) and write_bytes_be (:1328-1353) -/

/-- the loop from the most significant word down; input and output most significant word first -/
def divHalfLoop (d : Nat) : List Nat → Nat → List Nat × Nat
  | [], dHi => ([], dHi)
  | w :: ws, dHi =>
    let dividend := ((dHi <<< 32) % B) ||| (w >>> 32)
    let q1 := dividend / d
    let r := dividend % d
    let dividend2 := ((r <<< 32) % B) ||| (w &&& (H - 1))
    let q2 := dividend2 / d
    let dHi' := dividend2 % d
    let rest := divHalfLoop d ws dHi'
    ((((q1 <<< 32) % B) ||| q2) :: rest.1, rest.2)

/-- `divide` on magnitudes for a one-word denominator: the `num < denom` exit, the 1×1 exit and the
    half-word loop. `none`: the general (Knuth) path, which is not modelled. Returns (quot, rem). -/
def divWord (x : List Nat) (d : Nat) : Option (List Nat × List Nat) :=
  if cmpMag x [d] < 0 then some ([], x)
  else match x with
    | [a] => some ((ofWord (a / d)).mag, (ofWord (a % d)).mag)
    | _ =>
      if d / H = 0 then
        let r := divHalfLoop d x.reverse 0
        some (stripHigh r.1.reverse, (ofWord r.2).mag)
      else none

/-- `while (n >= 256) { n.divide(256, q, r); n = q; push r }` then the last byte; little-endian output.
    Fuel: the number of words × 8 bounds the number of bytes. -/
def toBytesLoop : Nat → List Nat → List Nat
  | 0, _ => []
  | fuel + 1, n =>
    if cmpMag n [256] ≥ 0 then
      match divWord n 256 with
      | some (q, r) => (r.headD 0 % 256) :: toBytesLoop fuel q
      | none => []
    else [n.headD 0 % 256]

/-- `write_bytes_be`: (signum, big-endian bytes of the magnitude) -/
def toBytesBE (a : Big) : Int × List Nat :=
  let signum : Int := if a.mag = [] then 0 else if a.neg then -1 else 1
  (signum, (toBytesLoop (8 * a.mag.length + 1) a.mag).reverse)

/-! ### write_string (:1363-1405) -/

/-- the inner `for j < 19` loop: digits of the chunk, least significant first; stops early when the
    chunk is exhausted and no higher words remain -/
def chunkDigits : Nat → Nat → Bool → List Nat
  | 0, _, _ => []
  | j + 1, r, more =>
    let c := r % 10 + 48
    let r' := r / 10
    if r' = 0 ∧ !more then [c] else c :: chunkDigits j r' more

/-- `do { v.divide(LP10, v, R); emit ≤ 19 digits of R } while (v.size() > 0)`. The division is a
    parameter: `div19 v = (v / 10^19, v % 10^19)` on word lists. -/
def toDecimalLoop (div19 : List Nat → List Nat × Nat) : Nat → List Nat → List Nat
  | 0, _ => []
  | fuel + 1, v =>
    let qr := div19 v
    let ds := chunkDigits 19 qr.2 (qr.1 ≠ [])
    if qr.1 = [] then ds else ds ++ toDecimalLoop div19 fuel qr.1

def toDecimal (div19 : List Nat → List Nat × Nat) (a : Big) : List Nat :=
  if a.mag = [] then [48]
  else
    let ds := toDecimalLoop div19 (2 * a.mag.length + 1) a.mag
    ((if a.neg then ds ++ [45] else ds)).reverse

/-- `v.divide(LP10, v, R)` through the modelled exits of `divide` (a value of at most one word never needs
    another); `([], 0)` stands for "not modelled" -/
def div19Word (v : List Nat) : List Nat × Nat :=
  match divWord v 10000000000000000000 with
  | some (q, r) => (q, r.headD 0)
  | none => ([], 0)

end BigInt
end Model
end JV
