/-
  JV.Model.Pointer — include/jsoncons_ext/jsonpointer/jsonpointer.hpp as the code performs it.

  Mutating operations are state-passing: they return the error (if any) AND the document as the
  C++ leaves it, so that "an error leaves the document untouched" is a theorem about the model,
  not a by-product of its encoding (`create_if_missing` really does create members before a later
  token may fail).
-/
import JV.Model.Object
import JV.Model.Number
namespace JV
namespace Model
namespace Pointer
open Assoc

inductive PErr where
  | expectedSlash | expected01 | invalidIndex | indexExceeds | keyNotFound
  | expectedObjOrArr | keyExists | cannotRemoveRoot
  deriving Repr, DecidableEq

/-! ### text ↔ tokens (basic_json_pointer::parse / to_string, :148-348) -/

inductive PState where
  | start | escaped | newToken | part
  deriving Repr, DecidableEq

/-- the `while (p < pend)` loop: state, current token buffer, finished tokens (in order) -/
def parseLoop : PState → Bytes → List Bytes → Bytes → Except PErr (PState × Bytes × List Bytes)
  | st, buf, toks, [] => .ok (st, buf, toks)
  | .start, buf, toks, c :: cs =>
    if c = 47 then parseLoop .newToken buf toks cs else .error .expectedSlash
  | .escaped, buf, toks, c :: cs =>
    if c = 48 then parseLoop .newToken (buf ++ [126]) toks cs
    else if c = 49 then parseLoop .newToken (buf ++ [47]) toks cs
    else .error .expected01
  -- `part` falls through to `new_token`
  | _, buf, toks, c :: cs =>
    if c = 47 then parseLoop .part [] (toks ++ [buf]) cs
    else if c = 126 then parseLoop .escaped buf toks cs
    else parseLoop .newToken (buf ++ [c]) toks cs

/-- what the code does after the loop, by final state -/
def finish : PState × Bytes × List Bytes → Except PErr (List Bytes)
  | (.escaped, _, _) => .error .expected01
  | (.newToken, buf, toks) => .ok (toks ++ [buf])
  | (.part, buf, toks) => .ok (toks ++ [buf])
  | (.start, _, toks) => .ok toks

def parse (s : Bytes) : Except PErr (List Bytes) :=
  if s = [] then .ok []
  else
    match parseLoop .start [] [] s with
    | .error e => .error e
    | .ok r => finish r

def escapeToken : Bytes → Bytes
  | [] => []
  | c :: cs => if c = 126 then 126 :: 48 :: escapeToken cs
               else if c = 47 then 126 :: 49 :: escapeToken cs
               else c :: escapeToken cs

def toString : List Bytes → Bytes
  | [] => []
  | t :: ts => 47 :: (escapeToken t ++ toString ts)

/-! ### navigation -/

/-- how an array-index token is read (`detail::to_array_index`): no leading zero, then
    `dec_to_integer<std::size_t>` -/
def decToIndex (tok : Bytes) : Option Nat :=
  if tok.length > 1 ∧ tok.head? = some 48 then none
  else match decToU64 tok with
    | .ok n => some n
    | .error _ => none

def isDash (tok : Bytes) : Bool := tok = [45]

/-- const `detail::resolve` (:460-497) iterated: `get(const Json&, location, ec)` -/
def get : JVal → List Bytes → Except PErr JVal
  | cur, [] => .ok cur
  | .arr xs, tok :: rest =>
    if isDash tok then .error .indexExceeds
    else match decToIndex tok with
      | none => .error .invalidIndex
      | some i =>
        match xs[i]? with
        | none => .error .indexExceeds
        | some x => get x rest
  | .obj ms, tok :: rest =>
    match find tok ms with
    | none => .error .keyNotFound
    | some x => get x rest
  | _, _ :: _ => .error .expectedObjOrArr

def contains (d : JVal) (ts : List Bytes) : Bool :=
  match get d ts with
  | .ok _ => true
  | .error _ => false

/-- what the last token does to the container it addresses -/
inductive Final where
  | add (v : JVal) | addIfAbsent (v : JVal) | replace (v : JVal) | remove
  deriving Repr

def finalStep (ordered create : Bool) (f : Final) (cur : JVal) (tok : Bytes) : Option PErr × JVal :=
  match cur with
  | .arr xs =>
    match f with
    | .add v | .addIfAbsent v =>
      if isDash tok then (none, .arr (xs ++ [v]))
      else match decToIndex tok with
        | none => (some .invalidIndex, cur)
        | some i =>
          if i > xs.length then (some .indexExceeds, cur)
          else if i = xs.length then (none, .arr (xs ++ [v]))
          else (none, .arr (insertAt i v xs))
    | .replace v =>
      if isDash tok then (some .indexExceeds, cur)
      else match decToIndex tok with
        | none => (some .invalidIndex, cur)
        | some i => if i ≥ xs.length then (some .indexExceeds, cur) else (none, .arr (xs.set i v))
    | .remove =>
      if isDash tok then (some .indexExceeds, cur)
      else match decToIndex tok with
        | none => (some .invalidIndex, cur)
        | some i => if i ≥ xs.length then (some .indexExceeds, cur) else (none, .arr (xs.eraseIdx i))
  | .obj ms =>
    match f with
    | .add v => (none, .obj (insertOrAssign ordered tok v ms))
    | .addIfAbsent v =>
      match find tok ms with
      | some _ => (some .keyExists, cur)
      | none => (none, .obj (tryEmplace ordered tok v ms))
    | .replace v =>
      match find tok ms with
      | none => if create then (none, .obj (tryEmplace ordered tok v ms)) else (some .keyNotFound, cur)
      | some _ => (none, .obj (insertOrAssign ordered tok v ms))
    | .remove =>
      match find tok ms with
      | none => (some .keyNotFound, cur)
      | some _ => (none, .obj (erase tok ms))
  | _ => (some .expectedObjOrArr, cur)

/-- mutable `detail::resolve` (:499-552) over all but the last token, then `finalStep`;
    the returned document is what the C++ object holds afterwards, error or not. -/
def modifyAt (ordered create : Bool) (f : Final) : JVal → Bytes → List Bytes → Option PErr × JVal
  | cur, tok, [] => finalStep ordered create f cur tok
  | .arr xs, tok, t2 :: rest =>
    if isDash tok then (some .indexExceeds, .arr xs)
    else match decToIndex tok with
      | none => (some .invalidIndex, .arr xs)
      | some i =>
        match xs[i]? with
        | none => (some .indexExceeds, .arr xs)
        | some x =>
          let r := modifyAt ordered create f x t2 rest
          (r.1, .arr (xs.set i r.2))
  | .obj ms, tok, t2 :: rest =>
    match find tok ms with
    | some x =>
      let r := modifyAt ordered create f x t2 rest
      (r.1, .obj (replaceVal tok r.2 ms))
    | none =>
      if create then
        -- `current->try_emplace(buffer, Json())` — the member exists from here on, whatever follows
        let r := modifyAt ordered create f (.obj []) t2 rest
        (r.1, .obj (tryEmplace ordered tok r.2 ms))
      else (some .keyNotFound, .obj ms)
  | cur, _, _ :: _ => (some .expectedObjOrArr, cur)

/-- `add / add_if_absent / replace / remove (root, location, …)` on parsed token lists -/
def apply (ordered create : Bool) (f : Final) (root : JVal) : List Bytes → Option PErr × JVal
  | [] =>
    match f with
    | .add v | .addIfAbsent v | .replace v => (none, v)          -- `root = value`
    | .remove => (some .cannotRemoveRoot, root)
  | tok :: rest => modifyAt ordered create f root tok rest

/-- the string overloads: parse first, touch nothing on a syntax error -/
def applyStr (ordered create : Bool) (f : Final) (root : JVal) (loc : Bytes) : Option PErr × JVal :=
  match parse loc with
  | .error e => (some e, root)
  | .ok ts => apply ordered create f root ts

def getStr (root : JVal) (loc : Bytes) : Except PErr JVal :=
  match parse loc with
  | .error e => .error e
  | .ok ts => get root ts

/-! ### flatten (:1287-1358) -/

/-- `from_integer(i, key)` for a `size_t` index: decimal digits, no sign -/
def natDigits (n : Nat) : Bytes := (Nat.toDigits 10 n).map (·.toNat)

mutual
  def flattenInto (ordered : Bool) (key : Bytes) : JVal → List (Bytes × JVal) → List (Bytes × JVal)
    | .arr [], acc => tryEmplace ordered key (.arr []) acc
    | .arr (x :: xs), acc => flattenElems ordered key 0 (x :: xs) acc
    | .obj [], acc => tryEmplace ordered key (.obj []) acc
    | .obj (m :: ms), acc => flattenMembers ordered key (m :: ms) acc
    | v, acc => tryEmplace ordered key v acc
  def flattenElems (ordered : Bool) (key : Bytes) : Nat → List JVal → List (Bytes × JVal) → List (Bytes × JVal)
    | _, [], acc => acc
    | i, x :: xs, acc => flattenElems ordered key (i + 1) xs (flattenInto ordered (key ++ 47 :: natDigits i) x acc)
  def flattenMembers (ordered : Bool) (key : Bytes) : List (Bytes × JVal) → List (Bytes × JVal) → List (Bytes × JVal)
    | [], acc => acc
    | (k, x) :: ms, acc => flattenMembers ordered key ms (flattenInto ordered (key ++ 47 :: escapeToken k) x acc)
end

def flatten (ordered : Bool) (v : JVal) : JVal := .obj (flattenInto ordered [] v [])

end Pointer
end Model
end JV
