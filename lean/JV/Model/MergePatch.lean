/-
  JV.Model.MergePatch — what include/jsoncons_ext/mergepatch/mergepatch.hpp does, step for step.

  `ordered = false` models `jsoncons::json`  (sorted_json_object: find = lower_bound + equality,
                                               try_emplace inserts at the lower bound if absent)
  `ordered = true`  models `jsoncons::ojson` (ordered_json_object: linear find, try_emplace appends).
-/
import JV.Model.Object
namespace JV
namespace Model

open Assoc

mutual
  /-- `detail::apply_merge_patch_(target, patch)` (mergepatch.hpp:54-86) -/
  def applyMP (ordered : Bool) : JVal → JVal → JVal
    | target, .obj pm =>
      let tm := match target with
        | .obj tm => tm
        | _ => []                                   -- `target = Json(json_object_arg)`
      .obj (applyMembers ordered tm pm)
    | _, .null => .null
    | _, .bool b => .bool b
    | _, .int i => .int i
    | _, .str s => .str s
    | _, .arr xs => .arr xs
  /-- the `for (auto& member : patch.object_range())` loop, target members threaded through -/
  def applyMembers (ordered : Bool) : List (Bytes × JVal) → List (Bytes × JVal) → List (Bytes × JVal)
    | tm, [] => tm
    | tm, (k, pv) :: pm =>
      match find k tm with
      | some item =>
        let tm' := erase k tm                       -- `target.erase(it)`
        if pv.isNull then applyMembers ordered tm' pm
        else applyMembers ordered (tryEmplace ordered k (applyMP ordered item pv) tm') pm
      | none =>
        if pv.isNull then applyMembers ordered tm pm
        else applyMembers ordered (tryEmplace ordered k (applyMP ordered (.obj []) pv) tm) pm
end

/-- second loop: members of target that source lacks (not recursive in `fromDiff`) -/
def diffSecond (ordered : Bool) (sm : List (Bytes × JVal)) : List (Bytes × JVal) → List (Bytes × JVal) → List (Bytes × JVal)
  | [], acc => acc
  | (k, tv) :: tm, acc =>
    match find k sm with
    | some _ => diffSecond ordered sm tm acc
    | none => diffSecond ordered sm tm (tryEmplace ordered k tv acc)

mutual
  /-- `mergepatch::from_diff(source, target)` (mergepatch.hpp:15-50) -/
  def fromDiff (ordered : Bool) : JVal → JVal → JVal
    | .obj sm, .obj tm =>
      .obj (diffSecond ordered sm tm (diffFirst ordered sm tm []))
    | _, target => target
  /-- first loop: members of source; `acc` is `result` -/
  def diffFirst (ordered : Bool) : List (Bytes × JVal) → List (Bytes × JVal) → List (Bytes × JVal) → List (Bytes × JVal)
    | [], _, acc => acc
    | (k, sv) :: sm, tm, acc =>
      match find k tm with
      | some tv =>
        if sv != tv then diffFirst ordered sm tm (tryEmplace ordered k (fromDiff ordered sv tv) acc)
        else diffFirst ordered sm tm acc
      | none => diffFirst ordered sm tm (tryEmplace ordered k .null acc)
end

end Model
end JV
