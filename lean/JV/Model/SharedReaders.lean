/-
  JV.Model.SharedReaders — threads that only read a shared artifact.

  The compiled schema / expression / document is a value `A` that no step changes; each thread has private state (its evaluation
  context, its results). A schedule is any interleaving, given as the list of thread identifiers in the order their steps run.
  That every step leaves `A` untouched is the assumption the C++ must meet ("const evaluate allocates a fresh context per call",
  no mutable member, no lazily filled cache); ThreadSanitizer checks that assumption on the real code, and this model says what
  follows from it.
-/
namespace JV
namespace Model
namespace SharedReaders

variable {A L : Type}

/-- one step of thread `i`: reads the shared artifact and its own state only -/
abbrev StepFn (A L : Type) := A → Nat → L → L

def setLocal (ls : List L) (i : Nat) (l : L) : List L := ls.set i l

/-- run a schedule: the i-th entry says which thread takes its next step -/
def run (step : StepFn A L) (a : A) : List Nat → List L → List L
  | [], ls => ls
  | i :: sched, ls =>
    match ls[i]? with
    | some l => run step a sched (setLocal ls i (step a i l))
    | none => run step a sched ls

/-- what thread `i` computes alone after `k` of its own steps -/
def alone (step : StepFn A L) (a : A) (i : Nat) : Nat → L → L
  | 0, l => l
  | k + 1, l => alone step a i k (step a i l)

def countOf (i : Nat) (sched : List Nat) : Nat := (sched.filter (· == i)).length

end SharedReaders
end Model
end JV
