/-
  JV.Model.JsonEscape — `escape_string` of include/jsoncons/json_encoders.hpp (:32-144), one arm per case.
  `to_codepoint` (unicode_traits.hpp) is modelled for well-formed UTF-8 lead bytes; on anything else
  the code throws `illegal_codepoint`, here `none`.
-/
import JV.Basic.JVal
namespace JV
namespace Model
namespace JsonEscape

/-- `to_hex_character` -/
def hexChar (n : Nat) : Nat := if n < 10 then 48 + n else 55 + n

def u4 (cp : Nat) : Bytes := [92, 117, hexChar (cp / 4096 % 16), hexChar (cp / 256 % 16), hexChar (cp / 16 % 16), hexChar (cp % 16)]

def isControl (c : Nat) : Bool := c ≤ 0x1F || c = 0x7F

/-- decode one UTF-8 sequence at the head: (code point, number of bytes) -/
def toCodepoint : Bytes → Option (Nat × Nat)
  | [] => none
  | a :: rest =>
    if a < 0x80 then some (a, 1)
    else if 0xC2 ≤ a ∧ a ≤ 0xDF then
      match rest with
      | b :: _ => if 0x80 ≤ b ∧ b ≤ 0xBF then some ((a - 0xC0) * 64 + (b - 0x80), 2) else none
      | _ => none
    else if 0xE0 ≤ a ∧ a ≤ 0xEF then
      match rest with
      | b :: c :: _ =>
        let lo := if a = 0xE0 then 0xA0 else 0x80
        let hi := if a = 0xED then 0x9F else 0xBF
        if lo ≤ b ∧ b ≤ hi ∧ 0x80 ≤ c ∧ c ≤ 0xBF then some (((a - 0xE0) * 64 + (b - 0x80)) * 64 + (c - 0x80), 3) else none
      | _ => none
    else if 0xF0 ≤ a ∧ a ≤ 0xF4 then
      match rest with
      | b :: c :: d :: _ =>
        let lo := if a = 0xF0 then 0x90 else 0x80
        let hi := if a = 0xF4 then 0x8F else 0xBF
        if lo ≤ b ∧ b ≤ hi ∧ 0x80 ≤ c ∧ c ≤ 0xBF ∧ 0x80 ≤ d ∧ d ≤ 0xBF then
          some ((((a - 0xF0) * 64 + (b - 0x80)) * 64 + (c - 0x80)) * 64 + (d - 0x80), 4)
        else none
      | _ => none
    else none

/-- `escape_string(s, length, escape_all_non_ascii, escape_solidus, sink)`; fuel = length -/
def escape (escAll solidus : Bool) : Nat → Bytes → Option Bytes
  | 0, [] => some []
  | 0, _ :: _ => none
  | _, [] => some []
  | fuel + 1, c :: cs =>
    let two (x : Nat) : Option Bytes := (escape escAll solidus fuel cs).map fun r => 92 :: x :: r
    if c = 92 then two 92
    else if c = 34 then two 34
    else if c = 8 then two 98
    else if c = 12 then two 102
    else if c = 10 then two 110
    else if c = 13 then two 114
    else if c = 9 then two 116
    else if solidus && c = 47 then two 47
    else if isControl c || escAll then
      match toCodepoint (c :: cs) with
      | none => none
      | some (cp, len) =>
        let rest := (c :: cs).drop len
        if cp ≥ 0x80 || isControl c then
          if cp > 0xFFFF then
            let v := cp - 0x10000
            (escape escAll solidus fuel rest).map fun r => u4 (v / 1024 + 0xD800) ++ u4 (v % 1024 + 0xDC00) ++ r
          else (escape escAll solidus fuel rest).map fun r => u4 cp ++ r
        else (escape escAll solidus fuel cs).map fun r => c :: r
    else (escape escAll solidus fuel cs).map fun r => c :: r

def escapeString (escAll solidus : Bool) (s : Bytes) : Option Bytes := escape escAll solidus s.length s

end JsonEscape
end Model
end JV
