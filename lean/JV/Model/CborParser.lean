/-
  JV.Model.CborParser — bug-faithful functional model of the item grammar of
  include/jsoncons_ext/cbor/cbor_parser.hpp (basic_cbor_parser), WITHOUT tags, stringrefs and typed arrays
  (an item that starts with a major-type-6 byte makes the model answer `skip`).

  What is transcribed (line numbers of cbor_parser.hpp at /repo HEAD):
    parse()                  :346-585   the parse_mode state stack (root / accept / array / indefinite_array / map_key / map_value /
                                        indefinite_map_key / indefinite_map_value) flattened into `item` / `items` / `itemsIndef` /
                                        `members` / `membersIndef`, structural recursion on a fuel argument
    read_item()              :602-923   peek, major-type dispatch, simple values 20-23, half / single / double, `default: unknown_type`
    begin_array/begin_object :926-973, :1050-1096   `++nesting_depth_ > max_nesting_depth_` BEFORE the length is read; info 31 = indefinite
    end_array/end_object     :975-994, :1098-1116   `--nesting_depth_`
    read_text_string_view    :1118-1162 definite / indefinite text, then unicode_traits::validate on the whole string (:732-738)
    read_byte_string_view    :1207-1253
    read_size                :1255-1269 (std::size_t is 64 bits on the platform the harness runs on: the cast never truncates)
    iterate_string_chunks    :1315-1378 break / wrong major / nested indefinite → illegal_chunked_string / per-chunk UTF-8 validation
    read_uint64              :1380-1457 info 0..23 direct, 24/25/26/27 → 1/2/4/8 bytes big-endian, 28..31 → unknown_type
    read_int64 (major 1)     :1459-1549 -1-n; n > INT64_MAX (only possible in the 8-byte form) → number_too_large
    read_double              :1577-1621
  and, from include/jsoncons/generic_visitor.hpp :775-1518 (basic_generic_to_json_visitor), what happens to a map key that is not a
  text string: unsigned / negative integers become their decimal text, true / false / null / undefined become `true` / `false` /
  `null`, a byte string becomes its unpadded base64url text. Keys that are floats, arrays or maps are rendered through
  write_double / a JSON text buffer, which is not transcribed: `render` answers `none` (the driver prints `skip`).

  The float32 → double widening is the hardware conversion `(double)float`; its value is the exact IEEE 754 widening
  `Spec.Cbor.f32ToF64` (signalling NaNs may be quieted by the hardware: the tie compares NaNs canonically).
-/
import JV.Basic.JVal
import JV.Model.JsonParser
import JV.Spec.Cbor
namespace JV.Model.CborParser
open JV

/-- the `cbor_errc` values the modelled paths can raise -/
inductive Err where
  | unexpectedEof | invalidUtf8TextString | numberTooLarge | maxNestingDepthExceeded | unknownType | illegalChunkedString
  deriving DecidableEq, Repr

/-- numbering of `enum class cbor_errc` (cbor_error.hpp; tied to the header by Extracted.cborErrc, Props.C07.model_error_codes) -/
def Err.code : Err → Nat
  | .unexpectedEof => 1
  | .invalidUtf8TextString => 5
  | .numberTooLarge => 8
  | .maxNestingDepthExceeded => 10
  | .unknownType => 11
  | .illegalChunkedString => 12

def Err.name : Err → String
  | .unexpectedEof => "unexpected_eof"
  | .invalidUtf8TextString => "invalid_utf8_text_string"
  | .numberTooLarge => "number_too_large"
  | .maxNestingDepthExceeded => "max_nesting_depth_exceeded"
  | .unknownType => "unknown_type"
  | .illegalChunkedString => "illegal_chunked_string"

/-- why a run of the model did not produce a value -/
inductive Fail where
  | err (e : Err)      -- the parser sets `ec`
  | skip               -- outside the modelled fragment: a tag (major type 6) at an item start (or a list element that is not a uint8_t)
  | fuel               -- the fuel of the structural recursion ran out (an artefact of the model: the driver prints `fuel`, which equals
                       -- no real outcome, so the tie would flag it; with `decode`'s fuel 2·|input|+2 it never occurs: Proofs.CborParserFuel.decode_ne_fuel)
  deriving DecidableEq, Repr

inductive Res (α : Type) where
  | ok (v : α) (rest : Bytes)
  | fail (f : Fail)
  deriving Repr

/-- the tree of events the parser reports (keys are arbitrary items; the visitor adaptor renders them later) -/
inductive Item where
  | null | undef
  | bool (b : Bool)
  | uint (n : Nat)           -- visitor.uint64_value
  | nint (i : Int)           -- visitor.int64_value
  | half (bits : Nat)
  | dbl (bits : Nat)
  | str (s : Bytes)
  | bytes (b : Bytes)
  | arr (xs : List Item)
  | map (ms : List (Item × Item))
  deriving Repr, Inhabited

/-- `binary::big_to_native<T>(buf, sizeof buf)` -/
def bigToNative (bs : Bytes) : Nat := bs.foldl (fun a b => a * 256 + b) 0

/-- `source_.read(buf, w) != w → unexpected_eof`, else the big-endian value -/
def readBE (w : Nat) (s : Bytes) : Res Nat :=
  if s.length < w then .fail (.err .unexpectedEof) else .ok (bigToNative (s.take w)) (s.drop w)

/-- `read_uint64` (:1380-1457): consumes the initial byte and the argument -/
def readUint64 : Bytes → Res Nat
  | [] => .fail (.err .unexpectedEof)
  | ib :: s =>
    let info := ib % 32
    if info < 24 then .ok info s
    else if info = 24 then readBE 1 s
    else if info = 25 then readBE 2 s
    else if info = 26 then readBE 4 s
    else if info = 27 then readBE 8 s
    else .fail (.err .unknownType)

/-- `read_size` (:1255-1269): `static_cast<std::size_t>(u) != u` is impossible with a 64-bit `size_t` -/
def readSize (s : Bytes) : Res Nat := readUint64 s

/-- `read_int64` on a major-1 initial byte (:1475-1549) -/
def readInt64 : Bytes → Res Int
  | [] => .fail (.err .unexpectedEof)
  | ib :: s =>
    let info := ib % 32
    if info < 24 then .ok (-1 - (info : Int)) s                       -- static_cast<int8_t>(-1 - info)
    else if info = 24 then (match readBE 1 s with | .ok x r => .ok (-1 - (x : Int)) r | .fail f => .fail f)
    else if info = 25 then (match readBE 2 s with | .ok x r => .ok (-1 - (x : Int)) r | .fail f => .fail f)
    else if info = 26 then (match readBE 4 s with | .ok x r => .ok (-1 - (x : Int)) r | .fail f => .fail f)
    else if info = 27 then (match readBE 8 s with
      | .ok x r => if x > 2 ^ 63 - 1 then .fail (.err .numberTooLarge) else .ok (-1 - (x : Int)) r
      | .fail f => .fail f)
    else .fail (.err .unknownType)

/-- `read_double` (:1577-1621) on an initial byte with info 26 / 27: the bit pattern of the double delivered -/
def readDouble : Bytes → Res Nat
  | [] => .fail (.err .unexpectedEof)
  | ib :: s =>
    if ib % 32 = 26 then (match readBE 4 s with | .ok x r => .ok (Spec.Cbor.f32ToF64 x) r | .fail f => .fail f)
    else if ib % 32 = 27 then readBE 8 s
    else .ok 0 s

/-- `unicode_traits::validate(...).ec != unicode_errc()` -/
def badUtf8 (b : Bytes) : Bool := (Model.JsonParser.validate b).isSome

/-- `iterate_string_chunks` (:1315-1378), entered after the 0x5f / 0x7f byte was consumed -/
def readChunks (major : Nat) : Nat → Bytes → Res Bytes
  | 0, _ => .fail .fuel
  | _, [] => .fail (.err .unexpectedEof)
  | fuel + 1, ib :: s =>
    if ib = 0xFF then .ok [] s
    else if ib / 32 ≠ major then .fail (.err .illegalChunkedString)
    else if ib % 32 = 31 then .fail (.err .illegalChunkedString)
    else match readSize (ib :: s) with
      | .fail f => .fail f
      | .ok n s1 =>
        if s1.length < n then .fail (.err .unexpectedEof)
        else if major = 3 ∧ badUtf8 (s1.take n) then .fail (.err .invalidUtf8TextString)
        else match readChunks major fuel (s1.drop n) with
          | .ok more rest => .ok (s1.take n ++ more) rest
          | .fail f => .fail f

/-- `read_byte_string_view` / `read_text_string_view`: the bytes of a major-2 / major-3 item (no UTF-8 check of the whole yet) -/
def readString (major : Nat) (fuel : Nat) (ib : Nat) (s : Bytes) : Res Bytes :=
  if ib % 32 = 31 then readChunks major fuel s
  else match readSize (ib :: s) with
    | .fail f => .fail f
    | .ok n s1 => if s1.length < n then .fail (.err .unexpectedEof) else .ok (s1.take n) (s1.drop n)

mutual
  /-- `read_item` with the container modes of `parse()` unrolled; `depth` = `nesting_depth_` on entry -/
  def item (maxDepth : Nat) : Nat → Nat → Bytes → Res Item
    | 0, _, _ => .fail .fuel
    | _, _, [] => .fail (.err .unexpectedEof)                              -- read_tags: peek at eof
    | fuel + 1, depth, ib :: s =>
      let major := ib / 32
      let info := ib % 32
      if major = 6 then .fail .skip
      else if major = 0 then (match readUint64 (ib :: s) with | .ok n r => .ok (.uint n) r | .fail f => .fail f)
      else if major = 1 then (match readInt64 (ib :: s) with | .ok i r => .ok (.nint i) r | .fail f => .fail f)
      else if major = 2 then (match readString 2 fuel ib s with | .ok b r => .ok (.bytes b) r | .fail f => .fail f)
      else if major = 3 then (match readString 3 fuel ib s with
        | .ok b r => if badUtf8 b then .fail (.err .invalidUtf8TextString) else .ok (.str b) r
        | .fail f => .fail f)
      else if major = 4 then
        if depth + 1 > maxDepth then .fail (.err .maxNestingDepthExceeded)
        else if info = 31 then (match itemsIndef maxDepth fuel (depth + 1) s with | .ok xs r => .ok (.arr xs) r | .fail f => .fail f)
        else (match readSize (ib :: s) with
          | .fail f => .fail f
          | .ok n s1 => match items maxDepth fuel (depth + 1) n s1 with | .ok xs r => .ok (.arr xs) r | .fail f => .fail f)
      else if major = 5 then
        if depth + 1 > maxDepth then .fail (.err .maxNestingDepthExceeded)
        else if info = 31 then (match membersIndef maxDepth fuel (depth + 1) s with | .ok ms r => .ok (.map ms) r | .fail f => .fail f)
        else (match readSize (ib :: s) with
          | .fail f => .fail f
          | .ok n s1 => match members maxDepth fuel (depth + 1) n s1 with | .ok ms r => .ok (.map ms) r | .fail f => .fail f)
      else if major = 7 then
        if info = 20 then .ok (.bool false) s
        else if info = 21 then .ok (.bool true) s
        else if info = 22 then .ok .null s
        else if info = 23 then .ok .undef s
        else if info = 25 then (match readUint64 (ib :: s) with | .ok b r => .ok (.half b) r | .fail f => .fail f)
        else if info = 26 ∨ info = 27 then (match readDouble (ib :: s) with | .ok b r => .ok (.dbl b) r | .fail f => .fail f)
        else .fail (.err .unknownType)                                     -- 0..19, 24, 28..30 and a stray break
      else .fail .skip                                                     -- not a uint8_t
  termination_by structural fuel => fuel
  /-- parse_mode::array: `index < length → ++index; read_item` -/
  def items (maxDepth : Nat) : Nat → Nat → Nat → Bytes → Res (List Item)
    | _, _, 0, s => .ok [] s
    | 0, _, _ + 1, _ => .fail .fuel
    | fuel + 1, depth, n + 1, s =>
      match item maxDepth fuel depth s with
      | .fail f => .fail f
      | .ok x s1 => match items maxDepth fuel depth n s1 with
        | .ok xs rest => .ok (x :: xs) rest
        | .fail f => .fail f
  termination_by structural fuel => fuel
  /-- parse_mode::indefinite_array: peek; eof → unexpected_eof; 0xff → end_array; else read_item -/
  def itemsIndef (maxDepth : Nat) : Nat → Nat → Bytes → Res (List Item)
    | 0, _, _ => .fail .fuel
    | _, _, [] => .fail (.err .unexpectedEof)
    | fuel + 1, depth, ib :: s =>
      if ib = 0xFF then .ok [] s
      else match item maxDepth fuel depth (ib :: s) with
        | .fail f => .fail f
        | .ok x s1 => match itemsIndef maxDepth fuel depth s1 with
          | .ok xs rest => .ok (x :: xs) rest
          | .fail f => .fail f
  termination_by structural fuel => fuel
  /-- parse_mode::map_key / map_value -/
  def members (maxDepth : Nat) : Nat → Nat → Nat → Bytes → Res (List (Item × Item))
    | _, _, 0, s => .ok [] s
    | 0, _, _ + 1, _ => .fail .fuel
    | fuel + 1, depth, n + 1, s =>
      match item maxDepth fuel depth s with
      | .fail f => .fail f
      | .ok k s1 => match item maxDepth fuel depth s1 with
        | .fail f => .fail f
        | .ok v s2 => match members maxDepth fuel depth n s2 with
          | .ok ms rest => .ok ((k, v) :: ms) rest
          | .fail f => .fail f
  termination_by structural fuel => fuel
  /-- parse_mode::indefinite_map_key / indefinite_map_value (the break is looked for at key positions only) -/
  def membersIndef (maxDepth : Nat) : Nat → Nat → Bytes → Res (List (Item × Item))
    | 0, _, _ => .fail .fuel
    | _, _, [] => .fail (.err .unexpectedEof)
    | fuel + 1, depth, ib :: s =>
      if ib = 0xFF then .ok [] s
      else match item maxDepth fuel depth (ib :: s) with
        | .fail f => .fail f
        | .ok k s1 => match item maxDepth fuel depth s1 with
          | .fail f => .fail f
          | .ok v s2 => match membersIndef maxDepth fuel depth s2 with
            | .ok ms rest => .ok ((k, v) :: ms) rest
            | .fail f => .fail f
  termination_by structural fuel => fuel
end

/-- `cbor_options::max_nesting_depth()` default (tied to the header by Extracted.Defaults, Props.C10X.default_nesting_depths) -/
def defaultMaxDepth : Nat := 1024

/-- parse_mode::root → read_item → accept: one item, trailing bytes are not looked at -/
def decode (maxDepth : Nat) (s : Bytes) : Res Item := item maxDepth (2 * s.length + 2) 0 s

/-! ### the visitor adaptor: keys become text, numbers / strings / containers go to the json_decoder -/

def decText (n : Nat) : Bytes := (toString n).toUTF8.toList.map (·.toNat)

def b64urlChar (i : Nat) : Nat :=
  if i < 26 then 65 + i else if i < 52 then 97 + (i - 26) else if i < 62 then 48 + (i - 52) else if i = 62 then 45 else 95

/-- `bytes_to_base64url` (byte_string.hpp:43-98 with the url alphabet, fill = 0: no padding) -/
def base64url : Bytes → Bytes
  | a :: b :: c :: rest =>
    b64urlChar (a / 4) :: b64urlChar (a % 4 * 16 + b / 16) :: b64urlChar (b % 16 * 4 + c / 64) :: b64urlChar (c % 64) :: base64url rest
  | [a, b] => [b64urlChar (a / 4), b64urlChar (a % 4 * 16 + b / 16), b64urlChar (b % 16 * 4)]
  | [a] => [b64urlChar (a / 4), b64urlChar (a % 4 * 16)]
  | [] => []

/-- keys must be text strings (the fragment the RFC reference judges) -/
def textKey : Item → Option Bytes
  | .str s => some s
  | _ => none

/-- `basic_generic_to_json_visitor` at a key position of a destination-level object -/
def renderKey : Item → Option Bytes
  | .str s => some s
  | .uint n => some (decText n)
  | .nint i => some (if i < 0 then 45 :: decText (-i).toNat else decText i.toNat)
  | .bool true => some [116, 114, 117, 101]
  | .bool false => some [102, 97, 108, 115, 101]
  | .null => some [110, 117, 108, 108]
  | .undef => some [110, 117, 108, 108]
  | .bytes b => some (base64url b)
  | _ => none                                     -- floats (write_double) and containers (JSON text buffer): not transcribed

open Spec.Cbor in
mutual
  /-- the documented value mapping: model event tree ↦ the reference decoder's value type.
      uint n ↦ int n, nint i ↦ int i, half / dbl / str / bytes with the empty tag, undefined ↦ undef, keys through `key` -/
  def toBV (key : Item → Option Bytes) : Item → Option BV
    | .null => some .null
    | .undef => some .undef
    | .bool b => some (.bool b)
    | .uint n => some (.int n "")
    | .nint i => some (.int i "")
    | .half b => some (.half b)
    | .dbl b => some (.dbl b "")
    | .str s => some (.str s "")
    | .bytes b => some (.bytes b "")
    | .arr xs => (toBVList key xs).map .arr
    | .map ms => (toBVMembers key ms).map .map
  def toBVList (key : Item → Option Bytes) : List Item → Option (List BV)
    | [] => some []
    | x :: xs => match toBV key x, toBVList key xs with
      | some v, some vs => some (v :: vs)
      | _, _ => none
  def toBVMembers (key : Item → Option Bytes) : List (Item × Item) → Option (List (Bytes × BV))
    | [] => some []
    | (k, x) :: ms => match key k, toBV key x, toBVMembers key ms with
      | some kb, some v, some vs => some ((kb, v) :: vs)
      | _, _, _ => none
end

end JV.Model.CborParser
