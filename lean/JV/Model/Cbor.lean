/-
  JV.Model.Cbor — the head writer of cbor_encoder.hpp (`write_type_and_length`, :424-455; the same ladder
  is used by write_uint64_value / write_int64_value with majors 0 and 1).
-/
import JV.Basic.JVal
namespace JV
namespace Model
namespace Cbor

/-- big-endian bytes of `n` in `w` bytes (`binary::native_to_big`) -/
def beBytes : Nat → Nat → Bytes
  | 0, _ => []
  | w + 1, n => (n / 256 ^ w % 256) :: beBytes w n

/-- `write_type_and_length(major_type << 5, length)` -/
def writeHead (major : Nat) (n : Nat) : Bytes :=
  if n ≤ 0x17 then [major * 32 + n]
  else if n ≤ 0xff then [major * 32 + 0x18, n]
  else if n ≤ 0xffff then (major * 32 + 0x19) :: beBytes 2 n
  else if n ≤ 0xffffffff then (major * 32 + 0x1a) :: beBytes 4 n
  else (major * 32 + 0x1b) :: beBytes 8 n

/-- `write_int64_value`: non-negative → major 0 with the value, negative → major 1 with -1-v -/
def writeInt (v : Int) : Bytes :=
  if v ≥ 0 then writeHead 0 v.toNat else writeHead 1 (-1 - v).toNat

end Cbor
end Model
end JV
