/-
  JV.Model.Cbor — the head writer of cbor_encoder.hpp (`write_type_and_length`, :424-455; the same ladder
  is used by write_uint64_value / write_int64_value with majors 0 and 1).
-/
import JV.Basic.JVal
namespace JV
namespace Model
namespace Cbor

/-- big-endian bytes of `n` in `w` bytes (`binary::native_to_big`) -/
def beBytes : Nat → Nat → Bytes
  | 0, _ => []
  | w + 1, n => (n / 256 ^ w % 256) :: beBytes w n

/-- `write_type_and_length(major_type << 5, length)` -/
def writeHead (major : Nat) (n : Nat) : Bytes :=
  if n ≤ 0x17 then [major * 32 + n]
  else if n ≤ 0xff then [major * 32 + 0x18, n]
  else if n ≤ 0xffff then (major * 32 + 0x19) :: beBytes 2 n
  else if n ≤ 0xffffffff then (major * 32 + 0x1a) :: beBytes 4 n
  else (major * 32 + 0x1b) :: beBytes 8 n

/-- `write_int64_value`: non-negative → major 0 with the value, negative → major 1 with -1-v -/
def writeInt (v : Int) : Bytes :=
  if v ≥ 0 then writeHead 0 v.toNat else writeHead 1 (-1 - v).toNat

end Cbor
end Model
end JV

namespace JV
namespace Model
namespace Cbor

/-- the data-model core as `encode_cbor` sees it (no tags, no packing) -/
inductive CV where
  | null
  | bool (b : Bool)
  | int (i : Int)
  | dbl (bits : Nat)
  | str (s : Bytes)
  | bytes (b : Bytes)
  | arr (xs : List CV)
  | map (ms : List (Bytes × CV))
  deriving Repr, Inhabited

/-- `(float)val` followed by `(double)valf == val` on bit patterns: the binary32 pattern if the double is exactly
    representable (NaN never compares equal) -/
def narrowF32 (b : Nat) : Option Nat :=
  let s := b / 2 ^ 63
  let e := b / 2 ^ 52 % 2048
  let m := b % 2 ^ 52
  if e = 2047 then (if m = 0 then some (s * 2 ^ 31 + 255 * 2 ^ 23) else none)
  else if e = 0 then (if m = 0 then some (s * 2 ^ 31) else none)
  else if 897 ≤ e ∧ e ≤ 1150 then                          -- unbiased exponent in [-126, 127]
    (if m % 2 ^ 29 = 0 then some (s * 2 ^ 31 + (e - 896) * 2 ^ 23 + m / 2 ^ 29) else none)
  else if 874 ≤ e ∧ e ≤ 896 then                           -- binary32 subnormal range: 2^-149 … 2^-127
    let shift := 926 - e                                    -- bits of (2^52 + m) that must be zero
    (if (2 ^ 52 + m) % 2 ^ shift = 0 then some (s * 2 ^ 31 + (2 ^ 52 + m) / 2 ^ shift) else none)
  else none

def encodeDouble (bits : Nat) : Bytes :=
  match narrowF32 bits with
  | some f => 0xfa :: beBytes 4 f
  | none => 0xfb :: beBytes 8 bits

mutual
  /-- `encode_cbor(value)` on the core: definite lengths, shortest heads, float32 when exact -/
  def encode : CV → Bytes
    | .null => [0xf6]
    | .bool b => [if b then 0xf5 else 0xf4]
    | .int i => writeInt i
    | .dbl b => encodeDouble b
    | .str s => writeHead 3 s.length ++ s
    | .bytes b => writeHead 2 b.length ++ b
    | .arr xs => writeHead 4 xs.length ++ encodeList xs
    | .map ms => writeHead 5 ms.length ++ encodeMembers ms
  def encodeList : List CV → Bytes
    | [] => []
    | x :: xs => encode x ++ encodeList xs
  def encodeMembers : List (Bytes × CV) → Bytes
    | [] => []
    | (k, x) :: ms => (writeHead 3 k.length ++ k) ++ encode x ++ encodeMembers ms
end

end Cbor
end Model
end JV
