/-
  JV.Model.Bson — the encoder of bson_encoder.hpp on the data-model core, byte for byte.

    visit_begin_object / visit_begin_array (:152-172, :196-214)
        root (buffer empty): push a frame, reserve 4 bytes for the length. NOTE the array case does the same: `encode_bson` of a root
        ARRAY is accepted and written as a document whose element names are "0", "1", … (the frame remembers it is an array).
        nested: before_value(0x03 | 0x04), then the same.
    visit_end_object / visit_end_array (:174-194, :216-236)
        push 0x00, then back-patch the reserved 4 bytes with `static_cast<uint32_t>(buffer.size() - offset)` little-endian: the
        total length INCLUDING the 4 length bytes and the trailing 0x00                                      doc
    visit_key (:238-248)        a placeholder for the type byte, the name's bytes AS THEY ARE, 0x00. A name containing 0x00 is
                                written unchanged (so a reader sees the name cut at that byte): bug-faithfully modelled, `OKb` excludes it.
                                Names are not checked for UTF-8 either.
    before_value (:569-583)     in a document: patch the placeholder with the type byte; in an array: type byte,
                                std::to_string(index++), 0x00                                                indexName
    visit_null 0x0A (no payload) | visit_bool 0x08 + 00/01 | visit_double 0x01 + the 8 bytes of the double, little-endian
    visit_string (:291-373, no tag)  0x02, int32 (length of the text + 1), the text, 0x00; the text is validated as UTF-8 first
    visit_byte_string (:375-399, no tag)  0x05, int32 (number of bytes), the subtype 0x80 ("user defined"), the bytes
    visit_int64 (:427-481, no tag)   INT32_MIN <= val <= INT32_MAX : 0x10 + 4 bytes, else 0x12 + 8 bytes (two's complement, little-endian)
    visit_uint64 (:483-540, no tag)  <= INT32_MAX : 0x10 | <= INT64_MAX : 0x12 | above: number_too_large (BSON has no uint64)
    any scalar event with an empty stack (a scalar root): expected_bson_document

  `encode` is `none` exactly for a scalar root. What the real encoder refuses beyond that (`representable`): an integer above 2^63-1,
  text or a member name that is not UTF-8, a member name holding 0x00, nesting deeper than max_nesting_depth (default 1024). The driver answers "err" for those.
  Lengths are written modulo 2^32 as the code does (`static_cast<uint32_t>`); `OKb` keeps totals below 2^31.
-/
import JV.Model.Cbor
import JV.Spec.Rfc8259
namespace JV
namespace Model
namespace Bson
open Cbor (CV)

/-- little-endian bytes of `n` in `w` bytes (`binary::native_to_little`); `n` is taken modulo 256^w -/
def leBytes : Nat → Nat → Bytes
  | 0, _ => []
  | w + 1, n => (n % 256) :: leBytes w (n / 256)

/-- the decimal digits of `n`, most significant first (fuel `f` ≥ number of digits - 1) -/
def decDigits : Nat → Nat → Bytes
  | 0, n => [48 + n % 10]
  | f + 1, n => if n < 10 then [48 + n] else decDigits f (n / 10) ++ [48 + n % 10]

/-- `std::to_string(index)`: the element name of the `i`-th array item -/
def indexName (i : Nat) : Bytes := decDigits i i

/-- int32 little-endian, two's complement -/
def int32Bytes (v : Int) : Bytes := leBytes 4 (v % 4294967296).toNat
/-- int64 little-endian, two's complement -/
def int64Bytes (v : Int) : Bytes := leBytes 8 (v % 18446744073709551616).toNat

def fitsInt32 (v : Int) : Bool := decide (-2147483648 ≤ v ∧ v ≤ 2147483647)

/-- the element type byte `before_value` is called with -/
def typeCode : CV → Nat
  | .null => 0x0A
  | .bool _ => 0x08
  | .int i => if fitsInt32 i then 0x10 else 0x12
  | .dbl _ => 0x01
  | .str _ => 0x02
  | .bytes _ => 0x05
  | .arr _ => 0x04
  | .map _ => 0x03

/-- a finished document / array: the back-patched total length, the elements, 0x00 -/
def doc (body : Bytes) : Bytes := leBytes 4 (body.length + 5) ++ body ++ [0]

mutual
  /-- the bytes after the element name -/
  def value : CV → Bytes
    | .null => []
    | .bool b => [if b then 1 else 0]
    | .int i => if fitsInt32 i then int32Bytes i else int64Bytes i
    | .dbl b => leBytes 8 b
    | .str s => leBytes 4 (s.length + 1) ++ s ++ [0]
    | .bytes b => leBytes 4 b.length ++ 0x80 :: b
    | .arr xs => doc (arrBody 0 xs)
    | .map ms => doc (mapBody ms)
  /-- the elements of an array frame whose next index is `i` -/
  def arrBody : Nat → List CV → Bytes
    | _, [] => []
    | i, x :: xs => typeCode x :: (indexName i ++ 0 :: (value x ++ arrBody (i + 1) xs))
  /-- the elements of a document frame -/
  def mapBody : List (Bytes × CV) → Bytes
    | [] => []
    | (k, x) :: ms => typeCode x :: (k ++ 0 :: (value x ++ mapBody ms))
end

/-- `encode_bson(value)`: a document for an object root AND for an array root; `expected_bson_document` for a scalar root -/
def encode : CV → Option Bytes
  | .map ms => some (doc (mapBody ms))
  | .arr xs => some (doc (arrBody 0 xs))
  | _ => none

mutual
  /-- nesting depth in containers -/
  def depth : CV → Nat
    | .arr xs => 1 + depthList xs
    | .map ms => 1 + depthMembers ms
    | _ => 0
  def depthList : List CV → Nat
    | [] => 0
    | x :: xs => max (depth x) (depthList xs)
  def depthMembers : List (Bytes × CV) → Nat
    | [] => 0
    | (_, x) :: ms => max (depth x) (depthMembers ms)
end

/-- `visit_key` (as repaired, D89): an element name is a cstring - UTF-8 text without 0x00 - or invalid_utf8_text_string -/
def nameOK (k : Bytes) : Bool := decide (0 ∉ k) && Spec.Rfc8259.validUtf8 k

mutual
  /-- no integer above 2^63-1 (number_too_large), no ill-formed text value and no member name that is not a cstring
      (invalid_utf8_text_string) anywhere -/
  def scalarsOK : CV → Bool
    | .int i => decide (i < 9223372036854775808)
    | .str s => Spec.Rfc8259.validUtf8 s
    | .arr xs => scalarsOKList xs
    | .map ms => scalarsOKMembers ms
    | _ => true
  def scalarsOKList : List CV → Bool
    | [] => true
    | x :: xs => scalarsOK x && scalarsOKList xs
  def scalarsOKMembers : List (Bytes × CV) → Bool
    | [] => true
    | (k, x) :: ms => nameOK k && scalarsOK x && scalarsOKMembers ms
end

/-- what the real encoder accepts (the driver answers "err" otherwise) -/
def representable (v : CV) : Bool := (encode v).isSome && scalarsOK v && decide (depth v ≤ 1024)

end Bson
end Model
end JV
