/-
  JV.Model.Number — integer text conversions of include/jsoncons/utility/read_number.hpp and
  write_number.hpp, as the code performs them (bounds are the C++ types' bounds, written out).
-/
import JV.Basic.JVal
namespace JV
namespace Model

inductive NumErr where
  | invalid      -- std::errc::invalid_argument
  | range        -- std::errc::result_out_of_range
  deriving Repr, DecidableEq

def isDigit (c : Nat) : Bool := 48 ≤ c && c ≤ 57

/-- the `while (cur < stop)` loop: accumulate digits, stop at the first non-digit with `invalid` -/
def accDigits : Nat → Bytes → Except NumErr Nat
  | num, [] => .ok num
  | num, c :: cs => if isDigit c then accDigits ((c - 48) + num * 10) cs else .error .invalid

/-- `dec_to_integer<uint64_t>(s, length, value)` (read_number.hpp:262-322); `max = 2^64-1`, `digits10 = 19` -/
def decToU64 (s : Bytes) : Except NumErr Nat :=
  if s.length = 0 then .error .invalid
  else
    let n := min 19 s.length
    match accDigits 0 (s.take n) with
    | .error e => .error e
    | .ok num =>
      let rest := s.drop n
      match rest with
      | [] => .ok num                                        -- cur == last
      | [c] =>
        if isDigit c then
          if num > (2 ^ 64 - 1) / 10 then .error .range
          else
            let d := c - 48
            let num10 := num * 10
            if num10 > (2 ^ 64 - 1) - d then .error .range else .ok (num10 + d)
        else .error .invalid
      | _ => .error .range                                   -- cur+1 != last

/-- `dec_to_integer<int64_t>` (read_number.hpp:324-369) -/
def decToI64 (s : Bytes) : Except NumErr Int :=
  if s.length = 0 then .error .invalid
  else
    let sign := s.head? = some 45
    let body := if sign then s.drop 1 else s
    match decToU64 body with
    | .error e => .error e
    | .ok num =>
      if sign then
        if num > 2 ^ 63 then .error .range else .ok (-(num : Int))
      else
        if num > 2 ^ 63 - 1 then .error .range else .ok (num : Int)

end Model
end JV

namespace JV
namespace Model

/-- the `do … while ((value /= 10) && (p < last))` loop of `from_integer` on a non-negative value:
    least significant digit first; `fuel` is the buffer size (255 in the code) -/
def revDigits : Nat → Nat → Bytes
  | 0, _ => []
  | fuel + 1, n => (48 + n % 10) :: (if n / 10 = 0 then [] else revDigits fuel (n / 10))

/-- the same loop on a negative value, with C++ truncating `%` and `/`: `48 - (value % 10)` -/
def revDigitsNeg : Nat → Int → Bytes
  | 0, _ => []
  | fuel + 1, v => (48 - Int.tmod v 10).toNat :: (if Int.tdiv v 10 = 0 then [] else revDigitsNeg fuel (Int.tdiv v 10))

/-- `from_integer(value, result)` (write_number.hpp:39-82) for a signed value -/
def fromInteger (v : Int) : Bytes :=
  if v < 0 then 45 :: (revDigitsNeg 255 v).reverse else (revDigits 255 v.toNat).reverse

/-- … and for an unsigned value -/
def fromUnsigned (n : Nat) : Bytes := (revDigits 255 n).reverse

/-- how the JSON parser classifies a grammatical integer literal (json_parser.hpp:2447-2541) -/
inductive IntClass where
  | i64 (v : Int) | u64 (v : Nat) | bigint (text : Bytes) | viaDouble (text : Bytes)
  deriving Repr, DecidableEq

def classifyInteger (losslessBignum : Bool) (buffer : Bytes) : IntClass :=
  if buffer.head? = some 45 then
    match decToI64 buffer with
    | .ok v => .i64 v
    | .error _ => if losslessBignum then .bigint buffer else .viaDouble buffer
  else
    match decToU64 buffer with
    | .ok v => .u64 v
    | .error _ => if losslessBignum then .bigint buffer else .viaDouble buffer

end Model
end JV
