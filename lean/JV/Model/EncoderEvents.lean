/-
  JV.Model.EncoderEvents — the binary encoders as what they are: consumers of visitor EVENTS (json_visitor.hpp: begin_array(length) /
  end_array / begin_object(length) / end_object / key / null_value / bool_value / int64_value | uint64_value / double_value /
  string_value / byte_string_value), untagged, containers announced with their length.

  CBOR, MessagePack, UBJSON (`emit`): with a definite length the encoder writes the head at begin_* and nothing at end_* (the count
  bookkeeping that makes it refuse a wrong announcement is JV.Model.EncoderLen); every other event appends its bytes to the sink at
  once. `feed` is the sink after a sequence of events.

  BSON (`Bson.step`): nothing reaches the sink before the root document ends. bson_encoder.hpp keeps ONE buffer and a stack of
  (container type, offset of the 4 reserved length bytes, offset of the pending member's type byte, next index); the model keeps, per
  open container, the bytes written after its length field (`body`) - the same bytes, addressed per frame instead of by offset:
    visit_begin_object / visit_begin_array   root: refused when the buffer is not empty (a second root after a finished one), else a
                                             new frame; nested: before_value(0x03 | 0x04) on the enclosing frame, then a new frame
    visit_end_object / visit_end_array       0x00 appended, the length back-patched (`Model.Bson.doc`); the finished bytes stay where
                                             they are (= are appended to the enclosing frame's body) or, for the root, go to the sink
    visit_key                                the name is remembered for the next value (the real code writes placeholder + name + 0x00
                                             and before_value patches the placeholder; same bytes once the value arrives)
    before_value(code)                       document frame: code, the pending name, 0x00; array frame: code, to_string(index++), 0x00
    scalars                                  refused with an empty stack (expected_bson_document); uint64 above INT64_MAX refused
                                             (number_too_large); text validated as UTF-8 (invalid_utf8_text_string)
  Outside the property's premise (a well-formed event sequence) and refused by the model: a value in a document frame with no key
  before it, `key` or `end_*` with nothing open (the real code patches a stale offset / asserts).
  The announced length of begin_object(n) / begin_array(n) is ignored by the BSON encoder (it only overrides the length-less visitors).
  max_nesting_depth (default 1024) is not modelled here: `Model.Bson.representable` has it.
-/
import JV.Model.Cbor
import JV.Model.Msgpack
import JV.Model.Ubjson
import JV.Model.Bson
import JV.Model.EncoderLen
namespace JV
namespace Model
namespace EncoderEvents
open Cbor (CV)

inductive Ev where
  | beginArr (n : Nat)
  | endArr
  | beginObj (n : Nat)
  | endObj
  | key (k : Bytes)
  | null
  | bool (b : Bool)
  | int (i : Int)          -- int64_value for i < 0, int64_value or uint64_value otherwise (the encoders write the same bytes for both)
  | dbl (bits : Nat)
  | str (s : Bytes)
  | bytes (b : Bytes)
  deriving Repr, Inhabited

mutual
  /-- the event sequence `basic_json::dump(visitor)` produces for a value: every container announced with its length -/
  def events : CV → List Ev
    | .null => [.null]
    | .bool b => [.bool b]
    | .int i => [.int i]
    | .dbl b => [.dbl b]
    | .str s => [.str s]
    | .bytes b => [.bytes b]
    | .arr xs => .beginArr xs.length :: (eventsList xs ++ [.endArr])
    | .map ms => .beginObj ms.length :: (eventsMembers ms ++ [.endObj])
  def eventsList : List CV → List Ev
    | [] => []
    | x :: xs => events x ++ eventsList xs
  def eventsMembers : List (Bytes × CV) → List Ev
    | [] => []
    | (k, x) :: ms => .key k :: (events x ++ eventsMembers ms)
end

/-- the event as the length bookkeeping (JV.Model.EncoderLen) sees it -/
def shape : Ev → EncoderLen.Ev
  | .beginArr n => .beginArr (some n)
  | .endArr => .endArr
  | .beginObj n => .beginObj (some n)
  | .endObj => .endObj
  | .key _ => .key
  | _ => .scalar

/-- the sink after the events, for an encoder that writes `emit e` at event `e` -/
def feed (emit : Ev → Bytes) : List Ev → Bytes
  | [] => []
  | e :: es => emit e ++ feed emit es

namespace Cbor
/-- cbor_encoder.hpp, definite lengths, no tags, no string packing -/
def emit : Ev → Bytes
  | .beginArr n => Model.Cbor.writeHead 4 n
  | .endArr => []
  | .beginObj n => Model.Cbor.writeHead 5 n
  | .endObj => []
  | .key k => Model.Cbor.writeHead 3 k.length ++ k
  | .null => [0xf6]
  | .bool b => [if b then 0xf5 else 0xf4]
  | .int i => Model.Cbor.writeInt i
  | .dbl b => Model.Cbor.encodeDouble b
  | .str s => Model.Cbor.writeHead 3 s.length ++ s
  | .bytes b => Model.Cbor.writeHead 2 b.length ++ b
end Cbor

namespace Msgpack
/-- msgpack_encoder.hpp -/
def emit : Ev → Bytes
  | .beginArr n => Model.Msgpack.arrHead n
  | .endArr => []
  | .beginObj n => Model.Msgpack.mapHead n
  | .endObj => []
  | .key k => Model.Msgpack.strHead k.length ++ k
  | .null => [0xc0]
  | .bool b => [if b then 0xc3 else 0xc2]
  | .int i => Model.Msgpack.writeInt i
  | .dbl b => Model.Msgpack.encodeDouble b
  | .str s => Model.Msgpack.strHead s.length ++ s
  | .bytes b => Model.Msgpack.binHead b.length ++ b
end Msgpack

namespace Ubjson
/-- ubjson_encoder.hpp (an integer above 2^63-1 is refused: `Model.Ubjson.representable`) -/
def emit : Ev → Bytes
  | .beginArr n => 91 :: 35 :: Model.Ubjson.putLength n
  | .endArr => []
  | .beginObj n => 123 :: 35 :: Model.Ubjson.putLength n
  | .endObj => []
  | .key k => Model.Ubjson.putLength k.length ++ k
  | .null => [90]
  | .bool b => [if b then 84 else 70]
  | .int i => Model.Ubjson.writeInt i
  | .dbl b => Model.Ubjson.encodeDouble b
  | .str s => 83 :: (Model.Ubjson.putLength s.length ++ s)
  | .bytes b => 91 :: 36 :: 85 :: 35 :: (Model.Ubjson.putLength b.length ++ b)
end Ubjson

namespace Bson
open Model.Bson (indexName doc leBytes int32Bytes int64Bytes fitsInt32)

structure Frame where
  isObj : Bool
  body : Bytes                -- what has been written after this container's 4 length bytes
  index : Nat                 -- array frames: the next element's name
  pending : Option Bytes      -- document frames: the name given by the last `key`
  deriving Repr

structure St where
  stack : List Frame
  sink : Bytes                -- what the root document's end has handed to the sink (the real buffer is not cleared by that)
  deriving Repr

def St.init : St := { stack := [], sink := [] }

/-- `before_value(code)`: the element's type byte and name -/
def beforeValue (code : Nat) (f : Frame) : Option Frame :=
  if f.isObj then
    match f.pending with
    | some k => some { f with body := f.body ++ code :: (k ++ [0]), pending := none }
    | none => none
  else some { f with body := f.body ++ code :: (indexName f.index ++ [0]), index := f.index + 1 }

/-- a scalar event: refused with nothing open, else type byte + name + payload into the open container -/
def scalar (code : Nat) (payload : Bytes) (st : St) : Option St :=
  match st.stack with
  | [] => none
  | f :: fs => (beforeValue code f).map fun g => { st with stack := { g with body := g.body ++ payload } :: fs }

def beginC (isObj : Bool) (st : St) : Option St :=
  let fresh : Frame := { isObj := isObj, body := [], index := 0, pending := none }
  match st.stack with
  | [] => if st.sink = [] then some { st with stack := [fresh] } else none
  | f :: fs => (beforeValue (if isObj then 0x03 else 0x04) f).map fun g => { st with stack := fresh :: g :: fs }

def endC (st : St) : Option St :=
  match st.stack with
  | [] => none
  | [f] => some { stack := [], sink := doc f.body }
  | f :: p :: fs => some { st with stack := { p with body := p.body ++ doc f.body } :: fs }

def step (st : St) : Ev → Option St
  | .beginArr _ => beginC false st
  | .beginObj _ => beginC true st
  | .endArr => endC st
  | .endObj => endC st
  | .key k =>
    match st.stack with
    | [] => none
    | f :: fs => some { st with stack := { f with pending := some k } :: fs }
  | .null => scalar 0x0A [] st
  | .bool b => scalar 0x08 [if b then 1 else 0] st
  | .int i =>
    if i ≥ 9223372036854775808 then none
    else if fitsInt32 i then scalar 0x10 (int32Bytes i) st else scalar 0x12 (int64Bytes i) st
  | .dbl b => scalar 0x01 (leBytes 8 b) st
  | .str s => if Spec.Rfc8259.validUtf8 s then scalar 0x02 (leBytes 4 (s.length + 1) ++ s ++ [0]) st else none
  | .bytes b => scalar 0x05 (leBytes 4 b.length ++ 0x80 :: b) st

def run : St → List Ev → Option St
  | st, [] => some st
  | st, e :: es =>
    match step st e with
    | none => none
    | some st' => run st' es

/-- the sink after an event sequence: `none` = an event was refused (while a container is still open the sink is empty) -/
def feed (es : List Ev) : Option Bytes := (run St.init es).map (·.sink)
end Bson

end EncoderEvents
end Model
end JV
