/-
  JV.Model.Ubjson — the encoder of ubjson_encoder.hpp on the data-model core, byte for byte.

    visit_null / visit_bool (:274, :491)      'Z' | 'T' | 'F'
    visit_int64 / visit_uint64 (:392-489)     writeInt
        val >= 0 : <= 255 'U' | <= 32767 'I' | <= 2^31-1 'l' | <= 2^63-1 'L' | above: number_too_large (UBJSON has no uint64)
        val <  0 : >= -128 'i' | >= -32768 'I' | >= -2^31 'l' | else 'L'
    put_length (:317-343)                     putLength: a length travels as an integer item - the same ladder as a non-negative value
    visit_double (:367-390)                   'd' + binary32 when `(double)(float)val == val`, else 'D' + binary64
    visit_string (:282-315), no tag           'S' putLength text
    visit_byte_string (:345-365)              '[' '$' 'U' '#' putLength bytes      (a typed array of uint8: read back as an array of integers)
    visit_begin_array(length) (:214-227)      '[' '#' putLength, the items, no end marker
    visit_begin_object(length) (:159-172)     '{' '#' putLength, then per member: putLength key-bytes (no 'S'), the value; no end marker

  Outside the domain: an integer above 2^63-1 is refused by the real encoder (`representable` says so; the driver answers "err").
  Text is assumed to be valid UTF-8 (the real encoder refuses anything else).
-/
import JV.Model.Cbor
namespace JV
namespace Model
namespace Ubjson
open Cbor (CV beBytes narrowF32)

/-- `put_length`; also what visit_int64 / visit_uint64 write for a non-negative value -/
def putLength (n : Nat) : Bytes :=
  if n ≤ 0xff then [85, n]
  else if n ≤ 0x7fff then 73 :: beBytes 2 n
  else if n ≤ 0x7fffffff then 108 :: beBytes 4 n
  else 76 :: beBytes 8 n

def writeInt (v : Int) : Bytes :=
  if v ≥ 0 then putLength v.toNat
  else if v ≥ -128 then [105, (256 + v).toNat]
  else if v ≥ -32768 then 73 :: beBytes 2 (65536 + v).toNat
  else if v ≥ -2147483648 then 108 :: beBytes 4 (4294967296 + v).toNat
  else 76 :: beBytes 8 (18446744073709551616 + v).toNat

def encodeDouble (bits : Nat) : Bytes :=
  match narrowF32 bits with
  | some f => 100 :: beBytes 4 f
  | none => 68 :: beBytes 8 bits

mutual
  /-- `encode_ubjson(value)` on the core -/
  def encode : CV → Bytes
    | .null => [90]
    | .bool b => [if b then 84 else 70]
    | .int i => writeInt i
    | .dbl b => encodeDouble b
    | .str s => 83 :: (putLength s.length ++ s)
    | .bytes b => 91 :: 36 :: 85 :: 35 :: (putLength b.length ++ b)
    | .arr xs => 91 :: 35 :: (putLength xs.length ++ encodeList xs)
    | .map ms => 123 :: 35 :: (putLength ms.length ++ encodeMembers ms)
  def encodeList : List CV → Bytes
    | [] => []
    | x :: xs => encode x ++ encodeList xs
  def encodeMembers : List (Bytes × CV) → Bytes
    | [] => []
    | (k, x) :: ms => (putLength k.length ++ k) ++ encode x ++ encodeMembers ms
end

mutual
  /-- no integer above 2^63-1 anywhere (the real encoder answers number_too_large for those) -/
  def representable : CV → Bool
    | .int i => decide (i < 9223372036854775808)
    | .arr xs => representableList xs
    | .map ms => representableMembers ms
    | _ => true
  def representableList : List CV → Bool
    | [] => true
    | x :: xs => representable x && representableList xs
  def representableMembers : List (Bytes × CV) → Bool
    | [] => true
    | (_, x) :: ms => representable x && representableMembers ms
end

end Ubjson
end Model
end JV
