/-
  JV.Model.StreamSource — `stream_source` of include/jsoncons/source.hpp (:83-465) as a state machine.

  `rest`   : what the underlying std::streambuf has not delivered yet (sgetn returns min(n, available))
  `buf`    : the unread part of the internal chunk (`data_end_ .. data_end_+remaining_`)
  `eofbit` : the stream's eof bit, set only when an sgetn came back short
  `k`      : chunk_size_
-/
import JV.Basic.JVal
namespace JV
namespace Model
namespace StreamSource

structure St where
  rest : Bytes
  buf : Bytes
  eofbit : Bool
  pos : Nat
  k : Nat
  deriving Repr, DecidableEq

def init (content : Bytes) (k : Nat) : St := { rest := content, buf := [], eofbit := false, pos := 0, k := k }

/-- `fill_buffer(chunk_, chunk_size_)`: returns the state with a fresh chunk in `buf` -/
def fill (s : St) : St :=
  if s.eofbit then { s with buf := [] }
  else
    let got := s.rest.take s.k
    { s with rest := s.rest.drop s.k, buf := got, eofbit := decide (got.length < s.k) }

/-- `read(p, length)`: (count returned, bytes copied to `p`, new state) -/
def read (s : St) (n : Nat) : Nat × Bytes × St :=
  let len := min s.buf.length n
  let out1 := s.buf.take len
  let s1 : St := { s with buf := s.buf.drop len, pos := s.pos + len }
  if n - len = 0 then (len, out1, s1)
  else if n - len < s.k then
    let s2 := fill s1
    if s2.buf.length > 0 then
      let len2 := min s2.buf.length (n - len)
      (len + len2, out1 ++ s2.buf.take len2, { s2 with buf := s2.buf.drop len2, pos := s2.pos + len2 })
    else (len, out1, s2)
  else
    if s1.eofbit then (0, out1, { s1 with buf := [] })          -- returns 0, not `len` (source.hpp:408-412)
    else
      let got := s1.rest.take (n - len)
      (len + got.length, out1 ++ got,
        { s1 with rest := s1.rest.drop (n - len), eofbit := decide (got.length < n - len), pos := s1.pos + got.length })

/-- `peek()` -/
def peek (s : St) : Option Nat × St :=
  let s1 := if s.buf.length = 0 then fill s else s
  (s1.buf.head?, s1)

/-- `read_chunk()` -/
def readChunk (s : St) : Bytes × St :=
  let s1 := if s.buf.length = 0 then fill s else s
  (s1.buf, { s1 with buf := [], pos := s1.pos + s1.buf.length })

/-- the `while (len < length)` loop of `ignore`, fuel = number of refills that can matter -/
def ignoreLoop : Nat → St → Nat → St
  | 0, s, _ => s
  | fuel + 1, s, need =>
    if need = 0 then s
    else
      let s1 := fill s
      if s1.buf.length = 0 then s1
      else
        let len2 := min s1.buf.length need
        ignoreLoop fuel { s1 with buf := s1.buf.drop len2, pos := s1.pos + len2 } (need - len2)

/-- `ignore(length)` -/
def ignore (s : St) (n : Nat) : St :=
  let len := min s.buf.length n
  let s1 : St := if s.buf.length > 0 then { s with buf := s.buf.drop len, pos := s.pos + len } else s
  let len' := if s.buf.length > 0 then len else 0
  ignoreLoop (n + 1) s1 (n - len')

/-- `eof()` -/
def eof (s : St) : Bool := s.buf.length = 0 && s.eofbit

/-- everything not yet handed to the consumer -/
def pending (s : St) : Bytes := s.buf ++ s.rest

end StreamSource
end Model
end JV
