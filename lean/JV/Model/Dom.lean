/-
  JV.Model.Dom — `basic_json` as the obvious mathematical object: a pool of values; arrays are sequences, objects are
  finite maps kept in key order (`json`, ordered = false) or insertion order (`ojson`, ordered = true); copies are
  independent because values are values. Each operation returns what the C++ call lets the caller observe.
-/
import JV.Model.Object
namespace JV
namespace Model
namespace Dom
open Assoc

inductive Op where
  | new (s : Nat) (v : JVal)
  | copy (a b : Nat)                 -- copy-construct then assign, plain assignment, move-construct from a temporary copy
  | swap (a b : Nat)
  | selfAssign (a : Nat)
  | set (a : Nat) (k : Bytes) (v : JVal)        -- insert_or_assign
  | emplace (a : Nat) (k : Bytes) (v : JVal)    -- try_emplace
  | erase (a : Nat) (k : Bytes)
  | find (a : Nat) (k : Bytes)
  | contains (a : Nat) (k : Bytes)
  | count (a : Nat) (k : Bytes)
  | at (a : Nat) (k : Bytes)
  | size (a : Nat)
  | isEmpty (a : Nat)
  | clear (a : Nat)
  | push (a : Nat) (v : JVal)
  | insAt (a i : Nat) (v : JVal)
  | eraseAt (a i : Nat)
  | eraseRange (a lo hi : Nat)
  | resize (a n : Nat)
  | resizeV (a n : Nat) (v : JVal)
  | atIdx (a i : Nat)
  | merge (a b : Nat)
  | mergeUpd (a b : Nat)
  | rangeIns (a : Nat) (items : List (Bytes × JVal))
  | iter (a : Nat)

inductive Res where
  | none | ins | upd | kept | absent | val (v : JVal) | bool (b : Bool) | nat (n : Nat) | exc | range | keys (ks : List Bytes)

def getSlot (pool : List JVal) (i : Nat) : JVal := pool.getD i .null
def setSlot (pool : List JVal) (i : Nat) (v : JVal) : List JVal := pool.set i v

/-- `object.merge(source)`: members of source whose key is absent (try_emplace each, in source order) -/
def mergeInto (ordered : Bool) : List (Bytes × JVal) → List (Bytes × JVal) → List (Bytes × JVal)
  | ms, [] => ms
  | ms, (k, v) :: src => mergeInto ordered (tryEmplace ordered k v ms) src

def mergeUpdInto (ordered : Bool) : List (Bytes × JVal) → List (Bytes × JVal) → List (Bytes × JVal)
  | ms, [] => ms
  | ms, (k, v) :: src => mergeUpdInto ordered (insertOrAssign ordered k v ms) src

def step (ordered : Bool) (pool : List JVal) : Op → Res × List JVal
  | .new s v => (.none, setSlot pool s v)
  | .copy a b => (.none, setSlot pool a (getSlot pool b))
  | .swap a b => (.none, setSlot (setSlot pool a (getSlot pool b)) b (getSlot pool a))
  | .selfAssign _ => (.none, pool)
  | .set a k v =>
    match getSlot pool a with
    | .obj ms => ((if (find k ms).isSome then .upd else .ins), setSlot pool a (.obj (insertOrAssign ordered k v ms)))
    | _ => (.exc, pool)
  | .emplace a k v =>
    match getSlot pool a with
    | .obj ms => ((if (find k ms).isSome then .kept else .ins), setSlot pool a (.obj (tryEmplace ordered k v ms)))
    | _ => (.exc, pool)
  | .erase a k =>
    match getSlot pool a with
    | .obj ms => (.none, setSlot pool a (.obj (erase k ms)))
    | _ => (.exc, pool)
  | .find a k =>
    match getSlot pool a with
    | .obj ms => ((match find k ms with | some v => .val v | none => .absent), pool)
    | _ => (.exc, pool)
  | .contains a k =>
    match getSlot pool a with
    | .obj ms => (.bool (find k ms).isSome, pool)
    | _ => (.bool false, pool)
  | .count a k =>
    match getSlot pool a with
    | .obj ms => (.nat (if (find k ms).isSome then 1 else 0), pool)
    | _ => (.nat 0, pool)
  | .at a k =>
    match getSlot pool a with
    | .obj ms => ((match find k ms with | some v => .val v | none => .exc), pool)
    | _ => (.exc, pool)
  | .size a =>
    match getSlot pool a with
    | .obj ms => (.nat ms.length, pool)
    | .arr xs => (.nat xs.length, pool)
    | _ => (.nat 0, pool)
  | .isEmpty a =>
    match getSlot pool a with
    | .obj ms => (.bool ms.isEmpty, pool)
    | .arr xs => (.bool xs.isEmpty, pool)
    | .str s => (.bool s.isEmpty, pool)
    | .null => (.bool false, pool)
    | _ => (.bool false, pool)
  | .clear a =>
    match getSlot pool a with
    | .obj _ => (.none, setSlot pool a (.obj []))
    | .arr _ => (.none, setSlot pool a (.arr []))
    | _ => (.none, pool)
  | .push a v =>
    match getSlot pool a with
    | .arr xs => (.none, setSlot pool a (.arr (xs ++ [v])))
    | _ => (.exc, pool)
  | .insAt a i v =>
    match getSlot pool a with
    | .arr xs => if i > xs.length then (.range, pool) else (.none, setSlot pool a (.arr (insertAt i v xs)))
    | _ => (.exc, pool)
  | .eraseAt a i =>
    match getSlot pool a with
    | .arr xs => if i ≥ xs.length then (.range, pool) else (.none, setSlot pool a (.arr (xs.eraseIdx i)))
    | _ => (.exc, pool)
  | .eraseRange a lo hi =>
    match getSlot pool a with
    | .arr xs => if lo > hi ∨ hi > xs.length then (.range, pool) else (.none, setSlot pool a (.arr (xs.take lo ++ xs.drop hi)))
    | .obj ms => if lo > hi ∨ hi > ms.length then (.range, pool) else (.none, setSlot pool a (.obj (ms.take lo ++ ms.drop hi)))   -- erase(first, last) on object_range()
    | _ => (.exc, pool)
  | .resize a n =>
    match getSlot pool a with
    | .arr xs => (.none, setSlot pool a (.arr (xs.take n ++ List.replicate (n - xs.length) (.obj []))))   -- new elements are default `Json()`
    | _ => (.none, pool)
  | .resizeV a n v =>
    match getSlot pool a with
    | .arr xs => (.none, setSlot pool a (.arr (xs.take n ++ List.replicate (n - xs.length) v)))
    | _ => (.none, pool)
  | .atIdx a i =>
    match getSlot pool a with
    | .arr xs => ((match xs[i]? with | some v => .val v | none => .exc), pool)
    | _ => (.exc, pool)
  | .merge a b =>
    match getSlot pool a, getSlot pool b with
    | .obj ms, .obj src => (.none, setSlot pool a (.obj (mergeInto ordered ms src)))
    | _, _ => (.exc, pool)
  | .mergeUpd a b =>
    match getSlot pool a, getSlot pool b with
    | .obj ms, .obj src => (.none, setSlot pool a (.obj (mergeUpdInto ordered ms src)))
    | _, _ => (.exc, pool)
  | .rangeIns a items =>
    match getSlot pool a with
    | .obj ms => (.none, setSlot pool a (.obj (mergeInto ordered ms items)))     -- unique keys: the first occurrence wins, existing members stay
    | _ => (.exc, pool)
  | .iter a =>
    match getSlot pool a with
    | .obj ms => (.keys (keys ms), pool)
    | _ => (.exc, pool)

def run (ordered : Bool) : List JVal → List Op → List Res × List JVal
  | pool, [] => ([], pool)
  | pool, op :: ops =>
    let r := step ordered pool op
    let rest := run ordered r.2 ops
    (r.1 :: rest.1, rest.2)

end Dom
end Model
end JV
