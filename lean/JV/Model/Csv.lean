/-
  JV.Model.Csv — the field layer of jsoncons' CSV codec.

  Encoder: `basic_csv_encoder::write_string_value` + `escape_string` (csv_encoder.hpp): a field is quoted under
  quote_style all / nonnumeric, and under minimal when it contains the field delimiter, the quote character, CR or LF; inside
  any field the quote character is preceded by the quote-escape character, and inside a quoted field the escape character
  (when it differs from the quote character) escapes itself.

  Parser: the states `unquoted_string`, `quoted_string`, `escaped_value` of `basic_csv_parser::parse_some` (csv_parser.hpp), for one
  field starting at a field boundary; the scan stops in front of the terminator (field delimiter, CR, LF) or at the end of input.
  Options outside this core (comments, trimming, subfields, column types) are at their defaults.
-/
import JV.Basic.JVal
namespace JV
namespace Model
namespace Csv

structure Opts where
  delim : Nat
  quote : Nat
  esc : Nat
  deriving Repr

inductive Style where
  | minimal | all | nonnumeric | none
  deriving DecidableEq, Repr

def isTerm (o : Opts) (c : Nat) : Bool := c = o.delim || c = 10 || c = 13

def needsQuote (o : Opts) (s : Bytes) : Bool := s.any fun c => c = o.delim || c = o.quote || c = 10 || c = 13

/-- `escape_string` -/
def escapeField (o : Opts) (quoted : Bool) : Bytes → Bytes
  | [] => []
  | c :: cs =>
    if c = o.quote then o.esc :: o.quote :: escapeField o quoted cs
    else if quoted && c = o.esc then o.esc :: o.esc :: escapeField o quoted cs
    else c :: escapeField o quoted cs

def quotes (o : Opts) (st : Style) (s : Bytes) : Bool :=
  st = .all || st = .nonnumeric || (st = .minimal && needsQuote o s)

/-- `write_string_value` -/
def writeField (o : Opts) (st : Style) (s : Bytes) : Bytes :=
  if quotes o st s then o.quote :: (escapeField o true s ++ [o.quote]) else escapeField o false s

/-- outcome of scanning: a result, the input ended inside a quoted field (the real parser then drops that field and ends the
    record without an error), or a character that may not follow an escape character / a closing quote -/
inductive Scan (α : Type) where
  | ok (a : α)
  | eof
  | bad
  deriving Repr

/-- `quoted_string` / `escaped_value`: after the opening quote; gives the text and what follows the closing quote -/
def scanQuoted (o : Opts) : Bytes → Bytes → Scan (Bytes × Bytes)
  | _, [] => .eof
  | acc, [c] =>
    if c = o.esc then (if o.esc = o.quote then .ok (acc, []) else .eof)     -- input ends in `escaped_value`
    else if c = o.quote then .ok (acc, [])
    else .eof
  | acc, c :: d :: rest =>
    if c = o.esc then
      if d = o.quote then scanQuoted o (acc ++ [d]) rest
      else if o.esc = o.quote then .ok (acc, d :: rest)                     -- that was the closing quote
      else if d = o.esc then scanQuoted o (acc ++ [d]) rest
      else .bad                                                             -- invalid_escaped_char
    else if c = o.quote then .ok (acc, d :: rest)
    else scanQuoted o (acc ++ [c]) (d :: rest)

/-- `unquoted_string`: up to the terminator; a quote character switches to a quoted field and discards what came before -/
def scanUnquoted (o : Opts) : Bytes → Bytes → Scan (Bool × Bytes × Bytes)
  | acc, [] => .ok (false, acc, [])
  | acc, c :: cs =>
    if isTerm o c then .ok (false, acc, c :: cs)
    else if c = o.quote then
      match scanQuoted o [] cs with
      | .ok r => .ok (true, r.1, r.2)
      | .eof => .eof
      | .bad => .bad
    else scanUnquoted o (acc ++ [c]) cs

/-- one field from a field boundary: (was it quoted, its text, the input from the terminator on) -/
def scanField (o : Opts) (input : Bytes) : Scan (Bool × Bytes × Bytes) := scanUnquoted o [] input

/-- the characters in force are distinct enough to be told apart: delimiter, quote and line breaks differ, and a separate
    escape character is none of them -/
def Opts.Compatible (o : Opts) : Prop :=
  o.delim ≠ o.quote ∧ o.delim ≠ 10 ∧ o.delim ≠ 13 ∧ o.quote ≠ 10 ∧ o.quote ≠ 13 ∧
    (o.esc = o.quote ∨ (o.esc ≠ o.delim ∧ o.esc ≠ 10 ∧ o.esc ≠ 13))

/-! ### rows -/

def writeRow (o : Opts) (st : Style) : List Bytes → Bytes
  | [] => []
  | [f] => writeField o st f
  | f :: g :: fs => writeField o st f ++ o.delim :: writeRow o st (g :: fs)

/-- the parser's walk along one record: fields separated by the delimiter, up to CR, LF or the end of input. `eof`: the input
    ends inside a quoted field (the real parser then drops the field or reports a conversion error; not modelled) -/
def scanRow (o : Opts) : Nat → Bytes → Scan (List Bytes × Bytes)
  | 0, _ => .bad
  | fuel + 1, input =>
    match scanField o input with
    | .bad => .bad
    | .eof => .eof
    | .ok (_, text, rest) =>
      match rest with
      | [] => .ok ([text], [])
      | t :: r =>
        if t = o.delim then
          match scanRow o fuel r with
          | .ok x => .ok (text :: x.1, x.2)
          | .eof => .eof
          | .bad => .bad
        else if isTerm o t then .ok ([text], t :: r)
        else .bad

end Csv
end Model
end JV
