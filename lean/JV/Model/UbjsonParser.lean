/-
  JV.Model.UbjsonParser — bug-faithful functional model of include/jsoncons_ext/ubjson/ubjson_parser.hpp
  (basic_ubjson_parser), the whole item grammar.

  What is transcribed (line numbers of ubjson_parser.hpp at /repo HEAD):
    parse()                  :150-346   the parse_mode state stack (root / accept / array / strongly_typed_array / indefinite_array /
                                        map_key+map_value / strongly_typed_map_key+value / indefinite_map_key+value) flattened into
                                        `value` / `container` / `typedItems` / `countedItems` / `openItems` / `typedMembers` /
                                        `countedMembers` / `openMembers`, structural recursion on a fuel argument; the indefinite modes
                                        count `++index > max_items_` BEFORE the item (a no-op takes a slot)
    read_type_and_value()    :348-365   one type byte (unexpected_eof when there is none), then read_value
    read_value()             :367-584   Z, N (no-op: NO visitor event, in every position), T, F, i, U, I, l, L, d, D, C (one byte, validated
                                        as UTF-8: a byte >= 0x80 is invalid_utf8_text_string), S, H (high-precision number: get_length, the
                                        bytes, NOT validated, delivered as a string tagged bigint when `is_base10` (-?[0-9]+) else bigdec),
                                        `[`, `{`, `default: unknown_type`
    begin_array/begin_object :586-775   `++nesting_depth_ > max_nesting_depth_` first; peek (unexpected_eof); `$` type then `#` required
                                        (count_required_after_type; unexpected_eof when the bytes stop) → the strongly typed modes, whose
                                        element type may itself be `[` / `{` / N / anything (read_value gets the byte as is);
                                        `#` count → counted; `length > max_items_` → max_items_exceeded; otherwise indefinite
    get_length()             :789-915   i U I l L (negative → length_is_negative; other markers → length_must_be_integer; number_too_large
                                        cannot happen with a 64-bit size_t)
    read_key()               :917-944   get_length — ANY error of it (also unexpected_eof) is replaced by key_expected —, the bytes
                                        (unexpected_eof), UTF-8 validation (invalid_utf8_text_string)
  A no-op has no event, so as an array element it just is not there (the array is shorter than its count); as a member value or at the
  root the json_decoder is left with a key without a value / no value: the event tree keeps a `.noop` placeholder there and the driver
  answers `skip` (`toBV … drop = true` drops the placeholders in arrays and has no image for the others).
-/
import JV.Basic.JVal
import JV.Model.JsonParser
import JV.Model.CborParser
import JV.Spec.Cbor
namespace JV.Model.UbjsonParser
open JV

/-- the `ubjson_errc` values the parser can raise (source_error needs a failing stream, number_too_large a 32-bit size_t: not modelled) -/
inductive Err where
  | unexpectedEof | countRequiredAfterType | lengthIsNegative | lengthMustBeInteger | unknownType | invalidUtf8TextString
  | maxNestingDepthExceeded | keyExpected | maxItemsExceeded
  deriving DecidableEq, Repr

/-- numbering of `enum class ubjson_errc` (ubjson_error.hpp; tied to the header by Extracted.ubjsonErrc, Props.C07.ubj_model_error_codes) -/
def Err.code : Err → Nat
  | .unexpectedEof => 1
  | .countRequiredAfterType => 3
  | .lengthIsNegative => 4
  | .lengthMustBeInteger => 5
  | .unknownType => 6
  | .invalidUtf8TextString => 7
  | .maxNestingDepthExceeded => 11
  | .keyExpected => 12
  | .maxItemsExceeded => 13

def Err.name : Err → String
  | .unexpectedEof => "unexpected_eof"
  | .countRequiredAfterType => "count_required_after_type"
  | .lengthIsNegative => "length_is_negative"
  | .lengthMustBeInteger => "length_must_be_integer"
  | .unknownType => "unknown_type"
  | .invalidUtf8TextString => "invalid_utf8_text_string"
  | .maxNestingDepthExceeded => "max_nesting_depth_exceeded"
  | .keyExpected => "key_expected"
  | .maxItemsExceeded => "max_items_exceeded"

inductive Fail where
  | err (e : Err)      -- the parser sets `ec`
  | fuel               -- the fuel of the structural recursion ran out (an artefact of the model; the driver prints `fuel`)
  deriving DecidableEq, Repr

inductive Res (α : Type) where
  | ok (v : α) (rest : Bytes)
  | fail (f : Fail)
  deriving Repr

/-- the tree of events the parser reports -/
inductive Item where
  | null
  | noop                           -- N in a position that has a slot (counted / typed element, member value, root): no event at all
  | bool (b : Bool)
  | uint (n : Nat)                 -- visitor.uint64_value (U)
  | nint (i : Int)                 -- visitor.int64_value (i I l L)
  | dbl (bits : Nat)
  | str (s : Bytes)
  | big (s : Bytes) (isInt : Bool) -- H: string_value(…, is_base10 ? semantic_tag::bigint : semantic_tag::bigdec)
  | arr (xs : List Item)
  | map (ms : List (Bytes × Item))
  deriving Repr, Inhabited

structure Opts where
  maxDepth : Nat := 1024
  maxItems : Nat := 16777216

/-- `source_.read(buf, w) != w → unexpected_eof`, else `binary::big_to_native<T>(buf, w)` -/
def readBE (w : Nat) (s : Bytes) : Res Nat :=
  if s.length < w then .fail (.err .unexpectedEof) else .ok (Model.CborParser.bigToNative (s.take w)) (s.drop w)

/-- `big_to_native<intN_t>`: the two's complement reading of a `w`-byte pattern -/
def asSigned (w : Nat) (n : Nat) : Int := if n < 2 ^ (8 * w - 1) then (n : Int) else (n : Int) - (2 ^ (8 * w) : Nat)

/-- `source_.read_span(len, …)`: `data.size() != len → unexpected_eof` -/
def readSpan (n : Nat) (s : Bytes) : Res Bytes :=
  if s.length < n then .fail (.err .unexpectedEof) else .ok (s.take n) (s.drop n)

/-- `unicode_traits::validate(...).ec != unicode_errc()` -/
def badUtf8 (b : Bytes) : Bool := (Model.JsonParser.validate b).isSome

def isDigit (c : Nat) : Bool := 48 ≤ c ∧ c ≤ 57

/-- `jsoncons::is_base10` (utility/read_number.hpp:163-214): -?[0-9]+ -/
def isBase10 : Bytes → Bool
  | [] => false
  | 45 :: ds => !ds.isEmpty && ds.all isDigit
  | ds => ds.all isDigit

/-- the width of an integer marker's payload: i U I l L -/
def intWidth (m : Nat) : Option Nat :=
  if m = 105 ∨ m = 85 then some 1 else if m = 73 then some 2 else if m = 108 then some 4 else if m = 76 then some 8 else none

/-- a signed length of width `w` (get_length: `val >= 0 ? length = val : length_is_negative`) -/
def signedLength (w : Nat) (s : Bytes) : Res Nat :=
  match readBE w s with
  | .fail f => .fail f
  | .ok v r => if asSigned w v < 0 then .fail (.err .lengthIsNegative) else .ok (asSigned w v).toNat r

/-- `get_length` (:789-915) -/
def getLength : Bytes → Res Nat
  | [] => .fail (.err .unexpectedEof)
  | t :: s =>
    if t = 85 then readBE 1 s
    else if t = 105 then signedLength 1 s
    else if t = 73 then signedLength 2 s
    else if t = 108 then signedLength 4 s
    else if t = 76 then signedLength 8 s
    else .fail (.err .lengthMustBeInteger)

/-- `read_key` (:917-944) -/
def readKey (s : Bytes) : Res Bytes :=
  match getLength s with
  | .fail (.err _) => .fail (.err .keyExpected)
  | .fail .fuel => .fail .fuel
  | .ok n r => match readSpan n r with
    | .fail f => .fail f
    | .ok d r1 => if badUtf8 d then .fail (.err .invalidUtf8TextString) else .ok d r1

/-- a fixed-width number: `w` bytes big-endian, then `mk` -/
def number (w : Nat) (s : Bytes) (mk : Nat → Item) : Res Item :=
  match readBE w s with
  | .fail f => .fail f
  | .ok v r => .ok (mk v) r

/-- S after the marker -/
def readStr (s : Bytes) : Res Item :=
  match getLength s with
  | .fail f => .fail f
  | .ok n r => match readSpan n r with
    | .fail f => .fail f
    | .ok d r1 => if badUtf8 d then .fail (.err .invalidUtf8TextString) else .ok (.str d) r1

/-- H after the marker -/
def readBig (s : Bytes) : Res Item :=
  match getLength s with
  | .fail f => .fail f
  | .ok n r => match readSpan n r with
    | .fail f => .fail f
    | .ok d r1 => .ok (.big d (isBase10 d)) r1

/-- C after the marker -/
def readChar : Bytes → Res Item
  | [] => .fail (.err .unexpectedEof)
  | c :: r => if badUtf8 [c] then .fail (.err .invalidUtf8TextString) else .ok (.str [c]) r

def wrapArr : Res (List Item) → Res Item
  | .ok xs r => .ok (.arr xs) r
  | .fail f => .fail f
def wrapMap : Res (List (Bytes × Item)) → Res Item
  | .ok ms r => .ok (.map ms) r
  | .fail f => .fail f

mutual
  /-- `read_value(type)`; `depth` = `nesting_depth_` on entry -/
  def value (o : Opts) : Nat → Nat → Nat → Bytes → Res Item
    | 0, _, _, _ => .fail .fuel
    | fuel + 1, depth, m, s =>
      if m = 90 then .ok .null s
      else if m = 78 then .ok .noop s
      else if m = 84 then .ok (.bool true) s
      else if m = 70 then .ok (.bool false) s
      else if m = 105 then number 1 s fun v => .nint (asSigned 1 v)
      else if m = 85 then number 1 s .uint
      else if m = 73 then number 2 s fun v => .nint (asSigned 2 v)
      else if m = 108 then number 4 s fun v => .nint (asSigned 4 v)
      else if m = 76 then number 8 s fun v => .nint (asSigned 8 v)
      else if m = 100 then number 4 s fun v => .dbl (Spec.Cbor.f32ToF64 v)
      else if m = 68 then number 8 s .dbl
      else if m = 67 then readChar s
      else if m = 83 then readStr s
      else if m = 72 then readBig s
      else if m = 91 then container o fuel depth true s
      else if m = 123 then container o fuel depth false s
      else .fail (.err .unknownType)
  termination_by structural fuel => fuel
  /-- `begin_array` / `begin_object` after the `[` / `{` -/
  def container (o : Opts) : Nat → Nat → Bool → Bytes → Res Item
    | 0, _, _, _ => .fail .fuel
    | fuel + 1, depth, isArr, s =>
      if depth + 1 > o.maxDepth then .fail (.err .maxNestingDepthExceeded)
      else match s with
      | [] => .fail (.err .unexpectedEof)
      | 36 :: ty :: 35 :: r =>
        (match getLength r with
         | .fail f => .fail f
         | .ok n r1 =>
           if n > o.maxItems then .fail (.err .maxItemsExceeded)
           else if isArr then wrapArr (typedItems o fuel (depth + 1) ty n r1) else wrapMap (typedMembers o fuel (depth + 1) ty n r1))
      | 36 :: _ :: _ :: _ => .fail (.err .countRequiredAfterType)
      | 36 :: _ => .fail (.err .unexpectedEof)
      | 35 :: r =>
        (match getLength r with
         | .fail f => .fail f
         | .ok n r1 =>
           if n > o.maxItems then .fail (.err .maxItemsExceeded)
           else if isArr then wrapArr (countedItems o fuel (depth + 1) n r1) else wrapMap (countedMembers o fuel (depth + 1) n r1))
      | _ => if isArr then wrapArr (openItems o fuel (depth + 1) 0 s) else wrapMap (openMembers o fuel (depth + 1) 0 s)
  termination_by structural fuel => fuel
  /-- parse_mode::strongly_typed_array -/
  def typedItems (o : Opts) : Nat → Nat → Nat → Nat → Bytes → Res (List Item)
    | _, _, _, 0, s => .ok [] s
    | 0, _, _, _ + 1, _ => .fail .fuel
    | fuel + 1, depth, ty, n + 1, s =>
      match value o fuel depth ty s with
      | .fail f => .fail f
      | .ok x s1 => match typedItems o fuel depth ty n s1 with
        | .ok xs r => .ok (x :: xs) r
        | .fail f => .fail f
  termination_by structural fuel => fuel
  /-- parse_mode::array -/
  def countedItems (o : Opts) : Nat → Nat → Nat → Bytes → Res (List Item)
    | _, _, 0, s => .ok [] s
    | 0, _, _ + 1, _ => .fail .fuel
    | _ + 1, _, _ + 1, [] => .fail (.err .unexpectedEof)
    | fuel + 1, depth, n + 1, m :: s =>
      match value o fuel depth m s with
      | .fail f => .fail f
      | .ok x s1 => match countedItems o fuel depth n s1 with
        | .ok xs r => .ok (x :: xs) r
        | .fail f => .fail f
  termination_by structural fuel => fuel
  /-- parse_mode::indefinite_array; `idx` = state.index -/
  def openItems (o : Opts) : Nat → Nat → Nat → Bytes → Res (List Item)
    | 0, _, _, _ => .fail .fuel
    | _ + 1, _, _, [] => .fail (.err .unexpectedEof)
    | fuel + 1, depth, idx, m :: s =>
      if m = 93 then .ok [] s
      else if idx + 1 > o.maxItems then .fail (.err .maxItemsExceeded)
      else if m = 78 then openItems o fuel depth (idx + 1) s
      else match value o fuel depth m s with
        | .fail f => .fail f
        | .ok x s1 => match openItems o fuel depth (idx + 1) s1 with
          | .ok xs r => .ok (x :: xs) r
          | .fail f => .fail f
  termination_by structural fuel => fuel
  /-- parse_mode::strongly_typed_map_key / strongly_typed_map_value -/
  def typedMembers (o : Opts) : Nat → Nat → Nat → Nat → Bytes → Res (List (Bytes × Item))
    | _, _, _, 0, s => .ok [] s
    | 0, _, _, _ + 1, _ => .fail .fuel
    | fuel + 1, depth, ty, n + 1, s =>
      match readKey s with
      | .fail f => .fail f
      | .ok k r1 => match value o fuel depth ty r1 with
        | .fail f => .fail f
        | .ok x s1 => match typedMembers o fuel depth ty n s1 with
          | .ok ms r => .ok ((k, x) :: ms) r
          | .fail f => .fail f
  termination_by structural fuel => fuel
  /-- parse_mode::map_key / map_value -/
  def countedMembers (o : Opts) : Nat → Nat → Nat → Bytes → Res (List (Bytes × Item))
    | _, _, 0, s => .ok [] s
    | 0, _, _ + 1, _ => .fail .fuel
    | fuel + 1, depth, n + 1, s =>
      match readKey s with
      | .fail f => .fail f
      | .ok k r1 => match r1 with
        | [] => .fail (.err .unexpectedEof)
        | m :: r2 => match value o fuel depth m r2 with
          | .fail f => .fail f
          | .ok x s1 => match countedMembers o fuel depth n s1 with
            | .ok ms r => .ok ((k, x) :: ms) r
            | .fail f => .fail f
  termination_by structural fuel => fuel
  /-- parse_mode::indefinite_map_key / indefinite_map_value -/
  def openMembers (o : Opts) : Nat → Nat → Nat → Bytes → Res (List (Bytes × Item))
    | 0, _, _, _ => .fail .fuel
    | _ + 1, _, _, [] => .fail (.err .unexpectedEof)
    | fuel + 1, depth, idx, c :: s =>
      if c = 125 then .ok [] s
      else if idx + 1 > o.maxItems then .fail (.err .maxItemsExceeded)
      else match readKey (c :: s) with
        | .fail f => .fail f
        | .ok k r1 => match r1 with
          | [] => .fail (.err .unexpectedEof)
          | m :: r2 => match value o fuel depth m r2 with
            | .fail f => .fail f
            | .ok x s1 => match openMembers o fuel depth (idx + 1) s1 with
              | .ok ms r => .ok ((k, x) :: ms) r
              | .fail f => .fail f
  termination_by structural fuel => fuel
end

/-- parse_mode::root → read_type_and_value → accept: one item, trailing bytes are not looked at -/
def decodeWith (o : Opts) (fuel : Nat) : Bytes → Res Item
  | [] => .fail (.err .unexpectedEof)
  | m :: r => value o fuel 0 m r

/-- the reference decoder's fuel (Spec.Ubjson.decode) -/
def decode (o : Opts) (s : Bytes) : Res Item := decodeWith o (3 * s.length + 3) s

open Spec.Cbor in
mutual
  /-- the value mapping: model event tree ↦ the reference decoder's value type. `drop = true`: what the json_decoder ends up with (no-op
      placeholders among array elements are not there; as a member value or at the root: no image); `drop = false`: no image for any
      no-op placeholder. `bigs = true`: H as the tagged string the json_decoder stores; `bigs = false`: no image (the reference leaves
      the rendering of a high-precision number unjudged). -/
  def toBV (drop bigs : Bool) : Item → Option BV
    | .null => some .null
    | .noop => none
    | .bool b => some (.bool b)
    | .uint n => some (.int n "")
    | .nint i => some (.int i "")
    | .dbl b => some (.dbl b "")
    | .str s => some (.str s "")
    | .big s isInt => if bigs then some (.str s (if isInt then "bigint" else "bigdec")) else none
    | .arr xs => (toBVList drop bigs xs).map .arr
    | .map ms => (toBVMembers drop bigs ms).map .map
  def toBVList (drop bigs : Bool) : List Item → Option (List BV)
    | [] => some []
    | .noop :: xs => if drop then toBVList drop bigs xs else none
    | x :: xs => match toBV drop bigs x, toBVList drop bigs xs with
      | some v, some vs => some (v :: vs)
      | _, _ => none
  def toBVMembers (drop bigs : Bool) : List (Bytes × Item) → Option (List (Bytes × BV))
    | [] => some []
    | (k, x) :: ms => match toBV drop bigs x, toBVMembers drop bigs ms with
      | some v, some vs => some ((k, v) :: vs)
      | _, _ => none
end

end JV.Model.UbjsonParser
