/-
  JV.Model.JsonParser — the state machine of include/jsoncons/json_parser.hpp (`basic_json_parser<char>`,
  default error handler, push mode), one arm per (parse_state, character) cell of `parse_some_` (:590-1612),
  the number sub-automaton `parse_number` (:1727-1949), the string sub-automaton `parse_string`
  (:1951-2326) with `append_to_codepoint`, surrogate pairing and `unicode_traits::convert`, the end-of-input
  branch (:602-652), `check_done` (:521-543), `begin/end_object/array` (:351-480), `end_string_value`
  with `unicode_traits::validate` / `is_legal_utf8` (unicode_traits.hpp:304-345, 1146-1172), `after_value`,
  `begin_member_or_element`.

  The model is the parser as it behaves when it is handed ONE CHARACTER PER `update()`: every
  "Buffer exhausted" branch is then taken after every character, so each suspended state of the C++
  code is a state of the model, and the look-ahead fast paths (`parse_true/false/null` comparing 4-5
  characters at once, `skip_space` looking at the character after a CR, the run-scanning loops of
  `parse_string`/`parse_number`) are what the correspondence check compares it with: the real parser
  under every chunking must reach the model's state after the same prefix (hook `verif_inspect`) and
  the model's outcome at the end.

  Error codes are the numeric values of `json_errc` (json_error.hpp). Numbers are kept as their literal
  text (`Ev.int`, `Ev.frac`); turning the literal into int64/uint64/double/bigint text is C04's model.
-/
import JV.Basic.JVal
namespace JV
namespace Model
namespace JsonParser

/-- `enum class parse_state` in declaration order -/
inductive PS where
  | root | start | accept | slash | slashSlash | slashStar | slashStarStar | expectCommaOrEnd | object
  | expectMemberNameOrEnd | expectMemberName | expectColon | expectValueOrEnd | expectValue | array
  | string | memberName | number | n | nu | nul | t | tr | tru | f | fa | fal | fals | cr | done
  deriving DecidableEq, Repr, Inhabited

/-- `enum class parse_string_state` -/
inductive SS where
  | text | escape | u1 | u2 | u3 | u4 | pair1 | pair2 | u5 | u6 | u7 | u8
  deriving DecidableEq, Repr, Inhabited

/-- `enum class parse_number_state` -/
inductive NS where
  | minus | zero | integer | fraction1 | fraction2 | exp1 | exp2 | exp3
  deriving DecidableEq, Repr, Inhabited

/-- what the visitor is told -/
inductive Ev where
  | beginObject | endObject | beginArray | endArray
  | key (s : Bytes)
  | str (s : Bytes) (noesc : Bool)
  | null
  | bool (b : Bool)
  | int (lit : Bytes)      -- `end_integer_value`: the literal in `buffer_`
  | frac (lit : Bytes)     -- `end_fraction_value`
  deriving DecidableEq, Repr, Inhabited

structure Cfg where
  maxDepth : Nat
  comments : Bool
  trailingComma : Bool
  deriving Repr

structure St where
  st : PS
  stack : List PS          -- `state_stack_`, head = back()
  level : Nat
  ns : NS
  ss : SS
  buf : Bytes
  cp : Nat
  cp2 : Nat
  noesc : Bool             -- `escape_tag_ == semantic_tag::noesc`
  evs : List Ev            -- most recent first
  err : Option Nat         -- `ec` (json_errc value) once set; the parser has stopped
  deriving Repr

def init : St :=
  { st := .start, stack := [.root], level := 0, ns := .minus, ss := .text, buf := [], cp := 0, cp2 := 0,
    noesc := true, evs := [], err := none }

/-! ### json_errc -/
def eUnexpectedEof := 1
def eSyntax := 3
def eExtraCharacter := 4
def eMaxDepth := 5
def eSingleQuote := 6
def eIllegalCharInString := 7
def eExtraComma := 8
def eExpectedKey := 9
def eExpectedValue := 10
def eInvalidValue := 11
def eExpectedColon := 12
def eIllegalControl := 13
def eIllegalEscaped := 14
def eExpectedSurrogatePair := 15
def eInvalidUnicodeEscape := 17
def eLeadingZero := 18
def eInvalidNumber := 19
def eExpectedCommaOrRbrace := 20
def eExpectedCommaOrRbracket := 21
def eUnexpectedRbracket := 22
def eUnexpectedRbrace := 23
def eIllegalComment := 24
def eBadContinuation := 25
def eOverLong := 26
def eIllegalCodepoint := 27
def eUnexpectedCharacter := 31

/-! ### character classes -/
/-- `JSONCONS_ILLEGAL_CONTROL_CHARACTER` (json_parser.hpp:33) -/
def isCtl (c : Nat) : Bool := c < 32 && c != 9 && c != 10 && c != 13
def isDigit (c : Nat) : Bool := 48 ≤ c && c ≤ 57
def isExp (c : Nat) : Bool := c = 101 || c = 69

def hexVal (c : Nat) : Option Nat :=
  if 48 ≤ c ∧ c ≤ 57 then some (c - 48)
  else if 97 ≤ c ∧ c ≤ 102 then some (c - 87)
  else if 65 ≤ c ∧ c ≤ 70 then some (c - 55)
  else none

/-! ### unicode_traits -/
def isCont (b : Nat) : Bool := b / 64 = 2            -- (b & 0xC0) == 0x80

/-- `unicode_traits::validate` on UTF-8 (`trailing_bytes_for_utf8` + `is_legal_utf8`), with the error already
    translated by `translate_conv_errc`: `none` = valid -/
def validate : Bytes → Option Nat
  | [] => none
  | a :: rest =>
    if a < 0x80 then validate rest
    else if a < 0xC0 then some eIllegalCodepoint
    else if a < 0xE0 then
      match rest with
      | b :: r =>
        if !isCont b then some eBadContinuation
        else if a < 0xC2 then some eIllegalCodepoint
        else validate r
      | [] => some eIllegalCodepoint
    else if a < 0xF0 then
      match rest with
      | b :: c :: r =>
        if !isCont c then some eBadContinuation
        else if !isCont b then some eBadContinuation
        else if a = 0xE0 ∧ b < 0xA0 then some eIllegalCodepoint
        else if a = 0xED ∧ b > 0x9F then some eIllegalCodepoint
        else validate r
      | _ => some eIllegalCodepoint
    else if a < 0xF8 then
      match rest with
      | b :: c :: d :: r =>
        if !isCont d then some eBadContinuation
        else if !isCont c then some eBadContinuation
        else if !isCont b then some eBadContinuation
        else if a = 0xF0 ∧ b < 0x90 then some eIllegalCodepoint
        else if a = 0xF4 ∧ b > 0x8F then some eIllegalCodepoint
        else if a > 0xF4 then some eIllegalCodepoint
        else validate r
      | _ => some eIllegalCodepoint
    else if a < 0xFC then
      match rest with
      | _ :: _ :: _ :: _ :: _ => some eOverLong
      | _ => some eIllegalCodepoint
    else
      match rest with
      | _ :: _ :: _ :: _ :: _ :: _ => some eOverLong
      | _ => some eIllegalCodepoint

/-- `unicode_traits::convert(&cp, 1, buffer_)` (UTF-32 → UTF-8, strict): a surrogate value appends nothing
    (the parser ignores the result code) -/
def convert (cp : Nat) : Bytes :=
  if 0xD800 ≤ cp ∧ cp ≤ 0xDFFF then []
  else if cp < 0x80 then [cp]
  else if cp < 0x800 then [0xC0 + cp / 64, 0x80 + cp % 64]
  else if cp < 0x10000 then [0xE0 + cp / 4096, 0x80 + cp / 64 % 64, 0x80 + cp % 64]
  else if cp ≤ 0x10FFFF then [0xF0 + cp / 262144, 0x80 + cp / 4096 % 64, 0x80 + cp / 64 % 64, 0x80 + cp % 64]
  else [0xEF, 0xBF, 0xBD]

/-! ### small steps -/
def fail (s : St) (code : Nat) : St := { s with err := some code }
def emit (s : St) (e : Ev) : St := { s with evs := e :: s.evs }
def push (s : St) (p : PS) : St := { s with stack := p :: s.stack }
def parent (s : St) : PS := s.stack.headD .root
def popTo (s : St) : St := { s with st := s.stack.headD .root, stack := s.stack.tail }   -- `state_ = pop_state()`

/-- `after_value` -/
def afterValue (s : St) : St :=
  match parent s with
  | .array | .object => { s with st := .expectCommaOrEnd }
  | .root => { s with st := .accept }
  | _ => fail s eSyntax

/-- the literals test `level_ == 0` instead of `parent()` -/
def afterLiteral (s : St) : St :=
  if s.level = 0 then { s with st := .accept } else { s with st := .expectCommaOrEnd }

def endInteger (s : St) : St := afterValue (emit s (.int s.buf))
def endFraction (s : St) : St := afterValue (emit s (.frac s.buf))

/-- `end_string_value` -/
def endString (s : St) : St :=
  match validate s.buf with
  | some code => fail s code
  | none =>
    match parent s with
    | .memberName => { (emit s (.key s.buf)) with st := .expectColon, stack := s.stack.tail }
    | .object | .array => { (emit s (.str s.buf s.noesc)) with st := .expectCommaOrEnd }
    | .root => { (emit s (.str s.buf s.noesc)) with st := .accept }
    | _ => fail s eSyntax

def beginObject (cfg : Cfg) (s : St) : St :=
  if s.level + 1 > cfg.maxDepth then fail { s with level := s.level + 1 } eMaxDepth
  else emit { s with level := s.level + 1, stack := .object :: s.stack, st := .expectMemberNameOrEnd } .beginObject

def beginArray (cfg : Cfg) (s : St) : St :=
  if s.level + 1 > cfg.maxDepth then fail { s with level := s.level + 1 } eMaxDepth
  else emit { s with level := s.level + 1, stack := .array :: s.stack, st := .expectValueOrEnd } .beginArray

def endObject (s : St) : St :=
  if s.level < 1 then fail s eUnexpectedRbrace
  else
    match parent s with
    | .object =>
      let s1 := emit { s with stack := s.stack.tail, level := s.level - 1 } .endObject
      if s.level - 1 = 0 then { s1 with st := .accept } else { s1 with st := .expectCommaOrEnd }
    | .array => fail (popTo s) eExpectedCommaOrRbracket
    | _ => fail (popTo s) eUnexpectedRbrace

def endArray (s : St) : St :=
  if s.level < 1 then fail s eUnexpectedRbracket
  else
    match parent s with
    | .array =>
      let s1 := emit { s with stack := s.stack.tail, level := s.level - 1 } .endArray
      if s.level - 1 = 0 then { s1 with st := .accept } else { s1 with st := .expectCommaOrEnd }
    | .object => fail (popTo s) eExpectedCommaOrRbrace
    | _ => fail (popTo s) eUnexpectedRbracket

/-- `begin_member_or_element` -/
def beginMemberOrElement (s : St) : St :=
  match parent s with
  | .object => { s with st := .expectMemberName }
  | .array => { s with st := .expectValue }
  | .root => s
  | _ => fail s eSyntax

def startString (s : St) : St := { s with st := .string, ss := .text, noesc := true, buf := [] }

/-- the arms shared by `start`, `expect_value` and `expect_value_or_end`: a character that begins a value -/
def valueStart (cfg : Cfg) (s : St) (c : Nat) : Option St :=
  if c = 123 then some (beginObject cfg s)
  else if c = 91 then some (beginArray cfg s)
  else if c = 34 then some (startString s)
  else if c = 45 then some { s with st := .number, ns := .minus, buf := [45] }
  else if c = 48 then some { s with st := .number, ns := .zero, buf := [48] }
  else if 49 ≤ c ∧ c ≤ 57 then some { s with st := .number, ns := .integer, buf := [c] }
  else if c = 110 then some { s with st := .n }
  else if c = 116 then some { s with st := .t }
  else if c = 102 then some { s with st := .f }
  else none

/-- white space and `/` in the states that skip space: `some` if the character was one of those -/
def spaceOrSlash (s : St) (c : Nat) : Option St :=
  if c = 32 ∨ c = 9 ∨ c = 10 then some s
  else if c = 13 then some { (push s s.st) with st := .cr }
  else if c = 47 then some { (push s s.st) with st := .slash }
  else none

/-- `parse_number`: the new state and whether the character was consumed -/
def stepNumber (s : St) (c : Nat) : St × Bool :=
  let app : St := { s with buf := s.buf ++ [c] }
  match s.ns with
  | .minus =>
    if 49 ≤ c ∧ c ≤ 57 then ({ app with ns := .integer }, true)
    else if c = 48 then ({ app with ns := .zero }, true)
    else (fail s eInvalidNumber, true)
  | .zero =>
    if c = 46 then ({ app with ns := .fraction1 }, true)
    else if isExp c then ({ app with ns := .exp1 }, true)
    else if isDigit c then (fail s eLeadingZero, true)
    else (endInteger s, false)
  | .integer =>
    if isDigit c then (app, true)
    else if c = 46 then ({ app with ns := .fraction1 }, true)
    else if isExp c then ({ app with ns := .exp1 }, true)
    else (endInteger s, false)
  | .fraction1 =>
    if isDigit c then ({ app with ns := .fraction2 }, true) else (fail s eInvalidNumber, true)
  | .fraction2 =>
    if isDigit c then (app, true)
    else if isExp c then ({ app with ns := .exp1 }, true)
    else (endFraction s, false)
  | .exp1 =>
    if c = 45 ∨ c = 43 then ({ app with ns := .exp2 }, true)
    else if isDigit c then ({ app with ns := .exp3 }, true)
    else (fail s eInvalidNumber, true)
  | .exp2 =>
    if isDigit c then ({ app with ns := .exp3 }, true) else (fail s eInvalidNumber, true)
  | .exp3 =>
    if isDigit c then (app, true) else (endFraction s, false)

/-- one hex digit of a `\u` escape (`append_to_codepoint`) -/
def hexStep (s : St) (c : Nat) (first : Bool) (k : St → Nat → St) : St :=
  match hexVal c with
  | none => fail s eInvalidUnicodeEscape
  | some h => k s ((if first then 0 else s.cp) * 16 + h)

def hexStep2 (s : St) (c : Nat) (first : Bool) (k : St → Nat → St) : St :=
  match hexVal c with
  | none => fail s eInvalidUnicodeEscape
  | some h => k s ((if first then 0 else s.cp2) * 16 + h)

/-- `parse_string` -/
def stepString (s : St) (c : Nat) : St :=
  match s.ss with
  | .text =>
    if isCtl c then fail s eIllegalControl
    else if c = 10 ∨ c = 13 ∨ c = 9 then fail s eIllegalCharInString
    else if c = 92 then { s with ss := .escape, noesc := false }
    else if c = 34 then endString s
    else { s with buf := s.buf ++ [c] }
  | .escape =>
    let lit (b : Nat) : St := { s with buf := s.buf ++ [b], ss := .text }
    if c = 34 then lit 34 else if c = 92 then lit 92 else if c = 47 then lit 47
    else if c = 98 then lit 8 else if c = 102 then lit 12 else if c = 110 then lit 10
    else if c = 114 then lit 13 else if c = 116 then lit 9
    else if c = 117 then { s with cp := 0, ss := .u1 }
    else fail s eIllegalEscaped
  | .u1 => hexStep s c true fun s v => { s with cp := v, ss := .u2 }
  | .u2 => hexStep s c false fun s v => { s with cp := v, ss := .u3 }
  | .u3 => hexStep s c false fun s v => { s with cp := v, ss := .u4 }
  | .u4 => hexStep s c false fun s v =>
      if 0xD800 ≤ v ∧ v ≤ 0xDBFF then { s with cp := v, ss := .pair1 }
      else { s with cp := v, buf := s.buf ++ convert v, ss := .text }
  | .pair1 => if c = 92 then { s with cp2 := 0, ss := .pair2 } else fail s eExpectedSurrogatePair
  | .pair2 => if c = 117 then { s with ss := .u5 } else fail s eExpectedSurrogatePair
  | .u5 => hexStep2 s c true fun s v => { s with cp2 := v, ss := .u6 }
  | .u6 => hexStep2 s c false fun s v => { s with cp2 := v, ss := .u7 }
  | .u7 => hexStep2 s c false fun s v => { s with cp2 := v, ss := .u8 }
  | .u8 => hexStep2 s c false fun s v =>
      { s with cp2 := v, buf := s.buf ++ convert (0x10000 + (s.cp % 1024) * 1024 + v % 1024), ss := .text }

/-- a literal state expecting exactly `want` -/
def lit (s : St) (c want : Nat) (next : PS) : St :=
  if c = want then { s with st := next } else fail s eInvalidValue

/-- one cell of `parse_some_` (plus `check_done` for the states after the value): the new state and
    whether the character was consumed -/
def stepChar (cfg : Cfg) (s : St) (c : Nat) : St × Bool :=
  match s.st with
  | .start =>
    if isCtl c then (fail s eIllegalControl, true)
    else match spaceOrSlash s c with
      | some s' => (s', true)
      | none =>
        match valueStart cfg s c with
        | some s' => (s', true)
        | none =>
          if c = 125 then (fail s eUnexpectedRbrace, true)
          else if c = 93 then (fail s eUnexpectedRbracket, true)
          else (fail s eSyntax, true)
  | .expectCommaOrEnd =>
    if isCtl c then (fail s eIllegalControl, true)
    else match spaceOrSlash s c with
      | some s' => (s', true)
      | none =>
        if c = 125 then (endObject s, true)
        else if c = 93 then (endArray s, true)
        else if c = 44 then (beginMemberOrElement s, true)
        else match parent s with
          | .array => (fail s eExpectedCommaOrRbracket, true)
          | .object => (fail s eExpectedCommaOrRbrace, true)
          | _ => (fail s eUnexpectedCharacter, true)
  | .expectMemberNameOrEnd =>
    if isCtl c then (fail s eIllegalControl, true)
    else match spaceOrSlash s c with
      | some s' => (s', true)
      | none =>
        if c = 125 then (endObject s, true)
        else if c = 34 then (startString (push s .memberName), true)
        else if c = 39 then (fail s eSingleQuote, true)
        else (fail s eExpectedKey, true)
  | .expectMemberName =>
    if isCtl c then (fail s eIllegalControl, true)
    else match spaceOrSlash s c with
      | some s' => (s', true)
      | none =>
        if c = 34 then (startString (push s .memberName), true)
        else if c = 125 then (if cfg.trailingComma then endObject s else fail s eExtraComma, true)
        else if c = 39 then (fail s eSingleQuote, true)
        else (fail s eExpectedKey, true)
  | .expectColon =>
    if isCtl c then (fail s eIllegalControl, true)
    else match spaceOrSlash s c with
      | some s' => (s', true)
      | none =>
        if c = 58 then ({ s with st := .expectValue }, true)
        else (fail s eExpectedColon, true)
  | .expectValue =>
    if isCtl c then (fail s eIllegalControl, true)
    else match spaceOrSlash s c with
      | some s' => (s', true)
      | none =>
        match valueStart cfg s c with
        | some s' => (s', true)
        | none =>
          if c = 93 then
            (if parent s = .array then (if cfg.trailingComma then endArray s else fail s eExtraComma)
             else fail s eExpectedValue, true)
          else if c = 39 then (fail s eSingleQuote, true)
          else (fail s eExpectedValue, true)
  | .expectValueOrEnd =>
    if isCtl c then (fail s eIllegalControl, true)
    else match spaceOrSlash s c with
      | some s' => (s', true)
      | none =>
        match valueStart cfg s c with
        | some s' => (s', true)
        | none =>
          if c = 93 then (endArray s, true)
          else if c = 39 then (fail s eSingleQuote, true)
          else (fail s eExpectedValue, true)
  | .string => (stepString s c, true)
  | .number => stepNumber s c
  | .t => (lit s c 114 .tr, true)
  | .tr => (lit s c 117 .tru, true)
  | .tru => (if c = 101 then afterLiteral (emit s (.bool true)) else fail s eInvalidValue, true)
  | .f => (lit s c 97 .fa, true)
  | .fa => (lit s c 108 .fal, true)
  | .fal => (lit s c 115 .fals, true)
  | .fals => (if c = 101 then afterLiteral (emit s (.bool false)) else fail s eInvalidValue, true)
  | .n => (lit s c 117 .nu, true)
  | .nu => (lit s c 108 .nul, true)
  | .nul => (if c = 108 then afterLiteral (emit s .null) else fail s eInvalidValue, true)
  | .slash =>
    if c = 42 then (if cfg.comments then { s with st := .slashStar } else fail s eIllegalComment, true)
    else if c = 47 then (if cfg.comments then { s with st := .slashSlash } else fail s eIllegalComment, true)
    else (fail s eSyntax, true)
  | .slashStar =>
    if c = 13 then ({ (push s s.st) with st := .cr }, true)
    else if c = 42 then ({ s with st := .slashStarStar }, true)
    else (s, true)
  | .slashSlash =>
    if c = 13 ∨ c = 10 then (popTo s, false) else (s, true)
  | .slashStarStar =>
    if c = 47 then (popTo s, true) else if c = 42 then (s, true) else ({ s with st := .slashStar }, true)
  | .cr => if c = 10 then (popTo s, true) else (popTo s, false)
  | .accept | .done =>
    -- `parse_some_` stops at `accept`; the caller then runs `check_done` over the rest of the input
    if c = 32 ∨ c = 9 ∨ c = 10 ∨ c = 13 then ({ s with st := .done }, true) else (fail s eExtraCharacter, true)
  | .root | .object | .array | .memberName => (fail s eSyntax, true)       -- `JSONCONS_ASSERT(false)`: never a current state

/-- feed one character: a character that ends a number, a `//` comment or a CR state is looked at again in the
    state that follows (at most twice) -/
def feedChar (cfg : Cfg) (s : St) (c : Nat) : St :=
  if s.err.isSome then s
  else
    let r1 := stepChar cfg s c
    if r1.2 || r1.1.err.isSome then r1.1
    else
      let r2 := stepChar cfg r1.1 c
      if r2.2 || r2.1.err.isSome then r2.1
      else (stepChar cfg r2.1 c).1

def feed (cfg : Cfg) (s : St) (bs : Bytes) : St := bs.foldl (feedChar cfg) s

/-- one call of `parse_some_` on exhausted input (:602-652) -/
def finish1 (s : St) : St :=
  match s.st with
  | .number =>
    match s.ns with
    | .zero | .integer => endInteger s
    | .fraction2 | .exp3 => endFraction s
    | _ => fail s eUnexpectedEof
  | .accept => { s with st := .done }
  | .done => s
  | .start => fail s eUnexpectedEof
  | .cr => if parent s = .start then fail (popTo s) eUnexpectedEof else popTo s
  | _ => fail s eUnexpectedEof

/-- `finish_parse`: call `parse_some_` until it has stopped -/
def finish (s : St) : St :=
  if s.err.isSome then s
  else
    let s1 := finish1 s
    if s1.err.isSome || s1.st = .done then s1
    else
      let s2 := finish1 s1
      if s2.err.isSome || s2.st = .done then s2 else finish1 s2

/-- the outcome of parsing a complete text delivered in any way -/
def run (cfg : Cfg) (bs : Bytes) : St := finish (feed cfg init bs)

/-- …delivered as a list of chunks -/
def runChunks (cfg : Cfg) (chunks : List Bytes) : St := finish (chunks.foldl (feed cfg) init)

def accepted (s : St) : Bool := s.err.isNone && s.st = .done

end JsonParser
end Model
end JV
