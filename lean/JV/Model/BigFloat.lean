/-
  JV.Model.BigFloat — CBOR tag 5 (RFC 8949 §3.4.4, "bigfloat": [exponent, mantissa], value = mantissa × 2^exponent) as jsoncons carries it:
  a string tagged `semantic_tag::bigfloat` whose text is  [-]0x<hex mantissa>p[-]<hex exponent>.

    * `render`          = cbor_parser.hpp read_bigfloat (:1795-1944): the text the decoder produces for a pair (mantissa, exponent);
    * `parse`           = cbor_encoder.hpp write_hexfloat_value (:680-856): the state machine that reads such a text back
                          (integer mantissas only: the '.' fraction form is not produced by the decoder and is not modelled);
    * `encodeBigfloat`  = the bytes write_hexfloat_value emits: tag 5, array(2), exponent as an integer, mantissa as an integer when it
                          fits int64 and as a bignum (tag 2 / tag 3, write_bignum) otherwise;
    * `decodeBigfloat`  = RFC 8949 §3.4.4 read directly off the bytes (reference).
-/
import JV.Model.Cbor
import JV.Spec.Cbor
namespace JV
namespace Model
namespace BigFloat
open Model.Cbor

/-- uppercase hexadecimal digit (`integer_to_hex`, `write_string_hex`) -/
def hexDigit (d : Nat) : Nat := if d < 10 then 48 + d else 55 + d

/-- value of a hexadecimal digit character, either case -/
def hexVal (c : Nat) : Option Nat :=
  if 48 ≤ c ∧ c ≤ 57 then some (c - 48)
  else if 65 ≤ c ∧ c ≤ 70 then some (c - 55)
  else if 97 ≤ c ∧ c ≤ 102 then some (c - 87)
  else none

/-- hexadecimal digits of `n`, most significant first, no leading zeros ("0" for zero) -/
def toHex (n : Nat) : Bytes :=
  if _h : n < 16 then [hexDigit n] else toHex (n / 16) ++ [hexDigit (n % 16)]
decreasing_by omega

/-- left fold of hexadecimal digits onto an accumulator; `none` on a character that is not a digit -/
def ofHexAcc : Nat → Bytes → Option Nat
  | acc, [] => some acc
  | acc, c :: cs => match hexVal c with
    | some d => ofHexAcc (acc * 16 + d) cs
    | none => none

/-- at least one digit -/
def ofHex (s : Bytes) : Option Nat := if s = [] then none else ofHexAcc 0 s

def signed (neg : Bool) (n : Nat) : Int := if neg then -(n : Int) else (n : Int)

/-- `[-]0x<hex>p[-]<hex>` -/
def render (m e : Int) : Bytes :=
  (if m < 0 then [45] else []) ++ [48, 120] ++ toHex m.natAbs ++ [112] ++ (if e < 0 then [45] else []) ++ toHex e.natAbs

/-- the part of `s` before the first 'p' / 'P', and what follows it (`none`: there is no exponent part) -/
def splitP : Bytes → Bytes × Option Bytes
  | [] => ([], none)
  | c :: cs => if c = 112 ∨ c = 80 then ([], some cs) else ((c :: (splitP cs).1), (splitP cs).2)

/-- the exponent part after 'p': `+` is skipped, `-` and digits are collected and handed to hex_to_integer; nothing collected means 0 -/
def parseExp : Option Bytes → Option Int
  | none => some 0
  | some [] => some 0
  | some (43 :: ds) => if ds = [] then some 0 else (ofHexAcc 0 ds).map (fun n => (n : Int))
  | some (45 :: ds) => (ofHex ds).map (fun n => -(n : Int))
  | some ds => (ofHexAcc 0 ds).map (fun n => (n : Int))

/-- `write_hexfloat_value`'s reading of the text (integer mantissa; the '.' fraction form is not modelled and reads as `none`) -/
def parse (s : Bytes) : Option (Int × Int) :=
  let neg := match s with | 45 :: _ => true | _ => false
  let body := match s with | 45 :: r => r | r => r
  match body with
  | 48 :: x :: rest =>
    if x = 120 ∨ x = 88 then
      match ofHex (splitP rest).1, parseExp (splitP rest).2 with
      | some m, some e => some (signed neg m, e)
      | _, _ => none
    else none
  | _ => none

/-- minimal big-endian magnitude bytes (`write_bytes_be`) -/
def beMag (n : Nat) : Bytes :=
  if _h : n < 256 then [n] else beMag (n / 256) ++ [n % 256]
decreasing_by omega

/-- `write_bignum`: tag 2 + magnitude for n ≥ 0, tag 3 + magnitude of (-1 - n) for n < 0 -/
def writeBignum (n : Int) : Bytes :=
  if n ≥ 0 then 0xc2 :: (writeHead 2 (beMag n.toNat).length ++ beMag n.toNat)
  else 0xc3 :: (writeHead 2 (beMag (-1 - n).toNat).length ++ beMag (-1 - n).toNat)

def fitsInt64 (v : Int) : Bool := decide (-(2 ^ 63 : Int) ≤ v ∧ v < (2 ^ 63 : Int))

/-- bytes written for the bigfloat (mantissa, exponent); `none` when the exponent does not fit int64 (hex_to_integer fails, error code) -/
def encodeBigfloat (m e : Int) : Option Bytes :=
  if fitsInt64 e then
    some (0xc5 :: 0x82 :: (writeInt e ++ (if fitsInt64 m then writeInt m else writeBignum m)))
  else none

/-- text → bytes, as `encode_cbor` of a bigfloat-tagged string does it -/
def encodeText (s : Bytes) : Option Bytes :=
  match parse s with
  | some (m, e) => encodeBigfloat m e
  | none => none

/-- an integer item: major 0 or 1 (reference) -/
def readInt (s : Bytes) : Option (Int × Bytes) :=
  match s with
  | [] => none
  | ib :: tail =>
    if ib / 32 = 0 then (match Spec.Cbor.readArg (ib % 32) tail with | some (n, r) => some ((n : Int), r) | none => none)
    else if ib / 32 = 1 then (match Spec.Cbor.readArg (ib % 32) tail with | some (n, r) => some (-1 - (n : Int), r) | none => none)
    else none

/-- a mantissa: integer or bignum (tag 2 / 3 on a definite byte string) -/
def readMantissa (s : Bytes) : Option (Int × Bytes) :=
  match s with
  | 0xc2 :: ib :: tail =>
    if ib / 32 = 2 then (match Spec.Cbor.readArg (ib % 32) tail with
      | some (n, r) => if r.length < n then none else some ((Spec.Cbor.beVal (r.take n) : Int), r.drop n)
      | none => none) else none
  | 0xc3 :: ib :: tail =>
    if ib / 32 = 2 then (match Spec.Cbor.readArg (ib % 32) tail with
      | some (n, r) => if r.length < n then none else some (-1 - (Spec.Cbor.beVal (r.take n) : Int), r.drop n)
      | none => none) else none
  | _ => readInt s

/-- RFC 8949 §3.4.4 on the bytes: tag 5, array of two, exponent then mantissa -/
def decodeBigfloat (s : Bytes) : Option ((Int × Int) × Bytes) :=
  match s with
  | 0xc5 :: 0x82 :: r =>
    (match readInt r with
     | some (e, r1) => (match readMantissa r1 with
       | some (m, r2) => some ((m, e), r2)
       | none => none)
     | none => none)
  | _ => none

end BigFloat
end Model
end JV
