/-
  JV.Model.Compare — `basic_json::compare` (include/jsoncons/basic_json.hpp, `int compare(const basic_json& rhs) const noexcept`)
  and the six relational operators built on it (`a == b` is `a.compare(b) == 0`, `a < b` is `a.compare(b) < 0`, …), bug-faithfully.

  Part 1 (kept from the first version): the four integer arms on their own (`Stored`, `compareStored`), with the C++ unsigned
  conversions written out. Part 2: the whole kind × kind switch on `CVal`.

  What `CVal` covers: every storage kind `compare` switches on — null, boolean, int64, uint64, empty_object (`json()`), float64,
  half_float, short_str / long_str (one constructor: the storage kind is a function of the length, `short_string_storage::max_length`
  = 13 for `char`), byte_str, array, object (sorted `json` objects: a vector of key/value pairs in key order).
  NOT in the model's domain (stated, not hidden):
    * strings carrying a number tag (bigint / bigdec / bigfloat / float128): `compare` sends those through `as_double()`, i.e.
      decimal-text-to-double conversion (recorded finding D7); every other tag is ignored by `compare`, so `CVal` carries no tag;
    * `json_ref` / `const_json_ref` storage (a reference is compared as the value it refers to);
    * the identity shortcut `this == &rhs → 0` (the model compares values, i.e. two distinct objects).
  The result is the SIGN (-1, 0, 1) of the C++ result: the C++ returns kind-index differences and `string_view::compare` values whose
  magnitude is unspecified; every operator only looks at the sign.

  Doubles are bit patterns (Nat < 2^64). `r = a - b; r == 0 ? 0 : (r < 0.0 ? -1 : 1)` is modelled by `subSign`: for finite IEEE-754
  doubles under round-to-nearest with gradual underflow the difference is zero iff the operands are equal (±0 alike), otherwise it has
  the sign of the exact difference (overflow gives ±inf of that sign); a NaN operand, or inf - inf of equal sign, gives NaN, and NaN
  falls through both tests to `1`. `static_cast<double>(int64/uint64)` is round-to-nearest-even, written out on the bits (`natToDouble`).
-/
import JV.Basic.JVal
namespace JV
namespace Model
namespace Compare

/-! ### Part 1: the integer arms alone -/

/-- a stored integer: `json_storage_kind::int64` or `::uint64` -/
inductive Stored where
  | i64 (v : Int)      -- -2^63 ≤ v < 2^63
  | u64 (v : Nat)      -- v < 2^64
  deriving Repr, DecidableEq

def toU64 (v : Int) : Nat := (v % (2 ^ 64 : Int)).toNat

def Stored.val : Stored → Int
  | .i64 v => v
  | .u64 v => v

def Stored.WF : Stored → Prop
  | .i64 v => -(2 ^ 63 : Int) ≤ v ∧ v < 2 ^ 63
  | .u64 v => v < 2 ^ 64

/-- `compare(lhs, rhs)` for the four integer storage combinations -/
def compareStored : Stored → Stored → Int
  | .i64 a, .i64 b => if a = b then 0 else if a < b then -1 else 1
  | .i64 a, .u64 b =>
    if a < 0 then -1
    else if toU64 a = b then 0
    else if toU64 a < b then -1 else 1
  | .u64 a, .i64 b =>
    if b < 0 then 1
    else if a = toU64 b then 0
    else if a < toU64 b then -1 else 1
  | .u64 a, .u64 b => if a = b then 0 else if a < b then -1 else 1

/-! ### Part 2: the whole switch -/

/-- a `json` value as far as `compare` can tell values apart -/
inductive CVal where
  | null
  | bool (b : Bool)
  | i64 (v : Int)                     -- -2^63 ≤ v < 2^63
  | u64 (v : Nat)                     -- v < 2^64
  | emptyObj                          -- `json()`: json_storage_kind::empty_object
  | dbl (bits : Nat)                  -- IEEE-754 binary64 bit pattern, < 2^64
  | half (bits : Nat)                 -- IEEE-754 binary16 bit pattern, < 2^16
  | str (s : Bytes)                   -- short_str if s.length ≤ 13, long_str otherwise; no number tag
  | bstr (s : Bytes)
  | arr (xs : List CVal)
  | obj (ms : List (Bytes × CVal))    -- json_storage_kind::object, members in key order
  deriving Repr, Inhabited

/-- `short_string_storage::max_length` for `char`: (2*8 - 2)/1 - 1 -/
abbrev shortMax : Nat := 13

/-- `static_cast<int>(storage_kind())` -/
def kind : CVal → Int
  | .null => 0
  | .bool _ => 1
  | .i64 _ => 2
  | .u64 _ => 3
  | .emptyObj => 4
  | .dbl _ => 5
  | .half _ => 6
  | .str s => if s.length ≤ shortMax then 7 else 15
  | .bstr _ => 12
  | .obj _ => 13
  | .arr _ => 14

def sgn (i : Int) : Int := if i = 0 then 0 else if i < 0 then -1 else 1

/-- `string_view::compare` / `byte_string_view::compare`: memcmp on the common prefix (unsigned bytes), then the lengths -/
def bytesCmp : Bytes → Bytes → Int
  | [], [] => 0
  | [], _ :: _ => -1
  | _ :: _, [] => 1
  | a :: as, b :: bs => if a < b then -1 else if b < a then 1 else bytesCmp as bs

/-! #### binary64 on the bits -/

def dSign (b : Nat) : Nat := b / 2 ^ 63 % 2
def dExp (b : Nat) : Nat := b / 2 ^ 52 % 2048
def dMant (b : Nat) : Nat := b % 2 ^ 52
def isNaN (b : Nat) : Bool := dExp b == 2047 && dMant b != 0
def isInf (b : Nat) : Bool := dExp b == 2047 && dMant b == 0
/-- exponent and mantissa fields together: monotone in the magnitude of a non-NaN double -/
def dMag (b : Nat) : Nat := b % 2 ^ 63
/-- an integer that orders the non-NaN doubles as their values do (-0.0 and +0.0 both 0) -/
def dKey (b : Nat) : Int := if dSign b = 0 then (dMag b : Int) else -(dMag b : Int)

/-- the double arms: `a == b ? 0 : (a < b ? -1 : 1)` for float64 x float64 and half x half, and `r = a - b; r == 0 ? 0 : (r < 0.0 ? -1 : 1)`
    for the arms where one operand is a converted integer (always finite, so the difference is never inf - inf) -/
def subSign (a b : Nat) : Int :=
  if isNaN a || isNaN b then 1                               -- neither `==` nor `<` holds with a NaN operand
  else if dKey a = dKey b then 0                             -- (D88, fixed: equal infinities used to give 1, inf - inf being NaN)
  else if dKey a < dKey b then -1 else 1

/-- largest k ≤ start with 2^k ≤ n (0 if none) -/
def ilog2From : Nat → Nat → Nat
  | 0, _ => 0
  | k + 1, n => if 2 ^ (k + 1) ≤ n then k + 1 else ilog2From k n

def ilog2 (n : Nat) : Nat := ilog2From 63 n

/-- `static_cast<double>(n)` for 0 ≤ n < 2^64, round to nearest, ties to even; the result's bit pattern -/
def natToDouble (n : Nat) : Nat :=
  if n = 0 then 0
  else
    let k := ilog2 n
    if k ≤ 52 then (1023 + k) * 2 ^ 52 + (n - 2 ^ k) * 2 ^ (52 - k)          -- exact
    else
      let e := k - 52                                                        -- bits that do not fit
      let q := n / 2 ^ e
      let r := n % 2 ^ e
      let h := 2 ^ (e - 1)
      let q1 := if h < r ∨ (r = h ∧ q % 2 = 1) then q + 1 else q
      (1023 + k) * 2 ^ 52 + (q1 - 2 ^ 52)         -- q1 = 2^53 carries into the exponent field, as the hardware does

/-- `static_cast<double>(int64_t)` -/
def i64ToDouble (v : Int) : Nat := if v < 0 then 2 ^ 63 + natToDouble (-v).toNat else natToDouble v.toNat

/-- `static_cast<double>(uint64_t)` -/
def u64ToDouble (v : Nat) : Nat := natToDouble v

/-- `binary::decode_half`: the binary16 value as a binary64 (always exact) -/
def halfToDouble (h : Nat) : Nat :=
  let s := h / 2 ^ 15 % 2
  let e := h / 2 ^ 10 % 32
  let m := h % 2 ^ 10
  let mag :=
    if e = 31 then (if m = 0 then 2047 * 2 ^ 52 else 2047 * 2 ^ 52 + 2 ^ 51)   -- infinity / `std::nan("")`
    else if e = 0 then
      (if m = 0 then 0
       else let k := ilog2 m; (1023 + k - 24) * 2 ^ 52 + (m - 2 ^ k) * 2 ^ (52 - k))   -- ldexp(mant, -24)
    else (1023 + e - 15) * 2 ^ 52 + m * 2 ^ 42                                  -- ldexp(mant + 1024, exp - 25)
  s * 2 ^ 63 + mag

/-- the int64 × uint64 arm -/
def cmpIU (a : Int) (b : Nat) : Int :=
  if a < 0 then -1
  else if toU64 a = b then 0
  else if toU64 a < b then -1 else 1

/-- the uint64 × int64 arm -/
def cmpUI (a : Nat) (b : Int) : Int :=
  if b < 0 then 1
  else if a = toU64 b then 0
  else if a < toU64 b then -1 else 1

def cmpII (a b : Int) : Int := if a = b then 0 else if a < b then -1 else 1
def cmpUU (a b : Nat) : Int := if a = b then 0 else if a < b then -1 else 1

mutual
  /-- sign of `lhs.compare(rhs)`; arms in the order of the C++ switch -/
  def compare : CVal → CVal → Int
    | .null, b => sgn (0 - kind b)
    | .emptyObj, .emptyObj => 0
    | .emptyObj, .obj ms => if ms.isEmpty then 0 else -1
    | .emptyObj, b => sgn (4 - kind b)
    | .bool x, .bool y => sgn ((if x then 1 else 0) - (if y then 1 else 0))
    | .bool _, b => sgn (1 - kind b)
    | .i64 x, .i64 y => cmpII x y
    | .i64 x, .u64 y => cmpIU x y
    | .i64 x, .dbl y => subSign (i64ToDouble x) y
    | .i64 _, b => sgn (2 - kind b)
    | .u64 x, .i64 y => cmpUI x y
    | .u64 x, .u64 y => cmpUU x y
    | .u64 x, .dbl y => subSign (u64ToDouble x) y
    | .u64 _, b => sgn (3 - kind b)
    | .half x, .half y => subSign (halfToDouble x) (halfToDouble y)
    | .half _, b => sgn (6 - kind b)
    | .dbl x, .i64 y => subSign x (i64ToDouble y)
    | .dbl x, .u64 y => subSign x (u64ToDouble y)
    | .dbl x, .dbl y => subSign x y
    | .dbl _, b => sgn (5 - kind b)
    | .str x, .str y => bytesCmp x y
    | .str x, b => sgn (kind (.str x) - kind b)
    | .bstr x, .bstr y => bytesCmp x y
    | .bstr _, b => sgn (12 - kind b)
    | .arr xs, .arr ys => if arrEq xs ys then 0 else if arrLt xs ys then -1 else 1
    | .arr _, b => sgn (14 - kind b)
    | .obj ms, .emptyObj => if ms.isEmpty then 0 else 1
    | .obj ms, .obj ns => if objEq ms ns then 0 else if objLt ms ns then -1 else 1
    | .obj _, b => sgn (13 - kind b)
  termination_by a b => sizeOf a + sizeOf b
  /-- `std::vector<json>::operator==`: equal sizes and `std::equal` with `json::operator==` -/
  def arrEq : List CVal → List CVal → Bool
    | [], [] => true
    | x :: xs, y :: ys => compare x y == 0 && arrEq xs ys
    | _, _ => false
  termination_by a b => sizeOf a + sizeOf b
  /-- `std::vector<json>::operator<`: `std::lexicographical_compare` with `json::operator<` -/
  def arrLt : List CVal → List CVal → Bool
    | [], [] => false
    | [], _ :: _ => true
    | _ :: _, [] => false
    | x :: xs, y :: ys => if compare x y < 0 then true else if compare y x < 0 then false else arrLt xs ys
  termination_by a b => sizeOf a + sizeOf b
  /-- `std::vector<key_value>::operator==` with `key_value::operator==` (`key == key && value == value`) -/
  def objEq : List (Bytes × CVal) → List (Bytes × CVal) → Bool
    | [], [] => true
    | (k, x) :: ms, (l, y) :: ns => k == l && compare x y == 0 && objEq ms ns
    | _, _ => false
  termination_by a b => sizeOf a + sizeOf b
  /-- `std::lexicographical_compare` with `key_value::operator<` (`key < key || (key == key && value < value)`) -/
  def objLt : List (Bytes × CVal) → List (Bytes × CVal) → Bool
    | [], [] => false
    | [], _ :: _ => true
    | _ :: _, [] => false
    | (k, x) :: ms, (l, y) :: ns =>
      if keyLt k l || (k == l && compare x y < 0) then true
      else if keyLt l k || (l == k && compare y x < 0) then false
      else objLt ms ns
  termination_by a b => sizeOf a + sizeOf b
end

/-- the six operators -/
def opEq (a b : CVal) : Bool := compare a b == 0
def opNe (a b : CVal) : Bool := compare a b != 0
def opLt (a b : CVal) : Bool := compare a b < 0
def opLe (a b : CVal) : Bool := compare a b ≤ 0
def opGt (a b : CVal) : Bool := compare a b > 0
def opGe (a b : CVal) : Bool := compare a b ≥ 0

end Compare
end Model
end JV
