/-
  JV.Model.Compare — the integer arms of `basic_json::compare` (basic_json.hpp, int64/uint64 × int64/uint64), with the
  C++ conversions written out: `static_cast<uint64_t>(x)` of a signed value is reduction mod 2^64.
-/
import JV.Basic.JVal
namespace JV
namespace Model
namespace Compare

/-- a stored integer: `json_storage_kind::int64` or `::uint64` -/
inductive Stored where
  | i64 (v : Int)      -- -2^63 ≤ v < 2^63
  | u64 (v : Nat)      -- v < 2^64
  deriving Repr, DecidableEq

def toU64 (v : Int) : Nat := (v % (2 ^ 64 : Int)).toNat

def Stored.val : Stored → Int
  | .i64 v => v
  | .u64 v => v

def Stored.WF : Stored → Prop
  | .i64 v => -(2 ^ 63 : Int) ≤ v ∧ v < 2 ^ 63
  | .u64 v => v < 2 ^ 64

/-- `compare(lhs, rhs)` for the four integer storage combinations -/
def compare : Stored → Stored → Int
  | .i64 a, .i64 b => if a = b then 0 else if a < b then -1 else 1
  | .i64 a, .u64 b =>
    if a < 0 then -1
    else if toU64 a = b then 0
    else if toU64 a < b then -1 else 1
  | .u64 a, .i64 b =>
    if b < 0 then 1
    else if a = toU64 b then 0
    else if a < toU64 b then -1 else 1
  | .u64 a, .u64 b => if a = b then 0 else if a < b then -1 else 1

end Compare
end Model
end JV
