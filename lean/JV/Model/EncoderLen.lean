/-
  JV.Model.EncoderLen — the item-count bookkeeping of cbor_encoder.hpp (stack_item, end_value,
  visit_begin_array/object with and without a length, visit_end_array/object :265-372): what makes the
  encoder report too_few_items / too_many_items.
-/
import JV.Basic.JVal
namespace JV
namespace Model
namespace EncoderLen

inductive Ev where
  | beginArr (declared : Option Nat)
  | endArr
  | beginObj (declared : Option Nat)
  | endObj
  | key
  | scalar
  deriving Repr, DecidableEq

inductive Err where
  | tooFew | tooMany | unbalanced
  deriving Repr, DecidableEq

structure Frame where
  isObj : Bool
  declared : Option Nat
  index : Nat
  deriving Repr, DecidableEq

def Frame.count (f : Frame) : Nat := if f.isObj then f.index / 2 else f.index

/-- `end_value()`: one more item in the enclosing container -/
def endValue : List Frame → List Frame
  | [] => []
  | f :: fs => { f with index := f.index + 1 } :: fs

def closeTop : List Frame → Except Err (List Frame)
  | [] => .error .unbalanced
  | f :: fs =>
    match f.declared with
    | none => .ok (endValue fs)
    | some n =>
      if f.count < n then .error .tooFew
      else if f.count > n then .error .tooMany
      else .ok (endValue fs)

def step (st : List Frame) : Ev → Except Err (List Frame)
  | .beginArr d => .ok ({ isObj := false, declared := d, index := 0 } :: st)
  | .beginObj d => .ok ({ isObj := true, declared := d, index := 0 } :: st)
  | .endArr => closeTop st
  | .endObj => closeTop st
  | .key => .ok (endValue st)
  | .scalar => .ok (endValue st)

def run : List Frame → List Ev → Except Err (List Frame)
  | st, [] => .ok st
  | st, e :: es =>
    match step st e with
    | .error x => .error x
    | .ok st' => run st' es

/-- the pushed data as a tree, each container with the length it was announced with (if any) -/
inductive Tree where
  | scalar
  | arr (declared : Option Nat) (items : List Tree)
  | obj (declared : Option Nat) (members : List Tree)     -- one entry per member (its value)
  deriving Repr

mutual
  def events : Tree → List Ev
    | .scalar => [.scalar]
    | .arr d xs => .beginArr d :: (eventsList xs ++ [.endArr])
    | .obj d ms => .beginObj d :: (eventsMembers ms ++ [.endObj])
  def eventsList : List Tree → List Ev
    | [] => []
    | x :: xs => events x ++ eventsList xs
  def eventsMembers : List Tree → List Ev
    | [] => []
    | x :: xs => .key :: (events x ++ eventsMembers xs)
end

mutual
  /-- every announced length equals the number of items actually pushed -/
  def Exact : Tree → Prop
    | .scalar => True
    | .arr d xs => (∀ n, d = some n → n = xs.length) ∧ ExactList xs
    | .obj d ms => (∀ n, d = some n → n = ms.length) ∧ ExactList ms
  def ExactList : List Tree → Prop
    | [] => True
    | x :: xs => Exact x ∧ ExactList xs
end

end EncoderLen
end Model
end JV
