/-
  JV.Model.Typed — what the reflection traits compute, over a universe of type descriptors.

  `conv t j` is "convert the JSON value j to the C++ type described by t and express the result as JSON again" — the
  composition `to_json ∘ try_as` of json_traits.hpp / reflect_traits_gen.hpp, which is also what the streaming route
  (`decode_traits` then `encode_traits`) must compute for the two routes to agree. The typed values of `t` are thereby
  represented by their canonical JSON forms (`conv t v = ok v`).

  Modelled leniencies (both routes share them): integers from booleans, booleans from integers; `optional`/smart pointer
  from null; unknown struct members ignored; a null optional member is the same as an absent one; tuples take the leading
  elements of a longer array; sets are sorted and de-duplicated (multisets sorted only; an unordered_set is compared as a set: the
  check sorts its elements). A pair and a std::array take an array of exactly their length. Not modelled (`unjudged`): integers out of the target's range
  (as<T> converts modulo 2^n), integers from strings (prefix and radix rules of to_integer), anything converted to std::string
  other than a string (known finding D57: the basic_json route stringifies, the streaming route rejects).
-/
import JV.Basic.JVal
namespace JV
namespace Model
namespace Typed
open Assoc

inductive Err where
  | conv          -- a conversion error (conv_error / ser_error)
  | unjudged
  deriving DecidableEq, Repr

mutual
  inductive Ty where
    | int (lo hi : Int)
    | str
    | bool
    | seq (t : Ty)
    | set (t : Ty) (multi : Bool)     -- std::set / std::unordered_set of strings (multi = false), std::multiset (multi = true)
    | map (t : Ty)
    | tuple (ts : List Ty)
    | pair (a b : Ty)
    | array (t : Ty) (n : Nat)
    | opt (t : Ty)                    -- std::optional, std::shared_ptr
    | enum (names : List Bytes)
    | variant (ts : List Ty)
    | struct (ms : List Member)
  inductive Member where
    | mk (name : Bytes) (t : Ty) (mandatory : Bool)
end

/-- `is<T>()` for the alternatives of a variant (strict: no conversions) -/
def isStrict : Ty → JVal → Bool
  | .int lo hi, .int i => decide (lo ≤ i ∧ i ≤ hi)
  | .str, .str _ => true
  | .bool, .bool _ => true
  | _, _ => false

def insertKey (k : Bytes) (v : JVal) (ms : List (Bytes × JVal)) : List (Bytes × JVal) :=
  insertSorted k v (erase k ms)

def sortDedup (ss : List Bytes) : List Bytes :=
  ss.foldl (fun acc s => if acc.contains s then acc else
    let rec ins : List Bytes → List Bytes
      | [] => [s]
      | x :: xs => if keyLt s x then s :: x :: xs else x :: ins xs
    ins acc) []

def insSorted (s : Bytes) : List Bytes → List Bytes
  | [] => [s]
  | x :: xs => if keyLt s x then s :: x :: xs else x :: insSorted s xs

/-- a multiset keeps equal elements -/
def sortAll (ss : List Bytes) : List Bytes :=
  ss.foldl (fun acc s => insSorted s acc) []

def allStr : List JVal → Option (List Bytes)
  | [] => some []
  | .str s :: xs => (allStr xs).map (s :: ·)
  | _ => none

mutual
  def conv : Ty → JVal → Except Err JVal
    | .int lo hi, v => match v with
      | .int i => if lo ≤ i ∧ i ≤ hi then .ok (.int i) else .error .unjudged
      | .bool b => .ok (.int (if b then 1 else 0))
      | .str s => if s.any (fun c => 48 ≤ c ∧ c ≤ 57) then .error .unjudged else .error .conv
      | _ => .error .conv
    | .str, v => match v with
      | .str s => .ok (.str s)
      | _ => .error .unjudged
    | .bool, v => match v with
      | .bool b => .ok (.bool b)
      | .int i => .ok (.bool (i != 0))
      | _ => .error .conv
    | .seq t, v => match v with
      | .arr xs => match convList t xs with
        | .ok ys => .ok (.arr ys)
        | .error e => .error e
      | _ => .error .conv
    | .set t multi, v => match v with
      | .arr xs => match convList t xs with
        | .ok ys => match allStr ys with
          | some ss => .ok (.arr ((if multi then sortAll ss else sortDedup ss).map .str))
          | none => .error .unjudged
        | .error e => .error e
      | _ => .error .conv
    | .map t, v => match v with
      | .obj ms => match convMembers t ms with
        | .ok ys => .ok (.obj ys)
        | .error e => .error e
      | _ => .error .conv
    | .tuple ts, v => match v with
      | .arr xs => match convTuple ts xs with
        | .ok ys => .ok (.arr ys)
        | .error e => .error e
      | _ => .error .conv
    | .pair a b, v => match v with
      | .arr [x, y] => match conv a x with
        | .error e => .error e
        | .ok x' => match conv b y with
          | .error e => .error e
          | .ok y' => .ok (.arr [x', y'])
      | _ => .error .conv
    | .array t n, v => match v with
      | .arr xs => if xs.length = n then (match convList t xs with
          | .ok ys => .ok (.arr ys)
          | .error e => .error e) else .error .conv
      | _ => .error .conv
    | .opt t, v => match v with
      | .null => .ok .null
      | _ => conv t v
    | .enum names, v => match v with
      | .str s => if names.contains s then .ok (.str s) else .error .conv
      | _ => .error .conv
    | .variant ts, v => convVariant ts v
    | .struct ms, v => match v with
      | .obj kvs => match convStruct ms kvs with
        | .ok out => .ok (.obj out)
        | .error e => .error e
      | _ => .error .conv
  def convList : Ty → List JVal → Except Err (List JVal)
    | _, [] => .ok []
    | t, x :: xs => match conv t x with
      | .error e => .error e
      | .ok y => match convList t xs with
        | .error e => .error e
        | .ok ys => .ok (y :: ys)
  def convMembers : Ty → List (Bytes × JVal) → Except Err (List (Bytes × JVal))
    | _, [] => .ok []
    | t, (k, x) :: ms => match conv t x with
      | .error e => .error e
      | .ok y => match convMembers t ms with
        | .error e => .error e
        | .ok ys => .ok ((k, y) :: ys)
  /-- the leading elements, one per component; a shorter array is an error, a longer one is cut -/
  def convTuple : List Ty → List JVal → Except Err (List JVal)
    | [], _ => .ok []
    | _ :: _, [] => .error .conv
    | t :: ts, x :: xs => match conv t x with
      | .error e => .error e
      | .ok y => match convTuple ts xs with
        | .error e => .error e
        | .ok ys => .ok (y :: ys)
  /-- the first alternative the value *is* (no conversions) -/
  def convVariant : List Ty → JVal → Except Err JVal
    | [], _ => .error .conv
    | t :: ts, v => if isStrict t v then conv t v else convVariant ts v
  /-- declared members in key order: a present member is converted, an absent or null optional one is left out, an absent
      mandatory one is an error; members that are not declared are ignored -/
  def convStruct : List Member → List (Bytes × JVal) → Except Err (List (Bytes × JVal))
    | [], _ => .ok []
    | .mk name t mandatory :: ms, kvs =>
      match convStruct ms kvs with
      | .error e => .error e
      | .ok rest =>
        match find name kvs with
        | none => if mandatory then .error .conv else .ok rest
        | some x => match conv t x with
          | .error e => .error e
          | .ok y => if !mandatory && y.isNull then .ok rest else .ok (insertKey name y rest)
end

end Typed
end Model
end JV
