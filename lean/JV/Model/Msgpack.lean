/-
  JV.Model.Msgpack — the encoder of msgpack_encoder.hpp on the data-model core, byte for byte.

    visit_int64 / visit_uint64 (:540-749, untagged branch)   writeInt
        val >= 0 : <= 0x7f positive fixint | <= 0xff 0xcc | <= 0xffff 0xcd | <= 0xffffffff 0xce | else 0xcf
                   (the int64 and the uint64 visitor write the same bytes for the same non-negative value)
        val <  0 : >= -32 negative fixint (the int8 pattern) | >= -128 0xd0 | >= -32768 0xd1 | >= -2^31 0xd2 | else 0xd3
    visit_double (:515-538)                                   encodeDouble: `(float)val`, `(double)valf == val` → 0xca else 0xcb
    write_string_value (:382-419)                             strHead: <= 31 fixstr | <= 0xff 0xd9 | <= 0xffff 0xda | <= 0xffffffff 0xdb
    visit_byte_string (:421-454)                              binHead: <= 0xff 0xc4 | <= 0xffff 0xc5 | <= 0xffffffff 0xc6
    visit_begin_array (:203-229)                              arrHead: <= 15 fixarray | <= 0xffff 0xdc | <= 0xffffffff 0xdd
    visit_begin_object (:144-174)                             mapHead: <= 15 fixmap | <= 0xffff 0xde | <= 0xffffffff 0xdf
    visit_key = visit_string without a tag (:253-257)

  Bug-faithful detail: for a length above 2^32-1 none of the branches is taken, so NO head is written at all
  (the payload follows bare). The model does the same; the round-trip theorem has lengths < 2^32 as a hypothesis.
  Text is assumed to be valid UTF-8 (the real encoder throws on anything else before writing a byte).
-/
import JV.Model.Cbor
namespace JV
namespace Model
namespace Msgpack
open Cbor (CV beBytes narrowF32)

/-- `visit_int64` / `visit_uint64`, no tag -/
def writeInt (v : Int) : Bytes :=
  if v ≥ 0 then
    let n := v.toNat
    if n ≤ 0x7f then [n]
    else if n ≤ 0xff then [0xcc, n]
    else if n ≤ 0xffff then 0xcd :: beBytes 2 n
    else if n ≤ 0xffffffff then 0xce :: beBytes 4 n
    else 0xcf :: beBytes 8 n
  else
    if v ≥ -32 then [(256 + v).toNat]
    else if v ≥ -128 then [0xd0, (256 + v).toNat]
    else if v ≥ -32768 then 0xd1 :: beBytes 2 (65536 + v).toNat
    else if v ≥ -2147483648 then 0xd2 :: beBytes 4 (4294967296 + v).toNat
    else 0xd3 :: beBytes 8 (18446744073709551616 + v).toNat

/-- `visit_double`: float32 when the narrowing is exact, else float64 -/
def encodeDouble (bits : Nat) : Bytes :=
  match narrowF32 bits with
  | some f => 0xca :: beBytes 4 f
  | none => 0xcb :: beBytes 8 bits

/-- the head `write_string_value` writes before the text -/
def strHead (n : Nat) : Bytes :=
  if n ≤ 31 then [0xa0 + n]
  else if n ≤ 0xff then [0xd9, n]
  else if n ≤ 0xffff then 0xda :: beBytes 2 n
  else if n ≤ 0xffffffff then 0xdb :: beBytes 4 n
  else []

/-- the head `visit_byte_string` writes before the bytes (there is no "fixbin") -/
def binHead (n : Nat) : Bytes :=
  if n ≤ 0xff then [0xc4, n]
  else if n ≤ 0xffff then 0xc5 :: beBytes 2 n
  else if n ≤ 0xffffffff then 0xc6 :: beBytes 4 n
  else []

def arrHead (n : Nat) : Bytes :=
  if n ≤ 15 then [0x90 + n]
  else if n ≤ 0xffff then 0xdc :: beBytes 2 n
  else if n ≤ 0xffffffff then 0xdd :: beBytes 4 n
  else []

def mapHead (n : Nat) : Bytes :=
  if n ≤ 15 then [0x80 + n]
  else if n ≤ 0xffff then 0xde :: beBytes 2 n
  else if n ≤ 0xffffffff then 0xdf :: beBytes 4 n
  else []

mutual
  /-- `encode_msgpack(value)` on the core (the value type is the one the CBOR model uses: the data-model core) -/
  def encode : CV → Bytes
    | .null => [0xc0]
    | .bool b => [if b then 0xc3 else 0xc2]
    | .int i => writeInt i
    | .dbl b => encodeDouble b
    | .str s => strHead s.length ++ s
    | .bytes b => binHead b.length ++ b
    | .arr xs => arrHead xs.length ++ encodeList xs
    | .map ms => mapHead ms.length ++ encodeMembers ms
  def encodeList : List CV → Bytes
    | [] => []
    | x :: xs => encode x ++ encodeList xs
  def encodeMembers : List (Bytes × CV) → Bytes
    | [] => []
    | (k, x) :: ms => (strHead k.length ++ k) ++ encode x ++ encodeMembers ms
end

end Msgpack
end Model
end JV
