/-
  JV.Model.Object — the object member primitives the DOM algorithms call, for both object
  flavours (`ordered = false`: sorted_json_object.hpp, `ordered = true`: ordered_json_object.hpp).
  Here at the level "position found by key"; the lower_bound-based forms and the proof that they
  coincide under the representation invariant are in JV.Model.SortedObject / C09.
-/
import JV.Basic.JVal
namespace JV
namespace Model
open Assoc

/-- `object.try_emplace(k, v)`: no effect when the key is present. -/
def tryEmplace (ordered : Bool) (k : Bytes) (v : JVal) (ms : List (Bytes × JVal)) : List (Bytes × JVal) :=
  match find k ms with
  | some _ => ms
  | none => if ordered then ms ++ [(k, v)] else insertSorted k v ms

/-- assignment through a reference to the member's value (`(*it).value(...)`, `at(k) = ...`) -/
def replaceVal (k : Bytes) (v : JVal) : List (Bytes × JVal) → List (Bytes × JVal)
  | [] => []
  | (k', v') :: ms => if k' = k then (k', v) :: ms else (k', v') :: replaceVal k v ms

/-- `object.insert_or_assign(k, v)` -/
def insertOrAssign (ordered : Bool) (k : Bytes) (v : JVal) (ms : List (Bytes × JVal)) : List (Bytes × JVal) :=
  match find k ms with
  | some _ => replaceVal k v ms
  | none => if ordered then ms ++ [(k, v)] else insertSorted k v ms

/-- `array.insert(begin()+i, v)` for `i ≤ size` -/
def insertAt (i : Nat) (v : JVal) (xs : List JVal) : List JVal := xs.take i ++ v :: xs.drop i

end Model
end JV
