/-
  JV.Model.Unflatten — `jsonpointer::unflatten` (jsonpointer.hpp:1373-1537) as the code performs it:
  `unflatten`, `unflatten_object`, `try_unflatten_array`, `find_inner_last`.

  The code parses every member name of the flat object into a `basic_json_pointer` (throwing on a
  syntax error), puts them in a `std::map<basic_json_pointer, const Json*>` (ordered by
  `vector<string>::operator<`, i.e. token-wise lexicographic) and walks iterator ranges
  `[first, last)` of that map with an `offset`: all entries of a range share their first `offset`
  tokens.  Here a range is the list of its entries with those shared tokens removed
  (`tokens().size() == offset` is `ts = []`, `*(tokens().begin()+offset)` is the head).

  * `unflatten_object`: a range consisting of one entry with no tokens left is that entry's value;
    otherwise entries with no tokens left are skipped, an entry with one token left is
    `try_emplace`d (first wins), an entry with more opens a group — all following entries with the
    same head (`find_inner_last`) — whose value is `try_unflatten_array` of the group (option
    `none`) or `unflatten_object` of it (`assume_object`), again `try_emplace`d.
  * `try_unflatten_array`: the same partition; every head must be accepted by
    `detail::to_array_index` (RFC 6901 array-index; before /repo 52dff66 raw `dec_to_integer`
    made "00" and "0" the same index, D87) and is `emplace`d into a `std::map<size_t, Json>`; if that map's
    keys are exactly 0..size-1 the result is the array of its values, in every other case
    (an entry with no tokens left, a head that is not a number, a gap) the result is
    `unflatten_object(first, last, offset, none)` of the same range.  The optional it returns is
    always engaged, so the `if (!res)` branches of the callers are dead.
  * `find_inner_last` dereferences `tokens().begin() + offset` without a size check; on an entry
    with no tokens left that is a read past the end.  It cannot happen on a sorted map (such an
    entry sorts before every entry that extends it); the model stops the group there.

  Recursion is on `fuel` = 1 + the longest token list (the depth of the walk).
-/
import JV.Model.Pointer
namespace JV
namespace Model
namespace Pointer
open Assoc

abbrev Entry := List Bytes × JVal

/-- `std::vector<std::string>::operator<` -/
def toksLt : List Bytes → List Bytes → Bool
  | [], [] => false
  | [], _ :: _ => true
  | _ :: _, [] => false
  | a :: as, b :: bs => if keyLt a b then true else if keyLt b a then false else toksLt as bs

/-- `std::map::emplace` on a list kept strictly increasing under `lt`: an existing key wins -/
def mapEmplace {α β : Type} (lt : α → α → Bool) (k : α) (v : β) : List (α × β) → List (α × β)
  | [] => [(k, v)]
  | (k', v') :: ms =>
    if lt k' k then (k', v') :: mapEmplace lt k v ms
    else if lt k k' then (k, v) :: (k', v') :: ms
    else (k', v') :: ms

/-- a sequence of `emplace`s -/
def emplaceAll {α β : Type} (lt : α → α → Bool) (acc : List (α × β)) (es : List (α × β)) : List (α × β) :=
  es.foldl (fun m e => mapEmplace lt e.1 e.2 m) acc

inductive Item where
  | skip                                   -- tokens().size() == offset
  | direct (t : Bytes) (v : JVal)          -- offset + 1 == tokens().size()
  | group (t : Bytes) (inner : List Entry) -- [it, find_inner_last(it, last, offset, t)), one token shorter
  deriving Repr

def headIs (t : Bytes) : Entry → Bool
  | (t' :: _, _) => t' = t
  | ([], _) => false

def strip : Entry → Entry
  | (_ :: ts, v) => (ts, v)
  | e => e

theorem length_dropWhile_le {α : Type} (p : α → Bool) : ∀ l : List α, (l.dropWhile p).length ≤ l.length
  | [] => by simp
  | a :: l => by
    simp only [List.dropWhile]
    split
    · have := length_dropWhile_le p l; simp; omega
    · simp

/-- the partition of a range both loops perform -/
def items : List Entry → List Item
  | [] => []
  | ([], _) :: rest => .skip :: items rest
  | ([t], v) :: rest => .direct t v :: items rest
  | (t :: t2 :: ts, v) :: rest =>
    .group t ((t2 :: ts, v) :: (rest.takeWhile (headIs t)).map strip) :: items (rest.dropWhile (headIs t))
termination_by es => es.length
decreasing_by
  all_goals simp_wf
  all_goals first
    | omega
    | (have := length_dropWhile_le (headIs t) rest; omega)

def natLt (a b : Nat) : Bool := decide (a < b)

/-- the index of an item's head as `detail::to_array_index` reads it (RFC 6901 array-index: no
    leading zeros, fits `size_t`) -/
def itemIndex : Item → Option Nat
  | .skip => none
  | .direct t _ | .group t _ => decToIndex t

/-- keys are exactly 0..size-1 (the `index` loop of `try_unflatten_array`) -/
def contiguousFrom : Nat → List (Nat × JVal) → Bool
  | _, [] => true
  | i, (n, _) :: ms => n = i && contiguousFrom (i + 1) ms

/-- the loop of `unflatten_object`; `sub` is the call made for a group -/
def objStep (ordered : Bool) (sub : List Entry → JVal) (jo : List (Bytes × JVal)) : Item → List (Bytes × JVal)
  | .skip => jo
  | .direct t v => tryEmplace ordered t v jo
  | .group t inner => tryEmplace ordered t (sub inner) jo

/-- `unflatten_object(first, last, offset, options)` -/
def asObject (ordered : Bool) (sub : List Entry → JVal) (es : List Entry) : JVal :=
  match es with
  | [([], v)] => v                       -- tokens().size() == offset && length == 1
  | _ => .obj ((items es).foldl (objStep ordered sub) [])

/-- what the loop of `try_unflatten_array` emplaces for an item, `none` where it gives up -/
def idxChild (sub : List Entry → JVal) (it : Item) : Option (Nat × JVal) :=
  (itemIndex it).map fun n =>
    (n, match it with
        | .skip => JVal.null
        | .direct _ v => v
        | .group _ inner => sub inner)

/-- `try_unflatten_array` up to its fallback: `none` = "return unflatten_object(first, last, offset, none)" -/
def asArray (sub : List Entry → JVal) (es : List Entry) : Option JVal :=
  match (items es).mapM (idxChild sub) with
  | none => none
  | some ivs =>
    let m := emplaceAll natLt [] ivs
    if contiguousFrom 0 m then some (.arr (m.map (·.2))) else none

/-- `arrays` = (options == unflatten_options::none); `tryArr` = this call is `try_unflatten_array`
    (only ever with `arrays`), otherwise `unflatten_object`. -/
def build (ordered : Bool) : Nat → (arrays tryArr : Bool) → List Entry → JVal
  | 0, _, _, _ => .null
  | fuel + 1, arrays, tryArr, es =>
    if tryArr then
      match asArray (build ordered fuel true true) es with
      | some a => a
      | none => asObject ordered (build ordered fuel true true) es   -- unflatten_object(first, last, offset, none)
    else asObject ordered (build ordered fuel arrays arrays) es

inductive UErr where
  | invalidArgument | pointer (e : PErr)
  deriving Repr, DecidableEq

/-- the `jptrs.emplace(item.key(), &item.value())` loop: the first syntax error is thrown -/
def collect : List (Bytes × JVal) → List Entry → Except PErr (List Entry)
  | [], acc => .ok acc
  | (k, v) :: ms, acc =>
    match parse k with
    | .error e => .error e
    | .ok ts => collect ms (mapEmplace toksLt ts v acc)

def depth : List Entry → Nat
  | [] => 0
  | (ts, _) :: es => max ts.length (depth es)

/-- `unflatten(value, options)`; `assumeObject` = (options == unflatten_options::assume_object) -/
def unflatten (ordered assumeObject : Bool) : JVal → Except UErr JVal
  | .obj (m :: ms) =>
    match collect (m :: ms) [] with
    | .error e => .error (.pointer e)
    | .ok es => .ok (build ordered (depth es + 1) (!assumeObject) (!assumeObject) es)
  | _ => .error .invalidArgument

end Pointer
end Model
end JV
