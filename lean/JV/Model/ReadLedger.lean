/-
  JV.Model.ReadLedger — `source_reader<Source>::read(source, buffer, length)` of source.hpp (:737-815): how a decoder
  obtains `length` claimed bytes (string / byte-string / typed-array payloads) from a source that may hold fewer.
  Each iteration grows the buffer by at most one chunk, reads, and shrinks it back to what actually arrived.
  The ledger records every size the buffer is resized to.
-/
import JV.Basic.JVal
namespace JV
namespace Model
namespace ReadLedger

structure St where
  avail : Nat          -- bytes the source can still deliver
  size : Nat           -- buffer.size()
  unread : Nat
  ledger : List Nat    -- every `resize` argument so far
  deriving Repr

/-- one iteration of `while (unread > 0 && !source.eof())`, chunk size `k` -/
def iter (k : Nat) (s : St) : St :=
  let n := min k s.unread
  let actual := min n s.avail
  { avail := s.avail - actual, size := s.size + actual, unread := s.unread - actual,
    ledger := s.ledger ++ (if actual ≠ n then [s.size + n, s.size + actual] else [s.size + n]) }

def loop (k : Nat) : Nat → St → St
  | 0, s => s
  | fuel + 1, s => if s.unread > 0 ∧ s.avail > 0 then loop k fuel (iter k s) else s

/-- `read(source, buffer, length)` on an empty buffer -/
def read (k length avail : Nat) : St := loop k (length + 1) { avail := avail, size := 0, unread := length, ledger := [] }

end ReadLedger
end Model
end JV
