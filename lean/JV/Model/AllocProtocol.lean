/-
  JV.Model.AllocProtocol — the order of steps by which `basic_json::copy_assignment` replaces a heap-backed value, with an
  allocation that may fail. Steps as in basic_json.hpp: `destroy()` releases the target's storage, `uninitialized_copy_a` allocates
  and builds the copy (the only step that can fail), `uninitialized_move` installs a built value without allocating.
-/
namespace JV
namespace Model
namespace AllocProtocol

inductive Step where
  | destroyOld        -- destroy(): the target's old storage is released; its discriminator still names it
  | buildCopy         -- allocate and copy (may fail)
  | install           -- the target takes the built copy (no allocation)
  deriving DecidableEq, Repr

inductive Target where
  | old               -- still holds its old value
  | dangling          -- discriminator names storage that was released
  | new               -- holds the new value
  deriving DecidableEq, Repr

structure St where
  target : Target := .old
  copyBuilt : Bool := false
  leaked : Bool := false          -- a built copy that nobody owns
  deriving DecidableEq, Repr

/-- run the steps; `failAt = some k` makes the k-th step fail if it is an allocation; a failure stops the run (the exception
    unwinds; a built copy held in a local is released by its destructor) -/
def run : List Step → Option Nat → St → St
  | [], _, s => s
  | .destroyOld :: rest, f, s => run rest (f.map (· - 1)) { s with target := if s.target = .old then .dangling else s.target }
  | .buildCopy :: rest, f, s => if f = some 0 then s else run rest (f.map (· - 1)) { s with copyBuilt := true }
  | .install :: rest, f, s => run rest (f.map (· - 1)) { s with target := if s.copyBuilt then .new else s.target, copyBuilt := false }

/-- as the code was: destroy first -/
def destroyFirst : List Step := [.destroyOld, .buildCopy, .install]
/-- as repaired: build first -/
def buildFirst : List Step := [.buildCopy, .destroyOld, .install]

def Safe (s : St) : Prop := s.target ≠ .dangling ∧ s.leaked = false

instance (s : St) : Decidable (Safe s) := by unfold Safe; exact inferInstance

end AllocProtocol
end Model
end JV
