/-
  JV.Model.MsgpackParser — bug-faithful functional model of include/jsoncons_ext/msgpack/msgpack_parser.hpp
  (basic_msgpack_parser), the whole item grammar.

  What is transcribed (line numbers of msgpack_parser.hpp at /repo HEAD):
    parse()                  :158-230   the parse_mode state stack (root / accept / array / map_key / map_value) flattened into
                                        `item` / `items` / `members`, structural recursion on a fuel argument
    read_item()              :233-664   the type-byte dispatch: positive fixint, fixmap, fixarray, fixstr, negative fixint, nil, false, true,
                                        float32/64, uint8..64, int8..64, str8/16/32, bin8/16/32, fixext1/2/4/8/16 and ext8/16/32
                                        (ext type -1 with a 4 / 8 / 12 byte payload = timestamp 32 / 64 / 96; every other (type, length)
                                        pair = a byte string carrying the ext type), array16/32, map16/32, `default: unknown_type` (0xc1)
    begin_array/begin_object :666-709   `++nesting_depth_ > max_nesting_depth_` BEFORE the length is read
    end_array/end_object     :684-717   `--nesting_depth_`
    get_size                 :719-796   1 / 2 / 4 length bytes big-endian (unexpected_eof when short), the fixext sizes, `type & 0x0f`
  and, from include/jsoncons/generic_visitor.hpp :1068-1518 (basic_generic_to_json_visitor), what happens to a map key that is not a
  string: unsigned / negative integers (also the epoch_second timestamp) become their decimal text, true / false / null become `true` /
  `false` / `null`, a byte string or ext becomes its unpadded base64url text, the epoch_nano timestamp (already a string) is the key.
  Keys that are floats, arrays or maps are rendered through write_double / a JSON text buffer, which is not transcribed: `renderKey`
  answers `none` (the driver prints `skip`).

  Timestamps (:556-622): timestamp 32 → uint64_value(seconds, epoch_second); timestamp 64 → data64 & 0x3ffffffff seconds, data64 >> 34
  nanoseconds; timestamp 96 → uint32 nanoseconds then int64 seconds; both are delivered as the decimal text of
  seconds·10^9 + nanoseconds (a bigint) with the tag epoch_nano. The nanoseconds field is NOT range-checked (the MessagePack
  specification says it "must not be larger than 999999999"; msgpack_errc::invalid_timestamp exists but is never raised).

  The float32 → double widening is the hardware conversion `(double)float`; its value is the exact IEEE 754 widening
  `Spec.Cbor.f32ToF64` (signalling NaNs may be quieted by the hardware: the tie compares NaNs canonically).
-/
import JV.Basic.JVal
import JV.Model.JsonParser
import JV.Model.CborParser
import JV.Spec.Cbor
namespace JV.Model.MsgpackParser
open JV

/-- the `msgpack_errc` values the parser can raise (source_error needs a failing stream: not modelled) -/
inductive Err where
  | unexpectedEof | invalidUtf8TextString | maxNestingDepthExceeded | unknownType
  deriving DecidableEq, Repr

/-- numbering of `enum class msgpack_errc` (msgpack_error.hpp; tied to the header by Extracted.msgpackErrc, Props.C07.mp_model_error_codes) -/
def Err.code : Err → Nat
  | .unexpectedEof => 1
  | .invalidUtf8TextString => 3
  | .maxNestingDepthExceeded => 8
  | .unknownType => 11

def Err.name : Err → String
  | .unexpectedEof => "unexpected_eof"
  | .invalidUtf8TextString => "invalid_utf8_text_string"
  | .maxNestingDepthExceeded => "max_nesting_depth_exceeded"
  | .unknownType => "unknown_type"

/-- why a run of the model did not produce a value -/
inductive Fail where
  | err (e : Err)      -- the parser sets `ec`
  | skip               -- outside the modelled fragment: a list element that is not a uint8_t
  | fuel               -- the fuel of the structural recursion ran out (an artefact of the model: the driver prints `fuel`, which equals
                       -- no real outcome, so the tie would flag it; with `decode`'s fuel 2·|input|+2 it is not observed; not proved)
  deriving DecidableEq, Repr

inductive Res (α : Type) where
  | ok (v : α) (rest : Bytes)
  | fail (f : Fail)
  deriving Repr

/-- the tree of events the parser reports (keys are arbitrary items; the visitor adaptor renders them later) -/
inductive Item where
  | null
  | bool (b : Bool)
  | uint (n : Nat)               -- visitor.uint64_value(…, semantic_tag::none)
  | nint (i : Int)               -- visitor.int64_value
  | dbl (bits : Nat)
  | str (s : Bytes)
  | bytes (b : Bytes)
  | ext (ty : Nat) (b : Bytes)   -- visitor.byte_string_value(data, static_cast<uint8_t>(ext_type))
  | epochSec (n : Nat)           -- visitor.uint64_value(val, semantic_tag::epoch_second)
  | epochNano (i : Int)          -- visitor.string_value(decimal text of the bigint i, semantic_tag::epoch_nano)
  | arr (xs : List Item)
  | map (ms : List (Item × Item))
  deriving Repr, Inhabited

/-- `source_.read(buf, w) != w → unexpected_eof`, else `binary::big_to_native<T>(buf, w)` -/
def readBE (w : Nat) (s : Bytes) : Res Nat :=
  if s.length < w then .fail (.err .unexpectedEof) else .ok (Model.CborParser.bigToNative (s.take w)) (s.drop w)

/-- `big_to_native<intN_t>` / `static_cast<int8_t>`: the two's complement reading of a `w`-byte pattern -/
def asSigned (w : Nat) (n : Nat) : Int := if n < 2 ^ (8 * w - 1) then (n : Int) else (n : Int) - (2 ^ (8 * w) : Nat)

/-- `get_size` (:719-796): the length that follows the type byte -/
def getSize (ty : Nat) (s : Bytes) : Res Nat :=
  if ty = 0xd9 ∨ ty = 0xc4 ∨ ty = 0xc7 then readBE 1 s
  else if ty = 0xda ∨ ty = 0xc5 ∨ ty = 0xc8 ∨ ty = 0xdc ∨ ty = 0xde then readBE 2 s
  else if ty = 0xdb ∨ ty = 0xc6 ∨ ty = 0xc9 ∨ ty = 0xdd ∨ ty = 0xdf then readBE 4 s
  else if ty = 0xd4 then .ok 1 s
  else if ty = 0xd5 then .ok 2 s
  else if ty = 0xd6 then .ok 4 s
  else if ty = 0xd7 then .ok 8 s
  else if ty = 0xd8 then .ok 16 s
  else if (0x8f < ty ∧ ty ≤ 0x9f) ∨ (0x7f < ty ∧ ty ≤ 0x8f) then .ok (ty % 16) s
  else .fail (.err .unknownType)

/-- `source_.read_span(len, …)`: `data.size() != len → unexpected_eof` -/
def readSpan (n : Nat) (s : Bytes) : Res Bytes :=
  if s.length < n then .fail (.err .unexpectedEof) else .ok (s.take n) (s.drop n)

/-- `unicode_traits::validate(...).ec != unicode_errc()` -/
def badUtf8 (b : Bytes) : Bool := (Model.JsonParser.validate b).isSome

/-- fixstr / str8 / str16 / str32 after the length is known (:271-288, :478-496) -/
def readStr (n : Nat) (s : Bytes) : Res Item :=
  match readSpan n s with
  | .fail f => .fail f
  | .ok d r => if badUtf8 d then .fail (.err .invalidUtf8TextString) else .ok (.str d) r

/-- bin8 / bin16 / bin32 after the length is known (:508-521) -/
def readBin (n : Nat) (s : Bytes) : Res Item :=
  match readSpan n s with
  | .fail f => .fail f
  | .ok d r => .ok (.bytes d) r

/-- fixext / ext after the length is known (:538-639): the ext type byte, then the payload -/
def readExt (len : Nat) (s : Bytes) : Res Item :=
  match readBE 1 s with
  | .fail f => .fail f
  | .ok ty s1 =>
    if ty = 255 ∧ len = 4 then                                       -- ext_type == -1: timestamp 32
      (match readBE 4 s1 with | .fail f => .fail f | .ok v r => .ok (.epochSec v) r)
    else if ty = 255 ∧ len = 8 then                                  -- timestamp 64
      (match readBE 8 s1 with
       | .fail f => .fail f
       | .ok v r => .ok (.epochNano (((v % 2 ^ 34 : Nat) : Int) * 1000000000 + ((v / 2 ^ 34 : Nat) : Int))) r)
    else if ty = 255 ∧ len = 12 then                                 -- timestamp 96
      (match readBE 4 s1 with
       | .fail f => .fail f
       | .ok nsec s2 => match readBE 8 s2 with
         | .fail f => .fail f
         | .ok sec r => .ok (.epochNano (asSigned 8 sec * 1000000000 + (nsec : Int))) r)
    else match readSpan len s1 with
      | .fail f => .fail f
      | .ok d r => .ok (.ext ty d) r

/-- a scalar read through `get_size` then a payload reader -/
def sized (ty : Nat) (s : Bytes) (k : Nat → Bytes → Res Item) : Res Item :=
  match getSize ty s with
  | .fail f => .fail f
  | .ok n r => k n r

/-- a fixed-width number: `w` bytes big-endian, then `mk` -/
def number (w : Nat) (s : Bytes) (mk : Nat → Item) : Res Item :=
  match readBE w s with
  | .fail f => .fail f
  | .ok v r => .ok (mk v) r

mutual
  /-- `read_item` with the container modes of `parse()` unrolled; `depth` = `nesting_depth_` on entry -/
  def item (maxDepth : Nat) : Nat → Nat → Bytes → Res Item
    | 0, _, _ => .fail .fuel
    | _, _, [] => .fail (.err .unexpectedEof)                              -- source_.read(&type, 1) == 0
    | fuel + 1, depth, b :: s =>
      if 256 ≤ b then .fail .skip                                          -- not a uint8_t
      else if b ≤ 0x7f then .ok (.uint b) s                                -- positive fixint
      else if b ≤ 0x8f ∨ b = 0xde ∨ b = 0xdf then                          -- fixmap, map16, map32: begin_object
        if depth + 1 > maxDepth then .fail (.err .maxNestingDepthExceeded)
        else (match getSize b s with
          | .fail f => .fail f
          | .ok n s1 => match members maxDepth fuel (depth + 1) n s1 with | .ok ms r => .ok (.map ms) r | .fail f => .fail f)
      else if b ≤ 0x9f ∨ b = 0xdc ∨ b = 0xdd then                          -- fixarray, array16, array32: begin_array
        if depth + 1 > maxDepth then .fail (.err .maxNestingDepthExceeded)
        else (match getSize b s with
          | .fail f => .fail f
          | .ok n s1 => match items maxDepth fuel (depth + 1) n s1 with | .ok xs r => .ok (.arr xs) r | .fail f => .fail f)
      else if b ≤ 0xbf then readStr (b % 32) s                             -- fixstr: len = type & 0x1f
      else if 0xe0 ≤ b then .ok (.nint ((b : Int) - 256)) s                -- negative fixint: static_cast<int8_t>(type)
      else if b = 0xc0 then .ok .null s
      else if b = 0xc3 then .ok (.bool true) s
      else if b = 0xc2 then .ok (.bool false) s
      else if b = 0xca then number 4 s fun v => .dbl (Spec.Cbor.f32ToF64 v)
      else if b = 0xcb then number 8 s .dbl
      else if b = 0xcc then number 1 s .uint
      else if b = 0xcd then number 2 s .uint
      else if b = 0xce then number 4 s .uint
      else if b = 0xcf then number 8 s .uint
      else if b = 0xd0 then number 1 s fun v => .nint (asSigned 1 v)
      else if b = 0xd1 then number 2 s fun v => .nint (asSigned 2 v)
      else if b = 0xd2 then number 4 s fun v => .nint (asSigned 4 v)
      else if b = 0xd3 then number 8 s fun v => .nint (asSigned 8 v)
      else if b = 0xd9 ∨ b = 0xda ∨ b = 0xdb then sized b s readStr
      else if b = 0xc4 ∨ b = 0xc5 ∨ b = 0xc6 then sized b s readBin
      else if (0xd4 ≤ b ∧ b ≤ 0xd8) ∨ b = 0xc7 ∨ b = 0xc8 ∨ b = 0xc9 then sized b s readExt
      else .fail (.err .unknownType)                                       -- 0xc1
  termination_by structural fuel => fuel
  /-- parse_mode::array: `index < length → ++index; read_item` -/
  def items (maxDepth : Nat) : Nat → Nat → Nat → Bytes → Res (List Item)
    | _, _, 0, s => .ok [] s
    | 0, _, _ + 1, _ => .fail .fuel
    | fuel + 1, depth, n + 1, s =>
      match item maxDepth fuel depth s with
      | .fail f => .fail f
      | .ok x s1 => match items maxDepth fuel depth n s1 with
        | .ok xs rest => .ok (x :: xs) rest
        | .fail f => .fail f
  termination_by structural fuel => fuel
  /-- parse_mode::map_key / map_value -/
  def members (maxDepth : Nat) : Nat → Nat → Nat → Bytes → Res (List (Item × Item))
    | _, _, 0, s => .ok [] s
    | 0, _, _ + 1, _ => .fail .fuel
    | fuel + 1, depth, n + 1, s =>
      match item maxDepth fuel depth s with
      | .fail f => .fail f
      | .ok k s1 => match item maxDepth fuel depth s1 with
        | .fail f => .fail f
        | .ok v s2 => match members maxDepth fuel depth n s2 with
          | .ok ms rest => .ok ((k, v) :: ms) rest
          | .fail f => .fail f
  termination_by structural fuel => fuel
end

/-- `msgpack_options::max_nesting_depth()` default (tied to the header by Extracted.Defaults, Props.C10X.default_nesting_depths) -/
def defaultMaxDepth : Nat := 1024

/-- parse_mode::root → read_item → accept: one item, trailing bytes are not looked at -/
def decode (maxDepth : Nat) (s : Bytes) : Res Item := item maxDepth (2 * s.length + 2) 0 s

/-! ### the visitor adaptor: keys become text, numbers / strings / containers go to the json_decoder -/

/-- `bigint::write_string` / `from_integer`: the decimal text of an integer -/
def intText (i : Int) : Bytes :=
  if i < 0 then 45 :: Model.CborParser.decText (-i).toNat else Model.CborParser.decText i.toNat

/-- keys must be strings (the fragment the reference judges) -/
def textKey : Item → Option Bytes
  | .str s => some s
  | _ => none

/-- `basic_generic_to_json_visitor` at a key position of a destination-level object -/
def renderKey : Item → Option Bytes
  | .str s => some s
  | .uint n => some (Model.CborParser.decText n)
  | .epochSec n => some (Model.CborParser.decText n)
  | .nint i => some (intText i)
  | .epochNano i => some (intText i)
  | .bool true => some [116, 114, 117, 101]
  | .bool false => some [102, 97, 108, 115, 101]
  | .null => some [110, 117, 108, 108]
  | .bytes b => some (Model.CborParser.base64url b)
  | .ext _ b => some (Model.CborParser.base64url b)
  | _ => none                                     -- floats (write_double) and containers (JSON text buffer): not transcribed

open Spec.Cbor in
mutual
  /-- the value mapping: model event tree ↦ the reference decoder's value type. uint n ↦ int n, nint i ↦ int i, dbl / str / bytes with the
      empty tag, keys through `key`. With `exts = true` ext items and timestamps are mapped the way the json_decoder stores them (bytes
      tagged `ext`, integer tagged `epoch_second`, decimal text tagged `epoch_nano`); with `exts = false` they have no image (the reference
      leaves their rendering unjudged). -/
  def toBV (key : Item → Option Bytes) (exts : Bool) : Item → Option BV
    | .null => some .null
    | .bool b => some (.bool b)
    | .uint n => some (.int n "")
    | .nint i => some (.int i "")
    | .dbl b => some (.dbl b "")
    | .str s => some (.str s "")
    | .bytes b => some (.bytes b "")
    | .ext _ b => if exts then some (.bytes b "ext") else none
    | .epochSec n => if exts then some (.int n "epoch_second") else none
    | .epochNano i => if exts then some (.str (intText i) "epoch_nano") else none
    | .arr xs => (toBVList key exts xs).map .arr
    | .map ms => (toBVMembers key exts ms).map .map
  def toBVList (key : Item → Option Bytes) (exts : Bool) : List Item → Option (List BV)
    | [] => some []
    | x :: xs => match toBV key exts x, toBVList key exts xs with
      | some v, some vs => some (v :: vs)
      | _, _ => none
  def toBVMembers (key : Item → Option Bytes) (exts : Bool) : List (Item × Item) → Option (List (Bytes × BV))
    | [] => some []
    | (k, x) :: ms => match key k, toBV key exts x, toBVMembers key exts ms with
      | some kb, some v, some vs => some ((kb, v) :: vs)
      | _, _, _ => none
end

end JV.Model.MsgpackParser
